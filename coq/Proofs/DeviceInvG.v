(* The device invariant WITHOUT any condition on dev->to, and its preservation by one device's share of dev_post_poll
   for an ARBITRARY transport preprocess result (pi_pre: the telnet filter of device_tcp.c queues option replies in
   dev->to, which breaks the fields di_to / di_to_head of Proofs/DeviceInv.DInv).

     DInvG d            = the fields of DInv except di_to, di_to_head, plus dg_flags (telemetry / diagnostic callbacks
                          are only carried by actions that also carry a completion callback);  DInv d -> Flags d -> DInvG d
     step_postG         = step_post with DInvG, plus tg_live: every telemetry / diagnostic callback of the pass goes to
                          a client whose action completes LATER in the same pass or is still queued afterwards
     post_poll_one_inv_pre : DInvG d -> ... -> (no hypothesis on pi_pre) -> Ok -> step_postG /\ timer_ok | Hang -> True | _ -> False

   Crash-freedom for an arbitrary dev->to rests on the repair of F38 (GenConsts.SEND_OVERRUN_ASSERT = false, see
   Proofs/DeviceStmtG.v): before it, a send statement that found dev->to full of telnet replies aborted the daemon.
   The lemmas mirror Proofs/DeviceInv.v one for one (suffix G); the old lemmas stay as they are. *)
From Coq Require Import List NArith ZArith Bool Lia.
From PM Require Import Base.Bytes Base.Outcome Base.Dec Gen.GenConsts Gen.GenCbuf Model.ScriptAst Model.Enqueue Model.Script Model.Device
  Proofs.DeviceProofs Proofs.DeviceStmt Proofs.DeviceStmtG Proofs.DeviceInv.
Import ListNotations.
Local Open Scope Z_scope.

(* which client a callback event (other than a completion) is addressed to *)
Definition cb_client (e : ev) : option Z := match e with EvTele c _ | EvDiag c _ => Some c | _ => None end.
(* every telemetry / diagnostic callback in [evs] goes to a client that is completed later in [evs] or is in [q] *)
Definition live (evs : list ev) (q : list Z) : Prop :=
  forall e1 e e2 c, evs = e1 ++ e :: e2 -> cb_client e = Some c -> In c (completions e2 ++ q).
Definition no_cb (evs : list ev) : Prop := Forall (fun e => cb_client e = None) evs.

Lemma live_nil q : live [] q.
Proof. intros [|x e1] e e2 c E; discriminate E. Qed.
Lemma live_no_cb evs q : no_cb evs -> live evs q.
Proof.
  intros H e1 e e2 c E Hc. exfalso. unfold no_cb in H. rewrite Forall_forall in H.
  assert (Hin : In e evs) by (rewrite E; apply in_or_app; right; left; reflexivity). rewrite (H e Hin) in Hc. discriminate Hc.
Qed.
Lemma app_eq_split {A} (a b x : list A) (e : A) (y : list A) : a ++ b = x ++ e :: y ->
  (exists z, a = x ++ e :: z /\ y = z ++ b) \/ (exists z, b = z ++ e :: y /\ x = a ++ z).
Proof.
  revert x. induction a as [|h a IH]; intros x E; cbn [app] in E.
  - right. exists x. auto.
  - destruct x as [|h' x]; cbn [app] in E.
    + injection E as -> E. left. exists a. subst y. auto.
    + injection E as -> E. destruct (IH x E) as [(z & -> & ->)|(z & -> & ->)]; [left; exists z; auto|right; exists z; auto].
Qed.
Lemma live_app a b q : live a (completions b ++ q) -> live b q -> live (a ++ b) q.
Proof.
  intros Ha Hb e1 e e2 c E Hc. apply app_eq_split in E as [(z & -> & ->)|(z & -> & ->)].
  - specialize (Ha e1 e z c eq_refl Hc). rewrite completions_app, <- app_assoc. exact Ha.
  - exact (Hb z e e2 c eq_refl Hc).
Qed.
Lemma live_mono evs q q' : incl q q' -> live evs q -> live evs q'.
Proof. intros Hi H e1 e e2 c E Hc. specialize (H e1 e e2 c E Hc). apply in_app_or in H. apply in_or_app. destruct H; [left|right]; auto. Qed.
(* events of the head action (callbacks go to its client, which is still owed a completion) *)
Lemma live_head a evs q : Forall (cb_of a) evs -> ((a_tele a = true \/ a_hasdiag a = true) -> In (a_client a) q) -> live evs q.
Proof.
  intros H Hq e1 e e2 c E Hc. apply in_or_app. right.
  rewrite Forall_forall in H. assert (Hin : In e evs) by (rewrite E; apply in_or_app; right; left; reflexivity).
  specialize (H e Hin). destruct e; try discriminate Hc; cbn [cb_client] in Hc; injection Hc as <-; destruct H as [-> H]; apply Hq; auto.
Qed.
Lemma no_cb_app a b : no_cb a -> no_cb b -> no_cb (a ++ b).
Proof. intros. now apply Forall_app. Qed.

Definition flag_ok (a : action) : Prop := (a_tele a = true \/ a_hasdiag a = true) -> a_hascb a = true.
Definition Flags (d : device) : Prop := Forall flag_ok (dv_acts d).
Lemma flag_ok_same_id a a' : same_id a a' -> flag_ok a -> flag_ok a'.
Proof. intros (_ & _ & Eh & Et & Ed & _). unfold flag_ok. rewrite Eh, Et, Ed. auto. Qed.

Section InvG.
  Variable rmatch : text -> text -> option pmatch.
  Variable compress : list text -> text.
  Variable sc : bool.

  Notation wf_action := (wf_action compress).
  Notation wf_block := (wf_block compress).
  Notation wf_ctx := (wf_ctx compress).
  Notation cfg_ok := (cfg_ok compress).
  Notation cfg_ok_same := (cfg_ok_same compress).
  Notation create_action_wf := (create_action_wf compress).
  Notation rewind_action_wf := (rewind_action_wf compress).
  Notation queued_cons_rewind := (queued_cons_rewind compress).
  Notation advance_props := (advance_props compress).

  Record DInvG (d : device) : Prop := {
    dg_cfg : cfg_ok d;
    dg_state : dv_cstate d = DEV_NOT_CONNECTED \/ dv_cstate d = DEV_CONNECTING \/ dv_cstate d = DEV_CONNECTED;
    dg_fd : dv_has_fd d = false <-> dv_cstate d = DEV_NOT_CONNECTED;
    dg_li : dv_logged_in d = true -> dv_cstate d = DEV_CONNECTED;
    dg_acts : Forall (wf_action (sd_plugs (dv d))) (dv_acts d);
    dg_tail : Forall (fun a => is_login a = false) (tl (dv_acts d));
    dg_head : (exists l r, dv_acts d = l :: r /\ is_login l = true) <-> (dv_cstate d = DEV_CONNECTED /\ dv_logged_in d = false);
    dg_cb : Forall (fun a => a_hascb a = true -> is_login a = false) (dv_acts d);
    dg_flags : Flags d
  }.

  Lemma DInv_G d : DInv compress d -> Flags d -> DInvG d.
  Proof. intros I F. constructor; [exact (di_cfg _ d I)|exact (di_state _ d I)|exact (di_fd _ d I)|exact (di_li _ d I)|exact (di_acts _ d I)|exact (di_tail _ d I)|exact (di_head _ d I)|exact (di_cb _ d I)|exact F]. Qed.

  Lemma no_login_when_unconnectedG d : DInvG d -> dv_cstate d <> DEV_CONNECTED -> Forall (fun a => is_login a = false) (dv_acts d).
  Proof.
    intros I Hc. destruct (dv_acts d) as [|h r] eqn:Ea; [constructor|].
    constructor.
    - destruct (is_login h) eqn:El; [|reflexivity]. exfalso. apply Hc.
      apply (proj1 (dg_head d I)). exists h, r. rewrite Ea. auto.
    - pose proof (dg_tail d I) as Ht. rewrite Ea in Ht. exact Ht.
  Qed.

  Definition QInvG (d : device) : Prop := QInv compress d /\ Flags d.
  Lemma DInvG_QInvG d : DInvG d -> QInvG d.
  Proof. intros I. split; [|exact (dg_flags d I)]. split; [apply (dg_cfg d I)|]. split; [apply (dg_acts d I)|]. split; [apply (dg_tail d I)|apply (dg_cb d I)]. Qed.

  Lemma flags_rewind (h : action) (r : list action) plugs : wf_action plugs h -> Forall flag_ok (h :: r) -> Forall flag_ok (rewind_action h :: r).
  Proof.
    intros Hw H. inversion H; subst. constructor; [|assumption].
    destruct (rewind_action_wf plugs h Hw) as (_ & Hid & _). eapply flag_ok_same_id; eassumption.
  Qed.
  Lemma flag_ok_login s : flag_ok (create_action s PM_LOG_IN None 0 false false false None).
  Proof. intros [H|H]; discriminate H. Qed.

  (* ---------- _enqueue_actions(PM_LOG_IN) on a freshly connected device ---------- *)
  Lemma enqueue_login_invG d :
    cfg_ok d -> Forall (wf_action (sd_plugs (dv d))) (dv_acts d) -> Forall (fun a => is_login a = false) (dv_acts d) ->
    Flags d ->
    exists s d', enqueue_login d = Ok d' /\ assoc_script PM_LOG_IN (dv_scripts d) = Some s /\
      d' = set_acts (create_action s PM_LOG_IN None 0 false false false None
                       :: (match dv_acts d with [] => [] | h :: r => rewind_action h :: r end)) d /\
      Forall (wf_action (sd_plugs (dv d))) (dv_acts d') /\ Forall (fun a => is_login a = false) (tl (dv_acts d')) /\ Flags d'.
  Proof.
    intros [[s Hs] Hall] Hw Hn Hfl. unfold enqueue_login. rewrite Hs. exists s. eexists. split; [reflexivity|]. split; [reflexivity|].
    split; [reflexivity|]. unfold Flags in *. cbn [dv_acts set_acts tl]. split; [|split].
    - constructor.
      + apply create_action_wf; [now apply (Hall PM_LOG_IN)|exact I| |congruence].
        intros H. rewrite (proj1 login_ping_not_ranged) in H. discriminate.
      + destruct (dv_acts d) as [|h r]; [constructor|]. inversion Hw; subst. constructor; [|assumption].
        now apply rewind_action_wf.
    - destruct (dv_acts d) as [|h r]; [constructor|]. inversion Hn; subst. constructor; [|assumption].
      unfold is_login in *. destruct (rewind_action_wf _ h ltac:(inversion Hw; eassumption)) as (_ & (Ec & _) & _). now rewrite Ec.
    - constructor; [apply flag_ok_login|]. destruct (dv_acts d) as [|h r]; [constructor|].
      inversion Hw; subst. eapply flags_rewind; eassumption.
  Qed.

  (* ---------- _disconnect ---------- *)
  Lemma disconnect_invG d d' evs : QInvG d -> disconnect d = (d', evs) ->
    DInvG d' /\ same_cfg d d' /\ dv_cstate d' = DEV_NOT_CONNECTED /\ evs = [EvDisconnect] /\ queued d' = queued d /\
    dv_acts d' = (match dv_acts d with h :: r => if is_login h then r else h :: r | [] => [] end) /\
    dv_retry_count d' = dv_retry_count d /\ dv_last_retry d' = dv_last_retry d /\ dv_last_ping d' = dv_last_ping d.
  Proof.
    intros ((Qc & Qa & Qt & Qb) & Qf) H. pose proof (disconnect_spec d d' evs H) as (Hc & Hl & Hf & Hfrom & Hto & He & Ha & Hr1 & Hr2).
    assert (Hcfg : same_cfg d d').
    { unfold disconnect in H. inversion H; subst; clear H. destruct (dv_acts d) as [|h r]; cbn; [repeat split|].
      destruct (Z.eqb (a_com h) PM_LOG_IN); repeat split. }
    assert (Hlp : dv_last_ping d' = dv_last_ping d).
    { unfold disconnect in H. inversion H; subst; clear H. destruct (dv_acts d) as [|h r]; cbn; [reflexivity|].
      destruct (Z.eqb (a_com h) PM_LOG_IN); reflexivity. }
    assert (Hacts : dv_acts d' = match dv_acts d with h :: r => if is_login h then r else h :: r | [] => [] end) by exact Ha.
    assert (Hq : queued d' = queued d).
    { unfold queued. rewrite Hacts. destruct (dv_acts d) as [|h r] eqn:Ea; [reflexivity|].
      destruct (is_login h) eqn:El; [|reflexivity].
      (* a login action never has a completion callback: it was created by enqueue_login *)
      cbn [filter]. destruct (a_hascb h) eqn:Eh; [|reflexivity]. exfalso.
      pose proof Qb as Hcb. try rewrite Ea in Hcb. inversion Hcb as [|? ? Hh Hr0]; subst. rewrite Hh in El by exact Eh. discriminate. }
    split; [|split; [exact Hcfg|repeat split; auto]].
    destruct Hcfg as (S1 & S2 & S3 & S4 & S5).
    constructor.
    - apply (cfg_ok_same d d'); [repeat split; auto|apply Qc].
    - left; exact Hc.
    - split; auto.
    - rewrite Hl. discriminate.
    - rewrite S4, Hacts. pose proof Qa as Hw. destruct (dv_acts d) as [|h r]; [constructor|].
      destruct (is_login h); [inversion Hw; assumption|exact Hw].
    - rewrite Hacts. pose proof Qt as Ht. destruct (dv_acts d) as [|h r]; [constructor|]. cbn [tl] in Ht.
      destruct (is_login h); [|exact Ht]. destruct r; [constructor|]. inversion Ht; assumption.
    - rewrite Hc. split; [|intros [E _]; discriminate E].
      intros (l & r & El & Hlog). exfalso. rewrite Hacts in El. pose proof Qt as Ht.
      destruct (dv_acts d) as [|h r0]; [discriminate|]. cbn [tl] in Ht.
      destruct (is_login h) eqn:Eh.
      + rewrite El in Ht. inversion Ht as [|? ? Hl0 _]. congruence.
      + injection El as E1 E2. subst l. congruence.
    - rewrite Hacts. pose proof Qb as Hcb. destruct (dv_acts d) as [|h r]; [constructor|].
      destruct (is_login h); [inversion Hcb; assumption|exact Hcb].
    - unfold Flags in *. rewrite Hacts. destruct (dv_acts d) as [|h r]; [constructor|].
      destruct (is_login h); [inversion Qf; assumption|exact Qf].
  Qed.

  Ltac conj_split := repeat match goal with |- _ /\ _ => split end.
  Ltac dsimplg := cbn [dv dv_scripts dv_timeout dv_ping_period dv_cstate dv_logged_in dv_has_fd dv_acts dv_last_retry dv_retry_count
                      dv_last_ping dv_succ_conn dv_succ_acts dv_from_size upd_sdev set_conn set_acts set_retry set_last_ping set_stats
                      set_from_size sd_name sd_plugs sd_from sd_to sd_xm sd_xm_used set_from set_to set_xm tl].
  Ltac dsimpl := cbn [dv dv_scripts dv_timeout dv_ping_period dv_cstate dv_logged_in dv_has_fd dv_acts dv_last_retry dv_retry_count
                      dv_last_ping dv_succ_conn dv_succ_acts dv_from_size upd_sdev set_conn set_acts set_retry set_last_ping set_stats
                      set_from_size sd_name sd_plugs sd_from sd_to sd_xm sd_xm_used set_from set_to set_xm tl] in *.

  (* ---------- _connect on a device that is not connected ---------- *)
  Lemma connect_invG now d plans : DInvG d -> dv_cstate d = DEV_NOT_CONNECTED ->
    exists d' pl', connect now d plans = Ok (d', [EvConnect], pl') /\ pl' = tl plans /\
      DInvG d' /\ same_cfg d d' /\ queued d' = queued d /\
      dv_last_retry d' = now /\ dv_retry_count d' = dv_retry_count d + 1 /\ dv_last_ping d' = dv_last_ping d /\
      (dv_cstate d' = DEV_CONNECTED <-> hd ConnFail plans = ConnNow) /\
      (dv_cstate d' = DEV_CONNECTED ->
         exists s, assoc_script PM_LOG_IN (dv_scripts d) = Some s /\
      dv_acts d' = create_action s PM_LOG_IN None 0 false false false None
                          :: (match dv_acts d with [] => [] | h :: r => rewind_action h :: r end)) /\
      (dv_cstate d' <> DEV_CONNECTED -> dv_acts d' = dv_acts d).
  Proof.
    intros I Hc. unfold connect.
    assert (Hfd : dv_has_fd d = false) by (apply (dg_fd d I); exact Hc).
    assert (Hli : dv_logged_in d = false).
    { destruct (dv_logged_in d) eqn:E; [|reflexivity]. pose proof (dg_li d I E) as H. rewrite Hc in H. discriminate H. }
    rewrite Hfd, Hc. cbn [orb negb Z.eqb DEV_NOT_CONNECTED].
    assert (Hd1 : set_retry now (dv_retry_count d + 1) d = set_conn DEV_NOT_CONNECTED false false (set_retry now (dv_retry_count d + 1) d)).
    { destruct d. cbn in Hc, Hfd, Hli. subst. reflexivity. }
    assert (Hnl : Forall (fun a => is_login a = false) (dv_acts d)).
    { apply no_login_when_unconnectedG; [exact I|rewrite Hc; discriminate]. }
    (* the cases that leave the device unconnected or connecting *)
    assert (G : forall cs fd, (cs = DEV_NOT_CONNECTED /\ fd = false) \/ (cs = DEV_CONNECTING /\ fd = true) ->
              let d' := set_conn cs false fd (set_retry now (dv_retry_count d + 1) d) in
              DInvG d' /\ same_cfg d d' /\ queued d' = queued d /\ dv_last_retry d' = now /\
      dv_retry_count d' = dv_retry_count d + 1 /\ dv_last_ping d' = dv_last_ping d /\ dv_cstate d' <> DEV_CONNECTED /\ dv_acts d' = dv_acts d).
    { intros cs fd Hcs d'. unfold d'. split; [|conj_split; dsimpl; auto; try (repeat split; fail); destruct Hcs as [[-> _]|[-> _]]; discriminate].
      constructor; dsimpl.
      - exact (dg_cfg d I).
      - destruct Hcs as [[-> _]|[-> _]]; auto.
      - destruct Hcs as [[-> ->]|[-> ->]]; split; auto; discriminate.
      - discriminate.
      - exact (dg_acts d I).
      - exact (dg_tail d I).
      - split.
        + intros (l & r & El & Hl). exfalso. rewrite El in Hnl. inversion Hnl; subst. congruence.
        + intros [E _]. destruct Hcs as [[-> _]|[-> _]]; discriminate E.
      - exact (dg_cb d I).
      - exact (dg_flags d I). }
    destruct plans as [|[| |] r].
    - destruct (G DEV_NOT_CONNECTED false (or_introl (conj eq_refl eq_refl))) as (G1 & G2 & G3 & G4 & G5 & G6 & G7 & G8).
      eexists _, _. split; [reflexivity|]. split; [reflexivity|].
      rewrite Hd1.
      conj_split; auto; try (split; intros E; try contradiction; discriminate E); try (intros E; contradiction); try discriminate.
    - (* connected at once *)
      set (d2 := set_stats _ _ (set_conn DEV_CONNECTED false true (set_retry now (dv_retry_count d + 1) d))).
      assert (P1 : cfg_ok d2) by (exact (dg_cfg d I)).
      assert (P2 : Forall (wf_action (sd_plugs (dv d2))) (dv_acts d2)) by (exact (dg_acts d I)).
      assert (P3 : Forall (fun a => is_login a = false) (dv_acts d2)) by (exact Hnl).
      assert (P4 : Flags d2) by (exact (dg_flags d I)).
      destruct (enqueue_login_invG d2 P1 P2 P3 P4) as (s & d3 & E3 & Es & Ed3 & Hw3 & Ht3 & Hf3).
      + rewrite E3.
        eexists _, _. split; [reflexivity|]. split; [reflexivity|].
        assert (Hq : queued d3 = queued d).
        { unfold queued. rewrite Ed3. unfold d2. dsimpl. cbn [filter create_action a_hascb].
          pose proof (dg_acts d I) as Hw. destruct (dv_acts d) as [|h r0]; [reflexivity|].
          inversion Hw; subst. eapply queued_cons_rewind; eassumption. }
        split; [|conj_split; try exact Hq; rewrite Ed3; unfold d2; dsimpl; auto; try (repeat split; fail); try discriminate].
        * rewrite Ed3 in *. unfold d2 in *. constructor; dsimpl.
          -- exact (dg_cfg d I).
          -- auto.
          -- split; discriminate.
          -- discriminate.
          -- exact Hw3.
          -- exact Ht3.
          -- split; [auto|]. intros _. eexists _, _. split; [reflexivity|]. reflexivity.
          -- constructor; [discriminate|]. pose proof (dg_cb d I) as Hcb. pose proof (dg_acts d I) as Hw.
             destruct (dv_acts d) as [|h r0]; [constructor|]. inversion Hcb; subst. inversion Hw; subst. constructor; [|assumption].
             destruct (rewind_action_wf _ h ltac:(eassumption)) as (_ & (Ec & _ & Eh & _) & _). unfold is_login in *. rewrite Ec, Eh. assumption.
          -- exact Hf3.
        * intros _. exists s. split; [exact Es|reflexivity].
        * intros E. exfalso. now apply E.
    - destruct (G DEV_CONNECTING true (or_intror (conj eq_refl eq_refl))) as (G1 & G2 & G3 & G4 & G5 & G6 & G7 & G8).
      eexists _, _. split; [reflexivity|]. split; [reflexivity|].
      conj_split; auto; try (split; intros E; try contradiction; discriminate E); try (intros E; contradiction); try discriminate.
    - destruct (G DEV_NOT_CONNECTED false (or_introl (conj eq_refl eq_refl))) as (G1 & G2 & G3 & G4 & G5 & G6 & G7 & G8).
      eexists _, _. split; [reflexivity|]. split; [reflexivity|].
      rewrite Hd1.
      conj_split; auto; try (split; intros E; try contradiction; discriminate E); try (intros E; contradiction); try discriminate.
  Qed.

  (* ---------- _reconnect ---------- *)
  Lemma reconnect_invG now d tmo plans : QInvG d -> (dv_cstate d = DEV_NOT_CONNECTED -> DInvG d) -> tmo_pos tmo ->
    exists d' evs tmo' pl', reconnect now d tmo plans = Ok (d', evs, tmo', pl') /\
      DInvG d' /\ same_cfg d d' /\ queued d' = queued d /\ completions evs = [] /\ tmo_pos tmo' /\ tmo_le tmo' tmo /\
      dv_last_ping d' = dv_last_ping d /\
      (* what is left of the queue: a head login is dropped; on a successful connect the head is rewound and a
         fresh login put in front *)
      (dv_cstate d' <> DEV_CONNECTED -> dv_acts d' = after_disc d) /\
      (dv_cstate d' = DEV_CONNECTED -> exists s, assoc_script PM_LOG_IN (dv_scripts d) = Some s /\
          dv_acts d' = create_action s PM_LOG_IN None 0 false false false None
                         :: (match after_disc d with [] => [] | h :: r => rewind_action h :: r end)) /\
      no_cb evs.
  Proof.
    intros Q I Hp. unfold reconnect.
    set (d1e := if Z.eqb (dv_cstate d) DEV_NOT_CONNECTED then (d, []) else disconnect d).
    assert (H1 : exists d1 e1, d1e = (d1, e1) /\ DInvG d1 /\ same_cfg d d1 /\ dv_cstate d1 = DEV_NOT_CONNECTED /\ queued d1 = queued d /\
               completions e1 = [] /\ dv_last_ping d1 = dv_last_ping d /\
               dv_acts d1 = after_disc d /\ no_cb e1).
    { unfold d1e, after_disc. destruct (Z.eqb (dv_cstate d) DEV_NOT_CONNECTED) eqn:E.
      - apply Z.eqb_eq in E. exists d, []. conj_split; auto; [apply same_cfg_refl|constructor].
      - destruct (disconnect d) as [d1 e1] eqn:Ed. destruct (disconnect_invG d d1 e1 Q Ed) as (A1 & A2 & A3 & A4 & A5 & A6 & A7 & A8 & A9).
        exists d1, e1. subst e1. conj_split; auto. constructor; [reflexivity|constructor]. }
    destruct H1 as (d1 & e1 & -> & I1 & S1 & C1 & Q1 & CE1 & LP1 & A1 & NC1).
    destruct (time_to_reconnect now d1 tmo) as [go tmo1] eqn:Et.
    assert (Ht : tmo_pos tmo1 /\ tmo_le tmo1 tmo).
    { unfold time_to_reconnect in Et. destruct (0 <? dv_retry_count d1).
      - destruct (_ <=? now) eqn:El; inversion Et; subst; [split; [exact Hp|apply tmo_le_refl]|].
        apply Z.leb_gt in El. destruct (upd_tmo_props tmo (dv_last_retry d1 + backoff (dv_retry_count d1) - now) ltac:(lia) Hp) as (U1 & U2 & _). auto.
      - inversion Et; subst. split; [exact Hp|apply tmo_le_refl]. }
    destruct Ht as [Ht1 Ht2].
    destruct go.
    - destruct (connect_invG now d1 plans I1 C1) as (d2 & pl' & E2 & _ & I2 & S2 & Q2 & _ & _ & LP2 & _ & Hacts & Hacts').
      rewrite E2. exists d2, (e1 ++ [EvConnect]), tmo1, pl'. conj_split; auto.
      + eapply same_cfg_trans; eassumption.
      + congruence.
      + rewrite completions_app, CE1. reflexivity.
      + congruence.
      + rewrite <- A1. exact Hacts'.
      + intros Hc. rewrite <- A1. destruct (Hacts Hc) as (s & Es & Ea). exists s. split; [|exact Ea].
        destruct S1 as (E & _). rewrite <- E. exact Es.
      + apply no_cb_app; [exact NC1|constructor; [reflexivity|constructor]].
    - exists d1, e1, tmo1, plans. conj_split; auto.
      intros Hc. rewrite C1 in Hc. discriminate Hc.
  Qed.

  (* ---------- _enqueue_ping on a connected device ---------- *)
  Lemma enqueue_ping_invG now d tmo d' tmo' : DInvG d -> tmo_pos tmo -> enqueue_ping now d tmo = (d', tmo') ->
    DInvG d' /\ same_cfg d d' /\ queued d' = queued d /\ tmo_pos tmo' /\ tmo_le tmo' tmo /\
    dv_cstate d' = dv_cstate d /\ dv_retry_count d' = dv_retry_count d /\ dv_last_retry d' = dv_last_retry d /\
    (exists new, dv_acts d' = dv_acts d ++ new /\ Forall (fun a => a_hascb a = false /\ a_com a = PM_PING /\ a_stamp a = None) new /\ (length new <= 1)%nat).
  Proof.
    intros I Hp. unfold enqueue_ping.
    assert (Same : DInvG d /\ same_cfg d d /\ queued d = queued d /\ tmo_pos tmo /\ tmo_le tmo tmo /\
                   dv_cstate d = dv_cstate d /\ dv_retry_count d = dv_retry_count d /\ dv_last_retry d = dv_last_retry d /\
                   (exists new, dv_acts d = dv_acts d ++ new /\ Forall (fun a => a_hascb a = false /\ a_com a = PM_PING /\ a_stamp a = None) new /\ (length new <= 1)%nat)).
    { conj_split; auto; try apply same_cfg_refl; try apply tmo_le_refl. exists []. rewrite app_nil_r. repeat split; auto. }
    destruct (assoc_script PM_PING (dv_scripts d)) as [s|] eqn:Es; [|intros H; inversion H; subst; exact Same].
    destruct (Z.eqb (dv_ping_period d) 0); [intros H; inversion H; subst; exact Same|].
    destruct (_ <=? now) eqn:El; intros H; inversion H; subst; clear H.
    - set (p := create_action s PM_PING None 0 false false false None).
      assert (Hwp : wf_action (sd_plugs (dv d)) p).
      { apply create_action_wf; [apply (proj2 (dg_cfg d I) PM_PING s Es)|exact Logic.I| |congruence].
        intros Hr. rewrite (proj2 login_ping_not_ranged) in Hr. discriminate Hr. }
      split; [|conj_split; dsimpl; auto; try apply same_cfg_refl; try apply tmo_le_refl].
      + constructor; dsimpl.
        * exact (dg_cfg d I).
        * exact (dg_state d I).
        * exact (dg_fd d I).
        * exact (dg_li d I).
        * apply Forall_app. split; [exact (dg_acts d I)|constructor; [exact Hwp|constructor]].
        * pose proof (dg_tail d I) as Ht. destruct (dv_acts d) as [|h r]; cbn [app tl]; [constructor|].
          apply Forall_app. split; [exact Ht|constructor; [reflexivity|constructor]].
        * rewrite <- (dg_head d I). split; intros (l & r & El' & Hl).
          -- destruct (dv_acts d) as [|h r0]; cbn [app] in El'.
             ++ inversion El'; subst. discriminate Hl.
             ++ inversion El'; subst. eexists _, _. split; [reflexivity|exact Hl].
          -- rewrite El'. cbn [app]. eexists _, _. split; [reflexivity|exact Hl].
        * apply Forall_app. split; [exact (dg_cb d I)|constructor; [discriminate|constructor]].
        * unfold Flags. dsimpl. apply Forall_app. split; [exact (dg_flags d I)|constructor; [intros [H|H]; discriminate H|constructor]].
      + repeat split.
      + unfold queued. dsimpl. rewrite filter_app, map_app. cbn. now rewrite app_nil_r.
      + exists [p]. split; [reflexivity|]. split; [constructor; [repeat split|constructor]|cbn; lia].
    - apply Z.leb_gt in El. destruct (upd_tmo_props tmo (dv_last_ping d' + dv_ping_period d' - now) ltac:(lia) Hp) as (U1 & U2 & _).
      destruct Same as (S1 & S2 & S3 & _ & _ & S6 & S7 & S8 & S9). split; [exact S1|]. split; [exact S2|]. split; [exact S3|].
      split; [exact U1|]. split; [exact U2|]. split; [exact S6|]. split; [exact S7|]. split; [exact S8|exact S9].
  Qed.

  (* ---------- _handle_ready_device: whatever the descriptor reports, whatever the preprocess method does ---------- *)
  Lemma handle_ready_invG d pin : DInvG d -> dv_has_fd d = true ->
    exists ioerr d' evs, handle_ready d pin = Ok (ioerr, d', evs) /\
      DInvG d' /\ same_cfg d d' /\ queued d' = queued d /\ completions evs = [] /\ nconn evs = O /\
      dv_retry_count d' = dv_retry_count d /\ dv_last_retry d' = dv_last_retry d /\ dv_last_ping d' = dv_last_ping d /\
      (dv_acts d' = dv_acts d \/
       (dv_cstate d = DEV_CONNECTING /\ dv_cstate d' = DEV_CONNECTED /\ exists s, assoc_script PM_LOG_IN (dv_scripts d) = Some s /\
          dv_acts d' = create_action s PM_LOG_IN None 0 false false false None
                         :: (match dv_acts d with [] => [] | h :: r => rewind_action h :: r end))) /\
      no_cb evs.
  Proof.
    intros I Hfd. unfold handle_ready.
    assert (Hnc : dv_cstate d <> DEV_NOT_CONNECTED).
    { intros E. apply (dg_fd d I) in E. congruence. }
    destruct (Z.eqb (dv_cstate d) DEV_NOT_CONNECTED) eqn:E0; [apply Z.eqb_eq in E0; contradiction|]. clear E0.
    rewrite Hfd. cbn [negb].
    (* a device that differs from d only in its buffers / buffer size *)
    assert (Buf : forall b evs d', completions evs = [] -> nconn evs = O -> no_cb evs ->
      dv_scripts d' = dv_scripts d -> dv_timeout d' = dv_timeout d -> dv_ping_period d' = dv_ping_period d ->
      dv_cstate d' = dv_cstate d -> dv_logged_in d' = dv_logged_in d -> dv_has_fd d' = dv_has_fd d -> dv_acts d' = dv_acts d ->
      dv_last_retry d' = dv_last_retry d -> dv_retry_count d' = dv_retry_count d -> dv_last_ping d' = dv_last_ping d ->
      sd_plugs (dv d') = sd_plugs (dv d) -> sd_name (dv d') = sd_name (dv d) ->
      exists ioerr d'' evs', @Ok (bool * device * list ev) (b, d', evs) = Ok (ioerr, d'', evs') /\
      DInvG d'' /\ same_cfg d d'' /\ queued d'' = queued d /\ completions evs' = [] /\ nconn evs' = O /\
      dv_retry_count d'' = dv_retry_count d /\ dv_last_retry d'' = dv_last_retry d /\ dv_last_ping d'' = dv_last_ping d /\
      (dv_acts d'' = dv_acts d \/
       (dv_cstate d = DEV_CONNECTING /\ dv_cstate d'' = DEV_CONNECTED /\ exists s, assoc_script PM_LOG_IN (dv_scripts d) = Some s /\
          dv_acts d'' = create_action s PM_LOG_IN None 0 false false false None
                         :: (match dv_acts d with [] => [] | h :: r => rewind_action h :: r end))) /\
      no_cb evs').
    { intros b evs d' He Hn Hcb E1 E2 E3 E4 E5 E6 E7 E8 E9 E10 E11 E12.
      exists b, d', evs. split; [reflexivity|]. split; [|conj_split; auto; [repeat split; auto|unfold queued; now rewrite E7]].
      constructor.
      - apply (cfg_ok_same d d'); [repeat split; auto|exact (dg_cfg d I)].
      - rewrite E4. exact (dg_state d I).
      - rewrite E4, E6. exact (dg_fd d I).
      - rewrite E4, E5. exact (dg_li d I).
      - rewrite E7, E11. exact (dg_acts d I).
      - rewrite E7. exact (dg_tail d I).
      - rewrite E7, E4, E5. exact (dg_head d I).
      - rewrite E7. exact (dg_cb d I).
      - unfold Flags. rewrite E7. exact (dg_flags d I). }
    assert (Same : forall b, exists ioerr d' evs', @Ok (bool * device * list ev) (b, d, []) = Ok (ioerr, d', evs') /\
      DInvG d' /\ same_cfg d d' /\ queued d' = queued d /\ completions evs' = [] /\ nconn evs' = O /\
      dv_retry_count d' = dv_retry_count d /\ dv_last_retry d' = dv_last_retry d /\ dv_last_ping d' = dv_last_ping d /\
      (dv_acts d' = dv_acts d \/
       (dv_cstate d = DEV_CONNECTING /\ dv_cstate d' = DEV_CONNECTED /\ exists s, assoc_script PM_LOG_IN (dv_scripts d) = Some s /\
          dv_acts d' = create_action s PM_LOG_IN None 0 false false false None
                         :: (match dv_acts d with [] => [] | h :: r => rewind_action h :: r end))) /\
      no_cb evs').
    { intros b. apply (Buf b [] d); auto. constructor. }
    (* the read side, from a device d1 that already differs from d only in its buffers *)
    assert (Rd : forall d1 e1, completions e1 = [] -> nconn e1 = O -> no_cb e1 ->
      dv_scripts d1 = dv_scripts d -> dv_timeout d1 = dv_timeout d -> dv_ping_period d1 = dv_ping_period d ->
      dv_cstate d1 = dv_cstate d -> dv_logged_in d1 = dv_logged_in d -> dv_has_fd d1 = dv_has_fd d -> dv_acts d1 = dv_acts d ->
      dv_last_retry d1 = dv_last_retry d -> dv_retry_count d1 = dv_retry_count d -> dv_last_ping d1 = dv_last_ping d ->
      sd_plugs (dv d1) = sd_plugs (dv d) -> sd_name (dv d1) = sd_name (dv d) ->
      exists ioerr d'' evs',
        (if pi_in pin then
            let d1g := set_from_size (after_read_size d1) d1 in
            match pi_read pin with
            | None | Some [] => Ok (true, d1g, e1)
            | Some b =>
                let d2 := upd_sdev (fun s => set_from (lastn (Z.to_nat MAX_DEV_BUF) (sd_from s ++ b)) s) d1g in
                let d3 := match pi_pre pin with
                          | None => d2
                          | Some (kept, reply) =>
                              upd_sdev (fun s => set_to (lastn (Z.to_nat MAX_DEV_BUF) (sd_to s ++ reply))
                                                   (set_from (firstn (length (sd_from s) - length b) (sd_from s) ++ kept) s)) d2
                          end in
                Ok (false, d3, e1 ++ [EvRead (length b)])
            end
          else Ok (false, d1, e1)) = Ok (ioerr, d'', evs') /\
      DInvG d'' /\ same_cfg d d'' /\ queued d'' = queued d /\ completions evs' = [] /\ nconn evs' = O /\
      dv_retry_count d'' = dv_retry_count d /\ dv_last_retry d'' = dv_last_retry d /\ dv_last_ping d'' = dv_last_ping d /\
      (dv_acts d'' = dv_acts d \/
       (dv_cstate d = DEV_CONNECTING /\ dv_cstate d'' = DEV_CONNECTED /\ exists s, assoc_script PM_LOG_IN (dv_scripts d) = Some s /\
          dv_acts d'' = create_action s PM_LOG_IN None 0 false false false None
                         :: (match dv_acts d with [] => [] | h :: r => rewind_action h :: r end))) /\
      no_cb evs').
    { intros d1 e1 He Hn Hcb E1 E2 E3 E4 E5 E6 E7 E8 E9 E10 E11 E12.
      destruct (pi_in pin); [|now apply Buf].
      cbv zeta.
      destruct (pi_read pin) as [[|b0 br]|]; try (apply Buf; auto; fail).
      destruct (pi_pre pin) as [[kept reply]|]; (apply Buf; dsimplg; auto;
        [rewrite completions_app, He; reflexivity|rewrite nconn_app, Hn; reflexivity|apply no_cb_app; [exact Hcb|constructor; [reflexivity|constructor]]]). }
    destruct (pi_hup pin || pi_err pin || pi_nval pin); [apply Same|].
    destruct (pi_out pin).
    - destruct (Z.eqb (dv_cstate d) DEV_CONNECTING) eqn:Ec.
      + apply Z.eqb_eq in Ec.
        assert (Hnl : Forall (fun a => is_login a = false) (dv_acts d)).
        { apply no_login_when_unconnectedG; [exact I|rewrite Ec; discriminate]. }
        destruct (pi_finish_ok pin).
        * set (d1 := set_stats _ _ (set_conn DEV_CONNECTED false true d)).
          assert (P1 : cfg_ok d1) by (exact (dg_cfg d I)).
          assert (P2 : Forall (wf_action (sd_plugs (dv d1))) (dv_acts d1)) by (exact (dg_acts d I)).
          assert (P3 : Forall (fun a => is_login a = false) (dv_acts d1)) by (exact Hnl).
          assert (P4 : Flags d1) by (exact (dg_flags d I)).
          destruct (enqueue_login_invG d1 P1 P2 P3 P4) as (s & d3 & E3 & Es & Ed3 & Hw3 & Ht3 & Hf3).
          rewrite E3. exists false, d3, []. split; [reflexivity|].
          assert (Hq : queued d3 = queued d).
          { unfold queued. rewrite Ed3. unfold d1. dsimpl. cbn [filter create_action a_hascb].
            pose proof (dg_acts d I) as Hw. destruct (dv_acts d) as [|h r0]; [reflexivity|].
            inversion Hw; subst. eapply queued_cons_rewind; eassumption. }
          split; [|conj_split; try exact Hq; try (constructor; fail); subst d3; unfold d1; dsimpl; auto; try (repeat split; fail)].
          -- subst d3. unfold d1 in *. constructor; dsimpl.
             ++ exact (dg_cfg d I).
             ++ auto.
             ++ split; discriminate.
             ++ discriminate.
             ++ exact Hw3.
             ++ exact Ht3.
             ++ split; [auto|]. intros _. eexists _, _. split; [reflexivity|]. reflexivity.
             ++ constructor; [discriminate|]. pose proof (dg_cb d I) as Hcb. pose proof (dg_acts d I) as Hw.
                destruct (dv_acts d) as [|h r0]; [constructor|]. inversion Hcb; subst. inversion Hw; subst. constructor; [|assumption].
                destruct (rewind_action_wf _ h ltac:(eassumption)) as (_ & (Ec' & _ & Eh & _) & _). unfold is_login in *. rewrite Ec', Eh. assumption.
             ++ exact Hf3.
          -- right. split; [exact Ec|]. split; [reflexivity|]. exists s. split; [exact Es|reflexivity].
        * (* finish_connect failed: the transport closed the descriptor *)
          exists true, (set_conn DEV_NOT_CONNECTED false false d), []. split; [reflexivity|].
          split; [|conj_split; try (constructor; fail); dsimpl; auto; repeat split].
          constructor; dsimpl.
          -- exact (dg_cfg d I).
          -- auto.
          -- split; auto.
          -- discriminate.
          -- exact (dg_acts d I).
          -- exact (dg_tail d I).
          -- split; [|intros [E _]; discriminate E]. intros (l & r & El & Hl). exfalso. rewrite El in Hnl. inversion Hnl; subst. congruence.
          -- exact (dg_cb d I).
          -- exact (dg_flags d I).
      + destruct (pi_wrote pin) as [[|n]|]; try (apply Same).
        apply (Rd (upd_sdev (fun s => set_to (skipn (S n) (sd_to s)) s) d)); auto.
        constructor; [reflexivity|constructor].
    - apply (Rd d); auto. constructor.
  Qed.

  (* ---------- what one step of the device state machine guarantees ---------- *)
  Record step_postG (now : Z) (d : device) (store : list arglist) (tmo : option Z)
                   (d' : device) (store' : list arglist) (tmo' : option Z) (evs : list ev) : Prop := {
    tg_inv : DInvG d';
    tg_cfg : same_cfg d d';
    tg_pos : tmo_pos tmo';
    tg_le : tmo_le tmo' tmo;
    tg_fifo : completions evs ++ queued d' = queued d;       (* FIFO + conservation: completions come off the front *)
    tg_store : length store' = length store;
    tg_ping : dv_last_ping d' = dv_last_ping d \/ dv_last_ping d' = now;
    tg_conn : conn_rel now d d' evs;
    tg_live : live evs (queued d')                           (* callbacks only for clients still owed a completion *)
  }.

  Lemma complete_no_cb d a : no_cb (complete d a).
  Proof. unfold complete. destruct (a_hascb a); [constructor; [reflexivity|constructor]|constructor]. Qed.
  Lemma fail_queue_no_cb d h rest : no_cb (fail_queue d h rest).
  Proof.
    unfold fail_queue. apply no_cb_app; [apply complete_no_cb|].
    induction rest as [|a r IH]; [constructor|]. cbn [flat_map]. apply no_cb_app; [apply complete_no_cb|exact IH].
  Qed.
  Lemma live_fail d act0 act rest pre e2 q :
    a_hascb act = a_hascb act0 -> a_client act = a_client act0 -> Forall (cb_of act0) pre -> flag_ok act0 -> no_cb e2 ->
    live (pre ++ fail_queue d act rest ++ e2) q.
  Proof.
    intros Hcb Hcl Hpre Hfl He2. apply live_app.
    - eapply live_head; [exact Hpre|]. intros Hf. apply in_or_app. left.
      rewrite completions_app, fail_queue_completions, Hcb, Hcl, (Hfl Hf). left. reflexivity.
    - apply live_app; [apply live_no_cb, fail_queue_no_cb|apply live_no_cb, He2].
  Qed.

  (* the error branch of _process_action: every queued action is completed (in order), the queue is empty
     afterwards except for the login of a connection that came back at once *)
  Lemma fail_and_reconnect_invG now d act0 act rest store tmo plans pre :
    QInvG d -> (dv_cstate d <> DEV_CONNECTED -> DInvG d) -> dv_cstate d = DEV_NOT_CONNECTED \/ dv_cstate d = DEV_CONNECTING \/ dv_cstate d = DEV_CONNECTED ->
    dv_acts d = act0 :: rest -> a_hascb act = a_hascb act0 -> a_client act = a_client act0 ->
    completions pre = [] -> nconn pre = O -> tmo_pos tmo -> Forall (cb_of act0) pre ->
    exists d2 tmo2 pl evs, fail_and_reconnect now d act rest store tmo plans pre = Ok (PaDone d2 store tmo2 pl evs) /\
      DInvG d2 /\ same_cfg d d2 /\ tmo_pos tmo2 /\ tmo_le tmo2 tmo /\ completions evs = queued d /\ queued d2 = [] /\
      dv_last_ping d2 = dv_last_ping d /\ conn_rel now d d2 evs /\
      (dv_acts d2 = [] \/ exists s, dv_acts d2 = [create_action s PM_LOG_IN None 0 false false false None] /\ dv_cstate d2 = DEV_CONNECTED) /\
      (exists e2, evs = pre ++ fail_queue d act rest ++ e2 /\ completions e2 = []) /\ live evs (queued d2).
  Proof.
    intros ((Qc & Qa & Qt & Qb) & Qf) I Hst Ea Hcb Hcl Hpre Npre Hp Hcbpre. unfold fail_and_reconnect.
    assert (Hfl0 : flag_ok act0) by (unfold Flags in Qf; rewrite Ea in Qf; inversion Qf; assumption).
    assert (Hcomp : completions (pre ++ fail_queue d act rest) = queued d).
    { rewrite completions_app, Hpre, fail_queue_completions, Hcb, Hcl, (queued_cons _ _ _ Ea). reflexivity. }
    assert (Q0 : QInvG (set_acts [] d)).
    { split; [|constructor]. split; [exact Qc|]. dsimpl. repeat split; constructor. }
    destruct (connected (set_acts [] d)) eqn:Ec.
    - assert (Hc : dv_cstate d = DEV_CONNECTED) by (apply connected_iff; exact Ec).
      destruct (reconnect_invG now (set_acts [] d) tmo plans Q0) as (d2 & e2 & tmo2 & pl & E2 & I2 & S2 & Q2 & C2 & P2 & L2 & LP2 & A2 & A2' & NC2); [dsimpl; rewrite Hc; discriminate|exact Hp|].
      rewrite E2. exists d2, tmo2, pl, ((pre ++ fail_queue d act rest) ++ e2).
      pose proof (reconnect_conn _ _ _ _ _ _ _ _ E2) as CR.
      split; [reflexivity|]. conj_split; auto.
      + rewrite completions_app, Hcomp, C2, app_nil_r. reflexivity.
      + destruct CR as [(N & L & R)|(N & G & L & R)]; [left|right]; rewrite nconn_app, nconn_app, Npre, fail_queue_nconn, N; dsimpl; auto.
      + unfold after_disc in A2, A2'. dsimpl. rewrite Hc in A2, A2'. cbn [Z.eqb DEV_CONNECTED DEV_NOT_CONNECTED] in A2, A2'.
        destruct (Z.eq_dec (dv_cstate d2) DEV_CONNECTED) as [E|E]; [right|left; auto].
        destruct (A2' E) as (s & _ & Es). exists s. auto.
      + exists e2. rewrite <- app_assoc. auto.
      + rewrite <- app_assoc. now apply (live_fail d act0).
    - assert (Hc : dv_cstate d <> DEV_CONNECTED) by (apply connected_false_iff; exact Ec).
      specialize (I Hc).
      exists (set_acts [] d), tmo, plans, (pre ++ fail_queue d act rest). split; [reflexivity|]. conj_split; auto.
      + constructor; dsimpl.
        * exact (dg_cfg d I). * exact (dg_state d I). * exact (dg_fd d I). * exact (dg_li d I).
        * constructor. * constructor.
        * split; [intros (l & r & El & _); discriminate El|]. intros [E _]. contradiction.
        * constructor.
        * constructor.
      + repeat split.
      + apply tmo_le_refl.
      + left. rewrite nconn_app, Npre, fail_queue_nconn. dsimpl. auto.
      + exists []. rewrite app_nil_r. auto.
      + rewrite <- (app_nil_r (fail_queue d act rest)). apply (live_fail d act0); auto. constructor.
  Qed.

  Lemma cb_of_stamp act0 s evs : Forall (cb_of (set_stamp s act0)) evs -> Forall (cb_of act0) evs.
  Proof. intros H. eapply Forall_impl; [|exact H]. intros [] Hx; exact Hx. Qed.

  Lemma pa_step_invG now d store tmo plans : DInvG d -> tmo_pos tmo ->
    match pa_step rmatch compress sc now d store tmo plans with
    | Ok (PaDone d' store' tmo' pl' evs) => step_postG now d store tmo d' store' tmo' evs /\ timer_ok now d' tmo'
    | Ok (PaNext d' store' tmo' evs) => step_postG now d store tmo d' store' tmo' evs
    | Hang _ => True
    | _ => False
    end.
  Proof.
    intros I Hp. unfold pa_step.
    destruct (dv_acts d) as [|act0 rest] eqn:Ea.
    { split; [|unfold timer_ok; now rewrite Ea].
      constructor; auto; try apply same_cfg_refl; try apply tmo_le_refl; try apply live_nil. left. auto. }
    pose proof (dg_acts d I) as Hw. rewrite Ea in Hw. inversion Hw as [|? ? Hw0 Hwr]; subst.
    pose proof (dg_flags d I) as Hfl. unfold Flags in Hfl. rewrite Ea in Hfl. inversion Hfl as [|? ? Hfl0 Hflr]; subst.
    destruct (a_exec act0) as [|e0 er] eqn:Eex; [destruct Hw0 as (H & _); congruence|].
    set (stamp := match a_stamp act0 with Some t => t | None => now end).
    set (act := set_stamp (Some stamp) act0).
    assert (Hwa : wf_action (sd_plugs (dv d)) act) by exact Hw0.
    assert (Hida : a_com act = a_com act0 /\ a_hascb act = a_hascb act0 /\ a_client act = a_client act0 /\ a_exec act = a_exec act0) by (repeat split).
    destruct Hida as (Ida1 & Ida2 & Ida3 & Ida4).
    pose proof (DInvG_QInvG d I) as Q.
    destruct (stamp + dv_timeout d <=? now) eqn:El.
    - (* timed out *)
      assert (Hcbt : Forall (cb_of act0) (timeout_tele d act)).
      { unfold timeout_tele. destruct (a_tele act) eqn:Et; constructor; [split; [reflexivity|exact Et]|constructor]. }
      destruct (fail_and_reconnect_invG now d act0 (set_err (timeout_err d) act) rest store tmo plans (timeout_tele d act) Q (fun _ => I) (dg_state d I) Ea)
        as (d2 & tmo2 & pl & evs & E & I2 & S2 & P2 & L2 & C2 & Q2 & LP2 & CR2 & A2 & _ & LV2); auto.
      + unfold timeout_tele. destruct (a_tele act); reflexivity.
      + unfold timeout_tele. destruct (a_tele act); reflexivity.
      + rewrite E. split.
        * constructor; auto. rewrite C2, Q2, app_nil_r. reflexivity.
        * unfold timer_ok. destruct A2 as [->|(s & -> & _)]; [exact Logic.I|]. right. split; [reflexivity|exact Q2].
    - apply Z.leb_gt in El.
      destruct (connected d) eqn:Ec; cbn [negb].
      2:{ (* stalled: not connected *)
        destruct (upd_tmo_props tmo (stamp + dv_timeout d - now) ltac:(lia) Hp) as (U1 & U2 & (y & U3 & U4)).
        split.
        - constructor.
          + constructor; dsimpl.
            * exact (dg_cfg d I). * exact (dg_state d I). * exact (dg_fd d I). * exact (dg_li d I).
            * constructor; assumption.
            * pose proof (dg_tail d I) as Ht. rewrite Ea in Ht. exact Ht.
            * rewrite <- (dg_head d I), Ea. split; intros (l & r & E & Hl); inversion E; subst; eexists _, _; (split; [reflexivity|exact Hl]).
            * pose proof (dg_cb d I) as Hcb. rewrite Ea in Hcb. inversion Hcb; subst. constructor; assumption.
            * unfold Flags. dsimpl. constructor; assumption.
          + repeat split.
          + exact U1.
          + exact U2.
          + unfold queued. dsimpl. rewrite Ea. unfold act. cbn. destruct (a_hascb act0); reflexivity.
          + reflexivity.
          + left. reflexivity.
          + left. dsimpl. auto.
          + apply live_nil.
        - unfold timer_ok. dsimpl. left. exists stamp, y. repeat split; auto; lia. }
      (* connected: run statements *)
      pose proof (do_while_propsG rmatch compress sc 8 now (dv d) act store [] None Hwa) as Hdw.
      destruct (do_while rmatch compress sc 8 now (dv d) act store [] None) as [[[[[[fin sd'] act'] store'] evs] dt]| | | |]; try contradiction; [|exact Logic.I].
      destruct Hdw as (evs1 & t1 & Eevs & Edt & SP). cbn [app] in Eevs. subst evs1. cbn [min_tmo] in Edt. subst t1.
      destruct SP as [w1 p1 n1 i1 v1 m1 [l1 q1] cb1].
      destruct i1 as (J1 & J2 & J3 & J4 & J5 & J6 & J7).
      apply cb_of_stamp in cb1.
      set (d1 := upd_sdev (fun _ => sd') d).
      set (tmo1 := match dt with Some v => upd_tmo tmo v | None => tmo end).
      assert (Ht1 : tmo_pos tmo1 /\ tmo_le tmo1 tmo).
      { unfold tmo1. destruct dt as [v|]; [|split; [exact Hp|apply tmo_le_refl]].
        destruct (upd_tmo_props tmo v (m1 v eq_refl) Hp) as (U1 & U2 & _). auto. }
      destruct Ht1 as [Ht1 Ht1'].
      assert (Hcs : dv_cstate d = DEV_CONNECTED) by (apply connected_iff; exact Ec).
      assert (Hcfg1 : same_cfg d d1) by (unfold d1; repeat split; dsimpl; auto).
      assert (Hce : completions evs = []) by (apply completions_script; exact v1).
      assert (Hne : nconn evs = O) by (apply nconn_script; exact v1).
      (* a device whose head is a (changed) version of the same action *)
      assert (Keep : forall a2 tmo2, wf_action (sd_plugs (dv d)) a2 -> same_id act a2 -> tmo_pos tmo2 -> tmo_le tmo2 tmo ->
                step_postG now d store tmo (set_acts (a2 :: rest) d1) store' tmo2 evs).
      { intros a2 tmo2 Hw2 (K1 & K2 & K3 & K4 & K5 & K6 & K7) Hp2 Hl2.
        assert (Hq2 : queued (set_acts (a2 :: rest) d1) = queued d).
        { unfold queued. dsimpl. rewrite Ea. cbn [filter app]. rewrite K3, Ida2. destruct (a_hascb act0); cbn [map]; [rewrite K2, Ida3|]; reflexivity. }
        constructor.
        - constructor; unfold d1; dsimpl.
          + apply (cfg_ok_same d d1); [exact Hcfg1|exact (dg_cfg d I)].
          + exact (dg_state d I). + exact (dg_fd d I). + exact (dg_li d I).
          + rewrite p1. constructor; assumption.
          + pose proof (dg_tail d I) as Ht. rewrite Ea in Ht. exact Ht.
          + rewrite <- (dg_head d I), Ea. unfold is_login.
            split; intros (l & r & E & Hl); inversion E; subst; eexists _, _; (split; [reflexivity|]); unfold is_login in *; [rewrite <- Ida1, <- K1|rewrite K1, Ida1]; exact Hl.
          + pose proof (dg_cb d I) as Hcb. rewrite Ea in Hcb. inversion Hcb as [|? ? Hh Hr]; subst. constructor; [|assumption].
            unfold is_login. rewrite K1, K3, Ida1, Ida2. exact Hh.
          + unfold Flags. dsimpl. constructor; [|assumption]. unfold flag_ok. rewrite K3, K4, K5. exact Hfl0.
        - unfold d1. repeat split; dsimpl; auto.
        - exact Hp2.
        - exact Hl2.
        - rewrite Hce, Hq2. reflexivity.
        - exact l1.
        - left. reflexivity.
        - left. unfold d1. dsimpl. auto.
        - rewrite Hq2. eapply live_head; [exact cb1|]. intros Hf. rewrite (queued_cons _ _ _ Ea), (Hfl0 Hf). left. reflexivity. }
      destruct fin; cbn [negb].
      2:{ (* stalled inside a statement *)
        destruct (upd_tmo_props tmo1 (stamp + dv_timeout d - now) ltac:(lia) Ht1) as (U1 & U2 & (y & U3 & U4)).
        split.
        - apply Keep; auto; [repeat split; auto|eapply tmo_le_trans; eassumption].
        - unfold timer_ok, d1. dsimpl. left. exists stamp, y. rewrite J6. split; [reflexivity|]. split; [exact U3|exact U4]. }
      destruct (Z.eqb (a_err act') ACT_ESUCCESS) eqn:Eerr.
      + destruct (advance_props _ act' w1) as (A1 & A2 & A3).
        destruct (a_exec (advance act')) as [|e2 r2] eqn:Eadv.
        * (* the action completed *)
          remember (if Z.eqb (a_com (advance act')) PM_LOG_IN then set_conn (dv_cstate d1) true (dv_has_fd d1) d1 else d1) as d2 eqn:Ed2.
          assert (Hcom : a_com (advance act') = a_com act0) by (destruct A1 as (K1 & _); rewrite K1, J1; exact Ida1).
          assert (Hli2 : dv_logged_in d2 = true).
          { rewrite Ed2, Hcom. destruct (Z.eqb (a_com act0) PM_LOG_IN) eqn:El0; [reflexivity|].
            unfold d1. dsimplg. destruct (dv_logged_in d) eqn:Eli; [reflexivity|]. exfalso.
            destruct (proj2 (dg_head d I) (conj Hcs Eli)) as (l & r & E & Hl). rewrite Ea in E. inversion E; subst. unfold is_login in Hl. congruence. }
          assert (Hsame2 : dv d2 = sd' /\ dv_scripts d2 = dv_scripts d /\ dv_timeout d2 = dv_timeout d /\ dv_ping_period d2 = dv_ping_period d /\
                           dv_cstate d2 = dv_cstate d /\ dv_has_fd d2 = dv_has_fd d /\ dv_last_retry d2 = dv_last_retry d /\
                           dv_retry_count d2 = dv_retry_count d /\ dv_last_ping d2 = dv_last_ping d).
          { rewrite Ed2. unfold d1. destruct (Z.eqb _ PM_LOG_IN); cbn; repeat split. }
          destruct Hsame2 as (B1 & B2 & B3 & B4 & B5 & B6 & B7 & B8 & B9).
          assert (Hcc : completions (complete d2 (advance act')) = if a_hascb act0 then [a_client act0] else []).
          { rewrite complete_completions. destruct A1 as (K1 & K2 & K3 & _). rewrite K3, K2, J3, J2, Ida2, Ida3. reflexivity. }
          constructor.
          -- constructor; dsimplg; rewrite ?B1, ?B2, ?B3, ?B4, ?B5, ?B6.
             ++ destruct (dg_cfg d I) as [C1 C2]. split; dsimplg; rewrite ?B1, ?B2, ?p1; auto.
             ++ exact (dg_state d I). ++ exact (dg_fd d I). ++ intros _. exact Hcs.
             ++ rewrite p1. exact Hwr.
             ++ pose proof (dg_tail d I) as Ht. rewrite Ea in Ht. cbn [tl] in Ht. destruct rest; [constructor|]. inversion Ht; assumption.
             ++ rewrite Hli2. split; [|intros [_ E]; discriminate E].
                intros (l & r & E & Hl). exfalso. pose proof (dg_tail d I) as Ht. rewrite Ea in Ht. cbn [tl] in Ht. rewrite E in Ht. inversion Ht as [|? ? Hl0 Hl1]. congruence.
             ++ pose proof (dg_cb d I) as Hcb. rewrite Ea in Hcb. inversion Hcb; assumption.
             ++ unfold Flags. dsimplg. exact Hflr.
          -- repeat split; dsimplg; rewrite ?B1, ?B2, ?B3, ?B4; auto.
          -- exact Ht1.
          -- exact Ht1'.
          -- rewrite completions_app, Hce, Hcc. cbn [app]. unfold queued. dsimplg. rewrite Ea. cbn [filter].
             destruct (a_hascb act0); reflexivity.
          -- exact l1.
          -- left. dsimplg. exact B9.
          -- left. rewrite nconn_app, Hne, complete_nconn. dsimplg. rewrite B7, B8. auto.
          -- apply live_app; [|apply live_no_cb, complete_no_cb].
             eapply live_head; [exact cb1|]. intros Hf. apply in_or_app. left. rewrite Hcc, (Hfl0 Hf). left. reflexivity.
        * (* next statement of the same action *)
          destruct A3 as [A3|A3]; [try rewrite Eadv in A3; discriminate A3|].
          apply Keep; auto.
          eapply same_id_trans; [|exact A1]. repeat split; auto.
      + (* the statement failed the action *)
        apply Z.eqb_neq in Eerr.
        assert (Q1 : QInvG (set_acts (act0 :: rest) d1)).
        { split; [|unfold Flags, d1; dsimpl; constructor; assumption].
          split; [apply (cfg_ok_same d d1); [exact Hcfg1|exact (dg_cfg d I)]|]. unfold d1. dsimpl. rewrite p1.
          split; [constructor; assumption|]. pose proof (dg_tail d I) as Ht. pose proof (dg_cb d I) as Hcb. rewrite Ea in Ht, Hcb. auto. }
        assert (Ed1 : set_acts (act0 :: rest) d1 = d1) by (unfold d1; destruct d; dsimpl; cbn in Ea; subst; reflexivity).
        rewrite Ed1 in Q1.
        assert (F1 : dv_cstate d1 <> DEV_CONNECTED -> DInvG d1) by (intros Hc; contradiction).
        assert (F2 : dv_cstate d1 = DEV_NOT_CONNECTED \/ dv_cstate d1 = DEV_CONNECTING \/ dv_cstate d1 = DEV_CONNECTED) by (exact (dg_state d I)).
        assert (F3 : dv_acts d1 = act0 :: rest) by (exact Ea).
        assert (F4 : a_hascb act' = a_hascb act0) by (rewrite J3; exact Ida2).
        assert (F5 : a_client act' = a_client act0) by (rewrite J2; exact Ida3).
        destruct (fail_and_reconnect_invG now d1 act0 act' rest store' tmo1 plans evs Q1 F1 F2 F3 F4 F5 Hce Hne Ht1 cb1)
          as (d2 & tmo2 & pl & evs2 & E & I2 & S2 & P2 & L2 & C2 & Q2 & LP2 & CR2 & A2 & _ & LV2).
        rewrite E. split.
        * constructor; auto.
          -- eapply same_cfg_trans; eassumption.
          -- eapply tmo_le_trans; eassumption.
          -- rewrite C2, Q2, app_nil_r. unfold queued, d1. reflexivity.
        * unfold timer_ok. destruct A2 as [->|(s & -> & _)]; [exact Logic.I|]. right. split; [reflexivity|exact Q2].
  Qed.

  Lemma step_postG_refl now d store tmo : DInvG d -> tmo_pos tmo -> step_postG now d store tmo d store tmo [].
  Proof. intros I Hp. constructor; auto; try apply same_cfg_refl; try apply tmo_le_refl; try apply live_nil. left. auto. Qed.

  Lemma step_postG_trans now d st tmo d1 st1 tmo1 e1 d2 st2 tmo2 e2 : 0 <= dv_retry_count d ->
    step_postG now d st tmo d1 st1 tmo1 e1 -> step_postG now d1 st1 tmo1 d2 st2 tmo2 e2 ->
    step_postG now d st tmo d2 st2 tmo2 (e1 ++ e2).
  Proof.
    intros Hrc [i1 c1 p1 l1 f1 s1 g1 r1 v1] [i2 c2 p2 l2 f2 s2 g2 r2 v2]. constructor; auto.
    - eapply same_cfg_trans; eassumption.
    - eapply tmo_le_trans; eassumption.
    - rewrite completions_app, <- app_assoc, f2. exact f1.
    - congruence.
    - destruct g2 as [g2|g2]; [|right; exact g2]. rewrite g2. exact g1.
    - eapply conn_rel_trans; eassumption.
    - apply live_app; [rewrite f2; exact v1|exact v2].
  Qed.

  Lemma process_action_invG : forall fuel now d store tmo plans acc, DInvG d -> tmo_pos tmo -> 0 <= dv_retry_count d ->
    match process_action rmatch compress sc fuel now d store tmo plans acc with
    | Ok (d', store', tmo', pl', evs) => exists evs1, evs = acc ++ evs1 /\ step_postG now d store tmo d' store' tmo' evs1 /\ timer_ok now d' tmo'
    | Hang _ => True
    | _ => False
    end.
  Proof.
    induction fuel as [|f IH]; intros now d store tmo plans acc I Hp Hrc; cbn [process_action]; [exact Logic.I|].
    pose proof (pa_step_invG now d store tmo plans I Hp) as H.
    destruct (pa_step rmatch compress sc now d store tmo plans) as [[d1 st1 tmo1 pl1 e1|d1 st1 tmo1 e1]| | | |]; try contradiction; [| |exact Logic.I].
    - destruct H as [H1 H2]. exists e1. auto.
    - pose proof (conn_rel_rc _ _ _ _ (tg_conn _ _ _ _ _ _ _ _ H) Hrc) as Hrc1.
      specialize (IH now d1 st1 tmo1 plans (acc ++ e1) (tg_inv _ _ _ _ _ _ _ _ H) (tg_pos _ _ _ _ _ _ _ _ H) Hrc1).
      destruct (process_action rmatch compress sc f now d1 st1 tmo1 plans (acc ++ e1)) as [[[[[d2 st2] tmo2] pl2] e2]| | | |]; try contradiction; [|exact Logic.I].
      destruct IH as (e3 & -> & SP & TK). exists (e1 ++ e3). split; [now rewrite app_assoc|]. split; [|exact TK].
      eapply step_postG_trans; eassumption.
  Qed.

  (* ---------- one device's share of dev_post_poll, for ANY answer of the transport's preprocess method ---------- *)
  Lemma post_poll_one_inv_pre now d store tmo pin : DInvG d -> tmo_pos tmo -> 0 <= dv_retry_count d ->
    match post_poll_one rmatch compress sc now d store tmo pin with
    | Ok (d', store', tmo', evs) => step_postG now d store tmo d' store' tmo' evs /\ timer_ok now d' tmo'
    | Hang _ => True
    | _ => False
    end.
  Proof.
    intros I Hp Hrc. unfold post_poll_one.
    (* 1. the descriptor *)
    assert (H0 : exists ioerr d1 e1, (if dv_has_fd d && any_flag pin then handle_ready d pin else Ok (false, d, [])) = Ok (ioerr, d1, e1) /\
                 step_postG now d store tmo d1 store tmo e1).
    { destruct (dv_has_fd d) eqn:Efd; cbn [andb]; [|exists false, d, []; split; [reflexivity|now apply step_postG_refl]].
      destruct (any_flag pin); [|exists false, d, []; split; [reflexivity|now apply step_postG_refl]].
      destruct (handle_ready_invG d pin I Efd) as (io & d1 & e1 & E & I1 & S1 & Q1 & C1 & N1 & R1 & L1 & LP1 & _ & NC1).
      exists io, d1, e1. split; [exact E|]. constructor; auto; try apply tmo_le_refl.
      - rewrite C1, Q1. reflexivity.
      - left. auto.
      - now apply live_no_cb. }
    destruct H0 as (ioerr & d1 & e1 & -> & SP1).
    pose proof (tg_inv _ _ _ _ _ _ _ _ SP1) as I1.
    pose proof (conn_rel_rc _ _ _ _ (tg_conn _ _ _ _ _ _ _ _ SP1) Hrc) as Hrc1.
    (* 2. reconnect *)
    assert (H2 : exists d2 e2 tmo2 pl, (if ioerr || Z.eqb (dv_cstate d1) DEV_NOT_CONNECTED then reconnect now d1 tmo (pi_plans pin) else Ok (d1, [], tmo, pi_plans pin)) = Ok (d2, e2, tmo2, pl) /\
                 step_postG now d1 store tmo d2 store tmo2 e2).
    { destruct (ioerr || Z.eqb (dv_cstate d1) DEV_NOT_CONNECTED).
      - destruct (reconnect_invG now d1 tmo (pi_plans pin) (DInvG_QInvG d1 I1) (fun _ => I1) Hp) as (d2 & e2 & tmo2 & pl & E & I2 & S2 & Q2 & C2 & P2 & L2 & LP2 & _ & _ & NC2).
        exists d2, e2, tmo2, pl. split; [exact E|]. constructor; auto.
        + rewrite C2, Q2. reflexivity.
        + eapply reconnect_conn. exact E.
        + now apply live_no_cb.
      - exists d1, [], tmo, (pi_plans pin). split; [reflexivity|now apply step_postG_refl]. }
    destruct H2 as (d2 & e2 & tmo2 & pl & -> & SP2).
    pose proof (tg_inv _ _ _ _ _ _ _ _ SP2) as I2.
    pose proof (conn_rel_rc _ _ _ _ (tg_conn _ _ _ _ _ _ _ _ SP2) Hrc1) as Hrc2.
    (* 3. ping *)
    assert (H3 : exists d3 tmo3, (if connected d2 then enqueue_ping now d2 tmo2 else (d2, tmo2)) = (d3, tmo3) /\ step_postG now d2 store tmo2 d3 store tmo3 []).
    { destruct (connected d2); [|exists d2, tmo2; split; [reflexivity|apply step_postG_refl; [exact I2|exact (tg_pos _ _ _ _ _ _ _ _ SP2)]]].
      destruct (enqueue_ping now d2 tmo2) as [d3 tmo3] eqn:E.
      destruct (enqueue_ping_invG now d2 tmo2 d3 tmo3 I2 (tg_pos _ _ _ _ _ _ _ _ SP2) E) as (I3 & S3 & Q3 & P3 & L3 & C3 & R3 & LR3 & _).
      exists d3, tmo3. split; [reflexivity|]. constructor; auto.
      - unfold enqueue_ping in E. destruct (assoc_script PM_PING (dv_scripts d2)); [|inversion E; subst; auto].
        destruct (Z.eqb (dv_ping_period d2) 0); [inversion E; subst; auto|].
        destruct (_ <=? now); inversion E; subst; auto.
      - left. auto.
      - apply live_nil. }
    destruct H3 as (d3 & tmo3 & -> & SP3).
    pose proof (tg_inv _ _ _ _ _ _ _ _ SP3) as I3.
    pose proof (conn_rel_rc _ _ _ _ (tg_conn _ _ _ _ _ _ _ _ SP3) Hrc2) as Hrc3.
    (* 4. the queue *)
    pose proof (process_action_invG (pa_fuel d3) now d3 store tmo3 pl (e1 ++ e2) I3 (tg_pos _ _ _ _ _ _ _ _ SP3) Hrc3) as H4.
    destruct (process_action rmatch compress sc (pa_fuel d3) now d3 store tmo3 pl (e1 ++ e2)) as [[[[[d4 st4] tmo4] pl4] e4]| | | |]; try contradiction; [|exact Logic.I].
    destruct H4 as (e5 & -> & SP4 & TK). split; [|exact TK].
    pose proof (step_postG_trans _ _ _ _ _ _ _ _ _ _ _ _ Hrc SP1 SP2) as SP12.
    pose proof (step_postG_trans _ _ _ _ _ _ _ _ _ _ _ _ Hrc SP12 SP3) as SP123. rewrite app_nil_r in SP123.
    exact (step_postG_trans _ _ _ _ _ _ _ _ _ _ _ _ Hrc SP123 SP4).
  Qed.

  (* ---------- job 2: telemetry and diagnostics only ever reach a client that is still busy ---------- *)
  Lemma post_poll_one_callbacks_liveG now d store tmo pin d' store' tmo' evs : DInvG d -> tmo_pos tmo -> 0 <= dv_retry_count d ->
    post_poll_one rmatch compress sc now d store tmo pin = Ok (d', store', tmo', evs) ->
    forall e1 c m e2, (evs = e1 ++ [EvTele c m] ++ e2 \/ evs = e1 ++ [EvDiag c m] ++ e2) -> In c (completions e2 ++ queued d').
  Proof.
    intros I Hp Hrc E e1 c m e2 He. pose proof (post_poll_one_inv_pre now d store tmo pin I Hp Hrc) as H. rewrite E in H.
    destruct H as [SP _]. pose proof (tg_live _ _ _ _ _ _ _ _ SP) as L.
    destruct He as [He|He]; (eapply L; [exact He|reflexivity]).
  Qed.

  (* the old interface: under the full invariant DInv (which implies pi-independent facts) and the flag condition *)
  Lemma post_poll_one_callbacks_live now d store tmo pin d' store' tmo' evs : DInv compress d -> Flags d -> tmo_pos tmo -> 0 <= dv_retry_count d ->
    post_poll_one rmatch compress sc now d store tmo pin = Ok (d', store', tmo', evs) ->
    Flags d' /\
    forall e1 c m e2, (evs = e1 ++ [EvTele c m] ++ e2 \/ evs = e1 ++ [EvDiag c m] ++ e2) -> In c (completions e2 ++ queued d').
  Proof.
    intros I F Hp Hrc E. pose proof (post_poll_one_inv_pre now d store tmo pin (DInv_G d I F) Hp Hrc) as H. rewrite E in H.
    destruct H as [SP _]. split; [exact (dg_flags _ (tg_inv _ _ _ _ _ _ _ _ SP))|].
    intros e1 c m e2 He. pose proof (tg_live _ _ _ _ _ _ _ _ SP) as L.
    destruct He as [He|He]; (eapply L; [exact He|reflexivity]).
  Qed.
End InvG.
