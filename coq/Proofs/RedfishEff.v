(* C19, several targets on one line, TEXT of the answers: the closed form of the documented rules for a whole target list
   (what a handler on plug a reports to the waiters below it: [seff] / [eff]; the line of a target: [sline]; which targets
   are carried out: [carried]; the final status of every plug: [sfinal]), its reading on the model side, and what
   process_waiters / send_initial_parent_queries print and append, entry by entry. *)
From Coq Require Import List NArith ZArith Bool Lia Permutation.
From PM Require Import Base.Bytes Base.Outcome Gen.GenRfp Model.Redfish Spec.RedfishSpec Model.RedfishView
  Proofs.RedfishBase Proofs.RedfishSteps Proofs.RedfishMgmt Proofs.RedfishSingle Proofs.RedfishRules Proofs.RedfishPhased
  Proofs.RedfishReach Proofs.RedfishInv Proofs.RedfishLive.
Import ListNotations.

(* ------------------------------------------------------------------ the closed form, in the vocabulary of the specification *)
Section Closed.
Variables (f : forest) (fail : list text) (c : scmd) (K : list text) (m0 : statmap).

(* what a query of / an operation on plug a tells the plugs below it, once the whole command line is taken into account:
   a failing host says error; a targeted plug says the state the command puts it in; any other plug its status *)
Definition seff (a : text) : sstat :=
  if smem (host_of f a) fail then StErr
  else match c with
       | SpStat => st_get m0 a
       | SpOn => if smem a K then StOn else st_get m0 a
       | SpOff => if smem a K then StOff else st_get m0 a
       end.

Definition sblocker (p : text) : option (text * sstat) :=
  match find (fun a => negb (is_on (seff a))) (RedfishSpec.chain f p) with
  | Some a => Some (a, seff a)
  | None => None
  end.

Definition sline (p : text) : text :=
  match sblocker p with
  | Some (a, s) =>
    match c, s with
    | SpStat, _ => line p (word s)
    | SpOff, StOff => line p (bs "ok"%string)
    | _, _ => dependency_line f c p a s
    end
  | None =>
    if smem (host_of f p) fail then line p (bs "error"%string)
    else match c with
         | SpStat => line p (word (st_get m0 p))
         | _ => line p (bs "ok"%string)
         end
  end.

Definition carried (p : text) : bool :=
  match sblocker p with Some _ => false | None => negb (smem (host_of f p) fail) end.

Definition sfinal (k : text) : sstat :=
  match c with
  | SpStat => st_get m0 k
  | SpOn => if existsb (fun p => carried p && text_eqb k p) K then StOn else st_get m0 k
  | SpOff => if existsb (fun p => carried p && (text_eqb k p || descendant f k p)) K then StOff else st_get m0 k
  end.
End Closed.

Lemma find_all_false {A} (p : A -> bool) l : (forall a, In a l -> p a = false) -> find p l = None.
Proof.
  induction l as [|a r IH]; intros H; [reflexivity|]. cbn [find]. rewrite (H a (or_introl eq_refl)). apply IH. intros; apply H; now right.
Qed.
Lemma find_skip {A} (p : A -> bool) l1 x l2 : (forall a, In a l1 -> p a = false) -> p x = true -> find p (l1 ++ x :: l2) = Some x.
Proof.
  induction l1 as [|a r IH]; intros H PX; cbn [app find]; [now rewrite PX|]. rewrite (H a (or_introl eq_refl)). apply IH; [|exact PX]. intros; apply H; now right.
Qed.

Lemma mem_in a l : mem a l = true <-> In a l.
Proof. apply smem_in. Qed.
Lemma mem_not_in a l : mem a l = false <-> ~ In a l.
Proof. pose proof (mem_in a l) as H. destruct (mem a l); split; intros K; try discriminate; try reflexivity; [exfalso; apply K; now apply H | intros I; apply H in I; discriminate]. Qed.

(* ------------------------------------------------------------------ the model's reading *)
Section Eff.
Variables (b : state) (c : cmd) (K : list name).
Let tab := s_tab b.

Definition tsget (a : name) : status := match ts_lookup (s_tstat b) a with Some s => s | None => SOff end.
Definition eff (a : name) : status :=
  match lookup tab a with
  | None => SErr
  | Some pd => if mem (p_host pd) (s_fail b) then SErr
               else match c with
                    | CStat => tsget a
                    | COn => if mem a K then SOn else tsget a
                    | COff => if mem a K then SOff else tsget a
                    end
  end.
(* every ancestor answers on *)
Definition clr (x : name) : Prop := forall a, In a (anc tab x) -> status_is_on (eff a) = true.
Definition fails (x : name) : bool := match lookup tab x with Some pd => mem (p_host pd) (s_fail b) | None => true end.

Definition FF : forest := forest_of tab.
Definition M0 : statmap := statmap_of (s_tstat b).
Definition lnx (x : name) : text := sline FF (s_fail b) (scmd_of c) K M0 x.
Definition unk_line (p : name) : text := fmt f_stat_unknown_plug [p].

Lemma eff_seff a pd : lookup tab a = Some pd -> sstat_of (eff a) = seff FF (s_fail b) (scmd_of c) K M0 a.
Proof.
  intros L. unfold eff, seff, FF, M0. rewrite L, (host_of_forest _ _ _ L). change (smem (p_host pd) (s_fail b)) with (mem (p_host pd) (s_fail b)).
  destruct (mem (p_host pd) (s_fail b)); [reflexivity|]. change (smem a K) with (mem a K).
  unfold tsget. rewrite st_get_statmap.
  destruct c; cbn [scmd_of]; [|destruct (mem a K); [reflexivity|]..]; destruct (ts_lookup (s_tstat b) a); reflexivity.
Qed.

Lemma anc_known x a : okchain tab x -> In a (anc tab x) -> exists pd, lookup tab a = Some pd.
Proof. intros C I. destruct (okchain_anc _ _ _ C I) as (l1 & _ & _ & Ca). exact (chain_lookup _ _ _ Ca). Qed.

Lemma pred_agree x a : okchain tab x -> In a (anc tab x) ->
  negb (is_on (seff FF (s_fail b) (scmd_of c) K M0 a)) = negb (status_is_on (eff a)).
Proof. intros C I. destruct (anc_known x a C I) as [pd L]. rewrite <- (eff_seff a pd L), status_is_on_spec. reflexivity. Qed.

Lemma sblocker_none x : okchain tab x -> clr x -> sblocker FF (s_fail b) (scmd_of c) K M0 x = None.
Proof.
  intros C CL. unfold sblocker. rewrite find_all_false; [reflexivity|].
  intros a I. unfold RedfishSpec.chain in I. apply in_rev in I. change (ancestors FF x) with (anc tab x) in I.
  rewrite (pred_agree x a C I), (CL a I). reflexivity.
Qed.

Lemma sblocker_some x A : okchain tab x -> In A (anc tab x) -> clr A -> status_is_on (eff A) = false ->
  exists pda, lookup tab A = Some pda /\ sblocker FF (s_fail b) (scmd_of c) K M0 x = Some (A, sstat_of (eff A)).
Proof.
  intros C I CL NO. destruct (anc_known x A C I) as [pda LA]. exists pda. split; [exact LA|].
  destruct (okchain_anc _ _ _ C I) as (l1 & E & _ & _).
  unfold sblocker, RedfishSpec.chain. change (ancestors FF x) with (anc tab x). rewrite E, rev_app_distr. cbn [rev]. rewrite <- app_assoc. cbn [app].
  rewrite find_skip.
  - now rewrite (eff_seff A pda LA).
  - intros a Ia. apply in_rev in Ia. rewrite (pred_agree x a C); [now rewrite (CL a Ia)|]. rewrite E. apply in_or_app. right. now right.
  - rewrite (pred_agree x A C I), NO. reflexivity.
Qed.

Lemma sblocker_clr x : okchain tab x -> sblocker FF (s_fail b) (scmd_of c) K M0 x = None -> clr x.
Proof.
  intros C H a I. unfold sblocker in H.
  destruct (find _ (RedfishSpec.chain FF x)) eqn:F; [discriminate|].
  assert (Ia : In a (RedfishSpec.chain FF x)) by (unfold RedfishSpec.chain; apply -> in_rev; exact I).
  pose proof (find_none _ _ F a Ia) as N. cbv beta in N. rewrite (pred_agree x a C I) in N.
  now apply negb_false_iff.
Qed.

Lemma carried_iff x pd : okchain tab x -> lookup tab x = Some pd ->
  carried FF (s_fail b) (scmd_of c) K M0 x = true <-> clr x /\ fails x = false.
Proof.
  intros C L. unfold carried, fails. rewrite L. unfold FF at 2. rewrite (host_of_forest _ _ _ L). change (smem (p_host pd) (s_fail b)) with (mem (p_host pd) (s_fail b)). split.
  - destruct (sblocker _ _ _ _ _ x) eqn:B; [discriminate|]. intros H. apply negb_true_iff in H. split; [now apply sblocker_clr | exact H].
  - intros [CL F]. rewrite (sblocker_none x C CL), F. reflexivity.
Qed.

Lemma blocked_line_msg w pdx pda s : m_cmd w = c -> blocked_line w pda s = blocked_line (tmsg c (m_plug w) pdx) pda s.
Proof. intros E. unfold blocked_line, tmsg. cbn [m_cmd m_plug]. now rewrite E. Qed.

(* the line of a target below an ancestor that does not answer on *)
Lemma lnx_blocked x pdx A pda : okchain tab x -> lookup tab x = Some pdx -> In A (anc tab x) -> lookup tab A = Some pda ->
  clr A -> status_is_on (eff A) = false -> lnx x = blocked_line (tmsg c x pdx) pda (eff A).
Proof.
  intros C Lx I LA CL NO. destruct (sblocker_some x A C I CL NO) as (pda' & LA' & B). unfold lnx, sline. rewrite B.
  rewrite (blocked_line_spec b c x pdx A pda (eff A) LA). fold tab FF.
  destruct (scmd_of c), (sstat_of (eff A)); reflexivity.
Qed.

(* the line of a target all of whose ancestors answer on *)
Lemma lnx_own x pdx : okchain tab x -> lookup tab x = Some pdx -> clr x ->
  lnx x = if mem (p_host pdx) (s_fail b) then fmt f_shell_error [x]
          else match c with CStat => fmt f_stat_result [x; status_text (tsget x)] | _ => fmt f_onoff_ok [x] end.
Proof.
  intros C Lx CL. unfold lnx, sline. rewrite (sblocker_none x C CL). unfold FF. rewrite (host_of_forest _ _ _ Lx).
  change (smem (p_host pdx) (s_fail b)) with (mem (p_host pdx) (s_fail b)). destruct (mem (p_host pdx) (s_fail b)); [reflexivity|].
  destruct c; cbn [scmd_of]; try reflexivity.
  unfold M0, tsget. rewrite st_get_statmap. destruct (ts_lookup (s_tstat b) x) as [s|]; [destruct s|]; reflexivity.
Qed.
End Eff.

(* ------------------------------------------------------------------ what is printed, entry by entry *)
Definition outP (P : tag * text -> Prop) (st : state) : Prop := forall e, In e (s_out st) -> P e.

Lemma outP_emit (P : tag * text -> Prop) st t l : outP P st -> P (t, l) -> outP P (emit st t l).
Proof. intros H X e I. cbn [emit set_out s_out] in I. apply in_app_or in I as [I|[<-|[]]]; [now apply H | exact X]. Qed.
Lemma outP_emitf (P : tag * text -> Prop) st t f a : outP P st -> P (t, fmt f a) -> outP P (emitf st t f a).
Proof. apply outP_emit. Qed.

Lemma pw_answer_out (P : tag * text -> Prop) st w A s pda : lookup (s_tab st) A = Some pda -> outP P st ->
  (m_out w = true -> P (TResult (m_plug w), blocked_line w pda s)) -> outP P (pw_answer st w A s).
Proof.
  intros L H X. unfold pw_answer. rewrite L. destruct (m_out w); [|exact H]. specialize (X eq_refl). unfold blocked_line in X.
  destruct (cmd_is_stat (m_cmd w)); [now apply outP_emitf|]. destruct (cmd_is_off (m_cmd w) && status_is_off s); now apply outP_emitf.
Qed.

Lemma pw_answer_tab st w A s : s_tab (pw_answer st w A s) = s_tab st.
Proof.
  unfold pw_answer. destruct (m_out w); [|reflexivity]. destruct (cmd_is_stat _); [reflexivity|]. destruct (_ && _); [reflexivity|].
  destruct (lookup (s_tab st) A); [reflexivity|]. unfold raise. destruct (s_fault st); reflexivity.
Qed.

Lemma pw_first_go_out (P : tag * text -> Prop) tab A s pda ws : forall st, s_tab st = tab -> lookup tab A = Some pda -> outP P st ->
  (forall w, In w ws -> is_desc tab (m_plug w) A = true -> status_is_on s = false -> m_out w = true -> P (TResult (m_plug w), blocked_line w pda s)) ->
  outP P (fst (pw_first_go st A s ws)).
Proof.
  induction ws as [|w r IH]; intros st ET L H X; cbn [pw_first_go]; [exact H|].
  assert (Xr : forall w0, In w0 r -> is_desc tab (m_plug w0) A = true -> status_is_on s = false -> m_out w0 = true -> P (TResult (m_plug w0), blocked_line w0 pda s))
    by (intros; apply X; auto; now right).
  rewrite ET. destruct (is_desc tab (m_plug w) A) eqn:D; [destruct (status_is_on s) eqn:S; [destruct (parent_is w A)|]|].
  - apply IH; auto.
  - specialize (IH st ET L H Xr). destruct (pw_first_go st A s r) as [st' k]. exact IH.
  - apply IH; [rewrite pw_answer_tab; exact ET | exact L | | exact Xr].
    apply (pw_answer_out P st w A s pda); [now rewrite ET | exact H|]. intros O. apply X; auto. now left.
  - specialize (IH st ET L H Xr). destruct (pw_first_go st A s r) as [st' k]. exact IH.
Qed.

Lemma pw_first_out (P : tag * text -> Prop) tab A s pda st : s_tab st = tab -> lookup tab A = Some pda -> outP P st ->
  (forall w, In w (s_wait st) -> is_desc tab (m_plug w) A = true -> status_is_on s = false -> m_out w = true -> P (TResult (m_plug w), blocked_line w pda s)) ->
  outP P (pw_first st A s).
Proof.
  intros ET L H X. pose proof (pw_first_go_out P tab A s pda (s_wait st) st ET L H X) as G. unfold pw_first.
  destruct (pw_first_go st A s (s_wait st)) as [st' k]. exact G.
Qed.

(* a silent ancestor query: the state is unchanged or a DEBUG line is printed *)
Lemma scp_silent_out st a : has_path st CStat a = true ->
  exists pd, lookup (s_tab st) a = Some pd /\
    (stat_cmd_plug st a false = (st, Some (qmsg_of pd)) \/ exists t, stat_cmd_plug st a false = (emit st TDiag t, Some (qmsg_of pd))).
Proof.
  intros HP. destruct (has_path_get _ _ _ HP) as (pd & lp & L & GP). exists pd. split; [exact L|].
  unfold stat_cmd_plug. rewrite L, GP. unfold qmsg_of. rewrite (lookup_name _ _ _ L).
  destruct (s_verbose st); [right; eexists; reflexivity | left; reflexivity].
Qed.

Lemma plugname_active_app_false act add p c : plugname_active (act ++ add) p c = false -> plugname_active act p c = false.
Proof. intros H. destruct (plugname_active act p c) eqn:E; [|reflexivity]. rewrite (plugname_active_app _ add _ _ E) in H. discriminate. Qed.

Lemma pw_second_ext tab A (P : tag * text -> Prop) : forall fuel st k, s_tab st = tab ->
  (forall w ch, In w (s_wait st) -> child_of_ancestor tab (m_plug w) A = WFound ch -> has_path st CStat ch = true) ->
  length (s_wait st) - k < fuel -> (forall t, P (TDiag, t)) -> outP P st ->
  outP P (pw_second fuel st A k) /\
  (forall m, In m (s_active (pw_second fuel st A k)) -> In m (s_active st) \/
     exists w, In w (s_wait st) /\ child_of_ancestor tab (m_plug w) A = WFound (m_plug m) /\
               plugname_active (s_active st) (m_plug m) (m_cmd w) = false).
Proof.
  induction fuel as [|f IH]; intros st k ET HP LT PD H; [lia|]. rewrite pw_second_S.
  destruct (nth_error (s_wait st) k) as [w|] eqn:N; [|split; [exact H | auto]].
  assert (KL : k < length (s_wait st)) by (apply nth_error_Some; congruence).
  assert (Iw : In w (s_wait st)) by (eapply nth_error_In; eassumption).
  rewrite ET. destruct (child_of_ancestor tab (m_plug w) A) as [ch| |] eqn:CO; try (apply IH; auto; lia).
  destruct (plugname_active (s_active st) ch (m_cmd w)) eqn:PA; [apply IH; auto; lia|].
  destruct (scp_silent_out st ch (HP w ch Iw CO)) as (pd & L & [E|[t E]]); rewrite E; pose proof (lookup_name _ _ _ L) as NM.
  - destruct (IH (add_active st (qmsg_of pd)) (S k)) as [O Fr]; auto; [cbn [add_active set_active s_wait]; lia|].
    split; [exact O|]. intros m I. destruct (Fr m I) as [I'|(w' & Iw' & CO' & PA')].
    + cbn [add_active set_active s_active] in I'. apply in_app_or in I' as [I'|[<-|[]]]; [now left|]. right. exists w. cbn [qmsg_of m_plug]. rewrite NM. auto.
    + right. exists w'. split; [exact Iw'|]. split; [exact CO'|]. cbn [add_active set_active s_active] in PA'. eapply plugname_active_app_false; exact PA'.
  - destruct (IH (add_active (emit st TDiag t) (qmsg_of pd)) (S k)) as [O Fr]; auto; [cbn [add_active set_active emit set_out s_wait]; lia | apply (outP_emit P st TDiag t H (PD t))|].
    split; [exact O|]. intros m I. destruct (Fr m I) as [I'|(w' & Iw' & CO' & PA')].
    + cbn [add_active set_active emit set_out s_active] in I'. apply in_app_or in I' as [I'|[<-|[]]]; [now left|]. right. exists w. cbn [qmsg_of m_plug]. rewrite NM. auto.
    + right. exists w'. split; [exact Iw'|]. split; [exact CO'|]. cbn [add_active set_active emit set_out s_active] in PA'. eapply plugname_active_app_false; exact PA'.
Qed.

(* process_waiters: every printed entry is an old one, a DEBUG line, or the blocked line of a waiter below A; every appended
   message is a moved waiter or a silent query that plugname_active() did not find *)
Lemma pw_ext tab A s pda (P : tag * text -> Prop) st : s_tab st = tab -> lookup tab A = Some pda ->
  (status_is_on s = true -> forall w ch, In w (s_wait st) -> child_of_ancestor tab (m_plug w) A = WFound ch -> has_path st CStat ch = true) ->
  (forall t, P (TDiag, t)) -> outP P st ->
  (forall w, In w (s_wait st) -> is_desc tab (m_plug w) A = true -> status_is_on s = false -> m_out w = true -> P (TResult (m_plug w), blocked_line w pda s)) ->
  outP P (process_waiters st A s) /\
  (forall m, In m (s_active (process_waiters st A s)) -> In m (s_active st ++ filter (pw_mv tab A s) (s_wait st)) \/
     exists w, In w (filter (pw_kp tab A s) (s_wait st)) /\ child_of_ancestor tab (m_plug w) A = WFound (m_plug m) /\
               plugname_active (s_active st ++ filter (pw_mv tab A s) (s_wait st)) (m_plug m) (m_cmd w) = false).
Proof.
  intros ET L HP PD H X. destruct (pw_first_spec tab A s pda st ET L) as ((K1 & A1 & _) & W1).
  pose proof (pw_first_out P tab A s pda st ET L H X) as O1. unfold process_waiters.
  destruct (status_is_on s) eqn:S; [|split; [exact O1 | intros m I; left; now rewrite <- A1]].
  set (st1 := pw_first st A s) in *.
  assert (ET1 : s_tab st1 = tab) by (rewrite (keeps_tab _ _ K1); exact ET).
  destruct (pw_second_ext tab A P (scan_fuel st1) st1 0 ET1) as [O Fr]; auto.
  { rewrite W1. intros w ch I CO. rewrite (keeps_has_path _ _ _ _ K1). apply (HP eq_refl w ch); [|exact CO]. apply filter_In in I. tauto. }
  { unfold scan_fuel. lia. }
  split; [exact O|]. rewrite <- A1, <- W1. exact Fr.
Qed.

Lemma sipq_ext tab (P : tag * text -> Prop) : forall fuel st k, s_tab st = tab ->
  (forall w, In w (s_wait st) -> exists R, find_root tab (m_plug w) = WFound R /\ has_path st CStat R = true) ->
  length (s_wait st) - k < fuel -> (forall t, P (TDiag, t)) -> outP P st ->
  outP P (sipq fuel st k) /\
  (forall m, In m (s_active (sipq fuel st k)) -> In m (s_active st) \/
     exists w, In w (s_wait st) /\ find_root tab (m_plug w) = WFound (m_plug m) /\
               plugname_active (s_active st) (m_plug m) (m_cmd w) = false).
Proof.
  induction fuel as [|f IH]; intros st k ET HP LT PD H; [lia|]. rewrite sipq_S.
  destruct (nth_error (s_wait st) k) as [w|] eqn:N; [|split; [exact H | auto]].
  assert (KL : k < length (s_wait st)) by (apply nth_error_Some; congruence).
  assert (Iw : In w (s_wait st)) by (eapply nth_error_In; eassumption).
  rewrite ET. destruct (HP w Iw) as (R & FR & HPR). rewrite FR.
  destruct (plugname_active (s_active st) R (m_cmd w)) eqn:PA; [apply IH; auto; lia|].
  destruct (scp_silent_out st R HPR) as (pd & L & [E|[t E]]); rewrite E; pose proof (lookup_name _ _ _ L) as NM.
  - destruct (IH (add_active st (qmsg_of pd)) (S k)) as [O Fr]; auto; [cbn [add_active set_active s_wait]; lia|].
    split; [exact O|]. intros m I. destruct (Fr m I) as [I'|(w' & Iw' & CO' & PA')].
    + cbn [add_active set_active s_active] in I'. apply in_app_or in I' as [I'|[<-|[]]]; [now left|]. right. exists w. cbn [qmsg_of m_plug]. rewrite NM. auto.
    + right. exists w'. split; [exact Iw'|]. split; [exact CO'|]. cbn [add_active set_active s_active] in PA'. eapply plugname_active_app_false; exact PA'.
  - destruct (IH (add_active (emit st TDiag t) (qmsg_of pd)) (S k)) as [O Fr]; auto; [cbn [add_active set_active emit set_out s_wait]; lia | apply (outP_emit P st TDiag t H (PD t))|].
    split; [exact O|]. intros m I. destruct (Fr m I) as [I'|(w' & Iw' & CO' & PA')].
    + cbn [add_active set_active emit set_out s_active] in I'. apply in_app_or in I' as [I'|[<-|[]]]; [now left|]. right. exists w. cbn [qmsg_of m_plug]. rewrite NM. auto.
    + right. exists w'. split; [exact Iw'|]. split; [exact CO'|]. cbn [add_active set_active emit set_out s_active] in PA'. eapply plugname_active_app_false; exact PA'.
Qed.

(* ------------------------------------------------------------------ case analysis on the command, outside the sections that fix it *)
Lemma cmd_eq_dec (x y : cmd) : {x = y} + {x <> y}.
Proof. decide equality. Qed.
Lemma cmd_cases c : c <> CStat -> c = COn \/ c = COff.
Proof. destruct c; [congruence | auto | auto]. Qed.

(* the state an operation puts its plug in *)
Definition opst (c : cmd) : sstat := match c with COn => StOn | _ => StOff end.

Lemma eff_fail b c K x pd : lookup (s_tab b) x = Some pd -> mem (p_host pd) (s_fail b) = true -> eff b c K x = SErr.
Proof. intros L F. unfold eff. now rewrite L, F. Qed.
Lemma eff_stat b c K x pd : c = CStat -> lookup (s_tab b) x = Some pd -> mem (p_host pd) (s_fail b) = false -> eff b c K x = tsget b x.
Proof. intros -> L F. unfold eff. now rewrite L, F. Qed.
Lemma eff_notK b c K x pd : lookup (s_tab b) x = Some pd -> mem (p_host pd) (s_fail b) = false -> ~ In x K -> eff b c K x = tsget b x.
Proof. intros L F N. apply mem_not_in in N. unfold eff. rewrite L, F, N. destruct c; reflexivity. Qed.
Lemma eff_K b c K x pd s : lookup (s_tab b) x = Some pd -> mem (p_host pd) (s_fail b) = false -> In x K -> status_is_cmd s c = true -> s = eff b c K x.
Proof.
  intros L F I SC. apply mem_in in I. unfold eff. rewrite L, F, I.
  destruct c, s; try reflexivity; vm_compute in SC; discriminate SC.
Qed.
Lemma eff_K_off b K x : In x K -> status_is_on (eff b COff K x) = false.
Proof. intros I. apply mem_in in I. unfold eff. destruct (lookup (s_tab b) x); [|reflexivity]. destruct (mem _ (s_fail b)); [reflexivity|]. now rewrite I. Qed.

Lemma lnx_own_fail b c K x pdx : okchain (s_tab b) x -> lookup (s_tab b) x = Some pdx -> clr b c K x -> mem (p_host pdx) (s_fail b) = true ->
  lnx b c K x = fmt f_shell_error [x].
Proof. intros C L CL F. rewrite (lnx_own b c K x pdx C L CL), F. reflexivity. Qed.
Lemma lnx_own_stat b c K x pdx : okchain (s_tab b) x -> lookup (s_tab b) x = Some pdx -> clr b c K x -> mem (p_host pdx) (s_fail b) = false -> c = CStat ->
  lnx b c K x = fmt f_stat_result [x; status_text (tsget b x)].
Proof. intros C L CL F E. rewrite (lnx_own b c K x pdx C L CL), F, E. reflexivity. Qed.
Lemma lnx_own_op b c K x pdx : okchain (s_tab b) x -> lookup (s_tab b) x = Some pdx -> clr b c K x -> mem (p_host pdx) (s_fail b) = false -> c <> CStat ->
  lnx b c K x = fmt f_onoff_ok [x].
Proof. intros C L CL F E. rewrite (lnx_own b c K x pdx C L CL), F. destruct c; [congruence | reflexivity | reflexivity]. Qed.

(* the simulated operation on the status table *)
Lemma flip_tstat st m : m_cmd m <> CStat -> s_tstat (flip st m) = flip_ts st (s_tstat st) (m_cmd m) (m_plug m).
Proof. intros N. unfold flip, flip_ts. destruct (m_cmd m); [congruence | reflexivity | reflexivity]. Qed.
Lemma flip_log st m : s_log (flip st m) = s_log st ++ [EvOp (m_cmd m) (m_plug m)].
Proof. unfold flip. destruct (cmd_is_on (m_cmd m)); reflexivity. Qed.
Lemma flip_ts_other b ts c x k : k <> x -> (c = COff -> is_desc (s_tab b) k x = false) -> ts_lookup (flip_ts b ts c x) k = ts_lookup ts k.
Proof.
  intros NE D. destruct c; cbn [flip_ts]; [reflexivity | now apply ts_lookup_update_other|].
  rewrite (ts_lookup_map_off (fun n => is_desc (s_tab b) n x)), ts_lookup_update_other by exact NE. rewrite (D eq_refl).
  destruct (ts_lookup ts k); reflexivity.
Qed.
Lemma flip_ts_get_op b ts c x k : c <> CStat ->
  st_get (statmap_of (flip_ts b ts c x)) k =
  if text_eqb k x || (cmd_is_off c && is_desc (s_tab b) k x) then opst c else st_get (statmap_of ts) k.
Proof.
  intros N. rewrite flip_ts_get. destruct c; [congruence| |].
  - change (cmd_is_off COn) with false. cbn [andb opst]. now rewrite orb_false_r.
  - change (cmd_is_off COff) with true. cbn [andb opst]. reflexivity.
Qed.

Lemma plugname_active_off act y p : In y act -> m_plug y = p -> m_cmd y = COff -> plugname_active act p COff = true.
Proof.
  intros I E C. unfold plugname_active. apply existsb_exists. exists y. split; [exact I|]. rewrite E, C, text_eqb_refl.
  change (cmd_is_off COff) with true. cbn [andb]. now rewrite orb_true_r.
Qed.

Lemma tres_in x o : In x (tres o) -> exists e, In e o /\ fst e = TResult x.
Proof.
  unfold tres. intros I. apply in_flat_map in I as (e & Ie & Ix). exists e. split; [exact Ie|].
  destruct (fst e); cbn in Ix; try contradiction. destruct Ix as [->|[]]. reflexivity.
Qed.
Lemma tunk_in x o : In x (tunk o) -> exists e, In e o /\ fst e = TUnknown x.
Proof.
  unfold tunk. intros I. apply in_flat_map in I as (e & Ie & Ix). exists e. split; [exact Ie|].
  destruct (fst e); cbn in Ix; try contradiction. destruct Ix as [->|[]]. reflexivity.
Qed.
Lemma in_tres e x o : In e o -> fst e = TResult x -> In x (tres o).
Proof. intros I E. unfold tres. apply in_flat_map. exists e. split; [exact I|]. rewrite E. now left. Qed.
