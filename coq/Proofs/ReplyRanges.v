(* What a node set printed by the daemon denotes (C03 "-x and compressed output agree", C15 "node sets inside replies are
   well-formed host ranges", C14 "the node sets printed in replies denote the same nodes"): the host-list service the client
   layer uses as an oracle (`ranged_sorted` = push every name, hostlist_sort, hostlist_ranged_string) instantiated with the
   verified hostlist model Model/HL.v. *)
From Coq Require Import List NArith ZArith Bool Permutation.
From PM Require Import Base.Bytes Base.Outcome Gen.GenHL Model.HL Spec.HLSpec Proofs.HLProofs Proofs.HLRound Proofs.HLSort.
Import ListNotations.

(* _xhostlist_ranged_string after hostlist_push_host of every name and hostlist_sort *)
Definition hl_ranged_sorted (l : list text) : outcome text :=
  match sort (fold_left push_host l []) with
  | Ok h => Ok (ranged_string h)
  | Exit a b => Exit a b | Abort s => Abort s | MemErr s => MemErr s | Hang s => Hang s
  end.

Lemma legal_perm l l' : Permutation l l' -> Forall (fun n => legal n = true) l -> Forall (fun n => legal n = true) l'.
Proof. intros P H. rewrite Forall_forall in *. intros x Hx. apply H. eapply Permutation_in; [apply Permutation_sym; exact P|exact Hx]. Qed.

(* the text of a 302 / 303-unknown / 306 node set, re-read by hostlist_create, denotes exactly the names it was built from
   (as a multiset: the reply is sorted), for up to min(MAX_RANGE, RANGES_LEN_ARG) names free of list syntax *)
Theorem reply_set_denotes : forall l txt, Forall (fun n => legal n = true) l ->
  (N.of_nat (length l) <= GenHL.MAX_RANGE)%N -> (N.of_nat (length l) <= GenHL.RANGES_LEN_ARG)%N ->
  hl_ranged_sorted l = Ok txt ->
  exists h', create txt = Ok (Some h') /\ Permutation (expand h') l /\ wf h'.
Proof.
  intros l txt Hl H1 H2. unfold hl_ranged_sorted.
  destruct (sort (fold_left push_host l [])) as [h| | | |] eqn:Es; try discriminate. intros E; inversion E; subst txt.
  destruct (fold_push_host l [] ltac:(constructor)) as [He Hw]. cbn [expand app] in He.
  destruct (sort_permutation _ _ Hw Es) as [Hp Hwh]. rewrite He in Hp.
  assert (Hlen : length (expand h) = length l) by (apply Permutation_length; exact Hp).
  destruct (roundtrip_names h Hwh (legal_perm _ _ (Permutation_sym Hp) Hl) ltac:(rewrite Hlen; exact H1) ltac:(rewrite Hlen; exact H2)) as (h' & Ec & Ee & Hw').
  exists h'. split; [exact Ec|]. split; [rewrite Ee; exact Hp|exact Hw'].
Qed.
