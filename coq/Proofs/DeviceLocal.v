(* Locality facts about the device layer: only the head of a queue is touched by _process_action; operations on one
   device's far end leave the other devices alone. *)
From Coq Require Import List NArith ZArith Bool Lia.
From PM Require Import Base.Bytes Base.Outcome Base.Dec Gen.GenConsts Gen.GenCbuf Model.ScriptAst Model.Enqueue Model.Script Model.Device
  Model.DevHarness Proofs.DeviceProofs Proofs.DeviceStmt Proofs.DeviceInv Proofs.DeviceRun.
Import ListNotations.
Local Open Scope Z_scope.

Lemma upd_nth_other {A} (f : A -> A) : forall (l : list A) j i, i <> j -> nth_error (upd_nth l j f) i = nth_error l i.
Proof.
  induction l as [|x r IH]; intros j i H; cbn [upd_nth]; [reflexivity|].
  destruct j as [|j]; destruct i as [|i]; cbn [nth_error]; try reflexivity; try congruence. apply IH. congruence.
Qed.
Lemma upd_nth_fst' (f : device * peer -> device * peer) : (forall x, fst (f x) = fst x) ->
  forall l i, map fst (upd_nth l i f) = map fst l.
Proof.
  intros Hf. induction l as [|x r IH]; intros i; cbn [upd_nth map]; [reflexivity|].
  destruct i; cbn [map]; [now rewrite Hf|now rewrite IH].
Qed.

Section Local.
  Variable rmatch : text -> text -> option pmatch.
  Variable compress : list text -> text.
  Variable sc : bool.

  Lemma other_ops_keep_devices (h : hstate) (op : hop) :
    match op with HNow _ | HPlan _ _ | HFinish _ _ | HFeed _ _ | HPeerClose _ | HNewArgs _ => True | _ => False end ->
    exists h', hstep rmatch compress sc h op = Ok (h', out0) /\ map fst (h_devs h') = map fst (h_devs h).
  Proof.
    destruct op; intros H; try contradiction; cbn [hstep]; eexists; (split; [reflexivity|]); cbn [h_devs]; try reflexivity;
      apply upd_nth_fst'; intros [? ?]; reflexivity.
  Qed.

  Lemma other_device_untouched (h : hstate) (op : hop) (j i : nat) :
    i <> j ->
    match op with HPlan x _ | HFinish x _ | HFeed x _ | HPeerClose x => x = j | _ => False end ->
    exists h', hstep rmatch compress sc h op = Ok (h', out0) /\ nth_error (h_devs h') i = nth_error (h_devs h) i /\
               h_now h' = h_now h /\ h_store h' = h_store h.
  Proof.
    intros Hij. destruct op; intros H; try contradiction; subst; cbn [hstep]; eexists; (split; [reflexivity|]); cbn [h_devs h_now h_store];
      (split; [apply upd_nth_other; exact Hij|split; reflexivity]).
  Qed.

  (* ---------- only the head is touched ---------- *)
  Lemma reconnect_empty now d tmo plans d' evs tmo' pl :
    dv_acts d = [] -> reconnect now d tmo plans = Ok (d', evs, tmo', pl) ->
    dv_acts d' = [] \/ exists s, dv_acts d' = [create_action s PM_LOG_IN None 0 false false false None].
  Proof.
    intros Ea. unfold reconnect.
    destruct (if Z.eqb (dv_cstate d) DEV_NOT_CONNECTED then (d, []) else disconnect d) as [d1 e1] eqn:E1.
    assert (Ea1 : dv_acts d1 = []).
    { destruct (Z.eqb (dv_cstate d) DEV_NOT_CONNECTED); [inversion E1; subst; exact Ea|].
      destruct (disconnect_spec d d1 e1 E1) as (_ & _ & _ & _ & _ & _ & A & _). rewrite Ea in A. exact A. }
    destruct (time_to_reconnect now d1 tmo) as [go tmo1]. destruct go.
    - destruct (connect now d1 plans) as [[[d2 e2] pl2]| | | |] eqn:Ec; try discriminate.
      intros H. injection H as Hd _ _ _. rewrite <- Hd.
      unfold connect in Ec. destruct (_ || _); [discriminate|].
      destruct plans as [|[| |] r].
      + injection Ec as <- _ _. left. exact Ea1.
      + destruct (enqueue_login _) as [d3| | | |] eqn:El; try discriminate. injection Ec as <- _ _.
        apply enqueue_login_head in El as (s & _ & ->). right. exists s. cbn. rewrite Ea1. reflexivity.
      + injection Ec as <- _ _. left. exact Ea1.
      + injection Ec as <- _ _. left. exact Ea1.
    - intros H. injection H as <- _ _ _. left. exact Ea1.
  Qed.

  Definition dev_of (r : pa_res) : device := match r with PaDone x _ _ _ _ => x | PaNext x _ _ _ => x end.

  Lemma fail_and_reconnect_rest now d act rest store tmo plans pre r :
    fail_and_reconnect now d act rest store tmo plans pre = Ok r ->
    dv_acts (dev_of r) = [] \/ exists s, dv_acts (dev_of r) = [create_action s PM_LOG_IN None 0 false false false None].
  Proof.
    unfold fail_and_reconnect. destruct (connected (set_acts [] d)).
    - destruct (reconnect now (set_acts [] d) tmo plans) as [[[[d2 e2] tmo2] pl]| | | |] eqn:E; try discriminate.
      intros H. injection H as <-. cbn [dev_of]. eapply reconnect_empty; [|exact E]. reflexivity.
    - intros H. injection H as <-. left. reflexivity.
  Qed.

  Lemma pa_step_rest now d store tmo plans act0 rest r :
    pa_step rmatch compress sc now d store tmo plans = Ok r -> dv_acts d = act0 :: rest ->
    let d' := match r with PaDone x _ _ _ _ => x | PaNext x _ _ _ => x end in
    (exists h', dv_acts d' = h' :: rest) \/ dv_acts d' = rest \/ dv_acts d' = [] \/
    (exists s, dv_acts d' = [create_action s PM_LOG_IN None 0 false false false None]).
  Proof.
    intros E Ea. cbv zeta. change (match r with PaDone x _ _ _ _ => x | PaNext x _ _ _ => x end) with (dev_of r).
    unfold pa_step in E. rewrite Ea in E.
    destruct (a_exec act0) as [|e0 er]; [discriminate|].
    destruct (_ <=? now).
    - apply fail_and_reconnect_rest in E. destruct E as [E|E]; auto.
    - destruct (negb (connected d)).
      + injection E as <-. left. eexists. reflexivity.
      + destruct (do_while _ _ _ _ _ _ _ _ _ _) as [[[[[[fin sd'] act'] store'] evs] dt]| | | |]; try discriminate.
        destruct (negb fin).
        * injection E as <-. left. eexists. reflexivity.
        * destruct (Z.eqb (a_err act') ACT_ESUCCESS).
          -- destruct (a_exec (advance act')).
             ++ injection E as <-. right. left. cbn [dev_of]. destruct (Z.eqb (a_com (advance act')) PM_LOG_IN); reflexivity.
             ++ injection E as <-. left. eexists. reflexivity.
          -- apply fail_and_reconnect_rest in E. destruct E as [E|E]; auto.
  Qed.
End Local.
