(* Non-vacuity examples for Proofs/DeviceDeadlineBackoff.v, the sharpness of its condition  T + sigma < 60 s, and the
   refutation of "after the cheap back-off steps the run is steady".

   The device is DeviceDeadlineEx.d5 (C07.ex_dev after a connect at 1 s, one pass and `on n1` of client 7 appended:
   queue [login(1 s); on(7, no stamp)], dev->timeout = 5 s, retry_count = 1, last_retry = 1 s) and its 60 s twin d60. *)
From Coq Require Import List NArith ZArith Bool Lia.
From PM Require Import Base.Bytes Base.Outcome Base.Dec Gen.GenConsts Gen.GenCbuf Model.ScriptAst Model.Enqueue Model.Script Model.Device Model.DevHarness
  Proofs.DeviceProofs Proofs.DeviceStmt Proofs.DeviceStmtG Proofs.DeviceInv Proofs.DeviceInvG Proofs.DeviceMask Proofs.DeviceRunG Proofs.DeviceDeadline
  Proofs.DeviceDeadlineEx Proofs.DeviceDeadlineBackoff.
From PM Require Properties.C07.
Import ListNotations.
Local Open Scope Z_scope.

(* no descriptor event; the next connect() succeeds at once *)
Definition conn_now : passin := mkPassin false false false false false None None true [ConnNow] None.

(* the cheap back-off steps for dev->timeout = 5 s and no slack: 1 s, 2 s, 4 s *)
Example ncheap_5s : map (ncheap 5000000) [0; 1; 2; 3; 4; 5; 12; 13] = [4; 3; 2; 1; 0; 0; 0; 0] /\
                    5000000 + 0 < last backoff_table 0 /\ last backoff_table 0 = 60000000.
Proof. vm_compute. repeat split. Qed.
(* ... and the potential of d5: 1 s + 7 * 5 s *)
Example pot_d5 : pot 0 5900000 d5 = 36000000 /\ dv_retry_count d5 = 1 /\ dv_last_retry d5 = 1000000.
Proof. vm_compute. repeat split. Qed.

(* ---------- (B1) the flapping peer of DeviceDeadlineEx.deadline_5s_refuted, continued ----------
   The peer hangs up just before each login's deadline (5.9, 10.8, 15.7, 20.6 s); the first three hang-ups find the back-off gate
   open (steps 1, 2, 4 s) and get a fresh login; the fourth (gate closed until 23.7 s) leaves the client's action at the head of
   a not-connected device, stamped 20.6 s; at 23.7 s (the wake-up the daemon asked for) connect() succeeds and a fifth login is
   put in front; the hang-up at 28.6 s finds the gate closed (15 s) and the action expired: everything is reported.  Every pass
   comes no later than the wake-up requested by the previous one (sigma = 0). *)
Definition ps_flap : list pass :=
  [mkPass 5900000 [] None hup; mkPass 10800000 [] None hup; mkPass 15700000 [] None hup; mkPass 20600000 [] None hup;
   mkPass 23700000 [] None conn_now; mkPass 28600000 [] None hup; mkPass 36000000 [] None silent].

Example deadline_backoff_example :
  exists d' evs, passes rm cp false ps_flap d5 = Ok (d', evs) /\
    timely_run rm cp false 0 (Some 6000000) ps_flap d5 /\ lim_covers (Some 6000000) d5 /\
    pot 0 5900000 d5 = 36000000 /\ last_clock 1000000 ps_flap = 36000000 /\
    completions evs = [7] /\ queued d' = [] /\ nconn evs = 4%nat.
Proof.
  assert (E : exists d' evs, passes rm cp false ps_flap d5 = Ok (d', evs) /\ nconn evs = 4%nat) by (eexists _, _; vm_compute; split; reflexivity).
  destruct E as (d' & evs & E & N). exists d', evs. split; [exact E|].
  assert (Ht : timely_run rm cp false 0 (Some 6000000) ps_flap d5) by (apply timely_b_ok; vm_compute; reflexivity).
  assert (Hl : lim_covers (Some 6000000) d5).
  { intros a r s Ea Es. exists 6000000. split; [reflexivity|]. vm_compute in Ea. injection Ea as <- <-. vm_compute in Es. injection Es as <-. vm_compute. discriminate. }
  split; [exact Ht|]. split; [exact Hl|]. split; [vm_compute; reflexivity|]. split; [reflexivity|].
  destruct d5_inv as [I5 R5].
  (* the conclusion comes from the theorem, not from evaluating the run *)
  destruct (deadline_backoff_timely rm cp false 0 ltac:(lia) (mkPass 5900000 [] None hup) (tl ps_flap) d5 1000000 (Some 6000000) d' evs I5 R5) as [C Q].
  - vm_compute. reflexivity.
  - vm_compute. reflexivity.
  - exact d5_stamps.
  - apply clocks_b_ok. vm_compute. reflexivity.
  - apply all_tmo_none. repeat constructor.
  - exact Hl.
  - exact Ht.
  - exact E.
  - vm_compute. discriminate.
  - split; [rewrite C; vm_compute; reflexivity|]. split; [exact Q|exact N].
Qed.

(* one pass: the hypotheses of pot_pass hold for d5 at 5.9 s with the peer hanging up; client 7 is still queued afterwards (a
   fresh login is in front of its action) and the potential has not increased *)
Example pot_pass_example :
  ontime 0 5900000 d5 /\
  match post_poll_one rm cp false 5900000 d5 [] None hup with
  | Ok (d', _, _, _) => queued d' <> [] /\ forall now', pot 0 now' d' <= pot 0 5900000 d5
  | _ => False
  end.
Proof.
  destruct d5_inv as [I5 R5].
  assert (Hon : ontime 0 5900000 d5).
  { intros a r s Ea Es. vm_compute in Ea. injection Ea as <- <-. vm_compute in Es. injection Es as <-. vm_compute. discriminate. }
  split; [exact Hon|].
  pose proof (pot_pass rm cp false 0 ltac:(lia) 5900000 d5 [] None hup I5 tmo_pos_none R5 ltac:(vm_compute; reflexivity) ltac:(vm_compute; reflexivity)
                (stamps_le_mono 1000000 5900000 _ ltac:(lia) d5_stamps) Hon) as H.
  assert (Q : match post_poll_one rm cp false 5900000 d5 [] None hup with Ok (d', _, _, _) => queued d' <> [] | _ => False end) by (vm_compute; discriminate).
  destruct (post_poll_one rm cp false 5900000 d5 [] None hup) as [[[[d' st'] t'] evs]| | | |]; try contradiction.
  destruct H as (_ & _ & [Q0|(_ & B & _)]); [contradiction|]. split; assumption.
Qed.

(* ---------- the condition  T + sigma < 60 s  is sharp ----------
   dev->timeout = 60 s = the largest back-off step.  The peer accepts, never answers the login and hangs up exactly at the
   login's deadline, i.e. in the pass the daemon's own time-out wakes it up for (every pass is on time, sigma = 0).  The front
   part of the pass (hang-up -> _reconnect: the gate has just opened) runs before _process_action looks at the deadline: a fresh
   login each time, for ever.  After 50 rounds (3001 s) client 7 has not been answered. *)
Definition d60 : device := Eval vm_compute in match start (mkd 60000000) with Ok d => d | _ => mkd 0 end.
Lemma d60_start : start (mkd 60000000) = Ok d60.
Proof. vm_compute. reflexivity. Qed.
Definition flap60 (n : nat) : list pass := map (fun k => mkPass (1000000 + 60000000 * Z.of_nat k) [] None hup) (seq 1 n).

Theorem deadline_60s_refuted :
  exists d t0 lim p r d' evs,
    DInvG cp d /\ 0 <= dv_retry_count d /\ 0 < dv_timeout d /\ dv_timeout d + 0 = last backoff_table 0 /\ stamps_le t0 (dv_acts d) /\
    clocks_from t0 (p :: r) /\ Forall (fun p => tmo_pos (p_tmo p)) (p :: r) /\
    lim_covers lim d /\ timely_run rm cp false 0 lim (p :: r) d /\
    passes rm cp false (p :: r) d = Ok (d', evs) /\
    last_clock t0 (p :: r) = 3001000000 /\
    queued d = [7] /\ completions evs = [] /\ queued d' = [7] /\
    map (fun a => (a_com a, a_client a, a_stamp a)) (dv_acts d') = [(PM_LOG_IN, 0, Some 3001000000); (PM_POWER_ON, 7, None)].
Proof.
  exists d60, 1000000, (Some 61000000), (mkPass 61000000 [] None hup), (tl (flap60 50)).
  assert (E : exists d' evs, passes rm cp false (flap60 50) d60 = Ok (d', evs) /\ completions evs = [] /\ queued d' = [7] /\
              map (fun a => (a_com a, a_client a, a_stamp a)) (dv_acts d') = [(PM_LOG_IN, 0, Some 3001000000); (PM_POWER_ON, 7, None)]).
  { eexists _, _. vm_compute. repeat split. }
  destruct E as (d' & evs & E & C & Q & A). exists d', evs.
  destruct (start_inv _ _ d60_start) as [I R].
  split; [exact I|]. split; [exact R|]. split; [vm_compute; reflexivity|]. split; [vm_compute; reflexivity|].
  split; [repeat constructor; intros t Et; vm_compute in Et; try discriminate Et; injection Et as <-; lia|].
  split; [apply clocks_b_ok; vm_compute; reflexivity|].
  split; [apply all_tmo_none; change (mkPass 61000000 [] None hup :: tl (flap60 50)) with (flap60 50); unfold flap60; apply Forall_forall; intros p Hp; apply in_map_iff in Hp as (k & <- & _); reflexivity|].
  split; [intros a r s Ea Es; exists 61000000; split; [reflexivity|]; vm_compute in Ea; injection Ea as <- <-; vm_compute in Es; injection Es as <-; vm_compute; discriminate|].
  split; [apply timely_b_ok; vm_compute; reflexivity|].
  split; [exact E|]. split; [vm_compute; reflexivity|]. split; [vm_compute; reflexivity|]. auto.
Qed.

(* the same history as operations of the device-layer harness (Model/DevHarness): the case replayed on device.c *)
Definition flap60_ops (n : nat) : list hop :=
  [HNow 1000000; HPlan 0 (repeat ConnNow (S n)); HInit; HPass; HNewArgs [bslit "n1"]; HEnq PM_POWER_ON 7 false 0 [bslit "n1"]; HNow 1100000; HPass]
  ++ flat_map (fun k => [HNow (1000000 + 60000000 * Z.of_nat k); HPeerClose 0; HPass]) (seq 1 n).
Example deadline_60s_history :
  match run rm cp false (mkH 0 [(mkd 60000000, peer0)] []) (flap60_ops 50) with
  | Ok (h, outs) =>
      h_now h = 3001000000 /\
      flat_map (fun o => completions (map snd (o_evs o))) outs = [] /\
      length (flat_map (fun o => filter (fun e => is_conn (snd e)) (o_evs o)) outs) = 51%nat /\
      map (fun '(d, _) => (dv_cstate d, dv_retry_count d, map (fun a => (a_com a, a_client a, a_stamp a)) (dv_acts d))) (h_devs h)
        = [(DEV_CONNECTED, 51, [(PM_LOG_IN, 0, Some 3001000000); (PM_POWER_ON, 7, None)])]
  | _ => False
  end.
Proof. vm_compute. repeat split. Qed.

(* ---------- "after the cheap steps the run is steady" is FALSE ----------
   In ps_flap the three cheap steps are used up at 15.7 s (retry_count = 4, ncheap = 0); the pass at 23.7 s nevertheless
   establishes a connection (the 8 s gate has opened): it is not steady, and a fifth login is put in front of client 7's action.
   Connections go on being established for ever (every 60 s at least); what the potential shows is that they cannot starve the
   queue any more. *)
Theorem steady_after_cheap_steps_refuted :
  exists d evs, passes rm cp false (firstn 4 ps_flap) d5 = Ok (d, evs) /\
    ncheap (dv_timeout d + 0) (dv_retry_count d) = 0 /\ queued d = [7] /\
    ~ steady 23700000 d None conn_now /\
    match post_poll_one rm cp false 23700000 d [] None conn_now with
    | Ok (d', _, _, _) => map (fun a => (a_com a, a_client a, a_stamp a)) (dv_acts d') = [(PM_LOG_IN, 0, Some 23700000); (PM_POWER_ON, 7, Some 20600000)]
    | _ => False
    end.
Proof.
  eexists _, _. split; [vm_compute; reflexivity|]. split; [vm_compute; reflexivity|]. split; [vm_compute; reflexivity|].
  split; [|vm_compute; reflexivity].
  intros (d3 & t3 & pl & e12 & new & E & Hn & Ea). vm_compute in E. injection E as <- _ _ _. vm_compute in Ea.
  destruct new as [|x new]; discriminate Ea.
Qed.
