(* C08, whole run, part 2: residual of a context stack, the invariant, and the simulation of one
   [process_stmt] call / one do..while round / one advance by the trace semantics. *)
From Coq Require Import List NArith ZArith Bool Lia.
From PM Require Import Base.Bytes Base.Outcome Base.Dec Gen.GenConsts Model.ScriptAst Model.Enqueue Model.Script
  Spec.ScriptSem Proofs.ScriptProofs Proofs.ScriptRefine.
Import ListNotations.
Local Open Scope Z_scope.

(* ---------- observations of the model, read off one do..while round ----------
   sends and matches are the model's own events; a delay is observed when it finishes (start = the stored
   delay_start, end = the clock of the pass); a setplugstate / setresult is observed as the request's argument
   table right after it.  Which statement ran is the current statement of the context on top of the stack
   after the round (pushing statements emit nothing). *)
Definition step_obs (now : Z) (d : sdev) (fin : bool) (a' : action) (store' : list arglist) (evs : list ev) : list obs :=
  match a_exec a' with
  | [] => []
  | e :: _ =>
    match cur e with
    | Some (Send _) => flat_map (fun v => match v with EvSent b => [OSend b] | _ => [] end) evs
    | Some (Expect re) => flat_map (fun v => match v with EvMatched n => [OExpect re (firstn n (sd_from d))] | _ => [] end) evs
    | Some (Delay us) => if fin then [ODelay us (a_delay_start a') now] else []
    | Some (SetPlugState _ _ _ _) => [OSetState (get_args store' a')]
    | Some (SetResult _ _ _) => [OSetResult (get_args store' a')]
    | _ => []
    end
  end.

(* the bytes the model's events say were queued for the device *)
Definition raw_sent (evs : list ev) : text := flat_map (fun v => match v with EvSent b => b | _ => [] end) evs.
Lemma raw_sent_app a b : raw_sent (a ++ b) = raw_sent a ++ raw_sent b.
Proof. apply flat_map_app. Qed.
Lemma sent_of_app a b : sent_of (a ++ b) = sent_of a ++ sent_of b.
Proof. apply flat_map_app. Qed.
Lemma sent_of_sendmap evs : sent_of (flat_map (fun v => match v with EvSent b => [OSend b] | _ => [] end) evs) = raw_sent evs.
Proof.
  induction evs as [|v r IH]; [reflexivity|]. cbn [flat_map]. rewrite sent_of_app, IH. destruct v; try reflexivity.
  cbn [sent_of flat_map raw_sent app]. now rewrite app_nil_r.
Qed.
Lemma sent_of_matchmap re buf evs :
  sent_of (flat_map (fun v => match v with EvMatched n => [OExpect re (firstn n buf)] | _ => [] end) evs) = [].
Proof. induction evs as [|v r IH]; [reflexivity|]. cbn [flat_map]. rewrite sent_of_app, IH. destruct v; reflexivity. Qed.
Lemma raw_tele a m : raw_sent (tele a m) = [].
Proof. unfold tele. destruct (a_tele a); reflexivity. Qed.

Lemma skipn_nth {A} : forall n (l : list A) x, nth_error l n = Some x -> skipn n l = x :: skipn (S n) l.
Proof.
  induction n as [|n IH]; intros [|y l] x H; cbn [nth_error] in H; try discriminate.
  - inversion H. reflexivity.
  - cbn [skipn]. rewrite (IH l x H). reflexivity.
Qed.

Lemma get_args_same st (a a' : action) : a_args a' = a_args a -> get_args st a' = get_args st a.
Proof. unfold get_args. intros ->. reflexivity. Qed.

Lemma nth_store_set : forall store i al x, nth_error store i = Some x -> nth_error (store_set store i al) i = Some al.
Proof. induction store as [|y r IH]; intros [|i] al x H; cbn [nth_error store_set] in *; try discriminate; eauto. Qed.

Lemma arg_update_absent : forall al node f, arg_find al node = None -> arg_update al node f = al.
Proof.
  induction al as [|x r IH]; intros node f H; cbn [arg_find arg_update] in *; [reflexivity|].
  destruct (text_eqb (ar_node x) node); [discriminate|]. now rewrite IH.
Qed.

(* ---------- what the parser guarantees about a script (C17 / C18): blocks are not empty, a send format has at most
   one %s and otherwise only %% (hsprintf is defined on it) ---------- *)
Definition fmt_valid (fmt : text) : Prop := forall a, hsprintf1 fmt a <> None.
Fixpoint swf (x : stmt) : Prop :=
  match x with
  | Send fmt => fmt_valid fmt
  | ForeachPlug b | ForeachNode b | IfOn b | IfOff b =>
      b <> [] /\ (fix go (l : list stmt) : Prop := match l with [] => True | y :: r => swf y /\ go r end) b
  | _ => True
  end.
Definition bwf (b : list stmt) : Prop := b <> [] /\ Forall swf b.
Lemma swf_go_forall b :
  (fix go (l : list stmt) : Prop := match l with [] => True | y :: r => swf y /\ go r end) b <-> Forall swf b.
Proof.
  induction b as [|x r IH].
  - split; intros _; [constructor|exact I].
  - split; intros H.
    + destruct H as [H1 H2]. constructor; [exact H1|now apply IH].
    + inversion H; subst. split; [assumption|now apply IH].
Qed.
Lemma swf_body x body : (x = ForeachPlug body \/ x = ForeachNode body \/ x = IfOn body \/ x = IfOff body) -> swf x -> bwf body.
Proof. intros [->|[->|[->| ->]]] H; cbn [swf] in H; destruct H as [H1 H2]; (split; [exact H1|now apply swf_go_forall]). Qed.

Section Sim.
  Variable rmatch : text -> text -> option pmatch.
  Variable compress : list text -> text.
  Variable sc : bool.
  Variable ranged : bool.
  Variable devplugs : list plug.
  Variable script0 : list stmt.                  (* the script of the action and its plug argument *)
  Variable ps0 : option (list plug).
  Variable args0 : option nat.                   (* its argument table and diagnostics callback *)
  Variable diag0 : bool.

  Notation xstmt := (exec_stmt rmatch compress sc ranged devplugs).
  Notation xblock := (exec_block rmatch compress sc ranged devplugs).
  Notation xiter := (exec_iter rmatch compress sc ranged devplugs).
  Notation slist := (sem_list ranged devplugs).

  Lemma block_cons x r ps : tincl (seq (xstmt x ps) (xblock r ps)) (xblock (x :: r) ps).
  Proof.
    intros s tr s' st [(tr1 & s1 & tr2 & -> & H1 & H2)|(Hn & H1)]; [eapply B_cons; eassumption|apply B_stop; assumption].
  Qed.
  Lemma iter_cons body p r : tincl (seq (xblock body (Some [p])) (xiter body r)) (xiter body (p :: r)).
  Proof.
    intros s tr s' st [(tr1 & s1 & tr2 & -> & H1 & H2)|(Hn & H1)]; [eapply I_cons; eassumption|apply I_stop; assumption].
  Qed.

  (* ---------- residual ---------- *)
  Definition itr (e : ctx) : nat := match c_plugitr e with Some i => i | None => O end.
  Definition cur_resid (e : ctx) (x : stmt) : trel :=
    match x with
    | Send _ | IfOn _ | IfOff _ => if c_processing e then skip else xstmt x (c_plugs e)
    | ForeachPlug body => xiter body (remaining false (slist (c_plugs e)) (itr e))
    | ForeachNode body => xiter body (remaining true (slist (c_plugs e)) (itr e))
    | _ => xstmt x (c_plugs e)
    end.
  Definition tail_resid (e : ctx) : trel := xblock (skipn (S (c_pos e)) (c_block e)) (c_plugs e).
  Definition ctx_resid (e : ctx) : trel :=
    match cur e with Some x => seq (cur_resid e x) (tail_resid e) | None => skip end.
  Fixpoint resid (stack : list ctx) : trel :=
    match stack with [] => skip | e :: rest => seq (ctx_resid e) (resid rest) end.

  Definition clean (e : ctx) : Prop := c_processing e = false /\ c_plugitr e = None.

  Lemma cur_resid_clean e x : clean e -> tincl (cur_resid e x) (xstmt x (c_plugs e)).
  Proof.
    intros [Hp Hi]. unfold cur_resid, itr. rewrite Hp, Hi. destruct x; try exact (tincl_refl _).
    - intros s tr s' st H. apply X_foreachplug. exact H.
    - intros s tr s' st H. apply X_foreachnode. exact H.
  Qed.

  Lemma ctx_resid_clean e x : clean e -> cur e = Some x ->
    tincl (ctx_resid e) (xblock (skipn (c_pos e) (c_block e)) (c_plugs e)).
  Proof.
    intros Hc Hx. unfold ctx_resid. rewrite Hx. unfold cur in Hx. rewrite (skipn_nth _ _ _ Hx).
    eapply tincl_trans; [apply seq_mono; [apply cur_resid_clean; exact Hc|exact (tincl_refl _)]|apply block_cons].
  Qed.

  Lemma resid_advance a e rest : a_exec a = e :: rest -> clean e ->
    tincl (resid (a_exec (advance a))) (seq (tail_resid e) (resid rest)).
  Proof.
    intros Ex Hc. unfold advance. rewrite Ex. cbv zeta.
    destruct (cur (set_pos (S (c_pos e)) e)) as [y|] eqn:Ey.
    - cbn [a_exec set_exec resid]. apply seq_mono; [|exact (tincl_refl _)].
      exact (ctx_resid_clean (set_pos (S (c_pos e)) e) y Hc Ey).
    - cbn [a_exec set_exec]. intros s tr s' st H. left. exists [], s, tr. split; [reflexivity|]. split; [|exact H].
      unfold tail_resid. unfold cur in Ey. cbn [c_block c_pos set_pos] in Ey. apply nth_error_None in Ey.
      rewrite (skipn_all2 _ Ey). apply B_nil.
  Qed.

  Lemma new_ctx_resid body ps : body <> [] -> tincl (ctx_resid (new_ctx body ps)) (xblock body ps).
  Proof.
    intros Hne. destruct body as [|x0 r]; [congruence|].
    exact (ctx_resid_clean (new_ctx (x0 :: r) ps) x0 (conj eq_refl eq_refl) eq_refl).
  Qed.

  (* ---------- invariants of a context ---------- *)
  Definition mode_ok (e : ctx) : Prop :=
    match cur e with
    | Some (Send _) | Some (Delay _) | Some (IfOn _) | Some (IfOff _) => c_plugitr e = None
    | Some (ForeachPlug _) | Some (ForeachNode _) => c_processing e = false
    | Some _ => clean e
    | None => False
    end.
  Definition plist_ok (e : ctx) : Prop :=
    (forall l, c_pluglist e = Some l -> c_plugs e = Some l) /\
    (ranged = true -> c_plugitr e <> None -> c_pluglist e <> None).
  Definition lv_ok (e : ctx) : Prop :=
    (block_levels (c_block e) <= 8)%nat /\ bwf (c_block e) /\ (ranged = true -> c_plugs e <> None).
  Definition ctx_ok (e : ctx) : Prop := mode_ok e /\ plist_ok e /\ lv_ok e.

  Lemma clean_mode_ok e x : clean e -> cur e = Some x -> mode_ok e.
  Proof. intros [Hp Hi] Hx. unfold mode_ok. rewrite Hx. destruct x; auto; split; auto. Qed.
  Lemma mode_ok_cur e : mode_ok e -> exists x, cur e = Some x.
  Proof. unfold mode_ok. destruct (cur e) as [x|]; [eauto|contradiction]. Qed.

  (* the outermost context (bottom of the stack) always is the script itself with the action's plugs *)
  Fixpoint base (stack : list ctx) : option ctx :=
    match stack with [] => None | e :: r => match r with [] => Some e | _ => base r end end.
  Definition base_ok (stack : list ctx) : Prop :=
    match base stack with Some e => c_block e = script0 /\ c_plugs e = ps0 | None => True end.
  Lemma base_top e e1 rest : c_block e1 = c_block e -> c_plugs e1 = c_plugs e -> base_ok (e :: rest) -> base_ok (e1 :: rest).
  Proof. unfold base_ok. cbn [base]. destruct rest; [intros -> ->; auto|auto]. Qed.
  Lemma base_push c e1 rest : base_ok (e1 :: rest) -> base_ok (c :: e1 :: rest).
  Proof. intros H. exact H. Qed.
  Lemma base_advance a : base_ok (a_exec a) -> base_ok (a_exec (advance a)).
  Proof.
    unfold advance. destruct (a_exec a) as [|e rest] eqn:Ex; [rewrite Ex; auto|]. cbv zeta.
    destruct (cur (set_pos (S (c_pos e)) e)); cbn [a_exec set_exec]; [apply (base_top e); reflexivity|].
    destruct rest; [intros _; exact I|intros H; exact H].
  Qed.
  Lemma base_in : forall stack e, base stack = Some e -> In e stack.
  Proof.
    induction stack as [|x r IH]; intros e H; cbn [base] in H; [discriminate|].
    destruct r; [injection H as <-; left; reflexivity|right; apply IH; exact H].
  Qed.
  Lemma base_rev : forall stack, base stack = hd_error (rev stack).
  Proof.
    induction stack as [|x r IH]; [reflexivity|]. cbn [base rev]. destruct r as [|y r']; [reflexivity|].
    rewrite IH. cbn [rev]. destruct (rev r' ++ [y]) eqn:E; [destruct (rev r'); discriminate E|reflexivity].
  Qed.

  Definition frame (a : action) : Prop :=
    is_ranged_com (a_com a) = ranged /\ Forall ctx_ok (a_exec a) /\ a_err a = ACT_ESUCCESS /\ base_ok (a_exec a) /\
    a_args a = args0 /\ a_hasdiag a = diag0.

  Lemma advance_fields a : a_com (advance a) = a_com a /\ a_err (advance a) = a_err a /\ a_args (advance a) = a_args a
    /\ a_hasdiag (advance a) = a_hasdiag a.
  Proof. unfold advance. destruct (a_exec a) as [|e r]; [auto|]. cbv zeta. destruct (cur _); auto. Qed.

  Lemma advance_ctx_ok a e rest : a_exec a = e :: rest -> clean e -> plist_ok e -> lv_ok e -> Forall ctx_ok rest ->
    Forall ctx_ok (a_exec (advance a)).
  Proof.
    intros Ex Hc Hp Hl Hr. unfold advance. rewrite Ex. cbv zeta.
    destruct (cur (set_pos (S (c_pos e)) e)) eqn:Ey; cbn [a_exec set_exec]; [|exact Hr].
    constructor; [|exact Hr]. split; [|split; [exact Hp|exact Hl]].
    eapply clean_mode_ok; [exact Hc|exact Ey].
  Qed.

  (* ---------- model state vs semantic state ---------- *)
  Definition top_expect (a : action) : Prop := exists e rest re, a_exec a = e :: rest /\ cur e = Some (Expect re).
  Definition srel (s : sst) (d : sdev) (a : action) (store : list arglist) : Prop :=
    ss_args s = get_args store a /\ (top_expect a \/ ss_xm s = model_xm d).

  (* ---------- what one non-pushing round establishes ---------- *)
  Definition step_post (now : Z) (d : sdev) (a : action) (s : sst) (fin : bool) (d' : sdev) (a' : action)
             (store' : list arglist) (evs : list ev) : Prop :=
    let o := step_obs now d fin a' store' evs in
    sd_plugs d' = sd_plugs d /\ sent_of o = raw_sent evs /\
    if fin then
      if Z.eqb (a_err a') ACT_ESUCCESS then
        exists s1, srel s1 d' (advance a') store' /\ frame (advance a') /\
                   after (resid (a_exec a)) s o (resid (a_exec (advance a'))) s1 /\
                   (exists e1 r1, a_exec a' = e1 :: r1 /\ c_processing e1 = false)     (* the finished statement left its flag clear *)
      else o = [] /\ resid (a_exec a) s [] s Fail
    else a_exec a' <> [] /\ exists s1, srel s1 d' a' store' /\ frame a' /\ after (resid (a_exec a)) s o (resid (a_exec a')) s1.

  Definition push_post (d : sdev) (a : action) (store : list arglist) (s : sst) (d' : sdev) (a' : action)
             (store' : list arglist) (evs : list ev) : Prop :=
    d' = d /\ store' = store /\ evs = [] /\ frame a' /\ a_args a' = a_args a /\
    after (resid (a_exec a)) s [] (resid (a_exec a')) s /\
    (exists c r e r0, a_exec a' = c :: r /\ a_exec a = e :: r0 /\ (block_levels (c_block c) < block_levels (c_block e))%nat).

  Definition sim_post (now : Z) (d : sdev) (a : action) (store : list arglist) (s : sst) (fin : bool) (d' : sdev) (a' : action)
             (store' : list arglist) (evs : list ev) : Prop :=
    ((length (a_exec a) < length (a_exec a'))%nat /\ push_post d a store s d' a' store' evs)
    \/ ((length (a_exec a') <= length (a_exec a))%nat /\ step_post now d a s fin d' a' store' evs).

  Lemma obs_tele_send a m : flat_map (fun v => match v with EvSent b => [OSend b] | _ => [] end) (tele a m) = [].
  Proof. unfold tele. destruct (a_tele a); reflexivity. Qed.
  Lemma obs_tele_match a m buf re :
    flat_map (fun v => match v with EvMatched n => [OExpect re (firstn n buf)] | _ => [] end) (tele a m) = [].
  Proof. unfold tele. destruct (a_tele a); reflexivity. Qed.

  Section Handlers.
    Variables (now : Z) (d : sdev) (a : action) (store : list arglist) (s : sst) (e : ctx) (rest : list ctx).
    Hypothesis Ex : a_exec a = e :: rest.
    Hypothesis Hok : ctx_ok e.
    Hypothesis Hrest : Forall ctx_ok rest.
    Hypothesis Hrg : is_ranged_com (a_com a) = ranged.
    Hypothesis Hdp : sd_plugs d = devplugs.
    Hypothesis Herr : a_err a = ACT_ESUCCESS.
    Hypothesis Hargs : ss_args s = get_args store a.
    Hypothesis Hbase : base_ok (a_exec a).
    Hypothesis Ha0 : a_args a = args0.
    Hypothesis Hd0 : a_hasdiag a = diag0.

    Lemma resid_top x : cur e = Some x ->
      resid (a_exec a) = seq (seq (cur_resid e x) (tail_resid e)) (resid rest).
    Proof. intros Hx. rewrite Ex. cbn [resid]. unfold ctx_resid. rewrite Hx. reflexivity. Qed.

    (* the statement of the top context finished with observations o (flags clean again): advance *)
    Lemma fin_case x e1 a' d' store' s1 o :
      cur e = Some x -> a_exec a' = e1 :: rest ->
      c_block e1 = c_block e -> c_pos e1 = c_pos e -> c_plugs e1 = c_plugs e -> plist_ok e1 -> clean e1 ->
      a_err a' = ACT_ESUCCESS -> a_com a' = a_com a -> a_args a' = a_args a -> a_hasdiag a' = a_hasdiag a ->
      cur_resid e x s o s1 Done ->
      ss_args s1 = get_args store' a' -> ss_xm s1 = model_xm d' ->
      exists s1', srel s1' d' (advance a') store' /\ frame (advance a') /\
                  after (resid (a_exec a)) s o (resid (a_exec (advance a'))) s1' /\
                  (exists e2 r2, a_exec a' = e2 :: r2 /\ c_processing e2 = false).
    Proof.
      intros Hx Ea' Eb Ep Epl Hpl Hcl Herr' Hcom Hargs' Hdiag' Hdone Hsa Hsx.
      destruct (advance_fields a') as (F1 & F2 & F3 & F4).
      exists s1. split; [|split; [|split; [|exists e1, rest; split; [exact Ea'|exact (proj1 Hcl)]]]].
      - split; [rewrite Hsa; symmetry; apply get_args_same; exact F3|right; exact Hsx].
      - unfold frame. rewrite F1, F2, F3, F4, Hcom, Hargs', Hdiag'. split; [exact Hrg|]. split; [|split; [exact Herr'|split; [|split; assumption]]].
        + apply (advance_ctx_ok a' e1 rest Ea' Hcl Hpl); [|exact Hrest].
          destruct Hok as (_ & _ & Hl). unfold lv_ok in *. rewrite Eb, Epl. exact Hl.
        + apply base_advance. rewrite Ea'. apply (base_top e e1 rest Eb Epl). rewrite <- Ex. exact Hbase.
      - rewrite (resid_top x Hx).
        eapply after_incl_r; [apply (resid_advance a' e1 rest Ea' Hcl)|].
        assert (Et : tail_resid e1 = tail_resid e) by (unfold tail_resid; rewrite Eb, Ep, Epl; reflexivity).
        rewrite Et. apply after_done2. exact Hdone.
    Qed.

    (* the statement of the top context is still in progress: only flags of the top context changed *)
    Lemma stall_case x e1 a' o s1 :
      cur e = Some x -> a_exec a' = e1 :: rest ->
      c_block e1 = c_block e -> c_pos e1 = c_pos e -> c_plugs e1 = c_plugs e -> ctx_ok e1 ->
      a_err a' = ACT_ESUCCESS -> a_com a' = a_com a -> a_args a' = a_args a -> a_hasdiag a' = a_hasdiag a ->
      after (cur_resid e x) s o (cur_resid e1 x) s1 ->
      frame a' /\ after (resid (a_exec a)) s o (resid (a_exec a')) s1.
    Proof.
      intros Hx Ea' Eb Ep Epl Hok1 Herr' Hcom Hargs' Hdiag' Haft. split.
      - unfold frame. rewrite Hcom, Ea', Hargs', Hdiag'. split; [exact Hrg|]. split; [constructor; assumption|split; [exact Herr'|split; [|split; assumption]]].
        apply (base_top e e1 rest Eb Epl). rewrite <- Ex. exact Hbase.
      - rewrite (resid_top x Hx), Ea'. cbn [resid]. apply after_seq. unfold ctx_resid.
        assert (Ec : cur e1 = Some x) by (unfold cur in *; rewrite Eb, Ep; exact Hx). rewrite Ec.
        assert (Et : tail_resid e1 = tail_resid e) by (unfold tail_resid; rewrite Eb, Ep, Epl; reflexivity).
        rewrite Et. apply after_seq. exact Haft.
    Qed.

    (* the statement pushed a context for [body] with plugs ps' *)
    Lemma push_case x e1 a' body ps' :
      cur e = Some x -> a_exec a' = new_ctx body ps' :: e1 :: rest -> body <> [] ->
      (x = ForeachPlug body \/ x = ForeachNode body \/ x = IfOn body \/ x = IfOff body) ->
      c_block e1 = c_block e -> c_pos e1 = c_pos e -> c_plugs e1 = c_plugs e -> ctx_ok e1 ->
      a_err a' = ACT_ESUCCESS -> a_com a' = a_com a -> a_args a' = a_args a -> a_hasdiag a' = a_hasdiag a ->
      ps' <> None ->
      after (cur_resid e x) s [] (seq (xblock body ps') (cur_resid e1 x)) s ->
      push_post d a store s d a' store [].
    Proof.
      intros Hx Ea' Hne Hkind Eb Ep Epl Hok1 Herr' Hcom Hargs' Hdiag' Hps' Haft.
      pose proof (body_levels x body Hkind) as Hlv.
      assert (Hinx : In x (c_block e)) by (unfold cur in Hx; eapply nth_error_In; exact Hx).
      assert (Hin : (stmt_levels x < block_levels (c_block e))%nat) by (apply stmt_levels_in; exact Hinx).
      assert (Hbw : bwf body).
      { destruct Hok as (_ & _ & (_ & (_ & Hf) & _)). rewrite Forall_forall in Hf. exact (swf_body x body Hkind (Hf x Hinx)). }
      unfold push_post. split; [reflexivity|]. split; [reflexivity|]. split; [reflexivity|]. split; [|split; [exact Hargs'|split]].
      - unfold frame. rewrite Hcom, Hargs', Hdiag', Herr'. split; [exact Hrg|]. split; [|split; [reflexivity|split; [|split; assumption]]].
        + rewrite Ea'. constructor; [|constructor; assumption].
          destruct body as [|x0 b0] eqn:Eb0; [congruence|]. rewrite <- Eb0 in *.
          split; [apply (clean_mode_ok _ x0); [split; reflexivity|rewrite Eb0; reflexivity]|]. split.
          * split; [intros l Hl; discriminate Hl|intros _ Hn; exfalso; apply Hn; reflexivity].
          * destruct Hok as (_ & _ & (Hl & _)). unfold lv_ok. cbn [c_block c_plugs new_ctx]. split; [lia|]. split; [exact Hbw|intros _; exact Hps'].
        + rewrite Ea'. apply base_push. apply (base_top e e1 rest Eb Epl). rewrite <- Ex. exact Hbase.
      - rewrite (resid_top x Hx), Ea'. cbn [resid].
        assert (Ec : cur e1 = Some x) by (unfold cur in *; rewrite Eb, Ep; exact Hx).
        assert (Et : tail_resid e1 = tail_resid e) by (unfold tail_resid; rewrite Eb, Ep, Epl; reflexivity).
        unfold ctx_resid at 2. rewrite Ec, Et.
        eapply after_incl_r.
        { eapply tincl_trans; [apply seq_assoc_l|]. apply seq_mono; [|exact (tincl_refl _)].
          eapply tincl_trans; [apply seq_assoc_l|]. apply seq_mono; [|exact (tincl_refl _)].
          apply seq_mono; [apply new_ctx_resid; exact Hne|exact (tincl_refl _)]. }
        apply after_seq, after_seq. exact Haft.
      - exists (new_ctx body ps'), (e1 :: rest), e, rest. split; [exact Ea'|]. split; [exact Ex|].
        cbn [c_block new_ctx]. lia.
    Qed.

    Lemma step_obs_eq fin a' store' evs e1 r x : a_exec a' = e1 :: r -> cur e1 = Some x ->
      step_obs now d fin a' store' evs =
        match x with
        | Send _ => flat_map (fun v => match v with EvSent b => [OSend b] | _ => [] end) evs
        | Expect re => flat_map (fun v => match v with EvMatched n => [OExpect re (firstn n (sd_from d))] | _ => [] end) evs
        | Delay us => if fin then [ODelay us (a_delay_start a') now] else []
        | SetPlugState _ _ _ _ => [OSetState (get_args store' a')]
        | SetResult _ _ _ => [OSetResult (get_args store' a')]
        | _ => []
        end.
    Proof. intros E1 E2. unfold step_obs. rewrite E1, E2. reflexivity. Qed.

    Lemma step_obs_nil fin a' store' evs e1 r x : a_exec a' = e1 :: r -> cur e1 = Some x ->
      match x with ForeachPlug _ | ForeachNode _ | IfOn _ | IfOff _ => True | _ => False end ->
      step_obs now d fin a' store' evs = [].
    Proof. intros E1 E2 K. unfold step_obs. rewrite E1, E2. destruct x; try contradiction; reflexivity. Qed.

    Lemma step_post_stall d' a' store' evs : sd_plugs d' = sd_plugs d ->
      sent_of (step_obs now d false a' store' evs) = raw_sent evs -> a_exec a' <> [] ->
      (exists s1, srel s1 d' a' store' /\ frame a' /\
                  after (resid (a_exec a)) s (step_obs now d false a' store' evs) (resid (a_exec a')) s1) ->
      step_post now d a s false d' a' store' evs.
    Proof. intros Hp Hb Hn H. split; [exact Hp|split; [exact Hb|split; [exact Hn|exact H]]]. Qed.
    Lemma step_post_fin d' a' store' evs : sd_plugs d' = sd_plugs d ->
      sent_of (step_obs now d true a' store' evs) = raw_sent evs -> a_err a' = ACT_ESUCCESS ->
      (exists s1, srel s1 d' (advance a') store' /\ frame (advance a') /\
                  after (resid (a_exec a)) s (step_obs now d true a' store' evs) (resid (a_exec (advance a'))) s1 /\
                  (exists e1 r1, a_exec a' = e1 :: r1 /\ c_processing e1 = false)) ->
      step_post now d a s true d' a' store' evs.
    Proof. intros Hp Hb He H. unfold step_post. rewrite He, Z.eqb_refl. split; [exact Hp|split; [exact Hb|exact H]]. Qed.
    Lemma step_post_fail d' a' store' evs : sd_plugs d' = sd_plugs d -> raw_sent evs = [] -> a_err a' = ACT_EEXPFAIL ->
      step_obs now d true a' store' evs = [] -> resid (a_exec a) s [] s Fail ->
      step_post now d a s true d' a' store' evs.
    Proof. intros Hp Hb He Ho H. unfold step_post. rewrite He. cbn [Z.eqb ACT_EEXPFAIL ACT_ESUCCESS]. split; [exact Hp|]. split; [cbv zeta; rewrite Ho, Hb; reflexivity|split; assumption]. Qed.

    Lemma len_top e1 a' : a_exec a' = e1 :: rest -> (length (a_exec a') <= length (a_exec a))%nat.
    Proof. intros ->. rewrite Ex. cbn [length]. lia. Qed.

    (* ----- send ----- *)
    Lemma send_sim fmt fin d' a' store' evs :
      cur e = Some (Send fmt) -> ss_xm s = model_xm d ->
      process_send compress now d a store e rest fmt = Ok (fin, d', a', store', evs) ->
      (length (a_exec a') <= length (a_exec a))%nat /\ step_post now d a s fin d' a' store' evs.
    Proof.
      intros Hx Hxm H. pose proof Hok as (Hm & Hpl & Hlv). unfold mode_ok in Hm. rewrite Hx in Hm.
      assert (G : forall (d1 : sdev) (evs1 : list ev) o,
                 flat_map (fun v => match v with EvSent b => [OSend b] | _ => [] end) evs1 = o ->
                 model_xm d1 = model_xm d -> sd_plugs d1 = sd_plugs d -> cur_resid e (Send fmt) s o s Done ->
                 after (cur_resid e (Send fmt)) s o skip s ->
                 match sd_to d1 with
                 | [] => Ok (true, d1, put_top (set_processing false e) rest a, store, evs1)
                 | _ => Ok (false, d1, put_top (set_processing true e) rest a, store, evs1)
                 end = Ok (fin, d', a', store', evs) ->
                 (length (a_exec a') <= length (a_exec a))%nat /\ step_post now d a s fin d' a' store' evs).
      { intros d1 evs1 o Ho Hx1 Hp1 Hdone Haft H1. subst o. destruct (sd_to d1) as [|b0 r0]; injection H1 as <- <- <- <- <-.
        - split; [apply (len_top (set_processing false e)); reflexivity|].
          apply step_post_fin; [exact Hp1| |exact Herr|].
          { rewrite (step_obs_eq true (put_top (set_processing false e) rest a) store evs1 (set_processing false e) rest (Send fmt) eq_refl Hx). apply sent_of_sendmap. }
          rewrite (step_obs_eq true (put_top (set_processing false e) rest a) store evs1 (set_processing false e) rest (Send fmt) eq_refl Hx).
          apply (fin_case (Send fmt) (set_processing false e) (put_top (set_processing false e) rest a) d1 store s _ Hx eq_refl eq_refl eq_refl eq_refl Hpl
                          (conj eq_refl Hm) Herr eq_refl eq_refl eq_refl Hdone Hargs).
          rewrite Hx1. exact Hxm.
        - split; [apply (len_top (set_processing true e)); reflexivity|].
          apply step_post_stall; [exact Hp1| |discriminate|].
          { rewrite (step_obs_eq false (put_top (set_processing true e) rest a) store evs1 (set_processing true e) rest (Send fmt) eq_refl Hx). apply sent_of_sendmap. } exists s. split; [split; [exact Hargs|right; rewrite Hx1; exact Hxm]|].
          rewrite (step_obs_eq false (put_top (set_processing true e) rest a) store evs1 (set_processing true e) rest (Send fmt) eq_refl Hx).
          apply (stall_case (Send fmt) (set_processing true e) (put_top (set_processing true e) rest a) _ s Hx eq_refl eq_refl eq_refl eq_refl); auto.
          split; [unfold mode_ok; change (cur (set_processing true e)) with (cur e); rewrite Hx; exact Hm|split; [exact Hpl|exact Hlv]]. }
      unfold process_send in H. destruct (c_processing e) eqn:Ep.
      - apply (G d [] []); try reflexivity; try exact H.
        + unfold cur_resid. rewrite Ep. repeat split.
        + unfold cur_resid. rewrite Ep. apply after_tincl. exact (tincl_refl _).
      - destruct (hsprintf1 fmt (send_arg compress e)) as [str|] eqn:Eh; [|discriminate H].
        pose proof (hsprintf1_sem _ _ _ Eh) as Es. rewrite send_arg_sem in Es.
        assert (Hsend : xstmt (Send fmt) (c_plugs e) s [OSend str] s Done) by (rewrite Es; apply X_send).
        assert (Hd : cur_resid e (Send fmt) s [OSend str] s Done) by (unfold cur_resid; rewrite Ep; exact Hsend).
        assert (Ha : after (cur_resid e (Send fmt)) s [OSend str] skip s).
        { intros tr' s' st (-> & -> & ->). exact Hd. }
        destruct (Nat.ltb _ _).
        + destruct SEND_OVERRUN_ASSERT; [discriminate H|].
          eapply (G _ _ [OSend str]); [| | |exact Hd|exact Ha|exact H]; reflexivity.
        + eapply (G _ _ [OSend str]); [| | |exact Hd|exact Ha|exact H]; [|reflexivity|reflexivity].
          cbn [flat_map]. rewrite obs_tele_send. reflexivity.
    Qed.

    (* ----- expect ----- *)
    Lemma expect_sim re fin d' a' store' evs :
      cur e = Some (Expect re) ->
      process_expect rmatch now d a store re = Ok (fin, d', a', store', evs) ->
      (length (a_exec a') <= length (a_exec a))%nat /\ step_post now d a s fin d' a' store' evs.
    Proof.
      intros Hx H. pose proof Hok as (Hm & Hpl & Hlv). unfold mode_ok in Hm. rewrite Hx in Hm.
      assert (Hstall : forall d1, sd_plugs d1 = sd_plugs d -> step_post now d a s false d1 a store []).
      { intros d1 Hp1. apply step_post_stall; [exact Hp1|rewrite (step_obs_eq false a store [] e rest (Expect re) Ex Hx); reflexivity|rewrite Ex; discriminate|]. exists s. split; [split; [exact Hargs|left; exists e, rest, re; auto]|].
        rewrite (step_obs_eq false a store [] e rest (Expect re) Ex Hx). cbn [flat_map].
        apply (stall_case (Expect re) e a [] s Hx Ex eq_refl eq_refl eq_refl Hok Herr eq_refl eq_refl eq_refl).
        apply after_tincl. exact (tincl_refl _). }
      unfold process_expect in H. cbn [sd_from set_xm] in H.
      destruct (sd_from d) as [|b0 r0] eqn:Ef.
      - injection H as <- <- <- <- <-. split; [lia|apply Hstall; reflexivity].
      - destruct (rmatch re (nul_to_ff (b0 :: r0))) as [pm|] eqn:Em.
        + destruct (nth_error pm 0) as [[[so eo]|]|] eqn:E0; injection H as <- <- <- <- <-; try (split; [lia|apply Hstall; reflexivity]).
          split; [lia|]. apply step_post_fin; [reflexivity| |exact Herr|].
          { rewrite (step_obs_eq true a store _ e rest (Expect re) Ex Hx), sent_of_matchmap. cbn [raw_sent flat_map app]. symmetry. apply raw_tele. }
          rewrite (step_obs_eq true a store _ e rest (Expect re) Ex Hx). cbn [flat_map]. rewrite obs_tele_match. cbn [app].
          apply (fin_case (Expect re) e a _ store (mkSst (ss_args s) (Some (nul_to_ff (b0 :: r0), pm))) _
                          Hx Ex eq_refl eq_refl eq_refl Hpl Hm Herr eq_refl eq_refl eq_refl).
          * unfold cur_resid. rewrite Ef. apply X_expect with (so := so); [discriminate|exact Em|exact E0].
          * exact Hargs.
          * reflexivity.
        + injection H as <- <- <- <- <-. split; [lia|apply Hstall; reflexivity].
    Qed.

    (* ----- delay ----- *)
    Lemma delay_sim us fin d' a' store' evs t :
      cur e = Some (Delay us) -> ss_xm s = model_xm d ->
      process_delay sc now d a store e rest us = Ok ((fin, d', a', store', evs), t) ->
      (length (a_exec a') <= length (a_exec a))%nat /\ step_post now d a s fin d' a' store' evs.
    Proof.
      intros Hx Hxm H. pose proof Hok as (Hm & Hpl & Hlv). unfold mode_ok in Hm. rewrite Hx in Hm.
      assert (G : forall (a1 : action) (e1 : ctx) (evs1 : list ev),
                 a_err a1 = ACT_ESUCCESS -> a_com a1 = a_com a -> a_args a1 = a_args a -> a_hasdiag a1 = a_hasdiag a ->
                 c_block e1 = c_block e -> c_pos e1 = c_pos e -> c_plugs e1 = c_plugs e -> c_plugitr e1 = None -> plist_ok e1 -> raw_sent evs1 = [] ->
                 (if sc || (a_delay_start a1 + us <=? now)
                  then Ok ((true, d, put_top (set_processing false e1) rest a1, store, evs1), @None Z)
                  else Ok ((false, d, put_top e1 rest a1, store, evs1), Some (a_delay_start a1 + us - now)))
                 = Ok ((fin, d', a', store', evs), t) ->
                 (length (a_exec a') <= length (a_exec a))%nat /\ step_post now d a s fin d' a' store' evs).
      { intros a1 e1 evs1 He1 Hc1 Ha1 Hh1 Eb Ep Epl Ei Hpl1 Hraw H1.
        assert (Hargs1 : ss_args s = get_args store a1) by (rewrite Hargs; symmetry; apply get_args_same; exact Ha1).
        assert (Hx1 : cur e1 = Some (Delay us)) by (unfold cur in *; rewrite Eb, Ep; exact Hx).
        destruct (sc || (a_delay_start a1 + us <=? now)) eqn:C; injection H1 as <- <- <- <- <- <-.
        - split; [apply (len_top (set_processing false e1)); reflexivity|].
          apply step_post_fin; [reflexivity| |exact He1|].
          { rewrite (step_obs_eq true (put_top (set_processing false e1) rest a1) store evs1 (set_processing false e1) rest (Delay us) eq_refl Hx1), Hraw. reflexivity. }
          rewrite (step_obs_eq true (put_top (set_processing false e1) rest a1) store evs1 (set_processing false e1) rest (Delay us) eq_refl Hx1).
          apply (fin_case (Delay us) (set_processing false e1) (put_top (set_processing false e1) rest a1) d store s _ Hx eq_refl Eb Ep Epl Hpl1
                          (conj eq_refl Ei) He1 Hc1 Ha1 Hh1); [|exact Hargs1|exact Hxm].
          unfold cur_resid. apply X_delay. cbn [a_delay_start put_top set_exec].
          apply orb_true_iff in C as [C|C]; [left; exact C|right; apply Z.leb_le in C; exact C].
        - split; [apply (len_top e1); reflexivity|].
          apply step_post_stall; [reflexivity| |discriminate|].
          { rewrite (step_obs_eq false (put_top e1 rest a1) store evs1 e1 rest (Delay us) eq_refl Hx1), Hraw. reflexivity. } exists s. split; [split; [exact Hargs1|right; exact Hxm]|].
          rewrite (step_obs_eq false (put_top e1 rest a1) store evs1 e1 rest (Delay us) eq_refl Hx1).
          apply (stall_case (Delay us) e1 (put_top e1 rest a1) _ s Hx eq_refl Eb Ep Epl); auto.
          + split; [unfold mode_ok; rewrite Hx1; exact Ei|split; [exact Hpl1|]]. unfold lv_ok in *. rewrite Eb, Epl. exact Hlv.
          + apply after_tincl. unfold cur_resid. rewrite Epl. exact (tincl_refl _). }
      unfold process_delay in H. destruct (c_processing e) eqn:Ep.
      - apply (G a e [] Herr eq_refl eq_refl eq_refl eq_refl eq_refl eq_refl Hm Hpl eq_refl H).
      - apply (G (set_delay_start now a) (set_processing true e) _ Herr eq_refl eq_refl eq_refl eq_refl eq_refl eq_refl Hm Hpl (raw_tele _ _) H).
    Qed.

    (* ----- setplugstate / setresult ----- *)
    Definition state_args (eff : option (text * Z * text)) : list arglist :=
      match eff with
      | Some (node, st, str) =>
          match a_args a, get_args store a with
          | Some i, Some al => store_set store i (arg_update al node (fun x => mkArg (ar_node x) st (ar_result x) (Some str)))
          | _, _ => store
          end
      | None => store
      end.
    Definition result_args (eff : option (text * Z * text)) : list arglist :=
      match eff with
      | Some (node, res, str) =>
          match a_args a, get_args store a with
          | Some i, Some al =>
              match arg_find al node with
              | Some _ => store_set store i (arg_update al node (fun x => mkArg (ar_node x) (ar_state x) res (Some str)))
              | None => store
              end
          | _, _ => store
          end
      | None => store
      end.

    Lemma state_args_sem eff : get_args (state_args eff) a = ss_args (record_state eff s).
    Proof.
      unfold state_args, record_state. destruct eff as [[[node st] str]|]; [|exact (eq_sym Hargs)].
      pose proof Hargs as Hs. unfold get_args in Hs |- *. destruct (a_args a) as [i|].
      - destruct (nth_error store i) as [al|] eqn:En; repeat (rewrite Hs; cbn [ss_args]).
        + eapply nth_store_set. exact En.
        + exact En.
      - repeat (rewrite Hs; cbn [ss_args]). reflexivity.
    Qed.
    Lemma result_args_sem eff : get_args (result_args eff) a = ss_args (record_result eff s).
    Proof.
      unfold result_args, record_result. destruct eff as [[[node res] str]|]; [|exact (eq_sym Hargs)].
      pose proof Hargs as Hs. unfold get_args in Hs |- *. destruct (a_args a) as [i|].
      - destruct (nth_error store i) as [al|] eqn:En; repeat (rewrite Hs; cbn [ss_args]).
        + destruct (arg_find al node) eqn:Ef.
          * eapply nth_store_set. exact En.
          * rewrite (arg_update_absent _ _ _ Ef). exact En.
        + exact En.
      - repeat (rewrite Hs; cbn [ss_args]). reflexivity.
    Qed.
    Lemma record_state_xm eff : ss_xm (record_state eff s) = ss_xm s.
    Proof. unfold record_state. destruct eff as [[[? ?] ?]|]; [|reflexivity]. destruct (ss_args s); reflexivity. Qed.
    Lemma record_result_xm eff : ss_xm (record_result eff s) = ss_xm s.
    Proof. unfold record_result. destruct eff as [[[? ?] ?]|]; [|reflexivity]. destruct (ss_args s); reflexivity. Qed.

    Lemma setplugstate_closed lit pmp smp ints :
      process_setplugstate rmatch d a store e lit pmp smp ints =
        Ok (true, d, a, state_args (state_effect rmatch devplugs (c_plugs e) lit pmp smp ints (mkSst (ss_args s) (model_xm d))), []).
    Proof.
      unfold process_setplugstate, state_effect, state_args. rewrite !sub_strdup_sem. cbn [ss_xm].
      assert (G : forall pn,
              (match capture (model_xm d) smp, find_plug d pn with
               | Some str, Some (_, node) =>
                   let st := first_interp rmatch ints str ST_UNKNOWN in
                   match a_args a, get_args store a with
                   | Some i, Some al =>
                       let al' := arg_update al node (fun x => mkArg (ar_node x) st (ar_result x) (Some str)) in
                       Ok (true, d, a, store_set store i al', @nil ev)
                   | _, _ => Ok (true, d, a, store, [])
                   end
               | _, _ => Ok (true, d, a, store, [])
               end) =
        Ok (true, d, a,
            match (match capture (model_xm d) smp, node_of devplugs pn with
                   | Some str, Some node => Some (node, interp rmatch ints str ST_UNKNOWN, str)
                   | _, _ => None end) with
            | Some (node, st, str) =>
                match a_args a, get_args store a with
                | Some i, Some al => store_set store i (arg_update al node (fun x => mkArg (ar_node x) st (ar_result x) (Some str)))
                | _, _ => store
                end
            | None => store
            end, [])).
      { intros pn. pose proof (find_plug_sem d pn) as Hf. rewrite Hdp in Hf. rewrite <- Hf.
        destruct (capture (model_xm d) smp) as [str|]; [|reflexivity].
        destruct (find_plug d pn) as [[p0 node]|]; [|reflexivity]. cbv zeta. rewrite first_interp_sem.
        destruct (a_args a); [|reflexivity]. destruct (get_args store a); reflexivity. }
      destruct lit as [l|]; [apply G|].
      destruct (capture (model_xm d) pmp) as [n|]; [apply G|].
      rewrite <- ctx_first_plug_sem. destruct (ctx_first_plug e) as [p|]; [apply G|reflexivity].
    Qed.

    Lemma setplugstate_sim lit pmp smp ints fin d' a' store' evs :
      cur e = Some (SetPlugState lit pmp smp ints) -> ss_xm s = model_xm d ->
      process_setplugstate rmatch d a store e lit pmp smp ints = Ok (fin, d', a', store', evs) ->
      (length (a_exec a') <= length (a_exec a))%nat /\ step_post now d a s fin d' a' store' evs.
    Proof.
      intros Hx Hxm H. pose proof Hok as (Hm & Hpl & Hlv). unfold mode_ok in Hm. rewrite Hx in Hm.
      rewrite setplugstate_closed in H. injection H as <- <- <- <- <-.
      assert (Heff : state_effect rmatch devplugs (c_plugs e) lit pmp smp ints (mkSst (ss_args s) (model_xm d))
                     = state_effect rmatch devplugs (c_plugs e) lit pmp smp ints s).
      { unfold state_effect. cbn [ss_xm]. rewrite Hxm. reflexivity. }
      rewrite Heff. set (eff := state_effect rmatch devplugs (c_plugs e) lit pmp smp ints s).
      split; [lia|]. apply step_post_fin; [reflexivity|rewrite (step_obs_eq true a (state_args eff) [] e rest _ Ex Hx); reflexivity|exact Herr|].
      rewrite (step_obs_eq true a (state_args eff) [] e rest _ Ex Hx).
      apply (fin_case _ e a d (state_args eff) (record_state eff s) _ Hx Ex eq_refl eq_refl eq_refl Hpl Hm Herr eq_refl eq_refl eq_refl).
      - unfold cur_resid. rewrite state_args_sem. apply X_setplugstate. reflexivity.
      - symmetry. apply state_args_sem.
      - rewrite record_state_xm. exact Hxm.
    Qed.

    Lemma setresult_closed pmp smp ints fin d' a' store' evs :
      process_setresult rmatch d a store e pmp smp ints = Ok (fin, d', a', store', evs) ->
      fin = true /\ d' = d /\ a' = a /\
      store' = result_args (result_effect rmatch devplugs pmp smp ints (mkSst (ss_args s) (model_xm d))) /\ raw_sent evs = [].
    Proof.
      unfold process_setresult, result_effect, result_args. rewrite !sub_strdup_sem. cbn [ss_xm].
      destruct (capture (model_xm d) pmp) as [pn|]; [|intros H; injection H as <- <- <- <- <-; repeat split; auto].
      pose proof (find_plug_sem d pn) as Hf. rewrite Hdp in Hf. rewrite <- Hf.
      destruct (capture (model_xm d) smp) as [str|]; [|intros H; injection H as <- <- <- <- <-; repeat split; auto].
      destruct (find_plug d pn) as [[p0 node]|]; [|intros H; injection H as <- <- <- <- <-; repeat split; auto].
      cbv zeta. rewrite first_interp_sem.
      destruct (a_args a); [|intros H; injection H as <- <- <- <- <-; repeat split; auto].
      destruct (get_args store a) as [al|]; [|intros H; injection H as <- <- <- <- <-; repeat split; auto].
      destruct (arg_find al node); [|intros H; injection H as <- <- <- <- <-; repeat split; auto].
      destruct (Z.eqb _ RT_SUCCESS); [intros H; injection H as <- <- <- <- <-; repeat split; auto|].
      destruct (a_hasdiag a); [intros H; injection H as <- <- <- <- <-; repeat split; auto|discriminate].
    Qed.

    Lemma setresult_sim pmp smp ints fin d' a' store' evs :
      cur e = Some (SetResult pmp smp ints) -> ss_xm s = model_xm d ->
      process_setresult rmatch d a store e pmp smp ints = Ok (fin, d', a', store', evs) ->
      (length (a_exec a') <= length (a_exec a))%nat /\ step_post now d a s fin d' a' store' evs.
    Proof.
      intros Hx Hxm H. pose proof Hok as (Hm & Hpl & Hlv). unfold mode_ok in Hm. rewrite Hx in Hm.
      apply setresult_closed in H. destruct H as (-> & -> & -> & -> & Hraw).
      assert (Heff : result_effect rmatch devplugs pmp smp ints (mkSst (ss_args s) (model_xm d))
                     = result_effect rmatch devplugs pmp smp ints s).
      { unfold result_effect. cbn [ss_xm]. rewrite Hxm. reflexivity. }
      rewrite Heff. set (eff := result_effect rmatch devplugs pmp smp ints s).
      split; [lia|]. apply step_post_fin; [reflexivity|rewrite (step_obs_eq true a (result_args eff) evs e rest _ Ex Hx), Hraw; reflexivity|exact Herr|].
      rewrite (step_obs_eq true a (result_args eff) evs e rest _ Ex Hx).
      apply (fin_case _ e a d (result_args eff) (record_result eff s) _ Hx Ex eq_refl eq_refl eq_refl Hpl Hm Herr eq_refl eq_refl eq_refl).
      - unfold cur_resid. rewrite result_args_sem. apply X_setresult. reflexivity.
      - symmetry. apply result_args_sem.
      - rewrite record_result_xm. exact Hxm.
    Qed.

    (* ----- foreachplug / foreachnode ----- *)
    Lemma cur_resid_foreach (on : bool) body e0 :
      cur_resid e0 (if on then ForeachNode body else ForeachPlug body) = xiter body (remaining on (slist (c_plugs e0)) (itr e0)).
    Proof. destruct on; reflexivity. Qed.

    Lemma foreach_closed on body r :
      process_foreach d a store e rest on body = Ok r ->
      exists e0, c_block e0 = c_block e /\ c_pos e0 = c_pos e /\ c_plugs e0 = c_plugs e /\ c_processing e0 = c_processing e /\
                 (forall l, c_pluglist e0 = Some l -> c_plugs e0 = Some l) /\ (ranged = true -> c_pluglist e0 <> None) /\
                 r = match next_plug on (slist (c_plugs e)) (itr e) with
                     | Some (p, i') => (true, d, set_exec (new_ctx body (Some [p]) :: set_plugitr (Some i') e0 :: rest) a, store, [])
                     | None => (true, d, put_top (set_plugitr None e0) rest a, store, [])
                     end.
    Proof.
      destruct Hok as (_ & (Hp1 & Hp2) & _).
      assert (G : forall e0 lst i, lst = slist (c_plugs e) -> i = itr e ->
                 match next_plug on lst i with
                 | Some (p, i') => Ok (true, d, set_exec (new_ctx body (Some [p]) :: set_plugitr (Some i') e0 :: rest) a, store, @nil ev)
                 | None => Ok (true, d, put_top (set_plugitr None e0) rest a, store, [])
                 end = Ok r ->
                 r = match next_plug on (slist (c_plugs e)) (itr e) with
                     | Some (p, i') => (true, d, set_exec (new_ctx body (Some [p]) :: set_plugitr (Some i') e0 :: rest) a, store, [])
                     | None => (true, d, put_top (set_plugitr None e0) rest a, store, [])
                     end).
      { intros e0 lst i -> ->. destruct (next_plug on _ _) as [[p i']|]; intros H; injection H as <-; reflexivity. }
      unfold process_foreach. rewrite Hrg.
      destruct (c_plugitr e) as [it|] eqn:Ei.
      - assert (Hitr : it = itr e) by (unfold itr; rewrite Ei; reflexivity).
        cbv beta iota zeta. rewrite Ei. intros H.
        assert (EL : (if ranged then match c_pluglist e with Some l => l | None => [] end else sd_plugs d) = slist (c_plugs e)).
        { unfold sem_list. destruct ranged; [|exact Hdp].
          destruct (c_pluglist e) as [l|]; [rewrite (Hp1 l eq_refl); reflexivity|].
          exfalso. apply Hp2; auto. discriminate. }
        rewrite EL in H. exists e. repeat split; auto.
        + intros Hr. apply Hp2; [exact Hr|discriminate].
        + exact (G e _ _ eq_refl Hitr H).
      - assert (Hitr : O = itr e) by (unfold itr; rewrite Ei; reflexivity).
        destruct ranged eqn:Er.
        + destruct (c_plugs e) as [ps|] eqn:Eps; [|intros H; discriminate H].
          destruct (c_pluglist e) as [l|] eqn:El; cbv beta iota zeta; cbn [c_plugitr c_pluglist set_plugitr set_pluglist]; rewrite ?El; intros H.
          * pose proof (Hp1 l eq_refl) as K. injection K as <-.
            exists (set_plugitr (Some O) e). cbn [c_block c_pos c_plugs c_processing c_pluglist set_plugitr].
            repeat split; auto; [intros l0 K; rewrite El in K; rewrite Eps; exact K|intros _; rewrite El; discriminate|].
            exact (G (set_plugitr (Some O) e) _ _ eq_refl Hitr H).
          * exists (set_plugitr (Some O) (set_pluglist (Some ps) e)).
            cbn [c_block c_pos c_plugs c_processing c_pluglist set_plugitr set_pluglist].
            repeat split; auto; [intros l K; rewrite Eps; exact K|intros _; discriminate|].
            exact (G (set_plugitr (Some O) (set_pluglist (Some ps) e)) _ _ eq_refl Hitr H).
        + cbv beta iota zeta. cbn [c_plugitr c_pluglist set_plugitr]. intros H. rewrite Hdp in H.
          exists (set_plugitr (Some O) e). cbn [c_block c_pos c_plugs c_processing c_pluglist set_plugitr].
          repeat split; auto; [intros K; discriminate K|].
          exact (G (set_plugitr (Some O) e) _ _ eq_refl Hitr H).
    Qed.

    Lemma foreach_sim (on : bool) body fin d' a' store' evs :
      cur e = Some (if on then ForeachNode body else ForeachPlug body) -> body <> [] -> ss_xm s = model_xm d ->
      process_foreach d a store e rest on body = Ok (fin, d', a', store', evs) ->
      sim_post now d a store s fin d' a' store' evs.
    Proof.
      intros Hx Hne Hxm H. pose proof Hok as (Hm & Hpl & Hlv). unfold mode_ok in Hm. rewrite Hx in Hm.
      assert (Hpr : c_processing e = false) by (destruct on; exact Hm). clear Hm.
      apply foreach_closed in H. destruct H as (e0 & Eb & Ep & Epl & Epr & Hq1 & Hq2 & Hr).
      pose proof (next_plug_remaining on (slist (c_plugs e)) (itr e)) as Hn.
      destruct (next_plug on (slist (c_plugs e)) (itr e)) as [[p i']|]; injection Hr as -> -> -> -> ->.
      - left. split; [cbn [a_exec set_exec length]; rewrite Ex; cbn [length]; lia|].
        apply (push_case _ (set_plugitr (Some i') e0)
                         (set_exec (new_ctx body (Some [p]) :: set_plugitr (Some i') e0 :: rest) a) body (Some [p])
                         Hx eq_refl Hne); auto.
        + destruct on; auto.
        + split; [|split].
          * unfold mode_ok. assert (Ec : cur (set_plugitr (Some i') e0) = cur e) by (unfold cur; cbn [c_block c_pos set_plugitr]; rewrite Eb, Ep; reflexivity).
            rewrite Ec, Hx. destruct on; cbn [c_processing set_plugitr]; rewrite Epr; exact Hpr.
          * split; [exact Hq1|intros Hr _; apply Hq2; exact Hr].
          * unfold lv_ok in *. cbn [c_block c_plugs set_plugitr]. rewrite Eb, Epl. exact Hlv.
        + discriminate.
        + rewrite !cur_resid_foreach. cbn [c_plugs set_plugitr]. rewrite Epl.
          change (itr (set_plugitr (Some i') e0)) with i'. rewrite Hn. apply after_tincl. apply iter_cons.
      - right. split; [apply (len_top (set_plugitr None e0)); reflexivity|].
        assert (Ec : cur (set_plugitr None e0) = cur e) by (unfold cur; cbn [c_block c_pos set_plugitr]; rewrite Eb, Ep; reflexivity).
        apply step_post_fin; [reflexivity| |exact Herr|].
        { rewrite (step_obs_nil true (put_top (set_plugitr None e0) rest a) store [] (set_plugitr None e0) rest _ eq_refl (eq_trans Ec Hx))
            by (destruct on; exact I). reflexivity. }
        rewrite (step_obs_nil true (put_top (set_plugitr None e0) rest a) store [] (set_plugitr None e0) rest _ eq_refl (eq_trans Ec Hx))
          by (destruct on; exact I).
        apply (fin_case _ (set_plugitr None e0) (put_top (set_plugitr None e0) rest a) d store s [] Hx eq_refl Eb Ep Epl).
        + split; [exact Hq1|intros _ K; exfalso; apply K; reflexivity].
        + split; [cbn [c_processing set_plugitr]; rewrite Epr; exact Hpr|reflexivity].
        + exact Herr.
        + reflexivity.
        + reflexivity.
        + reflexivity.
        + rewrite cur_resid_foreach, Hn. apply I_nil.
        + exact Hargs.
        + exact Hxm.
    Qed.

    (* ----- ifon / ifoff ----- *)
    Lemma if_run (want : bool) body ps s0 tr s' st :
      known_state ps (ss_args s0) = (if want then ST_ON else ST_OFF) -> xblock body (same_plugs ps) s0 tr s' st ->
      xstmt (if want then IfOn body else IfOff body) ps s0 tr s' st.
    Proof. destruct want; intros H1 H2; [apply X_ifon_run|apply X_ifoff_run]; assumption. Qed.
    Lemma if_skip (want : bool) body ps s0 :
      known_state ps (ss_args s0) <> (if want then ST_ON else ST_OFF) -> known_state ps (ss_args s0) <> ST_UNKNOWN ->
      xstmt (if want then IfOn body else IfOff body) ps s0 [] s0 Done.
    Proof. destruct want; intros H1 H2; [apply X_ifon_skip|apply X_ifoff_skip]; assumption. Qed.
    Lemma if_fail (want : bool) body ps s0 :
      known_state ps (ss_args s0) = ST_UNKNOWN -> xstmt (if want then IfOn body else IfOff body) ps s0 [] s0 Fail.
    Proof. destruct want; intros H1; [apply X_ifon_fail|apply X_ifoff_fail]; assumption. Qed.
    Lemma cond_spec (want : bool) st :
      (want && Z.eqb st ST_ON) || (negb want && Z.eqb st ST_OFF) = Z.eqb st (if want then ST_ON else ST_OFF).
    Proof. destruct want; cbn [andb negb orb]; [apply orb_false_r|reflexivity]. Qed.

    Lemma ifonoff_sim (want : bool) body fin d' a' store' evs :
      cur e = Some (if want then IfOn body else IfOff body) -> body <> [] -> ss_xm s = model_xm d ->
      process_ifonoff d a store e rest want body = Ok (fin, d', a', store', evs) ->
      sim_post now d a store s fin d' a' store' evs.
    Proof.
      intros Hx Hne Hxm H. pose proof Hok as (Hm & Hpl & Hlv). unfold mode_ok in Hm. rewrite Hx in Hm.
      assert (Hi : c_plugitr e = None) by (destruct want; exact Hm). clear Hm.
      assert (Kx : match (if want then IfOn body else IfOff body) with ForeachPlug _ | ForeachNode _ | IfOn _ | IfOff _ => True | _ => False end)
        by (destruct want; exact I).
      destruct (c_processing e) eqn:Epr.
      - rewrite (process_ifonoff_return d a store e rest want body Epr) in H. injection H as <- <- <- <- <-.
        right. split; [apply (len_top (set_processing false e)); reflexivity|].
        apply step_post_fin; [reflexivity| |exact Herr|].
        { rewrite (step_obs_nil true (put_top (set_processing false e) rest a) store [] (set_processing false e) rest _ eq_refl Hx Kx). reflexivity. }
        rewrite (step_obs_nil true (put_top (set_processing false e) rest a) store [] (set_processing false e) rest _ eq_refl Hx Kx).
        apply (fin_case _ (set_processing false e) (put_top (set_processing false e) rest a) d store s [] Hx eq_refl eq_refl eq_refl eq_refl Hpl
                        (conj eq_refl Hi) Herr eq_refl eq_refl eq_refl); [|exact Hargs|exact Hxm].
        unfold cur_resid. destruct want; rewrite Epr; repeat split.
      - rewrite (process_ifonoff_closed d a store e rest want body Epr) in H. cbv zeta in H.
        rewrite plug_state_sem, <- Hargs, cond_spec in H.
        destruct (Z.eqb_spec (known_state (c_plugs e) (ss_args s)) (if want then ST_ON else ST_OFF)) as [Eon|Non]; cbn [negb andb] in H.
        + injection H as <- <- <- <- <-. left.
          split; [cbn [a_exec set_exec length]; rewrite Ex; cbn [length]; lia|].
          apply (push_case _ (set_processing true e)
                           (set_exec (new_ctx body (match c_plugs e with Some ps => Some ps | None => Some [] end) :: set_processing true e :: rest) a)
                           body (match c_plugs e with Some ps => Some ps | None => Some [] end) Hx eq_refl Hne); auto.
          * destruct want; auto.
          * split; [|split; [exact Hpl|exact Hlv]]. unfold mode_ok. change (cur (set_processing true e)) with (cur e). rewrite Hx.
            destruct want; exact Hi.
          * destruct (c_plugs e); discriminate.
          * eapply after_incl_r.
            { apply seq_mono; [exact (tincl_refl _)|]. intros s0 tr s' st K. exact K. }
            assert (Es : cur_resid (set_processing true e) (if want then IfOn body else IfOff body) = skip) by (destruct want; reflexivity).
            rewrite Es. eapply after_incl_r; [apply seq_skip_r|].
            intros tr' s' st Hb. cbn [app]. unfold cur_resid.
            assert (Ex2 : (if want then IfOn body else IfOff body) = (if want then IfOn body else IfOff body)) by reflexivity.
            assert (Hrun : xstmt (if want then IfOn body else IfOff body) (c_plugs e) s tr' s' st).
            { apply if_run; [exact Eon|]. unfold same_plugs. destruct (c_plugs e); exact Hb. }
            destruct want; rewrite Epr; exact Hrun.
        + destruct (Z.eqb_spec (known_state (c_plugs e) (ss_args s)) ST_UNKNOWN) as [Eu|Nu]; injection H as <- <- <- <- <-; right.
          * split; [apply (len_top e); exact Ex|].
            apply step_post_fail; [reflexivity|reflexivity|reflexivity| |].
            -- exact (step_obs_nil true (set_err ACT_EEXPFAIL a) store [] e rest _ Ex Hx Kx).
            -- rewrite (resid_top _ Hx). right. split; [discriminate|]. right. split; [discriminate|].
               assert (Hf : xstmt (if want then IfOn body else IfOff body) (c_plugs e) s [] s Fail) by (apply if_fail; exact Eu).
               unfold cur_resid. destruct want; rewrite Epr; exact Hf.
          * split; [apply (len_top e); exact Ex|].
            apply step_post_fin; [reflexivity|rewrite (step_obs_nil true a store [] e rest _ Ex Hx Kx); reflexivity|exact Herr|].
            rewrite (step_obs_nil true a store [] e rest _ Ex Hx Kx).
            apply (fin_case _ e a d store s [] Hx Ex eq_refl eq_refl eq_refl Hpl (conj Epr Hi) Herr eq_refl eq_refl eq_refl); [|exact Hargs|exact Hxm].
            assert (Hs : xstmt (if want then IfOn body else IfOff body) (c_plugs e) s [] s Done) by (apply if_skip; assumption).
            unfold cur_resid. destruct want; rewrite Epr; exact Hs.
    Qed.
  End Handlers.

  (* ---------- totality of the handlers ---------- *)
  Lemma send_total now d a store e rest fmt : fmt_valid fmt -> exists r, process_send compress now d a store e rest fmt = Ok r.
  Proof.
    intros Hv. unfold process_send. destruct (c_processing e).
    - destruct (sd_to d); eexists; reflexivity.
    - destruct (hsprintf1 fmt (send_arg compress e)) as [str|] eqn:E; [|exfalso; exact (Hv _ E)].
      assert (Hfix : SEND_OVERRUN_ASSERT = false) by reflexivity.      (* source fact: no assert on overrun (F38) *)
      destruct (Nat.ltb _ _); [rewrite Hfix|]; cbn [sd_to set_to]; match goal with |- context [match ?l with [] => _ | _ :: _ => _ end] => destruct l end; eexists; reflexivity.
  Qed.
  Lemma expect_total now d a store re : exists r, process_expect rmatch now d a store re = Ok r.
  Proof.
    unfold process_expect. cbn [sd_from set_xm]. destruct (sd_from d); [eexists; reflexivity|].
    destruct (rmatch re _) as [pm|]; [|eexists; reflexivity].
    destruct (nth_error pm 0) as [[[so eo]|]|]; eexists; reflexivity.
  Qed.
  Lemma delay_total now d a store e rest us : exists r, process_delay sc now d a store e rest us = Ok r.
  Proof.
    unfold process_delay. destruct (c_processing e); match goal with |- context [if ?c then _ else _] => destruct c end; eexists; reflexivity.
  Qed.
  Lemma setresult_total d a store e pmp smp ints : (a_args a <> None -> a_hasdiag a = true) ->
    exists r, process_setresult rmatch d a store e pmp smp ints = Ok r.
  Proof.
    intros Hd. unfold process_setresult. rewrite !sub_strdup_sem.
    destruct (capture (model_xm d) pmp) as [pn|]; [|eexists; reflexivity].
    destruct (capture (model_xm d) smp) as [str|]; [|eexists; reflexivity].
    destruct (find_plug d pn) as [[p0 node]|]; [|eexists; reflexivity]. cbv zeta.
    destruct (a_args a) as [i|] eqn:Ea; [|eexists; reflexivity].
    destruct (get_args store a) as [al|]; [|eexists; reflexivity].
    destruct (arg_find al node); [|eexists; reflexivity].
    destruct (Z.eqb _ RT_SUCCESS); [eexists; reflexivity|].
    rewrite Hd by discriminate. eexists; reflexivity.
  Qed.
  Lemma foreach_total d a store e rest on body : is_ranged_com (a_com a) = ranged -> (ranged = true -> c_plugs e <> None) ->
    exists r, process_foreach d a store e rest on body = Ok r.
  Proof.
    intros Hrg Hp. unfold process_foreach. rewrite Hrg.
    destruct (c_plugitr e); [cbv beta iota zeta; destruct (next_plug _ _ _) as [[? ?]|]; eexists; reflexivity|].
    destruct ranged.
    - destruct (c_plugs e) as [ps|]; [|exfalso; now apply Hp].
      cbv beta iota zeta. destruct (next_plug _ _ _) as [[? ?]|]; eexists; reflexivity.
    - cbv beta iota zeta. destruct (next_plug _ _ _) as [[? ?]|]; eexists; reflexivity.
  Qed.
  Lemma ifonoff_total d a store e rest want body : exists r, process_ifonoff d a store e rest want body = Ok r.
  Proof.
    destruct (c_processing e) eqn:Ep.
    - rewrite (process_ifonoff_return d a store e rest want body Ep). eexists; reflexivity.
    - rewrite (process_ifonoff_closed d a store e rest want body Ep). cbv zeta.
      destruct (_ || _); eexists; reflexivity.
  Qed.

  (* ---------- one process_stmt call ---------- *)
  Definition good (d : sdev) (a : action) : Prop :=
    (args0 <> None -> diag0 = true) /\ sd_plugs d = devplugs /\ frame a /\ a_exec a <> [].

  Lemma stmt_sim now d a store s :
    good d a -> srel s d a store ->
    exists fin d' a' store' evs t,
      process_stmt rmatch compress sc now d a store = Ok ((fin, d', a', store', evs), t) /\
      sim_post now d a store s fin d' a' store' evs /\
      ((length (a_exec a) < length (a_exec a'))%nat -> ss_xm s = model_xm d).
  Proof.
    intros (Hdg & Hdp & (Hrg & Hctx & Herr & Hbase & Ha0 & Hh0) & Hne) (Hargs & Hxm0).
    destruct (a_exec a) as [|e rest] eqn:Ex; [congruence|].
    pose proof (Forall_inv Hctx) as Hok. pose proof (Forall_inv_tail Hctx) as Hrest.
    assert (Hbase' : base_ok (a_exec a)) by (rewrite Ex; exact Hbase).
    destruct (mode_ok_cur e (proj1 Hok)) as (x & Hx).
    destruct Hok as (Hm0 & Hpl0 & (Hlv0 & (Hbne & Hbf) & Hrp)).
    assert (Hok : ctx_ok e) by (split; [exact Hm0|split; [exact Hpl0|split; [exact Hlv0|split; [split; assumption|exact Hrp]]]]).
    assert (Hsw : swf x).
    { unfold cur in Hx. apply nth_error_In in Hx. rewrite Forall_forall in Hbf. now apply Hbf. }
    assert (Hdiag : a_args a <> None -> a_hasdiag a = true) by (rewrite Ha0, Hh0; exact Hdg).
    unfold process_stmt. rewrite Ex, Hx.
    assert (Hxm : (forall re, x <> Expect re) -> ss_xm s = model_xm d).
    { intros Hn. destruct Hxm0 as [(e0 & r0 & re & E1 & E2)|K]; [|exact K].
      rewrite Ex in E1. injection E1 as <- <-. rewrite Hx in E2. injection E2 as ->. exfalso. now apply (Hn re). }
    destruct x as [fmt|re|lit pmp smp ints|pmp smp ints|us|body|body|body|body].
    - destruct (send_total now d a store e rest fmt Hsw) as ([[[[f1 d1] a1] st1] ev1] & E1).
      exists f1, d1, a1, st1, ev1, None. rewrite E1. split; [reflexivity|].
      assert (K : (length (a_exec a1) <= length (e :: rest))%nat /\ step_post now d a s f1 d1 a1 st1 ev1).
      { rewrite <- Ex. eapply send_sim; eauto. apply Hxm. discriminate. }
      split; [right; rewrite Ex; exact K|]. intros L. apply Hxm. discriminate.
    - destruct (expect_total now d a store re) as ([[[[f1 d1] a1] st1] ev1] & E1).
      exists f1, d1, a1, st1, ev1, None. rewrite E1. split; [reflexivity|].
      assert (K : (length (a_exec a1) <= length (e :: rest))%nat /\ step_post now d a s f1 d1 a1 st1 ev1).
      { rewrite <- Ex. eapply expect_sim; eauto. }
      split; [right; rewrite Ex; exact K|]. intros L. destruct K as [K _]. cbn [length] in *. lia.
    - pose proof (setplugstate_closed d a store s e Hdp Hargs Ha0 lit pmp smp ints) as E1.
      eexists _, _, _, _, _, None. rewrite E1. split; [reflexivity|].
      split; [|intros L; apply Hxm; discriminate]. right.
      eapply setplugstate_sim; eauto. apply Hxm. discriminate.
    - destruct (setresult_total d a store e pmp smp ints Hdiag) as ([[[[f1 d1] a1] st1] ev1] & E1).
      exists f1, d1, a1, st1, ev1, None. rewrite E1. split; [reflexivity|].
      split; [|intros L; apply Hxm; discriminate]. right.
      eapply setresult_sim; eauto. apply Hxm. discriminate.
    - destruct (delay_total now d a store e rest us) as ([[[[[f1 d1] a1] st1] ev1] t1] & E1).
      exists f1, d1, a1, st1, ev1, t1. rewrite E1. split; [reflexivity|].
      split; [|intros L; apply Hxm; discriminate]. right.
      eapply delay_sim; eauto. apply Hxm. discriminate.
    - destruct (foreach_total d a store e rest false body Hrg Hrp) as ([[[[f1 d1] a1] st1] ev1] & E1).
      exists f1, d1, a1, st1, ev1, None. rewrite E1. split; [reflexivity|]. cbn [swf] in Hsw. destruct Hsw as [Hnb _].
      split; [|intros L; apply Hxm; discriminate].
      eapply foreach_sim with (on := false); eauto. apply Hxm. discriminate.
    - destruct (foreach_total d a store e rest true body Hrg Hrp) as ([[[[f1 d1] a1] st1] ev1] & E1).
      exists f1, d1, a1, st1, ev1, None. rewrite E1. split; [reflexivity|]. cbn [swf] in Hsw. destruct Hsw as [Hnb _].
      split; [|intros L; apply Hxm; discriminate].
      eapply foreach_sim with (on := true); eauto. apply Hxm. discriminate.
    - destruct (ifonoff_total d a store e rest true body) as ([[[[f1 d1] a1] st1] ev1] & E1).
      exists f1, d1, a1, st1, ev1, None. rewrite E1. split; [reflexivity|]. cbn [swf] in Hsw. destruct Hsw as [Hnb _].
      split; [|intros L; apply Hxm; discriminate].
      eapply ifonoff_sim with (want := true); eauto. apply Hxm. discriminate.
    - destruct (ifonoff_total d a store e rest false body) as ([[[[f1 d1] a1] st1] ev1] & E1).
      exists f1, d1, a1, st1, ev1, None. rewrite E1. split; [reflexivity|]. cbn [swf] in Hsw. destruct Hsw as [Hnb _].
      split; [|intros L; apply Hxm; discriminate].
      eapply ifonoff_sim with (want := false); eauto. apply Hxm. discriminate.
  Qed.

  (* ---------- one do..while round ---------- *)
  Lemma step_post_lift now d a a1 s fin d' a' store' evs :
    after (resid (a_exec a)) s [] (resid (a_exec a1)) s ->
    step_post now d a1 s fin d' a' store' evs -> step_post now d a s fin d' a' store' evs.
  Proof.
    intros Haft H. unfold step_post in *. cbv zeta in *. destruct H as (Hp & Hb & H). split; [exact Hp|]. split; [exact Hb|]. destruct fin.
    - destruct (Z.eqb (a_err a') ACT_ESUCCESS).
      + destruct H as (s1 & H1 & H2 & H3 & H4). exists s1. split; [exact H1|]. split; [exact H2|]. split; [|exact H4].
        exact (after_trans _ _ [] _ _ _ _ _ Haft H3).
      + destruct H as (Ho & Hf). split; [exact Ho|]. exact (Haft [] s Fail Hf).
    - destruct H as (Hn & s1 & H1 & H2 & H3). split; [exact Hn|]. exists s1. split; [exact H1|]. split; [exact H2|].
      exact (after_trans _ _ [] _ _ _ _ _ Haft H3).
  Qed.

  Lemma block_levels_pos b : (1 <= block_levels b)%nat.
  Proof. unfold block_levels. lia. Qed.

  (* the fuel of the model's do..while (8) is never exhausted for scripts of at most 8 nesting levels *)
  Lemma do_while_sim : forall fuel now d a store s acc tmo,
    good d a -> srel s d a store ->
    (exists e rest, a_exec a = e :: rest /\ (block_levels (c_block e) <= fuel)%nat) ->
    exists fin d' a' store' evs1 t,
      do_while rmatch compress sc fuel now d a store acc tmo = Ok ((fin, d', a', store', acc ++ evs1), t) /\
      step_post now d a s fin d' a' store' evs1.
  Proof.
    induction fuel as [|f IH]; intros now d a store s acc tmo Hg Hs (e & rest & Ex & Hlv).
    { pose proof (block_levels_pos (c_block e)). lia. }
    cbn [do_while].
    destruct (stmt_sim now d a store s Hg Hs) as (fin & d1 & a1 & st1 & ev1 & t1 & E & Hsim & Hxm).
    rewrite E. destruct Hsim as [[Hlen Hpush]|[Hlen Hstep]].
    - destruct (Nat.ltb_spec (length (a_exec a)) (length (a_exec a1))) as [_|L]; [|lia].
      destruct Hpush as (-> & -> & -> & Hfr & Hargs' & Haft & (c & r & e0 & r0 & Ea1 & Ea & Hlv1)).
      destruct Hg as (Hdg & Hdp & Hfr0 & Hne). destruct Hs as (Hsa & _).
      assert (Hg1 : good d a1) by (split; [exact Hdg|split; [exact Hdp|split; [exact Hfr|rewrite Ea1; discriminate]]]).
      assert (Hs1 : srel s d a1 store).
      { split; [rewrite Hsa; symmetry; apply get_args_same; exact Hargs'|right; apply Hxm; exact Hlen]. }
      assert (Hl1 : exists e1 rest1, a_exec a1 = e1 :: rest1 /\ (block_levels (c_block e1) <= f)%nat).
      { exists c, r. split; [exact Ea1|]. rewrite Ex in Ea. injection Ea as <- <-. lia. }
      destruct (IH now d a1 store s (acc ++ []) (min_tmo tmo t1) Hg1 Hs1 Hl1)
        as (fin2 & d2 & a2 & st2 & ev2 & t2 & E2 & Hstep2).
      exists fin2, d2, a2, st2, ev2, t2. rewrite E2, app_nil_r. split; [reflexivity|].
      exact (step_post_lift now d a a1 s fin2 d2 a2 st2 ev2 Haft Hstep2).
    - destruct (Nat.ltb_spec (length (a_exec a)) (length (a_exec a1))) as [L|_]; [lia|].
      exists fin, d1, a1, st1, ev1, (min_tmo tmo t1). split; [reflexivity|exact Hstep].
  Qed.

  (* ---------- nothing observed yet is always a (cut) trace of what remains ---------- *)
  Lemma resid_cut d a s : good d a -> resid (a_exec a) s [] s Cut.
  Proof.
    intros (_ & _ & (_ & Hc & _) & Hne). destruct (a_exec a) as [|e rest]; [congruence|].
    destruct (mode_ok_cur e (proj1 (Forall_inv Hc))) as (x & Hx).
    cbn [resid]. right. split; [discriminate|]. unfold ctx_resid. rewrite Hx.
    assert (Ht : tail_resid e s [] s Cut) by apply B_cut.
    assert (Hs : forall R : trel, R s [] s Done -> seq R (tail_resid e) s [] s Cut).
    { intros R HR. left. exists [], s, []. auto. }
    assert (Hk : forall R : trel, R s [] s Cut -> seq R (tail_resid e) s [] s Cut).
    { intros R HR. right. split; [discriminate|exact HR]. }
    assert (Hi : forall body l, seq (xiter body l) (tail_resid e) s [] s Cut).
    { intros body [|p l]; [apply Hs, I_nil|apply Hk, I_stop; [discriminate|apply B_cut]]. }
    unfold cur_resid. destruct x; try (apply Hk, X_cut); try apply Hi;
      (destruct (c_processing e); [apply Hs; repeat split|apply Hk, X_cut]).
  Qed.

  (* ---------- a run: the environment moves, then one round + advance ---------- *)
  Inductive rstatus : Type := Running | Completed | Failed.
  Definition status_of (r : rstatus) : status := match r with Running => Cut | Completed => Done | Failed => Fail end.

  Definition step1 (now : Z) (d : sdev) (a : action) (store : list arglist)
    : outcome (rstatus * sdev * action * list arglist * list obs * list ev) :=
    match do_while rmatch compress sc 8 now d a store [] None with
    | Ok ((fin, d', a', store', evs), _) =>
        let o := step_obs now d fin a' store' evs in
        if negb fin then Ok (Running, d', a', store', o, evs)
        else if Z.eqb (a_err a') ACT_ESUCCESS then
          let a'' := advance a' in
          Ok (match a_exec a'' with [] => Completed | _ => Running end, d', a'', store', o, evs)
        else Ok (Failed, d', a', store', o, evs)
    | Exit c x => Exit c x | Abort x => Abort x | MemErr x => MemErr x | Hang x => Hang x
    end.

  (* what happens between two rounds: device bytes arrive, queued bytes are written out, the clock moves *)
  Record input : Type := mkInput { i_now : Z; i_feed : text; i_drain : nat }.
  Definition env_step (i : input) (d : sdev) : sdev :=
    set_to (skipn (i_drain i) (sd_to d)) (set_from (sd_from d ++ i_feed i) d).

  Fixpoint run (ins : list input) (d : sdev) (a : action) (store : list arglist) (tr : list obs) (raw : list ev)
    : outcome (rstatus * sdev * action * list arglist * list obs * list ev) :=
    match ins with
    | [] => Ok (Running, d, a, store, tr, raw)
    | i :: r =>
        match step1 (i_now i) (env_step i d) a store with
        | Ok (Running, d', a', store', o, evs) => run r d' a' store' (tr ++ o) (raw ++ evs)
        | Ok (st, d', a', store', o, evs) => Ok (st, d', a', store', tr ++ o, raw ++ evs)
        | Exit c x => Exit c x | Abort x => Abort x | MemErr x => MemErr x | Hang x => Hang x
        end
    end.

  Definition Inv (s0 : sst) (d : sdev) (a : action) (store : list arglist) (tr : list obs) : Prop :=
    good d a /\ exists s, srel s d a store /\ after (xblock script0 ps0) s0 tr (resid (a_exec a)) s.

  Lemma env_step_good i d a : good d a -> good (env_step i d) a.
  Proof. intros H. exact H. Qed.

  Lemma top_levels d a : good d a -> exists e rest, a_exec a = e :: rest /\ (block_levels (c_block e) <= 8)%nat.
  Proof.
    intros (_ & _ & (_ & Hc & _) & Hne). destruct (a_exec a) as [|e rest]; [congruence|].
    exists e, rest. split; [reflexivity|]. exact (proj1 (proj2 (proj2 (Forall_inv Hc)))).
  Qed.

  Definition outcome_ok (s0 : sst) (st : rstatus) (d : sdev) (a : action) (store : list arglist) (tr : list obs) : Prop :=
    match st with
    | Running => Inv s0 d a store tr
    | Completed => exists s', xblock script0 ps0 s0 tr s' Done /\ ss_args s' = get_args store a
    | Failed => exists s', xblock script0 ps0 s0 tr s' Fail
    end.

  Lemma step1_sim s0 i d a store tr :
    Inv s0 d a store tr ->
    exists st d' a' store' o evs,
      step1 (i_now i) (env_step i d) a store = Ok (st, d', a', store', o, evs) /\
      outcome_ok s0 st d' a' store' (tr ++ o) /\ sent_of o = raw_sent evs.
  Proof.
    intros (Hg & s & Hs & Haft).
    pose proof (env_step_good i d a Hg) as Hg1.
    assert (Hs1 : srel s (env_step i d) a store) by exact Hs.
    destruct (do_while_sim 8 (i_now i) (env_step i d) a store s [] None Hg1 Hs1 (top_levels _ _ Hg1))
      as (fin & d' & a' & store' & evs1 & t & E & Hstep).
    unfold step1. rewrite E. cbn [app]. cbv zeta.
    destruct Hg1 as (Hdg & Hdp & _ & _).
    unfold step_post in Hstep. cbv zeta in Hstep. destruct Hstep as (Hpl & Hby & Hstep). destruct fin; cbn [negb].
    - destruct (Z.eqb (a_err a') ACT_ESUCCESS).
      + destruct Hstep as (s1 & Hs' & Hfr & Haft' & _).
        pose proof (after_trans _ _ _ _ _ _ _ _ Haft Haft') as Haft2.
        destruct (a_exec (advance a')) as [|e2 r2] eqn:Ea.
        * eexists Completed, d', (advance a'), store', _, evs1. split; [reflexivity|]. split; [|exact Hby].
          exists s1. split; [|exact (proj1 Hs')]. rewrite <- (app_nil_r (tr ++ _)). apply Haft2. repeat split.
        * eexists Running, d', (advance a'), store', _, evs1. split; [reflexivity|]. split; [|exact Hby].
          split; [|exists s1; split; [exact Hs'|rewrite Ea; exact Haft2]].
          split; [exact Hdg|]. split; [rewrite Hpl; exact Hdp|]. split; [exact Hfr|rewrite Ea; discriminate].
      + destruct Hstep as (Ho & Hf). eexists Failed, d', a', store', _, evs1. split; [reflexivity|]. split; [|exact Hby].
        exists s. rewrite Ho. rewrite <- (app_nil_l []), app_assoc. rewrite app_nil_r. apply Haft. exact Hf.
    - destruct Hstep as (Hn & s1 & Hs' & Hfr & Haft').
      eexists Running, d', a', store', _, evs1. split; [reflexivity|]. split; [|exact Hby].
      split; [|exists s1; split; [exact Hs'|exact (after_trans _ _ _ _ _ _ _ _ Haft Haft')]].
      split; [exact Hdg|]. split; [rewrite Hpl; exact Hdp|]. split; [exact Hfr|exact Hn].
  Qed.

  Lemma run_sim s0 : forall ins d a store tr raw,
    Inv s0 d a store tr -> sent_of tr = raw_sent raw ->
    exists st d' a' store' tr' raw',
      run ins d a store tr raw = Ok (st, d', a', store', tr', raw') /\
      outcome_ok s0 st d' a' store' tr' /\ sent_of tr' = raw_sent raw'.
  Proof.
    induction ins as [|i r IH]; intros d a store tr raw HI Hb.
    - exists Running, d, a, store, tr, raw. split; [reflexivity|]. split; [exact HI|exact Hb].
    - cbn [run]. destruct (step1_sim s0 i d a store tr HI) as (st & d' & a' & store' & o & evs & E & Hout & Hbo).
      rewrite E.
      assert (Hb' : sent_of (tr ++ o) = raw_sent (raw ++ evs)) by (rewrite sent_of_app, raw_sent_app, Hb, Hbo; reflexivity).
      destruct st.
      + apply IH; assumption.
      + eexists Completed, d', a', store', _, _. split; [reflexivity|]. split; assumption.
      + eexists Failed, d', a', store', _, _. split; [reflexivity|]. split; assumption.
  Qed.

  (* a running state has produced a cut trace: a prefix derivation of the script *)
  Lemma inv_cut s0 d a store tr :
    Inv s0 d a store tr -> exists s', xblock script0 ps0 s0 tr s' Cut /\ ss_args s' = get_args store a.
  Proof.
    intros (Hg & s & Hs & Haft). exists s. split; [|exact (proj1 Hs)].
    rewrite <- (app_nil_r tr). apply Haft. exact (resid_cut d a s Hg).
  Qed.

  (* ---------- initial states: a freshly created action, and a rewound one ---------- *)
  Definition fresh_like (a : action) : Prop :=
    exists e, a_exec a = [e] /\ c_block e = script0 /\ c_plugs e = ps0 /\ c_pos e = O /\ clean e /\
              (forall l, c_pluglist e = Some l -> c_plugs e = Some l).

  (* what the theorem assumes about the script and the action (all of it guaranteed by the parser and by
     dev_enqueue_actions: C17 / C18 / C01) *)
  Definition start_ok (d : sdev) (a : action) : Prop :=
    bwf script0 /\ (block_levels script0 <= 8)%nat /\ (ranged = true -> ps0 <> None) /\
    (args0 <> None -> diag0 = true) /\
    sd_plugs d = devplugs /\ is_ranged_com (a_com a) = ranged /\ a_err a = ACT_ESUCCESS /\
    a_args a = args0 /\ a_hasdiag a = diag0.

  Lemma fresh_inv d a store :
    fresh_like a -> start_ok d a -> Inv (mkSst (get_args store a) (model_xm d)) d a store [].
  Proof.
    intros (e & Ea & Eb & Eps & Epos & Hcl & Hpl) (Hbw & Hlv & Hrp & Hdg & Hdp & Hrg & Herr & Ha & Hh).
    assert (Hx : exists x, cur e = Some x).
    { unfold cur. rewrite Eb, Epos. destruct Hbw as (Hne & _). destruct script0 as [|x0 r]; [congruence|]. exists x0. reflexivity. }
    destruct Hx as (x & Hx).
    split.
    - split; [exact Hdg|]. split; [exact Hdp|]. split; [|rewrite Ea; discriminate].
      split; [exact Hrg|]. split; [|split; [exact Herr|split; [rewrite Ea; unfold base_ok; cbn [base]; auto|split; assumption]]].
      rewrite Ea. constructor; [|constructor]. split; [exact (clean_mode_ok e x Hcl Hx)|]. split.
      + split; [exact Hpl|]. intros _ K. exfalso. apply K. exact (proj2 Hcl).
      + unfold lv_ok. rewrite Eb, Eps. auto.
    - exists (mkSst (get_args store a) (model_xm d)). split; [split; [reflexivity|right; reflexivity]|].
      apply after_tincl. rewrite Ea. cbn [resid].
      eapply tincl_trans; [apply seq_skip_r|].
      pose proof (ctx_resid_clean e x Hcl Hx) as K. rewrite Epos, Eb, Eps in K. exact K.
  Qed.

  (* the whole run, from any action that starts at its first statement in the initial context state *)
  Theorem run_refines d a store ins :
    fresh_like a -> start_ok d a ->
    exists st d' a' store' tr raw,
      run ins d a store [] [] = Ok (st, d', a', store', tr, raw) /\
      (exists s', xblock script0 ps0 (mkSst (get_args store a) (model_xm d)) tr s' (status_of st) /\
                  (st <> Failed -> ss_args s' = get_args store' a')) /\
      sent_of tr = raw_sent raw /\
      (st = Running -> Inv (mkSst (get_args store a) (model_xm d)) d' a' store' tr).
  Proof.
    intros Hf Hst.
    pose proof (fresh_inv d a store Hf Hst) as HI.
    destruct (run_sim _ ins d a store [] [] HI eq_refl) as (st & d' & a' & store' & tr & raw & E & Hout & Hb).
    exists st, d', a', store', tr, raw. split; [exact E|]. destruct st; cbn [outcome_ok status_of] in *.
    - split; [|split; [exact Hb|intros _; exact Hout]]. destruct (inv_cut _ _ _ _ _ Hout) as (s' & H1 & H2). exists s'. auto.
    - split; [|split; [exact Hb|discriminate]]. destruct Hout as (s' & H1 & H2). exists s'. auto.
    - split; [|split; [exact Hb|discriminate]]. destruct Hout as (s' & H1). exists s'. split; [exact H1|]. intros K. congruence.
  Qed.

  (* _rewind_action: every reachable action, rewound, is again in the initial context state *)
  Lemma rewind_fresh s0 d a store tr :
    Inv s0 d a store tr ->
    fresh_like (rewind_action a) /\
    a_com (rewind_action a) = a_com a /\ a_err (rewind_action a) = a_err a /\ a_args (rewind_action a) = a_args a /\
    a_hasdiag (rewind_action a) = a_hasdiag a.
  Proof.
    intros ((_ & _ & (_ & Hc & _ & Hb & _) & Hne) & _).
    unfold rewind_action. pose proof (base_rev (a_exec a)) as Hr. unfold base_ok in Hb.
    destruct (rev (a_exec a)) as [|outer r] eqn:Erev.
    { exfalso. apply Hne. rewrite <- (rev_involutive (a_exec a)), Erev. reflexivity. }
    cbn [hd_error] in Hr. rewrite Hr in Hb. destruct Hb as (Hb1 & Hb2).
    pose proof (base_in _ _ Hr) as Hin.
    rewrite Forall_forall in Hc. destruct (Hc outer Hin) as (_ & (Hp1 & _) & _).
    cbn [a_exec set_exec a_com a_err a_args a_hasdiag]. repeat split; auto.
    eexists. split; [reflexivity|]. cbn [c_block c_plugs c_pos c_pluglist set_processing set_plugitr set_pos].
    repeat split; auto.
  Qed.

  Theorem rewind_refines s0 d a store tr d1 ins :
    Inv s0 d a store tr -> sd_plugs d1 = devplugs -> bwf script0 -> (block_levels script0 <= 8)%nat -> (ranged = true -> ps0 <> None) ->
    exists st d' a' store' tr2 raw,
      run ins d1 (rewind_action a) store [] [] = Ok (st, d', a', store', tr2, raw) /\
      (exists s', xblock script0 ps0 (mkSst (get_args store a) (model_xm d1)) tr2 s' (status_of st) /\
                  (st <> Failed -> ss_args s' = get_args store' a')) /\
      sent_of tr2 = raw_sent raw.
  Proof.
    intros HI Hdp1 Hbw Hlv Hrp.
    destruct (rewind_fresh s0 d a store tr HI) as (Hf & Ec & Ee & Ea & Eh).
    destruct HI as ((Hdg & _ & (Hrg & _ & Herr & _ & Ha & Hh) & _) & _).
    assert (Hst : start_ok d1 (rewind_action a)).
    { split; [exact Hbw|]. split; [exact Hlv|]. split; [exact Hrp|]. split; [exact Hdg|]. split; [exact Hdp1|].
      split; [rewrite Ec; exact Hrg|]. split; [rewrite Ee; exact Herr|]. split; [rewrite Ea; exact Ha|rewrite Eh; exact Hh]. }
    destruct (run_refines d1 (rewind_action a) store ins Hf Hst) as (st & d' & a' & store' & tr2 & raw & E & H & Hb & _).
    exists st, d', a', store', tr2, raw. split; [exact E|]. split; [|exact Hb].
    rewrite (get_args_same store a (rewind_action a) Ea) in H. exact H.
  Qed.
End Sim.
