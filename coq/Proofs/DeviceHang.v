(* C07: `Hang` is impossible by construction.  The fuel of _process_action's loop in the model is the potential of the queue handed to it
   (Model/Device.pa_fuel d3 = 2 + psi d3, Model/DeviceFuel.v); Proofs/DeviceFuel.v shows that every iteration that stays in the loop lowers
   the potential, PROVIDED the exec contexts only walk plug lists no longer than the device's own plug list and blocks nest less than 8
   deep (PL).  Here that proviso becomes an invariant of the device:

     APL P d      every queued action satisfies PL P DMAX (DMAX = 7), and every script of the device nests at most DMAX deep (nest_ok:
                  the STATIC hypothesis on the configuration; Proofs/SpecBridge.v checks it for every shipped specification)
     DInvH d      DInvG d, 0 <= retry_count, APL (number of plugs of d) d        -- the fields of DInvG / DInv are NOT changed

   established by mk_device (mk_device_invH), preserved by everything the daemon does to a device: dev_initial_connect (connect_invH),
   dev_enqueue_actions (append_client_action_invH / fold_append_invH, for plug lists no longer than the device's: that is what
   Model/Enqueue.enqueue_dev produces, EnqueueProofs.enq_plugs_length), the retry reset (expedite_invH) and one device's share of
   dev_post_poll (post_poll_one_invH), which therefore ALWAYS returns Ok: no Hang, no Abort, no MemErr, no Exit
   (post_poll_one_never_hangs).  Over the harness world (Model/DevHarness.v): hstep_invH, run_invH, and the closed statements
   p_C07_total_no_hang / p_C07_total_from_no_hang quoted by Properties/C07.v. *)
From Coq Require Import List NArith ZArith Bool Lia.
From PM Require Import Base.Bytes Base.Outcome Base.Dec Gen.GenConsts Gen.GenCbuf Model.ScriptAst Model.Enqueue Model.Script Model.DeviceFuel Model.Device
  Model.DevHarness Proofs.DeviceProofs Proofs.DeviceStmt Proofs.DeviceStmtG Proofs.DeviceInv Proofs.DeviceInvG Proofs.DeviceMask Proofs.DeviceFuel
  Proofs.EnqueueProofs Proofs.DeviceRun Proofs.DeviceRunG.
Import ListNotations.
Local Open Scope Z_scope.

Definition APL (P : nat) (d : device) : Prop := Forall (PL P DMAX) (dv_acts d) /\ nest_ok (dv_scripts d).

Lemma assoc_nest i : forall l s, nest_ok l -> assoc_script i l = Some s -> (depths s <= DMAX)%nat.
Proof.
  induction l as [|[j c] r IH]; intros s Hn H; cbn [assoc_script] in H; [discriminate|].
  inversion Hn as [|? ? H1 H2]; subst. destruct (Z.eqb i j); [injection H as <-; exact H1|exact (IH s H2 H)].
Qed.

Lemma PL_create P s com plugs client hascb tele hasdiag args :
  (depths s <= DMAX)%nat -> (olen plugs <= P)%nat -> PL P DMAX (create_action s com plugs client hascb tele hasdiag args).
Proof.
  intros Hd Hp. unfold PL, create_action. cbn [a_exec]. constructor; [|constructor].
  split; [split; cbn [c_plugs c_pluglist new_ctx olen]; [exact Hp|lia]|unfold dep_ok; cbn [c_block new_ctx]; exact Hd].
Qed.

Lemma PL_rewind P a : PL P DMAX a -> PL P DMAX (rewind_action a).
Proof.
  unfold PL, rewind_action. intros H. destruct (rev (a_exec a)) as [|outer r] eqn:E; [exact H|].
  assert (Hin : In outer (a_exec a)) by (apply in_rev; rewrite E; left; reflexivity).
  rewrite Forall_forall in H. destruct (H outer Hin) as [[H1 H2] H3].
  cbn [a_exec set_exec]. constructor; [|constructor]. split; [split; [exact H1|exact H2]|exact H3].
Qed.

(* ---------- the connection machinery and the ping: no invariant needed, the queue only loses a login, gains a login / a ping built from
   one of the device's scripts, or has its head rewound ---------- *)
Lemma enqueue_login_APL P d d' : APL P d -> enqueue_login d = Ok d' -> APL P d'.
Proof.
  intros [Ha Hs] H. unfold enqueue_login in H. destruct (assoc_script PM_LOG_IN (dv_scripts d)) as [s|] eqn:Es; [|discriminate].
  injection H as <-. split; [|exact Hs]. cbn [dv_acts set_acts]. constructor.
  - apply PL_create; [exact (assoc_nest _ _ _ Hs Es)|cbn [olen]; lia].
  - destruct (dv_acts d) as [|h r]; [constructor|]. inversion Ha; subst. constructor; [apply PL_rewind; assumption|assumption].
Qed.

Lemma disconnect_APL P d d' evs : APL P d -> disconnect d = (d', evs) -> APL P d'.
Proof.
  intros [Ha Hs] H. unfold disconnect in H. injection H as <- _.
  cbn [dv_acts set_conn upd_sdev]. destruct (dv_acts d) as [|h r] eqn:Ea.
  - split; [cbn [dv_acts set_conn upd_sdev]; rewrite Ea; constructor|exact Hs].
  - inversion Ha; subst. destruct (Z.eqb (a_com h) PM_LOG_IN).
    + split; [cbn [dv_acts set_acts]; assumption|exact Hs].
    + split; [cbn [dv_acts set_conn upd_sdev]; rewrite Ea; constructor; assumption|exact Hs].
Qed.

Lemma connect_APL P now d plans d' e pl : APL P d -> connect now d plans = Ok (d', e, pl) -> APL P d'.
Proof.
  intros A H. unfold connect in H. destruct (dv_has_fd d || negb (Z.eqb (dv_cstate d) DEV_NOT_CONNECTED)); [discriminate|].
  destruct plans as [|[| |] r].
  - injection H as <- _ _. exact A.
  - destruct (enqueue_login _) as [d3| | | |] eqn:E; try discriminate. injection H as <- _ _. eapply enqueue_login_APL; [|exact E]. exact A.
  - injection H as <- _ _. exact A.
  - injection H as <- _ _. exact A.
Qed.

Lemma reconnect_APL P now d tmo plans d' e t pl : APL P d -> reconnect now d tmo plans = Ok (d', e, t, pl) -> APL P d'.
Proof.
  intros A H. unfold reconnect in H.
  destruct (if Z.eqb (dv_cstate d) DEV_NOT_CONNECTED then (d, []) else disconnect d) as [d1 e1] eqn:E1.
  assert (A1 : APL P d1).
  { destruct (Z.eqb (dv_cstate d) DEV_NOT_CONNECTED); [injection E1 as <- _; exact A|eapply disconnect_APL; eassumption]. }
  destruct (time_to_reconnect now d1 tmo) as [go t1]. destruct go.
  - destruct (connect now d1 plans) as [[[d2 e2] pl2]| | | |] eqn:E2; try discriminate. injection H as <- _ _ _. eapply connect_APL; eassumption.
  - injection H as <- _ _ _. exact A1.
Qed.

Lemma enqueue_ping_APL P now d tmo d' t : APL P d -> enqueue_ping now d tmo = (d', t) -> APL P d'.
Proof.
  intros [Ha Hs] H. unfold enqueue_ping in H. destruct (assoc_script PM_PING (dv_scripts d)) as [s|] eqn:Es; [|injection H as <- _; split; assumption].
  destruct (Z.eqb (dv_ping_period d) 0); [injection H as <- _; split; assumption|].
  destruct (dv_last_ping d + dv_ping_period d <=? now); injection H as <- _; [|split; assumption].
  split; [|exact Hs]. cbn [dv_acts set_last_ping set_acts]. apply Forall_app. split; [exact Ha|]. constructor; [|constructor].
  apply PL_create; [exact (assoc_nest _ _ _ Hs Es)|cbn [olen]; lia].
Qed.

Lemma fail_and_reconnect_APL P now d act rest store tmo plans pre r : nest_ok (dv_scripts d) ->
  fail_and_reconnect now d act rest store tmo plans pre = Ok r -> match r with PaDone d' _ _ _ _ => APL P d' | PaNext _ _ _ _ => False end.
Proof.
  intros Hs H. unfold fail_and_reconnect in H.
  assert (A0 : APL P (set_acts [] d)) by (split; [constructor|exact Hs]).
  destruct (connected (set_acts [] d)).
  - destruct (reconnect now (set_acts [] d) tmo plans) as [[[[d2 e2] t2] pl2]| | | |] eqn:E; try discriminate. injection H as <-. eapply reconnect_APL; eassumption.
  - injection H as <-. exact A0.
Qed.

Section Hang.
  Variable rmatch : text -> text -> option pmatch.
  Variable compress : list text -> text.
  Variable sc : bool.

  Lemma handle_ready_APL P d pin io d' evs : DInvG compress d -> dv_has_fd d = true -> APL P d -> handle_ready d pin = Ok (io, d', evs) -> APL P d'.
  Proof.
    intros I Hfd [Ha Hs] H. destruct (handle_ready_invG compress d pin I Hfd) as (io1 & d1 & e1 & E & _ & S1 & _ & _ & _ & _ & _ & _ & Hacts & _).
    rewrite E in H. injection H as _ <- _. destruct S1 as (Esc & _). split; [|rewrite Esc; exact Hs].
    destruct Hacts as [->|(_ & _ & s & Es & ->)]; [exact Ha|].
    constructor; [apply PL_create; [exact (assoc_nest _ _ _ Hs Es)|cbn [olen]; lia]|].
    destruct (dv_acts d) as [|h r]; [constructor|]. inversion Ha; subst. constructor; [apply PL_rewind; assumption|assumption].
  Qed.

  (* the part of dev_post_poll before _process_action *)
  Lemma pp_front_APL P now d t pin d3 t3 pl e12 : DInvG compress d -> APL P d -> pp_front now d t pin = Ok (d3, t3, pl, e12) -> APL P d3.
  Proof.
    intros I A H. unfold pp_front in H.
    destruct (if dv_has_fd d && any_flag pin then handle_ready d pin else Ok (false, d, [])) as [[[io d1] e1]| | | |] eqn:E0; try discriminate.
    assert (A1 : APL P d1).
    { destruct (dv_has_fd d) eqn:Efd; cbn [andb] in E0; [|injection E0 as _ <- _; exact A].
      destruct (any_flag pin); [|injection E0 as _ <- _; exact A]. eapply handle_ready_APL; eassumption. }
    destruct (if io || Z.eqb (dv_cstate d1) DEV_NOT_CONNECTED then reconnect now d1 t (pi_plans pin) else Ok (d1, [], t, pi_plans pin)) as [[[[d2 e2] t2] pl2]| | | |] eqn:E2; try discriminate.
    assert (A2 : APL P d2).
    { destruct (io || Z.eqb (dv_cstate d1) DEV_NOT_CONNECTED); [eapply reconnect_APL; eassumption|injection E2 as <- _ _ _; exact A1]. }
    destruct (if connected d2 then enqueue_ping now d2 t2 else (d2, t2)) as [d3' t3'] eqn:E3. injection H as <- _ _ _.
    destruct (connected d2); [eapply enqueue_ping_APL; eassumption|injection E3 as <- _; exact A2].
  Qed.

  (* ---------- one iteration of _process_action's loop: the measure goes down when the loop goes on, APL holds again in every case ---------- *)
  Lemma pa_step_APL P now d store tmo plans : DInvG compress d -> APL P d -> (length (sd_plugs (dv d)) <= P)%nat ->
    match pa_step rmatch compress sc now d store tmo plans with
    | Ok (PaNext d' _ _ _) => (Psi P d' < Psi P d)%nat /\ APL P d'
    | Ok (PaDone d' _ _ _ _) => APL P d'
    | Hang _ => False
    | _ => True
    end.
  Proof.
    intros I [Hpl Hs] Hp. unfold pa_step. destruct (dv_acts d) as [|act0 rest] eqn:Ea; [split; [rewrite Ea; constructor|exact Hs]|].
    pose proof (dg_acts _ d I) as Hw. rewrite Ea in Hw. inversion Hw as [|? ? Hw0 Hwr]; subst.
    inversion Hpl as [|? ? Hpl0 Hplr]; subst.
    destruct (a_exec act0) as [|e0 er] eqn:Eex; [exact Logic.I|].
    set (stamp := match a_stamp act0 with Some t => t | None => now end).
    set (act := set_stamp (Some stamp) act0).
    assert (Fail : forall dd aa ss tt pre, dv_scripts dd = dv_scripts d ->
                     match fail_and_reconnect now dd aa rest ss tt plans pre with
                     | Ok (PaNext d' _ _ _) => (Psi P d' < Psi P d)%nat /\ APL P d' | Ok (PaDone d' _ _ _ _) => APL P d' | Hang _ => False | _ => True end).
    { intros dd aa ss tt pre Hsc. destruct (fail_and_reconnect now dd aa rest ss tt plans pre) as [r| | | |] eqn:E; try exact Logic.I.
      - assert (Hs' : nest_ok (dv_scripts dd)) by (rewrite Hsc; exact Hs).
        pose proof (fail_and_reconnect_APL P _ _ _ _ _ _ _ _ _ Hs' E) as H. destruct r; [exact H|contradiction].
      - exact (fail_and_reconnect_nh _ _ _ _ _ _ _ _ _ E). }
    destruct (Z.leb _ now); [apply Fail; reflexivity|].
    destruct (negb (connected d)).
    { split; [cbn [dv_acts set_acts]; constructor; [exact Hpl0|exact Hplr]|exact Hs]. }
    assert (Hwa : wf_action compress (sd_plugs (dv d)) act) by exact Hw0.
    assert (Hpla : PL P DMAX act) by exact Hpl0.
    assert (Hdep : (match a_exec act with e :: _ => match cur e with Some s => depth s | None => O end | [] => O end < 8)%nat).
    { change (a_exec act) with (a_exec act0). rewrite Eex. destruct (cur e0) as [s0|] eqn:Ec; [|lia].
      unfold PL in Hpl0. rewrite Eex in Hpl0. inversion Hpl0 as [|? ? [_ Hd0] _]; subst. unfold dep_ok in Hd0.
      pose proof (depths_nth _ _ _ Ec). pose proof DMAX_lt. lia. }
    pose proof (do_while_fuel rmatch compress sc P DMAX 8 now (dv d) act store [] None Hwa Hpla Hp Hdep) as HF.
    pose proof (do_while_propsG rmatch compress sc 8 now (dv d) act store [] None Hwa) as HG.
    destruct (do_while rmatch compress sc 8 now (dv d) act store [] None) as [[[[[[fin sd'] act'] store'] evs] dt]| | | |]; try contradiction; try exact Logic.I.
    destruct HG as (evs1 & t1 & _ & _ & SP).
    destruct (negb fin).
    { split; [cbn [dv_acts set_acts]; constructor; [exact (proj1 HF)|exact Hplr]|exact Hs]. }
    destruct (Z.eqb (a_err act') ACT_ESUCCESS); [|apply Fail; reflexivity].
    destruct (advance_decreases P DMAX act act' HF) as [Hdec Hpl'].
    change (Phi P act) with (Phi P act0) in Hdec.
    destruct (a_exec (advance act')) as [|e2 r2] eqn:Eadv.
    - split.
      + unfold Psi. cbn [dv_acts set_stats set_acts]. rewrite Ea. cbn [Psi_l]. lia.
      + split; [cbn [dv_acts set_stats set_acts]; exact Hplr|destruct (Z.eqb _ PM_LOG_IN); exact Hs].
    - split.
      + unfold Psi. cbn [dv_acts set_acts]. rewrite Ea. cbn [Psi_l]. lia.
      + split; [cbn [dv_acts set_acts]; constructor; [exact Hpl'|exact Hplr]|exact Hs].
  Qed.

  (* ---------- the loop: with any fuel above the potential it returns, and APL holds of the device it leaves ---------- *)
  Lemma process_action_APL P : forall fuel now d store tmo plans acc,
    DInvG compress d -> APL P d -> (length (sd_plugs (dv d)) <= P)%nat -> tmo_pos tmo -> 0 <= dv_retry_count d -> (Psi P d < fuel)%nat ->
    match process_action rmatch compress sc fuel now d store tmo plans acc with
    | Ok (d', _, _, _, _) => APL P d'
    | Hang _ => False
    | _ => True
    end.
  Proof.
    induction fuel as [|f IH]; intros now d store tmo plans acc I A Hlen Hp Hrc Hlt; [lia|]. cbn [process_action].
    pose proof (pa_step_APL P now d store tmo plans I A Hlen) as HM.
    pose proof (pa_step_invG rmatch compress sc now d store tmo plans I Hp) as HI.
    destruct (pa_step rmatch compress sc now d store tmo plans) as [[d1 st1 t1 pl1 e1|d1 st1 t1 e1]| | | |]; try exact Logic.I; try contradiction.
    - exact HM.
    - destruct HM as [Hlt1 A1]. destruct (tg_cfg _ _ _ _ _ _ _ _ _ HI) as (_ & _ & _ & Epl & _).
      apply IH; [exact (tg_inv _ _ _ _ _ _ _ _ _ HI)|exact A1|rewrite Epl; exact Hlen|exact (tg_pos _ _ _ _ _ _ _ _ _ HI)
                |exact (conn_rel_rc _ _ _ _ (tg_conn _ _ _ _ _ _ _ _ _ HI) Hrc)|lia].
  Qed.

  (* ---------- the invariant ---------- *)
  Record DInvH (d : device) : Prop := {
    dh_inv : DInvG compress d;
    dh_rc : 0 <= dv_retry_count d;
    dh_pl : Forall (PL (length (sd_plugs (dv d))) DMAX) (dv_acts d);    (* plug lists no longer than the device's, blocks at most DMAX deep *)
    dh_nest : nest_ok (dv_scripts d)                                    (* the static hypothesis on the configuration *)
  }.
  Lemma DInvH_RG d : DInvH d -> DInvRG compress d.
  Proof. intros [I Hrc _ _]. split; assumption. Qed.
  Lemma DInvH_APL d : DInvH d -> APL (length (sd_plugs (dv d))) d.
  Proof. intros [_ _ H1 H2]. split; assumption. Qed.
  Lemma DInvH_intro d : DInvRG compress d -> APL (length (sd_plugs (dv d))) d -> DInvH d.
  Proof. intros [I Hrc] [H1 H2]. constructor; assumption. Qed.
  Lemma DInvH_DPL d : DInvH d -> DPL (length (sd_plugs (dv d))) DMAX d.
  Proof. intros [_ _ H1 _]. split; [exact H1|lia]. Qed.

  (* one device's share of dev_post_poll ALWAYS returns: Ok, the invariant again, and everything post_poll_one_inv_pre says *)
  Theorem post_poll_one_invH now d store tmo pin : DInvH d -> tmo_pos tmo ->
    exists d' store' tmo' evs, post_poll_one rmatch compress sc now d store tmo pin = Ok (d', store', tmo', evs) /\
      DInvH d' /\ step_postG compress now d store tmo d' store' tmo' evs /\ timer_ok now d' tmo'.
  Proof.
    intros [I Hrc Hpl Hn] Hp.
    pose proof (post_poll_one_inv_pre rmatch compress sc now d store tmo pin I Hp Hrc) as HG.
    rewrite pp_split in *.
    destruct (pp_front_inv compress now d tmo pin I Hp Hrc) as (d3 & t3 & pl & e12 & E & I3 & S3 & P3 & R3).
    rewrite E in *.
    pose proof (pp_front_APL _ now d tmo pin d3 t3 pl e12 I (conj Hpl Hn) E) as A3.
    destruct S3 as (_ & _ & _ & Epl & _).
    assert (Hlen : (length (sd_plugs (dv d3)) <= length (sd_plugs (dv d)))%nat) by (rewrite Epl; lia).
    assert (Hf : (Psi (length (sd_plugs (dv d))) d3 < pa_fuel d3)%nat) by (unfold pa_fuel; rewrite psi_Psi, Epl; lia).
    pose proof (process_action_APL (length (sd_plugs (dv d))) (pa_fuel d3) now d3 store t3 pl e12 I3 A3 Hlen P3 R3 Hf) as HA.
    destruct (process_action rmatch compress sc (pa_fuel d3) now d3 store t3 pl e12) as [[[[[d4 st4] t4] pl4] e4]| | | |]; try contradiction.
    destruct HG as [SP TK]. eexists _, _, _, _. split; [reflexivity|]. split; [|split; assumption].
    destruct (tg_cfg _ _ _ _ _ _ _ _ _ SP) as (_ & _ & _ & Epl4 & _).
    constructor; [exact (tg_inv _ _ _ _ _ _ _ _ _ SP)|exact (conn_rel_rc _ _ _ _ (tg_conn _ _ _ _ _ _ _ _ _ SP) Hrc)|rewrite Epl4; exact (proj1 HA)|exact (proj2 HA)].
  Qed.

  (* the same without the record: no Hang, no Abort, no MemErr, no Exit *)
  Theorem post_poll_one_never_hangs now d store tmo pin :
    DInvG compress d -> APL (length (sd_plugs (dv d))) d -> tmo_pos tmo -> 0 <= dv_retry_count d ->
    exists d' store' tmo' evs, post_poll_one rmatch compress sc now d store tmo pin = Ok (d', store', tmo', evs).
  Proof.
    intros I A Hp Hrc. destruct (post_poll_one_invH now d store tmo pin (DInvH_intro d (conj I Hrc) A) Hp) as (d' & st' & t' & evs & E & _).
    eauto.
  Qed.

  (* ---------- what the daemon does to a device outside dev_post_poll (the H counterparts of Proofs/DeviceRunG.v) ---------- *)
  Lemma append_client_action_invH d q client tele args :
    DInvH d -> (exists s, assoc_script (qa_com q) (dv_scripts d) = Some s) -> Z.eqb (qa_com q) PM_LOG_IN = false ->
    opt_incl (qa_plugs q) (sd_plugs (dv d)) -> (is_ranged_com (qa_com q) = true -> qa_plugs q <> None) ->
    (olen (qa_plugs q) <= length (sd_plugs (dv d)))%nat ->
    exists d', append_client_action d q client tele args = Ok d' /\ DInvH d' /\ same_cfg d d' /\
      queued d' = queued d ++ [client] /\ dv_cstate d' = dv_cstate d /\ dv_retry_count d' = dv_retry_count d /\ dv_last_retry d' = dv_last_retry d.
  Proof.
    intros [I Hrc Hpl Hn] H1 H2 H3 H4 Hlen.
    destruct (append_client_action_invG compress d q client tele args I H1 H2 H3 H4) as (d1 & E1 & I1 & S1 & Rest).
    exists d1. split; [exact E1|]. split; [|split; [exact S1|exact Rest]].
    unfold append_client_action in E1. destruct (assoc_script (qa_com q) (dv_scripts d)) as [s|] eqn:Es; [|discriminate]. injection E1 as <-.
    constructor; [exact I1|exact Hrc| |exact Hn].
    cbn [dv dv_acts set_acts]. apply Forall_app. split; [exact Hpl|]. constructor; [|constructor].
    apply PL_create; [exact (assoc_nest _ _ _ Hn Es)|exact Hlen].
  Qed.

  Lemma fold_append_invH client tele args : forall (qs : list qact) d,
    DInvH d ->
    (forall q, In q qs -> (exists s, assoc_script (qa_com q) (dv_scripts d) = Some s) /\ Z.eqb (qa_com q) PM_LOG_IN = false /\
                          opt_incl (qa_plugs q) (sd_plugs (dv d)) /\ (is_ranged_com (qa_com q) = true -> qa_plugs q <> None) /\
                          (olen (qa_plugs q) <= length (sd_plugs (dv d)))%nat) ->
    exists d', fold_left (fun od a => match od with Ok x => append_client_action x a client tele args | e => e end) qs (Ok d) = Ok d' /\
      DInvH d' /\ same_cfg d d' /\ queued d' = queued d ++ repeat client (length qs) /\
      dv_cstate d' = dv_cstate d /\ dv_retry_count d' = dv_retry_count d /\ dv_last_retry d' = dv_last_retry d.
  Proof.
    induction qs as [|q r IH]; intros d I Hq; cbn [fold_left].
    - exists d. rewrite app_nil_r. split; [reflexivity|]. split; [exact I|]. split; [apply same_cfg_refl|]. repeat split.
    - destruct (Hq q (or_introl eq_refl)) as (H1 & H2 & H3 & H4 & H5).
      destruct (append_client_action_invH d q client tele args I H1 H2 H3 H4 H5) as (d1 & E1 & I1 & S1 & Q1 & C1 & R1 & L1).
      rewrite E1. destruct (IH d1 I1) as (d2 & E2 & I2 & S2 & Q2 & C2 & R2 & L2).
      { intros q' Hin. destruct (Hq q' (or_intror Hin)) as (G1 & G2 & G3 & G4 & G5).
        destruct S1 as (Es & _ & _ & Ep & _). rewrite Es, Ep. auto. }
      exists d2. split; [exact E2|]. split; [exact I2|]. split; [eapply same_cfg_trans; eassumption|].
      split; [rewrite Q2, Q1, <- app_assoc; reflexivity|]. repeat split; congruence.
  Qed.

  Lemma expedite_invH d : DInvH d -> DInvH (expedite d) /\ same_cfg d (expedite d) /\ queued (expedite d) = queued d.
  Proof.
    intros H. destruct (expedite_invG compress d (DInvH_RG d H)) as ([I1 R1] & S1 & Q1). split; [|split; assumption].
    destruct H as [_ _ Hpl Hn]. unfold expedite in *. destruct (connected d); constructor; assumption.
  Qed.

  (* dev_initial_connect / the connect of _reconnect, from the not-connected state *)
  Lemma connect_invH now d plans : DInvH d -> dv_cstate d = DEV_NOT_CONNECTED ->
    exists d' pl', connect now d plans = Ok (d', [EvConnect], pl') /\ pl' = tl plans /\
      DInvH d' /\ same_cfg d d' /\ queued d' = queued d /\
      dv_last_retry d' = now /\ dv_retry_count d' = dv_retry_count d + 1 /\ dv_last_ping d' = dv_last_ping d /\
      (dv_cstate d' = DEV_CONNECTED <-> hd ConnFail plans = ConnNow) /\
      (dv_cstate d' = DEV_CONNECTED ->
         exists s, assoc_script PM_LOG_IN (dv_scripts d) = Some s /\
      dv_acts d' = create_action s PM_LOG_IN None 0 false false false None
                          :: (match dv_acts d with [] => [] | h :: r => rewind_action h :: r end)) /\
      (dv_cstate d' <> DEV_CONNECTED -> dv_acts d' = dv_acts d).
  Proof.
    intros H Hc. destruct (connect_invG compress now d plans (dh_inv d H) Hc) as (d' & pl' & E & Epl & I' & S' & Q' & L' & R' & Rest).
    exists d', pl'. split; [exact E|]. split; [exact Epl|]. split; [|split; [exact S'|split; [exact Q'|split; [exact L'|split; [exact R'|exact Rest]]]]].
    pose proof (connect_APL _ now d plans d' _ pl' (DInvH_APL d H) E) as [A1 A2].
    destruct S' as (_ & _ & _ & Ep & _).
    constructor; [exact I'|rewrite R'; pose proof (dh_rc d H); lia|rewrite Ep; exact A1|exact A2].
  Qed.

  Lemma mk_device_invH name plugs scripts timeout ping :
    cfg_ok compress (mk_device name plugs scripts timeout ping) -> nest_ok scripts ->
    DInvH (mk_device name plugs scripts timeout ping) /\ dv_cstate (mk_device name plugs scripts timeout ping) = DEV_NOT_CONNECTED.
  Proof.
    intros Hc Hn. destruct (mk_device_invG compress name plugs scripts timeout ping Hc) as [[I Hrc] H2]. split; [|exact H2].
    constructor; [exact I|exact Hrc|constructor|exact Hn].
  Qed.

  (* ---------- the harness world (Model/DevHarness.v): every operation returns Ok ---------- *)
  Definition HInvH (h : hstate) : Prop := Forall (fun dp => DInvH (fst dp)) (h_devs h).

  Lemma enqueue_dev_olen d com tgts q : In q (enqueue_dev (edev_of d) com tgts) -> (olen (qa_plugs q) <= length (sd_plugs (dv d)))%nat.
  Proof. intros Hin. exact (enq_plugs_length (edev_of d) com tgts q Hin). Qed.

  Lemma enq_devs_invH com client tele args tgts : In com (power_coms ++ query_coms) ->
    forall l, Forall (fun dp => DInvH (fst dp)) l ->
    exists l' n, enq_devs l com client tele args tgts = Ok (l', n) /\ Forall (fun dp => DInvH (fst dp)) l'.
  Proof.
    intros Hcom. induction l as [|[d p] r IH]; intros Hl; cbn [enq_devs].
    - exists [], 0. split; [reflexivity|constructor].
    - inversion Hl as [|? ? Hd Hr]; subst. cbn [fst] in Hd.
      destruct (fold_append_invH client tele args (enqueue_dev (edev_of d) com tgts) d Hd) as (d1 & E1 & I1 & _).
      { intros q Hin. destruct (enqueue_dev_props d com tgts q Hin Hcom) as (G1 & G2 & G3 & G4).
        split; [exact G1|]. split; [exact G2|]. split; [exact G3|]. split; [exact G4|]. exact (enqueue_dev_olen d com tgts q Hin). }
      rewrite E1. destruct (IH Hr) as (r' & n & E2 & H2). rewrite E2.
      eexists _, _. split; [reflexivity|]. constructor; [|exact H2]. cbn [fst].
      destruct (enqueue_dev (edev_of d) com tgts); [exact I1|exact (proj1 (expedite_invH d1 I1))].
  Qed.

  Lemma pass_devs_invH : forall l now i store tmo, Forall (fun dp => DInvH (fst dp)) l -> tmo_pos tmo ->
    exists l' store' tmo' evs, pass_devs rmatch compress sc now i l store tmo = Ok (l', store', tmo', evs) /\ Forall (fun dp => DInvH (fst dp)) l'.
  Proof.
    induction l as [|[d p] r IH]; intros now i store tmo Hl Hp; cbn [pass_devs].
    - eexists _, _, _, _. split; [reflexivity|constructor].
    - inversion Hl as [|? ? Hd Hr]; subst. cbn [fst] in Hd.
      destruct (post_poll_one_invH now d store tmo (passin_of d p) Hd Hp) as (d1 & st1 & t1 & e1 & E1 & I1 & SP & _). rewrite E1.
      destruct (IH now (S i) st1 t1 Hr (tg_pos _ _ _ _ _ _ _ _ _ SP)) as (r' & st2 & t2 & e2 & E2 & H2). rewrite E2.
      eexists _, _, _, _. split; [reflexivity|]. constructor; [exact I1|exact H2].
  Qed.

  Lemma init_devs_invH : forall l now i, Forall (fun dp => DInvH (fst dp) /\ dv_cstate (fst dp) = DEV_NOT_CONNECTED) l ->
    exists l' evs, init_devs now i l = Ok (l', evs) /\ Forall (fun dp => DInvH (fst dp)) l'.
  Proof.
    induction l as [|[d p] r IH]; intros now i Hl; cbn [init_devs].
    - exists [], []. split; [reflexivity|constructor].
    - inversion Hl as [|? ? Hd Hr]; subst. cbn [fst] in Hd. destruct Hd as [Hd Hc].
      destruct (connect_invH now d (pe_plans p) Hd Hc) as (d1 & pl & E1 & _ & I1 & _). rewrite E1.
      destruct (IH now (S i) Hr) as (r' & e2 & E2 & H2). rewrite E2.
      eexists _, _. split; [reflexivity|]. constructor; [exact I1|exact H2].
  Qed.

  Lemma Forall_fst (Q : device -> Prop) (l : list (device * peer)) : Forall (fun dp => Q (fst dp)) l <-> Forall Q (map fst l).
  Proof. rewrite Forall_map. reflexivity. Qed.

  Lemma upd_nth_invH (f : device * peer -> device * peer) (Q : device -> Prop) : (forall x, fst (f x) = fst x) ->
    forall l i, Forall (fun dp => Q (fst dp)) l -> Forall (fun dp => Q (fst dp)) (upd_nth l i f).
  Proof. intros Hf l i H. apply Forall_fst. rewrite (upd_nth_fst f Hf). apply Forall_fst. exact H. Qed.

  Lemma hstep_invH h op : HInvH h -> valid_op op ->
    exists h' o, hstep rmatch compress sc h op = Ok (h', o) /\ HInvH h'.
  Proof.
    intros Hh Hv. unfold HInvH in *. destruct op as [t|i pl|i ok|i b|i| |nodes|com client tele args tgts|]; cbn [hstep].
    - eexists _, _. split; [reflexivity|exact Hh].
    - eexists _, _. split; [reflexivity|]. cbn [h_devs]. apply upd_nth_invH; [intros [? ?]; reflexivity|exact Hh].
    - eexists _, _. split; [reflexivity|]. cbn [h_devs]. apply upd_nth_invH; [intros [? ?]; reflexivity|exact Hh].
    - eexists _, _. split; [reflexivity|]. cbn [h_devs]. apply upd_nth_invH; [intros [? ?]; reflexivity|exact Hh].
    - eexists _, _. split; [reflexivity|]. cbn [h_devs]. apply upd_nth_invH; [intros [? ?]; reflexivity|exact Hh].
    - destruct Hv.
    - eexists _, _. split; [reflexivity|exact Hh].
    - destruct (enq_devs_invH com client tele args tgts Hv (h_devs h) Hh) as (l' & n & E & H1). rewrite E.
      eexists _, _. split; [reflexivity|exact H1].
    - destruct (pass_devs_invH (h_devs h) (h_now h) O (h_store h) None Hh ltac:(intros x E; discriminate E)) as (l' & st' & t' & evs & E & H1). rewrite E.
      eexists _, _. split; [reflexivity|exact H1].
  Qed.

  Lemma run_invH : forall ops h, HInvH h -> Forall valid_op ops ->
    exists h' outs, run rmatch compress sc h ops = Ok (h', outs) /\ HInvH h'.
  Proof.
    induction ops as [|op r IH]; intros h Hh Hv; cbn [run].
    - eexists _, _. split; [reflexivity|exact Hh].
    - inversion Hv as [|? ? Hv1 Hv2]; subst.
      destruct (hstep_invH h op Hh Hv1) as (h1 & o & E1 & H1). rewrite E1.
      destruct (IH h1 H1 Hv2) as (h2 & outs & E2 & H2). rewrite E2.
      eexists _, _. split; [reflexivity|exact H2].
  Qed.

  (* the start-up: clock / plans / arg lists, dev_initial_connect once while nothing is connected, then anything *)
  Definition FreshH (h : hstate) : Prop :=
    Forall (fun dp => DInvH (fst dp) /\ dv_cstate (fst dp) = DEV_NOT_CONNECTED) (h_devs h).

  Lemma FreshH_fst h h' : map fst (h_devs h') = map fst (h_devs h) -> FreshH h -> FreshH h'.
  Proof.
    unfold FreshH. intros E H. apply (Forall_fst (fun d => DInvH d /\ dv_cstate d = DEV_NOT_CONNECTED)). rewrite E.
    apply (Forall_fst (fun d => DInvH d /\ dv_cstate d = DEV_NOT_CONNECTED)). exact H.
  Qed.

  Lemma setup_stepH h op : setup_op op -> FreshH h -> exists h', hstep rmatch compress sc h op = Ok (h', out0) /\ FreshH h'.
  Proof.
    intros Hs Hf. destruct op as [t|i pl|i ok| | | |nodes| |]; try contradiction; cbn [hstep]; eexists; (split; [reflexivity|]);
      (eapply FreshH_fst; [|exact Hf]); cbn [h_devs]; try reflexivity; apply upd_nth_fst; intros [? ?]; reflexivity.
  Qed.

  Lemma run_setup_init_H : forall pre h ops, FreshH h -> Forall setup_op pre -> Forall valid_op ops ->
    exists h' outs, run rmatch compress sc h (pre ++ HInit :: ops) = Ok (h', outs) /\ HInvH h'.
  Proof.
    induction pre as [|op r IH]; intros h ops Hf Hs Hv; cbn [app run].
    - cbn [hstep]. destruct (init_devs_invH (h_devs h) (h_now h) O Hf) as (l' & evs & E & H1). rewrite E.
      destruct (run_invH ops (mkH (h_now h) l' (h_store h)) H1 Hv) as (h2 & outs & E2 & H2). rewrite E2.
      eexists _, _. split; [reflexivity|exact H2].
    - inversion Hs as [|? ? Hs1 Hs2]; subst.
      destruct (setup_stepH h op Hs1 Hf) as (h1 & E & F1). rewrite E.
      destruct (IH h1 ops F1 Hs2 Hv) as (h2 & outs & E2 & H2). rewrite E2.
      eexists _, _. split; [reflexivity|exact H2].
  Qed.
End Hang.

(* ---------- the closed statements quoted by Properties/C07.v ---------- *)
Lemma p_C07_never_hangs : forall (rmatch : text -> text -> option pmatch) (compress : list text -> text) (sc : bool) now d store tmo pin,
  DInvH compress d -> tmo_pos tmo ->
  exists d' store' tmo' evs, post_poll_one rmatch compress sc now d store tmo pin = Ok (d', store', tmo', evs) /\
    DInvH compress d' /\ step_postG compress now d store tmo d' store' tmo' evs /\ timer_ok now d' tmo'.
Proof. exact post_poll_one_invH. Qed.

Lemma p_C07_total_no_hang : forall (rmatch : text -> text -> option pmatch) (compress : list text -> text) (sc : bool) (cfgs : list (text * list plug * list (Z * list stmt) * Z * Z)) (pre ops : list hop),
  Forall (fun c => let '(name, plugs, scripts, timeout, ping) := c in cfg_ok compress (mk_device name plugs scripts timeout ping) /\ nest_ok scripts) cfgs ->
  Forall setup_op pre -> Forall valid_op ops ->
  exists h' outs, run rmatch compress sc
              (mkH 0 (map (fun c => let '(name, plugs, scripts, timeout, ping) := c in (mk_device name plugs scripts timeout ping, peer0)) cfgs) [])
              (pre ++ HInit :: ops) = Ok (h', outs) /\ length outs = length (pre ++ HInit :: ops) /\ HInv compress h' /\ HInvH compress h'.
Proof.
  intros rmatch compress sc cfgs pre ops Hc Hs Hv.
  set (h0 := mkH 0 (map (fun c => let '(name, plugs, scripts, timeout, ping) := c in (mk_device name plugs scripts timeout ping, peer0)) cfgs) []).
  assert (HfH : FreshH compress h0).
  { unfold FreshH, h0. cbn [h_devs]. apply Forall_map. eapply Forall_impl; [|exact Hc]. intros [[[[n p] s] t] pg] [H1 H2]. cbn [fst].
    now apply mk_device_invH. }
  assert (Hf : Fresh compress h0).
  { unfold Fresh, h0. cbn [h_devs]. apply Forall_map. eapply Forall_impl; [|exact Hc]. intros [[[[n p] s] t] pg] [H1 H2]. cbn [fst].
    now apply mk_device_inv. }
  destruct (run_setup_init_H rmatch compress sc pre h0 ops HfH Hs Hv) as (h' & outs & E & HH).
  pose proof (run_setup_init rmatch compress sc pre h0 ops Hf Hs Hv) as H. rewrite E in H. destruct H as (H1 & H2 & _).
  exists h', outs. auto.
Qed.

Lemma p_C07_total_from_no_hang : forall (rmatch : text -> text -> option pmatch) (compress : list text -> text) (sc : bool) (h : hstate) (ops : list hop),
  HInv compress h -> HInvH compress h -> Forall valid_op ops ->
  exists h' outs, run rmatch compress sc h ops = Ok (h', outs) /\ HInv compress h' /\ HInvH compress h' /\ length outs = length ops.
Proof.
  intros rmatch compress sc h ops Hh HhH Hv. destruct (run_invH rmatch compress sc ops h HhH Hv) as (h' & outs & E & HH).
  pose proof (run_inv rmatch compress sc ops h Hh Hv) as H. rewrite E in H. destruct H as (H1 & H2 & _).
  exists h', outs. auto.
Qed.
