(* The descriptor ledger of the whole-daemon model (C20, C11): which client records exist after any history of
   passes, and that every accepted descriptor is closed exactly once - when its client record is destroyed. *)
From Coq Require Import List NArith ZArith Bool Lia Permutation.
From PM Require Import Base.Bytes Base.Outcome Gen.GenConsts Model.ScriptAst Model.Enqueue Model.Script Model.Device Model.Client Model.Daemon.
Import ListNotations.
Local Open Scope Z_scope.

Definition cid (x : dcli) : Z := cl_id (dc x).
Definition ids (st : daemon) : list Z := map cid (dm_clients st).

Lemma upd_nth_same {A B} (f : A -> B) (l : list A) i x y :
  nth_error l i = Some x -> f y = f x -> map f (upd_nth l i (fun _ => y)) = map f l.
Proof.
  revert i; induction l as [|a l IH]; intros [|i] H E; cbn in *; try discriminate.
  - inversion H; subst. now rewrite E.
  - now rewrite (IH i H E).
Qed.

Lemma nth_error_firstn_lt {A} (l : list A) : forall n i, (i < n)%nat -> nth_error (firstn n l) i = nth_error l i.
Proof. induction l as [|a l IH]; intros [|n] [|i] H; cbn; try lia; auto. apply IH. lia. Qed.

Lemma NoDup_app_single_fresh {A} (l : list A) x : NoDup l -> ~ In x l -> NoDup (l ++ [x]).
Proof.
  intros Hn Hx. induction l as [|a l IH]; cbn; [constructor; auto; constructor|].
  inversion Hn; subst. constructor.
  - intros Hin. apply in_app_or in Hin. destruct Hin as [Hin|[->|[]]]; [contradiction|]. apply Hx. now left.
  - apply IH; auto. intros Hin. apply Hx. now right.
Qed.

Lemma NoDup_app_l {A} (a b : list A) : NoDup (a ++ b) -> NoDup a.
Proof. induction a as [|x a IH]; cbn; intros H; [constructor|]. inversion H; subst. constructor; [intros Hi; apply H2, in_or_app; now left|auto]. Qed.
Lemma NoDup_app_r {A} (a b : list A) : NoDup (a ++ b) -> NoDup b.
Proof. induction a as [|x a IH]; cbn; intros H; [exact H|]. inversion H; subst. auto. Qed.

Lemma upd_nth_none {A} (l : list A) i f : nth_error l i = None -> upd_nth l i f = l.
Proof. revert i; induction l as [|a l IH]; intros [|i] H; cbn in *; try discriminate; auto. now rewrite IH. Qed.

Lemma emit_id t c : cl_id (emit t c) = cl_id c. Proof. reflexivity. Qed.
Lemma set_cmd_id k c : cl_id (set_cmd k c) = cl_id c. Proof. reflexivity. Qed.

Section L.
  Variable expand_str : text -> option (list text).
  Variable ranged_sorted : list text -> text.
  Variable ranged_plain : list text -> text.
  Variable sorted : list text -> list text.
  Variable rmatch : text -> text -> option pmatch.
  Variable compress : list text -> text.
  Variable short_circuit : bool.

  Lemma act_finish_id c store err msg c' : act_finish ranged_sorted c store err msg = Ok c' -> cl_id c' = cl_id c.
  Proof.
    unfold act_finish. destruct (cl_cmd c) as [k|]; [|discriminate].
    destruct (Z.eqb (k_pending k - 1) 0) eqn:E.
    - cbn [k_pending]. rewrite E.
      destruct (final_reply _ _ _ _) as [t| | | |]; try discriminate.
      intros H; inversion H; subst. cbn. destruct (Z.eqb err ACT_ESUCCESS); reflexivity.
    - cbn [k_pending]. rewrite E. intros H; inversion H; subst. cbn. destruct (Z.eqb err ACT_ESUCCESS); reflexivity.
  Qed.

  Lemma parse_input_id cf store c line cf' store' c' q :
    parse_input expand_str ranged_sorted ranged_plain sorted cf store c line = (cf', store', c', q) -> cl_id c' = cl_id c.
  Proof.
    unfold parse_input.
    destruct (CP_LINEMAX <=? _).
    { intros H; inversion H; subst. destruct (cl_quit c); reflexivity. }
    destruct (cl_cmd c); [intros H; inversion H; subst; reflexivity|].
    destruct (classify _) eqn:Ecl.
    all: try (intros H; inversion H; subst; cbn; repeat match goal with |- context [if ?b then _ else _] => destruct b end; reflexivity).
    - match goal with |- context [match ?e with CRefused _ => _ | CQueued _ _ _ => _ end] => destruct e as [t|k al qq] end;
        intros H; inversion H; subst; [destruct (cl_quit c)|]; reflexivity.
  Qed.

  (* the client list only changes at position i, and the record there keeps its id *)
  Lemma handle_input_ids fuel : forall st i acc st' evs,
    handle_input expand_str ranged_sorted ranged_plain sorted fuel st i acc = Ok (st', evs) -> ids st' = ids st.
  Proof.
    induction fuel as [|f IH]; intros st i acc st' evs; cbn [handle_input]; [intros H; now inversion H|].
    destruct (nth_error (dm_clients st) i) as [x|] eqn:En; [|intros H; now inversion H].
    destruct (take_line [] (dc_from x)) as [[line rest]|]; [|intros H; now inversion H].
    destruct (parse_input _ _ _ _ _ _ _ _) as [[[cf' store'] c'] q] eqn:Ep.
    pose proof (parse_input_id _ _ _ _ _ _ _ _ Ep) as Hid.
    match goal with |- match ?e with _ => _ end = _ -> _ => destruct e as [devs'| | | |]; try discriminate end.
    intros H. apply IH in H. rewrite H. unfold ids. cbn [dm_clients].
    apply (upd_nth_same cid _ i x); [exact En|].
    unfold cid. cbn. exact Hid.
  Qed.

  Lemma cli_one_ids st i ci st' evs dead :
    cli_one expand_str ranged_sorted ranged_plain sorted st i ci = Ok (st', evs, dead) -> ids st' = ids st.
  Proof.
    unfold cli_one. destruct (nth_error (dm_clients st) i) as [x|] eqn:En; [|intros H; now inversion H].
    destruct (ci_bad ci); [intros H; now inversion H|].
    match goal with |- context [let '(x2, w) := ?e in _] => destruct e as [x2 w] eqn:E2 end.
    match goal with |- match ?e with _ => _ end = _ -> _ => destruct e as [[st2 evs2]| | | |] eqn:Eh; try discriminate end.
    intros H; inversion H; subst. apply handle_input_ids in Eh. rewrite Eh. unfold ids; cbn [dm_clients].
    apply (upd_nth_same cid _ i x); [exact En|].
    (* x2 is x with bytes appended / removed and possibly the quit flag *)
    assert (Hx1 : forall y, cid (set_quit y) = cid y) by reflexivity.
    unfold cid in *.
    destruct (ci_out ci); [destruct (ci_wrote ci)|]; inversion E2; subst; cbn;
      (destruct (ci_in ci); [destruct (ci_read ci) as [[|b r]|]|]); reflexivity.
  Qed.

  Lemma length_remove_nth_aux {A} (l : list A) i : (i < length l)%nat -> length (remove_nth l i) = (length l - 1)%nat.
  Proof. revert i; induction l as [|a l IH]; intros [|i] H; cbn in *; try lia. rewrite IH by lia. lia. Qed.

  (* removing position i *)
  Lemma remove_nth_map {A B} (f : A -> B) (l : list A) i : map f (remove_nth l i) = remove_nth (map f l) i.
  Proof. revert i; induction l as [|a l IH]; intros [|i]; cbn; auto. now rewrite IH. Qed.

  Definition closes (evs : list sysev) : list Z := flat_map (fun e => match e with SysCloseCli id => [id] | _ => [] end) evs.
  Definition accepts (evs : list sysev) : list Z := flat_map (fun e => match e with SysAccept id => [id] | _ => [] end) evs.

  Lemma closes_app a b : closes (a ++ b) = closes a ++ closes b. Proof. unfold closes. now rewrite flat_map_app. Qed.
  Lemma accepts_app a b : accepts (a ++ b) = accepts a ++ accepts b. Proof. unfold accepts. now rewrite flat_map_app. Qed.

  (* events of the client layer other than close: none of them is a close or an accept *)
  Lemma handle_input_evs fuel : forall st i acc st' evs,
    handle_input expand_str ranged_sorted ranged_plain sorted fuel st i acc = Ok (st', evs) ->
    closes evs = closes acc /\ accepts evs = accepts acc.
  Proof.
    induction fuel as [|f IH]; intros st i acc st' evs; cbn [handle_input]; [intros H; inversion H; auto|].
    destruct (nth_error (dm_clients st) i) as [x|]; [|intros H; inversion H; auto].
    destruct (take_line [] (dc_from x)) as [[line rest]|]; [|intros H; inversion H; auto].
    destruct (parse_input _ _ _ _ _ _ _ _) as [[[cf' store'] c'] q].
    match goal with |- match ?e with _ => _ end = _ -> _ => destruct e as [devs'| | | |]; try discriminate end.
    intros H. apply IH in H. exact H.
  Qed.

  Lemma cli_one_evs st i ci st' evs dead :
    cli_one expand_str ranged_sorted ranged_plain sorted st i ci = Ok (st', evs, dead) -> closes evs = [] /\ accepts evs = [].
  Proof.
    unfold cli_one. destruct (nth_error (dm_clients st) i) as [x|]; [|intros H; inversion H; auto].
    destruct (ci_bad ci); [intros H; inversion H; auto|].
    match goal with |- context [let '(x2, w) := ?e in _] => destruct e as [x2 w] end.
    match goal with |- match ?e with _ => _ end = _ -> _ => destruct e as [[st2 evs2]| | | |] eqn:Eh; try discriminate end.
    intros H; inversion H; subst. apply handle_input_evs in Eh. destruct Eh as [H1 H2]. rewrite H1, H2.
    destruct w; cbn; auto.
  Qed.

  (* what remains of a list after the loop: the ids not closed, in order; the closes are exactly the removed ids *)
  Fixpoint drop_ids (closed : list Z) (l : list Z) : list Z :=
    match l with
    | [] => []
    | a :: r => if existsb (Z.eqb a) closed then drop_ids closed r else a :: drop_ids closed r
    end.

  Lemma remove_nth_split {A} (l : list A) i x : nth_error l i = Some x -> l = firstn i l ++ x :: skipn (S i) l /\ remove_nth l i = firstn i l ++ skipn (S i) l.
  Proof.
    revert i; induction l as [|a l IH]; intros [|i] H; cbn in *; try discriminate.
    - inversion H; subst; auto.
    - destruct (IH i H) as [H1 H2]. split; [now rewrite <- H1|now rewrite H2].
  Qed.

  (* cli_loop visits positions i, i+1, ... of the current list; ids before position i are untouched *)
  Lemma cli_loop_ids : forall cins st i acc st' evs,
    cli_loop expand_str ranged_sorted ranged_plain sorted st i cins acc = Ok (st', evs) ->
    length cins = (length (dm_clients st) - i)%nat -> (i <= length (dm_clients st))%nat ->
    exists closed, closes evs = closes acc ++ closed /\ accepts evs = accepts acc /\
      incl closed (skipn i (ids st)) /\
      firstn i (ids st') = firstn i (ids st) /\
      Permutation (skipn i (ids st)) (closed ++ skipn i (ids st')) .
  Proof.
    induction cins as [|ci r IH]; intros st i acc st' evs; cbn [cli_loop].
    - intros H Hl Hi; inversion H; subst. exists []. rewrite app_nil_r. repeat split; auto using incl_nil_l.
    - destruct (cli_one _ _ _ _ st i ci) as [[[st1 evs1] dead]| | | |] eqn:E1; try discriminate.
      pose proof (cli_one_ids _ _ _ _ _ _ E1) as Hids1. pose proof (cli_one_evs _ _ _ _ _ _ E1) as [Hc1 Ha1].
      assert (Hlen1 : length (dm_clients st1) = length (dm_clients st)).
      { unfold ids in Hids1. apply (f_equal (@length Z)) in Hids1. now rewrite !map_length in Hids1. }
      intros H Hl Hi. cbn [length] in Hl.
      assert (Hlt : (i < length (dm_clients st))%nat) by lia.
      destruct dead.
      + (* the client at position i is destroyed *)
        destruct (nth_error (dm_clients st1) i) as [y|] eqn:Ey; [|apply nth_error_None in Ey; lia].
        match type of H with cli_loop _ _ _ _ ?s _ _ _ = _ => set (st2 := s) in * end.
        assert (Hids_rm : ids st2 = remove_nth (ids st) i).
        { unfold ids, st2. cbn [dm_clients]. rewrite remove_nth_map. fold (ids st1). now rewrite Hids1. }
        assert (Hlen2 : length (dm_clients st2) = (length (dm_clients st) - 1)%nat).
        { unfold st2. cbn [dm_clients]. rewrite length_remove_nth_aux; lia. }
        clearbody st2.
        apply IH in H; [|lia|lia].
        destruct H as (closed & Hc & Ha & Hin & Hf & Hp).
        rewrite Hids_rm in *.
        assert (Ey' : nth_error (ids st) i = Some (cid y)).
        { rewrite <- Hids1. unfold ids. now rewrite nth_error_map, Ey. }
        destruct (remove_nth_split _ _ _ Ey') as [Ht1 Ht2].
        assert (Hfi : length (firstn i (ids st)) = i) by (rewrite firstn_length; unfold ids; rewrite map_length; lia).
        exists (cid y :: closed).
        split; [rewrite Hc, !closes_app, Hc1; cbn; rewrite <- ?app_assoc; reflexivity|].
        split; [rewrite Ha, !accepts_app, Ha1; cbn; now rewrite !app_nil_r|].
        assert (Hsk : skipn i (remove_nth (ids st) i) = skipn (S i) (ids st)).
        { rewrite Ht2. rewrite skipn_app, Hfi, Nat.sub_diag. cbn [skipn]. rewrite skipn_all2 by lia. reflexivity. }
        assert (Hsk2 : skipn i (ids st) = cid y :: skipn (S i) (ids st)).
        { rewrite Ht1 at 1. rewrite skipn_app, Hfi, Nat.sub_diag. cbn [skipn]. rewrite skipn_all2 by lia. reflexivity. }
        split.
        { rewrite Hsk2. intros z [Hz|Hz]; [left; exact Hz|right]. apply Hin in Hz. now rewrite Hsk in Hz. }
        split.
        { rewrite Hf. rewrite Ht2. rewrite firstn_app, Hfi, Nat.sub_diag. cbn [firstn]. rewrite app_nil_r.
          now rewrite firstn_firstn, Nat.min_id. }
        rewrite Hsk2. cbn [app]. apply perm_skip. rewrite <- Hsk. exact Hp.
      + apply IH in H; [|lia|lia].
        destruct H as (closed & Hc & Ha & Hin & Hf & Hp). rewrite Hids1 in *.
        exists closed. rewrite Hc, Ha, !closes_app, !accepts_app, Hc1, Ha1, !app_nil_r.
        assert (Hn : nth_error (ids st) i <> None) by (apply nth_error_Some; unfold ids; rewrite map_length; lia).
        destruct (nth_error (ids st) i) as [a|] eqn:Ea; [|congruence].
        destruct (remove_nth_split _ _ _ Ea) as [Ht1 _].
        assert (Hfi : length (firstn i (ids st)) = i) by (rewrite firstn_length; unfold ids; rewrite map_length; lia).
        assert (Hsk2 : skipn i (ids st) = a :: skipn (S i) (ids st)).
        { rewrite Ht1 at 1. rewrite skipn_app, Hfi, Nat.sub_diag. cbn [skipn]. rewrite skipn_all2 by lia. reflexivity. }
        repeat split; auto.
        * rewrite Hsk2. intros z Hz. right. now apply Hin.
        * apply (f_equal (firstn i)) in Hf. rewrite !firstn_firstn in Hf. now replace (Nat.min i (S i)) with i in Hf by lia.
        * assert (Ea' : nth_error (ids st') i = Some a).
          { assert (nth_error (firstn (S i) (ids st')) i = nth_error (firstn (S i) (ids st)) i) by now rewrite Hf.
            rewrite !nth_error_firstn_lt in H by lia. now rewrite H. }
          destruct (remove_nth_split _ _ _ Ea') as [Ht1' _].
          assert (Hfi' : length (firstn i (ids st')) = i).
          { rewrite firstn_length. assert (Hnn : nth_error (ids st') i <> None) by congruence. apply nth_error_Some in Hnn. lia. }
          assert (Hsk2' : skipn i (ids st') = a :: skipn (S i) (ids st')).
          { rewrite Ht1' at 1. rewrite skipn_app, Hfi', Nat.sub_diag. cbn [skipn]. rewrite skipn_all2 by lia. reflexivity. }
          rewrite Hsk2, Hsk2'. apply Permutation_cons_app. exact Hp.
  Qed.

  (* the client-id sequence number only moves in accept *)
  Lemma handle_input_seq fuel : forall st i acc st' evs,
    handle_input expand_str ranged_sorted ranged_plain sorted fuel st i acc = Ok (st', evs) -> dm_seq st' = dm_seq st.
  Proof.
    induction fuel as [|f IH]; intros st i acc st' evs; cbn [handle_input]; [intros H; now inversion H|].
    destruct (nth_error (dm_clients st) i) as [x|]; [|intros H; now inversion H].
    destruct (take_line [] (dc_from x)) as [[line rest]|]; [|intros H; now inversion H].
    destruct (parse_input _ _ _ _ _ _ _ _) as [[[cf' store'] c'] q].
    match goal with |- match ?e with _ => _ end = _ -> _ => destruct e as [devs'| | | |]; try discriminate end.
    intros H. apply IH in H. exact H.
  Qed.
  Lemma cli_one_seq st i ci st' evs dead :
    cli_one expand_str ranged_sorted ranged_plain sorted st i ci = Ok (st', evs, dead) -> dm_seq st' = dm_seq st.
  Proof.
    unfold cli_one. destruct (nth_error (dm_clients st) i) as [x|]; [|intros H; now inversion H].
    destruct (ci_bad ci); [intros H; now inversion H|].
    match goal with |- context [let '(x2, w) := ?e in _] => destruct e as [x2 w] end.
    match goal with |- match ?e with _ => _ end = _ -> _ => destruct e as [[st2 evs2]| | | |] eqn:Eh; try discriminate end.
    intros H; inversion H; subst. now apply handle_input_seq in Eh.
  Qed.
  Lemma cli_loop_seq : forall cins st i acc st' evs,
    cli_loop expand_str ranged_sorted ranged_plain sorted st i cins acc = Ok (st', evs) -> dm_seq st' = dm_seq st.
  Proof.
    induction cins as [|ci r IH]; intros st i acc st' evs; cbn [cli_loop]; [intros H; now inversion H|].
    destruct (cli_one _ _ _ _ st i ci) as [[[st1 evs1] dead]| | | |] eqn:E1; try discriminate.
    apply cli_one_seq in E1. destruct dead; intros H; apply IH in H; cbn [dm_seq] in H; congruence.
  Qed.

  (* ---- the device layer's callbacks never create or destroy a client record ---- *)
  Lemma find_cli_spec l id : forall n i x, find_cli l id n = Some (i, x) ->
    exists j, i = (n + j)%nat /\ nth_error l j = Some x /\ cid x = id.
  Proof.
    induction l as [|a l IH]; intros n i x H; cbn in H; [discriminate|].
    destruct (Z.eqb (cl_id (dc a)) id) eqn:E.
    - inversion H; subst. exists O. rewrite Nat.add_0_r. repeat split; auto. now apply Z.eqb_eq.
    - apply IH in H. destruct H as (j & -> & Hn & Hc). exists (S j). repeat split; auto. lia.
  Qed.

  Lemma route_ids st e st' : route ranged_sorted st e = Ok st' ->
    ids st' = ids st /\ dm_devs st' = dm_devs st /\ dm_seq st' = dm_seq st /\ dm_store st' = dm_store st.
  Proof.
    unfold route. destruct e; try (intros H; inversion H; subst; auto).
    all: destruct (find_cli (dm_clients st) client 0) as [[i x]|] eqn:Ef; [|inversion H; subst; auto].
    all: destruct (find_cli_spec _ _ _ _ _ Ef) as (j & -> & Hn & Hc); cbn [Nat.add] in *.
    - inversion H; subst. unfold ids; cbn [dm_clients dm_devs dm_seq dm_store]. repeat split; auto.
      apply (upd_nth_same cid _ j x); auto.
    - inversion H; subst. unfold ids; cbn [dm_clients dm_devs dm_seq dm_store]. repeat split; auto.
      apply (upd_nth_same cid _ j x); auto.
    - destruct (act_finish _ _ _ _ _) as [c| | | |] eqn:Ea; try discriminate.
      inversion H; subst. unfold ids; cbn [dm_clients dm_devs dm_seq dm_store]. repeat split; auto.
      apply (upd_nth_same cid _ j x); auto. unfold cid. cbn. now apply act_finish_id in Ea.
  Qed.

  Lemma route_all_ids evs : forall st st', route_all ranged_sorted st evs = Ok st' ->
    ids st' = ids st /\ dm_devs st' = dm_devs st /\ dm_seq st' = dm_seq st /\ dm_store st' = dm_store st.
  Proof.
    induction evs as [|e r IH]; intros st st' H; cbn in H; [inversion H; auto|].
    destruct (route ranged_sorted st e) as [st1| | | |] eqn:E1; try discriminate.
    apply route_ids in E1. apply IH in H. destruct E1 as (A1 & A2 & A3 & A4), H as (B1 & B2 & B3 & B4).
    repeat split; congruence.
  Qed.

  Lemma dev_loop_ids n : forall now st i pins tmo acc st' tmo' evs,
    dev_loop ranged_sorted rmatch compress short_circuit n now st i pins tmo acc = Ok (st', tmo', evs) ->
    ids st' = ids st /\ dm_seq st' = dm_seq st /\ closes evs = closes acc /\ accepts evs = accepts acc.
  Proof.
    induction n as [|n IH]; intros now st i pins tmo acc st' tmo' evs; cbn [dev_loop]; [intros H; inversion H; auto|].
    destruct (nth_error (dm_devs st) i) as [d|]; [|intros H; inversion H; auto].
    match goal with |- context [with_pre ?a ?b ?c] => destruct (with_pre a b c) as [pin t1] end.
    destruct (post_poll_one _ _ _ _ _ _ _ _) as [[[[d' store'] tmo1] evs1]| | | |]; try discriminate.
    match goal with |- match route_all _ ?s _ with _ => _ end = _ -> _ => destruct (route_all ranged_sorted s evs1) as [st2| | | |] eqn:Er; try discriminate end.
    intros H. apply IH in H. apply route_all_ids in Er. cbn [dm_clients dm_seq] in Er. unfold ids in *. cbn [dm_clients] in Er.
    destruct Er as (A1 & _ & A3 & _), H as (B1 & B2 & B3 & B4).
    repeat split; try congruence.
    - rewrite B3, closes_app. assert (closes (map (SysDev i) evs1) = []) by (clear; induction evs1; cbn; auto). rewrite H. now rewrite app_nil_r.
    - rewrite B4, accepts_app. assert (accepts (map (SysDev i) evs1) = []) by (clear; induction evs1; cbn; auto). rewrite H. now rewrite app_nil_r.
  Qed.

  Lemma pad_cins_length n : forall l, length (pad_cins n l) = n.
  Proof. induction n as [|n IH]; intros [|c l]; cbn; auto. Qed.

  (* one pass: the live client records afterwards are those before, plus the accepted one, minus the closed ones *)
  Theorem dstep_ledger st r st' o :
    dstep expand_str ranged_sorted ranged_plain sorted rmatch compress short_circuit st r = Ok (st', o) ->
    Permutation (ids st ++ accepts (do_evs o)) (closes (do_evs o) ++ ids st') /\
    incl (closes (do_evs o)) (ids st ++ accepts (do_evs o)) /\
    accepts (do_evs o) = (if r_accept r then [fst (next_id (dm_seq st))] else []) /\
    dm_seq st' = (if r_accept r then snd (next_id (dm_seq st)) else dm_seq st).
  Proof.
    unfold dstep, cli_post_poll.
    set (st1 := if r_accept r then _ else _).
    assert (Hst1 : ids (fst st1) = ids st ++ (if r_accept r then [fst (next_id (dm_seq st))] else []) /\
                   accepts (snd st1) = (if r_accept r then [fst (next_id (dm_seq st))] else []) /\ closes (snd st1) = [] /\
                   dm_seq (fst st1) = (if r_accept r then snd (next_id (dm_seq st)) else dm_seq st)).
    { unfold st1. destruct (r_accept r).
      - destruct (next_id (dm_seq st)) as [id seq'] eqn:En. cbn. unfold ids. cbn [dm_clients]. rewrite map_app. cbn. auto.
      - cbn. rewrite app_nil_r. auto. }
    destruct st1 as [sta e1]. cbn [fst snd] in Hst1. destruct Hst1 as (Hi1 & Ha1 & Hc1 & Hs1).
    destruct (cli_loop _ _ _ _ sta 0 _ e1) as [[stb e2]| | | |] eqn:El; try discriminate.
    pose proof El as El0.
    apply cli_loop_ids in El; [|rewrite pad_cins_length; lia|lia].
    destruct El as (closed & Hc & Ha & Hin & _ & Hp). cbn [skipn] in *.
    destruct (dev_loop _ _ _ _ _ _ stb 0 _ None []) as [[[stc tmo] e3]| | | |] eqn:Ed; try discriminate.
    apply dev_loop_ids in Ed. destruct Ed as (D1 & D2 & D3 & D4). cbn in D3, D4.
    intros H; inversion H; subst. cbn [do_evs].
    rewrite closes_app, accepts_app, D3, D4, !app_nil_r, Hc, Ha, Hc1, Ha1. cbn [app].
    rewrite D1. rewrite <- Hi1.
    split; [exact Hp|]. split; [exact Hin|]. split; [reflexivity|].
    rewrite D2. cbn [dm_seq]. rewrite (cli_loop_seq _ _ _ _ _ _ El0). exact Hs1.
  Qed.

  (* ---- every history of passes ---- *)
  Definition all_evs (outs : list dout) : list sysev := flat_map do_evs outs.
  Lemma all_evs_app a b : all_evs (a ++ b) = all_evs a ++ all_evs b. Proof. unfold all_evs. now rewrite flat_map_app. Qed.

  Definition INT_MAX : Z := 2147483647.
  (* the ledger invariant: ids closed so far and ids live now are pairwise different and below the sequence number *)
  Definition LInv (closed_so_far : list Z) (st : daemon) : Prop :=
    NoDup (closed_so_far ++ ids st) /\ Forall (fun id => 1 <= id < dm_seq st) (closed_so_far ++ ids st) /\ 1 <= dm_seq st.

  Lemma dstep_LInv cl st r st' o :
    dstep expand_str ranged_sorted ranged_plain sorted rmatch compress short_circuit st r = Ok (st', o) ->
    dm_seq st < INT_MAX -> LInv cl st -> LInv (cl ++ closes (do_evs o)) st' /\ dm_seq st' <= dm_seq st + 1.
  Proof.
    intros H Hs (Hnd & Hlt & H1). apply dstep_ledger in H. destruct H as (Hp & Hin & Ha & Hseq).
    unfold next_id in *. fold INT_MAX in *. destruct (dm_seq st <? INT_MAX) eqn:E; [|apply Z.ltb_ge in E; lia].
    cbn [fst snd] in *.
    assert (Hperm : Permutation (cl ++ ids st ++ accepts (do_evs o)) ((cl ++ closes (do_evs o)) ++ ids st')).
    { rewrite <- app_assoc. apply Permutation_app_head. exact Hp. }
    destruct (r_accept r).
    - rewrite Ha in *. rewrite Hseq. split; [|lia]. repeat split; try lia.
      + eapply Permutation_NoDup; [exact Hperm|]. rewrite app_assoc. apply NoDup_app_single_fresh; auto.
        intros Hin'. rewrite Forall_forall in Hlt. apply Hlt in Hin'. lia.
      + eapply Permutation_Forall; [exact Hperm|]. rewrite app_assoc. apply Forall_app. split.
        * eapply Forall_impl; [|exact Hlt]. cbn. intros; lia.
        * constructor; [lia|constructor].
    - rewrite Ha in *. rewrite app_nil_r in *. rewrite Hseq. split; [|lia]. repeat split; auto.
      + eapply Permutation_NoDup; [exact Hperm|exact Hnd].
      + eapply Permutation_Forall; [exact Hperm|]. rewrite Hseq. exact Hlt.
      + lia.
  Qed.

  Theorem drun_ledger : forall rs st acc st' outs cl,
    drun expand_str ranged_sorted ranged_plain sorted rmatch compress short_circuit st rs acc = Ok (st', outs) ->
    dm_seq st + Z.of_nat (length rs) <= INT_MAX -> LInv cl st ->
    exists new, outs = acc ++ new /\ LInv (cl ++ closes (all_evs new)) st' /\
      Permutation (ids st ++ accepts (all_evs new)) (closes (all_evs new) ++ ids st').
  Proof.
    induction rs as [|r rs IH]; intros st acc st' outs cl; cbn [drun].
    - intros H _ Hi; inversion H; subst. exists []. cbn. rewrite !app_nil_r. auto.
    - destruct (dstep _ _ _ _ _ _ _ st r) as [[st1 o]| | | |] eqn:Es; try discriminate.
      intros H Hs Hi. cbn [length] in Hs.
      pose proof (dstep_ledger _ _ _ _ Es) as (Hp1 & _).
      destruct (dstep_LInv cl _ _ _ _ Es ltac:(lia) Hi) as [Hi1 Hs1].
      apply IH with (cl := cl ++ closes (do_evs o)) in H; [|lia|exact Hi1].
      destruct H as (new & -> & Hi2 & Hp2).
      exists (o :: new). split; [now rewrite <- app_assoc|].
      change (o :: new) with ([o] ++ new). rewrite all_evs_app, closes_app, accepts_app.
      assert (Ho : all_evs [o] = do_evs o) by (unfold all_evs; cbn; now rewrite app_nil_r). rewrite Ho.
      split; [now rewrite app_assoc|].
      rewrite app_assoc. eapply Permutation_trans; [apply Permutation_app_tail; exact Hp1|].
      rewrite <- !app_assoc. apply Permutation_app_head. exact Hp2.
  Qed.

  (* from start-up (no client yet, sequence number 1): the corollaries C20 asks for *)
  Definition started (st : daemon) : Prop := dm_clients st = [] /\ dm_seq st = 1.

  Corollary client_descriptors_balanced st rs st' outs :
    started st -> Z.of_nat (length rs) < INT_MAX ->
    drun expand_str ranged_sorted ranged_plain sorted rmatch compress short_circuit st rs [] = Ok (st', outs) ->
    let ev := all_evs outs in
    Permutation (accepts ev) (closes ev ++ ids st')       (* every accepted descriptor is either closed or held by a live client *)
    /\ NoDup (closes ev)                                   (* none is closed twice *)
    /\ NoDup (ids st')                                     (* no two live clients share an id *)
    /\ (forall id, In id (closes ev) -> ~ In id (ids st')). (* a closed descriptor belongs to no live client *)
  Proof.
    intros [Hc Hs] Hn H.
    apply drun_ledger with (cl := []) in H; [|rewrite Hs; lia|].
    - destruct H as (new & -> & (Hnd & _ & _) & Hp). cbn [app] in *. unfold ids at 1 in Hp. rewrite Hc in Hp. cbn in Hp.
      split; [exact Hp|]. split; [eapply NoDup_app_l; exact Hnd|]. split; [eapply NoDup_app_r; exact Hnd|].
      intros id Hi1 Hi2. revert Hi1 Hi2. clear - Hnd. induction (closes (all_evs new)) as [|a l IH]; cbn; [tauto|].
      inversion Hnd as [|? ? Hna Hnd']; subst. intros [->|Hi1] Hi2; [apply Hna; apply in_or_app; now right|now apply IH].
    - unfold LInv, ids. rewrite Hc, Hs. cbn. repeat split; try constructor; lia.
  Qed.
End L.
