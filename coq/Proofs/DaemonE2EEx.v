(* Non-vacuity of Proofs/DaemonE2E.v (C02_end_to_end, C03_end_to_end): a daemon with one coprocess device d0 (plug p1 = node n1;
   scripts login / on / status, time-out 5 s) whose peer answers, a regex oracle that recognises the three patterns of those
   scripts, and three histories:
     power_rounds   client 1 connects, sends `on n1`, the device logs in and answers `done`: in the fifth pass the completion
                    event EvComplete 1 ACT_ESUCCESS is delivered, the ledger of id 1 goes from (1,0,0) to (1,1,0) and the client's
                    stream gains `102 Command completed successfully` and the prompt;
     fail_rounds    the same request against a silent device: the login action times out at 7 s and the client's action is
                    completed with the login time-out: ledger (1,0,1), the stream gains the 308 line, `210` and the prompt;
     query_rounds   `status n1`, the device answers `on`: ledger (1,1,0), `302 on: n1`, ..., `103 Query complete`, and the write
                    ledger of result list 0 holds n1. *)
From Coq Require Import List NArith ZArith Bool Lia.
From PM Require Import Base.Bytes Base.Outcome Gen.GenConsts Model.ScriptAst Model.Enqueue Model.Script Model.Device Model.DevHarness
                       Model.Client Model.CliWorld Model.Daemon Spec.Proto Proofs.DeviceInv Proofs.DeviceStmt Proofs.DeviceFuel Proofs.DeviceHang
                       Proofs.DaemonLedger Proofs.DaemonPending Proofs.DaemonE2E.
From PM Require Properties.C07.
Import ListNotations.
Local Open Scope Z_scope.

(* the regex oracle: `(on|off)` with its group, every other pattern as a literal prefix *)
Definition e2e_rm : text -> text -> option pmatch := fun re s =>
  if text_eqb re (bslit "(on|off)") then
    (if is_prefix (bslit "on") s then Some [Some (O, 2%nat); Some (O, 2%nat)]
     else if is_prefix (bslit "off") s then Some [Some (O, 3%nat); Some (O, 3%nat)] else None)
  else if is_prefix re s then Some [Some (O, length re)] else None.
Definition e2e_scripts : list (Z * list stmt) :=
  [(PM_LOG_IN, [Send (bslit "login\n"); Expect (bslit "ok")]);
   (PM_POWER_ON, [Send (bslit "on %s\n"); Expect (bslit "done")]);
   (PM_STATUS_PLUGS, [Send (bslit "st %s\n"); Expect (bslit "(on|off)"); SetPlugState None (-1) 1 [(ST_ON, bslit "on"); (ST_OFF, bslit "off")]])].
Definition e2e_dev : device := mk_device (bslit "d0") [mkPlug (bslit "p1") (Some (bslit "n1"))] e2e_scripts 5000000 0.
Definition e2e_st : daemon := mkDaemon [bslit "n1"] [] [bslit "spec"] [true] [e2e_dev] [] 1 [] (bslit "2.4") [Telnet.telnet_init].

Lemma e2e_cfg_ok : cfg_ok C07.ex_compress e2e_dev.
Proof.
  split; [eexists; reflexivity|]. intros i s H.
  cbn [dv_scripts e2e_dev mk_device assoc_script e2e_scripts] in H.
  destruct (Z.eqb i PM_LOG_IN); [injection H as <-|destruct (Z.eqb i PM_POWER_ON); [injection H as <-|destruct (Z.eqb i PM_STATUS_PLUGS); [injection H as <-|discriminate H]]];
    (split; [discriminate|]); repeat (constructor; try exact Logic.I); cbn [wf_stmt]; intros ps _; eexists; vm_compute; reflexivity.
Qed.
Lemma e2e_boot : boot C07.ex_compress e2e_st.
Proof.
  split; [reflexivity|]. split; [reflexivity|]. constructor; [|constructor].
  destruct (mk_device_invH C07.ex_compress (bslit "d0") [mkPlug (bslit "p1") (Some (bslit "n1"))] e2e_scripts 5000000 0 e2e_cfg_ok ltac:(apply nest_b_ok; reflexivity)) as [H1 H2].
  split; [exact H1|]. split; [exact H2|]. split; reflexivity.
Qed.
Definition e2e_expand (t : text) : option (list text) := Some [t].
Definition e2e_join (l : list text) : text := concat l.
Definition pin_rd (b : text) : passin := mkPassin false false false false true (Some b) None true [] None.
Definition pin_wr (n : nat) : passin := mkPassin false false false true false None (Some n) true [] None.
Definition line_in (l : text) : cin := mkCin false true false (Some (l ++ [LF])) None.
Definition r_none : round := mkRound 0 false [] [].

Definition power_rounds : list round :=
  [ mkRound 1000000 true [] [pin_wr 100];
    mkRound 1100000 false [line_in (bslit "on n1")] [pin_rd (bslit "ok")];
    mkRound 1200000 false [] [pin_wr 100];
    mkRound 1300000 false [] [pin_rd (bslit "done")];
    mkRound 1400000 false [] [pin_wr 100] ].
Definition fail_rounds : list round :=
  [ mkRound 1000000 true [] [];
    mkRound 1100000 false [line_in (bslit "on n1")] [];
    mkRound 1200000 false [] [];
    mkRound 7000000 false [] [] ].
Definition query_rounds : list round :=
  [ mkRound 1000000 true [] [pin_wr 100];
    mkRound 1100000 false [line_in (bslit "status n1")] [pin_rd (bslit "ok")];
    mkRound 1200000 false [] [pin_wr 100];
    mkRound 1300000 false [] [pin_rd (bslit "on")];
    mkRound 1400000 false [] [pin_wr 100] ].

Notation erun := (drun e2e_expand e2e_join e2e_join (fun l => l) e2e_rm C07.ex_compress false).
Notation estep := (dstep e2e_expand e2e_join e2e_join (fun l => l) e2e_rm C07.ex_compress false).
Notation ecpp := (cli_post_poll e2e_expand e2e_join e2e_join (fun l => l)).
Notation eled := (drun_led e2e_expand e2e_join e2e_join (fun l => l) e2e_rm C07.ex_compress false).
Notation esled := (dstep_led e2e_expand e2e_join e2e_join (fun l => l) e2e_rm C07.ex_compress false).
Notation ewr := (drun_wr e2e_expand e2e_join e2e_join (fun l => l) e2e_rm C07.ex_compress false).
Notation eswr := (dstep_wr e2e_expand e2e_join e2e_join (fun l => l) e2e_rm C07.ex_compress false).

(* the last pass of a history: (the clients when the callback half begins, the clients when the pass ends, the events of
   the pass, the ledger entry of id 1 before and after the pass, the store and the write ledger of list 0 after the pass) *)
Definition last_pass (rs : list round) :=
  match dinit e2e_st 1000000 [[ConnNow; ConnNow; ConnNow]] with
  | Ok (st1, _) =>
    let pre := removelast rs in let r := last rs r_none in
    match erun st1 pre [] with
    | Ok (st, _) =>
      match ecpp st r, estep st r with
      | Ok (sta, _), Ok (stb, o) =>
          Some (map (fun x => (cid x, option_map k_com (cl_cmd (dc x)), cl_out (dc x))) (dm_clients sta),
                map (fun x => (cid x, option_map k_com (cl_cmd (dc x)), cl_out (dc x))) (dm_clients stb),
                do_evs o, eled st1 pre lzero 1, esled st r (eled st1 pre lzero) 1,
                dm_store stb, eswr st r (ewr st1 pre (winit (dm_store st1))) O)
      | _, _ => None
      end
    | _ => None
    end
  | _ => None
  end.

Definition banner : text := render [TLine 1 (bslit "2.4"); TPrompt].

Lemma power_example :
  last_pass power_rounds =
  Some ([(1, Some PM_POWER_ON, banner)],
        [(1, None, banner ++ render [TLine 102 (bslit "Command completed successfully"); TPrompt])],
        [SysDev 0 (EvWrote (bslit "on p1\n")); SysDev 0 (EvMatched 4); SysDev 0 (EvComplete 1 ACT_ESUCCESS [])],
        mkL 1 0 0, mkL 1 1 0,
        [[mkArg (bslit "n1") ST_UNKNOWN RT_NONE None]], []).
Proof. vm_compute. reflexivity. Qed.

Lemma fail_example :
  last_pass fail_rounds =
  Some ([(1, Some PM_POWER_ON, banner)],
        [(1, None, banner ++ render [TLine 308 (bslit "d0: login timeout"); TLine 210 (bslit "Command completed with errors"); TPrompt])],
        [SysDev 0 (EvComplete 1 ACT_ELOGINTIMEOUT (bslit "d0: login timeout")); SysDev 0 EvDisconnect; SysDev 0 EvConnect],
        mkL 1 0 0, mkL 1 0 1,
        [[mkArg (bslit "n1") ST_UNKNOWN RT_NONE None]], []).
Proof. vm_compute. reflexivity. Qed.

Lemma query_example :
  last_pass query_rounds =
  Some ([(1, Some PM_STATUS_PLUGS, banner)],
        [(1, None, banner ++ render [TLine 302 (bslit "on:      n1"); TLine 302 (bslit "off:     "); TLine 302 (bslit "unknown: ");
                                     TLine 103 (bslit "Query complete"); TPrompt])],
        [SysDev 0 (EvWrote (bslit "st p1\n")); SysDev 0 (EvMatched 2); SysDev 0 (EvComplete 1 ACT_ESUCCESS [])],
        mkL 1 0 0, mkL 1 1 0,
        [[mkArg (bslit "n1") ST_ON RT_NONE (Some (bslit "on"))]], [bslit "n1"]).
Proof. vm_compute. reflexivity. Qed.
