(* C12, trace level: the back-off between consecutive connect attempts of one device, as an induction over op lists.
   [conn_clocks k now ops outs] = the clock values (h_now) of the operations whose output contains a connect attempt of device k.
   [chain last rc ts]           = every attempt in ts came no earlier than the previous one + backoff(attempts counted so far).
   Over any stretch of operations in which nothing is enqueued on device k (a client request on a not-connected device resets the
   count: that is the documented way to expedite a reconnect), from any state satisfying the invariant. *)
From Coq Require Import List NArith ZArith Bool Lia.
From PM Require Import Base.Bytes Base.Outcome Base.Dec Gen.GenConsts Gen.GenCbuf Model.ScriptAst Model.Enqueue Model.Script Model.Device
  Model.DevHarness Proofs.DeviceProofs Proofs.DeviceStmt Proofs.DeviceInv Proofs.DeviceRun Proofs.DeviceTimer Proofs.DeviceLocal.
Import ListNotations.
Local Open Scope Z_scope.

Fixpoint chain (last rc : Z) (ts : list Z) : Prop :=
  match ts with
  | [] => True
  | t :: r => (rc <= 0 \/ last + backoff rc <= t) /\ chain t (rc + 1) r
  end.

(* consecutive attempts are at least backoff(count) >= 1 s apart *)
Lemma chain_spacing : forall ts last rc, 0 <= rc -> chain last rc ts ->
  forall i t1 t2, nth_error ts i = Some t1 -> nth_error ts (S i) = Some t2 ->
    t1 + backoff (rc + 1 + Z.of_nat i) <= t2 /\ 1000000 <= t2 - t1.
Proof.
  induction ts as [|t r IH]; intros last rc Hrc Hc i t1 t2 H1 H2; [destruct i; discriminate|].
  destruct Hc as [_ Hc]. destruct i as [|i]; cbn [nth_error] in H1, H2.
  - injection H1 as <-. destruct r as [|t' r']; [discriminate|]. cbn [nth_error] in H2. injection H2 as <-.
    destruct Hc as [[Hc|Hc] _]; [lia|]. rewrite Z.add_0_r. split; [exact Hc|]. pose proof (backoff_ge_1s (rc + 1)). lia.
  - destruct (IH t (rc + 1) ltac:(lia) Hc i t1 t2 H1 H2) as [A B]. split; [|exact B].
    replace (rc + 1 + Z.of_nat (S i)) with (rc + 1 + 1 + Z.of_nat i) by lia. exact A.
Qed.

Fixpoint conn_clocks (k : nat) (now : Z) (ops : list hop) (outs : list hout) : list Z :=
  match ops, outs with
  | op :: r, o :: ro =>
      (if Nat.eqb (nconn (evs_of k (o_evs o))) 0 then [] else [now])
      ++ conn_clocks k (match op with HNow t => t | _ => now end) r ro
  | _, _ => []
  end.

(* nothing is enqueued on the device with static description ed *)
Definition quiet (ed : edev) (op : hop) : Prop :=
  match op with HEnq com _ _ _ tgts => enqueue_dev ed com tgts = [] | _ => True end.

Section Backoff.
  Variable rmatch : text -> text -> option pmatch.
  Variable compress : list text -> text.
  Variable sc : bool.

  Lemma enq_devs_quiet com client tele args tgts : forall l l' n k d p,
    enq_devs l com client tele args tgts = Ok (l', n) -> nth_error l k = Some (d, p) -> enqueue_dev (edev_of d) com tgts = [] ->
    nth_error l' k = Some (d, p).
  Proof.
    induction l as [|[d0 p0] r IH]; intros l' n k d p; cbn [enq_devs]; [intros _ Hn; destruct k; discriminate Hn|].
    destruct (fold_left _ _ (Ok d0)) as [d1| | | |] eqn:F; try discriminate.
    destruct (enq_devs r com client tele args tgts) as [[r' m]| | | |] eqn:E; try discriminate.
    intros H; inversion H; subst. destruct k as [|k]; cbn [nth_error].
    - intros Hn Hq; inversion Hn; subst. rewrite Hq in *. cbn [fold_left] in F. inversion F; subst. reflexivity.
    - intros Hn Hq. exact (IH _ _ _ _ _ eq_refl Hn Hq).
  Qed.

  Lemma map_fst_nth (l l' : list (device * peer)) k d p : map fst l' = map fst l -> nth_error l k = Some (d, p) -> exists p', nth_error l' k = Some (d, p').
  Proof.
    revert l' k. induction l as [|x r IH]; intros [|y r'] k E Hn; try discriminate; [destruct k; discriminate|].
    cbn [map] in E. injection E as E1 E2. destruct k as [|k]; cbn [nth_error] in *.
    - inversion Hn; subst. destruct y as [d' p']. cbn [fst] in E1. subst. eauto.
    - eapply IH; eassumption.
  Qed.

  Theorem backoff_trace : forall ops h h' outs k d p,
    HInv compress h -> Forall valid_op ops -> Forall (quiet (edev_of d)) ops ->
    run rmatch compress sc h ops = Ok (h', outs) -> nth_error (h_devs h) k = Some (d, p) ->
    chain (dv_last_retry d) (dv_retry_count d) (conn_clocks k (h_now h) ops outs).
  Proof.
    induction ops as [|op r IH]; intros h h' outs k d p Hh Hv Hq; cbn [run].
    - intros E _. inversion E; subst. exact Logic.I.
    - inversion Hv as [|? ? Hv1 Hv2]; subst. inversion Hq as [|? ? Hq1 Hq2]; subst.
      pose proof (hstep_inv rmatch compress sc h op Hh Hv1) as HS.
      destruct (hstep rmatch compress sc h op) as [[h1 o]| | | |] eqn:E1; try discriminate.
      destruct (run rmatch compress sc h1 r) as [[h2 os]| | | |] eqn:E2; try discriminate.
      intros X Hn; inversion X; subst. cbn [conn_clocks].
      destruct HS as [Hh1 HK]. destruct (HK k d p Hn) as (d1 & p1 & Hn1 & (Sc & _)).
      assert (Hq2' : Forall (quiet (edev_of d1)) r) by (rewrite (edev_of_same _ _ Sc); exact Hq2).
      (* what this operation did to device k's retry bookkeeping and which clock the rest starts from *)
      assert (Hnow : h_now h1 = match op with HNow t => t | _ => h_now h end).
      { destruct op; cbn [hstep] in E1; try (inversion E1; subst; reflexivity).
        - destruct Hv1.
        - destruct (enq_devs _ _ _ _ _ _) as [[? ?]| | | |]; inversion E1; subst; reflexivity.
        - destruct (pass_devs _ _ _ _ _ _ _ _) as [[[[? ?] ?] ?]| | | |]; inversion E1; subst; reflexivity. }
      rewrite <- Hnow.
      assert (CR : conn_rel (h_now h) d d1 (evs_of k (o_evs o))).
      { destruct op as [t|i pl|i ok|i b|i| |nodes|com client tele args tgts|].
        1-5,7: (match type of E1 with hstep _ _ _ _ ?op0 = _ => destruct (other_ops_keep_devices rmatch compress sc h op0 Logic.I) as (hx & Ex & Em) end; rewrite E1 in Ex; inversion Ex; subst;
                destruct (map_fst_nth _ _ _ _ _ Em Hn) as (px & Hx); rewrite Hn1 in Hx; inversion Hx; subst; left; auto).
        - destruct Hv1.
        - cbn [hstep] in E1. destruct (enq_devs (h_devs h) com client tele args tgts) as [[l n]| | | |] eqn:Ee; try discriminate. inversion E1; subst.
          cbn [h_devs] in Hn1. rewrite (enq_devs_quiet _ _ _ _ _ _ _ _ _ _ _ Ee Hn Hq1) in Hn1. inversion Hn1; subst. left. auto.
        - pose proof (hpass_ok rmatch compress sc h Hh) as HP. rewrite E1 in HP. destruct HP as (_ & _ & K).
          destruct (K k d p Hn) as (dx & Hx & (_ & _ & _ & C & _)). rewrite Hn1 in Hx. inversion Hx; subst. exact C. }
      specialize (IH h1 _ os k d1 p1 Hh1 Hv2 Hq2' E2 Hn1).
      destruct CR as [(N & L & R)|(N & G & L & R)]; rewrite N; cbn [Nat.eqb app].
      + rewrite <- L, <- R. exact IH.
      + cbn [chain]. split; [exact G|]. rewrite <- L, <- R. exact IH.
  Qed.
End Backoff.
