(* C19: configurations outside the domain of the rules still get an answer and the prompt:
   F17 -- a target whose ancestor plug was never defined; F20 -- a target below a root that cannot be queried.
   Both proofs go through the repair facts of Gen/GenRfp.v (f_dangling_parent, fail_waiters_initial): on the unrepaired
   source these are None / false, the model then aborts (site_root_assert) resp. hangs (site_lost_waiter), and the
   proofs below no longer check. *)
From Coq Require Import List NArith ZArith Bool Lia.
From PM Require Import Base.Bytes Base.Outcome Gen.GenRfp Model.Redfish Spec.RedfishSpec Model.RedfishView
  Proofs.RedfishBase Proofs.RedfishSteps Proofs.RedfishMgmt Proofs.RedfishSingle Proofs.RedfishRules.
Import ListNotations.

Section WithHostlist.
Variable hlc : text -> option (list text).

Lemma find_root_of_root tab x pd : lookup tab x = Some pd -> p_parent pd = None -> find_root tab x = WFound x.
Proof. intros L P. unfold find_root. rewrite L. destruct (length tab); cbn [root_walk]; rewrite P; now rewrite (lookup_name _ _ _ L). Qed.

Lemma chain_parent tab x pd l : lookup tab x = Some pd -> chain tab x l ->
  match l with [] => p_parent pd = None | a :: _ => p_parent pd = Some a end.
Proof. intros L C. inversion C as [x0 pd0 L0 P0 | x0 pd0 par l0 L0 P0 C0]; subst; rewrite L in L0; inversion L0; subst; assumption. Qed.

(* F17: `setplugs a 0 nosuch` + `stat a` *)
Theorem dangling_ancestor_reported st ln sched w a rest c x :
  at_prompt st -> argv ln = w :: a :: rest -> cmd_of_word w = Some c -> hlc a = Some [x] -> cyclic (s_tab st) = false ->
  has_path st c x = true -> (forall r, find_root (s_tab st) x <> WFound r) ->
  exists st', run_line hlc st ln sched = Ok (st', false) /\ at_prompt st' /\ same_cfg st' st /\ s_tstat st' = s_tstat st /\ s_log st' = [] /\
              results st' = [(TResult x, x ++ bs ": ancestor plug not defined"%string ++ [LF])].
Proof.
  intros AP AV CW HL CY HP NR.
  destruct (has_path_get _ _ _ HP) as (pdx & lp & Lx & GP).
  assert (NV : name_valid (s_tab st) x = true) by (apply name_valid_lookup; eauto).
  unfold run_line. rewrite AV, (process_cmd_power _ _ _ _ _ CW). cbn [first_arg]. unfold power_cmd. rewrite HL.
  rewrite (at_prompt_St _ AP). stw. rewrite CY. cbn [fold_left]. unfold target_one. stw. rewrite NV.
  destruct (target_msg st (s_tstat st) [] c x pdx lp Lx GP) as [out1 [TM R1]]. rewrite TM.
  unfold queue_target. cbn [m_parent].
  destruct (p_parent pdx) as [par|] eqn:P; [|exfalso; apply (NR x); now apply (find_root_of_root _ _ pdx)].
  stw. cbn [app].
  assert (E1 : (if cmd_is_stat c then St st (s_tstat st) [] [mkMsg c (p_host pdx) x (Some par) true false] [] out1 []
                else phased_power_on_check (St st (s_tstat st) [] [mkMsg c (p_host pdx) x (Some par) true false] [] out1 []) c) =
               St st (s_tstat st) [] [mkMsg c (p_host pdx) x (Some par) true false] [] out1 []).
  { destruct (cmd_is_stat c); [reflexivity | apply phased_single]. }
  rewrite E1. clear E1.
  unfold send_initial_parent_queries, scan_fuel. stw. cbn [length Nat.mul Nat.add].
  rewrite sipq_S. stw. cbn [nth_error m_plug m_cmd m_out].
  destruct (find_root (s_tab st) x) as [r| |] eqn:FR; [exfalso; now apply (NR r) | |];
    unfold f_dangling_parent; cbv iota; stw; cbn [remove_nth]; rewrite sipq_S; stw; cbn [nth_error]; rewrite drain_done;
    (eexists; split; [reflexivity|]; split; [repeat split|]; split; [apply same_cfg_St|]; split; [reflexivity|]; split; [reflexivity|];
     unfold results; stw; rewrite res_app, R1; reflexivity).
Qed.

(* F20: the root above the target has no stat path: the query cannot be created, the target is failed at once *)
Theorem unqueryable_root_fails_waiter st ln sched w a rest c x root :
  at_prompt st -> argv ln = w :: a :: rest -> cmd_of_word w = Some c -> hlc a = Some [x] -> cyclic (s_tab st) = false ->
  has_path st c x = true -> find_root (s_tab st) x = WFound root -> root <> x -> has_path st CStat root = false ->
  exists st' pdx pdr, lookup (s_tab st) x = Some pdx /\ lookup (s_tab st) root = Some pdr /\
    run_line hlc st ln sched = Ok (st', false) /\ at_prompt st' /\ same_cfg st' st /\ s_tstat st' = s_tstat st /\ s_log st' = [] /\
    results st' = [(TResult x, blocked_line (tmsg c x pdx) pdr SErr)] /\
    In (TDiag, root ++ bs ": stat path not set"%string ++ [LF]) (s_out st').
Proof.
  intros AP AV CW HL CY HP FR NE NP.
  destruct (has_path_get _ _ _ HP) as (pdx & lp & Lx & GP).
  assert (NV : name_valid (s_tab st) x = true) by (apply name_valid_lookup; eauto).
  destruct (find_root_chain _ _ _ FR) as (pdx' & l & Lx' & Ch & Len & LAST). rewrite Lx in Lx'. inversion Lx'; subst pdx'.
  assert (NEl : l <> []) by (intros ->; cbn in LAST; congruence).
  assert (Iroot : In root l).
  { rewrite (app_removelast_last root NEl). apply in_or_app. right. left. rewrite <- LAST. now apply last_default. }
  destruct (chain_in_chain _ _ _ _ Ch Iroot) as (l1' & l2' & _ & _ & Croot). destruct (chain_lookup _ _ _ Croot) as [pdr Lr].
  assert (GPr : get_path st CStat pdr = None).
  { unfold has_path in NP. rewrite Lr in NP. destruct (get_path st CStat pdr); [discriminate | reflexivity]. }
  assert (D : is_desc (s_tab st) x root = true) by (now apply (is_desc_chain _ _ _ _ Ch Len)).
  pose proof (chain_parent _ _ _ _ Lx Ch) as PH.
  destruct l as [|a0 l']; [congruence|].
  assert (RL : exists out', run_line hlc st ln sched = Ok (St st (s_tstat st) [] [] [] out' [], false) /\
                            res out' = [(TResult x, blocked_line (tmsg c x pdx) pdr SErr)] /\
                            In (TDiag, root ++ bs ": stat path not set"%string ++ [LF]) out').
  2:{ destruct RL as (out' & RL & RS & ID). eexists. exists pdx, pdr. split; [exact Lx|]. split; [exact Lr|]. split; [exact RL|].
      split; [repeat split|]. split; [apply same_cfg_St|]. split; [reflexivity|]. split; [reflexivity|]. split; [exact RS | exact ID]. }
  unfold run_line. rewrite AV, (process_cmd_power _ _ _ _ _ CW). cbn [first_arg]. unfold power_cmd. rewrite HL.
  rewrite (at_prompt_St _ AP). stw. rewrite CY. cbn [fold_left]. unfold target_one. stw. rewrite NV.
  destruct (target_msg st (s_tstat st) [] c x pdx lp Lx GP) as [out1 [TM R1]]. rewrite TM.
  unfold queue_target. cbn [m_parent]. unfold tmsg. rewrite PH. stw. cbn [app].
  assert (E1 : (if cmd_is_stat c then St st (s_tstat st) [] [mkMsg c (p_host pdx) x (Some a0) true false] [] out1 []
                else phased_power_on_check (St st (s_tstat st) [] [mkMsg c (p_host pdx) x (Some a0) true false] [] out1 []) c) =
               St st (s_tstat st) [] [mkMsg c (p_host pdx) x (Some a0) true false] [] out1 []).
  { destruct (cmd_is_stat c); [reflexivity | apply phased_single]. }
  rewrite E1. clear E1.
  unfold send_initial_parent_queries, scan_fuel. stw. cbn [length Nat.mul Nat.add].
  rewrite sipq_S. stw. cbn [nth_error m_plug m_cmd]. rewrite FR.
  change (plugname_active [] root c) with false. cbv iota.
  unfold stat_cmd_plug. stw. rewrite Lr. stw. rewrite GPr. stw.
  change fail_waiters_initial with true. cbv iota.          (* the F20 repair: without it the waiter stays, nothing is active *)
  rewrite (pw_blocked st (s_tstat st) [] (mkMsg c (p_host pdx) x (Some a0) true false) [] _ [] root SErr pdr D eq_refl eq_refl Lr).
  rewrite sipq_S. stw. cbn [nth_error]. rewrite drain_done.
  eexists. split; [reflexivity|]. split.
  - rewrite !res_app, R1. reflexivity.
  - apply in_or_app. left. apply in_or_app. right. left. reflexivity.
Qed.

End WithHostlist.
