(* C16: the statements of Properties/C16.v, assembled *)
From Coq Require Import List NArith ZArith Bool Lia.
From PM Require Import Base.Bytes Base.Outcome Gen.GenConsts Gen.GenLibPm Model.LibPm Spec.ReplySpec
  Proofs.LibPmBase Proofs.LibPmRecv Proofs.LibPmReply Proofs.LibPmSession Proofs.LibPmCli Proofs.LibPmCliConf.
Import ListNotations.
Local Open Scope Z_scope.

(* a reply (conforming or not) written as CRLF-terminated lines + prompt, cut into non-empty reads *)
Definition segmentation_of (chunks : list text) (s : text) : Prop := nonempty_chunks chunks /\ concat chunks = s.

Lemma main_total chunks :
  exists err resp rest, recv chunks = Ok (err, resp, rest) /\
    ((err = PM_ESERVEREOF /\ resp = []) \/
     (exists consumed, ends_with consumed CP_PROMPT /\ consumed ++ concat rest = concat chunks /\
        err = retcode (parse_response consumed) /\ resp = (if err =? PM_ESUCCESS then parse_response consumed else []))).
Proof.
  destruct (recv_total chunks) as (err & resp & rest & H & P). exists err, resp, rest. split; [exact H|].
  destruct P as [P|(consumed & P1 & P2 & P3)]; [left; exact P|right]. exists consumed. unfold finish_recv in P3. inversion P3; subst. auto.
Qed.

Lemma main_total_session ops chunks :
  snd (run_session ops chunks) = None /\ length (fst (run_session ops chunks)) = length ops.
Proof. apply run_ops_ok. Qed.

Lemma main_segmentation c1 c2 : nonempty_chunks c1 -> nonempty_chunks c2 -> concat c1 = concat c2 ->
  prompt_only_at_end (concat c1) -> recv c1 = recv c2.
Proof. intros N1 N2 E H. rewrite (recv_seg c1 N1 H). rewrite E in H. rewrite (recv_seg c2 N2 H), E. reflexivity. Qed.

Lemma main_success_sound chunks resp rest : recv chunks = Ok (PM_ESUCCESS, resp, rest) ->
  exists consumed raw a b line c,
    consumed ++ concat rest = concat chunks /\ consumed = a ++ raw ++ b /\ ends_with raw CP_EOL /\
    line = cstr raw /\ In line resp /\ sscanf_d line = Some c /\ success_code c.
Proof.
  intros H. destruct (main_total chunks) as (err & resp' & rest' & H' & P). rewrite H in H'. inversion H'; subst err resp' rest'.
  destruct P as [[P _]|(consumed & P1 & P2 & P3 & P4)]; [discriminate|].
  symmetry in P3. rewrite Z.eqb_refl in P4. subst resp.
  destruct (retcode_success_sound _ P3) as (line & c & I & S & SC).
  destruct (parse_response_sub _ _ I) as (raw & a & b & E1 & E2 & E3).
  exists consumed, raw, a, b, line, c. rewrite eol_is_crlf. auto 10.
Qed.

Lemma reply_ends_prompt ls : ends_prompt (reply_bytes ls) = true.
Proof. apply ends_prompt_spec. unfold reply_bytes. eexists. reflexivity. Qed.

Lemma conforming_no_crlf r : conforming r -> Forall no_crlf (reply_lines r).
Proof.
  intros (HI & HT & _). unfold reply_lines. apply Forall_app. split.
  - apply Forall_map. eapply Forall_impl; [|exact HI]. intros l [W _]. apply clean_no_crlf, render_clean, W.
  - constructor; [|constructor]. apply clean_no_crlf, render_clean, HT.
Qed.

Lemma conforming_no_nul r : conforming r -> Forall no_nul (reply_lines r).
Proof.
  intros (HI & HT & _). unfold reply_lines. apply Forall_app. split.
  - apply Forall_map. eapply Forall_impl; [|exact HI]. intros l [W _]. apply clean_no_nul, render_clean, W.
  - constructor; [|constructor]. apply clean_no_nul, render_clean, HT.
Qed.

(* the lines recv hands to its callers for a reply, last line first, as C strings *)
Definition resp_of (r : reply) : list text := rev (map (fun l => cstr (l ++ CP_EOL)) (reply_lines r)).

Lemma recv_conforming r chunks : conforming r -> segmentation_of chunks (reply_stream r) -> prompt_only_at_end (reply_stream r) ->
  recv chunks = Ok (retcode (resp_of r), (if retcode (resp_of r) =? PM_ESUCCESS then resp_of r else []), []).
Proof.
  intros C [NE E] P. rewrite recv_seg by (rewrite ?E; auto). rewrite E. unfold recv_stream, reply_stream.
  rewrite reply_ends_prompt. unfold finish_recv. rewrite parse_response_reply by (apply conforming_no_crlf, C). reflexivity.
Qed.

Lemma main_error_exact r chunks : conforming r -> In (rl_code (rp_term r)) server_codes ->
  segmentation_of chunks (reply_stream r) -> prompt_only_at_end (reply_stream r) ->
  exists resp, recv chunks = Ok (spec_rc (rl_code (rp_term r)), resp, []).
Proof.
  intros C S G P. rewrite (recv_conforming r chunks C G P).
  pose proof (retcode_conforming r C S) as R. unfold reply_stream in R. rewrite parse_response_reply in R by (apply conforming_no_crlf, C).
  fold (resp_of r) in R. rewrite R. eauto.
Qed.

(* a terminal code the library does not know is reported as PM_ESERVERPARSE, never as success *)
Lemma main_error_unknown r chunks : conforming r -> classify (rl_code (rp_term r)) = None ->
  segmentation_of chunks (reply_stream r) -> prompt_only_at_end (reply_stream r) ->
  recv chunks = Ok (PM_ESERVERPARSE, [], []).
Proof.
  intros C S G P. rewrite (recv_conforming r chunks C G P).
  assert (R : retcode (resp_of r) = retcode_default).
  { unfold resp_of. apply retcode_none. destruct C as (HI & HT & _). unfold reply_lines. rewrite map_app. apply Forall_app. split.
    - rewrite map_map. apply Forall_map. eapply Forall_impl; [|exact HI]. intros l [W I]. cbn beta.
      rewrite (classified_render l W). apply table_no_info, I.
    - cbn [map]. constructor; [|constructor]. rewrite (classified_render _ HT). exact S. }
  rewrite R. reflexivity.
Qed.

Lemma main_status_general node resp : zlen node + 11 < CP_LINEMAX ->
  let offl := status_line node (bs "off"%string) ++ CP_EOL in
  let onl := status_line node (bs "on"%string) ++ CP_EOL in
  (node_status node resp = PM_OFF <-> In offl resp) /\
  (node_status node resp = PM_ON <-> ~ In offl resp /\ In onl resp) /\
  (node_status node resp = PM_UNKNOWN <-> ~ In offl resp /\ ~ In onl resp).
Proof. apply node_status_spec. Qed.

Lemma main_status r chunks node : conforming r -> success_code (rl_code (rp_term r)) -> In (rl_code (rp_term r)) server_codes ->
  segmentation_of chunks (reply_stream r) -> prompt_only_at_end (reply_stream r) -> zlen node + 11 < CP_LINEMAX ->
  exists resp, recv chunks = Ok (PM_ESUCCESS, resp, []) /\
    node_status node resp = spec_status PM_OFF PM_ON PM_UNKNOWN node (reply_lines r).
Proof.
  intros C SC S G P L. rewrite (recv_conforming r chunks C G P).
  pose proof (retcode_conforming r C S) as R. unfold reply_stream in R. rewrite parse_response_reply in R by (apply conforming_no_crlf, C).
  fold (resp_of r) in R. rewrite R.
  assert (Z0 : spec_rc (rl_code (rp_term r)) = PM_ESUCCESS).
  { unfold spec_rc. replace (success_codeb (rl_code (rp_term r))) with true; [reflexivity|].
    symmetry. unfold success_codeb, success_code in *. rewrite orb_true_iff, andb_true_iff, Z.eqb_eq, !Z.leb_le. exact SC. }
  rewrite Z0, Z.eqb_refl. eexists. split; [reflexivity|].
  unfold resp_of. apply node_status_reply; [exact L|apply conforming_no_nul, C].
Qed.

Definition names_ok (r : reply) : Prop :=
  Forall (fun l => zlen (render_line l) + 2 < CP_LINEMAX /\ (rl_code l = 307 -> wf_name (rl_text l))) (rp_info r ++ [rp_term r]).

Lemma main_nodes r chunks : conforming r -> success_code (rl_code (rp_term r)) -> In (rl_code (rp_term r)) server_codes ->
  names_ok r -> segmentation_of chunks (reply_stream r) -> prompt_only_at_end (reply_stream r) ->
  exists resp, recv chunks = Ok (PM_ESUCCESS, resp, []) /\ node_iter resp = Ok (spec_nodes (rp_info r ++ [rp_term r])).
Proof.
  intros C SC S NO G P. rewrite (recv_conforming r chunks C G P).
  pose proof (retcode_conforming r C S) as R. unfold reply_stream in R. rewrite parse_response_reply in R by (apply conforming_no_crlf, C).
  fold (resp_of r) in R. rewrite R.
  assert (Z0 : spec_rc (rl_code (rp_term r)) = PM_ESUCCESS).
  { unfold spec_rc. replace (success_codeb (rl_code (rp_term r))) with true; [reflexivity|].
    symmetry. unfold success_codeb, success_code in *. rewrite orb_true_iff, andb_true_iff, Z.eqb_eq, !Z.leb_le. exact SC. }
  rewrite Z0, Z.eqb_refl. eexists. split; [reflexivity|].
  unfold resp_of, reply_lines.
  replace (map render_line (rp_info r) ++ [render_line (rp_term r)]) with (map render_line (rp_info r ++ [rp_term r])) by (rewrite map_app; reflexivity).
  apply nodes_reply. destruct C as (HI & HT & _). unfold names_ok in NO. rewrite Forall_forall in *. intros l I.
  destruct (NO l I) as [A B]. split; [|auto]. apply in_app_or in I as [I|[<-|[]]]; [apply (HI l I)|exact HT].
Qed.

(* every name the iterator yields comes from a line that starts with "307" (any reply, conforming or not) *)
Lemma main_nodes_sound resp l : node_iter resp = Ok l -> forall n, In n l -> exists line, In line resp /\ sscanf_s CP_INFO_XNODES line = Some n.
Proof.
  unfold node_iter. rewrite node_iter_go_spec, app_nil_r. intros H n I. inversion H; subst. apply in_rev in I.
  apply in_flat_map in I as (line & I1 & I2). exists line. split; [exact I1|].
  unfold line_nodes, line_node in I2. destruct (zlen line <? CP_LINEMAX); [|contradiction].
  destruct (sscanf_s CP_INFO_XNODES line); [|contradiction]. destruct I2 as [->|[]]. reflexivity.
Qed.

Lemma main_cli_total npre stream : exists r, cli npre stream = Ok r.
Proof. apply cli_total. Qed.

Lemma main_cli_exit npre stream r : cli npre stream = Ok r ->
  (c_status r = 0 <-> c_fatal r = None /\ c_terms r <> [] /\ Forall (fun k => cp_success k = true) (c_terms r)).
Proof. apply cli_exit_iff. Qed.

Lemma main_cli_conforming version pre main :
  wf_name version -> Forall cmd_reply pre -> Forall (fun r => cp_success (term_code r) = true) pre -> cmd_reply main ->
  exists r, cli (length pre) (session_stream version (pre ++ [main])) = Ok r /\
    c_fatal r = None /\
    c_stdout r = spec_output cli_suppress cli_stderr false (pre ++ [main]) /\
    diag_of (c_stderr r) = spec_output cli_suppress cli_stderr true (pre ++ [main]) /\
    c_terms r = map term_code (pre ++ [main]) /\
    (c_status r = 0 <-> success_code (term_code main)).
Proof. apply cli_conforming. Qed.
