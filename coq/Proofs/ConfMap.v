(* C13, part 1: the plug-table operations of pluglist.c (Model/Lexer.v: plug_find, plug_set, map_one, map_next,
   map_nodes_plugs, map_nodes_noplugs, add_nodes) against the rules of Spec/ConfSpec.v *)
From Coq Require Import List NArith ZArith Bool Lia Permutation.
From PM Require Import Base.Bytes Base.Outcome Gen.GenLex Model.Lexer Spec.ConfSpec.
Import ListNotations.

Ltac teq H := apply text_eqb_eq in H.
Ltac tneq H := apply text_eqb_neq in H.

Lemma nodup_app {A} (a b : list A) : NoDup a -> NoDup b -> (forall x, In x a -> ~ In x b) -> NoDup (a ++ b).
Proof.
  induction a as [|x a IH]; intros Na Nb D; [assumption|]. inversion Na; subst. cbn [app]. constructor.
  - intros I. apply in_app_or in I as [I|I]; [contradiction | apply (D x); [left; reflexivity | assumption]].
  - apply IH; [assumption | assumption | intros y I; apply D; right; assumption].
Qed.

(* ------------------------------------------------------------------ mem_text / add_nodes (conf_addnodes) *)
Lemma mem_text_in x l : mem_text x l = true <-> In x l.
Proof.
  induction l as [|y r IH]; cbn [mem_text In]; [split; [discriminate | intros []]|].
  rewrite orb_true_iff, IH, text_eqb_eq. split; intros [H|H]; auto.
Qed.

Lemma mem_text_not_in x l : mem_text x l = false <-> ~ In x l.
Proof. rewrite <- mem_text_in. destruct (mem_text x l); split; congruence. Qed.

Lemma add_nodes_spec : forall nodes have all, add_nodes have nodes = Some all ->
  all = have ++ nodes /\ NoDup nodes /\ (forall n, In n nodes -> ~ In n have).
Proof.
  induction nodes as [|n r IH]; intros have all H; cbn [add_nodes] in H.
  - inversion H; subst. rewrite app_nil_r. repeat split; [constructor | intros n []].
  - destruct (mem_text n have) eqn:M; [discriminate|]. apply mem_text_not_in in M.
    apply IH in H as (E & ND & D). subst all. rewrite <- app_assoc. cbn [app]. repeat split.
    + constructor; [|assumption]. intros I. apply (D n I). apply in_or_app. right; left; reflexivity.
    + intros x [<-|I]; [assumption|]. intros J. apply (D x I). apply in_or_app. left; assumption.
Qed.

Lemma add_nodes_complete : forall nodes have, NoDup nodes -> (forall n, In n nodes -> ~ In n have) ->
  add_nodes have nodes = Some (have ++ nodes).
Proof.
  induction nodes as [|n r IH]; intros have ND D; cbn [add_nodes]; [rewrite app_nil_r; reflexivity|].
  inversion ND; subst. destruct (mem_text n have) eqn:M.
  - apply mem_text_in in M. exfalso. apply (D n); [left; reflexivity | assumption].
  - rewrite IH; [rewrite <- app_assoc; reflexivity | assumption|].
    intros x I J. apply in_app_or in J as [J|[<-|[]]]; [apply (D x); [right; assumption | assumption] | contradiction].
Qed.

(* ------------------------------------------------------------------ assigned *)
Lemma assigned_cons e pl : assigned (e :: pl) = match snd e with Some n => [(n, fst e)] | None => [] end ++ assigned pl.
Proof. reflexivity. Qed.

Lemma assigned_app a b : assigned (a ++ b) = assigned a ++ assigned b.
Proof. unfold assigned. apply flat_map_app. Qed.

Lemma in_assigned n p pl : In (n, p) (assigned pl) <-> In (p, Some n) pl.
Proof.
  induction pl as [|[q v] r IH]; [split; intros []|].
  rewrite assigned_cons. cbn [fst snd]. rewrite in_app_iff, IH. destruct v as [m|]; cbn [In]; split.
  - intros [[E|[]]|H]; [inversion E; subst; left; reflexivity | right; assumption].
  - intros [E|H]; [inversion E; subst; left; left; reflexivity | right; assumption].
  - intros [[]|H]. right; assumption.
  - intros [E|H]; [discriminate | right; assumption].
Qed.

Lemma assigned_plugs_in pl : forall n p, In (n, p) (assigned pl) -> In p (map fst pl).
Proof. intros n p H. apply in_assigned in H. apply in_map_iff. exists (p, Some n). split; [reflexivity | assumption]. Qed.

(* ------------------------------------------------------------------ plug_find / plug_set *)
Lemma plug_find_none name pl : plug_find name pl = None <-> ~ In name (map fst pl).
Proof.
  induction pl as [|[p v] r IH]; cbn [plug_find map fst In]; [split; [intros _ [] | reflexivity]|].
  destruct (text_eqb p name) eqn:E.
  - teq E. split; [discriminate | intros H; exfalso; apply H; left; assumption].
  - tneq E. rewrite IH. split; [intros H [K|K]; contradiction | intros H K; apply H; right; assumption].
Qed.

Lemma plug_find_some name pl v : plug_find name pl = Some v -> In (name, v) pl.
Proof.
  induction pl as [|[p w] r IH]; cbn [plug_find]; [discriminate|].
  destruct (text_eqb p name) eqn:E; [teq E; intros H; inversion H; subst; left; reflexivity | intros H; right; apply IH; assumption].
Qed.

Lemma plug_find_nodup name pl v w : NoDup (map fst pl) -> plug_find name pl = Some v -> In (name, w) pl -> w = v.
Proof.
  induction pl as [|[p u] r IH]; cbn [plug_find map fst]; [discriminate|]. intros ND F I. inversion ND; subst.
  destruct (text_eqb p name) eqn:E.
  - teq E. subst p. inversion F; subst. destruct I as [I|I]; [inversion I; reflexivity|].
    exfalso. apply H1. apply in_map_iff. exists (name, w). split; [reflexivity | assumption].
  - tneq E. destruct I as [I|I]; [inversion I; contradiction | apply IH; assumption].
Qed.

Lemma plug_set_names name node pl : map fst (plug_set name node pl) = map fst pl.
Proof.
  induction pl as [|[p v] r IH]; [reflexivity|]. cbn [plug_set]. destruct (text_eqb p name); cbn [map fst]; [reflexivity | rewrite IH; reflexivity].
Qed.

Lemma plug_set_length name node pl : length (plug_set name node pl) = length pl.
Proof. rewrite <- (map_length fst), plug_set_names, map_length. reflexivity. Qed.

(* setting the node of a plug whose first entry is free adds exactly one pair *)
Lemma plug_set_assigned name node pl : plug_find name pl = Some None ->
  Permutation (assigned (plug_set name node pl)) ((node, name) :: assigned pl).
Proof.
  induction pl as [|[p v] r IH]; cbn [plug_find plug_set]; [discriminate|].
  destruct (text_eqb p name) eqn:E.
  - teq E. subst p. intros H. inversion H; subst. rewrite !assigned_cons. cbn [fst snd app]. apply Permutation_refl.
  - intros H. rewrite !assigned_cons. cbn [fst snd]. destruct v as [m|]; cbn [app].
    + eapply perm_trans; [apply perm_skip, IH, H | apply perm_swap].
    + apply IH, H.
Qed.

(* ------------------------------------------------------------------ map_one (_pluglist_map_one) *)
Definition all_assigned (pl : plugtab) : Prop := forall e, In e pl -> snd e <> None.

Lemma map_one_ok hard pl node name pl' : map_one hard pl node name = inr pl' ->
  Permutation (assigned pl') ((node, name) :: assigned pl) /\
  (NoDup (map fst pl) -> forall n, ~ In (name, Some n) pl) /\
  (In name (map fst pl) -> map fst pl' = map fst pl) /\
  (~ In name (map fst pl) -> hard = false /\ pl' = (name, Some node) :: pl) /\
  (NoDup (map fst pl) -> NoDup (map fst pl')) /\
  (all_assigned pl -> all_assigned pl') /\
  (hard = true -> map fst pl' = map fst pl).
Proof.
  unfold map_one. destruct (plug_find name pl) as [[m|]|] eqn:F.
  - discriminate.
  - intros H; inversion H; subst; clear H.
    assert (I : In name (map fst pl)).
    { apply plug_find_some in F. apply in_map_iff. exists (name, None). split; [reflexivity | assumption]. }
    split; [apply plug_set_assigned; assumption|].
    split. { intros D n K. pose proof (plug_find_nodup _ _ _ _ D F K). discriminate. }
    split; [intros _; apply plug_set_names|].
    split; [intros K; contradiction|].
    split; [rewrite plug_set_names; auto|].
    split.
    + intros A e Ie. exfalso. apply plug_find_some in F. apply (A _ F). reflexivity.
    + intros _. apply plug_set_names.
  - apply plug_find_none in F. destruct hard; [discriminate|]. intros H; inversion H; subst; clear H.
    split; [rewrite assigned_cons; cbn [fst snd app]; apply Permutation_refl|].
    split. { intros _ n K. apply F. apply in_map_iff. exists (name, Some n). split; [reflexivity | assumption]. }
    split; [intros K; contradiction|].
    split; [intros _; split; reflexivity|].
    split; [intros ND; cbn [map fst]; constructor; assumption|].
    split; [|discriminate].
    intros A e [<-|Ie]; [cbn [snd]; discriminate | apply A; assumption].
Qed.

(* ------------------------------------------------------------------ node line WITH a plug list: the zip rule *)
Lemma map_nodes_plugs_ok hard : forall nodes plugs pl pl', map_nodes_plugs hard pl nodes plugs = inr pl' ->
  length nodes = length plugs /\
  Permutation (assigned pl') (combine nodes plugs ++ assigned pl) /\
  (hard = true -> map fst pl' = map fst pl) /\
  (NoDup (map fst pl) -> NoDup (map fst pl')) /\
  (all_assigned pl -> all_assigned pl') /\
  (hard = true -> forall p, In p plugs -> In p (map fst pl)) /\
  (NoDup (map fst pl) -> NoDup plugs /\ forall p n, In p plugs -> ~ In (p, Some n) pl).
Proof.
  induction nodes as [|nd r IH]; intros plugs pl pl' H; cbn [map_nodes_plugs] in H.
  - destruct plugs; [|discriminate]. inversion H; subst.
    repeat split; auto using Permutation_refl; try (intros _ p []); try constructor.
  - destruct plugs as [|p pr]; [discriminate|].
    destruct (map_one hard pl nd p) as [e|pl1] eqn:M; [discriminate|].
    apply map_one_ok in M as (P1 & T1 & N1 & N1' & D1 & A1 & H1).
    apply IH in H as (L & P & Hh & D & A & U & T).
    split; [cbn [length]; congruence|].
    split. { cbn [combine app]. eapply perm_trans; [exact P|].
             eapply perm_trans; [apply Permutation_app_head; exact P1|]. apply Permutation_sym, Permutation_middle. }
    split; [intros K; rewrite (Hh K), (H1 K); reflexivity|].
    split; [auto|]. split; [auto|].
    split.
    { intros K q [<-|I].
      - destruct (in_dec text_eq_dec p (map fst pl)) as [J|J]; [assumption|]. destruct (N1' J) as [C _]. congruence.
      - rewrite <- (H1 K). apply U; assumption. }
    intros ND. destruct (T (D1 ND)) as [NDp Tk]. split.
    + constructor; [|assumption]. intros I. apply (Tk p nd I). apply in_assigned.
      eapply Permutation_in; [apply Permutation_sym; exact P1 | left; reflexivity].
    + intros q n [<-|I]; [apply T1; assumption|]. intros J. apply (Tk q n I). apply in_assigned.
      eapply Permutation_in; [apply Permutation_sym; exact P1 | right; apply in_assigned; assumption].
Qed.

(* the i-th node is on the i-th plug *)
Lemma map_nodes_plugs_nth hard nodes plugs pl pl' d : map_nodes_plugs hard pl nodes plugs = inr pl' ->
  forall i, (i < length nodes)%nat -> In (nth i plugs d, Some (nth i nodes d)) pl'.
Proof.
  intros H i Li. apply map_nodes_plugs_ok in H as (L & P & _). apply in_assigned.
  eapply Permutation_in; [apply Permutation_sym; exact P|]. apply in_or_app. left.
  rewrite <- (combine_nth nodes plugs i d d L). apply nth_In. rewrite combine_length, <- L, Nat.min_id. assumption.
Qed.

(* completeness (used for the refusal theorems): the zip rule's side conditions are exactly what is tested *)
Lemma map_nodes_plugs_refuse_len hard pl nodes plugs : length nodes <> length plugs ->
  forall pl', map_nodes_plugs hard pl nodes plugs <> inr pl'.
Proof. intros L pl' H. apply map_nodes_plugs_ok in H as (E & _). contradiction. Qed.

(* ------------------------------------------------------------------ node line WITHOUT a plug list, no hard-wired plugs *)
Lemma map_nodes_noplugs_soft : forall nodes pl, map_nodes_noplugs false pl nodes = map_nodes_plugs false pl nodes nodes.
Proof.
  induction nodes as [|nd r IH]; intros pl; cbn [map_nodes_noplugs map_nodes_plugs]; [reflexivity|].
  destruct (map_one false pl nd nd); [reflexivity | apply IH].
Qed.

(* ------------------------------------------------------------------ node line WITHOUT a plug list, hard-wired: next free *)
Lemma map_next_some : forall pl node pl', map_next pl node = Some pl' ->
  exists a p b, pl = a ++ (p, None) :: b /\ pl' = a ++ (p, Some node) :: b /\ (forall e, In e a -> is_free e = false).
Proof.
  induction pl as [|[p v] r IH]; intros node pl' H; cbn [map_next] in H; [discriminate|].
  destruct v as [m|].
  - destruct (map_next r node) as [r'|] eqn:E; [|discriminate]. inversion H; subst.
    destruct (IH _ _ E) as (a & q & b & E1 & E2 & F). exists ((p, Some m) :: a), q, b. subst. repeat split.
    intros e [<-|I]; [reflexivity | apply F; assumption].
  - inversion H; subst. exists [], p, r. repeat split. intros e [].
Qed.

Lemma map_next_none : forall pl node, map_next pl node = None <-> free_names pl = [].
Proof.
  unfold free_names. induction pl as [|[p v] r IH]; intros node; cbn [map_next filter is_free snd map]; [split; reflexivity|].
  destruct v as [m|]; cbn [map].
  - rewrite <- (IH node). destruct (map_next r node); split; congruence.
  - split; discriminate.
Qed.

Lemma fill_occupied_prefix : forall a b nodes, (forall e, In e a -> is_free e = false) -> fill (a ++ b) nodes = a ++ fill b nodes.
Proof.
  induction a as [|[p v] r IH]; intros b nodes F; [reflexivity|]. cbn [app fill].
  destruct v as [m|]; [rewrite IH; [reflexivity | intros e I; apply F; right; assumption]|].
  specialize (F (p, None) (or_introl eq_refl)). discriminate.
Qed.

Lemma fill_nil pl : fill pl [] = pl.
Proof. induction pl as [|[p [m|]] r IH]; cbn [fill]; [reflexivity | rewrite IH; reflexivity | reflexivity]. Qed.

Lemma free_names_app a b : free_names (a ++ b) = free_names a ++ free_names b.
Proof. unfold free_names. rewrite filter_app, map_app. reflexivity. Qed.

Lemma free_names_occupied a : (forall e, In e a -> is_free e = false) -> free_names a = [].
Proof.
  unfold free_names. induction a as [|e r IH]; intros F; [reflexivity|]. cbn [filter].
  rewrite (F e (or_introl eq_refl)). apply IH. intros x I. apply F. right; assumption.
Qed.

(* pluglist.c's loop (rescan from the head for every node) = one pass handing the nodes to the free plugs in order *)
Lemma map_nodes_noplugs_hard : forall nodes pl,
  map_nodes_noplugs true pl nodes =
  if Nat.leb (length nodes) (length (free_names pl)) then inr (fill pl nodes) else inl S_NOPLUGS.
Proof.
  induction nodes as [|nd r IH]; intros pl; cbn [map_nodes_noplugs length Nat.leb]; [rewrite fill_nil; reflexivity|].
  destruct (map_next pl nd) as [pl1|] eqn:M.
  - destruct (map_next_some _ _ _ M) as (a & p & b & E1 & E2 & F). subst pl pl1. rewrite IH.
    assert (F' : forall e, In e a -> is_free e = false) by exact F.
    rewrite !free_names_app, (free_names_occupied a F). cbn [app].
    change (free_names ((p, None) :: b)) with (p :: free_names b). change (free_names ((p, Some nd) :: b)) with (free_names b).
    cbn [length Nat.leb]. rewrite !fill_occupied_prefix by assumption. cbn [fill]. reflexivity.
  - apply map_next_none in M. rewrite M. reflexivity.
Qed.

(* what the one-pass rule produces *)
Lemma fill_names : forall pl nodes, map fst (fill pl nodes) = map fst pl.
Proof.
  induction pl as [|[p [m|]] r IH]; intros nodes; cbn [fill map fst]; [reflexivity | rewrite IH; reflexivity|].
  destruct nodes; cbn [map fst]; [reflexivity | rewrite IH; reflexivity].
Qed.

Lemma fill_assigned : forall pl nodes, (length nodes <= length (free_names pl))%nat ->
  Permutation (assigned (fill pl nodes)) (combine nodes (free_names pl) ++ assigned pl).
Proof.
  induction pl as [|[p [m|]] r IH]; intros nodes L.
  - destruct nodes; [apply Permutation_refl | cbn in L; lia].
  - cbn [fill]. rewrite !assigned_cons. cbn [fst snd]. change (free_names ((p, Some m) :: r)) with (free_names r) in *.
    eapply perm_trans; [apply perm_skip, IH, L|]. apply Permutation_middle.
  - change (free_names ((p, None) :: r)) with (p :: free_names r) in *. destruct nodes as [|n ns]; cbn [fill].
    + apply Permutation_refl.
    + rewrite !assigned_cons. cbn [fst snd combine app length] in *. apply perm_skip, IH. lia.
Qed.

Lemma fill_nth : forall pl nodes d i, (i < length nodes)%nat -> (length nodes <= length (free_names pl))%nat ->
  In (nth i (free_names pl) d, Some (nth i nodes d)) (fill pl nodes).
Proof.
  intros pl nodes d i Li L. apply in_assigned. eapply Permutation_in; [apply Permutation_sym, fill_assigned, L|].
  apply in_or_app. left. 
  assert (E : (nth i nodes d, nth i (free_names pl) d) = nth i (combine nodes (free_names pl)) (d, d)).
  { revert nodes i Li L. generalize (free_names pl). induction l as [|x l IH]; intros nodes i Li L.
    - destruct nodes; cbn in *; lia.
    - destruct nodes as [|n ns]; [cbn in Li; lia|]. destruct i; [reflexivity|]. cbn [nth combine]. apply IH; cbn in *; lia. }
  rewrite E. apply nth_In. rewrite combine_length. lia.
Qed.
