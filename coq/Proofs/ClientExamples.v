(* Concrete instances for the non-vacuity Examples of Properties/C02 C03 C06 C11 C15, and the witness of F19.
   A toy host-list oracle (one name per argument, no ranges) that satisfies oracle_ok, a two-node configuration,
   and a few sessions evaluated by vm_compute. *)
From Coq Require Import List NArith ZArith Bool Lia.
From PM Require Import Base.Bytes Base.Outcome Base.Dec Gen.GenConsts Gen.GenClient Model.ScriptAst Model.Enqueue Model.Script Model.Client Model.CliWorld
                       Spec.Proto Proofs.ClientProto Proofs.ClientProofs Proofs.ClientStream Proofs.ClientReply Proofs.ClientIsolation.
Import ListNotations.
Local Open Scope Z_scope.

Definition toy_expand (a : text) : option (list text) := if existsb (N.eqb 91) a then None else Some [a].   (* '[' = malformed *)
Definition toy_join (l : list text) : text := flat_map (fun n => n ++ [44]%N) l.
Definition toy_sorted (l : list text) : list text := l.

Lemma toy_join_clean l : Forall clean l -> clean (toy_join l).
Proof.
  unfold toy_join. induction 1 as [|n r H _ IH]; [reflexivity|]. cbn [flat_map]. apply clean_app; [|exact IH]. apply clean_app; [exact H|reflexivity].
Qed.

Lemma toy_oracle_ok : oracle_ok toy_expand toy_join toy_join toy_sorted.
Proof.
  split.
  - intros a l H Ha. unfold toy_expand in H. destruct (existsb (N.eqb 91) a); [discriminate|]. inversion H; subst. constructor; [exact Ha|constructor].
  - apply toy_join_clean.
  - apply toy_join_clean.
  - intros l H. exact H.
Qed.

Definition n1 : text := bslit "n1".
Definition n2 : text := bslit "n2".
Definition toy_dev : cdev :=
  mkCdev (mkEdev (bslit "d0") [mkPlug (bslit "1") (Some n1); mkPlug (bslit "2") (Some n2)]
                 [PM_LOG_IN; PM_POWER_ON; PM_STATUS_PLUGS_ALL; PM_STATUS_TEMP])
         (bslit "spec") DEV_CONNECTED 1 0.
Definition toy_conf : cconf := mkCconf [n1; n2] [] [toy_dev].

Lemma toy_conf_clean : conf_clean toy_conf.
Proof. repeat split; repeat constructor. Qed.

Notation toy_run := (run1 toy_expand toy_join toy_join toy_sorted).
Notation toy_ok := (events_ok toy_expand toy_join toy_join toy_sorted).
Definition toy_s0 : cstate := mkCstate toy_conf [] (new_client 1 (bslit "2.4")).
Definition out_of (o : outcome cstate) : text := match o with Ok s => cl_out (s_cl s) | _ => [] end.

(* a power command that succeeds / one whose device action fails *)
Definition evs_on_ok : list event := [ELine (bslit "on n1"); ESetResult n1 RT_SUCCESS (bslit "OK"); EComplete ACT_ESUCCESS []].
Definition evs_on_fail : list event := [ELine (bslit "on n1"); ETele (bslit "send(d0): 'on 1'"); EComplete ACT_EEXPFAIL (bslit "d0: action timed out waiting for expected response")].
Definition evs_on_unknown : list event := [ELine (bslit "on n1"); ESetResult n1 RT_UNKNOWN (bslit "ERR"); EDiag (bslit "n1: ERR"); EComplete ACT_ESUCCESS []].
Lemma ex_on_ok : toy_ok toy_s0 evs_on_ok = true /\
  out_of (toy_run toy_s0 evs_on_ok) = bslit "001 2.4" ++ CP_EOL ++ CP_PROMPT ++ CP_RSP_COM_COMPLETE ++ CP_PROMPT.
Proof. vm_compute. split; reflexivity. Qed.
Lemma ex_on_fail : toy_ok toy_s0 evs_on_fail = true /\
  out_of (toy_run toy_s0 evs_on_fail) = bslit "001 2.4" ++ CP_EOL ++ CP_PROMPT ++ bslit "305 send(d0): 'on 1'" ++ CP_EOL
     ++ bslit "308 d0: action timed out waiting for expected response" ++ CP_EOL ++ CP_ERR_COM_COMPLETE ++ CP_PROMPT.
Proof. vm_compute. split; reflexivity. Qed.
Lemma ex_on_unknown : toy_ok toy_s0 evs_on_unknown = true /\
  out_of (toy_run toy_s0 evs_on_unknown) = bslit "001 2.4" ++ CP_EOL ++ CP_PROMPT ++ bslit "309 n1: ERR" ++ CP_EOL ++ CP_ERR_COM_COMPLETE ++ CP_PROMPT.
Proof. vm_compute. split; reflexivity. Qed.

(* requests refused at once *)
Lemma ex_refusals :
  out_of (toy_run toy_s0 [ELine (bslit "reset n1")]) = bslit "001 2.4" ++ CP_EOL ++ CP_PROMPT ++ CP_ERR_UNIMPL ++ CP_PROMPT /\
  out_of (toy_run toy_s0 [ELine (bslit "on zz")]) = bslit "001 2.4" ++ CP_EOL ++ CP_PROMPT ++ bslit "209 No such nodes: zz," ++ CP_EOL ++ CP_PROMPT /\
  out_of (toy_run toy_s0 [ELine (bslit "on n[")]) = bslit "001 2.4" ++ CP_EOL ++ CP_PROMPT ++ bslit "205 Hostlist error: invalid range" ++ CP_EOL ++ CP_PROMPT /\
  out_of (toy_run toy_s0 [ELine (bslit "bogus")]) = bslit "001 2.4" ++ CP_EOL ++ CP_PROMPT ++ CP_ERR_UNKNOWN ++ CP_PROMPT /\
  out_of (toy_run toy_s0 [ELine (bslit "on n1"); ELine (bslit "status")]) = bslit "001 2.4" ++ CP_EOL ++ CP_PROMPT ++ CP_ERR_CLIBUSY.
Proof. vm_compute. repeat split; reflexivity. Qed.

(* a status query *)
Definition evs_status : list event := [ELine (bslit "status"); ESetState n1 ST_ON (bslit "ON"); EComplete ACT_ESUCCESS []].
Lemma ex_status : toy_ok toy_s0 evs_status = true /\
  out_of (toy_run toy_s0 evs_status) = bslit "001 2.4" ++ CP_EOL ++ CP_PROMPT
     ++ bslit "302 on:      n1," ++ CP_EOL ++ bslit "302 off:     " ++ CP_EOL ++ bslit "302 unknown: n2," ++ CP_EOL ++ CP_RSP_QRY_COMPLETE ++ CP_PROMPT.
Proof. vm_compute. split; reflexivity. Qed.

(* F19: a temperature value with CR LF in it.  After the repair the value is cut; the code as it stood forged a
   terminal line (two answers to one request) *)
Definition f19_val : text := bslit "41" ++ [13; 10]%N ++ bslit "102 Command completed successfully".
Definition f19_al : arglist := [mkArg n1 ST_UNKNOWN RT_NONE (Some f19_val)].
Definition f19_client : client := new_client 1 (bslit "2.4").
Lemma f19_repaired :
  tokens (reply_nointerp toy_join f19_client f19_al false) = Some [TLine 303 (bslit "n1: 41"); TLine 103 (bslit "Query complete")].
Proof. vm_compute. reflexivity. Qed.
Lemma f19_unrepaired :
  tokens (reply_nointerp_unrepaired toy_join f19_client f19_al false)
  = Some [TLine 303 (bslit "n1: 41"); TLine 102 (bslit "Command completed successfully"); TLine 103 (bslit "Query complete")].
Proof. vm_compute. reflexivity. Qed.
Definition evs_temp : list event := [ELine (bslit "temp n1"); ESetState n1 ST_UNKNOWN f19_val; EComplete ACT_ESUCCESS []].
Lemma ex_temp : toy_ok toy_s0 evs_temp = true /\
  out_of (toy_run toy_s0 evs_temp) = bslit "001 2.4" ++ CP_EOL ++ CP_PROMPT ++ bslit "303 n1: 41" ++ CP_EOL ++ CP_RSP_QRY_COMPLETE ++ CP_PROMPT /\
  ok_rest (out_of (toy_run toy_s0 evs_temp)) = true.
Proof. vm_compute. repeat split; reflexivity. Qed.

(* two clients: 1 switches n1 on, 2 asks for the status of both nodes while 1 is busy, 1 sends a second line, 1 vanishes,
   its action still completes (into the void), 2 gets its answer *)
Notation toy_wrun := (wrun toy_expand toy_join toy_join toy_sorted).
Definition wevs : list wevent :=
  [WConnect (bslit "2.4"); WConnect (bslit "2.4"); WLine 1 (bslit "on n1"); WLine 2 (bslit "status"); WLine 1 (bslit "nodes");
   WDrop 1; WSetState 1 n1 ST_ON (bslit "ON"); WComplete 0 ACT_ESUCCESS []; WComplete 0 ACT_ESUCCESS []].
Definition wout (o : outcome world) (id : Z) : text := match o with Ok w => match find_client (w_clients w) id with Some c => cl_out c | None => [] end | _ => [] end.
Lemma ex_world :
  wout (toy_wrun (world0 toy_conf) (firstn 5 wevs)) 1 = bslit "001 2.4" ++ CP_EOL ++ CP_PROMPT ++ CP_ERR_CLIBUSY /\
  wout (toy_wrun (world0 toy_conf) wevs) 1 = [] /\
  wout (toy_wrun (world0 toy_conf) wevs) 2 = bslit "001 2.4" ++ CP_EOL ++ CP_PROMPT
     ++ bslit "302 on:      n1," ++ CP_EOL ++ bslit "302 off:     " ++ CP_EOL ++ bslit "302 unknown: n2," ++ CP_EOL ++ CP_RSP_QRY_COMPLETE ++ CP_PROMPT /\
  (match toy_wrun (world0 toy_conf) wevs with Ok w => w_queue w | _ => [mkQentry 0 [] (mkQact 0 None) 0] end) = [].
Proof. vm_compute. repeat split; reflexivity. Qed.
