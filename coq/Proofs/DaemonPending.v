(* The cross-layer invariant of the whole-daemon model (C02, C04, C06, C07, C11):
     a client's `pending` counter = the number of its actions still queued on the devices (+ completions emitted by the
     device being processed and not yet delivered),
   hence _act_finish never finds a client without a command (the assert of client.c is unreachable), every completion
   decrements exactly one counter, and the final reply of a command is produced exactly when its last action completes.
   Built on the device-layer invariant (Proofs/DeviceInv.v: step_post, st_fifo) and the client-layer token lemmas
   (Proofs/ClientStream.v: parse_input_toks, act_finish_toks). *)
From Coq Require Import List NArith ZArith Bool Lia Permutation.
From PM Require Import Base.Bytes Base.Outcome Gen.GenConsts Model.ScriptAst Model.Enqueue Model.Script Model.Device Model.DevHarness
                       Model.Client Model.CliWorld Model.Daemon Spec.Proto
                       Proofs.ClientProofs Proofs.ClientStream Proofs.DeviceInv Proofs.DeviceRun Proofs.DaemonLedger.
Import ListNotations.
Local Open Scope Z_scope.

Definition pend (c : client) : Z := match cl_cmd c with Some k => k_pending k | None => 0 end.
Definition cnt (id : Z) (l : list Z) : Z := Z.of_nat (count_occ Z.eq_dec l id).
Definition qall (devs : list device) : list Z := flat_map queued devs.

Lemma cnt_app id a b : cnt id (a ++ b) = cnt id a + cnt id b.
Proof. unfold cnt. rewrite count_occ_app. lia. Qed.
Lemma cnt_cons_eq id l : cnt id (id :: l) = cnt id l + 1.
Proof. unfold cnt. rewrite count_occ_cons_eq by reflexivity. lia. Qed.
Lemma cnt_cons_neq id x l : x <> id -> cnt id (x :: l) = cnt id l.
Proof. intros H. unfold cnt. now rewrite count_occ_cons_neq. Qed.
Lemma cnt_nonneg id l : 0 <= cnt id l. Proof. unfold cnt. lia. Qed.
Lemma cnt_repeat_eq id n : cnt id (repeat id n) = Z.of_nat n.
Proof. induction n as [|n IH]; [reflexivity|]. cbn [repeat]. rewrite cnt_cons_eq, IH. lia. Qed.
Lemma cnt_repeat_neq id x n : x <> id -> cnt id (repeat x n) = 0.
Proof. intros H. induction n as [|n IH]; [reflexivity|]. cbn [repeat]. now rewrite cnt_cons_neq. Qed.
Lemma cnt_notin id l : ~ In id l -> cnt id l = 0.
Proof. intros H. unfold cnt. apply (count_occ_not_In Z.eq_dec) in H. now rewrite H. Qed.

(* the client-layer part of the invariant, relative to a list P of completions emitted but not yet delivered *)
Definition CInv (P : list Z) (devs : list device) (cl : list dcli) : Prop :=
  Forall (fun x => cmd_inv (dc x) /\ pend (dc x) = cnt (cid x) (P ++ qall devs)) cl.

Lemma pend_pos_cmd c : cmd_inv c -> 0 < pend c -> busy c = true.
Proof. unfold pend, busy. destruct (cl_cmd c); [reflexivity|lia]. Qed.
Lemma pend_busy c : cmd_inv c -> busy c = true -> 0 < pend c.
Proof. unfold pend, busy, cmd_inv. destruct (cl_cmd c); [tauto|discriminate]. Qed.

Section P.
  Variable expand_str : text -> option (list text).
  Variable ranged_sorted : list text -> text.
  Variable ranged_plain : list text -> text.
  Variable sorted : list text -> list text.
  Variable rmatch : text -> text -> option pmatch.
  Variable compress : list text -> text.
  Variable short_circuit : bool.

  (* _act_finish with a command in progress: the counter goes down by one, the record stays well formed *)
  Lemma act_finish_pend c store err msg : cmd_inv c -> busy c = true ->
    exists c', act_finish ranged_sorted c store err msg = Ok c' /\ cmd_inv c' /\ pend c' = pend c - 1 /\ cl_id c' = cl_id c.
  Proof.
    intros I B. destruct (act_finish_toks expand_str ranged_sorted ranged_plain sorted c store err msg I B) as (c' & d & E & _ & _ & _ & I' & _).
    exists c'. split; [exact E|]. split; [exact I'|]. split; [|exact (act_finish_id ranged_sorted _ _ _ _ _ E)].
    unfold busy in B. destruct (cl_cmd c) as [k|] eqn:Ek; [|discriminate].
    destruct (act_finish_spec ranged_sorted c store err msg c' k Ek E) as [H1 H2].
    unfold pend. rewrite Ek. destruct (Z.eq_dec (k_pending k - 1) 0) as [E0|E0].
    - destruct (H2 E0) as (reply & _ & ->). cbn. lia.
    - rewrite (H1 E0). cbn. destruct (Z.eqb err ACT_ESUCCESS); cbn; reflexivity.
  Qed.

  Lemma find_cli_none l id : forall n, find_cli l id n = None -> ~ In id (map cid l).
  Proof.
    induction l as [|a l IH]; intros n H; cbn in *; [tauto|].
    destruct (Z.eqb (cl_id (dc a)) id) eqn:E; [discriminate|]. apply Z.eqb_neq in E.
    intros [H1|H1]; [exact (E H1)|exact (IH _ H H1)].
  Qed.

  Lemma CInv_drop_other P devs cl id : ~ In id (map cid cl) -> CInv (id :: P) devs cl -> CInv P devs cl.
  Proof.
    unfold CInv. intros Hn H. induction cl as [|x r IH]; [constructor|].
    inversion H as [|? ? [Hi Hp] Hr]; subst. constructor.
    - split; [exact Hi|]. cbn [app] in Hp. rewrite cnt_cons_neq in Hp; [exact Hp|]. intros E. apply Hn. left. now rewrite E.
    - apply IH; [intros Hin; apply Hn; now right|exact Hr].
  Qed.

  (* replacing the record at position j by one with the same id, well formed, and pending one lower *)
  Lemma CInv_others P devs id : forall r, ~ In id (map cid r) -> CInv (id :: P) devs r -> CInv P devs r.
  Proof. intros r Hn H. eapply CInv_drop_other; eauto. Qed.

  Lemma CInv_deliver P devs : forall cl j x y,
    nth_error cl j = Some x -> cid y = cid x -> NoDup (map cid cl) ->
    cmd_inv (dc y) -> pend (dc y) = pend (dc x) - 1 ->
    CInv (cid x :: P) devs cl -> CInv P devs (upd_nth cl j (fun _ => y)).
  Proof.
    unfold CInv. induction cl as [|a r IH]; intros [|j] x y Hn Hy Hnd Iy Py H; cbn [nth_error upd_nth] in *; try discriminate.
    - assert (a = x) by congruence. subst a.
      inversion H as [|? ? Ha Hr]. inversion Hnd as [|? ? Hnotin Hnd']. destruct Ha as [Hi Hp].
      constructor.
      + split; [exact Iy|]. rewrite Py, Hp, Hy. cbn [app]. rewrite cnt_cons_eq. lia.
      + apply (CInv_others P devs (cid x) r Hnotin Hr).
    - inversion H as [|? ? Ha Hr]. inversion Hnd as [|? ? Hnotin Hnd']. destruct Ha as [Hi Hp].
      constructor.
      + split; [exact Hi|]. cbn [app] in Hp. rewrite cnt_cons_neq in Hp; [exact Hp|].
        intros E. apply Hnotin. rewrite <- E. apply (in_map cid). eapply nth_error_In; exact Hn.
      + eapply IH; eauto.
  Qed.

  (* a callback that leaves the command alone *)
  Lemma CInv_same_cmd P devs : forall cl j x y,
    nth_error cl j = Some x -> cid y = cid x -> cl_cmd (dc y) = cl_cmd (dc x) ->
    CInv P devs cl -> CInv P devs (upd_nth cl j (fun _ => y)).
  Proof.
    unfold CInv. induction cl as [|a r IH]; intros [|j] x y Hn Hy Hc H; cbn in *; try discriminate.
    - inversion Hn; subst a. inversion H as [|? ? [Hi Hp] Hr]; subst. constructor; [|exact Hr].
      unfold cmd_inv, pend in *. rewrite Hc, Hy. auto.
    - inversion H as [|? ? Ha Hr]; subst. constructor; [exact Ha|]. eapply IH; eauto.
  Qed.

  Definition set_clients (st : daemon) (l : list dcli) : daemon :=
    mkDaemon (dm_nodes st) (dm_aliases st) (dm_specs st) (dm_pipe st) (dm_devs st) l (dm_seq st) (dm_store st) (dm_version st) (dm_tel st).

  (* delivering the callbacks of one device: never aborts, keeps the devices, consumes the pending completions *)
  Lemma route_all_CInv : forall evs P st,
    NoDup (ids st) -> CInv (completions evs ++ P) (dm_devs st) (dm_clients st) ->
    exists st', route_all ranged_sorted st evs = Ok st' /\ CInv P (dm_devs st') (dm_clients st') /\
                ids st' = ids st /\ dm_devs st' = dm_devs st /\ dm_seq st' = dm_seq st /\ dm_store st' = dm_store st /\
                dm_pipe st' = dm_pipe st /\ dm_tel st' = dm_tel st.
  Proof.
    induction evs as [|e r IH]; intros P st Hnd H; cbn [route_all].
    - exists st. cbn in H. repeat split; auto.
    - assert (Hstep : exists st1, route ranged_sorted st e = Ok st1 /\ CInv (completions r ++ P) (dm_devs st1) (dm_clients st1) /\
                        ids st1 = ids st /\ dm_devs st1 = dm_devs st /\ dm_seq st1 = dm_seq st /\ dm_store st1 = dm_store st /\
                        dm_pipe st1 = dm_pipe st /\ dm_tel st1 = dm_tel st).
      { unfold route. destruct e as [b|b|n|id msg|id msg|id err msg|n| |];
          try (exists st; cbn [completions flat_map app] in H; repeat split; auto; fail).
        - (* telemetry *)
          cbn [completions flat_map app] in H.
          destruct (find_cli (dm_clients st) id 0) as [[i x]|] eqn:Ef; [|exists st; repeat split; auto].
          destruct (find_cli_spec _ _ _ _ _ Ef) as (j & -> & Hn & Hc). cbn [Nat.add].
          eexists. split; [reflexivity|]. cbn [dm_clients dm_devs dm_seq dm_store dm_pipe dm_tel]. split.
          + eapply CInv_same_cmd; [exact Hn|reflexivity|reflexivity|exact H].
          + repeat split; auto. unfold ids. cbn [dm_clients]. apply (upd_nth_same cid _ j x); auto.
        - (* diagnostics *)
          cbn [completions flat_map app] in H.
          destruct (find_cli (dm_clients st) id 0) as [[i x]|] eqn:Ef; [|exists st; repeat split; auto].
          destruct (find_cli_spec _ _ _ _ _ Ef) as (j & -> & Hn & Hc). cbn [Nat.add].
          eexists. split; [reflexivity|]. cbn [dm_clients dm_devs dm_seq dm_store dm_pipe dm_tel]. split.
          + eapply CInv_same_cmd; [exact Hn|reflexivity|reflexivity|exact H].
          + repeat split; auto. unfold ids. cbn [dm_clients]. apply (upd_nth_same cid _ j x); auto.
        - (* completion *)
          cbn [completions flat_map app] in H.
          destruct (find_cli (dm_clients st) id 0) as [[i x]|] eqn:Ef.
          + destruct (find_cli_spec _ _ _ _ _ Ef) as (j & -> & Hn & Hc). cbn [Nat.add].
            assert (Hx : cmd_inv (dc x) /\ pend (dc x) = cnt (cid x) ((id :: completions r ++ P) ++ qall (dm_devs st))).
            { unfold CInv in H. rewrite Forall_forall in H. apply H. eapply nth_error_In; exact Hn. }
            destruct Hx as [Ix Px]. rewrite Hc in Px. cbn [app] in Px. rewrite cnt_cons_eq in Px.
            assert (Bx : busy (dc x) = true) by (apply pend_pos_cmd; [exact Ix|pose proof (cnt_nonneg id ((completions r ++ P) ++ qall (dm_devs st))); lia]).
            destruct (act_finish_pend (dc x) (dm_store st) err msg Ix Bx) as (c' & E & I' & P' & Id').
            rewrite E. eexists. split; [reflexivity|]. cbn [dm_clients dm_devs dm_seq dm_store dm_pipe dm_tel]. split.
            * subst id. eapply (CInv_deliver _ _ _ j x (set_dc c' x)); eauto.
            * repeat split; auto. unfold ids. cbn [dm_clients]. apply (upd_nth_same cid _ j x); auto.
          + exists st. split; [reflexivity|]. split; [|repeat split; auto].
            eapply CInv_drop_other; [|exact H]. eapply find_cli_none; exact Ef. }
      destruct Hstep as (st1 & E1 & H1 & A1 & A2 & A3 & A4 & A5 & A6). rewrite E1.
      destruct (IH P st1) as (st' & E' & H' & B1 & B2 & B3 & B4 & B5 & B6); [rewrite A1; exact Hnd|exact H1|].
      exists st'. split; [exact E'|]. split; [exact H'|]. repeat split; congruence.
  Qed.

  (* ---------------------------------------------------------------- the device pass *)
  Notation DevsInv := (Forall (DInvR compress)).

  Lemma qall_upd id : forall devs i d d', nth_error devs i = Some d ->
    cnt id (qall (upd_nth devs i (fun _ => d'))) + cnt id (queued d) = cnt id (qall devs) + cnt id (queued d').
  Proof.
    unfold qall. induction devs as [|a r IH]; intros [|i] d d' H; cbn [nth_error upd_nth flat_map] in *; try discriminate.
    - inversion H; subst. rewrite !cnt_app. lia.
    - rewrite !cnt_app. specialize (IH i d d' H). lia.
  Qed.
  Lemma qall_upd_incl : forall devs i d d', nth_error devs i = Some d -> incl (queued d') (queued d) ->
    incl (qall (upd_nth devs i (fun _ => d'))) (qall devs).
  Proof.
    unfold qall. induction devs as [|a r IH]; intros [|i] d d' H Hi; cbn [nth_error upd_nth flat_map] in *; try discriminate.
    - inversion H; subst. apply incl_app; [apply incl_appl; exact Hi|apply incl_appr, incl_refl].
    - apply incl_app; [apply incl_appl, incl_refl|apply incl_appr; eapply IH; eauto].
  Qed.
  Lemma DevsInv_upd : forall devs i d', DevsInv devs -> DInvR compress d' -> DevsInv (upd_nth devs i (fun _ => d')).
  Proof.
    induction devs as [|a r IH]; intros [|i] d' H Hd; cbn [upd_nth]; [constructor|constructor| |]; inversion H; subst; constructor; auto.
  Qed.

  Lemma CInv_after_pass devs cl i d d' evs :
    nth_error devs i = Some d -> completions evs ++ queued d' = queued d ->
    CInv [] devs cl -> CInv (completions evs) (upd_nth devs i (fun _ => d')) cl.
  Proof.
    intros Hn Hf H. unfold CInv in *. eapply Forall_impl; [|exact H]. cbn. intros x [Hi Hp]. split; [exact Hi|].
    rewrite Hp, cnt_app. pose proof (qall_upd (cid x) devs i d d' Hn) as Hq. rewrite <- Hf, cnt_app in Hq. lia.
  Qed.

  Definition pins_plain (pins : list passin) : Prop := Forall (fun pin => pi_pre pin = None) pins.
  Definition all_pipe (st : daemon) : Prop := forall i, nth i (dm_pipe st) true = true.

  Lemma with_pre_pipe t pin : with_pre true t pin = (pin, t).
  Proof. reflexivity. Qed.

  (* the state a pass may start from, as far as devices and counters are concerned *)
  Record DPInv (st : daemon) : Prop := {
    dp_devs : DevsInv (dm_devs st);
    dp_nodup : NoDup (ids st);
    dp_cinv : CInv [] (dm_devs st) (dm_clients st);
    dp_qseq : Forall (fun id => 1 <= id < dm_seq st) (qall (dm_devs st) ++ ids st)
  }.

  Lemma dev_loop_inv n : forall now st i pins tmo acc,
    DPInv st -> all_pipe st -> pins_plain pins -> tmo_pos tmo ->
    match dev_loop ranged_sorted rmatch compress short_circuit n now st i pins tmo acc with
    | Ok (st', tmo', evs) => DPInv st' /\ all_pipe st' /\ tmo_pos tmo' /\ ids st' = ids st /\ dm_seq st' = dm_seq st /\ length (dm_devs st') = length (dm_devs st) /\ exists new, evs = acc ++ new
    | Hang _ => True
    | _ => False
    end.
  Proof.
    induction n as [|n IH]; intros now st i pins tmo acc I Hpipe Hpl Hp; cbn [dev_loop].
    - split; [exact I|]. split; [exact Hpipe|]. split; [exact Hp|]. repeat (split; [reflexivity|]). exists []. now rewrite app_nil_r.
    - destruct (nth_error (dm_devs st) i) as [d|] eqn:En;
        [|split; [exact I|]; split; [exact Hpipe|]; split; [exact Hp|]; repeat (split; [reflexivity|]); exists []; now rewrite app_nil_r].
      rewrite (Hpipe i), with_pre_pipe.
      assert (Hd : DInvR compress d) by (pose proof (dp_devs _ I) as H; rewrite Forall_forall in H; apply H; eapply nth_error_In; exact En).
      destruct Hd as [Hd Hrc].
      assert (Hpre : pi_pre (hd passin0 pins) = None) by (destruct pins; [reflexivity|inversion Hpl; assumption]).
      pose proof (post_poll_one_inv rmatch compress short_circuit now d (dm_store st) tmo (hd passin0 pins) Hd Hp Hrc Hpre) as H1.
      destruct (post_poll_one rmatch compress short_circuit now d (dm_store st) tmo (hd passin0 pins)) as [[[[d' store'] tmo'] evs]| | | |]; try contradiction; [|exact Logic.I].
      destruct H1 as [SP TK].
      match goal with |- context [route_all ranged_sorted ?s evs] => set (st1 := s) end.
      assert (Hids1 : ids st1 = ids st) by reflexivity.
      assert (Hc1 : CInv (completions evs ++ []) (dm_devs st1) (dm_clients st1)).
      { rewrite app_nil_r. unfold st1. cbn [dm_devs dm_clients]. eapply CInv_after_pass; [exact En|exact (st_fifo _ _ _ _ _ _ _ _ _ SP)|exact (dp_cinv _ I)]. }
      destruct (route_all_CInv evs [] st1) as (st2 & E2 & C2 & A1 & A2 & A3 & A4 & A5 & A6); [rewrite Hids1; exact (dp_nodup _ I)|exact Hc1|].
      rewrite E2.
      assert (I2 : DPInv st2).
      { constructor.
        - rewrite A2. unfold st1. cbn [dm_devs]. apply DevsInv_upd; [exact (dp_devs _ I)|].
          split; [exact (st_inv _ _ _ _ _ _ _ _ _ SP)|exact (conn_rel_rc _ _ _ _ (st_conn _ _ _ _ _ _ _ _ _ SP) Hrc)].
        - rewrite A1, Hids1. exact (dp_nodup _ I).
        - exact C2.
        - rewrite A2, A1, A3, Hids1. unfold st1. cbn [dm_devs dm_seq].
          pose proof (dp_qseq _ I) as Hq. rewrite Forall_forall in *. intros x Hx. apply Hq.
          apply in_app_or in Hx. apply in_or_app. destruct Hx as [Hx|Hx]; [left|right; exact Hx].
          eapply qall_upd_incl; [exact En| |exact Hx].
          rewrite <- (st_fifo _ _ _ _ _ _ _ _ _ SP). apply incl_appr, incl_refl. }
      assert (Hpipe2 : all_pipe st2) by (unfold all_pipe; rewrite A5; exact Hpipe).
      specialize (IH now st2 (S i) (tl pins) tmo' (acc ++ map (SysDev i) evs) I2 Hpipe2).
      assert (Hpl' : pins_plain (tl pins)) by (destruct pins; [constructor|inversion Hpl; assumption]).
      specialize (IH Hpl' (st_pos _ _ _ _ _ _ _ _ _ SP)).
      destruct (dev_loop ranged_sorted rmatch compress short_circuit n now st2 (S i) (tl pins) tmo' (acc ++ map (SysDev i) evs)) as [[[st3 tmo3] evs3]| | | |]; try contradiction; [|exact Logic.I].
      destruct IH as (I3 & P3 & T3 & B1 & B2 & B3 & new & ->).
      assert (Hseq1 : dm_seq st1 = dm_seq st) by reflexivity.
      split; [exact I3|]. split; [exact P3|]. split; [exact T3|]. split; [congruence|]. split; [congruence|].
      split.
      { rewrite B3, A2. unfold st1. cbn [dm_devs]. clear. generalize (dm_devs st). intros l. revert i. induction l as [|a l IHl]; intros [|i]; cbn; auto. }
      exists (map (SysDev i) evs ++ new). now rewrite app_assoc.
  Qed.
End P.
