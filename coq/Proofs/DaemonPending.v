(* The cross-layer invariant of the whole-daemon model (C02, C04, C06, C07, C11):
     a client's `pending` counter = the number of its actions still queued on the devices (+ completions emitted by the
     device being processed and not yet delivered),
   hence _act_finish never finds a client without a command (the assert of client.c is unreachable), every completion
   decrements exactly one counter, and the final reply of a command is produced exactly when its last action completes.
   Built on the device-layer invariant (Proofs/DeviceInv.v: step_post, st_fifo) and the client-layer token lemmas
   (Proofs/ClientStream.v: parse_input_toks, act_finish_toks).
   The per-device invariant carried here is the Hang-free one, Proofs/DeviceHang.DInvH (= DInvG, 0 <= retry_count, queued plug
   lists no longer than the device's, nest_ok of the device's scripts: blocks nested at most DMAX = 7 deep - a STATIC hypothesis on
   the configuration, part of `boot`, true of every shipped specification: SpecBridge.shipped_nest_ok).  Hence every pass / run
   below returns Ok: never Exit / Abort / MemErr and never Hang (post_poll_one_invH). *)
From Coq Require Import List NArith ZArith Bool Lia Permutation.
From PM Require Import Base.Bytes Base.Outcome Gen.GenConsts Model.ScriptAst Model.Enqueue Model.Script Model.Device Model.DevHarness
                       Model.Client Model.CliWorld Model.Daemon Spec.Proto
                       Proofs.ClientProofs Proofs.ClientProto Proofs.ClientStream Proofs.ClientStreamQ Proofs.DeviceInv Proofs.DeviceRun Proofs.DeviceInvG Proofs.DeviceRunG Proofs.DeviceHang Proofs.DeviceSlots Proofs.DaemonLedger Proofs.DaemonFrame Proofs.DaemonSlots.
Import ListNotations.
Local Open Scope Z_scope.

Definition pend (c : client) : Z := match cl_cmd c with Some k => k_pending k | None => 0 end.
Definition cnt (id : Z) (l : list Z) : Z := Z.of_nat (count_occ Z.eq_dec l id).
Definition qall (devs : list device) : list Z := flat_map queued devs.

Lemma cnt_app id a b : cnt id (a ++ b) = cnt id a + cnt id b.
Proof. unfold cnt. rewrite count_occ_app. lia. Qed.
Lemma cnt_cons_eq id l : cnt id (id :: l) = cnt id l + 1.
Proof. unfold cnt. rewrite count_occ_cons_eq by reflexivity. lia. Qed.
Lemma cnt_cons_neq id x l : x <> id -> cnt id (x :: l) = cnt id l.
Proof. intros H. unfold cnt. now rewrite count_occ_cons_neq. Qed.
Lemma cnt_nonneg id l : 0 <= cnt id l. Proof. unfold cnt. lia. Qed.
Lemma cnt_repeat_eq id n : cnt id (repeat id n) = Z.of_nat n.
Proof. induction n as [|n IH]; [reflexivity|]. cbn [repeat]. rewrite cnt_cons_eq, IH. lia. Qed.
Lemma cnt_repeat_neq id x n : x <> id -> cnt id (repeat x n) = 0.
Proof. intros H. induction n as [|n IH]; [reflexivity|]. cbn [repeat]. now rewrite cnt_cons_neq. Qed.
Lemma cnt_notin id l : ~ In id l -> cnt id l = 0.
Proof. intros H. unfold cnt. apply (count_occ_not_In Z.eq_dec) in H. now rewrite H. Qed.

(* the client-layer part of the invariant, relative to a list P of completions emitted but not yet delivered *)
(* a client record is well formed, and its output so far holds exactly one terminal reply per line handed to
   _parse_input, except for the command still in progress *)
(* the recogniser's "quit" state q: the client's own flag - except that a client which half-closed its connection has
   client_quit set without a 101 line ever having been sent; from then on no request line is parsed any more *)
Definition rq_ok (x : dcli) (q : bool) : Prop :=
  if dc_eof x then cl_quit (dc x) = true /\ no_line x else q = cl_quit (dc x).
(* the output so far is accepted by the protocol recogniser, which is at rest unless a command is in progress; and it
   is exactly what was written to the descriptor followed by what is still queued *)
Definition stream_ok (x : dcli) (toks : list tok) : Prop :=
  (exists st q, run PStart toks = Some st /\ qcompat q (dc x) st /\ rq_ok x q) /\ cl_out (dc x) = dc_sent x ++ dc_to x.
Definition cli_ok (x : dcli) : Prop :=
  cmd_inv (dc x) /\ exists toks, cl_out (dc x) = render toks /\ (terminals toks + b2n (busy (dc x)) = dc_lines x)%nat /\
                      (dc_bad x = false -> stream_ok x toks).

Lemma cbuf_put_fits buf new : snd (cbuf_put buf new) = false -> fst (cbuf_put buf new) = buf ++ new.
Proof. unfold cbuf_put. destruct (MAX_CLIENT_BUF <? Z.of_nat (length (buf ++ new))); [discriminate|reflexivity]. Qed.
Lemma skipn_length_app {A} (a b : list A) : skipn (length a) (a ++ b) = b.
Proof. induction a as [|h a IH]; cbn; auto. Qed.
Lemma cnt_in id l : In id l -> 0 < cnt id l.
Proof. intros H. unfold cnt. apply (count_occ_In Z.eq_dec) in H. lia. Qed.
Lemma live_tail e r q : live (e :: r) q -> live r q.
Proof. intros H e1 e0 e2 c E Hc. apply (H (e :: e1) e0 e2 c); [rewrite E; reflexivity|exact Hc]. Qed.
Lemma live_head_in e r q c : live (e :: r) q -> cb_client e = Some c -> In c (completions r ++ q).
Proof. intros H Hc. exact (H [] e r c eq_refl Hc). Qed.
Definition CInv (P : list Z) (devs : list device) (cl : list dcli) : Prop :=
  Forall (fun x => cli_ok x /\ pend (dc x) = cnt (cid x) (P ++ qall devs)) cl.

Lemma pend_pos_cmd c : cmd_inv c -> 0 < pend c -> busy c = true.
Proof. unfold pend, busy. destruct (cl_cmd c); [reflexivity|lia]. Qed.
Lemma pend_busy c : cmd_inv c -> busy c = true -> 0 < pend c.
Proof. unfold pend, busy, cmd_inv. destruct (cl_cmd c); [tauto|discriminate]. Qed.

Section P.
  Variable expand_str : text -> option (list text).
  Variable ranged_sorted : list text -> text.
  Variable ranged_plain : list text -> text.
  Variable sorted : list text -> list text.
  Variable rmatch : text -> text -> option pmatch.
  Variable compress : list text -> text.
  Variable short_circuit : bool.

  (* _act_finish with a command in progress: the counter goes down by one, the record stays well formed *)
  Lemma act_finish_pend c store err msg : cmd_inv c -> busy c = true ->
    exists c' d, act_finish ranged_sorted c store err msg = Ok c' /\ cmd_inv c' /\ pend c' = pend c - 1 /\ cl_id c' = cl_id c /\
      cl_out c' = cl_out c ++ render d /\ (terminals d + b2n (busy c') = b2n (busy c))%nat /\
      (forall q st, qcompat q c st -> exists st', run st d = Some st' /\ qcompat q c' st') /\ cl_quit c' = cl_quit c.
  Proof.
    intros I B. destruct (act_finish_toks_q expand_str ranged_sorted ranged_plain sorted c store err msg I B) as (c' & d & E & Ho & Hr & Ht & I' & Hq).
    exists c', d. split; [exact E|]. split; [exact I'|]. split; [|split; [exact (act_finish_id ranged_sorted _ _ _ _ _ E)|split; [exact Ho|split; [exact Ht|split; [exact Hr|exact Hq]]]]].
    unfold busy in B. destruct (cl_cmd c) as [k|] eqn:Ek; [|discriminate].
    destruct (act_finish_spec ranged_sorted c store err msg c' k Ek E) as [H1 H2].
    unfold pend. rewrite Ek. destruct (Z.eq_dec (k_pending k - 1) 0) as [E0|E0].
    - destruct (H2 E0) as (reply & _ & ->). cbn. lia.
    - rewrite (H1 E0). cbn. destruct (Z.eqb err ACT_ESUCCESS); cbn; reflexivity.
  Qed.

  (* appending tokens to a record's output through set_dc *)
  Lemma cli_ok_set_dc x c' d :
    cli_ok x -> cmd_inv c' -> cl_out c' = cl_out (dc x) ++ render d -> (terminals d + b2n (busy c') = b2n (busy (dc x)))%nat ->
    (forall q st, qcompat q (dc x) st -> exists st', run st d = Some st' /\ qcompat q c' st') -> cl_quit c' = cl_quit (dc x) ->
    cli_ok (set_dc c' x).
  Proof.
    intros [_ (toks & Ho & Ht & Hs)] I' Ho' Ht' Hr Hq. split; [exact I'|]. exists (toks ++ d). cbn [set_dc dc dc_lines dc_bad].
    split; [rewrite Ho', Ho, render_app; reflexivity|]. split; [rewrite terminals_app; lia|].
    intros Hb. apply orb_false_iff in Hb as [Hb Hov]. destruct (Hs Hb) as [(st & q & R & C & Q) Hsent]. destruct (Hr q st C) as (st' & R' & C'). split.
    - exists st', q. split; [rewrite run_app, R; exact R'|]. split; [exact C'|].
      unfold rq_ok in *. cbn [set_dc dc dc_eof]. destruct (dc_eof x); [|rewrite Hq; exact Q].
      destruct Q as [Q1 Q2]. split; [rewrite Hq; exact Q1|exact Q2].
    - cbn [set_dc dc dc_sent dc_to]. rewrite (cbuf_put_fits _ _ Hov). rewrite Ho', skipn_length_app, Hsent, <- app_assoc. reflexivity.
  Qed.

  Lemma find_cli_none l id : forall n, find_cli l id n = None -> ~ In id (map cid l).
  Proof.
    induction l as [|a l IH]; intros n H; cbn in *; [tauto|].
    destruct (Z.eqb (cl_id (dc a)) id) eqn:E; [discriminate|]. apply Z.eqb_neq in E.
    intros [H1|H1]; [exact (E H1)|exact (IH _ H H1)].
  Qed.

  Lemma CInv_drop_other P devs cl id : ~ In id (map cid cl) -> CInv (id :: P) devs cl -> CInv P devs cl.
  Proof.
    unfold CInv. intros Hn H. induction cl as [|x r IH]; [constructor|].
    inversion H as [|? ? [Hi Hp] Hr]; subst. constructor.
    - split; [exact Hi|]. cbn [app] in Hp. rewrite cnt_cons_neq in Hp; [exact Hp|]. intros E. apply Hn. left. now rewrite E.
    - apply IH; [intros Hin; apply Hn; now right|exact Hr].
  Qed.

  (* replacing the record at position j by one with the same id, well formed, and pending one lower *)
  Lemma CInv_others P devs id : forall r, ~ In id (map cid r) -> CInv (id :: P) devs r -> CInv P devs r.
  Proof. intros r Hn H. eapply CInv_drop_other; eauto. Qed.

  Lemma CInv_deliver P devs : forall cl j x y,
    nth_error cl j = Some x -> cid y = cid x -> NoDup (map cid cl) ->
    cli_ok y -> pend (dc y) = pend (dc x) - 1 ->
    CInv (cid x :: P) devs cl -> CInv P devs (upd_nth cl j (fun _ => y)).
  Proof.
    unfold CInv. induction cl as [|a r IH]; intros [|j] x y Hn Hy Hnd Iy Py H; cbn [nth_error upd_nth] in *; try discriminate.
    - assert (a = x) by congruence. subst a.
      inversion H as [|? ? Ha Hr]. inversion Hnd as [|? ? Hnotin Hnd']. destruct Ha as [Hi Hp].
      constructor.
      + split; [exact Iy|]. rewrite Py, Hp, Hy. cbn [app]. rewrite cnt_cons_eq. lia.
      + apply (CInv_others P devs (cid x) r Hnotin Hr).
    - inversion H as [|? ? Ha Hr]. inversion Hnd as [|? ? Hnotin Hnd']. destruct Ha as [Hi Hp].
      constructor.
      + split; [exact Hi|]. cbn [app] in Hp. rewrite cnt_cons_neq in Hp; [exact Hp|].
        intros E. apply Hnotin. rewrite <- E. apply (in_map cid). eapply nth_error_In; exact Hn.
      + eapply IH; eauto.
  Qed.

  (* a callback that leaves the command alone *)
  Lemma CInv_same_cmd P devs : forall cl j x y,
    nth_error cl j = Some x -> cid y = cid x -> cl_cmd (dc y) = cl_cmd (dc x) -> cli_ok y ->
    CInv P devs cl -> CInv P devs (upd_nth cl j (fun _ => y)).
  Proof.
    unfold CInv. induction cl as [|a r IH]; intros [|j] x y Hn Hy Hc Hk H; cbn in *; try discriminate.
    - inversion Hn; subst a. inversion H as [|? ? [Hi Hp] Hr]; subst. constructor; [|exact Hr].
      split; [exact Hk|]. unfold pend in *. rewrite Hc, Hy. exact Hp.
    - inversion H as [|? ? Ha Hr]; subst. constructor; [exact Ha|]. eapply IH; eauto.
  Qed.

  Lemma cli_ok_info x (f : client -> client) code m :
    (forall c, f c = emit (render [TLine code m]) c) -> info_code code = true -> busy (dc x) = true -> cli_ok x -> cli_ok (set_dc (f (dc x)) x).
  Proof.
    intros Hf Hc Hb Hx. destruct (callback_toks_q (dc x) code m Hc Hb) as [Hr Ht].
    rewrite Hf. apply (cli_ok_set_dc x _ [TLine code m]); auto.
    destruct Hx as [Hi _]. exact Hi.
  Qed.

  Definition set_clients (st : daemon) (l : list dcli) : daemon :=
    mkDaemon (dm_nodes st) (dm_aliases st) (dm_specs st) (dm_pipe st) (dm_devs st) l (dm_seq st) (dm_store st) (dm_version st) (dm_tel st).

  (* delivering the callbacks of one device: never aborts, keeps the devices, consumes the pending completions *)
  Lemma route_all_CInv : forall evs P st,
    NoDup (ids st) -> CInv (completions evs ++ P) (dm_devs st) (dm_clients st) -> live evs (P ++ qall (dm_devs st)) ->
    exists st', route_all ranged_sorted st evs = Ok st' /\ CInv P (dm_devs st') (dm_clients st') /\
                ids st' = ids st /\ dm_devs st' = dm_devs st /\ dm_seq st' = dm_seq st /\ dm_store st' = dm_store st /\
                dm_pipe st' = dm_pipe st /\ dm_tel st' = dm_tel st.
  Proof.
    induction evs as [|e r IH]; intros P st Hnd H Hlive; cbn [route_all].
    - exists st. cbn in H. repeat split; auto.
    - assert (Hstep : exists st1, route ranged_sorted st e = Ok st1 /\ CInv (completions r ++ P) (dm_devs st1) (dm_clients st1) /\
                        ids st1 = ids st /\ dm_devs st1 = dm_devs st /\ dm_seq st1 = dm_seq st /\ dm_store st1 = dm_store st /\
                        dm_pipe st1 = dm_pipe st /\ dm_tel st1 = dm_tel st).
      { unfold route. destruct e as [b|b|n|id msg|id msg|id err msg|n| |];
          try (exists st; cbn [completions flat_map app] in H; repeat split; auto; fail).
        - (* telemetry *)
          cbn [completions flat_map app] in H.
          destruct (find_cli (dm_clients st) id 0) as [[i x]|] eqn:Ef; [|exists st; repeat split; auto].
          destruct (find_cli_spec _ _ _ _ _ Ef) as (j & -> & Hn & Hc). cbn [Nat.add].
          eexists. split; [reflexivity|]. cbn [dm_clients dm_devs dm_seq dm_store dm_pipe dm_tel]. split.
          + assert (Hx : cli_ok x /\ pend (dc x) = cnt (cid x) ((completions r ++ P) ++ qall (dm_devs st))).
            { unfold CInv in H. rewrite Forall_forall in H. apply H. eapply nth_error_In; exact Hn. }
            destruct Hx as [Kx Px].
            assert (Bx : busy (dc x) = true).
            { apply pend_pos_cmd; [exact (proj1 Kx)|]. rewrite Px, Hc, <- app_assoc. apply cnt_in. exact (live_head_in _ _ _ id Hlive eq_refl). }
            eapply CInv_same_cmd; [exact Hn|reflexivity|reflexivity| |exact H].
            apply (cli_ok_info x (fun c => telemetry c msg) 305 msg); [intros c; unfold telemetry; now rewrite fmt_telemetry|reflexivity|exact Bx|exact Kx].
          + repeat split; auto. unfold ids. cbn [dm_clients]. apply (upd_nth_same cid _ j x); auto.
        - (* diagnostics *)
          cbn [completions flat_map app] in H.
          destruct (find_cli (dm_clients st) id 0) as [[i x]|] eqn:Ef; [|exists st; repeat split; auto].
          destruct (find_cli_spec _ _ _ _ _ Ef) as (j & -> & Hn & Hc). cbn [Nat.add].
          eexists. split; [reflexivity|]. cbn [dm_clients dm_devs dm_seq dm_store dm_pipe dm_tel]. split.
          + assert (Hx : cli_ok x /\ pend (dc x) = cnt (cid x) ((completions r ++ P) ++ qall (dm_devs st))).
            { unfold CInv in H. rewrite Forall_forall in H. apply H. eapply nth_error_In; exact Hn. }
            destruct Hx as [Kx Px].
            assert (Bx : busy (dc x) = true).
            { apply pend_pos_cmd; [exact (proj1 Kx)|]. rewrite Px, Hc, <- app_assoc. apply cnt_in. exact (live_head_in _ _ _ id Hlive eq_refl). }
            eapply CInv_same_cmd; [exact Hn|reflexivity|reflexivity| |exact H].
            apply (cli_ok_info x (fun c => diag c msg) 309 msg); [intros c; unfold diag; now rewrite fmt_diag|reflexivity|exact Bx|exact Kx].
          + repeat split; auto. unfold ids. cbn [dm_clients]. apply (upd_nth_same cid _ j x); auto.
        - (* completion *)
          cbn [completions flat_map app] in H.
          destruct (find_cli (dm_clients st) id 0) as [[i x]|] eqn:Ef.
          + destruct (find_cli_spec _ _ _ _ _ Ef) as (j & -> & Hn & Hc). cbn [Nat.add].
            assert (Hx : cli_ok x /\ pend (dc x) = cnt (cid x) ((id :: completions r ++ P) ++ qall (dm_devs st))).
            { unfold CInv in H. rewrite Forall_forall in H. apply H. eapply nth_error_In; exact Hn. }
            destruct Hx as [Kx Px]. pose proof (proj1 Kx) as Ix. rewrite Hc in Px. cbn [app] in Px. rewrite cnt_cons_eq in Px.
            assert (Bx : busy (dc x) = true) by (apply pend_pos_cmd; [exact Ix|pose proof (cnt_nonneg id ((completions r ++ P) ++ qall (dm_devs st))); lia]).
            destruct (act_finish_pend (dc x) (dm_store st) err msg Ix Bx) as (c' & dd & E & I' & P' & Id' & Ho' & Ht' & Hr' & Hq').
            rewrite E. eexists. split; [reflexivity|]. cbn [dm_clients dm_devs dm_seq dm_store dm_pipe dm_tel]. split.
            * subst id. eapply (CInv_deliver _ _ _ j x (set_dc c' x)); eauto.
              eapply cli_ok_set_dc; eauto.
            * repeat split; auto. unfold ids. cbn [dm_clients]. apply (upd_nth_same cid _ j x); auto.
          + exists st. split; [reflexivity|]. split; [|repeat split; auto].
            eapply CInv_drop_other; [|exact H]. eapply find_cli_none; exact Ef. }
      destruct Hstep as (st1 & E1 & H1 & A1 & A2 & A3 & A4 & A5 & A6). rewrite E1.
      destruct (IH P st1) as (st' & E' & H' & B1 & B2 & B3 & B4 & B5 & B6); [rewrite A1; exact Hnd|exact H1|rewrite A2; exact (live_tail _ _ _ Hlive)|].
      exists st'. split; [exact E'|]. split; [exact H'|]. repeat split; congruence.
  Qed.

  (* ---------------------------------------------------------------- the device pass *)
  (* DInvH d -> DInvRG compress d (DInvH_RG): everything the older lemmas want is a projection (dh_inv, dh_rc) *)
  Notation DevsInv := (Forall (DInvH compress)).

  Lemma qall_upd id : forall devs i d d', nth_error devs i = Some d ->
    cnt id (qall (upd_nth devs i (fun _ => d'))) + cnt id (queued d) = cnt id (qall devs) + cnt id (queued d').
  Proof.
    unfold qall. induction devs as [|a r IH]; intros [|i] d d' H; cbn [nth_error upd_nth flat_map] in *; try discriminate.
    - inversion H; subst. rewrite !cnt_app. lia.
    - rewrite !cnt_app. specialize (IH i d d' H). lia.
  Qed.
  Lemma qall_upd_incl : forall devs i d d', nth_error devs i = Some d -> incl (queued d') (queued d) ->
    incl (qall (upd_nth devs i (fun _ => d'))) (qall devs).
  Proof.
    unfold qall. induction devs as [|a r IH]; intros [|i] d d' H Hi; cbn [nth_error upd_nth flat_map] in *; try discriminate.
    - inversion H; subst. apply incl_app; [apply incl_appl; exact Hi|apply incl_appr, incl_refl].
    - apply incl_app; [apply incl_appl, incl_refl|apply incl_appr; eapply IH; eauto].
  Qed.
  Lemma qall_upd_has : forall devs i d d', nth_error devs i = Some d -> incl (queued d') (qall (upd_nth devs i (fun _ => d'))).
  Proof.
    unfold qall. induction devs as [|a r IH]; intros [|i] d d' H; cbn [nth_error upd_nth flat_map] in *; try discriminate.
    - apply incl_appl, incl_refl.
    - apply incl_appr. eapply IH; eauto.
  Qed.
  Lemma DevsInv_upd : forall devs i d', DevsInv devs -> DInvH compress d' -> DevsInv (upd_nth devs i (fun _ => d')).
  Proof.
    induction devs as [|a r IH]; intros [|i] d' H Hd; cbn [upd_nth]; [constructor|constructor| |]; inversion H; subst; constructor; auto.
  Qed.

  Lemma CInv_after_pass devs cl i d d' evs :
    nth_error devs i = Some d -> completions evs ++ queued d' = queued d ->
    CInv [] devs cl -> CInv (completions evs) (upd_nth devs i (fun _ => d')) cl.
  Proof.
    intros Hn Hf H. unfold CInv in *. eapply Forall_impl; [|exact H]. cbn beta. intros x [Hi Hp]. split; [exact Hi|]. cbn [app] in Hp.
    rewrite Hp, cnt_app. pose proof (qall_upd (cid x) devs i d d' Hn) as Hq. rewrite <- Hf, cnt_app in Hq. lia.
  Qed.

  Definition pins_plain (pins : list passin) : Prop := Forall (fun pin => pi_pre pin = None) pins.
  Definition all_pipe (st : daemon) : Prop := forall i, nth i (dm_pipe st) true = true.

  Lemma with_pre_pipe t pin : with_pre true t pin = (pin, t).
  Proof. reflexivity. Qed.

  (* the state a pass may start from, as far as devices and counters are concerned *)
  Record DPInv (st : daemon) : Prop := {
    dp_devs : DevsInv (dm_devs st);
    dp_nodup : NoDup (ids st);
    dp_cinv : CInv [] (dm_devs st) (dm_clients st);
    dp_qseq : Forall (fun id => 1 <= id < dm_seq st) (qall (dm_devs st) ++ ids st);
    dp_slots : SInv st
  }.

  Lemma dev_loop_inv n : forall now st i pins tmo acc,
    DPInv st -> tmo_pos tmo ->
    match dev_loop ranged_sorted rmatch compress short_circuit n now st i pins tmo acc with
    | Ok (st', tmo', evs) => DPInv st' /\ tmo_pos tmo' /\ ids st' = ids st /\ dm_seq st' = dm_seq st /\ length (dm_devs st') = length (dm_devs st) /\ exists new, evs = acc ++ new
    | _ => False
    end.
  Proof.
    induction n as [|n IH]; intros now st i pins tmo acc I Hp; cbn [dev_loop].
    - split; [exact I|]. split; [exact Hp|]. repeat (split; [reflexivity|]). exists []. now rewrite app_nil_r.
    - destruct (nth_error (dm_devs st) i) as [d|] eqn:En;
        [|split; [exact I|]; split; [exact Hp|]; repeat (split; [reflexivity|]); exists []; now rewrite app_nil_r].
      destruct (with_pre (nth i (dm_pipe st) true) (nth i (dm_tel st) Telnet.telnet_init) (hd passin0 pins)) as [pin t1].
      assert (HdH : DInvH compress d) by (pose proof (dp_devs _ I) as H; rewrite Forall_forall in H; apply H; eapply nth_error_In; exact En).
      pose proof (dh_inv _ _ HdH) as Hd. pose proof (dh_rc _ _ HdH) as Hrc.
      destruct (post_poll_one_invH rmatch compress short_circuit now d (dm_store st) tmo pin HdH Hp) as (d' & store' & tmo' & evs & EP & Hd' & SP & TK).
      assert (Hcbd : ArgsCb d) by (pose proof (si_cb _ (dp_slots _ I)) as H; rewrite Forall_forall in H; apply H; eapply nth_error_In; exact En).
      pose proof (post_poll_one_slots rmatch compress short_circuit now d (dm_store st) tmo pin Hd Hcbd Hp Hrc) as HS.
      rewrite EP in HS |- *.
      match goal with |- context [route_all ranged_sorted ?s evs] => set (st1 := s) end.
      assert (Hids1 : ids st1 = ids st) by reflexivity.
      assert (Hc1 : CInv (completions evs ++ []) (dm_devs st1) (dm_clients st1)).
      { rewrite app_nil_r. unfold st1. cbn [dm_devs dm_clients]. eapply CInv_after_pass; [exact En|exact (tg_fifo _ _ _ _ _ _ _ _ _ SP)|exact (dp_cinv _ I)]. }
      destruct (route_all_CInv evs [] st1) as (st2 & E2 & C2 & A1 & A2 & A3 & A4 & A5 & A6); [rewrite Hids1; exact (dp_nodup _ I)|exact Hc1| |].
      { cbn [app]. unfold st1. cbn [dm_devs]. eapply live_mono; [eapply qall_upd_has; exact En|exact (tg_live _ _ _ _ _ _ _ _ _ SP)]. }
      rewrite E2.
      assert (I2 : DPInv st2).
      { constructor.
        - rewrite A2. unfold st1. cbn [dm_devs]. apply DevsInv_upd; [exact (dp_devs _ I)|].
          exact Hd'.
        - rewrite A1, Hids1. exact (dp_nodup _ I).
        - exact C2.
        - rewrite A2, A1, A3, Hids1. unfold st1. cbn [dm_devs dm_seq].
          pose proof (dp_qseq _ I) as Hq. rewrite Forall_forall in *. intros x Hx. apply Hq.
          apply in_app_or in Hx. apply in_or_app. destruct Hx as [Hx|Hx]; [left|right; exact Hx].
          eapply qall_upd_incl; [exact En| |exact Hx].
          rewrite <- (tg_fifo _ _ _ _ _ _ _ _ _ SP). apply incl_appr, incl_refl.
        - assert (Hl2 : length (dm_clients st2) = length (dm_clients st)).
          { pose proof (f_equal (@length Z) A1) as Hl. unfold ids in Hl. rewrite !map_length in Hl. rewrite Hl. reflexivity. }
          apply (SInv_dev_step st st2 i d d' (dp_slots _ I) En); [rewrite A4; exact HS|rewrite A2; reflexivity|exact Hl2| |].
          + intros p x Hx. exact (route_all_cmd ranged_sorted evs st1 st2 E2 p x Hx).
          + intros x' Hx' Hs' Hin. unfold CInv in C2. rewrite Forall_forall in C2. destruct (C2 x' Hx') as [Kx' Px']. cbn [app] in Px'.
            unfold cmd_slot in Hs'. unfold pend in Px'. destruct (cl_cmd (dc x')); [discriminate|].
            pose proof (cnt_in (cid x') (qall (dm_devs st2)) Hin). lia. }
      specialize (IH now st2 (S i) (tl pins) tmo' (acc ++ map (SysDev i) evs) I2).
      specialize (IH (tg_pos _ _ _ _ _ _ _ _ _ SP)).
      destruct (dev_loop ranged_sorted rmatch compress short_circuit n now st2 (S i) (tl pins) tmo' (acc ++ map (SysDev i) evs)) as [[[st3 tmo3] evs3]| | | |]; try contradiction.
      destruct IH as (I3 & T3 & B1 & B2 & B3 & new & ->).
      assert (Hseq1 : dm_seq st1 = dm_seq st) by reflexivity.
      split; [exact I3|]. split; [exact T3|]. split; [congruence|]. split; [congruence|].
      split.
      { rewrite B3, A2. unfold st1. cbn [dm_devs]. clear. generalize (dm_devs st). intros l. revert i. induction l as [|a l IHl]; intros [|i]; cbn; auto. }
      exists (map (SysDev i) evs ++ new). now rewrite app_assoc.
  Qed.

  (* ---------------------------------------------------------------- the client pass *)
  Notation parse := (parse_input expand_str ranged_sorted ranged_plain sorted).

  Lemma parse_busy_q cf store c line cf' store' c' q k :
    cl_cmd c = Some k -> parse cf store c line = (cf', store', c', q) -> q = [] /\ cl_cmd c' = Some k.
  Proof.
    intros Hk. unfold parse_input. destruct (CP_LINEMAX <=? _).
    - intros H; inversion H; subst. split; [reflexivity|]. destruct (cl_quit _); cbn; exact Hk.
    - rewrite Hk. intros H; inversion H; subst. split; [reflexivity|exact Hk].
  Qed.

  Lemma parse_busy_store cf store c line cf' store' c' q k :
    cl_cmd c = Some k -> parse cf store c line = (cf', store', c', q) -> store' = store.
  Proof.
    intros Hk. unfold parse_input. destruct (CP_LINEMAX <=? _).
    - intros H; inversion H; subst. reflexivity.
    - rewrite Hk. intros H; inversion H; subst. reflexivity.
  Qed.

  Lemma valid_com_In com : valid_com com = true -> In com (power_coms ++ query_coms).
  Proof. unfold valid_com. intros H. apply existsb_exists in H as (x & Hx & E). apply Z.eqb_eq in E. now subst. Qed.

  Lemma zip_edevs : forall devs specs, map cd_edev (zip_cdevs specs devs) = map edev_of devs.
  Proof. induction devs as [|d r IH]; intros specs; cbn; [reflexivity|]. now rewrite IH. Qed.

  (* dev_enqueue_actions: every device gets its share appended; the invariant of each device survives *)
  Lemma enq_all_inv id tele args com tgts : In com (power_coms ++ query_coms) ->
    forall devs, DevsInv devs ->
    exists devs', enq_all devs (enqueue (map edev_of devs) com tgts) id tele args = Ok devs' /\ DevsInv devs' /\ length devs' = length devs /\
      (forall i, cnt i (qall devs') = cnt i (qall devs) + (if Z.eq_dec i id then Z.of_nat (total (enqueue (map edev_of devs) com tgts)) else 0)) /\
      incl (qall devs') (id :: qall devs).
  Proof.
    intros Hcom. induction devs as [|d r IH]; intros Hd; cbn [map enqueue enq_all].
    - exists []. repeat split; auto. intros i. cbn. destruct (Z.eq_dec i id); lia. intros x [].
    - inversion Hd as [|? ? I Hr]; subst.
      destruct (fold_append_invH compress id tele args (enqueue_dev (edev_of d) com tgts) d I) as (d1 & E1 & I1 & S1 & Q1 & C1 & R1 & L1).
      { intros q Hin. destruct (enqueue_dev_props d com tgts q Hin Hcom) as (G1 & G2 & G3 & G4).
        split; [exact G1|]. split; [exact G2|]. split; [exact G3|]. split; [exact G4|]. exact (enqueue_dev_olen d com tgts q Hin). }
      unfold enqueue in *. cbn [map enq_all snd]. rewrite E1.
      destruct (IH Hr) as (r' & E2 & H2 & N2 & K2 & J2). rewrite E2.
      set (acts := enqueue_dev (edev_of d) com tgts) in *.
      set (d2 := match acts with [] => d1 | _ => expedite d1 end).
      assert (H3 : DInvH compress d2 /\ queued d2 = queued d ++ repeat id (length acts)).
      { unfold d2. destruct acts as [|q0 qs] eqn:Eq.
        - split; [exact I1|exact Q1].
        - destruct (expedite_invH compress d1 I1) as (X1 & X2 & X3). split; [exact X1|]. rewrite X3. exact Q1. }
      destruct H3 as [X1 X3].
      eexists. split; [reflexivity|]. split; [constructor; assumption|]. split; [cbn; now rewrite N2|]. split.
      + intros i. unfold qall in *. cbn [flat_map total fold_right snd]. rewrite !cnt_app, X3, cnt_app, (K2 i).
        fold (total (map (fun d0 => (ed_name d0, enqueue_dev d0 com tgts)) (map edev_of r))).
        destruct (Z.eq_dec i id) as [->|Hne]; [rewrite cnt_repeat_eq; lia|rewrite cnt_repeat_neq by congruence; lia].
      + unfold qall in *. cbn [flat_map]. rewrite X3. intros x Hx. apply in_app_or in Hx as [Hx|Hx].
        * apply in_app_or in Hx as [Hx|Hx]; [right; apply in_or_app; now left|left; now apply repeat_spec in Hx].
        * destruct (J2 x Hx) as [->|Hx']; [now left|right; apply in_or_app; now right].
  Qed.

  Lemma CInv_replace devs devs' : forall cl j x y,
    nth_error cl j = Some x -> cid y = cid x -> NoDup (map cid cl) -> cli_ok y ->
    (forall i, cnt i (qall devs') = cnt i (qall devs) + (if Z.eq_dec i (cid x) then pend (dc y) - pend (dc x) else 0)) ->
    CInv [] devs cl -> CInv [] devs' (upd_nth cl j (fun _ => y)).
  Proof.
    unfold CInv. induction cl as [|a r IH]; intros [|j] x y Hn Hy Hnd Ky Hq H; cbn [nth_error upd_nth app] in *; try discriminate.
    - assert (a = x) by congruence. subst a. inversion H as [|? ? [Hi Hp] Hr]. inversion Hnd as [|? ? Hnotin Hnd'].
      constructor.
      + split; [exact Ky|]. rewrite Hy, (Hq (cid x)). destruct (Z.eq_dec (cid x) (cid x)); [lia|congruence].
      + clear - Hr Hnotin Hq. induction r as [|b r IHr]; [constructor|]. inversion Hr as [|? ? [Hi Hp] Hr']; subst. constructor.
        * split; [exact Hi|]. rewrite (Hq (cid b)). destruct (Z.eq_dec (cid b) (cid x)) as [E|_]; [exfalso; apply Hnotin; left; exact E|lia].
        * apply IHr; [exact Hr'|]. intros Hin. apply Hnotin. now right.
    - inversion H as [|? ? [Hi Hp] Hr]. inversion Hnd as [|? ? Hnotin Hnd']. constructor.
      + split; [exact Hi|]. rewrite (Hq (cid a)). destruct (Z.eq_dec (cid a) (cid x)) as [E|_]; [|lia].
        exfalso. apply Hnotin. rewrite E. apply (in_map cid). eapply nth_error_In; exact Hn.
      + eapply IH; eauto.
  Qed.

  Definition same_static (st st' : daemon) : Prop :=
    dm_pipe st' = dm_pipe st /\ dm_seq st' = dm_seq st /\ length (dm_devs st') = length (dm_devs st).

  (* _handle_input: every line is answered or queued; the cross-layer invariant survives each of them *)
  Lemma handle_input_inv fuel : forall st i acc,
    DPInv st ->
    exists st' evs, handle_input expand_str ranged_sorted ranged_plain sorted fuel st i acc = Ok (st', evs) /\ DPInv st' /\ same_static st st'.
  Proof.
    induction fuel as [|f IH]; intros st i acc I; cbn [handle_input]; [exists st, acc; split; [reflexivity|split; [exact I|repeat split]]|].
    destruct (nth_error (dm_clients st) i) as [x|] eqn:En; [|exists st, acc; split; [reflexivity|split; [exact I|repeat split]]].
    destruct (take_line [] (dc_from x)) as [[line rest]|] eqn:Et; [|exists st, acc; split; [reflexivity|split; [exact I|repeat split]]].
    destruct (parse (cconf_of st) (dm_store st) (dc x) line) as [[[cf' store'] c'] q] eqn:Ep.
    assert (Hx : cli_ok x /\ pend (dc x) = cnt (cid x) (qall (dm_devs st))).
    { pose proof (dp_cinv _ I) as H. unfold CInv in H. rewrite Forall_forall in H. apply (H x). eapply nth_error_In; exact En. }
    destruct Hx as [Kx Px]. pose proof Kx as [Ix (toks & Ho & Ht & Hs)].
    destruct (parse_input_toks expand_str ranged_sorted ranged_plain sorted _ _ _ _ _ _ _ _ Ep Ix) as (d & Ho' & Hr' & Ht' & I' & _).
    pose proof (parse_input_id expand_str ranged_sorted ranged_plain sorted _ _ _ _ _ _ _ _ Ep) as Hid.
    (* the record that replaces x *)
    set (x' := set_dc c' (mkDcli (dc x) rest (dc_to x) (dc_nl x) (S (dc_lines x)) (dc_eof x) (dc_bad x) (dc_sent x))).
    assert (Kx' : cli_ok x').
    { split; [exact I'|]. exists (toks ++ d). unfold x'. cbn [set_dc dc dc_lines dc_bad]. split; [rewrite Ho', Ho, render_app; reflexivity|].
      split; [rewrite terminals_app; lia|].
      intros Hb. apply orb_false_iff in Hb as [Hb Hov]. cbn [dc dc_to dc_bad] in Hb, Hov. destruct (Hs Hb) as [(st0 & q0 & R & C & Q) Hsent]. unfold rq_ok in Q.
      destruct (dc_eof x) eqn:Ee; [destruct Q as [_ Q]; unfold no_line in Q; rewrite Et in Q; discriminate|]. subst q0.
      destruct (Hr' st0 C) as (st1 & R1 & C1). split.
      - exists st1, (cl_quit c'). split; [rewrite run_app, R; exact R1|]. split; [exact C1|]. unfold rq_ok. cbn [set_dc dc dc_eof]. try rewrite Ee. reflexivity.
      - cbn [set_dc dc dc_sent dc_to]. rewrite (cbuf_put_fits _ _ Hov). rewrite Ho', skipn_length_app, Hsent, <- app_assoc. reflexivity. }
    assert (Hcid : cid x' = cid x) by (unfold x', cid; cbn; exact Hid).
    assert (Hdc : dc x' = c') by reflexivity.
    destruct (cl_cmd (dc x)) as [k|] eqn:Ek.
    - (* a command is in progress: 208 (or 203), nothing is queued *)
      destruct (parse_busy_q _ _ _ _ _ _ _ _ k Ek Ep) as [-> Hk'].
      match goal with |- context [handle_input _ _ _ _ f ?s i ?a] => destruct (IH s i a) as (st' & evs & E & I2 & S2) end.
      { constructor; cbn [dm_devs dm_clients dm_seq].
        - exact (dp_devs _ I).
        - unfold ids. cbn [dm_clients]. rewrite (upd_nth_same cid _ i x); [exact (dp_nodup _ I)|exact En|exact Hcid].
        - eapply CInv_same_cmd; [exact En|exact Hcid| |exact Kx'|exact (dp_cinv _ I)]. rewrite Hdc, Hk', Ek. reflexivity.
        - unfold ids. cbn [dm_clients]. rewrite (upd_nth_same cid _ i x); [exact (dp_qseq _ I)|exact En|exact Hcid].
        - rewrite (parse_busy_store _ _ _ _ _ _ _ _ k Ek Ep).
          refine (SInv_eq _ _ _ _ _ (SInv_upd_client st i x x' En Hcid _ (dp_slots _ I))); try reflexivity.
          unfold cmd_slot. rewrite Hdc, Hk', Ek. reflexivity. }
      exists st', evs. split; [exact E|]. split; [exact I2|]. destruct S2 as (S1 & S3 & S4). repeat split; auto.
    - (* idle *)
      destruct (parse_idle expand_str ranged_sorted ranged_plain sorted _ _ _ _ _ _ _ _ Ek Ep) as [(-> & Hn' & Hst' & _)|(k & al & Hk' & Hst' & Hpk & Htot & Hka & _ & _ & _ & Hq)].
      + (* answered at once *)
        match goal with |- context [handle_input _ _ _ _ f ?s i ?a] => destruct (IH s i a) as (st' & evs & E & I2 & S2) end.
        { constructor; cbn [dm_devs dm_clients dm_seq].
          - exact (dp_devs _ I).
          - unfold ids. cbn [dm_clients]. rewrite (upd_nth_same cid _ i x); [exact (dp_nodup _ I)|exact En|exact Hcid].
          - eapply CInv_same_cmd; [exact En|exact Hcid| |exact Kx'|exact (dp_cinv _ I)]. rewrite Hdc, Hn', Ek. reflexivity.
          - unfold ids. cbn [dm_clients]. rewrite (upd_nth_same cid _ i x); [exact (dp_qseq _ I)|exact En|exact Hcid].
          - rewrite Hst'.
            refine (SInv_eq _ _ _ _ _ (SInv_upd_client st i x x' En Hcid _ (dp_slots _ I))); try reflexivity.
            unfold cmd_slot. rewrite Hdc, Hn', Ek. reflexivity. }
        exists st', evs. split; [exact E|]. split; [exact I2|]. destruct S2 as (S1 & S3 & S4). repeat split; auto.
      + (* a command is queued on the devices *)
        assert (Hval : In (k_com k) (power_coms ++ query_coms)).
        { apply valid_com_In. unfold cmd_inv in I'. rewrite Hk' in I'. tauto. }
        assert (Hq' : q = enqueue (map edev_of (dm_devs st)) (k_com k) (k_targets k)).
        { rewrite Hq. unfold cconf_of. cbn [cf_devs]. now rewrite zip_edevs. }
        destruct (enq_all_inv (cl_id (dc x)) (cl_tele (dc x)) (length (dm_store st)) (k_com k) (k_targets k) Hval (dm_devs st) (dp_devs _ I))
          as (devs' & Ee & Hd' & Nd' & Kc & Jc).
        rewrite <- Hq' in Ee, Kc.
        assert (Hqne : q <> []) by (intros ->; cbn in Htot; lia).
        destruct q as [|q0 qr]; [congruence|]. rewrite Ee.
        match goal with |- context [handle_input _ _ _ _ f ?s i ?a] => destruct (IH s i a) as (st' & evs & E & I2 & S2) end.
        { constructor; cbn [dm_devs dm_clients dm_seq].
          - exact Hd'.
          - unfold ids. cbn [dm_clients]. rewrite (upd_nth_same cid _ i x); [exact (dp_nodup _ I)|exact En|exact Hcid].
          - eapply (CInv_replace (dm_devs st) devs' _ i x x'); [exact En|exact Hcid|exact (dp_nodup _ I)|exact Kx'| |exact (dp_cinv _ I)].
            intros j. rewrite (Kc j). unfold cid. destruct (Z.eq_dec j (cl_id (dc x))); [|reflexivity].
            rewrite Hdc. unfold pend. rewrite Hk', Ek, Hpk. lia.
          - unfold ids. cbn [dm_clients]. rewrite (upd_nth_same cid _ i x); [|exact En|exact Hcid].
            pose proof (dp_qseq _ I) as Hsq. rewrite Forall_forall in *. intros z Hz. apply Hsq.
            apply in_app_or in Hz as [Hz|Hz]; [|apply in_or_app; now right].
            destruct (Jc z Hz) as [<-|Hz']; [|apply in_or_app; now left].
            apply in_or_app. right. apply (in_map cid). eapply nth_error_In; exact En.
          - rewrite Hst'. destruct (enq_all_slots (cl_id (dc x)) (cl_tele (dc x)) (length (dm_store st)) _ _ _ Ee (si_cb _ (dp_slots _ I))) as [Ecb Einc].
            apply (SInv_enqueue st i x x' devs' al (dp_slots _ I) (dp_nodup _ I) En Hcid); auto.
            + unfold cmd_slot. now rewrite Ek.
            + unfold cmd_slot. rewrite Hdc, Hk', Hka. reflexivity. }
        exists st', evs. split; [exact E|]. split; [exact I2|]. destruct S2 as (S1 & S3 & S4). cbn [dm_pipe dm_seq dm_devs] in *. repeat split; auto. lia.
  Qed.

  Lemma DPInv_upd_client st i x y :
    nth_error (dm_clients st) i = Some x -> cid y = cid x -> cl_cmd (dc y) = cl_cmd (dc x) -> (cli_ok x -> cli_ok y) ->
    DPInv st -> DPInv (set_clients st (upd_nth (dm_clients st) i (fun _ => y))).
  Proof.
    intros En Hc Hk Hok I.
    assert (Kx : cli_ok x) by (pose proof (dp_cinv _ I) as H; unfold CInv in H; rewrite Forall_forall in H; apply (H x); eapply nth_error_In; exact En).
    assert (Ky : cli_ok y) by exact (Hok Kx).
    constructor; cbn [set_clients dm_devs dm_clients dm_seq].
    - exact (dp_devs _ I).
    - unfold ids, set_clients. cbn [dm_clients]. rewrite (upd_nth_same cid _ i x); [exact (dp_nodup _ I)|exact En|exact Hc].
    - eapply CInv_same_cmd; [exact En|exact Hc|exact Hk|exact Ky|exact (dp_cinv _ I)].
    - unfold ids, set_clients. cbn [dm_clients]. rewrite (upd_nth_same cid _ i x); [exact (dp_qseq _ I)|exact En|exact Hc].
    - unfold set_clients. apply (SInv_upd_client st i x y En Hc); [unfold cmd_slot; now rewrite Hk|exact (dp_slots _ I)].
  Qed.

  Lemma Forall_remove_nth {A} (P : A -> Prop) : forall (l : list A) i, Forall P l -> Forall P (remove_nth l i).
  Proof. induction l as [|a l IH]; intros [|i] H; cbn; auto; inversion H; subst; auto. Qed.
  Lemma incl_remove_nth {A} : forall (l : list A) i, incl (remove_nth l i) l.
  Proof.
    induction l as [|a l IH]; intros [|i]; cbn [remove_nth].
    - apply incl_refl.
    - apply incl_refl.
    - apply incl_tl, incl_refl.
    - apply incl_cons; [now left|apply incl_tl, IH].
  Qed.
  Lemma NoDup_remove_nth {A} : forall (l : list A) i, NoDup l -> NoDup (remove_nth l i).
  Proof.
    induction l as [|a l IH]; intros [|i] H; cbn [remove_nth]; auto.
    - inversion H; assumption.
    - inversion H as [|? ? Hn Hd]; subst. constructor; [|apply IH; exact Hd].
      intros Hin. apply Hn. eapply incl_remove_nth; exact Hin.
  Qed.

  Lemma DPInv_remove st i : DPInv st -> DPInv (set_clients st (remove_nth (dm_clients st) i)).
  Proof.
    intros I. constructor; cbn [set_clients dm_devs dm_clients dm_seq].
    - exact (dp_devs _ I).
    - unfold ids, set_clients. cbn [dm_clients]. rewrite remove_nth_map. apply NoDup_remove_nth. exact (dp_nodup _ I).
    - unfold CInv. apply Forall_remove_nth. exact (dp_cinv _ I).
    - pose proof (dp_qseq _ I) as H. rewrite Forall_forall in *. intros z Hz. apply H. apply in_app_or in Hz as [Hz|Hz]; apply in_or_app; [now left|right].
      unfold ids, set_clients in *. cbn [dm_clients] in Hz. rewrite remove_nth_map in Hz. eapply incl_remove_nth; exact Hz.
    - unfold set_clients. apply SInv_remove. exact (dp_slots _ I).
  Qed.

  (* what a read / a write on the descriptor does to the record keeps it well formed *)
  Lemma cli_ok_same x y :
    cl_cmd (dc y) = cl_cmd (dc x) -> cl_out (dc y) = cl_out (dc x) -> dc_lines y = dc_lines x ->
    (dc_bad y = false -> dc_bad x = false /\ dc_sent y ++ dc_to y = dc_sent x ++ dc_to x /\ (forall q, rq_ok x q -> rq_ok y q)) ->
    cli_ok x -> cli_ok y.
  Proof.
    intros Hk Ho Hl Hb [Ix (toks & H1 & H2 & H3)]. split; [unfold cmd_inv in *; now rewrite Hk|]. exists toks.
    split; [now rewrite Ho|]. split; [unfold busy in *; now rewrite Hk, Hl|].
    intros Hy. destruct (Hb Hy) as (Hx & Hs & Hq). destruct (H3 Hx) as [(st & q & R & [O A] & Q) Hsent]. split.
    - exists st, q. split; [exact R|]. split; [split; [exact O|unfold busy in *; now rewrite Hk]|exact (Hq q Q)].
    - now rewrite Ho, Hs.
  Qed.

  Lemma cli_one_inv st i ci : DPInv st -> NL st ->
    exists st' evs dead, cli_one expand_str ranged_sorted ranged_plain sorted st i ci = Ok (st', evs, dead) /\ DPInv st' /\ same_static st st' /\ NL st'.
  Proof.
    intros I Hnl.
    assert (Hnl' : forall st' evs dead, cli_one expand_str ranged_sorted ranged_plain sorted st i ci = Ok (st', evs, dead) -> NL st')
      by (intros st' evs dead E; exact (cli_one_nl expand_str ranged_sorted ranged_plain sorted st i ci st' evs dead Hnl E)).
    revert Hnl'. unfold cli_one. destruct (nth_error (dm_clients st) i) as [x|] eqn:En; [|intros _; exists st, [], false; split; [reflexivity|split; [exact I|repeat split; exact Hnl]]].
    destruct (ci_bad ci); [intros _; exists st, [], true; split; [reflexivity|split; [exact I|repeat split; exact Hnl]]|].
    assert (Hlx : no_line x) by (eapply Hnl; exact En).
    set (x1 := if ci_in ci then _ else x).
    match goal with |- context [let '(x2, w) := ?e in _] => destruct e as [x2 w] eqn:E2 end.
    assert (H1 : cid x1 = cid x /\ cl_cmd (dc x1) = cl_cmd (dc x) /\ (cli_ok x -> cli_ok x1)).
    { unfold x1. destruct (ci_in ci); [destruct (ci_read ci) as [[|b r]|]|]; (split; [reflexivity|split; [reflexivity|]]); try (intros K; exact K).
      - apply cli_ok_same; try reflexivity. cbn [set_eof set_quit dc_bad dc dc_sent dc_to]. intros Hb. split; [exact Hb|]. split; [reflexivity|].
        intros q Hq. unfold rq_ok in *. cbn [set_eof set_quit dc dc_eof cl_quit]. split; [reflexivity|].
        unfold no_line. cbn [set_eof set_quit dc_from]. exact Hlx.
      - apply cli_ok_same; try reflexivity. cbn [dc_bad dc dc_sent dc_to]. intros Hb. apply orb_false_iff in Hb as [Hb He]. split; [exact Hb|]. split; [reflexivity|].
        intros q Hq. unfold rq_ok in *. cbn [dc dc_eof]. rewrite He in *. exact Hq.
      - apply cli_ok_same; try reflexivity. cbn [set_eof set_quit dc_bad dc dc_sent dc_to]. intros Hb. split; [exact Hb|]. split; [reflexivity|].
        intros q Hq. unfold rq_ok in *. cbn [set_eof set_quit dc dc_eof cl_quit]. split; [reflexivity|].
        unfold no_line. cbn [set_eof set_quit dc_from]. exact Hlx. }
    destruct H1 as (B1 & B2 & B3).
    assert (H2 : cid x2 = cid x /\ cl_cmd (dc x2) = cl_cmd (dc x) /\ (cli_ok x -> cli_ok x2)).
    { destruct (ci_out ci); [destruct (ci_wrote ci) as [n|]|]; inversion E2; subst x2 w; clear E2.
      - split; [exact B1|]. split; [exact B2|]. intros K. apply (cli_ok_same x1); try reflexivity; [|exact (B3 K)].
        cbn [dc_bad dc dc_sent dc_to]. intros Hb. split; [exact Hb|]. split; [rewrite <- app_assoc, firstn_skipn; reflexivity|].
        intros q Hq. exact Hq.
      - split; [exact B1|]. split; [exact B2|]. intros K. apply (cli_ok_same x1); try reflexivity; [|exact (B3 K)].
        cbn [dc_bad]. discriminate.
      - split; [exact B1|]. split; [exact B2|exact B3]. }
    destruct H2 as (A1 & A2 & A3).
    pose proof (DPInv_upd_client st i x x2 En A1 A2 A3 I) as I1.
    match goal with |- context [handle_input _ _ _ _ ?f ?s i ?a] => destruct (handle_input_inv f s i a I1) as (st2 & evs & E & I2 & S2) end.
    rewrite E. intros Hnl'. eexists _, _, _. split; [reflexivity|]. split; [exact I2|]. split; [exact S2|]. eapply Hnl'. reflexivity.
  Qed.

  Lemma cli_loop_inv : forall cins st i acc, DPInv st -> NL st ->
    exists st' evs, cli_loop expand_str ranged_sorted ranged_plain sorted st i cins acc = Ok (st', evs) /\ DPInv st' /\ same_static st st' /\ NL st'.
  Proof.
    induction cins as [|ci r IH]; intros st i acc I Hnl; cbn [cli_loop]; [exists st, acc; split; [reflexivity|split; [exact I|repeat split; exact Hnl]]|].
    destruct (cli_one_inv st i ci I Hnl) as (st1 & evs1 & dead & E1 & I1 & S1 & N1). rewrite E1.
    destruct dead.
    - match goal with |- context [cli_loop _ _ _ _ ?s i r ?a] => destruct (IH s i a (DPInv_remove st1 i I1) (remove_nth_nl st1 i N1)) as (st' & evs & E & I' & S' & N') end.
      exists st', evs. split; [exact E|]. split; [exact I'|]. split; [|exact N']. destruct S1 as (B1 & B2 & B3), S' as (C1 & C2 & C3). cbn [set_clients dm_pipe dm_seq dm_devs] in *. repeat split; congruence.
    - destruct (IH st1 (S i) (acc ++ evs1) I1 N1) as (st' & evs & E & I' & S' & N'). exists st', evs. split; [exact E|]. split; [exact I'|]. split; [|exact N'].
      destruct S1 as (B1 & B2 & B3), S' as (C1 & C2 & C3). repeat split; congruence.
  Qed.

  (* one pass of the select loop: from a state that satisfies the cross-layer invariant (devices of any transport),
     the pass returns Ok - never aborts / exits / corrupts memory, never runs out of loop fuel (Hang) - and re-establishes the
     invariant *)
  Theorem dstep_inv st r : DPInv st -> NL st -> 1 <= dm_seq st < INT_MAX ->
    match dstep expand_str ranged_sorted ranged_plain sorted rmatch compress short_circuit st r with
    | Ok (st', o) => DPInv st' /\ NL st' /\ (forall t, do_tmo o = Some t -> 0 < t) /\ length (dm_devs st') = length (dm_devs st) /\
                     dm_seq st <= dm_seq st' <= dm_seq st + 1
    | _ => False
    end.
  Proof.
    intros I Hnl Hseq. unfold dstep, cli_post_poll.
    set (sa := if r_accept r then _ else _).
    assert (Ha : DPInv (fst sa) /\ NL (fst sa) /\ length (dm_devs (fst sa)) = length (dm_devs st) /\ dm_seq st <= dm_seq (fst sa) <= dm_seq st + 1).
    { unfold sa. destruct (r_accept r); [|cbn [fst]; split; [exact I|split; [exact Hnl|split; [reflexivity|lia]]]].
      unfold next_id. fold INT_MAX. destruct (dm_seq st <? INT_MAX) eqn:E; [|apply Z.ltb_ge in E; lia]. cbn [fst].
      split; [|split; [|split; [reflexivity|cbn [dm_seq]; lia]]].
      2:{ intros p x. cbn [dm_clients]. destruct (Nat.lt_ge_cases p (length (dm_clients st))) as [Hlt|Hge].
          - rewrite nth_error_app1 by exact Hlt. apply Hnl.
          - rewrite nth_error_app2 by exact Hge. destruct (p - length (dm_clients st))%nat as [|k]; cbn; [|destruct k; discriminate].
            intros H; inversion H; subst. reflexivity. }
      pose proof (dp_qseq _ I) as Hq. rewrite Forall_forall in Hq.
      constructor; cbn [dm_devs dm_clients dm_seq].
      - exact (dp_devs _ I).
      - unfold ids. cbn [dm_clients]. rewrite map_app. cbn [map]. apply NoDup_app_single_fresh; [exact (dp_nodup _ I)|].
        intros Hin. unfold cid in Hin. cbn in Hin. specialize (Hq (dm_seq st)). assert (1 <= dm_seq st < dm_seq st) by (apply Hq; apply in_or_app; now right). lia.
      - unfold CInv. apply Forall_app. split; [exact (dp_cinv _ I)|]. constructor; [|constructor]. split.
        + split; [exact Logic.I|]. exists [TLine 1 (dm_version st); TPrompt]. cbn [dc new_client cl_out dc_lines busy cl_cmd].
          split; [rewrite fmt_version; cbn [render flat_map render1]; now rewrite !app_nil_r|]. split; [reflexivity|].
          intros _. split; [|reflexivity]. exists (PReady false), false. split; [reflexivity|]. split; [split; [left; reflexivity|reflexivity]|reflexivity].
        + cbn [dc new_client pend cl_cmd app]. unfold cid. cbn [dc new_client cl_id]. symmetry. apply cnt_notin.
          intros Hin. assert (1 <= dm_seq st < dm_seq st) by (apply Hq; apply in_or_app; now left). lia.
      - rewrite Forall_forall. intros z Hz. unfold ids in Hz. cbn [dm_clients] in Hz. rewrite map_app in Hz. cbn [map] in Hz.
        rewrite app_assoc in Hz. apply in_app_or in Hz as [Hz|[<-|[]]].
        + specialize (Hq z Hz). lia.
        + unfold cid. cbn. lia.
      - apply SInv_accept; [exact (dp_slots _ I)|reflexivity|].
        intros Hin. unfold cid in Hin. cbn in Hin. assert (1 <= dm_seq st < dm_seq st) by (apply Hq; apply in_or_app; now left). lia. }
    destruct sa as [sta e1]. cbn [fst] in Ha. destruct Ha as (Ia & Na & La & Sa).
    destruct (cli_loop_inv (pad_cins (length (dm_clients sta)) (r_cli r)) sta 0 e1 Ia Na) as (stb & e2 & El & Ib & Sb & Nb). rewrite El.
    destruct Sb as (B1 & B2 & B3).
    pose proof (dev_loop_inv (length (dm_devs stb)) (r_now r) stb 0 (r_dev r) None [] Ib) as Hd.
    assert (Hn : tmo_pos None) by (intros x Hx; discriminate). specialize (Hd Hn).
    destruct (dev_loop ranged_sorted rmatch compress short_circuit (length (dm_devs stb)) (r_now r) stb 0 (r_dev r) None []) as [[[stc tmo] e3]| | | |] eqn:Edl; try contradiction.
    destruct Hd as (Ic & Tc & _ & Sc & Lc & _). cbn [do_tmo]. split; [exact Ic|].
    split; [exact (dev_loop_nl ranged_sorted rmatch compress short_circuit _ _ _ _ _ _ _ _ _ _ Nb Edl)|]. split; [exact Tc|]. split; lia.
  Qed.

  (* ---------------------------------------------------------------- every history *)
  Definition rounds_plain (rs : list round) : Prop := Forall (fun r => pins_plain (r_dev r)) rs.

  Theorem drun_inv : forall rs st acc, DPInv st -> NL st ->
    1 <= dm_seq st -> dm_seq st + Z.of_nat (length rs) <= INT_MAX ->
    match drun expand_str ranged_sorted ranged_plain sorted rmatch compress short_circuit st rs acc with
    | Ok (st', outs) => DPInv st' /\ length (dm_devs st') = length (dm_devs st) /\
                        exists new, outs = acc ++ new /\ Forall (fun o => forall t, do_tmo o = Some t -> 0 < t) new
    | _ => False
    end.
  Proof.
    induction rs as [|r rs IH]; intros st acc I Hnl H1 Hn; cbn [drun].
    - split; [exact I|]. split; [reflexivity|]. exists []. split; [now rewrite app_nil_r|constructor].
    - cbn [length] in Hn.
      pose proof (dstep_inv st r I Hnl ltac:(lia)) as Hs.
      destruct (dstep expand_str ranged_sorted ranged_plain sorted rmatch compress short_circuit st r) as [[st1 o]| | | |]; try contradiction.
      destruct Hs as (I1 & N1 & T1 & L1 & S1).
      specialize (IH st1 (acc ++ [o]) I1 N1 ltac:(lia) ltac:(lia)).
      destruct (drun expand_str ranged_sorted ranged_plain sorted rmatch compress short_circuit st1 rs (acc ++ [o])) as [[st' outs]| | | |]; try contradiction.
      destruct IH as (I' & L' & new & -> & F'). split; [exact I'|]. split; [congruence|].
      exists (o :: new). split; [now rewrite <- app_assoc|]. constructor; assumption.
  Qed.

  (* start-up: no client yet, devices as the parser leaves them (DInvH: mk_device_invH from cfg_ok and nest_ok of the scripts;
     SpecBridge.shipped_invH for every shipped specification) *)
  Definition boot (st : daemon) : Prop :=
    dm_clients st = [] /\ dm_seq st = 1 /\
    Forall (fun d => DInvH compress d /\ dv_cstate d = DEV_NOT_CONNECTED /\ queued d = [] /\ dv_acts d = []) (dm_devs st).

  Lemma init_loop_inv now : forall devs plans i,
    Forall (fun d => DInvH compress d /\ dv_cstate d = DEV_NOT_CONNECTED /\ queued d = [] /\ dv_acts d = []) devs ->
    exists devs' evs, init_loop now devs plans i = Ok (devs', evs) /\ DevsInv devs' /\ qall devs' = [] /\ length devs' = length devs /\
                      Forall ArgsCb devs' /\ aslots devs' = [].
  Proof.
    induction devs as [|d r IH]; intros plans i H; cbn [init_loop].
    - exists [], []. repeat split; auto.
    - inversion H as [|? ? (I & Hc & Hq & Ha) Hr]; subst.
      destruct (connect_invH compress now d (hd [] plans) I Hc) as (d1 & pl & E1 & _ & I1 & _ & Q1 & _ & R1 & _ & _ & A1 & A2).
      rewrite E1. destruct (IH (tl plans) (S i) Hr) as (r' & e2 & E2 & H2 & Q2 & N2 & C2 & S2). rewrite E2.
      assert (Hd1 : ArgsCb d1 /\ dslots d1 = []).
      { destruct (Z.eq_dec (dv_cstate d1) DEV_CONNECTED) as [Ec|Ec].
        - destruct (A1 Ec) as (s & _ & Eacts). unfold ArgsCb, dslots. rewrite Eacts, Ha. split; [constructor; [intros X; cbn in X; congruence|constructor]|reflexivity].
        - unfold ArgsCb, dslots. rewrite (A2 Ec), Ha. split; [constructor|reflexivity]. }
      destruct Hd1 as [Hd1 Hd2].
      eexists _, _. split; [reflexivity|]. split; [constructor; [exact I1|exact H2]|].
      split; [unfold qall in *; cbn [flat_map]; now rewrite Q1, Hq, Q2|]. split; [cbn; now rewrite N2|].
      split; [constructor; assumption|]. unfold aslots in *. cbn [flat_map]. now rewrite Hd2, S2.
  Qed.

  Theorem dinit_inv st now plans : boot st ->
    exists st1 o, dinit st now plans = Ok (st1, o) /\ DPInv st1 /\ dm_seq st1 = 1 /\ dm_pipe st1 = dm_pipe st /\ dm_clients st1 = [] /\
                  length (dm_devs st1) = length (dm_devs st).
  Proof.
    intros (Hc & Hs & Hd). unfold dinit. destruct (init_loop_inv now (dm_devs st) plans 0 Hd) as (devs' & evs & E & H1 & H2 & H3 & H4 & H5).
    rewrite E. eexists _, _. split; [reflexivity|]. cbn [dm_seq dm_pipe dm_clients dm_devs]. split; [|repeat split; auto]. constructor.
    - exact H1.
    - unfold ids. cbn [dm_clients]. rewrite Hc. constructor.
    - cbn [dm_clients]. rewrite Hc. constructor.
    - cbn [dm_devs dm_seq]. unfold ids. cbn [dm_clients]. rewrite H2, Hc. constructor.
    - constructor; cbn [dm_devs dm_clients dm_store].
      + exact H4.
      + rewrite H5. intros c s [].
      + rewrite Hc. intros x s [].
      + rewrite Hc. intros x y s [].
  Qed.

  (* the statements C04 / C02 / C06 / C07 / C11 quote: from start-up, over every history of passes *)
  Theorem daemon_invariant st now plans rs : boot st -> Z.of_nat (length rs) < INT_MAX - 1 ->
    exists st1 o, dinit st now plans = Ok (st1, o) /\
      match drun expand_str ranged_sorted ranged_plain sorted rmatch compress short_circuit st1 rs [] with
      | Ok (st', outs) =>
          (* (1) pending = number of queued actions of that client; (2) output so far = one terminal reply per line handed to
             _parse_input, minus the command in progress; (3) unique ids; (4) every device satisfies the device-layer invariant *)
          Forall (fun x => cli_ok x /\ pend (dc x) = cnt (cid x) (qall (dm_devs st'))) (dm_clients st') /\
          NoDup (ids st') /\ DevsInv (dm_devs st') /\
          Forall (fun o => forall t, do_tmo o = Some t -> 0 < t) outs
      | _ => False                (* never Exit / Abort / MemErr / Hang: in particular _act_finish always finds its command *)
      end.
  Proof.
    intros Hb Hn. destruct (dinit_inv st now plans Hb) as (st1 & o & E & I1 & S1 & P1 & C1 & _).
    exists st1, o. split; [exact E|].
    assert (N1 : NL st1) by (intros p x Hx; rewrite C1 in Hx; destruct p; discriminate Hx).
    pose proof (drun_inv rs st1 [] I1 N1 ltac:(lia) ltac:(rewrite S1; unfold INT_MAX in *; lia)) as H.
    destruct (drun expand_str ranged_sorted ranged_plain sorted rmatch compress short_circuit st1 rs []) as [[st' outs]| | | |]; try contradiction.
    destruct H as (I' & _ & new & -> & F). cbn [app]. split; [exact (dp_cinv _ I')|]. split; [exact (dp_nodup _ I')|]. split; [exact (dp_devs _ I')|exact F].
  Qed.

  (* what the protocol recogniser of Spec/Proto.v says of every client stream, in every reachable state: the bytes written
     so far followed by the bytes still queued are the rendering of a token list the recogniser accepts (001 banner and
     prompt first, documented codes only, 3xx lines only inside a reply, a prompt only after the banner or a terminal line),
     it is at rest unless a command is in progress, and it holds exactly one terminal line per request line handed to
     _parse_input, the outstanding one being the command in progress.  Excluded: a client whose descriptor failed on a
     write (its queued output was dropped) or delivered bytes after end-of-file (dc_bad). *)
  Definition stream_conforms (x : dcli) : Prop :=
    exists toks st, dc_sent x ++ dc_to x = render toks /\ run PStart toks = Some st /\
      (busy (dc x) = false -> at_rest st = true) /\ (terminals toks + b2n (busy (dc x)) = dc_lines x)%nat.

  Lemma cli_ok_conforms x : cli_ok x -> dc_bad x = false -> stream_conforms x.
  Proof.
    intros [_ (toks & Ho & Ht & Hs)] Hb. destruct (Hs Hb) as [(st & q & R & [_ A] & _) Hsent].
    exists toks, st. split; [rewrite <- Hsent; exact Ho|]. split; [exact R|]. split; [exact A|exact Ht].
  Qed.

  (* the shared result lists, from start-up over every history (Proofs/DaemonSlots.v): see SInv *)
  Theorem daemon_result_lists st now plans rs : boot st -> Z.of_nat (length rs) < INT_MAX - 1 ->
    exists st1 o, dinit st now plans = Ok (st1, o) /\
      match drun expand_str ranged_sorted ranged_plain sorted rmatch compress short_circuit st1 rs [] with
      | Ok (st', outs) => SInv st'
      | _ => False
      end.
  Proof.
    intros Hb Hn. destruct (dinit_inv st now plans Hb) as (st1 & o & E & I1 & S1 & P1 & C1 & _).
    exists st1, o. split; [exact E|].
    assert (N1 : NL st1) by (intros p x Hx; rewrite C1 in Hx; destruct p; discriminate Hx).
    pose proof (drun_inv rs st1 [] I1 N1 ltac:(lia) ltac:(rewrite S1; unfold INT_MAX in *; lia)) as H.
    destruct (drun expand_str ranged_sorted ranged_plain sorted rmatch compress short_circuit st1 rs []) as [[st' outs]| | | |]; try contradiction.
    destruct H as (I' & _). exact (dp_slots _ I').
  Qed.

  Theorem daemon_streams st now plans rs : boot st -> Z.of_nat (length rs) < INT_MAX - 1 ->
    exists st1 o, dinit st now plans = Ok (st1, o) /\
      match drun expand_str ranged_sorted ranged_plain sorted rmatch compress short_circuit st1 rs [] with
      | Ok (st', outs) => Forall (fun x => dc_bad x = false -> stream_conforms x) (dm_clients st')
      | _ => False
      end.
  Proof.
    intros Hb Hn. destruct (daemon_invariant st now plans rs Hb Hn) as (st1 & o & E & H). exists st1, o. split; [exact E|].
    destruct (drun expand_str ranged_sorted ranged_plain sorted rmatch compress short_circuit st1 rs []) as [[st' outs]| | | |]; try contradiction.
    destruct H as (H & _). eapply Forall_impl; [|exact H]. cbn beta. intros x [K _] Hbad. exact (cli_ok_conforms x K Hbad).
  Qed.
End P.
