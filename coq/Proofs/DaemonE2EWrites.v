(* C03, end to end over histories, the REPORTED half: "a node is shown on, off or with a value only if during this very
   query its device reported that for its plug".

   Proofs/DaemonE2E.v (c03_end_to_end) ends with "every Arg of the query's result list that is not as arglist_create left it
   was CHANGED BY THE DEVICE HALF of a pass after the command was created".  This file replaces "changed by the device half"
   by "written by a setplugstate / setresult statement executed for an action of THIS command":

   A third external ghost is threaded along a run of Model/Daemon.v, the REPORT LEDGER R : list report (the write events of
   Proofs/DeviceWrites.v, oldest first).  It is computed by functions that only CALL the model (dl_reports walks dev_loop one
   device at a time through `dev_loop 1`, pp_reports of DeviceWrites.v walks post_poll_one); the node / state / text of an
   event are computed by the SPECIFICATION's effect functions (Spec/ScriptSem.v state_effect / result_effect).  Proved, by
   induction over ANY run from `boot`:

     RInv   every Arg of every result list created during the run has each of its non-initial fields justified by an event
            of R for THAT list and THAT node (state <> unknown: a setplugstate event with that state; a value: an event with
            that text; result <> none: a setresult event with that result) - because the device half changes the store ONLY
            by replaying its events (DeviceWrites.Writes) and the client half only appends fresh lists;
            every event's list exists; the client whose command owns the list an event wrote is the client the event's
            action belonged to (lists are handed out once, and referred to by their owner's actions only: LInv.li_own);
     pass_of every event of R was produced in a pass of the history: by the device at some index j of the daemon as the client
            half of that pass left it, in an iteration of _process_action's loop whose head action carried the event's list
            and client id (DeviceWrites.dev_reports), the list existing and being owned by that client at that moment.
   c03_end_to_end_reported adds to c03_end_to_end, for a query that gets its terminal reply in a pass: every node of the
   reply's result list whose Arg has a state other than unknown (the node is listed on / off), a value (temperature) or a
   result is justified by an event of THIS list and THIS client, and every event has its pass. *)
From Coq Require Import List NArith ZArith Bool Lia Permutation.
From PM Require Import Base.Bytes Base.Outcome Gen.GenConsts Gen.GenClient Model.ScriptAst Model.Enqueue Model.Script Model.Device Model.DevHarness
                       Model.Client Model.CliWorld Model.Daemon Spec.Proto
                       Proofs.ClientProofs Proofs.ClientProto Proofs.ClientStream Proofs.ClientStreamQ Proofs.DeviceInv Proofs.DeviceRun Proofs.DeviceInvG
                       Proofs.DeviceRunG Proofs.DeviceHang Proofs.DeviceSlots Proofs.DaemonLedger Proofs.DaemonFrame Proofs.DaemonSlots Proofs.DaemonPending
                       Proofs.DaemonE2E Proofs.DeviceWrites.
From PM Require Proofs.ClientReply Model.Telnet.
Import ListNotations.
Local Open Scope Z_scope.

(* ---------------------------------------------------------------- justification of an Arg by events *)
(* the Arg a of node n in list s: every field that is not as arglist_create left it is what some event for (s, n) wrote *)
Definition J (s : nat) (n : text) (a : arg) (R : list report) : Prop :=
  (ar_state a <> ST_UNKNOWN -> exists w, In w R /\ hits s n w = true /\ rp_result w = false /\ rp_code w = ar_state a) /\
  (forall v, ar_val a = Some v -> exists w, In w R /\ hits s n w = true /\ rp_text w = v) /\
  (ar_result a <> RT_NONE -> exists w, In w R /\ hits s n w = true /\ rp_result w = true /\ rp_code w = ar_result a).

Lemma J_mono s n a R R' : incl R R' -> J s n a R -> J s n a R'.
Proof.
  intros Hi (A & B & C). split; [|split].
  - intros H. destruct (A H) as (w & Hw & K). exists w. split; [apply Hi, Hw|exact K].
  - intros v H. destruct (B v H) as (w & Hw & K). exists w. split; [apply Hi, Hw|exact K].
  - intros H. destruct (C H) as (w & Hw & K). exists w. split; [apply Hi, Hw|exact K].
Qed.
Lemma J_fresh s n a R : ar_state a = ST_UNKNOWN -> ar_result a = RT_NONE -> ar_val a = None -> J s n a R.
Proof. intros A B C. split; [|split]; [intros H; contradiction|intros v H; congruence|intros H; contradiction]. Qed.
Lemma J_step s n a R w : hits s n w = true -> J s n a R -> J s n (wr_arg w a) (R ++ [w]).
Proof.
  intros Hh Ja. pose proof (J_mono s n a R (R ++ [w]) (fun x Hx => in_or_app _ _ _ (or_introl Hx)) Ja) as (A & B & C).
  assert (Hw : In w (R ++ [w])) by (apply in_or_app; right; now left).
  unfold wr_arg. destruct (rp_result w) eqn:Er; cbn [ar_state ar_val ar_result]; (split; [|split]).
  - exact A.
  - intros v Hv. injection Hv as <-. exists w. auto.
  - intros _. exists w. auto.
  - intros _. exists w. auto.
  - intros v Hv. injection Hv as <-. exists w. auto.
  - exact C.
Qed.
Lemma J_replay s n : forall ws R oa, (forall a, oa = Some a -> J s n a R) -> forall a', replay s n ws oa = Some a' -> J s n a' (R ++ ws).
Proof.
  induction ws as [|w r IH]; intros R oa H a' Hr.
  - rewrite app_nil_r. exact (H a' Hr).
  - cbn [replay fold_left] in Hr. change (w :: r) with ([w] ++ r). rewrite app_assoc.
    refine (IH (R ++ [w]) _ _ a' Hr). intros a Ha. destruct (hits s n w) eqn:Eh.
    + destruct oa as [a0|]; [|discriminate Ha]. cbn [option_map] in Ha. injection Ha as <-. apply J_step; [exact Eh|exact (H a0 eq_refl)].
    + apply (J_mono s n a R); [intros x Hx; apply in_or_app; now left|exact (H a Ha)].
Qed.

(* every Arg of every list from slot b on is justified *)
Definition Just (b : nat) (R : list report) (store : list arglist) : Prop :=
  forall s n a, (b <= s)%nat -> arg_find (nth s store []) n = Some a -> J s n a R.

Lemma Just_writes b R store ws store' : Just b R store -> Writes store ws store' -> Just b (R ++ ws) store'.
Proof.
  intros Hj [_ Hw] s n a Hb Ha. rewrite Hw in Ha. refine (J_replay s n ws R _ _ a Ha). intros a0 Ha0. exact (Hj s n a0 Hb Ha0).
Qed.

(* ---------------------------------------------------------------- what the reply's result list says, in terms of events *)
(* every non-initial field of every Arg of al is what an event of list s, made for an action of client c, wrote for that node *)
Definition reported_args (s : nat) (c : Z) (al : arglist) (R : list report) : Prop :=
  forall n a, arg_find al n = Some a ->
    (ar_state a <> ST_UNKNOWN ->
       exists w, In w R /\ rp_slot w = s /\ rp_client w = c /\ rp_node w = n /\ rp_result w = false /\ rp_code w = ar_state a) /\
    (forall v, ar_val a = Some v ->
       exists w, In w R /\ rp_slot w = s /\ rp_client w = c /\ rp_node w = n /\ rp_text w = v) /\
    (ar_result a <> RT_NONE ->
       exists w, In w R /\ rp_slot w = s /\ rp_client w = c /\ rp_node w = n /\ rp_result w = true /\ rp_code w = ar_result a).

(* read through the reply (C03_partition / C03_temp_once): a node listed on (off) was reported on (off) by a setplugstate
   statement; a value that is printed is the text of a statement for that node *)
Lemma listed_was_reported s c (al : arglist) R n : reported_args s c al R ->
  (In n (ClientReply.on_nodes (args_iter al)) ->
     exists w, In w R /\ rp_slot w = s /\ rp_client w = c /\ rp_node w = n /\ rp_result w = false /\ rp_code w = ST_ON) /\
  (In n (ClientReply.off_nodes (args_iter al)) ->
     exists w, In w R /\ rp_slot w = s /\ rp_client w = c /\ rp_node w = n /\ rp_result w = false /\ rp_code w = ST_OFF) /\
  (forall a v, In a (args_iter al) -> ar_node a = n -> ar_val a = Some v ->
     exists w, In w R /\ rp_slot w = s /\ rp_client w = c /\ rp_node w = n /\ rp_text w = v).
Proof.
  intros H. destruct (ClientReply.status_lists_sound al n) as (Hon & Hoff & _). split; [|split].
  - intros Hl. apply Hon in Hl as (a & Ha & _ & Hs). destruct (H n a Ha) as (A & _ & _).
    rewrite <- Hs. apply A. rewrite Hs. discriminate.
  - intros Hl. apply Hoff in Hl as (a & Ha & _ & Hs). destruct (H n a Ha) as (A & _ & _).
    rewrite <- Hs. apply A. rewrite Hs. discriminate.
  - intros a v Ha Hn Hv. pose proof (ClientReply.args_iter_canonical al a Ha) as Hc. rewrite Hn in Hc.
    destruct (H n a Hc) as (_ & B & _). exact (B v Hv).
Qed.

Section W.
  Variable expand_str : text -> option (list text).
  Variable ranged_sorted : list text -> text.
  Variable ranged_plain : list text -> text.
  Variable sorted : list text -> list text.
  Variable rmatch : text -> text -> option pmatch.
  Variable compress : list text -> text.
  Variable short_circuit : bool.

  Notation parse := (parse_input expand_str ranged_sorted ranged_plain sorted).
  Notation handle_input := (handle_input expand_str ranged_sorted ranged_plain sorted).
  Notation cli_one := (cli_one expand_str ranged_sorted ranged_plain sorted).
  Notation cli_loop := (cli_loop expand_str ranged_sorted ranged_plain sorted).
  Notation cli_post_poll := (cli_post_poll expand_str ranged_sorted ranged_plain sorted).
  Notation dev_loop := (dev_loop ranged_sorted rmatch compress short_circuit).
  Notation dstep := (dstep expand_str ranged_sorted ranged_plain sorted rmatch compress short_circuit).
  Notation drun := (drun expand_str ranged_sorted ranged_plain sorted rmatch compress short_circuit).
  Notation DPInv := (DPInv compress).
  Notation EInv := (EInv compress).
  Notation LInv := (LInv).
  Notation pp_reports := (pp_reports rmatch compress short_circuit).
  Notation dev_reports := (dev_reports rmatch).
  Notation dstep_led := (dstep_led expand_str ranged_sorted ranged_plain sorted rmatch compress short_circuit).
  Notation drun_led := (drun_led expand_str ranged_sorted ranged_plain sorted rmatch compress short_circuit).
  Notation dstep_wr := (dstep_wr expand_str ranged_sorted ranged_plain sorted rmatch compress short_circuit).
  Notation drun_wr := (drun_wr expand_str ranged_sorted ranged_plain sorted rmatch compress short_circuit).
  Notation cpp_led := (cpp_led expand_str ranged_sorted ranged_plain sorted).

  (* ---------------------------------------------------------------- the client half: who owns which list *)
  (* a command's list is the list it had before (same client id), or a list that did not exist before *)
  Definition Keep (st st' : daemon) : Prop :=
    (length (dm_store st) <= length (dm_store st'))%nat /\
    forall x' s, In x' (dm_clients st') -> cmd_slot x' = Some s ->
      (exists x, In x (dm_clients st) /\ cid x = cid x' /\ cmd_slot x = Some s) \/ (length (dm_store st) <= s)%nat.

  Lemma Keep_refl st : Keep st st.
  Proof. split; [lia|]. intros x' s Hx Hs. left. exists x'. auto. Qed.
  Lemma Keep_trans a b c : Keep a b -> Keep b c -> Keep a c.
  Proof.
    intros [L1 H1] [L2 H2]. split; [lia|]. intros x'' s Hx Hs.
    destruct (H2 x'' s Hx Hs) as [(x' & Hx' & Hc' & Hs')|Hge]; [|right; lia].
    destruct (H1 x' s Hx' Hs') as [(x & Hx0 & Hc0 & Hs0)|Hge]; [|right; exact Hge].
    left. exists x. split; [exact Hx0|]. split; [congruence|exact Hs0].
  Qed.
  (* replacing the record at position i by one with the same id whose list is the old one, none, or the next new one *)
  Lemma Keep_step st i x y nodes devs seq store' :
    nth_error (dm_clients st) i = Some x -> cid y = cid x ->
    (cmd_slot y = cmd_slot x \/ cmd_slot y = None \/ cmd_slot y = Some (length (dm_store st))) ->
    (length (dm_store st) <= length store')%nat ->
    Keep st (mkDaemon nodes (dm_aliases st) (dm_specs st) (dm_pipe st) devs (upd_nth (dm_clients st) i (fun _ => y)) seq store' (dm_version st) (dm_tel st)).
  Proof.
    intros En Hc Hs Hl. split; [exact Hl|]. cbn [dm_clients dm_store]. intros x' s Hx' Hs'.
    apply In_upd_nth in Hx' as [->|Hx']; [|left; exists x'; auto].
    destruct Hs as [Hs|[Hs|Hs]].
    - left. exists x. split; [eapply nth_error_In; exact En|]. split; [now symmetry|congruence].
    - congruence.
    - right. rewrite Hs in Hs'. injection Hs' as <-. lia.
  Qed.
  Lemma Keep_remove st i :
    Keep st (mkDaemon (dm_nodes st) (dm_aliases st) (dm_specs st) (dm_pipe st) (dm_devs st) (remove_nth (dm_clients st) i)
                      (dm_seq st) (dm_store st) (dm_version st) (dm_tel st)).
  Proof.
    split; [cbn [dm_store]; lia|]. cbn [dm_clients dm_store]. intros x' s Hx' Hs'. left. exists x'.
    split; [exact (incl_remove_nth_cli _ _ _ Hx')|auto].
  Qed.
  Lemma Keep_accept st y seq' : cmd_slot y = None ->
    Keep st (mkDaemon (dm_nodes st) (dm_aliases st) (dm_specs st) (dm_pipe st) (dm_devs st) (dm_clients st ++ [y])
                      seq' (dm_store st) (dm_version st) (dm_tel st)).
  Proof.
    intros Hn. split; [cbn [dm_store]; lia|]. cbn [dm_clients dm_store]. intros x' s Hx' Hs'.
    apply in_app_or in Hx' as [Hx'|[<-|[]]]; [left; exists x'; auto|congruence].
  Qed.

  Lemma handle_input_keep fuel : forall st i acc st' evs, handle_input fuel st i acc = Ok (st', evs) -> Keep st st'.
  Proof.
    induction fuel as [|f IH]; intros st i acc st' evs; cbn [Daemon.handle_input]; [intros H; inversion H; subst; apply Keep_refl|].
    destruct (nth_error (dm_clients st) i) as [x|] eqn:En; [|intros H; inversion H; subst; apply Keep_refl].
    destruct (take_line [] (dc_from x)) as [[line rest]|]; [|intros H; inversion H; subst; apply Keep_refl].
    destruct (parse (cconf_of st) (dm_store st) (dc x) line) as [[[cf' store'] c'] q] eqn:Ep.
    set (x' := set_dc c' (mkDcli (dc x) rest (dc_to x) (dc_nl x) (S (dc_lines x)) (dc_eof x) (dc_bad x) (dc_sent x))).
    assert (Hdc : dc x' = c') by reflexivity.
    assert (Hcid : cid x' = cid x) by (unfold cid; rewrite Hdc; exact (parse_input_id expand_str ranged_sorted ranged_plain sorted _ _ _ _ _ _ _ _ Ep)).
    match goal with |- match ?e with _ => _ end = _ -> _ => destruct e as [devs'| | | |]; try discriminate end.
    intros H. apply IH in H. eapply Keep_trans; [|exact H].
    destruct (cl_cmd (dc x)) as [k|] eqn:Ek.
    - destruct (parse_busy_q expand_str ranged_sorted ranged_plain sorted _ _ _ _ _ _ _ _ k Ek Ep) as [_ Hk'].
      rewrite (parse_busy_store expand_str ranged_sorted ranged_plain sorted _ _ _ _ _ _ _ _ k Ek Ep).
      apply (Keep_step st i x x'); [exact En|exact Hcid| |lia]. left. unfold cmd_slot. rewrite Hdc, Hk', Ek. reflexivity.
    - destruct (parse_idle expand_str ranged_sorted ranged_plain sorted _ _ _ _ _ _ _ _ Ek Ep) as [(_ & Hn' & -> & _)|(k & al & Hk' & -> & _ & _ & Hka & _)].
      + apply (Keep_step st i x x'); [exact En|exact Hcid| |lia]. right; left. unfold cmd_slot. rewrite Hdc, Hn'. reflexivity.
      + apply (Keep_step st i x x'); [exact En|exact Hcid| |rewrite app_length; lia]. right; right. unfold cmd_slot. rewrite Hdc, Hk', Hka. reflexivity.
  Qed.

  Lemma cli_one_keep st i ci st' evs dead : cli_one st i ci = Ok (st', evs, dead) -> Keep st st'.
  Proof.
    rewrite (cli_one_eq expand_str ranged_sorted ranged_plain sorted).
    destruct (nth_error (dm_clients st) i) as [x|] eqn:En; [|intros H; inversion H; subst; apply Keep_refl].
    destruct (ci_bad ci); [intros H; inversion H; subst; apply Keep_refl|]. cbv zeta.
    match goal with |- match ?e with _ => _ end = _ -> _ => destruct e as [[st2 evs2]| | | |] eqn:Eh; try discriminate end.
    intros H; inversion H; subst. apply handle_input_keep in Eh. eapply Keep_trans; [|exact Eh].
    unfold set_client. apply (Keep_step st i x); [exact En| | |lia].
    - unfold cid, cli_write, cli_read. destruct (ci_out ci); [destruct (ci_wrote ci)|]; cbn [fst dc]; destruct (ci_in ci); try reflexivity; destruct (ci_read ci) as [[|b0 br]|]; reflexivity.
    - left. unfold cmd_slot, cli_write, cli_read. destruct (ci_out ci); [destruct (ci_wrote ci)|]; cbn [fst dc]; destruct (ci_in ci); try reflexivity; destruct (ci_read ci) as [[|b0 br]|]; reflexivity.
  Qed.

  Lemma cli_loop_keep : forall cins st i acc st' evs, cli_loop st i cins acc = Ok (st', evs) -> Keep st st'.
  Proof.
    induction cins as [|ci r IH]; intros st i acc st' evs; cbn [Daemon.cli_loop]; [intros H; inversion H; subst; apply Keep_refl|].
    destruct (cli_one st i ci) as [[[st1 evs1] dead]| | | |] eqn:E1; try discriminate.
    apply cli_one_keep in E1. destruct dead; intros H; apply IH in H.
    - eapply Keep_trans; [exact E1|]. eapply Keep_trans; [apply (Keep_remove st1 i)|exact H].
    - eapply Keep_trans; eauto.
  Qed.

  Lemma cli_post_poll_keep st r st' evs : cli_post_poll st r = Ok (st', evs) -> Keep st st'.
  Proof.
    unfold Daemon.cli_post_poll. destruct (r_accept r); [|apply cli_loop_keep].
    destruct (next_id (dm_seq st)) as [id seq']. intros H. apply cli_loop_keep in H.
    eapply Keep_trans; [|exact H]. apply Keep_accept. reflexivity.
  Qed.

  (* ---------------------------------------------------------------- the report ledger along a run *)
  (* the events of dev_post_poll from device i on: those of device i's share, then (the state after that device's step being
     what the model's dev_loop returns with fuel 1) those of the devices behind it *)
  Fixpoint dl_reports (n : nat) (now : Z) (st : daemon) (i : nat) (pins : list passin) (tmo : option Z) : list report :=
    match n with
    | O => []
    | S n' =>
      match nth_error (dm_devs st) i with
      | None => []
      | Some d =>
        pp_reports now d (dm_store st) tmo (fst (with_pre (nth i (dm_pipe st) true) (nth i (dm_tel st) Telnet.telnet_init) (hd passin0 pins)))
        ++ match dev_loop 1 now st i pins tmo [] with
           | Ok (st2, tmo', _) => dl_reports n' now st2 (S i) (tl pins) tmo'
           | _ => []
           end
      end
    end.
  Definition pass_reports (st : daemon) (r : round) : list report :=
    match cli_post_poll st r with
    | Ok (sta, _) => dl_reports (length (dm_devs sta)) (r_now r) sta O (r_dev r) None
    | _ => []
    end.
  Definition dstep_rep (st : daemon) (r : round) (R : list report) : list report := R ++ pass_reports st r.
  Fixpoint drun_rep (st : daemon) (rs : list round) (R : list report) : list report :=
    match rs with
    | [] => R
    | r :: rest => match dstep st r with Ok (st1, _) => drun_rep st1 rest (dstep_rep st r R) | _ => R end
    end.

  (* ---------------------------------------------------------------- the device half *)
  (* an event of the devices from index i on of state st *)
  Definition dl_ok (st : daemon) (i : nat) (w : report) : Prop :=
    In (rp_client w, rp_slot w) (aslots (dm_devs st)) /\
    exists j d, (i <= j)%nat /\ nth_error (dm_devs st) j = Some d /\ dev_reports d w.

  Lemma dl_rep n : forall now st i pins tmo acc, DPInv st -> tmo_pos tmo ->
    match dev_loop n now st i pins tmo acc with
    | Ok (st', _, _) => Writes (dm_store st) (dl_reports n now st i pins tmo) (dm_store st') /\ Forall (dl_ok st i) (dl_reports n now st i pins tmo)
    | _ => False
    end.
  Proof.
    induction n as [|n IH]; intros now st i pins tmo acc I Hp.
    - cbn [Daemon.dev_loop dl_reports]. split; [apply Writes_refl|constructor].
    - pose proof (dev_loop_inv expand_str ranged_sorted ranged_plain sorted rmatch compress short_circuit 1 now st i pins tmo acc I Hp) as H1.
      pose proof (dev_loop_inv expand_str ranged_sorted ranged_plain sorted rmatch compress short_circuit 1 now st i pins tmo [] I Hp) as H0.
      cbn [Daemon.dev_loop dl_reports] in H1, H0 |- *.
      destruct (nth_error (dm_devs st) i) as [d|] eqn:En; [|split; [apply Writes_refl|constructor]].
      destruct (with_pre (nth i (dm_pipe st) true) (nth i (dm_tel st) Telnet.telnet_init) (hd passin0 pins)) as [pin t1]. cbn [fst].
      assert (HdH : DInvH compress d) by (pose proof (dp_devs _ _ I) as H; rewrite Forall_forall in H; apply H; eapply nth_error_In; exact En).
      pose proof (dh_inv _ _ HdH) as Hd. pose proof (dh_rc _ _ HdH) as Hrc.
      destruct (post_poll_one_invH rmatch compress short_circuit now d (dm_store st) tmo pin HdH Hp) as (d' & store' & tmo' & evs & EP & _ & _ & _).
      assert (Hcbd : ArgsCb d) by (pose proof (si_cb _ (dp_slots _ _ I)) as H; rewrite Forall_forall in H; apply H; eapply nth_error_In; exact En).
      pose proof (post_poll_one_slots rmatch compress short_circuit now d (dm_store st) tmo pin Hd Hcbd Hp Hrc) as HS.
      destruct (post_poll_one_writes rmatch compress short_circuit now d (dm_store st) tmo pin d' store' tmo' evs Hd Hcbd Hp Hrc EP) as [W1 G1].
      rewrite EP in HS, H1, H0 |- *.
      match goal with |- context [route_all ranged_sorted ?s evs] => set (st1 := s) in * end.
      destruct (route_all ranged_sorted st1 evs) as [st2| | | |] eqn:E2; try contradiction.
      destruct (route_all_ids ranged_sorted evs st1 st2 E2) as (_ & A2 & _ & A4).
      destruct H1 as (I2 & T2 & _).
      specialize (IH now st2 (S i) (tl pins) tmo' (acc ++ map (SysDev i) evs) I2 T2).
      destruct (dev_loop n now st2 (S i) (tl pins) tmo' (acc ++ map (SysDev i) evs)) as [[[st3 tmo3] evs3]| | | |]; try contradiction.
      destruct IH as [W2 G2]. rewrite A4 in W2. unfold st1 in W2 at 1. cbn [dm_store] in W2.
      split; [eapply Writes_trans; eassumption|]. apply Forall_app. split.
      + eapply Forall_impl; [|exact G1]. intros w Hw. split.
        * apply in_aslots. exists d. split; [eapply nth_error_In; exact En|exact (dev_reports_slot _ _ _ Hw)].
        * exists i, d. split; [lia|]. split; [exact En|exact Hw].
      + eapply Forall_impl; [|exact G2]. intros w (Hs & j & dj & Hj & Hn & Hw). rewrite A2 in Hs, Hn. unfold st1 in Hs, Hn. cbn [dm_devs] in Hs, Hn. split.
        * exact (aslots_upd _ _ _ _ En (sr_incl _ _ _ _ HS) _ Hs).
        * exists j, dj. split; [lia|]. split; [|exact Hw]. rewrite nth_error_upd_nth_ne in Hn by lia. exact Hn.
  Qed.

  (* ---------------------------------------------------------------- the invariant *)
  (* b = the number of lists that existed when the run started (none in the real daemon) *)
  Record RInv (b : nat) (R : list report) (st : daemon) : Prop := {
    ri_just : Just b R (dm_store st);
    ri_slot : forall w, In w R -> (rp_slot w < length (dm_store st))%nat;
    ri_own : forall w x, In w R -> In x (dm_clients st) -> cmd_slot x = Some (rp_slot w) -> rp_client w = cid x;
    ri_new : forall x s, In x (dm_clients st) -> cmd_slot x = Some s -> (b <= s)%nat;
    ri_base : (b <= length (dm_store st))%nat
  }.

  Lemma Just_grows b R store store' : grows store store' -> Just b R store -> Just b R store'.
  Proof.
    intros (news & -> & Fn) H s n a Hb Ha. destruct (Nat.lt_ge_cases s (length store)) as [Hlt|Hge].
    - rewrite app_nth1 in Ha by exact Hlt. exact (H s n a Hb Ha).
    - rewrite app_nth2 in Ha by exact Hge.
      destruct (nth_in_or_default (s - length store) news []) as [Hin|E]; [|rewrite E in Ha; discriminate Ha].
      rewrite Forall_forall in Fn. destruct (Fn _ Hin) as (tg & Etg). rewrite Etg in Ha.
      pose proof (new_arglist_fresh tg) as Hf. rewrite Forall_forall in Hf. destruct (Hf a (arg_find_In _ _ _ Ha)) as (F1 & F2 & F3).
      now apply J_fresh.
  Qed.

  Lemma RInv_client_half b R st sta e1 r : cli_post_poll st r = Ok (sta, e1) -> RInv b R st -> RInv b R sta.
  Proof.
    intros Ea [Hj Hs Ho Hn Hb]. pose proof (cli_post_poll_keep _ _ _ _ Ea) as [Kl Kc].
    constructor.
    - exact (Just_grows _ _ _ _ (cli_post_poll_grows expand_str ranged_sorted ranged_plain sorted _ _ _ _ Ea) Hj).
    - intros w Hw. specialize (Hs w Hw). lia.
    - intros w x' Hw Hx' Hsl. destruct (Kc x' _ Hx' Hsl) as [(x & Hx & Hc & Hsx)|Hge]; [rewrite <- Hc; exact (Ho w x Hw Hx Hsx)|].
      specialize (Hs w Hw). lia.
    - intros x' s Hx' Hsl. destruct (Kc x' _ Hx' Hsl) as [(x & Hx & _ & Hsx)|Hge]; [exact (Hn x s Hx Hsx)|lia].
    - lia.
  Qed.

  (* what one pass adds: the events of the pass, each produced by the device at some index of the state the client half left,
     for a list that exists and that the event's client owns at that moment *)
  Definition pass_event (sta : daemon) (w : report) : Prop :=
    (rp_slot w < length (dm_store sta))%nat /\
    In (rp_client w, rp_slot w) (aslots (dm_devs sta)) /\
    (forall x, In x (dm_clients sta) -> cmd_slot x = Some (rp_slot w) -> cid x = rp_client w) /\
    exists j d, nth_error (dm_devs sta) j = Some d /\ dev_reports d w.

  Lemma pass_rep b st r L R : EInv L st -> 1 <= dm_seq st < INT_MAX -> RInv b R st ->
    match cli_post_poll st r with
    | Ok (sta, _) =>
      match dstep st r with
      | Ok (stb, _) =>
          RInv b R sta /\ RInv b (dstep_rep st r R) stb /\ Forall (pass_event sta) (pass_reports st r) /\
          (forall w x0, In w (dstep_rep st r R) -> In x0 (dm_clients sta) -> cmd_slot x0 = Some (rp_slot w) -> rp_client w = cid x0)
      | _ => False
      end
    | _ => False
    end.
  Proof.
    intros E Hseq Ri.
    destruct (pass_e2e expand_str ranged_sorted ranged_plain sorted rmatch compress short_circuit st r L E Hseq)
      as (sta & e1 & stb & tmo & e2 & Ea & Eb & Es & _ & La & Ia & _ & _ & Db & Nb).
    rewrite Ea, Es. pose proof (RInv_client_half b R st sta e1 r Ea Ri) as Ra.
    assert (Hn : tmo_pos None) by (intros x Hx; discriminate).
    pose proof (dl_rep (length (dm_devs sta)) (r_now r) sta 0%nat (r_dev r) None [] Ia Hn) as Hd.
    pose proof (dev_loop_inv expand_str ranged_sorted ranged_plain sorted rmatch compress short_circuit (length (dm_devs sta)) (r_now r) sta 0%nat (r_dev r) None [] Ia Hn) as Hd0.
    rewrite Eb in Hd, Hd0. destruct Hd as [Wr Gr]. destruct Hd0 as (_ & _ & Hids & _).
    assert (Enew : pass_reports st r = dl_reports (length (dm_devs sta)) (r_now r) sta 0 (r_dev r) None) by (unfold pass_reports; now rewrite Ea).
    (* the events of the pass *)
    assert (Gp : Forall (pass_event sta) (pass_reports st r)).
    { rewrite Enew. eapply Forall_impl; [|exact Gr]. intros w (Hs & j & d & _ & Hj & Hw).
      split; [exact (proj1 (si_act _ (dp_slots _ _ Ia) _ _ Hs))|]. split; [exact Hs|]. split; [|exists j, d; auto].
      intros x Hx Hsl. apply In_nth_error in Hx as (p & Hp). exact (li_own _ _ _ La _ _ p x Hs Hp Hsl). }
    (* ownership relative to the clients as the client half left them *)
    assert (Own : forall w x0, In w (dstep_rep st r R) -> In x0 (dm_clients sta) -> cmd_slot x0 = Some (rp_slot w) -> rp_client w = cid x0).
    { intros w x0 Hw Hx0 Hsl. unfold dstep_rep in Hw. apply in_app_or in Hw as [Hw|Hw]; [exact (ri_own _ _ _ Ra w x0 Hw Hx0 Hsl)|].
      rewrite Forall_forall in Gp. destruct (Gp w Hw) as (_ & _ & Ho & _). symmetry. exact (Ho x0 Hx0 Hsl). }
    split; [exact Ra|]. split; [|split; [exact Gp|exact Own]].
    (* every record of stb has a predecessor at the same position in sta, with the same id and the same list unless its command is over *)
    assert (Hback : forall x', In x' (dm_clients stb) -> cmd_slot x' <> None ->
              exists x0, In x0 (dm_clients sta) /\ cid x' = cid x0 /\ cmd_slot x' = cmd_slot x0).
    { intros x' Hx' Hsome. apply In_nth_error in Hx' as (p & Hp).
      assert (Hl : length (dm_clients stb) = length (dm_clients sta)) by (pose proof (f_equal (@length Z) Hids) as Hl; unfold ids in Hl; now rewrite !map_length in Hl).
      assert (Hlt : (p < length (dm_clients sta))%nat) by (rewrite <- Hl; apply nth_error_Some; congruence).
      destruct (nth_error (dm_clients sta) p) as [x0|] eqn:Ex0; [|apply nth_error_None in Ex0; lia].
      destruct (Db p x0 Ex0) as (x & Hx & Hc & Rx). rewrite Hp in Hx. injection Hx as <-.
      exists x0. split; [eapply nth_error_In; exact Ex0|]. split; [exact Hc|].
      unfold CRel in Rx. unfold cmd_slot in *. destruct (cl_cmd (dc x0)) as [k0|] eqn:Ek0; [|subst x'; now rewrite Ek0].
      destruct Rx as (_ & new & _ & _ & Hm). destruct (cl_cmd (dc x')) as [k|]; [|congruence]. destruct Hm as (_ & _ & Hk). now rewrite Hk. }
    constructor.
    - unfold dstep_rep. rewrite Enew. exact (Just_writes _ _ _ _ _ (ri_just _ _ _ Ra) Wr).
    - intros w Hw. unfold dstep_rep in Hw. rewrite Nb. apply in_app_or in Hw as [Hw|Hw]; [exact (ri_slot _ _ _ Ra w Hw)|].
      rewrite Forall_forall in Gp. exact (proj1 (Gp w Hw)).
    - intros w x' Hw Hx' Hsl. destruct (Hback x' Hx' ltac:(congruence)) as (x0 & Hx0 & Hc & Hs0). rewrite Hc.
      apply (Own w x0 Hw Hx0). congruence.
    - intros x' s Hx' Hsl. destruct (Hback x' Hx' ltac:(congruence)) as (x0 & Hx0 & _ & Hs0). apply (ri_new _ _ _ Ra x0 s Hx0). congruence.
    - rewrite Nb. exact (ri_base _ _ _ Ra).
  Qed.

  Lemma drun_rep_inv b : forall rs st L R acc, EInv L st -> 1 <= dm_seq st -> dm_seq st + Z.of_nat (length rs) <= INT_MAX -> RInv b R st ->
    match drun st rs acc with
    | Ok (st', _) => RInv b (drun_rep st rs R) st'
    | _ => False
    end.
  Proof.
    induction rs as [|r rs IH]; intros st L R acc E H1 Hn Ri; cbn [Daemon.drun drun_rep]; [exact Ri|].
    cbn [length] in Hn.
    pose proof (pass_rep b st r L R E ltac:(lia) Ri) as Hp.
    destruct (pass_e2e expand_str ranged_sorted ranged_plain sorted rmatch compress short_circuit st r L E ltac:(lia))
      as (sta & e1 & stb & tmo & e2 & Ea & _ & Es & _ & _ & _ & Eb & Sb & _ & _).
    rewrite Ea, Es in Hp. rewrite Es. destruct Hp as (_ & Rb & _).
    exact (IH stb (dstep_led st r L) (dstep_rep st r R) (acc ++ [mkDout (e1 ++ e2) tmo]) Eb ltac:(lia) ltac:(lia) Rb).
  Qed.

  (* ---------------------------------------------------------------- every event has its pass *)
  (* w was produced in one of the passes rs of a history that starts in st1 *)
  Definition pass_of (st1 : daemon) (rs : list round) (w : report) : Prop :=
    exists rs1 r1 rs2, rs = rs1 ++ r1 :: rs2 /\
      match drun st1 rs1 [] with
      | Ok (stk, _) => match cli_post_poll stk r1 with Ok (stak, _) => pass_event stak w | _ => False end
      | _ => False
      end.

  Lemma drun_any_acc : forall rs st acc st' outs acc2, drun st rs acc = Ok (st', outs) -> exists outs2, drun st rs acc2 = Ok (st', outs2).
  Proof.
    induction rs as [|r rs IH]; intros st acc st' outs acc2; cbn [Daemon.drun]; [intros H; inversion H; subst; eauto|].
    destruct (dstep st r) as [[st1 o]| | | |]; try discriminate. apply IH.
  Qed.

  Lemma pass_of_later st1 rs more w : pass_of st1 rs w -> pass_of st1 (rs ++ more) w.
  Proof. intros (rs1 & r1 & rs2 & -> & H). exists rs1, r1, (rs2 ++ more). split; [now rewrite <- app_assoc|exact H]. Qed.

  Lemma drun_rep_hist b : forall rs st L R acc, EInv L st -> 1 <= dm_seq st -> dm_seq st + Z.of_nat (length rs) <= INT_MAX -> RInv b R st ->
    match drun st rs acc with
    | Ok _ => forall w, In w (drun_rep st rs R) -> In w R \/ pass_of st rs w
    | _ => False
    end.
  Proof.
    induction rs as [|r rs IH]; intros st L R acc E H1 Hn Ri; cbn [Daemon.drun drun_rep]; [intros w Hw; now left|].
    cbn [length] in Hn.
    pose proof (pass_rep b st r L R E ltac:(lia) Ri) as Hp.
    destruct (pass_e2e expand_str ranged_sorted ranged_plain sorted rmatch compress short_circuit st r L E ltac:(lia))
      as (sta & e1 & stb & tmo & e2 & Ea & _ & Es & _ & _ & _ & Eb & Sb & _ & _).
    rewrite Ea, Es in Hp. rewrite Es. destruct Hp as (_ & Rb & Gp & _).
    specialize (IH stb (dstep_led st r L) (dstep_rep st r R) (acc ++ [mkDout (e1 ++ e2) tmo]) Eb ltac:(lia) ltac:(lia) Rb).
    destruct (drun stb rs (acc ++ [mkDout (e1 ++ e2) tmo])) as [[st' outs]| | | |] eqn:Er; try contradiction.
    intros w Hw. destruct (IH w Hw) as [Hin|(rs1 & r1 & rs2 & -> & Hpo)].
    - unfold dstep_rep in Hin. apply in_app_or in Hin as [Hin|Hin]; [now left|right].
      exists [], r, rs. split; [reflexivity|]. cbn [Daemon.drun]. rewrite Ea. rewrite Forall_forall in Gp. exact (Gp w Hin).
    - right. exists (r :: rs1), r1, rs2. split; [reflexivity|]. cbn [Daemon.drun]. rewrite Es.
      destruct (drun stb rs1 []) as [[stk outsk]| | | |] eqn:Ek; try contradiction.
      destruct (drun_any_acc _ _ _ _ _ ([] ++ [mkDout (e1 ++ e2) tmo]) Ek) as (o2 & ->). exact Hpo.
  Qed.

  (* ---------------------------------------------------------------- the closed statement (quoted by Properties/C03.v) *)
  Lemma RInv_init st : dm_clients st = [] -> RInv (length (dm_store st)) [] st.
  Proof.
    intros Hc. constructor.
    - intros s n a Hb Ha. rewrite (nth_overflow _ _ Hb) in Ha. discriminate Ha.
    - intros w [].
    - intros w x [].
    - rewrite Hc. intros x s [].
    - lia.
  Qed.

  Theorem c03_end_to_end_reported st0 now plans rs r : boot compress st0 -> Z.of_nat (length rs) < INT_MAX - 1 ->
    exists st1 o1, dinit st0 now plans = Ok (st1, o1) /\
      match drun st1 rs [] with
      | Ok (st, _) =>
        let L := drun_led st1 rs lzero in
        let W := drun_wr st1 rs (winit (dm_store st1)) in
        let R := drun_rep st1 rs [] in
        match cli_post_poll st r with
        | Ok (sta, e1) =>
          match dev_loop (length (dm_devs sta)) (r_now r) sta O (r_dev r) None [] with
          | Ok (stb, tmo, e2) =>
            dstep st r = Ok (stb, mkDout (e1 ++ e2) tmo) /\
            let Lb := dstep_led st r L in
            let Wb := dstep_wr st r W in
            let Rb := dstep_rep st r R in
            (* every event recorded so far was produced in one of the passes up to this one *)
            (forall w, In w Rb -> pass_of st1 (rs ++ [r]) w) /\
            (* no event for a list that did not exist before this pass *)
            (forall w, In w R -> (rp_slot w < length (dm_store st))%nat) /\
            pass_clients (fun x0 k0 new =>
                            query_done ranged_sorted (Lb (cid x0)) (Wb (k_args k0)) (dc x0) (k_com k0) (nth (k_args k0) (dm_store stb) []) new /\
                            reported_args (k_args k0) (cid x0) (nth (k_args k0) (dm_store stb) []) Rb)
                         (fun k0 => is_query (k_com k0) = true) sta stb
          | _ => False
          end
        | _ => False
        end
      | _ => False
      end.
  Proof.
    intros Hb Hn.
    destruct (c03_end_to_end expand_str ranged_sorted ranged_plain sorted rmatch compress short_circuit st0 now plans rs r Hb Hn) as (st1 & o1 & E1 & H3).
    destruct (boot_e2e compress st0 now plans Hb) as (st1' & o1' & E1' & I1 & S1).
    rewrite E1 in E1'. injection E1' as <- <-.
    destruct (dinit_inv compress st0 now plans Hb) as (st1' & o1' & E1' & _ & _ & _ & C1 & _). rewrite E1 in E1'. injection E1' as <- <-.
    exists st1, o1. split; [exact E1|].
    set (b := length (dm_store st1)).
    pose proof (RInv_init st1 C1) as R0. fold b in R0.
    pose proof (drun_e2e expand_str ranged_sorted ranged_plain sorted rmatch compress short_circuit rs st1 lzero [] I1 ltac:(lia) ltac:(rewrite S1; unfold INT_MAX in *; lia)) as Hr.
    pose proof (drun_rep_inv b rs st1 lzero [] [] I1 ltac:(lia) ltac:(rewrite S1; unfold INT_MAX in *; lia) R0) as Hri.
    pose proof (drun_rep_hist b rs st1 lzero [] [] I1 ltac:(lia) ltac:(rewrite S1; unfold INT_MAX in *; lia) R0) as Hh.
    unfold run_pass in H3. destruct (drun st1 rs []) as [[st outs]| | | |] eqn:Edr; try contradiction. destruct Hr as (E & Hs).
    cbv zeta in *.
    assert (Hseq : 1 <= dm_seq st < INT_MAX) by (unfold INT_MAX in *; lia).
    pose proof (pass_rep b st r _ _ E Hseq Hri) as Hp.
    destruct (cli_post_poll st r) as [[sta e1]| | | |] eqn:Ea; try contradiction.
    destruct (dev_loop (length (dm_devs sta)) (r_now r) sta 0 (r_dev r) None []) as [[[stb tmo] e2]| | | |] eqn:Eb; try contradiction.
    destruct H3 as (Es & _ & _ & _ & _ & Hidle & Hq). rewrite Es in Hp. destruct Hp as (Ra & Rb & Gp & Own).
    split; [exact Es|]. split; [|split; [exact (ri_slot _ _ _ Hri)|]].
    - intros w Hw. unfold dstep_rep in Hw. apply in_app_or in Hw as [Hw|Hw].
      + destruct (Hh w Hw) as [[]|Hpo]. now apply pass_of_later.
      + exists rs, r, []. split; [reflexivity|]. rewrite Edr, Ea. rewrite Forall_forall in Gp. exact (Gp w Hw).
    - split; [exact Hidle|]. intros p x0 k0 Hp0 Hk Hsel. destruct (Hq p x0 k0 Hp0 Hk Hsel) as (x & new & Hx & Hc & Ho & Ht & Hm).
      exists x, new. split; [exact Hx|]. split; [exact Hc|]. split; [exact Ho|]. split; [exact Ht|].
      destruct (cl_cmd (dc x)); [exact Hm|]. split; [exact Hm|].
      assert (Hx0 : In x0 (dm_clients sta)) by (eapply nth_error_In; exact Hp0).
      assert (Hsl : cmd_slot x0 = Some (k_args k0)) by (unfold cmd_slot; now rewrite Hk).
      pose proof (ri_new _ _ _ Ra x0 _ Hx0 Hsl) as Hbk.
      intros n a Ha. destruct (ri_just _ _ _ Rb (k_args k0) n a Hbk Ha) as (A & B & C).
      assert (K : forall w, In w (dstep_rep st r (drun_rep st1 rs [])) -> hits (k_args k0) n w = true ->
                  rp_slot w = k_args k0 /\ rp_client w = cid x0 /\ rp_node w = n).
      { intros w Hw Hh0. apply hits_true in Hh0 as [Hs0 Hn0]. split; [exact Hs0|]. split; [|exact Hn0]. apply (Own w x0 Hw Hx0). now rewrite Hs0. }
      split; [|split].
      + intros Hne. destruct (A Hne) as (w & Hw & Hh0 & K1 & K2). destruct (K w Hw Hh0) as (Q1 & Q2 & Q3). exists w. auto 8.
      + intros v Hv. destruct (B v Hv) as (w & Hw & Hh0 & K1). destruct (K w Hw Hh0) as (Q1 & Q2 & Q3). exists w. auto 8.
      + intros Hne. destruct (C Hne) as (w & Hw & Hh0 & K1 & K2). destruct (K w Hw Hh0) as (Q1 & Q2 & Q3). exists w. auto 8.
  Qed.
End W.
