(* C19_rules: ANY number of targets on one stat/on/off line, any depth, any failing hosts, any release schedule of the
   delayed polls: the text of every result line and the final status table are the ones of Spec/RedfishSpec.expected.
   Model side: RedfishText.v (refined loop invariant) started here from the command part; specification side:
   RedfishClosed.v (expected = closed form). *)
From Coq Require Import List NArith ZArith Bool Lia Permutation.
From PM Require Import Base.Bytes Base.Outcome Gen.GenRfp Model.Redfish Spec.RedfishSpec Model.RedfishView
  Proofs.RedfishBase Proofs.RedfishSteps Proofs.RedfishMgmt Proofs.RedfishRules Proofs.RedfishTheorems Proofs.RedfishPhased
  Proofs.RedfishReach Proofs.RedfishInv Proofs.RedfishLive Proofs.RedfishDrain Proofs.RedfishStart Proofs.RedfishMulti
  Proofs.RedfishEff Proofs.RedfishText Proofs.RedfishClosed.
Import ListNotations.

Lemma minv_perm b c d stale todo new st K K' U : (forall n, cnt n K = cnt n K') ->
  minv b c d stale todo new st K U -> minv b c d stale todo new st K' U.
Proof.
  intros H [CFG FL ACT COV OLD TODO NEW DL POLL WAIT ON ACCT UNK TSC LOG]. split; auto.
  - intros n. rewrite <- H. apply ACCT.
  - intros c' p I. destruct (LOG c' p I) as (E1 & E2 & IK). split; [exact E1|]. split; [exact E2|].
    apply cnt_in. rewrite <- H. apply (count_occ_In text_eq_dec) in IK. exact IK.
Qed.

Lemma cnt_perm K K' : (forall n, cnt n K = cnt n K') -> Permutation K K'.
Proof. intros H. apply (Permutation_count_occ text_eq_dec). exact H. Qed.

(* ------------------------------------------------------------------ the command part prints reports of unknown names and DEBUG lines *)
Definition okU (e : tag * text) : Prop := match fst e with TUnknown p => snd e = unk_line p | _ => True end.

Lemma outP_same_out (P : tag * text -> Prop) st st' : s_out st' = s_out st -> outP P st -> outP P st'.
Proof. intros E H e I. rewrite E in I. now apply H. Qed.

Lemma stat_cmd_plug_okU st p o : outP okU st -> outP okU (fst (stat_cmd_plug st p o)).
Proof.
  intros H. unfold stat_cmd_plug. destruct (lookup (s_tab st) p) as [pd|]; [|cbn [fst]; apply outP_emitf; [exact H | destruct o; exact I]].
  destruct (get_path st CStat pd); cbn [fst]; [|apply outP_emitf; [exact H | destruct o; exact I]].
  destruct (s_verbose st); [apply outP_emitf; [exact H | exact I] | exact H].
Qed.
Lemma power_cmd_plug_okU st p c : outP okU st -> outP okU (fst (power_cmd_plug st p c)).
Proof.
  intros H. unfold power_cmd_plug. destruct (lookup (s_tab st) p) as [pd|]; [|cbn [fst]; apply outP_emitf; [exact H | exact I]].
  destruct (get_path st c pd); cbn [fst]; [|apply outP_emitf; [exact H | exact I]].
  destruct (s_verbose st); [apply outP_emitf; [exact H | exact I] | exact H].
Qed.

Lemma target_one_okU c st p : outP okU st -> outP okU (target_one c st p).
Proof.
  intros H. unfold target_one. destruct (name_valid (s_tab st) p).
  - assert (X : outP okU (fst (if cmd_is_stat c then stat_cmd_plug st p true else power_cmd_plug st p c))).
    { destruct (cmd_is_stat c); [now apply stat_cmd_plug_okU | now apply power_cmd_plug_okU]. }
    destruct (if cmd_is_stat c then stat_cmd_plug st p true else power_cmd_plug st p c) as [st' [m|]]; cbn [fst] in X; [|exact X].
    unfold queue_target. destruct (m_parent m); (eapply outP_same_out; [|exact X]); reflexivity.
  - apply outP_emitf; [exact H|]. unfold okU. cbn [fst snd]. transitivity (bs "unknown plug specified: "%string ++ p ++ [LF]); [exact (unknown_line c p) | symmetry; exact (unknown_line CStat p)].
Qed.

Lemma targets_okU c ts : forall st, outP okU st -> outP okU (fold_left (target_one c) ts st).
Proof. induction ts as [|p r IH]; intros st H; cbn [fold_left]; [exact H|]. apply IH. now apply target_one_okU. Qed.

(* ------------------------------------------------------------------ results as a multiset *)
Definition okE (L : name -> text) (e : tag * text) : Prop :=
  match fst e with TDiag => True | TUnknown p => snd e = unk_line p | TResult x => snd e = L x end.

Lemma res_split L o : (forall e, In e o -> okE L e) -> Permutation (map snd (res o)) (map unk_line (tunk o) ++ map L (tres o)).
Proof.
  induction o as [|e r IH]; intros H; [constructor|].
  specialize (IH (fun e' I => H e' (or_intror I))). pose proof (H e (or_introl eq_refl)) as E. unfold okE in E.
  unfold res, tunk, tres in *. cbn [filter flat_map]. unfold keep at 1. destruct e as [t l]. cbn [fst snd] in *. destruct t as [x|p|]; cbn [app map].
  - rewrite E. apply Permutation_cons_app. exact IH.
  - rewrite E. constructor. exact IH.
  - exact IH.
Qed.

Lemma fold_emit_out f L : forall st,
  s_out (fold_left (fun s m => emitf s (TResult (m_plug m)) f [m_plug m]) L st) = s_out st ++ map (fun m => (TResult (m_plug m), fmt f [m_plug m])) L.
Proof.
  induction L as [|m r IH]; intros st; cbn [fold_left map]; [now rewrite app_nil_r|].
  rewrite IH. cbn [emitf emit set_out s_out]. now rewrite <- app_assoc.
Qed.

Lemma res_results (g : pmsg -> text) L : map snd (res (map (fun m => (TResult (m_plug m), g m)) L)) = map g L.
Proof. induction L as [|m r IH]; [reflexivity|]. cbn [map]. unfold res in *. cbn [filter keep fst map snd]. now rewrite IH. Qed.

(* ------------------------------------------------------------------ related targets: the model's check and the specification's *)
Lemma any_related_ex tab l : any_related tab l = true -> exists mp mq, In mp l /\ In mq l /\ is_desc tab (m_plug mp) (m_plug mq) = true.
Proof.
  assert (R : forall m r, related_to_any tab m r = true -> exists m2, In m2 r /\ (is_desc tab (m_plug m) (m_plug m2) = true \/ is_desc tab (m_plug m2) (m_plug m) = true)).
  { intros m r. induction r as [|m2 r IH]; cbn [related_to_any]; [discriminate|]. intros H.
    apply orb_true_iff in H as [H|H]; [apply orb_true_iff in H; exists m2; split; [now left | exact H]|].
    destruct (IH H) as (m3 & I3 & D). exists m3. split; [now right | exact D]. }
  induction l as [|m r IH]; cbn [any_related]; [discriminate|]. intros H. apply orb_true_iff in H as [H|H].
  - destruct (R m r H) as (m2 & I2 & [D|D]); [exists m, m2 | exists m2, m]; (split; [|split]); auto; try (now left); now right.
  - destruct (IH H) as (mp & mq & Ip & Iq & D). exists mp, mq. split; [now right|]. split; [now right | exact D].
Qed.

Lemma related_pair_roots f l : (forall p, In p l -> ancestors f p = []) -> related_pair f l = false.
Proof.
  intros H. induction l as [|p r IH]; [reflexivity|]. cbn [related_pair]. rewrite IH by (intros; apply H; now right). rewrite orb_false_r.
  destruct (existsb _ r) eqn:X; [|reflexivity]. apply existsb_exists in X as (q & Iq & X). unfold descendant in X.
  rewrite (H p (or_introl eq_refl)), (H q (or_intror Iq)) in X. discriminate X.
Qed.

(* ------------------------------------------------------------------ the refined invariant holds after the command part *)
Lemma start_R b c K st1 acts wts :
  same_cfg st1 b -> s_active st1 = acts -> s_wait st1 = wts -> s_delayed st1 = [] -> s_tstat st1 = s_tstat b -> s_log st1 = [] ->
  (forall m, In m acts -> tgt b c m /\ anc (s_tab b) (m_plug m) = []) -> (forall m, In m wts -> tgt b c m /\ anc (s_tab b) (m_plug m) <> []) ->
  (c = COn -> wts <> [] -> any_related (s_tab b) (acts ++ wts) = false) ->
  (forall p, In p K <-> In p (map m_plug (acts ++ wts))) ->
  outP (just b c K 0 []) st1 ->
  let st2 := match wts with [] => st1 | _ => send_initial_parent_queries st1 end in
  rinv b c K 0 (s_active st2) st2.
Proof.
  intros CFG EA EW ED ETS ELOG HA HW REL HK O1 st2.
  assert (ET : s_tab st1 = s_tab b) by (destruct CFG as (_&_&_&E&_); exact E).
  assert (ROOT : forall w, In w wts -> exists R, find_root (s_tab b) (m_plug w) = WFound R /\ In R (anc (s_tab b) (m_plug w)) /\ anc (s_tab b) R = [] /\ okplug b R).
  { intros w I. destruct (HW w I) as ((WF & _) & NE). pose proof (wf_plug _ _ _ WF) as OK. destruct OK as [CH PS].
    destruct (root_spec (s_tab b) _ CH) as (FR & IN & AR). eexists. split; [exact FR|]. split; [now apply IN|]. split; [exact AR|].
    apply (okplug_anc b (m_plug w)); [split; assumption | now apply IN]. }
  assert (SQ : exists qs, keeps st1 st2 /\ s_active st2 = acts ++ qs /\ outP (just b c K 0 []) st2 /\
            (forall q, In q qs -> anc (s_tab b) (m_plug q) = [] /\ m_poll q = false /\ (c <> CStat -> ~ In (m_plug q) K))).
  { subst st2. destruct wts as [|w0 r0] eqn:EWT.
    - exists []. split; [apply keeps_refl|]. split; [now rewrite app_nil_r|]. split; [exact O1 | intros q []].
    - rewrite <- EWT in *. unfold send_initial_parent_queries.
      assert (HPR : forall w, In w (s_wait st1) -> exists R, find_root (s_tab b) (m_plug w) = WFound R /\ has_path st1 CStat R = true).
      { rewrite EW. intros w I. destruct (ROOT w I) as (R & FR & _ & _ & [_ PS]). exists R. split; [exact FR|].
        rewrite (same_cfg_has_path b st1 R CFG). apply PS. now left. }
      destruct (sipq_spec b (scan_fuel st1) st1 0 ET HPR) as (qs & (KS & AS & _) & W & Q & _); [unfold scan_fuel; lia|].
      destruct (sipq_ext (s_tab b) (just b c K 0 []) (scan_fuel st1) st1 0 ET HPR) as [O2 FRESH]; [unfold scan_fuel; lia | intros t; apply just_diag | exact O1|].
      rewrite EA in AS. exists qs. split; [exact KS|]. split; [exact AS|]. split; [exact O2|].
      intros q Iq. destruct (Q q Iq) as (w & pd & Iw & FR & L & EQ). rewrite EW in Iw.
      destruct (ROOT w Iw) as (R & FR' & IR & AR & OK). rewrite FR in FR'. inversion FR' as [ER].
      assert (EP : m_plug q = R) by (rewrite EQ; cbn [qmsg_of m_plug]; exact ER).
      split; [now rewrite EP|]. split; [now rewrite EQ|]. intros NS IK.
      assert (Iq2 : In q (s_active (sipq (scan_fuel st1) st1 0))) by (rewrite AS; apply in_or_app; now right).
      destruct (FRESH q Iq2) as [Iold|(w2 & Iw2 & FR2 & PAF)].
      { rewrite EA in Iold. destruct (HA q Iold) as ((_ & O & _) & _). rewrite EQ in O. discriminate O. }
      rewrite EW in Iw2. destruct (ROOT w2 Iw2) as (R2 & FR2' & IR2 & _). rewrite FR2 in FR2'. inversion FR2' as [ER2].
      apply HK in IK. apply in_map_iff in IK as (y & EY & Iy). apply in_app_or in Iy as [Iy|Iy].
      + destruct (HA y Iy) as ((WY & OY & _ & CY) & _). destruct (HW w2 Iw2) as ((WW & OW & _ & CW) & _).
        destruct (cmd_cases c NS) as [EC|EC].
        * assert (NE : wts <> []) by (intros E0; rewrite E0 in Iw2; destruct Iw2).
          apply (any_related_false b _ (REL EC NE) y w2); [apply in_or_app; now left | apply in_or_app; now right | apply (wf_plug _ _ _ WW)|].
          rewrite EY, ER2. exact IR2.
        * rewrite EA in PAF. rewrite CW, EC in PAF. rewrite (plugname_active_off acts y (m_plug q)) in PAF; [discriminate | exact Iy | exact EY | now rewrite CY].
      + destruct (HW y Iy) as (_ & NE). rewrite EY, EP in NE. contradiction. }
  destruct SQ as (qs & KS & AS & O2 & QW).
  assert (DL2 : s_delayed st2 = []) by (destruct KS as (_&_&E&_); congruence).
  assert (TS2 : s_tstat st2 = s_tstat b) by (destruct KS as (_&E&_); congruence).
  assert (LG2 : s_log st2 = []) by (destruct KS as (_&_&_&E&_); congruence).
  rewrite AS. split; rewrite ?DL2, ?LG2, ?TS2, ?app_nil_r.
  - intros x I a Ia. exfalso. apply in_app_or in I as [I|I]; [destruct (HA x I) as (_ & E) | destruct (QW x I) as (E & _)]; rewrite E in Ia; destruct Ia.
  - intros NS x I OX. apply in_app_or in I as [I|I]; [destruct (HA x I) as ((_ & O & _) & _); congruence | now apply (QW x I)].
  - intros x I PX. exfalso. apply in_app_or in I as [I|I]; [destruct (HA x I) as ((_ & _ & NP & _) & _) | destruct (QW x I) as (_ & NP & _)]; congruence.
  - intros p [].
  - reflexivity.
  - intros k p [].
  - exact O2.
Qed.


Lemma related_pair_ex f l : related_pair f l = true -> exists p q, In p l /\ In q l /\ descendant f p q = true.
Proof.
  induction l as [|x r IH]; cbn [related_pair]; [discriminate|]. intros H. apply orb_true_iff in H as [H|H].
  - apply existsb_exists in H as (q & Iq & H). apply orb_true_iff in H as [H|H]; [exists x, q | exists q, x]; (split; [|split]); auto; try (now left); now right.
  - destruct (IH H) as (p & q & Ip & Iq & D). exists p, q. split; [now right|]. split; [now right | exact D].
Qed.

(* ------------------------------------------------------------------ from the refined invariant at the prompt to the specification *)
Lemma conclude st c ts st' d' :
  closed_tab (s_tab st) = true ->
  (forall x, In x (known_targets st ts) -> okplug st x) ->
  (c = COn -> related_pair (forest_of (s_tab st)) (known_targets st ts) = false) ->
  rinv st c (known_targets st ts) d' [] st' ->
  (forall n, cnt n (tres (s_out st')) = cnt n (known_targets st ts)) -> tunk (s_out st') = unknown_targets st ts ->
  (c = CStat -> s_tstat st' = s_tstat st) ->
  Permutation (map snd (results st')) (fst (expected_of st c ts)) /\ same_status (statmap_of (s_tstat st')) (snd (expected_of st c ts)).
Proof.
  intros CLT KOK REL [RCLR RSIL RPOLL RLOG RTS1 RTS2 ROUT] FCNT FU FTS.
  set (kts := known_targets st ts) in *. set (uts := unknown_targets st ts) in *.
  set (FFs := forest_of (s_tab st)) in *. set (M0s := statmap_of (s_tstat st)).
  assert (EKN : filter (known FFs) ts = kts).
  { unfold kts, known_targets. apply filter_ext. intros p. apply known_forest. }
  assert (EUN : map (fun p => bs "unknown plug specified: "%string ++ p ++ [LF]) (filter (fun p => negb (known FFs p)) ts) = map unk_line uts).
  { unfold uts, unknown_targets. rewrite (filter_ext (fun p => negb (known FFs p)) (fun p => negb (name_valid (s_tab st) p))) by (intros p; unfold FFs; now rewrite known_forest).
    apply map_ext. intros p. symmetry. apply (unknown_line CStat p). }
  set (A := answers FFs (s_fail st) (scmd_of c) M0s (by_depth FFs kts)).
  assert (EX : expected_of st c ts = (map unk_line uts ++ fst A, snd A)).
  { unfold expected_of, expected. fold FFs M0s. rewrite EKN, EUN. fold A.
    destruct c; cbn [scmd_of] in *; [| rewrite (REL eq_refl) |]; destruct A; reflexivity. }
  assert (KON : scmd_of c = SpOn -> forall x a, In x kts -> In a (anc (s_tab st) x) -> ~ In a kts).
  { intros E x a Ix Ia IaK. assert (EC : c = COn) by (destruct c; [discriminate | reflexivity | discriminate]).
    destruct (KOK x Ix) as [Cx _].
    assert (NE : x <> a) by (intros ->; exact (chain_not_in _ _ _ Cx Ia)).
    pose proof (related_pair_false _ _ (REL EC) x a Ix IaK NE) as D. apply (desc_anc (s_tab st)) in Ia. unfold FFs in *. congruence. }
  destruct (answers_by_depth (s_tab st) (s_fail st) (scmd_of c) kts M0s (fun x I => proj1 (KOK x I)) KON (sfin_nil _ _ _ _ _ KON)) as [PERM STAT].
  fold FFs in PERM, STAT. fold A in PERM, STAT.
  rewrite EX. cbn [fst snd]. split.
  - unfold results. eapply Permutation_trans; [apply (res_split (lnx st c kts))|].
    { intros e I. pose proof (ROUT e I) as J. unfold just in J. unfold okE. destruct (fst e); [exact (proj1 J) | exact J | constructor]. }
    rewrite FU. apply Permutation_app_head. eapply Permutation_trans; [apply Permutation_map; apply cnt_perm; exact FCNT|]. apply Permutation_sym. exact PERM.
  - intros k. rewrite STAT.
    assert (LOGD : c <> CStat -> forall p, In p kts -> carried FFs (s_fail st) (scmd_of c) kts M0s p = true -> logged c (s_log st') p).
    { intros NS p Ip CA. destruct (KOK p Ip) as [Cp _]. destruct (chain_lookup _ _ _ Cp) as [pd Lp].
      apply (carried_iff st c kts p pd Cp Lp) in CA as [CL FA].
      assert (IT : In p (tres (s_out st'))). { apply cnt_in. rewrite FCNT. apply (count_occ_In text_eq_dec) in Ip. exact Ip. }
      apply tres_in in IT as (e & Ie & Ee). pose proof (ROUT e Ie) as J. unfold just in J. rewrite Ee in J. destruct J as [_ J]. destruct (J CL) as [_ J2]. now apply J2. }
    assert (CARR : forall p, logged c (s_log st') p -> In p kts /\ carried FFs (s_fail st) (scmd_of c) kts M0s p = true).
    { intros p LP. destruct (RLOG p LP) as (Ip & CL & FA). split; [exact Ip|]. destruct (KOK p Ip) as [Cp _]. destruct (chain_lookup _ _ _ Cp) as [pd Lp].
      apply (carried_iff st c kts p pd Cp Lp). auto. }
    assert (SAMEK : (forall p, logged c (s_log st') p -> k <> p /\ (c = COff -> is_desc (s_tab st) k p = false)) ->
              st_get (statmap_of (s_tstat st')) k = st_get M0s k).
    { intros H. unfold M0s. rewrite !st_get_statmap, (RTS1 k H). reflexivity. }
    unfold sfinal. destruct c; cbn [scmd_of] in *.
    + now rewrite FTS.
    + match goal with |- context [existsb ?g kts] => destruct (existsb g kts) eqn:X end.
      * apply existsb_exists in X as (p & Ip & X). apply andb_true_iff in X as [CA E]. apply text_eqb_eq in E.
        rewrite (RTS2 k p); [reflexivity | apply LOGD; [discriminate | exact Ip | exact CA] | now left].
      * apply SAMEK. intros p LP. destruct (CARR p LP) as [Ip CA]. split; [|discriminate]. intros ->.
        apply not_true_iff_false in X. apply X. apply existsb_exists. exists p. split; [exact Ip|]. cbv beta. now rewrite CA, text_eqb_refl.
    + match goal with |- context [existsb ?g kts] => destruct (existsb g kts) eqn:X end.
      * apply existsb_exists in X as (p & Ip & X). apply andb_true_iff in X as [CA E].
        rewrite (RTS2 k p); [reflexivity | apply LOGD; [discriminate | exact Ip | exact CA]|].
        apply orb_true_iff in E as [E|E]; [left; now apply text_eqb_eq | right; split; [reflexivity|]]. unfold FFs in E. now rewrite (desc_equiv _ _ _ CLT) in E.
      * apply SAMEK. intros p LP. destruct (CARR p LP) as [Ip CA]. apply not_true_iff_false in X. split.
        -- intros ->. apply X. apply existsb_exists. exists p. split; [exact Ip|]. cbv beta. now rewrite CA, text_eqb_refl.
        -- intros _. destruct (is_desc (s_tab st) k p) eqn:D; [|reflexivity]. exfalso. apply X. apply existsb_exists. exists p. split; [exact Ip|].
           cbv beta. rewrite CA. unfold FFs. rewrite (desc_equiv _ _ _ CLT), D. now rewrite orb_true_r.
Qed.

Section WithHostlist.
Variable hlc : text -> option (list text).

Lemma refusal_line p : fmt f_phased_active [p] = line p (bs "cannot turn on parent and child"%string).
Proof. reflexivity. Qed.

Theorem rules_multi st ln sched c ts :
  at_prompt st -> ts_covers st -> power_line hlc st ln = Some (c, ts) -> in_domain st c ts = true -> closed_tab (s_tab st) = true ->
  exists st', run_line hlc st ln sched = Ok (st', false) /\ at_prompt st' /\ same_cfg st' st /\
              Permutation (map snd (results st')) (fst (expected_of st c ts)) /\
              same_status (statmap_of (s_tstat st')) (snd (expected_of st c ts)).
Proof.
  intros AP CV PL DOM CLT. destruct (power_line_run hlc st ln c ts PL) as (w & args & AV & CW & TG).
  unfold in_domain in DOM. apply andb_true_iff in DOM as [CY DOM]. apply negb_true_iff in CY. rewrite forallb_forall in DOM.
  assert (DOM' : forall p, In p ts -> name_valid (s_tab st) p = false \/ target_ok st c p = true).
  { intros p I. specialize (DOM p I). apply orb_true_iff in DOM as [H|H]; [left; now apply negb_true_iff | now right]. }
  set (kts := known_targets st ts). set (uts := unknown_targets st ts).
  assert (KOK : forall x, In x kts -> okplug st x).
  { intros x I. apply filter_In in I as [I NV]. destruct (DOM' x I) as [H|H]; [congruence|]. apply (target_ok_okplug st c x H). }
  unfold run_line. rewrite AV, (process_cmd_power _ _ _ _ _ CW). unfold power_cmd.
  set (st0 := set_log (set_out st []) []).
  change (s_tab st0) with (s_tab st). rewrite TG, CY.
  destruct AP as (A0 & W0 & D0 & F0).
  assert (CFG0 : same_cfg st0 st) by (repeat split).
  destruct (targets_spec st c ts st0 CFG0 DOM') as (acts & wts & (KT & AT & WT & RT & UT) & HA & HW & CT).
  assert (OKU1 : outP okU (fold_left (target_one c) ts st0)) by (apply targets_okU; intros e []).
  set (st1 := fold_left (target_one c) ts st0) in *.
  change (s_active st0) with (s_active st) in AT. change (s_wait st0) with (s_wait st) in WT. rewrite A0 in AT. rewrite W0 in WT. cbn [app] in AT, WT.
  change (s_out st0) with (@nil (tag * text)) in RT, UT. cbn [tres tunk flat_map app] in RT, UT.
  assert (CFG1 : same_cfg st1 st) by (eapply same_cfg_trans; [apply KT | exact CFG0]).
  assert (ET1 : s_tab st1 = s_tab st) by (destruct CFG1 as (_&_&_&E&_); exact E).
  assert (FL1 : s_fault st1 = None) by (destruct KT as (_&_&_&_&E); rewrite E; exact F0).
  assert (DL1 : s_delayed st1 = []) by (destruct KT as (_&_&E&_); rewrite E; exact D0).
  assert (TS1 : s_tstat st1 = s_tstat st) by (destruct KT as (_&E&_); exact E).
  assert (LOG1 : s_log st1 = []) by (destruct KT as (_&_&_&E&_); exact E).
  assert (COV1 : forall n, name_valid (s_tab st) n = true -> ts_lookup (s_tstat st1) n <> None) by (rewrite TS1; exact CV).
  fold kts in CT. fold uts in UT.
  assert (OUTM : forall m, In m (acts ++ wts) -> m_out m = true).
  { intros m Im. apply in_app_or in Im as [Im|Im]; [apply (HA m Im) | apply (HW m Im)]. }
  assert (PK : Permutation (map m_plug (acts ++ wts)) kts) by (rewrite <- (pend_all_out _ OUTM); now apply cnt_perm).
  assert (HK : forall p, In p kts <-> In p (map m_plug (acts ++ wts))).
  { intros p. split; intros I; [eapply Permutation_in; [apply Permutation_sym|]; eassumption | eapply Permutation_in; eassumption]. }
  (* the specification's view *)
  set (FFs := forest_of (s_tab st)). set (M0s := statmap_of (s_tstat st)).
  assert (EKN : filter (known FFs) ts = kts).
  { unfold kts, known_targets. apply filter_ext. intros p. apply known_forest. }
  assert (EUN : map (fun p => bs "unknown plug specified: "%string ++ p ++ [LF]) (filter (fun p => negb (known FFs p)) ts) = map unk_line uts).
  { unfold uts, unknown_targets. rewrite (filter_ext (fun p => negb (known FFs p)) (fun p => negb (name_valid (s_tab st) p))) by (intros p; unfold FFs; now rewrite known_forest).
    apply map_ext. intros p. symmetry. apply (unknown_line CStat p). }
  assert (OUT1 : forall L, forall e, In e (s_out st1) -> okE L e).
  { intros L e I. pose proof (OKU1 e I) as H. unfold okU in H. unfold okE. destruct e as [t l]. cbn [fst snd] in *. destruct t as [x|p|]; auto.
    exfalso. assert (X : In x (tres (s_out st1))) by (apply (in_tres (TResult x, l)); [exact I | reflexivity]). rewrite RT in X. destruct X. }
  assert (DESCM : forall mp mq, In mp (acts ++ wts) -> In mq (acts ++ wts) -> is_desc (s_tab st) (m_plug mp) (m_plug mq) = true ->
            In (m_plug mp) kts /\ In (m_plug mq) kts /\ m_plug mp <> m_plug mq /\ descendant FFs (m_plug mp) (m_plug mq) = true).
  { intros mp mq Ip Iq D. assert (Kp : In (m_plug mp) kts) by (apply HK; now apply in_map). assert (Kq : In (m_plug mq) kts) by (apply HK; now apply in_map).
    destruct (KOK _ Kp) as [Cp _]. apply (is_desc_anc _ _ _ Cp) in D. split; [exact Kp|]. split; [exact Kq|]. split.
    - intros E. rewrite <- E in D. exact (chain_not_in _ _ _ Cp D).
    - now apply desc_anc. }
  (* refused: an ancestor and a descendant among the targets of `on` *)
  assert (REFUSED : c = COn -> any_related (s_tab st) (acts ++ wts) = true -> wts <> [] ->
    exists st', (match s_wait st1 with [] => st1 | _ => send_initial_parent_queries (if cmd_is_stat c then st1 else phased_power_on_check st1 c) end) = st' /\
      idle st' = true /\ s_fault st' = None /\ same_cfg st' st /\
      Permutation (map snd (results st')) (fst (expected_of st c ts)) /\ same_status (statmap_of (s_tstat st')) (snd (expected_of st c ts))).
  { intros EC AR NE. eexists. split; [reflexivity|]. rewrite WT. destruct wts as [|w0 r0] eqn:EW; [congruence|]. rewrite <- EW in *.
    rewrite EC. change (cmd_is_stat COn) with false. cbv iota. unfold phased_power_on_check. change (cmd_is_on COn) with true. cbv iota.
    rewrite ET1, AT, WT, AR.
    destruct (refused_minv st COn st1 acts wts _ f_phased_active f_phased_wait CFG1 FL1 AT WT DL1 COV1 RT UT TS1 LOG1 OUTM) as (I & TS2 & W2 & D2 & SQ).
    cbn zeta in I, TS2, W2, D2, SQ. rewrite SQ.
    set (st2 := set_wait (set_active (fold_left (fun s m => emitf s (TResult (m_plug m)) f_phased_wait [m_plug m]) wts
                                     (fold_left (fun s m => emitf s (TResult (m_plug m)) f_phased_active [m_plug m]) acts st1)) []) []) in *.
    split; [unfold idle; cbn [st2 set_wait set_active s_active s_wait]; now rewrite D2|].
    split; [exact (mi_fault _ _ _ _ _ _ _ _ _ I)|]. split; [exact (mi_cfg _ _ _ _ _ _ _ _ _ I)|].
    assert (RP : related_pair FFs kts = true).
    { destruct (any_related_ex _ _ AR) as (mp & mq & Ip & Iq & D). destruct (DESCM mp mq Ip Iq D) as (Kp & Kq & NEQ & DS).
      exact (related_pair_true FFs kts _ _ Kp Kq NEQ DS). }
    unfold expected_of, expected. fold FFs M0s. rewrite EKN, EUN. cbn [scmd_of]. rewrite RP. cbn [fst snd]. split.
    - unfold results. cbn [st2 set_wait set_active s_out]. rewrite !fold_emit_out, !res_app, !map_app, <- app_assoc.
      apply Permutation_app.
      + eapply Permutation_trans; [apply (res_split (fun _ => []) _ (OUT1 _))|]. rewrite RT, UT. cbn [map]. now rewrite app_nil_r.
      + change f_phased_wait with f_phased_active. rewrite !(res_results (fun m => fmt f_phased_active [m_plug m])), <- map_app.
        rewrite <- (map_map m_plug (fun p => fmt f_phased_active [p])).
        rewrite (map_ext (fun p => fmt f_phased_active [p]) (fun p => line p (bs "cannot turn on parent and child"%string)) refusal_line).
        apply Permutation_map. exact PK.
    - intros k. now rewrite TS2, TS1. }
  (* everything else: the loop runs under the refined invariant *)
  assert (MAIN : (c = COn -> wts <> [] -> any_related (s_tab st) (acts ++ wts) = false) ->
    exists st2, (match s_wait st1 with [] => st1 | _ => send_initial_parent_queries (if cmd_is_stat c then st1 else phased_power_on_check st1 c) end) = st2 /\
      minv st c 0 [] (s_active st2) [] st2 kts uts /\ s_delayed st2 = [] /\ rinv st c kts 0 (s_active st2) st2).
  { intros REL. eexists. split; [reflexivity|]. rewrite WT.
    assert (O1 : outP (just st c kts 0 []) st1).
    { intros e I. pose proof (OKU1 e I) as H. unfold okU in H. unfold just. destruct e as [t l]. cbn [fst snd] in *. destruct t as [x|p|]; [|exact H|constructor].
      exfalso. assert (X : In x (tres (s_out st1))) by (apply (in_tres (TResult x, l)); [exact I | reflexivity]). rewrite RT in X. destruct X. }
    assert (PH : wts <> [] -> (if cmd_is_stat c then st1 else phased_power_on_check st1 c) = st1).
    { intros NE. destruct c; try reflexivity. change (cmd_is_stat COn) with false. cbv iota. unfold phased_power_on_check. change (cmd_is_on COn) with true. cbv iota.
      rewrite ET1, AT, WT, (REL eq_refl NE). reflexivity. }
    destruct (start_assemble st c st1 acts wts _ CFG1 FL1 AT WT DL1 COV1 RT UT TS1 LOG1 HA HW REL) as (I & _ & _ & D).
    pose proof (start_R st c kts st1 acts wts CFG1 AT WT DL1 TS1 LOG1 HA HW REL HK O1) as R.
    cbn zeta in I, D, R. apply (minv_perm _ _ _ _ _ _ _ _ kts _ CT) in I.
    destruct wts as [|w0 r0] eqn:EW; cbv iota in I, D, R |- *; [split; [exact I | split; [exact D | exact R]]|].
    rewrite PH by discriminate. split; [exact I | split; [exact D | exact R]]. }
  assert (RUN : (c = COn -> wts <> [] -> any_related (s_tab st) (acts ++ wts) = false) -> (c = COn -> related_pair FFs kts = false) ->
    exists st', match drain (fuel_for (match s_wait st1 with [] => st1 | _ => send_initial_parent_queries (if cmd_is_stat c then st1 else phased_power_on_check st1 c) end)) sched
                             (match s_wait st1 with [] => st1 | _ => send_initial_parent_queries (if cmd_is_stat c then st1 else phased_power_on_check st1 c) end) with
                | Ok st2 => Ok (st2, false) | Exit c0 s => Exit c0 s | Abort s => Abort s | MemErr s => MemErr s | Hang s => Hang s end = Ok (st', false) /\
      at_prompt st' /\ same_cfg st' st /\ Permutation (map snd (results st')) (fst (expected_of st c ts)) /\
      same_status (statmap_of (s_tstat st')) (snd (expected_of st c ts))).
  { intros REL RP. destruct (MAIN REL) as (st2 & -> & INV & DL2 & RI).
    assert (ET2 : s_tab st2 = s_tab st) by (destruct (mi_cfg _ _ _ _ _ _ _ _ _ INV) as (_&_&_&E&_); exact E).
    destruct (RedfishMulti.finish st c kts _ st2 sched INV DL2 ET2) as (st' & DR & (FA & FW & FD & FF & FC & FCOV & FCNT & FU & FTS & FLOG)).
    destruct (drain_R st c kts uts _ _ _ _ _ INV RI DR) as (d' & RI').
    rewrite DR. exists st'. split; [reflexivity|]. split; [repeat split; assumption|]. split; [exact FC|].
    apply (conclude st c ts st' d' CLT KOK RP RI' FCNT FU FTS). }
  assert (RPF : (wts = [] \/ any_related (s_tab st) (acts ++ wts) = false) -> related_pair FFs kts = false).
  { intros H. destruct (related_pair FFs kts) eqn:RP; [exfalso|reflexivity]. destruct (related_pair_ex _ _ RP) as (p & q & Ip & Iq & D).
    apply (desc_anc (s_tab st)) in D. destruct (KOK p Ip) as [Cp _].
    apply HK in Ip. apply HK in Iq. apply in_map_iff in Ip as (mp & Ep & Imp). apply in_map_iff in Iq as (mq & Eq & Imq).
    destruct H as [H|H].
    - rewrite H, app_nil_r in Imp. destruct (HA mp Imp) as (_ & E). rewrite Ep in E. rewrite E in D. destruct D.
    - assert (X : any_related (s_tab st) (acts ++ wts) = true); [|congruence].
      apply (any_related_pair _ _ mp mq Imp Imq).
      + intros E. rewrite E, Eq in Ep. rewrite Ep in D. exact (chain_not_in _ _ _ Cp D).
      + rewrite Ep, Eq. now apply (is_desc_anc _ _ _ Cp). }
  destruct (cmd_eq_dec c COn) as [EC|NC]; [|apply RUN; congruence].
  destruct wts as [|w0 r0] eqn:EW.
  { apply RUN; [congruence | intros _; apply RPF; now left]. }
  rewrite <- EW in *. assert (NE : wts <> []) by (rewrite EW; discriminate).
  destruct (any_related (s_tab st) (acts ++ wts)) eqn:AR.
  - destruct (REFUSED EC eq_refl NE) as (st' & -> & ID & FL & SC & PERM & SS).
    rewrite (drain_idle _ _ _ FL ID). exists st'. split; [reflexivity|]. split; [|auto].
    destruct (idle_lists _ ID) as (E1 & E2 & E3). repeat split; assumption.
  - apply RUN; [auto | intros _; apply RPF; now right].
Qed.
End WithHostlist.
