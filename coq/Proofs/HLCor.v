(* C14: the statements of Properties/C14.v that are direct corollaries of HLIndex / HLFind *)
From Coq Require Import List Arith NArith ZArith Lia Bool.
From PM Require Import Base.Bytes Base.Outcome Gen.GenHL Model.HL Spec.HLSpec Proofs.HLArith Proofs.HLProofs Proofs.HLIndex Proofs.HLFind.
From Coq Require Import ZifyBool ZifyNat ZifyN.
Import ListNotations.
Local Open Scope N_scope.
Ltac Zify.zify_post_hook ::= Z.div_mod_to_equations.

(* ---------------------------------------------------------------- find: the unconditional half (what C01 relies on) *)
Theorem find_sound_nth h n : wf h -> small h -> (0 <= find h n)%Z ->
  nth_error (expand h) (Z.to_nat (find h n)) = Some n /\ In n (expand h).
Proof.
  intros Hwf Hs Hi. pose proof (find_sound h n Hwf Hs) as H. unfold find in *.
  destruct (find_mut h n) as [i h']. cbn [fst] in *. destruct H as (_ & _ & _ & H).
  specialize (H Hi). split; [exact H|]. eapply nth_error_In; exact H.
Qed.

(* the answer is -1 or a position of the list; the list hostlist_find leaves behind (it may rewrite width fields)
   denotes the same names *)
Theorem find_answer_range h n : wf h -> small h ->
  (find h n = -1 \/ 0 <= find h n < Z.of_nat (length (expand h)))%Z
  /\ expand (snd (find_mut h n)) = expand h /\ wf (snd (find_mut h n)).
Proof.
  intros Hwf Hs. pose proof (find_sound h n Hwf Hs) as H. unfold find in *.
  destruct (find_mut h n) as [i h']. cbn [fst snd] in *. destruct H as (He & Hw & Hr & Hn).
  split; [|split; assumption].
  destruct Hr as [->|Hr]; [now left|right]. specialize (Hn Hr).
  assert (Z.to_nat i < length (expand h))%nat by (apply nth_error_Some; congruence). lia.
Qed.

(* membership: exact names (zero padding is significant) *)
Theorem find_member_iff h n : wf h -> small h -> suffix_small n -> ((0 <= find h n)%Z <-> In n (expand h)).
Proof.
  intros Hwf Hs Hss. split.
  - intros Hi. now apply find_sound_nth.
  - intros Hin. rewrite (find_complete h n Hwf Hs Hss). pose proof (index_of_in n _ Hin). lia.
Qed.

(* index_of really is "the first position holding exactly this name" *)
Lemma index_of_spec n l :
  (In n l -> exists i, index_of n l = Z.of_nat i /\ nth_error l i = Some n /\ forall j, (j < i)%nat -> nth_error l j <> Some n)
  /\ (~ In n l -> index_of n l = (-1)%Z).
Proof.
  split; [|apply index_of_notin].
  induction l as [|x l IH]; intros Hin; [destruct Hin|]. cbn [index_of].
  destruct (text_eqb x n) eqn:E.
  - apply text_eqb_eq in E. subst. exists 0%nat. repeat split; auto. intros j Hj; lia.
  - destruct Hin as [->|Hin]; [now rewrite text_eqb_refl in E|].
    destruct (IH Hin) as (i & Hi & Hnth & Hmin). exists (S i). rewrite Hi.
    destruct (Z.ltb_spec (Z.of_nat i) 0); [lia|]. split; [lia|]. split; [exact Hnth|].
    intros [|j] Hj; cbn [nth_error].
    + intros Hx. inversion Hx; subst. now rewrite text_eqb_refl in E.
    + apply Hmin. lia.
Qed.

(* F11, second shape: digit-terminated bracket prefix; the trailing digit run of the member is 133554431 *)
Theorem find_refuted_prefix_digit : exists h n, create (bs "n1[33554430-33554432]"%string) = Ok (Some h) /\
  wf h /\ small h /\ In n (expand h) /\ find h n = (-1)%Z.
Proof.
  exists [mk_range (bs "n1"%string) 33554430 33554432 8], (bs "n133554431"%string).
  split; [vm_compute; reflexivity|].
  split; [constructor; [vm_compute; split; [discriminate | reflexivity] | constructor]|].
  split; [vm_compute; reflexivity|]. split; [vm_compute; right; now left | vm_compute; reflexivity].
Qed.

Theorem find_refuted_create : exists h n, create (bs "n[99999998-99999999]"%string) = Ok (Some h) /\
  wf h /\ small h /\ In n (expand h) /\ find h n = (-1)%Z.
Proof.
  exists [mk_range (bs "n"%string) 99999998 99999999 8], (bs "n99999998"%string).
  split; [vm_compute; reflexivity|].
  split; [constructor; [vm_compute; split; [discriminate | reflexivity] | constructor]|].
  split; [vm_compute; reflexivity|]. split; [vm_compute; now left | vm_compute; reflexivity].
Qed.

(* ---------------------------------------------------------------- delete: no OTHER name is touched *)
(* remove_at keeps every other position, in order *)
Lemma remove_at_nth {A} (l : list A) i j :
  nth_error (remove_at i l) j = if (j <? i)%nat then nth_error l j else nth_error l (S j).
Proof.
  revert i j; induction l as [|x l IH]; intros i j.
  - destruct i, j; cbn [remove_at nth_error]; now destruct (_ <? _)%nat.
  - destruct i as [|i]; cbn [remove_at]; [reflexivity|].
    destruct j as [|j]; cbn [nth_error]; [reflexivity|]. rewrite IH.
    change (S j <? S i)%nat with (j <? i)%nat. reflexivity.
Qed.

Lemma remove_at_length {A} (l : list A) i : (i < length l)%nat -> S (length (remove_at i l)) = length l.
Proof.
  revert i; induction l as [|x l IH]; intros i Hi; cbn [length] in *; [lia|].
  destruct i; cbn [remove_at length]; [reflexivity|]. rewrite IH by lia. reflexivity.
Qed.

Lemma remove_at_split {A} (l : list A) i x : nth_error l i = Some x ->
  l = firstn i l ++ x :: skipn (S i) l /\ remove_at i l = firstn i l ++ skipn (S i) l.
Proof.
  revert i; induction l as [|y l IH]; intros i H; [destruct i; discriminate|].
  destruct i as [|i]; cbn [nth_error] in H.
  - inversion H; subst. split; reflexivity.
  - destruct (IH i H) as [H1 H2]. cbn [firstn skipn remove_at app]. split; [f_equal; exact H1 | f_equal; exact H2].
Qed.

(* deleting the i-th name: exactly that occurrence disappears, nothing is added, dropped or renamed *)
Theorem delete_nth_others h i : wf h -> small h -> (i < length (expand h))%nat ->
  exists h' x, delete_nth h (Z.of_nat i) = Ok h' /\ wf h' /\ nth_error (expand h) i = Some x
    /\ expand h = firstn i (expand h) ++ x :: skipn (S i) (expand h)
    /\ expand h' = firstn i (expand h) ++ skipn (S i) (expand h).
Proof.
  intros Hwf Hs Hi. destruct (delete_nth_sound h i Hwf Hs Hi) as (h' & Hd & He & Hw).
  destruct (nth_error (expand h) i) as [x|] eqn:Ex; [|apply nth_error_None in Ex; lia].
  destruct (remove_at_split _ _ _ Ex) as [H1 H2].
  exists h', x. rewrite He. repeat split; auto.
Qed.

Theorem delete_host_others h n : wf h -> small h -> suffix_small n ->
  exists r h', delete_host h n = Ok (r, h') /\ wf h' /\
    ((r = 1%Z /\ exists a b, expand h = a ++ n :: b /\ ~ In n a /\ expand h' = a ++ b)
     \/ (r = 0%Z /\ ~ In n (expand h) /\ expand h' = expand h)).
Proof.
  intros Hwf Hs Hss. destruct (delete_host_sound h n Hwf Hs Hss) as (r & h' & Hd & Hw & Hc).
  exists r, h'. split; [exact Hd|]. split; [exact Hw|].
  destruct Hc as [(Hin & -> & He)|(Hnin & -> & He)]; [left|right; auto].
  split; [reflexivity|].
  destruct (proj1 (index_of_spec n (expand h)) Hin) as (i & Hi & Hnth & Hmin).
  rewrite Hi, Nat2Z.id in He. destruct (remove_at_split _ _ _ Hnth) as [H1 H2].
  exists (firstn i (expand h)), (skipn (S i) (expand h)). split; [exact H1|]. split; [|now rewrite He].
  intros Hin'. apply In_nth_error in Hin' as (j & Hj).
  assert (Hjl : (j < length (firstn i (expand h)))%nat) by (apply nth_error_Some; congruence).
  rewrite firstn_length in Hjl. apply (Hmin j); [lia|].
  rewrite <- Hj. rewrite <- (firstn_skipn i (expand h)) at 1. apply nth_error_app1. rewrite firstn_length. lia.
Qed.

(* ---------------------------------------------------------------- nth, past the end *)
Theorem nth_past_end h i : wf h -> short h -> small h -> (length (expand h) <= i)%nat ->
  nth h (Z.of_nat i) = Ok None.
Proof.
  intros Hwf Hsh Hs Hi. rewrite (nth_sound h i Hwf Hsh Hs). f_equal. now apply nth_error_None.
Qed.

(* a member that hostlist_find misses has a trailing digit run above MAX_HOST_SUFFIX (the only way F11 shows) *)
Theorem find_miss_only_large_suffix h n : wf h -> small h -> In n (expand h) -> find h n = (-1)%Z -> ~ suffix_small n.
Proof.
  intros Hwf Hs Hin Hf Hss. rewrite (find_complete h n Hwf Hs Hss) in Hf. pose proof (index_of_in n _ Hin). lia.
Qed.

(* hostlist_push(hl, "expr") = hostlist_create + hostlist_push_list *)
Theorem push_expr_sound h s n : wf h -> create s = Ok (Some n) -> wf n ->
  exists h', push h s = Ok (Some h') /\ expand h' = expand h ++ expand n /\ wf h'.
Proof.
  intros Hwf Hc Hn. unfold push. rewrite Hc. cbn [bind]. eexists. split; [reflexivity|].
  now apply push_list_sound.
Qed.

(* the list used by the non-vacuity examples of Properties/C14.v: t[09-10],foo *)
Definition t09_10_foo : hostlist := push_host (push_host (push_host [] (bs "t09"%string)) (bs "t10"%string)) (bs "foo"%string).
