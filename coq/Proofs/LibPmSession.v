(* C16: no sequence of API calls reaches a memory error, whatever the server sends *)
From Coq Require Import List NArith ZArith Bool Lia.
From PM Require Import Base.Bytes Base.Outcome Gen.GenConsts Gen.GenLibPm Model.LibPm Spec.ReplySpec
  Proofs.LibPmBase Proofs.LibPmRecv Proofs.LibPmReply.
Import ListNotations.
Local Open Scope Z_scope.

Lemma recv_ok chunks : exists err resp rest, recv chunks = Ok (err, resp, rest).
Proof. destruct (recv_total chunks) as (err & resp & rest & H & _). eauto. Qed.

Lemma command_ok fmt args chunks : exists rc resp rest sent, command fmt args chunks = Ok (rc, resp, rest, sent).
Proof. unfold command. destruct (recv_ok chunks) as (err & resp & rest & H). rewrite H. cbn [bind]. eauto. Qed.

Lemma simple_ok s fmt args : exists s' res, simple s fmt args = Ok (s', res).
Proof.
  unfold simple. destruct (s_handle s); [|eauto].
  destruct (command_ok fmt args (s_chunks s)) as (rc & resp & rest & sent & H). rewrite H. cbn [bind]. eauto.
Qed.

Lemma step_ok s o : exists s' res, step s o = Ok (s', res).
Proof.
  destruct o; cbn [step]; try apply simple_ok.
  - destruct (recv_ok (s_chunks s)) as (rc & resp & rest & H). rewrite H. cbn [bind].
    destruct (rc =? PM_ESUCCESS); [|eauto].
    destruct (command_ok CP_EXPRANGE [] rest) as (rc2 & resp2 & rest2 & sent & H2). rewrite H2. cbn [bind]. eauto.
  - destruct (s_handle s); [|eauto].
    destruct (command_ok CP_STATUS [node] (s_chunks s)) as (rc & resp & rest & sent & H). rewrite H. cbn [bind]. eauto.
  - destruct (s_handle s); [|eauto].
    destruct (command_ok CP_NODES [] (s_chunks s)) as (rc & resp & rest & sent & H). rewrite H. cbn [bind].
    destruct (rc =? PM_ESUCCESS); [|eauto].
    destruct (node_iter_total resp) as (l & N). rewrite N. cbn [bind]. eauto.
  - destruct (recv_ok (s_chunks s)) as (rc & resp & rest & H). rewrite H. cbn [bind]. eauto.
  - destruct (s_handle s); [|eauto].
    destruct (command_ok CP_QUIT [] (s_chunks s)) as (rc & resp & rest & sent & H). rewrite H. cbn [bind]. eauto.
Qed.

Lemma run_ops_ok ops : forall s, snd (run_ops s ops) = None /\ length (fst (run_ops s ops)) = length ops.
Proof.
  induction ops as [|o ops IH]; intros s; cbn [run_ops]; [auto|].
  destruct (step_ok s o) as (s' & res & H). rewrite H. destruct (IH s') as [A B].
  destruct (run_ops s' ops) as [l e]. cbn [fst snd length] in *. auto.
Qed.
