(* C16: reply splitting, return code, node state, node list *)
From Coq Require Import List NArith ZArith Bool Lia.
From PM Require Import Base.Bytes Base.Outcome Gen.GenConsts Gen.GenLibPm Model.LibPm Spec.ReplySpec Proofs.LibPmBase.
Import ListNotations.
Local Open Scope Z_scope.

(* ------------------------------------------------------------------ _parse_response *)
Lemma parse_raw_no_crlf t : forall cur acc, no_crlf t -> parse_raw cur t acc = acc.
Proof.
  induction t as [|c t IH]; intros cur acc H; cbn [parse_raw]; [reflexivity|].
  destruct t as [|d t]; [reflexivity|]. destruct t as [|e t]; [reflexivity|].
  destruct (beq c CR && beq d LF) eqn:E.
  - apply andb_true_iff in E as [E1 E2]. apply beq_eq in E1, E2. exfalso. apply (no_crlf_head c d (e :: t) H). auto.
  - apply IH. eapply no_crlf_tail; eauto.
Qed.

Lemma parse_raw_line l : no_crlf l -> forall cur rest acc, rest <> [] ->
  parse_raw cur (l ++ CR :: LF :: rest) acc = parse_raw [] rest ((rev cur ++ l ++ [CR; LF]) :: acc).
Proof.
  induction l as [|x l IH]; intros H cur rest acc NE.
  - destruct rest as [|r rest]; [congruence|]. cbn [app parse_raw]. rewrite !beq_refl. cbn [andb].
    rewrite frev_rev. cbn [rev]. rewrite <- !app_assoc. reflexivity.
  - cbn [app parse_raw].
    assert (S : exists d e t, l ++ CR :: LF :: rest = d :: e :: t).
    { destruct l as [|d l]; [cbn; eauto|]. destruct l as [|e l]; cbn; eauto. }
    destruct S as (d & e & t & S). rewrite S.
    destruct (beq x CR && beq d LF) eqn:E.
    + apply andb_true_iff in E as [E1 E2]. apply beq_eq in E1, E2. subst x d. exfalso.
      destruct l as [|d l]; cbn [app] in S; inversion S. subst d. apply (H [] l). reflexivity.
    + rewrite <- S. rewrite (IH (no_crlf_tail _ _ H) (x :: cur) rest acc NE). cbn [rev]. rewrite <- !app_assoc. reflexivity.
Qed.

Lemma eol_is_crlf : CP_EOL = [CR; LF].
Proof. reflexivity. Qed.

Lemma parse_raw_reply ls : Forall no_crlf ls -> forall acc tail, tail <> [] -> no_crlf tail ->
  parse_raw [] (concat (map (fun l => l ++ CP_EOL) ls) ++ tail) acc = rev (map (fun l => l ++ CP_EOL) ls) ++ acc.
Proof.
  induction ls as [|l ls IH]; intros H acc tail NE NT; cbn [map concat app rev].
  - apply parse_raw_no_crlf. exact NT.
  - inversion H as [|? ? H1 H2]; subst. rewrite eol_is_crlf. rewrite <- !app_assoc. cbn [app].
    rewrite parse_raw_line; [|exact H1|].
    2:{ intros E. apply app_eq_nil in E as [_ E]. contradiction. }
    cbn [rev app]. rewrite <- eol_is_crlf. rewrite IH by auto. reflexivity.
Qed.

Lemma prompt_no_crlf : no_crlf CP_PROMPT.
Proof. apply no_cr_lf_no_crlf. cbv. repeat constructor; discriminate. Qed.

Lemma prompt_nonempty : CP_PROMPT <> [].
Proof. discriminate. Qed.

Lemma parse_response_reply ls : Forall no_crlf ls ->
  parse_response (reply_bytes ls) = rev (map (fun l => cstr (l ++ CP_EOL)) ls).
Proof.
  intros H. unfold parse_response, reply_bytes. rewrite parse_raw_reply by (auto using prompt_no_crlf, prompt_nonempty).
  rewrite app_nil_r, map_rev, map_map. reflexivity.
Qed.

(* every line is a CRLF-terminated piece of the bytes *)
Lemma parse_raw_sub_n n : forall s, (length s <= n)%nat -> forall cur acc l, In l (parse_raw cur s acc) ->
  In l acc \/ exists a b, rev cur ++ s = a ++ l ++ b /\ ends_with l [CR; LF].
Proof.
  induction n as [|n IH]; intros s L cur acc l H.
  - destruct s; [cbn [parse_raw] in H; auto|cbn in L; lia].
  - destruct s as [|c s]; cbn [parse_raw] in H; [auto|].
    destruct s as [|d s]; [auto|]. destruct s as [|e s]; [auto|].
    cbn [length] in L.
    destruct (beq c CR && beq d LF) eqn:E.
    + apply andb_true_iff in E as [E1 E2]. apply beq_eq in E1, E2. subst c d.
      apply IH in H; [|cbn [length]; lia]. destruct H as [[H|H]|(a & b & H1 & H2)].
      * right. subst l. rewrite frev_rev. cbn [rev]. exists [], (e :: s). split.
        -- cbn [app]. rewrite <- !app_assoc. reflexivity.
        -- exists (rev cur). rewrite <- app_assoc. reflexivity.
      * auto.
      * right. cbn [rev app] in H1. exists (rev cur ++ CR :: LF :: a), b. split; [|exact H2].
        rewrite H1. rewrite <- !app_assoc. reflexivity.
    + apply IH in H; [|cbn [length]; lia]. destruct H as [H|(a & b & H1 & H2)]; [auto|]. right. exists a, b. split; [|exact H2].
      rewrite <- H1. cbn [rev]. rewrite <- app_assoc. reflexivity.
Qed.

Lemma parse_raw_sub s : forall cur acc l, In l (parse_raw cur s acc) ->
  In l acc \/ exists a b, rev cur ++ s = a ++ l ++ b /\ ends_with l [CR; LF].
Proof. apply (parse_raw_sub_n (length s)). lia. Qed.

Lemma parse_response_sub s line : In line (parse_response s) ->
  exists raw a b, s = a ++ raw ++ b /\ ends_with raw [CR; LF] /\ line = cstr raw.
Proof.
  unfold parse_response. intros H. apply in_map_iff in H as (raw & <- & H).
  apply parse_raw_sub in H as [[]|(a & b & H1 & H2)]. exists raw, a, b. auto.
Qed.

(* ------------------------------------------------------------------ _server_retcode *)
Definition classified (line : text) : option Z :=
  match sscanf_d line with Some c => classify c | None => None end.

Lemma retcode_step_classified err line :
  retcode_step err line = match classified line with Some e => e | None => err end.
Proof. unfold retcode_step, classified. destruct (sscanf_d line); reflexivity. Qed.

Lemma retcode_fold resp : forall d e, fold_left retcode_step resp d = e ->
  e = d \/ exists line c, In line resp /\ sscanf_d line = Some c /\ classify c = Some e.
Proof.
  induction resp as [|l resp IH]; intros d e H; cbn [fold_left] in H; [auto|].
  apply IH in H. destruct H as [H|(line & c & H1 & H2 & H3)].
  - unfold retcode_step in H. destruct (sscanf_d l) as [c|] eqn:E1; [|auto]. destruct (classify c) as [e'|] eqn:E2; [|auto].
    right. exists l, c. subst. cbn [In]. auto.
  - right. exists line, c. cbn [In]. auto.
Qed.

Lemma retcode_rev lines : retcode (rev lines) = fold_right (fun l acc => retcode_step acc l) retcode_default lines.
Proof.
  unfold retcode. rewrite <- (rev_involutive lines) at 2. rewrite fold_left_rev_right. reflexivity.
Qed.

(* the first line (in stream order) that carries a code of the table decides *)
Lemma retcode_first pre l post e : Forall (fun x => classified x = None) pre -> classified l = Some e ->
  retcode (rev (pre ++ l :: post)) = e.
Proof.
  intros H1 H2. rewrite retcode_rev. induction pre as [|p pre IH]; cbn [app fold_right].
  - rewrite retcode_step_classified, H2. reflexivity.
  - inversion H1; subst. rewrite retcode_step_classified, H3. apply IH. auto.
Qed.

Lemma retcode_none lines : Forall (fun x => classified x = None) lines -> retcode (rev lines) = retcode_default.
Proof.
  intros H. rewrite retcode_rev. induction lines as [|p lines IH]; cbn [fold_right]; [reflexivity|].
  inversion H; subst. rewrite retcode_step_classified, H2. auto.
Qed.

(* facts about the table regenerated from the source (re-checked whenever _server_retcode changes) *)
Lemma table_success_sound : forall c, classify c = Some PM_ESUCCESS -> success_code c.
Proof.
  intros c H. unfold classify in H. apply assoc_in in H. revert H. unfold retcode_table. cbn [In].
  unfold success_code. intuition (match goal with H : (_, _) = (_, _) |- _ => inversion H; subst; clear H end; cbv; intuition congruence).
Qed.

Lemma table_server_codes : forall k, In k server_codes -> classify k = Some (spec_rc k).
Proof.
  intros k H. unfold server_codes in H. cbn [In] in H.
  repeat (destruct H as [<-|H]; [reflexivity|]). contradiction.
Qed.

Lemma table_no_info : forall k, info_code k -> classify k = None.
Proof.
  intros k [H1 H2]. unfold classify, retcode_table. cbn [assoc].
  repeat match goal with |- context [?a =? k] => destruct (a =? k) eqn:?E; [apply Z.eqb_eq in E; lia|]; clear E end.
  reflexivity.
Qed.

Lemma default_not_success : retcode_default <> PM_ESUCCESS.
Proof. discriminate. Qed.

Lemma retcode_success_sound resp : retcode resp = PM_ESUCCESS ->
  exists line c, In line resp /\ sscanf_d line = Some c /\ success_code c.
Proof.
  intros H. apply retcode_fold in H. destruct H as [H|(line & c & H1 & H2 & H3)].
  - exfalso. apply default_not_success. auto.
  - exists line, c. auto using table_success_sound.
Qed.

(* ------------------------------------------------------------------ digits *)
Lemma digit_facts d : 0 <= d <= 9 ->
  is_digit (digit d) = true /\ is_space (digit d) = false /\ beq (digit d) MINUS = false /\ beq (digit d) PLUS = false /\
  Z.of_N (digit d) - 48 = d /\ digit d <> NUL /\ digit d <> CR /\ digit d <> LF.
Proof.
  intros H. assert (C : d = 0 \/ d = 1 \/ d = 2 \/ d = 3 \/ d = 4 \/ d = 5 \/ d = 6 \/ d = 7 \/ d = 8 \/ d = 9) by lia.
  repeat (destruct C as [->|C]; [cbv; repeat split; discriminate|]). subst. cbv. repeat split; discriminate.
Qed.

Lemma dec3_digits k : 0 <= k <= 999 ->
  exists a b c, dec3 k = [digit a; digit b; digit c] /\ 0 <= a <= 9 /\ 0 <= b <= 9 /\ 0 <= c <= 9 /\ k = a * 100 + b * 10 + c.
Proof.
  intros H. exists (k / 100), ((k / 10) mod 10), (k mod 10). split; [reflexivity|].
  pose proof (Z.div_mod k 100 ltac:(lia)). pose proof (Z.mod_pos_bound k 100 ltac:(lia)).
  pose proof (Z.div_mod k 10 ltac:(lia)). pose proof (Z.mod_pos_bound k 10 ltac:(lia)).
  pose proof (Z.div_mod (k / 10) 10 ltac:(lia)). pose proof (Z.mod_pos_bound (k / 10) 10 ltac:(lia)).
  assert (k / 10 / 10 = k / 100) by (rewrite Z.div_div by lia; reflexivity).
  assert (0 <= k / 100 < 10) by (split; [apply Z.div_pos; lia | apply Z.div_lt_upper_bound; lia]).
  lia.
Qed.

Lemma is_digit_SP : is_digit SP = false. Proof. reflexivity. Qed.

Lemma small_int32 k : 0 <= k <= 999 -> to_int32 (clamp_long k) = k.
Proof.
  intros H. unfold clamp_long, LONG_MIN, LONG_MAX. rewrite Z.min_r, Z.max_r by lia.
  unfold to_int32. rewrite Z.mod_small by lia. destruct (k <? 2147483648) eqn:E; [reflexivity|]. apply Z.ltb_ge in E. lia.
Qed.

(* sscanf("%d ") of a rendered line gives its code *)
Lemma sscanf_d_dec3 k rest : 0 <= k <= 999 -> sscanf_d (dec3 k ++ SP :: rest) = Some k.
Proof.
  intros H. destruct (dec3_digits k H) as (a & b & c & -> & Ha & Hb & Hc & ->).
  destruct (digit_facts a Ha) as (A1 & A2 & A3 & A4 & A5 & _). destruct (digit_facts b Hb) as (B1 & _ & _ & _ & B5 & _).
  destruct (digit_facts c Hc) as (C1 & _ & _ & _ & C5 & _).
  unfold sscanf_d, scan_int. cbn [app skip_ws]. rewrite A2, A3, A4, A1.
  cbn [digits_val]. rewrite A1, B1, C1, is_digit_SP, A5, B5, C5.
  f_equal. rewrite small_int32 by lia. lia.
Qed.

Lemma dec3_no_nul k : 0 <= k <= 999 -> no_nul (dec3 k).
Proof.
  intros H. destruct (dec3_digits k H) as (a & b & c & -> & Ha & Hb & Hc & _).
  destruct (digit_facts a Ha) as (_ & _ & _ & _ & _ & A & _). destruct (digit_facts b Hb) as (_ & _ & _ & _ & _ & B & _).
  destruct (digit_facts c Hc) as (_ & _ & _ & _ & _ & C & _).
  unfold no_nul. cbn [In]. intuition congruence.
Qed.

Lemma dec3_clean k : 0 <= k <= 999 -> clean (dec3 k).
Proof.
  intros H. destruct (dec3_digits k H) as (a & b & c & -> & Ha & Hb & Hc & _).
  destruct (digit_facts a Ha) as (_ & _ & _ & _ & _ & A). destruct (digit_facts b Hb) as (_ & _ & _ & _ & _ & B).
  destruct (digit_facts c Hc) as (_ & _ & _ & _ & _ & C).
  unfold clean, clean_byte. repeat constructor; tauto.
Qed.

Lemma render_clean l : wf_line l -> clean (render_line l).
Proof.
  intros [H1 H2]. unfold render_line, clean. apply Forall_app. split; [apply dec3_clean; auto|].
  constructor; [|exact H2]. unfold clean_byte. repeat split; discriminate.
Qed.

Lemma eol_no_nul : no_nul CP_EOL.
Proof. unfold no_nul. cbv. intuition discriminate. Qed.

Lemma cstr_render l : wf_line l -> cstr (render_line l ++ CP_EOL) = render_line l ++ CP_EOL.
Proof.
  intros H. apply cstr_no_nul. apply no_nul_app; [|apply eol_no_nul]. apply clean_no_nul, render_clean, H.
Qed.

Lemma classified_render l : wf_line l -> classified (cstr (render_line l ++ CP_EOL)) = classify (rl_code l).
Proof.
  intros H. rewrite (cstr_render l H). unfold classified, render_line. rewrite <- app_assoc. cbn [app].
  rewrite sscanf_d_dec3 by apply H. reflexivity.
Qed.

(* conforming reply -> return code *)
Lemma retcode_conforming r : conforming r -> In (rl_code (rp_term r)) server_codes ->
  retcode (parse_response (reply_stream r)) = spec_rc (rl_code (rp_term r)).
Proof.
  intros (HI & HT & _) HS. unfold reply_stream. rewrite parse_response_reply.
  2:{ unfold reply_lines. apply Forall_app. split.
      - apply Forall_map. eapply Forall_impl; [|exact HI]. intros l [W _]. apply clean_no_crlf, render_clean, W.
      - constructor; [|constructor]. apply clean_no_crlf, render_clean, HT. }
  unfold reply_lines. rewrite map_app. cbn [map].
  apply retcode_first.
  - rewrite map_map. apply Forall_map. eapply Forall_impl; [|exact HI]. intros l [W I]. cbn beta.
    rewrite (classified_render l W). apply table_no_info, I.
  - rewrite (classified_render _ HT). apply table_server_codes, HS.
Qed.

(* ------------------------------------------------------------------ pm_node_status *)
Lemma list_search_in resp s : list_search resp s = true <-> In s resp.
Proof.
  unfold list_search. rewrite existsb_exists. split.
  - intros (x & H1 & H2). apply text_eqb_eq in H2. subst. exact H1.
  - intros H. exists s. split; [exact H|apply text_eqb_refl].
Qed.

Lemma fmt_status node st : fmt_subst CP_INFO_XSTATUS [node; st] = status_line node st ++ CP_EOL.
Proof. unfold status_line. rewrite <- !app_assoc. reflexivity. Qed.

Lemma status_str node st : zlen node + zlen st + 8 < CP_LINEMAX ->
  snprintf_s CP_LINEMAX CP_INFO_XSTATUS [node; st] = status_line node st ++ CP_EOL.
Proof.
  intros H. unfold snprintf_s. rewrite fmt_status. apply take_all.
  unfold status_line. rewrite !zlen_app. change (zlen (bs "303 "%string)) with 4. change (zlen (bs ": "%string)) with 2. change (zlen CP_EOL) with 2. lia.
Qed.

Lemma states_distinct : PM_OFF <> PM_ON /\ PM_OFF <> PM_UNKNOWN /\ PM_ON <> PM_UNKNOWN.
Proof. repeat split; discriminate. Qed.

(* the state is decided by the presence of the exact lines "303 <node>: off\r\n" / "303 <node>: on\r\n" *)
Lemma node_status_spec node resp : zlen node + 11 < CP_LINEMAX ->
  let offl := status_line node (bs "off"%string) ++ CP_EOL in
  let onl := status_line node (bs "on"%string) ++ CP_EOL in
  (node_status node resp = PM_OFF <-> In offl resp) /\
  (node_status node resp = PM_ON <-> ~ In offl resp /\ In onl resp) /\
  (node_status node resp = PM_UNKNOWN <-> ~ In offl resp /\ ~ In onl resp).
Proof.
  intros H offl onl. unfold node_status.
  rewrite (status_str node (bs "off"%string)) by (change (zlen (bs "off"%string)) with 3; lia).
  rewrite (status_str node (bs "on"%string)) by (change (zlen (bs "on"%string)) with 2; lia).
  fold offl onl. destruct states_distinct as (D1 & D2 & D3).
  destruct (list_search resp offl) eqn:E1; [|destruct (list_search resp onl) eqn:E2].
  - apply list_search_in in E1. intuition congruence.
  - apply list_search_in in E2. assert (~ In offl resp) by (intros I; apply list_search_in in I; congruence). intuition congruence.
  - assert (~ In offl resp) by (intros I; apply list_search_in in I; congruence).
    assert (~ In onl resp) by (intros I; apply list_search_in in I; congruence). intuition congruence.
Qed.

Lemma existsb_rev {A} (f : A -> bool) l : existsb f (rev l) = existsb f l.
Proof.
  apply eq_true_iff_eq. rewrite !existsb_exists. split; intros (x & H1 & H2); exists x; split; auto.
  - apply in_rev. exact H1.
  - apply in_rev in H1. exact H1.
Qed.

(* on the lines of a reply (NUL-free), it is the specified reading *)
Lemma node_status_reply node ls : zlen node + 11 < CP_LINEMAX -> Forall no_nul ls ->
  node_status node (rev (map (fun l => cstr (l ++ CP_EOL)) ls)) = spec_status PM_OFF PM_ON PM_UNKNOWN node ls.
Proof.
  intros H NN. unfold node_status, spec_status, list_search.
  rewrite (status_str node (bs "off"%string)) by (change (zlen (bs "off"%string)) with 3; lia).
  rewrite (status_str node (bs "on"%string)) by (change (zlen (bs "on"%string)) with 2; lia).
  rewrite !existsb_rev.
  assert (Q : forall s, existsb (fun l => text_eqb l (s ++ CP_EOL)) (map (fun l => cstr (l ++ CP_EOL)) ls) = existsb (fun l => text_eqb l s) ls).
  { intros s. induction ls as [|l ls IH]; cbn [map existsb]; [reflexivity|]. inversion NN; subst. rewrite IH by auto. f_equal.
    rewrite cstr_no_nul by (apply no_nul_app; [auto|apply eol_no_nul]).
    apply eq_true_iff_eq. rewrite !text_eqb_eq. split; [apply app_inv_tail|intros ->; reflexivity]. }
  rewrite !Q. reflexivity.
Qed.

(* ------------------------------------------------------------------ node iterator *)
Lemma skip_ws_len t : zlen (skip_ws t) <= zlen t.
Proof. induction t as [|c t IH]; cbn [skip_ws]; [lia|]. destruct (is_space c); rewrite ?zlen_cons; lia. Qed.

Lemma scan_token_len t : zlen (scan_token t) <= zlen t.
Proof. induction t as [|c t IH]; cbn [scan_token]; [lia|]. destruct (is_space c); rewrite ?zlen_cons; cbn [zlen]; pose proof (zlen_nonneg t); lia. Qed.

Lemma sscanf_s_len fmt : forall input tok, sscanf_s fmt input = Some tok -> zlen tok <= zlen input.
Proof.
  induction fmt as [|f fmt IH]; intros input tok H; cbn [sscanf_s] in H; [discriminate|].
  destruct (is_space f).
  - apply IH in H. pose proof (skip_ws_len input). lia.
  - destruct (beq f PCT).
    + destruct fmt as [|s fmt]; [discriminate|]. destruct (beq s LOW_S); [|discriminate].
      destruct (scan_token (skip_ws input)) eqn:E; [discriminate|]. inversion H; subst. rewrite <- E.
      pose proof (scan_token_len (skip_ws input)). pose proof (skip_ws_len input). lia.
    + destruct input as [|c input]; [discriminate|]. destruct (beq c f); [|discriminate]. apply IH in H. rewrite zlen_cons. lia.
Qed.

Definition line_node (l : text) : option text := if zlen l <? CP_LINEMAX then sscanf_s CP_INFO_XNODES l else None.
Definition line_nodes (l : text) : list text := match line_node l with Some t => [t] | None => [] end.

(* node[] is never overrun, and the iterator holds the names of the lines in stream order *)
Lemma node_iter_go_spec resp : forall acc, node_iter_go resp acc = Ok (rev (flat_map line_nodes resp) ++ acc).
Proof.
  induction resp as [|l resp IH]; intros acc; cbn [node_iter_go flat_map rev app]; [reflexivity|].
  unfold line_nodes at 1, line_node. destruct (zlen l <? CP_LINEMAX) eqn:E.
  - destruct (sscanf_s CP_INFO_XNODES l) as [tok|] eqn:S.
    + apply sscanf_s_len in S. apply Z.ltb_lt in E.
      destruct (CP_LINEMAX <? zlen tok + 1) eqn:E2; [apply Z.ltb_lt in E2; lia|].
      rewrite IH. rewrite rev_app_distr. cbn [rev app]. rewrite <- app_assoc. reflexivity.
    + rewrite IH. reflexivity.
  - rewrite IH. reflexivity.
Qed.

Lemma flat_map_single_rev {A B} (f : A -> list B) l : (forall x, length (f x) <= 1)%nat -> rev (flat_map f (rev l)) = flat_map f l.
Proof.
  intros H. induction l as [|x l IH]; cbn [rev flat_map]; [reflexivity|].
  rewrite flat_map_app, rev_app_distr, IH. cbn [flat_map]. rewrite app_nil_r. f_equal.
  specialize (H x). destruct (f x) as [|y [|z t]]; cbn in *; try reflexivity. lia.
Qed.

Lemma node_iter_rev lines : node_iter (rev lines) = Ok (flat_map line_nodes lines).
Proof.
  unfold node_iter. rewrite node_iter_go_spec, app_nil_r, flat_map_single_rev; [reflexivity|].
  intros x. unfold line_nodes. destruct (line_node x); cbn; lia.
Qed.

Lemma node_iter_total resp : exists l, node_iter resp = Ok l.
Proof. unfold node_iter. rewrite node_iter_go_spec. eauto. Qed.

(* sscanf("307 %s") on rendered lines *)
Lemma skip_ws_nonspace c t : is_space c = false -> skip_ws (c :: t) = c :: t.
Proof. intros H. cbn [skip_ws]. rewrite H. reflexivity. Qed.

Lemma scan_token_name n rest : Forall (fun c => is_space c = false /\ c <> NUL) n -> scan_token (n ++ CR :: rest) = n.
Proof.
  induction n as [|c n IH]; intros H; cbn [app scan_token]; [reflexivity|].
  inversion H as [|? ? [H1 _] H2]; subst. rewrite H1. f_equal. auto.
Qed.

Lemma sscanf_node_line name : wf_name name -> sscanf_s CP_INFO_XNODES (node_line name ++ CP_EOL) = Some name.
Proof.
  intros [NE H]. destruct name as [|c name]; [congruence|].
  inversion H as [|? ? [H1 _] H2]; subst.
  change (sscanf_s CP_INFO_XNODES (node_line (c :: name) ++ CP_EOL))
    with (match scan_token (skip_ws (skip_ws ((c :: name) ++ CP_EOL))) with [] => None | tok => Some tok end).
  cbn [app]. rewrite !skip_ws_nonspace by exact H1. rewrite eol_is_crlf.
  change (c :: name ++ [CR; LF]) with ((c :: name) ++ CR :: [LF]). rewrite scan_token_name by exact H. reflexivity.
Qed.

Lemma digit_inj a b : 0 <= a <= 9 -> 0 <= b <= 9 -> digit a = digit b -> a = b.
Proof.
  intros Ha Hb E. destruct (digit_facts a Ha) as (_ & _ & _ & _ & A & _). destruct (digit_facts b Hb) as (_ & _ & _ & _ & B & _).
  rewrite E in A. lia.
Qed.

Lemma sscanf_other_line k rest : 0 <= k <= 999 -> k <> 307 -> sscanf_s CP_INFO_XNODES (dec3 k ++ rest) = None.
Proof.
  intros H NE. destruct (dec3_digits k H) as (a & b & c & -> & Ha & Hb & Hc & ->).
  change CP_INFO_XNODES with (digit 3 :: digit 0 :: digit 7 :: skipn 3 CP_INFO_XNODES).
  cbn [app sscanf_s]. replace (is_space (digit 3)) with false by reflexivity. replace (beq (digit 3) PCT) with false by reflexivity.
  destruct (beq (digit a) (digit 3)) eqn:E1; [|reflexivity]. apply beq_eq, digit_inj in E1; [|lia|lia].
  replace (is_space (digit 0)) with false by reflexivity. replace (beq (digit 0) PCT) with false by reflexivity.
  destruct (beq (digit b) (digit 0)) eqn:E2; [|reflexivity]. apply beq_eq, digit_inj in E2; [|lia|lia].
  replace (is_space (digit 7)) with false by reflexivity. replace (beq (digit 7) PCT) with false by reflexivity.
  destruct (beq (digit c) (digit 7)) eqn:E3; [|reflexivity]. apply beq_eq, digit_inj in E3; [|lia|lia].
  lia.
Qed.

(* the 307 lines of a rendered reply *)
Lemma line_nodes_render l : wf_line l -> zlen (render_line l) + 2 < CP_LINEMAX -> (rl_code l = 307 -> wf_name (rl_text l)) ->
  line_nodes (cstr (render_line l ++ CP_EOL)) = if rl_code l =? 307 then [rl_text l] else [].
Proof.
  intros W L N. rewrite (cstr_render l W). unfold line_nodes, line_node.
  replace (zlen (render_line l ++ CP_EOL) <? CP_LINEMAX) with true.
  2:{ symmetry. apply Z.ltb_lt. rewrite zlen_app. change (zlen CP_EOL) with 2. lia. }
  destruct (rl_code l =? 307) eqn:E.
  - apply Z.eqb_eq in E. specialize (N E). unfold render_line. rewrite E.
    change (dec3 307 ++ SP :: rl_text l) with (node_line (rl_text l)). rewrite sscanf_node_line by exact N. reflexivity.
  - apply Z.eqb_neq in E. unfold render_line. rewrite <- app_assoc. rewrite sscanf_other_line by (try apply W; auto). reflexivity.
Qed.

Lemma nodes_reply ls : Forall (fun l => wf_line l /\ zlen (render_line l) + 2 < CP_LINEMAX /\ (rl_code l = 307 -> wf_name (rl_text l))) ls ->
  node_iter (rev (map (fun l => cstr (l ++ CP_EOL)) (map render_line ls))) = Ok (spec_nodes ls).
Proof.
  intros H. rewrite node_iter_rev. f_equal. unfold spec_nodes. induction ls as [|l ls IH]; cbn [map flat_map filter]; [reflexivity|].
  inversion H as [|? ? (W & L & N) H2]; subst. rewrite (line_nodes_render l W L N), IH by auto.
  destruct (rl_code l =? 307); reflexivity.
Qed.
