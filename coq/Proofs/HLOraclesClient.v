(* C15 for the host-list library AS VERIFIED in C14: Proofs/ClientStream.client_stream instantiated with the oracles defined from
   the model of hostlist.c (Proofs/HLOracles.v); the hypothesis oracle_ok is discharged by HLOracles.hl_oracle_ok. *)
From Coq Require Import List NArith ZArith Bool.
From PM Require Import Base.Bytes Base.Outcome Gen.GenConsts Gen.GenClient Model.ScriptAst Model.Enqueue Model.Script Model.Client Model.CliWorld
                       Spec.Proto Proofs.ClientProto Proofs.ClientStream Proofs.ClientExamples.
From PM Require Proofs.HLOracles.
Import ListNotations.

Notation hl_expand_str := HLOracles.hl_expand_str.
Notation hl_ranged_sorted := HLOracles.hl_ranged_sorted.
Notation hl_ranged_sorted_expr := HLOracles.hl_ranged_sorted_expr.
Notation hl_ranged_plain := HLOracles.hl_ranged_plain.
Notation hl_sorted := HLOracles.hl_sorted.

Section Inst.
  Variable rs : list text -> text.
  Hypothesis O : oracle_ok hl_expand_str rs hl_ranged_plain hl_sorted.

  Lemma client_stream_inst cf id version evs :
    events_ok hl_expand_str rs hl_ranged_plain hl_sorted (mkCstate cf [] (new_client id version)) evs = true ->
    exists s' toks st,
      run1 hl_expand_str rs hl_ranged_plain hl_sorted (mkCstate cf [] (new_client id version)) evs = Ok s'
      /\ cl_out (s_cl s') = render toks /\ run PStart toks = Some st
      /\ (busy (s_cl s') = false -> at_rest st = true)
      /\ (terminals toks + b2n (busy (s_cl s')) = lines_of evs)%nat
      /\ (conf_clean cf -> clean version -> Forall ev_clean evs ->
          Forall wf_tok toks /\ ok (cl_out (s_cl s')) = true /\ (busy (s_cl s') = false -> ok_rest (cl_out (s_cl s')) = true)).
  Proof.
    intros H. destruct (client_stream hl_expand_str rs hl_ranged_plain hl_sorted cf id version evs H) as (s' & toks & st & A & B & C & D & E & F).
    exists s', toks, st. split; [exact A|]. split; [exact B|]. split; [exact C|]. split; [exact D|]. split; [exact E|].
    intros C1 C2 C3. exact (F O C1 C2 C3).
  Qed.
End Inst.

(* node sets of reply lines built with hostlist_push_host (ReplyRanges.hl_ranged_sorted, the list C14_reply_sets speaks of) *)
Theorem client_stream_hl : forall cf id version evs,
  events_ok hl_expand_str hl_ranged_sorted hl_ranged_plain hl_sorted (mkCstate cf [] (new_client id version)) evs = true ->
  exists s' toks st,
    run1 hl_expand_str hl_ranged_sorted hl_ranged_plain hl_sorted (mkCstate cf [] (new_client id version)) evs = Ok s'
    /\ cl_out (s_cl s') = render toks /\ run PStart toks = Some st
    /\ (busy (s_cl s') = false -> at_rest st = true)
    /\ (terminals toks + b2n (busy (s_cl s')) = lines_of evs)%nat
    /\ (conf_clean cf -> clean version -> Forall ev_clean evs ->
        Forall wf_tok toks /\ ok (cl_out (s_cl s')) = true /\ (busy (s_cl s') = false -> ok_rest (cl_out (s_cl s')) = true)).
Proof. exact (client_stream_inst hl_ranged_sorted HLOracles.hl_oracle_ok). Qed.

(* ... built with hostlist_push, as client.c builds them *)
Theorem client_stream_hl_expr : forall cf id version evs,
  events_ok hl_expand_str hl_ranged_sorted_expr hl_ranged_plain hl_sorted (mkCstate cf [] (new_client id version)) evs = true ->
  exists s' toks st,
    run1 hl_expand_str hl_ranged_sorted_expr hl_ranged_plain hl_sorted (mkCstate cf [] (new_client id version)) evs = Ok s'
    /\ cl_out (s_cl s') = render toks /\ run PStart toks = Some st
    /\ (busy (s_cl s') = false -> at_rest st = true)
    /\ (terminals toks + b2n (busy (s_cl s')) = lines_of evs)%nat
    /\ (conf_clean cf -> clean version -> Forall ev_clean evs ->
        Forall wf_tok toks /\ ok (cl_out (s_cl s')) = true /\ (busy (s_cl s') = false -> ok_rest (cl_out (s_cl s')) = true)).
Proof. exact (client_stream_inst hl_ranged_sorted_expr HLOracles.hl_oracle_ok_expr). Qed.

(* a session of the toy configuration (nodes n1 n2 on device d0) served with the verified host-list library *)
Definition evs_status_hl : list event :=
  [ELine (bslit "status n[1-2]"); ESetState n1 ST_ON (bslit "ON"); ESetState n2 ST_ON (bslit "ON"); EComplete ACT_ESUCCESS [];
   ELine (bslit "nodes"); ELine (bslit "on n[2-3],zz"); ELine (bslit "on n[2-")].
Lemma ex_status_hl :
  events_ok hl_expand_str hl_ranged_sorted hl_ranged_plain hl_sorted toy_s0 evs_status_hl = true
  /\ out_of (run1 hl_expand_str hl_ranged_sorted hl_ranged_plain hl_sorted toy_s0 evs_status_hl)
     = bslit "001 2.4" ++ CP_EOL ++ CP_PROMPT
       ++ bslit "302 on:      n[1-2]" ++ CP_EOL ++ bslit "302 off:     " ++ CP_EOL ++ bslit "302 unknown: " ++ CP_EOL ++ CP_RSP_QRY_COMPLETE ++ CP_PROMPT
       ++ bslit "306 n[1-2]" ++ CP_EOL ++ CP_RSP_QRY_COMPLETE ++ CP_PROMPT
       ++ bslit "209 No such nodes: n3,zz" ++ CP_EOL ++ CP_PROMPT
       ++ bslit "205 Hostlist error: invalid range" ++ CP_EOL ++ CP_PROMPT
  /\ out_of (run1 hl_expand_str hl_ranged_sorted_expr hl_ranged_plain hl_sorted toy_s0 evs_status_hl)
     = out_of (run1 hl_expand_str hl_ranged_sorted hl_ranged_plain hl_sorted toy_s0 evs_status_hl)
  /\ ok_rest (out_of (run1 hl_expand_str hl_ranged_sorted hl_ranged_plain hl_sorted toy_s0 evs_status_hl)) = true.
Proof. vm_compute. repeat split; reflexivity. Qed.
