(* C05_noninterference over op lists (device layer, harness world of Model/DevHarness.v).
   Two runs whose op lists differ only in operations addressed to device j's far end (HFeed j / HPeerClose j / HPlan j / HFinish j),
   started in states that agree except for device j and for the Args of device j's nodes, stay in such states for ever; every other
   device has IDENTICAL state, far end (bytes written, pending input), events and completions; the arg stores agree on every Arg of a
   node that does not belong to j.  The only coupling is the time-out a pass requests: it is the minimum of the per-device wishes
   ([wishes], [pass_tmo_min]) and the wishes of the devices other than j are identical ([pass_devs_sim]).
   Hypothesis on the configuration (C13: the node-to-plug map is injective): the nodes of device j ([hid]) are disjoint from the
   nodes of every other device. *)
From Coq Require Import List NArith ZArith Bool Lia.
From PM Require Import Base.Bytes Base.Outcome Base.Dec Gen.GenConsts Gen.GenCbuf Model.ScriptAst Model.Enqueue Model.Script Model.Device
  Model.DevHarness Proofs.DeviceProofs Proofs.DeviceStmt Proofs.DeviceStmtG Proofs.DeviceInv Proofs.DeviceInvG Proofs.DeviceRun Proofs.DeviceRunG
  Proofs.DeviceNI Proofs.DeviceMask Proofs.EnqueueProofs.
Import ListNotations.
Local Open Scope Z_scope.

Section Nonint.
  Variable rmatch : text -> text -> option pmatch.
  Variable compress : list text -> text.
  Variable sc : bool.
  Variable j : nat.                 (* the sick device *)
  Variable hid : text -> bool.      (* the nodes of device j *)

  Notation mstore := (mask_store hid).

  (* device lists that agree except at index j (where only the static configuration agrees); [i] = index of the head *)
  Inductive lrel : nat -> list (device * peer) -> list (device * peer) -> Prop :=
  | lrel_nil i : lrel i [] []
  | lrel_same i x l1 l2 : i <> j -> lrel (S i) l1 l2 -> lrel i (x :: l1) (x :: l2)
  | lrel_j x1 x2 l1 l2 : same_cfg (fst x1) (fst x2) -> lrel (S j) l1 l2 -> lrel j (x1 :: l1) (x2 :: l2).

  (* invariant + node disjointness *)
  Inductive lok : nat -> list (device * peer) -> Prop :=
  | lok_nil i : lok i []
  | lok_cons i d p l : DInvRG compress d -> (if Nat.eqb i j then hidden hid (sd_plugs (dv d)) else visible hid (sd_plugs (dv d))) ->
                       lok (S i) l -> lok i ((d, p) :: l).

  Lemma lrel_refl : forall l i, lrel i l l.
  Proof.
    induction l as [|x l IH]; intros i; [constructor|]. destruct (Nat.eq_dec i j) as [->|H].
    - apply lrel_j; [apply same_cfg_refl|apply IH].
    - apply lrel_same; [exact H|apply IH].
  Qed.
  Lemma lrel_nth : forall i l1 l2, lrel i l1 l2 -> forall k, (i + k)%nat <> j -> nth_error l1 k = nth_error l2 k.
  Proof.
    induction 1 as [i|i x l1 l2 Hi H IH|x1 x2 l1 l2 Hc H IH]; intros k Hk; [reflexivity| |].
    - destruct k as [|k]; [reflexivity|]. cbn [nth_error]. apply IH. lia.
    - destruct k as [|k]; [exfalso; apply Hk; lia|]. cbn [nth_error]. apply IH. lia.
  Qed.
  Lemma lrel_length i l1 l2 : lrel i l1 l2 -> length l1 = length l2.
  Proof. induction 1; cbn; congruence. Qed.

  (* the per-device wishes of one pass: what each device, on its own state, wants the time-out lowered to *)
  Fixpoint wishes (now : Z) (l : list (device * peer)) (store : list arglist) : list (option Z) :=
    match l with
    | [] => []
    | (d, p) :: r =>
      match post_poll_one rmatch compress sc now d store None (passin_of d p) with
      | Ok (_, store', w, _) => w :: wishes now r store'
      | _ => []
      end
    end.

  (* the requested time-out of a pass is the minimum of the wishes *)
  Theorem pass_tmo_min : forall l now i store t l' store' t' evs,
    pass_devs rmatch compress sc now i l store t = Ok (l', store', t', evs) -> t' = fold_left tmin (wishes now l store) t.
  Proof.
    induction l as [|[d p] r IH]; intros now i store t l' store' t' evs; cbn [pass_devs wishes].
    - intros H; inversion H; reflexivity.
    - rewrite (post_poll_one_tmo_indep rmatch compress sc now d store t).
      destruct (post_poll_one rmatch compress sc now d store None (passin_of d p)) as [[[[d1 st1] w1] e1]| | | |]; cbn [lift_pp]; try discriminate.
      destruct (pass_devs rmatch compress sc now (S i) r st1 (tmin t w1)) as [[[[r' st2] t2] e2]| | | |] eqn:E; try discriminate.
      intros H; inversion H; subst. cbn [fold_left]. eapply IH. exact E.
  Qed.

  Lemma evs_of_cons_map i k (e : list ev) rest : evs_of k (map (fun x => (i, x)) e ++ rest) = (if Nat.eqb i k then e else []) ++ evs_of k rest.
  Proof.
    rewrite evs_of_app. f_equal. destruct (Nat.eqb i k) eqn:E.
    - apply Nat.eqb_eq in E. subst. apply evs_of_map_same.
    - apply Nat.eqb_neq in E. apply evs_of_map_other. congruence.
  Qed.

  (* ---------- one pass ---------- *)
  Lemma pass_devs_sim : forall l1 l2 now i st1 st2 t1 t2 l1' st1' t1' e1 l2' st2' t2' e2,
    lrel i l1 l2 -> lok i l1 -> lok i l2 -> mstore st1 = mstore st2 -> tmo_pos t1 -> tmo_pos t2 ->
    pass_devs rmatch compress sc now i l1 st1 t1 = Ok (l1', st1', t1', e1) ->
    pass_devs rmatch compress sc now i l2 st2 t2 = Ok (l2', st2', t2', e2) ->
    lrel i l1' l2' /\ lok i l1' /\ lok i l2' /\ mstore st1' = mstore st2' /\
    (forall k, k <> j -> evs_of k e1 = evs_of k e2) /\
    (forall k, (i + k)%nat <> j -> nth_error (wishes now l1 st1) k = nth_error (wishes now l2 st2) k).
  Proof.
    intros l1 l2 now i st1 st2 t1 t2 l1' st1' t1' e1 l2' st2' t2' e2 R. revert st1 st2 t1 t2 l1' st1' t1' e1 l2' st2' t2' e2.
    induction R as [i|i [d p] l1 l2 Hi R IH|[d1 p1] [d2 p2] l1 l2 Hc R IH]; intros st1 st2 t1 t2 l1' st1' t1' e1 l2' st2' t2' e2 K1 K2 M P1 P2 E1 E2.
    - cbn [pass_devs] in E1, E2. inversion E1; inversion E2; subst. repeat split; auto; constructor.
    - (* a device other than j: same state on both sides; stores agree off j's nodes; time-outs may differ *)
      inversion K1 as [|? ? ? ? [I Hrc] Hv1 K1']; subst. inversion K2 as [|? ? ? ? _ _ K2']; subst.
      apply Nat.eqb_neq in Hi. rewrite Hi in Hv1.
      cbn [pass_devs wishes] in *.
      rewrite (post_poll_one_tmo_indep rmatch compress sc now d st1 t1) in E1. rewrite (post_poll_one_tmo_indep rmatch compress sc now d st2 t2) in E2.
      pose proof (post_poll_one_vis hid rmatch compress sc now d st1 None (passin_of d p) Hv1 I ltac:(intros x Hx; discriminate Hx) Hrc) as V1.
      pose proof (post_poll_one_vis hid rmatch compress sc now d st2 None (passin_of d p) Hv1 I ltac:(intros x Hx; discriminate Hx) Hrc) as V2.
      rewrite M in V1. rewrite V1 in V2. clear V1.
      pose proof (post_poll_one_inv_pre rmatch compress sc now d st1 None (passin_of d p) I ltac:(intros x Hx; discriminate Hx) Hrc) as Q1.
      pose proof (post_poll_one_inv_pre rmatch compress sc now d st2 None (passin_of d p) I ltac:(intros x Hx; discriminate Hx) Hrc) as Q2.
      destruct (post_poll_one rmatch compress sc now d st1 None (passin_of d p)) as [[[[da sa] wa] ea]| | | |]; cbn [lift_pp] in E1; try discriminate.
      destruct (post_poll_one rmatch compress sc now d st2 None (passin_of d p)) as [[[[db sb] wb] eb]| | | |]; cbn [lift_pp] in E2; try discriminate.
      cbn [map_pp] in V2. injection V2 as Vd Vs Vw Ve. subst db wb eb.
      destruct Q1 as [SP1 _]. destruct Q2 as [SP2 _].
      assert (Pa1 : tmo_pos (tmin t1 wa)).
      { destruct wa as [v|]; cbn [tmin]; [|exact P1]. apply (upd_tmo_props t1 v); [apply (tg_pos _ _ _ _ _ _ _ _ _ SP1); reflexivity|exact P1]. }
      assert (Pa2 : tmo_pos (tmin t2 wa)).
      { destruct wa as [v|]; cbn [tmin]; [|exact P2]. apply (upd_tmo_props t2 v); [apply (tg_pos _ _ _ _ _ _ _ _ _ SP1); reflexivity|exact P2]. }
      destruct (pass_devs rmatch compress sc now (S i) l1 sa (tmin t1 wa)) as [[[[r1 s1] u1] f1]| | | |] eqn:F1; try discriminate.
      destruct (pass_devs rmatch compress sc now (S i) l2 sb (tmin t2 wa)) as [[[[r2 s2] u2] f2]| | | |] eqn:F2; try discriminate.
      inversion E1; inversion E2; subst.
      destruct (IH _ _ _ _ _ _ _ _ _ _ _ _ K1' K2' Vs Pa1 Pa2 F1 F2) as (A1 & A2 & A3 & A4 & A5 & A6).
      assert (Hk : DInvRG compress da /\ visible hid (sd_plugs (dv da))).
      { split; [split; [exact (tg_inv _ _ _ _ _ _ _ _ _ SP1)|exact (conn_rel_rc _ _ _ _ (tg_conn _ _ _ _ _ _ _ _ _ SP1) Hrc)]|].
        rewrite (same_cfg_plugs _ _ (tg_cfg _ _ _ _ _ _ _ _ _ SP1)). exact Hv1. }
      split; [apply lrel_same; [apply Nat.eqb_neq; exact Hi|exact A1]|].
      split; [constructor; [exact (proj1 Hk)|rewrite Hi; exact (proj2 Hk)|exact A2]|].
      split; [constructor; [exact (proj1 Hk)|rewrite Hi; exact (proj2 Hk)|exact A3]|].
      split; [exact A4|]. split.
      + intros k Hk'. rewrite !evs_of_cons_map. f_equal. now apply A5.
      + intros [|k] Hk'; [reflexivity|]. cbn [nth_error]. apply A6. lia.
    - (* device j itself: anything may differ, but it only writes Args of its own (hidden) nodes *)
      inversion K1 as [|? ? ? ? [I1 Hrc1] Hh1 K1']; subst. inversion K2 as [|? ? ? ? [I2 Hrc2] Hh2 K2']; subst.
      rewrite Nat.eqb_refl in Hh1, Hh2. cbn [fst] in Hc.
      cbn [pass_devs wishes] in *.
      pose proof (post_poll_one_inv_pre rmatch compress sc now d1 st1 t1 (passin_of d1 p1) I1 P1 Hrc1) as Q1.
      pose proof (post_poll_one_inv_pre rmatch compress sc now d2 st2 t2 (passin_of d2 p2) I2 P2 Hrc2) as Q2.
      destruct (post_poll_one rmatch compress sc now d1 st1 t1 (passin_of d1 p1)) as [[[[da sa] wa] ea]| | | |] eqn:Ea; try discriminate.
      destruct (post_poll_one rmatch compress sc now d2 st2 t2 (passin_of d2 p2)) as [[[[db sb] wb] eb]| | | |] eqn:Eb; try discriminate.
      pose proof (post_poll_one_hid hid rmatch compress sc now d1 st1 t1 _ _ _ _ _ Hh1 I1 P1 Hrc1 Ea) as Ma.
      pose proof (post_poll_one_hid hid rmatch compress sc now d2 st2 t2 _ _ _ _ _ Hh2 I2 P2 Hrc2 Eb) as Mb.
      destruct Q1 as [SP1 _]. destruct Q2 as [SP2 _].
      destruct (pass_devs rmatch compress sc now (S j) l1 sa wa) as [[[[r1 s1] u1] f1]| | | |] eqn:F1; try discriminate.
      destruct (pass_devs rmatch compress sc now (S j) l2 sb wb) as [[[[r2 s2] u2] f2]| | | |] eqn:F2; try discriminate.
      inversion E1; inversion E2; subst.
      assert (Ms : mstore sa = mstore sb) by (rewrite Ma, Mb; exact M).
      destruct (IH _ _ _ _ _ _ _ _ _ _ _ _ K1' K2' Ms (tg_pos _ _ _ _ _ _ _ _ _ SP1) (tg_pos _ _ _ _ _ _ _ _ _ SP2) F1 F2) as (A1 & A2 & A3 & A4 & A5 & A6).
      split; [apply lrel_j; [cbn [fst]; eapply same_cfg_trans; [eapply same_cfg_trans; [|exact Hc]|exact (tg_cfg _ _ _ _ _ _ _ _ _ SP2)]|exact A1]|].
      { destruct (tg_cfg _ _ _ _ _ _ _ _ _ SP1) as (X1 & X2 & X3 & X4 & X5). repeat split; congruence. }
      split; [constructor; [split; [exact (tg_inv _ _ _ _ _ _ _ _ _ SP1)|exact (conn_rel_rc _ _ _ _ (tg_conn _ _ _ _ _ _ _ _ _ SP1) Hrc1)]| |exact A2]|].
      { rewrite Nat.eqb_refl, (same_cfg_plugs _ _ (tg_cfg _ _ _ _ _ _ _ _ _ SP1)). exact Hh1. }
      split; [constructor; [split; [exact (tg_inv _ _ _ _ _ _ _ _ _ SP2)|exact (conn_rel_rc _ _ _ _ (tg_conn _ _ _ _ _ _ _ _ _ SP2) Hrc2)]| |exact A3]|].
      { rewrite Nat.eqb_refl, (same_cfg_plugs _ _ (tg_cfg _ _ _ _ _ _ _ _ _ SP2)). exact Hh2. }
      split; [exact A4|]. split.
      + intros k Hk'. rewrite !evs_of_cons_map. assert (Hf : Nat.eqb j k = false) by (apply Nat.eqb_neq; congruence). rewrite Hf. cbn [app]. apply A5. exact Hk'.
      + intros [|k] Hk'; [exfalso; apply Hk'; lia|].
        (* the wishes behind j start from j's store, which may differ on hidden Args only *)
        rewrite (post_poll_one_tmo_indep rmatch compress sc now d1 st1 t1) in Ea. rewrite (post_poll_one_tmo_indep rmatch compress sc now d2 st2 t2) in Eb.
        destruct (post_poll_one rmatch compress sc now d1 st1 None (passin_of d1 p1)) as [[[[dc sc'] wc] ec]| | | |]; cbn [lift_pp] in Ea; try discriminate.
        destruct (post_poll_one rmatch compress sc now d2 st2 None (passin_of d2 p2)) as [[[[dd sd'] wd] ed]| | | |]; cbn [lift_pp] in Eb; try discriminate.
        injection Ea as -> -> _ ->. injection Eb as -> -> _ ->.
        cbn [nth_error]. apply A6. lia.
  Qed.

  (* ---------- operations on the far ends ---------- *)
  Lemma lrel_upd (f : device * peer -> device * peer) : (forall x, fst (f x) = fst x) ->
    forall i l1 l2, lrel i l1 l2 -> forall x, lrel i (upd_nth l1 x f) (upd_nth l2 x f).
  Proof.
    intros Hf. induction 1 as [i|i y l1 l2 Hi R IH|x1 x2 l1 l2 Hc R IH]; intros x; cbn [upd_nth]; [constructor| |].
    - destruct x; [apply lrel_same; assumption|apply lrel_same; [assumption|apply IH]].
    - destruct x; [apply lrel_j; [rewrite !Hf; exact Hc|exact R]|apply lrel_j; [exact Hc|apply IH]].
  Qed.
  (* ... on device j's far end, in one of the runs only *)
  Lemma lrel_upd_left (f : device * peer -> device * peer) : (forall x, fst (f x) = fst x) ->
    forall i l1 l2, lrel i l1 l2 -> forall x, (i + x)%nat = j -> lrel i (upd_nth l1 x f) l2.
  Proof.
    intros Hf. induction 1 as [i|i y l1 l2 Hi R IH|x1 x2 l1 l2 Hc R IH]; intros x Hx; cbn [upd_nth]; [constructor| |].
    - destruct x; [exfalso; apply Hi; lia|]. apply lrel_same; [assumption|apply IH; lia].
    - destruct x; [|exfalso; lia]. apply lrel_j; [rewrite Hf; exact Hc|exact R].
  Qed.
  Lemma lrel_upd_right (f : device * peer -> device * peer) : (forall x, fst (f x) = fst x) ->
    forall i l1 l2, lrel i l1 l2 -> forall x, (i + x)%nat = j -> lrel i l1 (upd_nth l2 x f).
  Proof.
    intros Hf. induction 1 as [i|i y l1 l2 Hi R IH|x1 x2 l1 l2 Hc R IH]; intros x Hx; cbn [upd_nth]; [constructor| |].
    - destruct x; [exfalso; apply Hi; lia|]. apply lrel_same; [assumption|apply IH; lia].
    - destruct x; [|exfalso; lia]. apply lrel_j; [rewrite Hf; exact Hc|exact R].
  Qed.
  Lemma lok_upd (f : device * peer -> device * peer) : (forall x, fst (f x) = fst x) ->
    forall i l, lok i l -> forall x, lok i (upd_nth l x f).
  Proof.
    intros Hf. induction 1 as [i|i d p l I Hv K IH]; intros x; cbn [upd_nth]; [constructor|].
    destruct x.
    - specialize (Hf (d, p)). destruct (f (d, p)) as [d' p']. cbn [fst] in Hf. subst d'. constructor; assumption.
    - constructor; [assumption|assumption|apply IH].
  Qed.

  (* ---------- dev_enqueue_actions ---------- *)
  Lemma enq_devs_ok com client tele args tgts : In com (power_coms ++ query_coms) ->
    forall i l l' n, lok i l -> enq_devs l com client tele args tgts = Ok (l', n) ->
      lok i l' /\ length l' = length l /\ n = fold_right (fun dp acc => Z.of_nat (length (enqueue_dev (edev_of (fst dp)) com tgts)) + acc) 0 l /\
      forall k d p, nth_error l k = Some (d, p) -> exists d', nth_error l' k = Some (d', p) /\ same_cfg d d'.
  Proof.
    intros Hcom i l l' n K. revert l' n. induction K as [i|i d p l [I Hrc] Hv K IH]; intros l' n; cbn [enq_devs].
    - intros H; inversion H; subst. split; [constructor|]. split; [reflexivity|]. split; [reflexivity|]. intros [|k]; discriminate.
    - destruct (fold_append_invG compress client tele args (enqueue_dev (edev_of d) com tgts) d I) as (d1 & E1 & I1 & S1 & _ & _ & R1 & _).
      { intros q Hin. now apply (enqueue_dev_props d com tgts q). }
      rewrite E1. destruct (enq_devs l com client tele args tgts) as [[r' m]| | | |] eqn:E2; try discriminate.
      intros H; inversion H; subst. destruct (IH _ _ eq_refl) as (A1 & A2 & A3 & A4).
      set (d2 := match enqueue_dev (edev_of d) com tgts with [] => d1 | _ => expedite d1 end).
      assert (H2 : DInvRG compress d2 /\ same_cfg d d2).
      { unfold d2. destruct (enqueue_dev (edev_of d) com tgts).
        - split; [split; [exact I1|rewrite R1; exact Hrc]|exact S1].
        - assert (Hrc1 : 0 <= dv_retry_count d1) by (rewrite R1; exact Hrc).
          destruct (expedite_invG compress d1 (conj I1 Hrc1)) as (X1 & X2 & _). split; [exact X1|eapply same_cfg_trans; eassumption]. }
      destruct H2 as [X1 X2].
      split; [constructor; [exact X1|rewrite (same_cfg_plugs _ _ X2); exact Hv|exact A1]|].
      split; [cbn; now rewrite A2|]. split; [cbn [fold_right fst]; now rewrite A3|].
      intros [|k] d0 p0 Hn; cbn [nth_error] in *; [inversion Hn; subst; exists d2; auto|exact (A4 k d0 p0 Hn)].
  Qed.

  Lemma enq_devs_sim com client tele args tgts :
    forall i l1 l2, lrel i l1 l2 -> forall l1' n1 l2' n2,
      enq_devs l1 com client tele args tgts = Ok (l1', n1) -> enq_devs l2 com client tele args tgts = Ok (l2', n2) ->
      lrel i l1' l2' /\ n1 = n2.
  Proof.
    induction 1 as [i|i [d p] l1 l2 Hi R IH|[d1 p1] [d2 p2] l1 l2 Hc R IH]; intros l1' n1 l2' n2; cbn [enq_devs].
    - intros H1 H2; inversion H1; inversion H2; subst. split; [constructor|reflexivity].
    - destruct (fold_left _ _ (Ok d)) as [dd| | | |]; try discriminate.
      destruct (enq_devs l1 com client tele args tgts) as [[r1 m1]| | | |] eqn:E1; try discriminate.
      destruct (enq_devs l2 com client tele args tgts) as [[r2 m2]| | | |] eqn:E2; try discriminate.
      intros H1 H2; inversion H1; inversion H2; subst. destruct (IH _ _ _ _ eq_refl eq_refl) as [A1 A2].
      split; [apply lrel_same; assumption|now rewrite A2].
    - cbn [fst] in Hc. rewrite (edev_of_same _ _ Hc).
      destruct (fold_left _ _ (Ok d1)) as [da| | | |] eqn:Fa; try discriminate.
      destruct (fold_left _ _ (Ok d2)) as [db| | | |] eqn:Fb; try discriminate.
      destruct (enq_devs l1 com client tele args tgts) as [[r1 m1]| | | |] eqn:E1; try discriminate.
      destruct (enq_devs l2 com client tele args tgts) as [[r2 m2]| | | |] eqn:E2; try discriminate.
      intros H1 H2; inversion H1; inversion H2; subst. destruct (IH _ _ _ _ eq_refl eq_refl) as [A1 A2].
      split; [|now rewrite A2]. apply lrel_j; [|exact A1]. cbn [fst].
      (* the static configuration of j is untouched by appending actions / expedite *)
      assert (G : forall qs x y, fold_left (fun od a => match od with Ok z => append_client_action z a client tele args | e => e end) qs (Ok x) = Ok y -> same_cfg x y).
      { induction qs as [|q qs IHq]; intros x y; cbn [fold_left]; [intros H; inversion H; apply same_cfg_refl|].
        unfold append_client_action at 2. destruct (assoc_script (qa_com q) (dv_scripts x)) as [s0|].
        - intros H. apply IHq in H. eapply same_cfg_trans; [|exact H]. repeat split.
        - intros H. exfalso. clear - H. induction qs as [|q' qs IHq']; cbn [fold_left] in H; [discriminate|auto]. }
      assert (Ge : forall x, same_cfg x (expedite x)) by (intros x; unfold expedite; destruct (connected x); repeat split).
      pose proof (G _ _ _ Fa) as Sa. pose proof (G _ _ _ Fb) as Sb.
      assert (Sab : same_cfg da db).
      { destruct Sa as (a1 & a2 & a3 & a4 & a5), Sb as (b1 & b2 & b3 & b4 & b5), Hc as (c1 & c2 & c3 & c4 & c5). repeat split; congruence. }
      destruct (enqueue_dev (edev_of d1) com tgts); [exact Sab|].
      destruct (Ge da) as (a1 & a2 & a3 & a4 & a5), (Ge db) as (b1 & b2 & b3 & b4 & b5), Sab as (c1 & c2 & c3 & c4 & c5). repeat split; congruence.
  Qed.

  (* ---------- states and single operations ---------- *)
  Definition hrel (h1 h2 : hstate) : Prop :=
    h_now h1 = h_now h2 /\ lrel 0 (h_devs h1) (h_devs h2) /\ mstore (h_store h1) = mstore (h_store h2).
  Definition hok (h : hstate) : Prop := lok 0 (h_devs h).
  Definition to_j (op : hop) : Prop := match op with HPlan x _ | HFinish x _ | HFeed x _ | HPeerClose x => x = j | _ => False end.

  Lemma mstore_app a b : mstore (a ++ b) = mstore a ++ mstore b.
  Proof. unfold mask_store. apply map_app. Qed.

  (* the same operation on both sides *)
  Lemma hstep_sim h1 h2 op h1' o1 h2' o2 : hrel h1 h2 -> hok h1 -> hok h2 -> valid_op op ->
    hstep rmatch compress sc h1 op = Ok (h1', o1) -> hstep rmatch compress sc h2 op = Ok (h2', o2) ->
    hrel h1' h2' /\ hok h1' /\ hok h2' /\ (forall k, k <> j -> evs_of k (o_evs o1) = evs_of k (o_evs o2)) /\ o_count o1 = o_count o2.
  Proof.
    intros (Hn & R & M) K1 K2 Hv. unfold hok in *.
    destruct op as [t|i pl|i ok|i b|i| |nodes|com client tele args tgts|]; cbn [hstep]; try (intros E1 E2; inversion E1; inversion E2; subst; unfold hrel; cbn [h_now h_devs h_store o_evs o_count out0];
      (split; [split; [reflexivity || exact Hn|split; [try exact R; try (apply lrel_upd; [intros [? ?]; reflexivity|exact R])|try exact M]]|
       split; [try exact K1; try (apply lok_upd; [intros [? ?]; reflexivity|exact K1])|split; [try exact K2; try (apply lok_upd; [intros [? ?]; reflexivity|exact K2])|split; [reflexivity|reflexivity]]]]); fail).
    - destruct Hv.
    - intros E1 E2; inversion E1; inversion E2; subst; unfold hrel; cbn [h_now h_devs h_store o_evs o_count out0].
      split; [split; [exact Hn|split; [exact R|rewrite !mstore_app, M; reflexivity]]|]. split; [exact K1|]. split; [exact K2|]. split; reflexivity.
    - destruct (enq_devs (h_devs h1) com client tele args tgts) as [[l1 n1]| | | |] eqn:E1; try discriminate.
      destruct (enq_devs (h_devs h2) com client tele args tgts) as [[l2 n2]| | | |] eqn:E2; try discriminate.
      intros X1 X2; inversion X1; inversion X2; subst; unfold hrel; cbn [h_now h_devs h_store o_evs o_count].
      destruct (enq_devs_sim com client tele args tgts 0 _ _ R _ _ _ _ E1 E2) as [A1 A2].
      destruct (enq_devs_ok com client tele args tgts Hv 0 _ _ _ K1 E1) as (B1 & _). destruct (enq_devs_ok com client tele args tgts Hv 0 _ _ _ K2 E2) as (B2 & _).
      split; [split; [exact Hn|split; [exact A1|exact M]]|]. split; [exact B1|]. split; [exact B2|]. split; [reflexivity|exact A2].
    - destruct (pass_devs rmatch compress sc (h_now h1) 0 (h_devs h1) (h_store h1) None) as [[[[l1 s1] t1] e1]| | | |] eqn:E1; try discriminate.
      destruct (pass_devs rmatch compress sc (h_now h2) 0 (h_devs h2) (h_store h2) None) as [[[[l2 s2] t2] e2]| | | |] eqn:E2; try discriminate.
      intros X1 X2; inversion X1; inversion X2; subst; unfold hrel; cbn [h_now h_devs h_store o_evs o_count].
      rewrite <- Hn in E2.
      assert (PN : tmo_pos None) by (intros x Hx; discriminate Hx).
      destruct (pass_devs_sim _ _ _ _ _ _ _ _ _ _ _ _ _ _ _ _ R K1 K2 M PN PN E1 E2) as (A1 & A2 & A3 & A4 & A5 & _).
      split; [split; [exact Hn|split; [exact A1|exact A4]]|]. split; [exact A2|]. split; [exact A3|]. split; [exact A5|reflexivity].
  Qed.

  (* an operation on device j's far end, in one run only *)
  Lemma hstep_j h op : hok h -> to_j op ->
    exists h', hstep rmatch compress sc h op = Ok (h', out0) /\ hok h' /\ (forall h2, hrel h h2 -> hrel h' h2) /\ (forall h1, hrel h1 h -> hrel h1 h').
  Proof.
    intros K Hj. unfold hok in *. destruct op as [t|i pl|i ok|i b|i| |nodes|com client tele args tgts|]; try contradiction; cbn [to_j] in Hj; subst i; cbn [hstep];
      eexists; (split; [reflexivity|]); cbn [h_devs];
      (split; [apply lok_upd; [intros [? ?]; reflexivity|exact K]|]);
      (split; [intros h2 (Hn & R & M); split; [exact Hn|split; [apply lrel_upd_left; [intros [? ?]; reflexivity|exact R|reflexivity]|exact M]]
              |intros h1 (Hn & R & M); split; [exact Hn|split; [apply lrel_upd_right; [intros [? ?]; reflexivity|exact R|reflexivity]|exact M]]]).
  Qed.

  (* ---------- op lists that differ only in operations on device j's far end ---------- *)
  Inductive orel : list hop -> list hop -> Prop :=
  | orel_nil : orel [] []
  | orel_both op l1 l2 : valid_op op -> orel l1 l2 -> orel (op :: l1) (op :: l2)
  | orel_left op l1 l2 : to_j op -> orel l1 l2 -> orel (op :: l1) l2
  | orel_right op l1 l2 : to_j op -> orel l1 l2 -> orel l1 (op :: l2).

  Definition all_evs (k : nat) (outs : list hout) : list ev := flat_map (fun o => evs_of k (o_evs o)) outs.

  Theorem noninterference : forall ops1 ops2, orel ops1 ops2 -> forall h1 h2 h1' outs1 h2' outs2,
    hrel h1 h2 -> hok h1 -> hok h2 ->
    run rmatch compress sc h1 ops1 = Ok (h1', outs1) -> run rmatch compress sc h2 ops2 = Ok (h2', outs2) ->
    hrel h1' h2' /\ hok h1' /\ hok h2' /\ forall k, k <> j -> all_evs k outs1 = all_evs k outs2.
  Proof.
    induction 1 as [|op l1 l2 Hv R IH|op l1 l2 Hj R IH|op l1 l2 Hj R IH]; intros h1 h2 h1' outs1 h2' outs2 Hr K1 K2; cbn [run].
    - intros E1 E2; inversion E1; inversion E2; subst. split; [exact Hr|]. split; [exact K1|]. split; [exact K2|]. reflexivity.
    - destruct (hstep rmatch compress sc h1 op) as [[ha oa]| | | |] eqn:Ea; try discriminate.
      destruct (hstep rmatch compress sc h2 op) as [[hb ob]| | | |] eqn:Eb; try discriminate.
      destruct (hstep_sim _ _ _ _ _ _ _ Hr K1 K2 Hv Ea Eb) as (A1 & A2 & A3 & A4 & _).
      destruct (run rmatch compress sc ha l1) as [[hc oc]| | | |] eqn:Ec; try discriminate.
      destruct (run rmatch compress sc hb l2) as [[hd od]| | | |] eqn:Ed; try discriminate.
      intros X1 X2; inversion X1; inversion X2; subst.
      destruct (IH _ _ _ _ _ _ A1 A2 A3 Ec Ed) as (B1 & B2 & B3 & B4).
      split; [exact B1|]. split; [exact B2|]. split; [exact B3|]. intros k Hk. unfold all_evs in *. cbn [flat_map]. now rewrite (A4 k Hk), (B4 k Hk).
    - destruct (hstep_j h1 op K1 Hj) as (ha & Ea & Ka & Ra & _). rewrite Ea.
      destruct (run rmatch compress sc ha l1) as [[hc oc]| | | |] eqn:Ec; try discriminate.
      intros X1 E2; inversion X1; subst.
      destruct (IH _ _ _ _ _ _ (Ra _ Hr) Ka K2 Ec E2) as (B1 & B2 & B3 & B4).
      split; [exact B1|]. split; [exact B2|]. split; [exact B3|]. intros k Hk. unfold all_evs in *. cbn [flat_map out0 o_evs]. exact (B4 k Hk).
    - destruct (hstep_j h2 op K2 Hj) as (hb & Eb & Kb & _ & Rb). rewrite Eb.
      destruct (run rmatch compress sc hb l2) as [[hd od]| | | |] eqn:Ed; try discriminate.
      intros E1 X2; inversion X2; subst.
      destruct (IH _ _ _ _ _ _ (Rb _ Hr) K1 Kb E1 Ed) as (B1 & B2 & B3 & B4).
      split; [exact B1|]. split; [exact B2|]. split; [exact B3|]. intros k Hk. unfold all_evs in *. cbn [flat_map out0 o_evs]. exact (B4 k Hk).
  Qed.
End Nonint.
