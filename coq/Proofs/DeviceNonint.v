(* C05_noninterference over op lists (device layer, harness world of Model/DevHarness.v).
   Two runs whose op lists differ only in operations addressed to device j's far end (HFeed j / HPeerClose j / HPlan j / HFinish j),
   started in states that agree except for device j and for the Args of device j's nodes, stay in such states for ever; every other
   device has IDENTICAL state, far end (bytes written, pending input), events and completions; the arg stores agree on every Arg of a
   node that does not belong to j.  The only coupling is the time-out a pass requests: it is the minimum of the per-device wishes
   ([wishes], [pass_tmo_min]) and the wishes of the devices other than j are identical ([pass_devs_sim]).
   Hypothesis on the configuration (C13: the node-to-plug map is injective): the nodes of device j ([hid]) are disjoint from the
   nodes of every other device. *)
From Coq Require Import List NArith ZArith Bool Lia.
From PM Require Import Base.Bytes Base.Outcome Base.Dec Gen.GenConsts Gen.GenCbuf Model.ScriptAst Model.Enqueue Model.Script Model.Device
  Model.DevHarness Proofs.DeviceProofs Proofs.DeviceStmt Proofs.DeviceStmtG Proofs.DeviceInv Proofs.DeviceInvG Proofs.DeviceRun Proofs.DeviceRunG
  Proofs.DeviceNI Proofs.DeviceMask Proofs.EnqueueProofs.
Import ListNotations.
Local Open Scope Z_scope.

Section Nonint.
  Variable rmatch : text -> text -> option pmatch.
  Variable compress : list text -> text.
  Variable sc : bool.
  Variable j : nat.                 (* the sick device *)
  Variable hid : text -> bool.      (* the nodes of device j *)

  Notation mstore := (mask_store hid).

  (* device lists that agree except at index j (where only the static configuration agrees); [i] = index of the head *)
  Inductive lrel : nat -> list (device * peer) -> list (device * peer) -> Prop :=
  | lrel_nil i : lrel i [] []
  | lrel_same i x l1 l2 : i <> j -> lrel (S i) l1 l2 -> lrel i (x :: l1) (x :: l2)
  | lrel_j x1 x2 l1 l2 : same_cfg (fst x1) (fst x2) -> lrel (S j) l1 l2 -> lrel j (x1 :: l1) (x2 :: l2).

  (* invariant + node disjointness *)
  Inductive lok : nat -> list (device * peer) -> Prop :=
  | lok_nil i : lok i []
  | lok_cons i d p l : DInvRG compress d -> (if Nat.eqb i j then hidden hid (sd_plugs (dv d)) else visible hid (sd_plugs (dv d))) ->
                       lok (S i) l -> lok i ((d, p) :: l).

  Lemma lrel_refl : forall l i, lrel i l l.
  Proof.
    induction l as [|x l IH]; intros i; [constructor|]. destruct (Nat.eq_dec i j) as [->|H].
    - apply lrel_j; [apply same_cfg_refl|apply IH].
    - apply lrel_same; [exact H|apply IH].
  Qed.
  Lemma lrel_nth : forall i l1 l2, lrel i l1 l2 -> forall k, (i + k)%nat <> j -> nth_error l1 k = nth_error l2 k.
  Proof.
    induction 1 as [i|i x l1 l2 Hi H IH|x1 x2 l1 l2 Hc H IH]; intros k Hk; [reflexivity| |].
    - destruct k as [|k]; [reflexivity|]. cbn [nth_error]. apply IH. lia.
    - destruct k as [|k]; [exfalso; apply Hk; lia|]. cbn [nth_error]. apply IH. lia.
  Qed.
  Lemma lrel_length i l1 l2 : lrel i l1 l2 -> length l1 = length l2.
  Proof. induction 1; cbn; congruence. Qed.

  (* the per-device wishes of one pass: what each device, on its own state, wants the time-out lowered to *)
  Fixpoint wishes (now : Z) (l : list (device * peer)) (store : list arglist) : list (option Z) :=
    match l with
    | [] => []
    | (d, p) :: r =>
      match post_poll_one rmatch compress sc now d store None (passin_of d p) with
      | Ok (_, store', w, _) => w :: wishes now r store'
      | _ => []
      end
    end.

  (* the requested time-out of a pass is the minimum of the wishes *)
  Theorem pass_tmo_min : forall l now i store t l' store' t' evs,
    pass_devs rmatch compress sc now i l store t = Ok (l', store', t', evs) -> t' = fold_left tmin (wishes now l store) t.
  Proof.
    induction l as [|[d p] r IH]; intros now i store t l' store' t' evs; cbn [pass_devs wishes].
    - intros H; inversion H; reflexivity.
    - rewrite (post_poll_one_tmo_indep rmatch compress sc now d store t).
      destruct (post_poll_one rmatch compress sc now d store None (passin_of d p)) as [[[[d1 st1] w1] e1]| | | |]; cbn [lift_pp]; try discriminate.
      destruct (pass_devs rmatch compress sc now (S i) r st1 (tmin t w1)) as [[[[r' st2] t2] e2]| | | |] eqn:E; try discriminate.
      intros H; inversion H; subst. cbn [fold_left]. eapply IH. exact E.
  Qed.

  Lemma evs_of_cons_map i k (e : list ev) rest : evs_of k (map (fun x => (i, x)) e ++ rest) = (if Nat.eqb i k then e else []) ++ evs_of k rest.
  Proof.
    rewrite evs_of_app. f_equal. destruct (Nat.eqb i k) eqn:E.
    - apply Nat.eqb_eq in E. subst. apply evs_of_map_same.
    - apply Nat.eqb_neq in E. apply evs_of_map_other. congruence.
  Qed.

  (* ---------- one pass ---------- *)
  Lemma pass_devs_sim : forall l1 l2 now i st1 st2 t1 t2 l1' st1' t1' e1 l2' st2' t2' e2,
    lrel i l1 l2 -> lok i l1 -> lok i l2 -> mstore st1 = mstore st2 -> tmo_pos t1 -> tmo_pos t2 ->
    pass_devs rmatch compress sc now i l1 st1 t1 = Ok (l1', st1', t1', e1) ->
    pass_devs rmatch compress sc now i l2 st2 t2 = Ok (l2', st2', t2', e2) ->
    lrel i l1' l2' /\ lok i l1' /\ lok i l2' /\ mstore st1' = mstore st2' /\
    (forall k, k <> j -> evs_of k e1 = evs_of k e2) /\
    (forall k, (i + k)%nat <> j -> nth_error (wishes now l1 st1) k = nth_error (wishes now l2 st2) k).
  Proof.
    intros l1 l2 now i st1 st2 t1 t2 l1' st1' t1' e1 l2' st2' t2' e2 R. revert st1 st2 t1 t2 l1' st1' t1' e1 l2' st2' t2' e2.
    induction R as [i|i [d p] l1 l2 Hi R IH|[d1 p1] [d2 p2] l1 l2 Hc R IH]; intros st1 st2 t1 t2 l1' st1' t1' e1 l2' st2' t2' e2 K1 K2 M P1 P2 E1 E2.
    - cbn [pass_devs] in E1, E2. inversion E1; inversion E2; subst. repeat split; auto; constructor.
    - (* a device other than j: same state on both sides; stores agree off j's nodes; time-outs may differ *)
      inversion K1 as [|? ? ? ? [I Hrc] Hv1 K1']; subst. inversion K2 as [|? ? ? ? _ _ K2']; subst.
      apply Nat.eqb_neq in Hi. rewrite Hi in Hv1.
      cbn [pass_devs wishes] in *.
      rewrite (post_poll_one_tmo_indep rmatch compress sc now d st1 t1) in E1. rewrite (post_poll_one_tmo_indep rmatch compress sc now d st2 t2) in E2.
      pose proof (post_poll_one_vis hid rmatch compress sc now d st1 None (passin_of d p) Hv1 I ltac:(intros x Hx; discriminate Hx) Hrc) as V1.
      pose proof (post_poll_one_vis hid rmatch compress sc now d st2 None (passin_of d p) Hv1 I ltac:(intros x Hx; discriminate Hx) Hrc) as V2.
      rewrite M in V1. rewrite V1 in V2. clear V1.
      pose proof (post_poll_one_inv_pre rmatch compress sc now d st1 None (passin_of d p) I ltac:(intros x Hx; discriminate Hx) Hrc) as Q1.
      pose proof (post_poll_one_inv_pre rmatch compress sc now d st2 None (passin_of d p) I ltac:(intros x Hx; discriminate Hx) Hrc) as Q2.
      destruct (post_poll_one rmatch compress sc now d st1 None (passin_of d p)) as [[[[da sa] wa] ea]| | | |]; cbn [lift_pp] in E1; try discriminate.
      destruct (post_poll_one rmatch compress sc now d st2 None (passin_of d p)) as [[[[db sb] wb] eb]| | | |]; cbn [lift_pp] in E2; try discriminate.
      cbn [map_pp] in V2. injection V2 as Vd Vs Vw Ve. subst db wb eb.
      destruct Q1 as [SP1 _]. destruct Q2 as [SP2 _].
      assert (Pa1 : tmo_pos (tmin t1 wa)).
      { destruct wa as [v|]; cbn [tmin]; [|exact P1]. apply (upd_tmo_props t1 v); [apply (tg_pos _ _ _ _ _ _ _ _ _ SP1); reflexivity|exact P1]. }
      assert (Pa2 : tmo_pos (tmin t2 wa)).
      { destruct wa as [v|]; cbn [tmin]; [|exact P2]. apply (upd_tmo_props t2 v); [apply (tg_pos _ _ _ _ _ _ _ _ _ SP1); reflexivity|exact P2]. }
      destruct (pass_devs rmatch compress sc now (S i) l1 sa (tmin t1 wa)) as [[[[r1 s1] u1] f1]| | | |] eqn:F1; try discriminate.
      destruct (pass_devs rmatch compress sc now (S i) l2 sb (tmin t2 wa)) as [[[[r2 s2] u2] f2]| | | |] eqn:F2; try discriminate.
      inversion E1; inversion E2; subst.
      destruct (IH _ _ _ _ _ _ _ _ _ _ _ _ K1' K2' Vs Pa1 Pa2 F1 F2) as (A1 & A2 & A3 & A4 & A5 & A6).
      assert (Hk : DInvRG compress da /\ visible hid (sd_plugs (dv da))).
      { split; [split; [exact (tg_inv _ _ _ _ _ _ _ _ _ SP1)|exact (conn_rel_rc _ _ _ _ (tg_conn _ _ _ _ _ _ _ _ _ SP1) Hrc)]|].
        rewrite (same_cfg_plugs _ _ (tg_cfg _ _ _ _ _ _ _ _ _ SP1)). exact Hv1. }
      split; [apply lrel_same; [apply Nat.eqb_neq; exact Hi|exact A1]|].
      split; [constructor; [exact (proj1 Hk)|rewrite Hi; exact (proj2 Hk)|exact A2]|].
      split; [constructor; [exact (proj1 Hk)|rewrite Hi; exact (proj2 Hk)|exact A3]|].
      split; [exact A4|]. split.
      + intros k Hk'. rewrite !evs_of_cons_map. f_equal. now apply A5.
      + intros [|k] Hk'; [reflexivity|]. cbn [nth_error]. apply A6. lia.
    - (* device j itself: anything may differ, but it only writes Args of its own (hidden) nodes *)
      inversion K1 as [|? ? ? ? [I1 Hrc1] Hh1 K1']; subst. inversion K2 as [|? ? ? ? [I2 Hrc2] Hh2 K2']; subst.
      rewrite Nat.eqb_refl in Hh1, Hh2. cbn [fst] in Hc.
      cbn [pass_devs wishes] in *.
      pose proof (post_poll_one_inv_pre rmatch compress sc now d1 st1 t1 (passin_of d1 p1) I1 P1 Hrc1) as Q1.
      pose proof (post_poll_one_inv_pre rmatch compress sc now d2 st2 t2 (passin_of d2 p2) I2 P2 Hrc2) as Q2.
      destruct (post_poll_one rmatch compress sc now d1 st1 t1 (passin_of d1 p1)) as [[[[da sa] wa] ea]| | | |] eqn:Ea; try discriminate.
      destruct (post_poll_one rmatch compress sc now d2 st2 t2 (passin_of d2 p2)) as [[[[db sb] wb] eb]| | | |] eqn:Eb; try discriminate.
      pose proof (post_poll_one_hid hid rmatch compress sc now d1 st1 t1 _ _ _ _ _ Hh1 I1 P1 Hrc1 Ea) as Ma.
      pose proof (post_poll_one_hid hid rmatch compress sc now d2 st2 t2 _ _ _ _ _ Hh2 I2 P2 Hrc2 Eb) as Mb.
      destruct Q1 as [SP1 _]. destruct Q2 as [SP2 _].
      destruct (pass_devs rmatch compress sc now (S j) l1 sa wa) as [[[[r1 s1] u1] f1]| | | |] eqn:F1; try discriminate.
      destruct (pass_devs rmatch compress sc now (S j) l2 sb wb) as [[[[r2 s2] u2] f2]| | | |] eqn:F2; try discriminate.
      inversion E1; inversion E2; subst.
      assert (Ms : mstore sa = mstore sb) by (rewrite Ma, Mb; exact M).
      destruct (IH _ _ _ _ _ _ _ _ _ _ _ _ K1' K2' Ms (tg_pos _ _ _ _ _ _ _ _ _ SP1) (tg_pos _ _ _ _ _ _ _ _ _ SP2) F1 F2) as (A1 & A2 & A3 & A4 & A5 & A6).
      split; [apply lrel_j; [cbn [fst]; eapply same_cfg_trans; [eapply same_cfg_trans; [|exact Hc]|exact (tg_cfg _ _ _ _ _ _ _ _ _ SP2)]|exact A1]|].
      { destruct (tg_cfg _ _ _ _ _ _ _ _ _ SP1) as (X1 & X2 & X3 & X4 & X5). repeat split; congruence. }
      split; [constructor; [split; [exact (tg_inv _ _ _ _ _ _ _ _ _ SP1)|exact (conn_rel_rc _ _ _ _ (tg_conn _ _ _ _ _ _ _ _ _ SP1) Hrc1)]| |exact A2]|].
      { rewrite Nat.eqb_refl, (same_cfg_plugs _ _ (tg_cfg _ _ _ _ _ _ _ _ _ SP1)). exact Hh1. }
      split; [constructor; [split; [exact (tg_inv _ _ _ _ _ _ _ _ _ SP2)|exact (conn_rel_rc _ _ _ _ (tg_conn _ _ _ _ _ _ _ _ _ SP2) Hrc2)]| |exact A3]|].
      { rewrite Nat.eqb_refl, (same_cfg_plugs _ _ (tg_cfg _ _ _ _ _ _ _ _ _ SP2)). exact Hh2. }
      split; [exact A4|]. split.
      + intros k Hk'. rewrite !evs_of_cons_map. assert (Hf : Nat.eqb j k = false) by (apply Nat.eqb_neq; congruence). rewrite Hf. cbn [app]. apply A5. exact Hk'.
      + intros [|k] Hk'; [exfalso; apply Hk'; lia|].
        (* the wishes behind j start from j's store, which may differ on hidden Args only *)
        rewrite (post_poll_one_tmo_indep rmatch compress sc now d1 st1 t1) in Ea. rewrite (post_poll_one_tmo_indep rmatch compress sc now d2 st2 t2) in Eb.
        destruct (post_poll_one rmatch compress sc now d1 st1 None (passin_of d1 p1)) as [[[[dc sc'] wc] ec]| | | |]; cbn [lift_pp] in Ea; try discriminate.
        destruct (post_poll_one rmatch compress sc now d2 st2 None (passin_of d2 p2)) as [[[[dd sd'] wd] ed]| | | |]; cbn [lift_pp] in Eb; try discriminate.
        injection Ea as -> -> _ ->. injection Eb as -> -> _ ->.
        cbn [nth_error]. apply A6. lia.
  Qed.
End Nonint.
