(* C14: the side conditions of nth / iterate survive find, delete_nth and delete_host, so that the daemon's pattern
   "iterate; on a match delete_host; reset; iterate again" (conf_exp_aliases) stays inside the theorems *)
From Coq Require Import List Arith NArith ZArith Lia Bool.
From PM Require Import Base.Bytes Base.Outcome Gen.GenHL Model.HL Spec.HLSpec Proofs.HLArith Proofs.HLProofs Proofs.HLIndex
  Proofs.HLFind Proofs.HLIter.
From Coq Require Import ZifyBool ZifyNat ZifyN.
Import ListNotations.
Local Open Scope N_scope.
Ltac Zify.zify_post_hook ::= Z.div_mod_to_equations.

(* x is a piece of r: same prefix, width and kind, bounds inside r's *)
Definition sub_of (r x : hrange) : Prop :=
  hr_prefix x = hr_prefix r /\ hr_width x = hr_width r /\ hr_single x = hr_single r /\ hr_lo r <= hr_lo x /\ hr_hi x <= hr_hi r.
(* x is r with a width that pads r's lo (hence every member) the same way *)
Definition weq_of (r x : hrange) : Prop := exists w', x = with_width r w' /\ zp (hr_lo r) w' = zp (hr_lo r) (hr_width r).

Section Closure.
Variable Q : hrange -> Prop.
Hypothesis Q_sub : forall r x, wf_range r -> Q r -> sub_of r x -> Q x.
Hypothesis Q_weq : forall r x, wf_range r -> Q r -> weq_of r x -> Q x.

Lemma sub_of_refl r : sub_of r r.
Proof. unfold sub_of. repeat split; lia. Qed.

Lemma delete_in_range_pres r num rest i l ev : wf_range r -> hr_single r = false -> Q r -> Forall Q rest ->
  delete_in_range r num rest i = Ok (l, ev) -> Forall Q l.
Proof.
  intros Hwf Es Hq Hrest. unfold delete_in_range. rewrite NDEBUG_0. cbn [andb].
  pose proof Hwf as Hwf0. unfold wf_range in Hwf0. rewrite Es in Hwf0. destruct Hwf0 as [Hlo Hhi]. unfold ULONG_MAX in Hhi.
  destruct (N.ltb_spec num (hr_lo r)); [discriminate|]. destruct (N.ltb_spec (hr_hi r) num); [discriminate|]. cbn [orb].
  assert (S1 : sub_of r (with_lo r (add64 (hr_lo r) 1))).
  { unfold sub_of, with_lo; cbn. rewrite add64_small by (unfold W64; lia). repeat split; lia. }
  assert (S2 : hr_lo r < hr_hi r -> sub_of r (with_hi r (sub64 (hr_hi r) 1))).
  { intros. unfold sub_of, with_hi; cbn. rewrite sub64_small by (unfold W64; lia). repeat split; lia. }
  assert (S3 : hr_lo r < num -> sub_of r (with_hi r (sub64 num 1))).
  { intros. unfold sub_of, with_hi; cbn. rewrite sub64_small by (unfold W64; lia). repeat split; lia. }
  assert (S4 : sub_of r (with_lo r (add64 num 1))).
  { unfold sub_of, with_lo; cbn. rewrite add64_small by (unfold W64; lia). repeat split; lia. }
  destruct (N.eqb_spec num (hr_lo r)).
  - destruct (hr_empty _); intros Hd; inversion Hd; subst; [assumption|]. constructor; eauto.
  - destruct (N.eqb_spec num (hr_hi r)).
    + destruct (hr_empty _); intros Hd; inversion Hd; subst; [assumption|]. constructor; [|assumption].
      apply (Q_sub r); auto. apply S2. lia.
    + intros Hd; inversion Hd; subst. constructor; [apply (Q_sub r); auto; apply S3; lia|]. constructor; eauto.
Qed.

Lemma delete_loop_pres h : forall n cnt i h' ev, wf h -> Forall Q h -> delete_loop h n cnt i = Ok (h', ev) -> Forall Q h'.
Proof.
  induction h as [|r h IH]; intros n cnt i h' ev Hwf Hq H; cbn [delete_loop] in H.
  - inversion H; subst. constructor.
  - inversion Hwf as [|? ? Wr Wh]; subst. inversion Hq as [|? ? Qr Qh]; subst.
    destruct (n <=? int_of_ulong (hr_count r) - 1 + cnt)%Z.
    + destruct (hr_single r) eqn:Es; [inversion H; subst; assumption|].
      eapply delete_in_range_pres; eauto.
    + apply bind_ok in H as ([h1 ev1] & H1 & H2). inversion H2; subst. cbn [fst]. constructor; [assumption|].
      eapply IH; eauto.
Qed.

Lemma delete_nth_pres h i h' : wf h -> Forall Q h -> delete_nth h i = Ok h' -> Forall Q h'.
Proof.
  intros Hwf Hq H. unfold delete_nth in H. apply bind_ok in H as ([h1 ev] & H1 & H2). inversion H2; subst. cbn [fst].
  unfold delete_nth_ev in H1. destruct (_ && _); [discriminate|]. eapply delete_loop_pres; eauto.
Qed.

(* the range test of hostlist_find returns the range itself or an equivalent-width copy *)
Lemma hn_within_shape fuel : forall r hn off r', hn_within fuel r hn = (off, r') -> r' = r \/ weq_of r r'.
Proof.
  induction fuel as [|f IH]; intros r hn off r' H; rewrite hn_within_unfold in H.
  all: destruct (hr_single r); [inversion H; auto|].
  all: destruct (hn_suffix hn) as [suf|]; [|inversion H; auto].
  all: cbv zeta in H.
  all: destruct (negb _); [inversion H; auto|].
  all: match type of H with (if ?c then _ else _) = _ => destruct c end.
  1: inversion H; auto.
  2: eapply IH; eauto.
  all: match type of H with (if ?c then _ else _) = _ => destruct c end; [|inversion H; auto].
  all: destruct (width_equiv _ _ _ _) as [[w' w'']|] eqn:Ew; [|inversion H; auto].
  all: inversion H; subst; right; exists w'; split; [reflexivity|].
  all: apply width_equiv_sound_zp in Ew as (_ & Hz & _); exact Hz.
Qed.

Lemma find_loop_pres h : forall hn cnt res h', wf h -> Forall Q h -> find_loop h hn cnt = (res, h') -> Forall Q h'.
Proof.
  induction h as [|r h IH]; intros hn cnt res h' Hwf Hq H; cbn [find_loop] in H.
  - inversion H; subst. constructor.
  - inversion Hwf as [|? ? Wr Wh]; subst. inversion Hq as [|? ? Qr Qh]; subst.
    destruct (hn_within _ r hn) as [off r1] eqn:Ew.
    assert (Q1 : Q r1). { destruct (hn_within_shape _ _ _ _ _ Ew) as [->|Hw]; [assumption|eauto]. }
    destruct (0 <=? off)%Z.
    + inversion H; subst. now constructor.
    + destruct (find_loop h hn _) as [res1 rest'] eqn:El. inversion H; subst. constructor; [assumption|]. eapply IH; eauto.
Qed.

Lemma find_mut_pres h n : wf h -> Forall Q h -> Forall Q (snd (find_mut h n)).
Proof.
  intros Hwf Hq. unfold find_mut. destruct (find_loop h (hostname_create n) 0%Z) as [res h'] eqn:E. cbn [snd].
  eapply find_loop_pres; eauto.
Qed.

Lemma delete_host_pres h n r h' : wf h -> small h -> Forall Q h -> delete_host h n = Ok (r, h') -> Forall Q h'.
Proof.
  intros Hwf Hs Hq H. unfold delete_host, delete_host_ev in H.
  pose proof (find_sound h n Hwf Hs) as Hfs. pose proof (find_mut_pres h n Hwf Hq) as Hfp.
  destruct (find_mut h n) as [i h1]. cbn [snd] in Hfp. destruct Hfs as (_ & Hw1 & _).
  apply bind_ok in H as ([[r0 h2] ev] & H1 & H2). inversion H2; subst.
  destruct (0 <=? i)%Z.
  - apply bind_ok in H1 as ([h3 ev3] & H3 & H4). inversion H4; subst.
    unfold delete_nth_ev in H3. destruct (_ && _); [discriminate|]. eapply delete_loop_pres; eauto.
  - inversion H1; subst. assumption.
Qed.
End Closure.

(* ---------------------------------------------------------------- the two side conditions are closed *)
Lemma ndigits_lo_hi r : wf_range r -> hr_single r = false -> (ndigits (hr_lo r) <= ndigits (hr_hi r))%nat.
Proof.
  intros Hwf Es. unfold wf_range in Hwf. rewrite Es in Hwf. destruct Hwf as [Hlo Hhi].
  apply ndigits_mono; [assumption|]. apply W64_fits. unfold W64, ULONG_MAX in *. lia.
Qed.

Lemma iter_ok_sub r x : wf_range r -> iter_ok r -> sub_of r x -> iter_ok x.
Proof.
  intros Hwf Hok (Hp & Hw & Hs & Hlo & Hhi) Es. rewrite Hs in Es. specialize (Hok Es).
  unfold wf_range in Hwf. rewrite Es in Hwf. destruct Hwf as [_ Hh].
  assert ((ndigits (hr_hi x) <= ndigits (hr_hi r))%nat).
  { apply ndigits_mono; [assumption|]. apply W64_fits. unfold W64, ULONG_MAX in *. lia. }
  rewrite Hw. lia.
Qed.

Lemma iter_ok_weq r x : wf_range r -> iter_ok r -> weq_of r x -> iter_ok x.
Proof.
  intros Hwf Hok (w' & -> & Hz) Es. cbn [with_width hr_single hr_width hr_hi] in *. specialize (Hok Es).
  pose proof (ndigits_lo_hi r Hwf Es). unfold zp in Hz. lia.
Qed.

Lemma short_sub r x : wf_range r -> short_range r -> sub_of r x -> short_range x.
Proof.
  intros Hwf Hok (Hp & Hw & Hs & Hlo & Hhi). unfold short_range in *. rewrite Hp, Hw, Hs.
  destruct (hr_single r) eqn:Es; [assumption|].
  unfold wf_range in Hwf. rewrite Es in Hwf. destruct Hwf as [_ Hh].
  assert ((ndigits (hr_hi x) <= ndigits (hr_hi r))%nat).
  { apply ndigits_mono; [assumption|]. apply W64_fits. unfold W64, ULONG_MAX in *. lia. }
  lia.
Qed.

Lemma short_weq r x : wf_range r -> short_range r -> weq_of r x -> short_range x.
Proof.
  intros Hwf Hok (w' & -> & Hz). unfold short_range in *. cbn [with_width hr_single hr_width hr_hi hr_prefix] in *.
  destruct (hr_single r) eqn:Es; [assumption|].
  pose proof (ndigits_lo_hi r Hwf Es). unfold zp in Hz. lia.
Qed.

(* the conf_exp_aliases pattern: after hostlist_delete_host and hostlist_iterator_reset the iterator yields exactly the
   remaining names, in order *)
Theorem delete_host_then_iterate h n : wf h -> small h -> suffix_small n -> Forall iter_ok h ->
  exists r h', delete_host h n = Ok (r, h') /\ iterate h' = Ok (expand h') /\
    ((In n (expand h) /\ r = 1%Z /\ expand h' = remove_at (Z.to_nat (index_of n (expand h))) (expand h))
     \/ (~ In n (expand h) /\ r = 0%Z /\ expand h' = expand h)).
Proof.
  intros Hwf Hs Hss Hok. destruct (delete_host_sound h n Hwf Hs Hss) as (r & h' & Hd & Hw' & Hc).
  exists r, h'. split; [exact Hd|]. split; [|exact Hc].
  apply iterate_sound; [exact Hw'|]. exact (delete_host_pres iter_ok iter_ok_sub iter_ok_weq h n r h' Hwf Hs Hok Hd).
Qed.

Theorem delete_nth_then_nth h i j : wf h -> small h -> short h -> (i < length (expand h))%nat ->
  exists h', delete_nth h (Z.of_nat i) = Ok h' /\ nth h' (Z.of_nat j) = Ok (nth_error (remove_at i (expand h)) j).
Proof.
  intros Hwf Hs Hsh Hi. destruct (delete_nth_sound h i Hwf Hs Hi) as (h' & Hd & He & Hw').
  exists h'. split; [exact Hd|]. rewrite <- He. apply nth_sound; [exact Hw'| |].
  - exact (delete_nth_pres short_range short_sub short_weq h (Z.of_nat i) h' Hwf Hsh Hd).
  - unfold small in *. rewrite He.
    assert (length (remove_at i (expand h)) <= length (expand h))%nat.
    { clear. generalize (expand h). intros l. revert i. induction l as [|x l IH]; intros [|i]; cbn [remove_at length]; try lia.
      specialize (IH i). lia. }
    lia.
Qed.
