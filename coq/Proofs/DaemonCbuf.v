(* The client buffers of the whole-daemon model are the cbufs of C09: Daemon.cbuf_put (c->to / c->from with
   cbuf_create(MIN_CLIENT_BUF, MAX_CLIENT_BUF), default policy CBUF_WRAP_MANY) is the write step of the abstract queue
   Spec/Fifo.v with capacity MAX_CLIENT_BUF - the specification that cbuf.c is proved to refine for every operation list
   (C09_cbuf_refines, capacity max(minsize, maxsize)) - and its "dropped" flag is the spec's dropped count being positive. *)
From Coq Require Import List NArith ZArith Bool Lia.
From PM Require Import Base.Bytes Gen.GenConsts Model.Script Model.Daemon Spec.Fifo.
Import ListNotations.
Local Open Scope Z_scope.

Lemma cbuf_put_is_fifo_write buf new :
  cbuf_put buf new = (fifo_write MAX_CLIENT_BUF buf new, 0 <? fifo_dropped MAX_CLIENT_BUF buf new).
Proof.
  unfold cbuf_put, fifo_write, fifo_dropped, qlast, qskip, qlen, lastn.
  assert (Hmax : 0 < MAX_CLIENT_BUF) by reflexivity.
  rewrite app_length, Nat2Z.inj_add.
  set (n := Z.of_nat (length buf) + Z.of_nat (length new)).
  destruct (MAX_CLIENT_BUF <? n) eqn:E.
  - apply Z.ltb_lt in E. f_equal.
    + f_equal. unfold n in *. rewrite <- Nat2Z.inj_add, <- app_length in *.
      rewrite <- (Z2Nat.id MAX_CLIENT_BUF) at 2 by lia. rewrite <- Nat2Z.inj_sub by (apply Nat2Z.inj_le; rewrite Z2Nat.id; lia).
      now rewrite Nat2Z.id.
    + symmetry. apply Z.ltb_lt. lia.
  - apply Z.ltb_ge in E. f_equal.
    + replace (Z.to_nat (n - MAX_CLIENT_BUF)) with O by lia. reflexivity.
    + symmetry. apply Z.ltb_ge. lia.
Qed.

(* the same for the device buffers of Model/Device.v / Model/Script.v (dev->to, dev->from: `lastn (Z.to_nat MAX_DEV_BUF) (old ++ new)`) *)
Lemma lastn_is_fifo_write cap (q bs : text) : 0 <= cap -> lastn (Z.to_nat cap) (q ++ bs) = fifo_write cap q bs.
Proof.
  intros Hc. unfold fifo_write, qlast, qskip, qlen, lastn. f_equal.
  destruct (Z.le_gt_cases cap (Z.of_nat (length (q ++ bs)))) as [H|H].
  - rewrite <- (Z2Nat.id cap) at 2 by lia. rewrite <- Nat2Z.inj_sub by (apply Nat2Z.inj_le; rewrite Z2Nat.id; lia). now rewrite Nat2Z.id.
  - replace (Z.to_nat (Z.of_nat (length (q ++ bs)) - cap)) with O by lia. lia.
Qed.
