(* C19: the theorems quoted by Properties/C19.v, in the vocabulary of Spec/RedfishSpec.v. *)
From Coq Require Import List NArith ZArith Bool Lia.
From PM Require Import Base.Bytes Base.Outcome Gen.GenRfp Model.Redfish Spec.RedfishSpec Model.RedfishView
  Proofs.RedfishBase Proofs.RedfishSteps Proofs.RedfishMgmt Proofs.RedfishSingle Proofs.RedfishRules.
Import ListNotations.

Lemma expected_single f fail m c x : known f x = true ->
  expected f fail m c [x] = ([fst (answer f fail c m x)], snd (answer f fail c m x)).
Proof.
  intros K. unfold expected. cbn [filter]. rewrite K. cbn [negb map app related_pair existsb orb by_depth fold_left insert_by_depth answers].
  destruct (answer f fail c m x) as [ln m1]. destruct c; reflexivity.
Qed.

(* two status maps that answer every query alike *)
Definition same_status (a b : statmap) : Prop := forall k, st_get a k = st_get b k.

Section WithHostlist.
Variable hlc : text -> option (list text).

(* what the hypotheses of the single-target theorems say about the line *)
Definition single_power_line (st : state) (ln : text) (c : cmd) (x : name) : Prop :=
  exists w a rest, argv ln = w :: a :: rest /\ cmd_of_word w = Some c /\ hlc a = Some [x].

Lemma spec_line_single st ln c x : single_power_line st ln c x -> in_domain st c [x] = true ->
  spec_line hlc st ln = Some (expected_of st c [x]).
Proof.
  intros (w & a & rest & AV & CW & HL) DOM. unfold spec_line, power_line. rewrite AV, CW. cbn [first_arg]. rewrite HL, DOM. reflexivity.
Qed.

(* C19_rules, one target at any depth: the helper answers exactly what the documented rules prescribe, leaves the
   statuses the rules prescribe, and is back at its prompt -- for every schedule of the delayed status poll *)
Theorem rules_single st ln sched c x :
  at_prompt st -> ts_covers st -> single_power_line st ln c x -> name_valid (s_tab st) x = true ->
  in_domain st c [x] = true -> (c = COff -> closed_tab (s_tab st) = true) ->
  exists st', run_line hlc st ln sched = Ok (st', false) /\ at_prompt st' /\ same_cfg st' st /\
              map fst (results st') = [TResult x] /\
              map snd (results st') = fst (expected_of st c [x]) /\
              same_status (statmap_of (s_tstat st')) (snd (expected_of st c [x])) /\
              spec_line hlc st ln = Some (expected_of st c [x]).
Proof.
  intros AP CV SPL NV DOM CL. pose proof (spec_line_single _ _ _ _ SPL DOM) as SL.
  destruct SPL as (w & a & rest & AV & CW & HL).
  destruct (single_target_model hlc st ln sched w a rest c x AP CV AV CW HL NV DOM)
    as (st' & pdx & l & Lx & Ch & Len & RL & AP' & SC & RES & TS).
  exists st'. split; [exact RL|]. split; [exact AP'|]. split; [exact SC|].
  unfold expected_of. rewrite expected_single by (rewrite known_forest; exact NV). cbn [fst snd].
  rewrite RES. cbn [map fst snd]. split; [reflexivity|].
  split; [now rewrite (final_line_spec _ _ _ _ _ _ Lx Ch Len)|].
  split; [|unfold expected_of in SL; rewrite expected_single in SL by (rewrite known_forest; exact NV); exact SL].
  intros k. rewrite TS. apply (final_ts_spec _ _ _ _ _ _ _ Lx Ch Len CL).
Qed.

(* ---- the sentences of the property text, as corollaries ---- *)
Let F st := forest_of (s_tab st).
Let M st := statmap_of (s_tstat st).

(* "a descendant of an ancestor that is not on reports that ancestor's off/unknown/error state" *)
Corollary descendant_reports_ancestor st ln sched x a s :
  at_prompt st -> ts_covers st -> single_power_line st ln CStat x -> name_valid (s_tab st) x = true ->
  in_domain st CStat [x] = true -> blocker (F st) (s_fail st) (M st) x = Some (a, s) ->
  exists st', run_line hlc st ln sched = Ok (st', false) /\ at_prompt st' /\
              map snd (results st') = [line x (word s)] /\ same_status (statmap_of (s_tstat st')) (M st).
Proof.
  intros AP CV SPL NV DOM BL.
  destruct (rules_single st ln sched CStat x AP CV SPL NV DOM) as (st' & RL & AP' & _ & _ & RES & TS & _); [discriminate|].
  exists st'. split; [exact RL|]. split; [exact AP'|].
  unfold expected_of in *. rewrite expected_single in * by (rewrite known_forest; exact NV). cbn [fst snd scmd_of] in *.
  unfold answer in *. subst F M. cbv beta in BL. rewrite BL in *. cbn [fst snd] in *. split; assumption.
Qed.

(* "'on' below a non-on ancestor is refused naming the dependency" *)
Corollary on_below_non_on_refused st ln sched x a s :
  at_prompt st -> ts_covers st -> single_power_line st ln COn x -> name_valid (s_tab st) x = true ->
  in_domain st COn [x] = true -> blocker (F st) (s_fail st) (M st) x = Some (a, s) ->
  exists st', run_line hlc st ln sched = Ok (st', false) /\ at_prompt st' /\
              map snd (results st') = [dependency_line (F st) SpOn x a s] /\ same_status (statmap_of (s_tstat st')) (M st).
Proof.
  intros AP CV SPL NV DOM BL.
  destruct (rules_single st ln sched COn x AP CV SPL NV DOM) as (st' & RL & AP' & _ & _ & RES & TS & _); [discriminate|].
  exists st'. split; [exact RL|]. split; [exact AP'|].
  unfold expected_of in *. rewrite expected_single in * by (rewrite known_forest; exact NV). cbn [fst snd scmd_of] in *.
  unfold answer in *. subst F M. cbv beta in BL. rewrite BL in *. destruct s; cbn [fst snd] in *; split; assumption.
Qed.

(* "'off' below an off ancestor is ok" *)
Corollary off_below_off_ok st ln sched x a :
  at_prompt st -> ts_covers st -> single_power_line st ln COff x -> name_valid (s_tab st) x = true ->
  in_domain st COff [x] = true -> closed_tab (s_tab st) = true -> blocker (F st) (s_fail st) (M st) x = Some (a, StOff) ->
  exists st', run_line hlc st ln sched = Ok (st', false) /\ at_prompt st' /\
              map snd (results st') = [line x (bs "ok"%string)] /\ same_status (statmap_of (s_tstat st')) (M st).
Proof.
  intros AP CV SPL NV DOM CL BL.
  destruct (rules_single st ln sched COff x AP CV SPL NV DOM (fun _ => CL)) as (st' & RL & AP' & _ & _ & RES & TS & _).
  exists st'. split; [exact RL|]. split; [exact AP'|].
  unfold expected_of in *. rewrite expected_single in * by (rewrite known_forest; exact NV). cbn [fst snd scmd_of] in *.
  unfold answer in *. subst F M. cbv beta in BL. rewrite BL in *. cbn [fst snd] in *. split; assumption.
Qed.

(* "powering a parent off leaves its descendants off" *)
Corollary off_cascade st ln sched x :
  at_prompt st -> ts_covers st -> single_power_line st ln COff x -> name_valid (s_tab st) x = true ->
  in_domain st COff [x] = true -> closed_tab (s_tab st) = true ->
  blocker (F st) (s_fail st) (M st) x = None -> smem (host_of (F st) x) (s_fail st) = false ->
  exists st', run_line hlc st ln sched = Ok (st', false) /\ at_prompt st' /\
              map snd (results st') = [line x (bs "ok"%string)] /\
              forall n, n = x \/ descendant (F st) n x = true -> st_get (statmap_of (s_tstat st')) n = StOff.
Proof.
  intros AP CV SPL NV DOM CL BL NF.
  destruct (rules_single st ln sched COff x AP CV SPL NV DOM (fun _ => CL)) as (st' & RL & AP' & _ & _ & RES & TS & _).
  exists st'. split; [exact RL|]. split; [exact AP'|].
  unfold expected_of in *. rewrite expected_single in * by (rewrite known_forest; exact NV). cbn [fst snd scmd_of] in *.
  unfold answer in *. subst F M. cbv beta in BL, NF. rewrite BL, NF in *. cbn [fst snd] in *. split; [assumption|].
  intros n H. rewrite TS, cascade_off_get. destruct H as [->|H]; [now rewrite text_eqb_refl | now rewrite H, orb_true_r].
Qed.

End WithHostlist.
