(* End to end over histories (C02, C03): ONE theorem that chains the three layers which Properties/C02.v, C11.v state
   separately - the client layer's terminal reply (client.c _act_finish / the reply formatters), the daemon's routing of the
   completion callbacks (powermand.c / client.c _find_client), the device layer's completion events (device.c
   _process_action / _act_completion).

   An EXTERNAL ghost ledger is threaded along a run of Model/Daemon.v (no Model file is changed): for every client id

        (enq, ok, fail) = device actions enqueued for its current command, completions with ACT_ESUCCESS so far,
                          completions with an error so far

   reset when a new command is created.  The ledger is computed ONLY from what the components of a pass return:
     - the enqueue list `q` that _parse_input hands to dev_enqueue_actions for a request line (led_enq: total q), and
     - the event list the pass returns (led_sys over the SysDev events: the EvComplete events in the order in which
       dev_post_poll delivered them).
   It never looks at a client's pending counter or error flag, nor at a device queue.  (The functions that thread it through
   the client half - line_led, hi_led, co_led, cl_led, cpp_led - CALL the model's functions for the states and only add the
   ledger; handle_input_S / cli_one_eq / cli_post_poll_eq say that they walk the model's loops.)

   Proved, by induction over ANY run from `boot` (any rounds: any client input, any transport and peer behaviour, any
   number of clients):
     LInv    in every reachable state, for EVERY id:   #queued actions of id = enq - ok - fail   (hence, with DPInv:
             pending counter of the command = enq - ok - fail and ok + fail <= enq), and for every client with a command
             error flag = (0 < fail); a result list in use by a command is referred to by that client's actions only;
     CRel    in every pass, for every client: the tokens its stream gains in the callback half of the pass, and - when its
             command finishes in this pass - the terminal token, decided by the ledger and the command's result list
             as they are at the END of the pass (after the completion nothing touches either: no event for that id is left,
             no queued action refers to the list);
     WInv    (C03) a second external ghost, the write ledger of the result lists (which nodes of list s had their Arg changed
             by the device half of a pass; computed from the stores a pass makes visible): an Arg that is not as
             arglist_create left it belongs to a node in the write ledger of its list;
     c02_end_to_end_scripts   every ACT_ESUCCESS completion event of every pass of every run comes from an iteration of
             _process_action that finished the last statement of the head action's script (Proofs/DeviceSuccess.v).
   Properties/C02.v and C03.v quote the closed statements c02_end_to_end, c02_end_to_end_scripts, c03_end_to_end. *)
From Coq Require Import List NArith ZArith Bool Lia Permutation.
From PM Require Import Base.Bytes Base.Outcome Gen.GenConsts Gen.GenClient Model.ScriptAst Model.Enqueue Model.Script Model.Device Model.DevHarness
                       Model.Client Model.CliWorld Model.Daemon Spec.Proto
                       Proofs.ClientProofs Proofs.ClientProto Proofs.ClientStream Proofs.ClientStreamQ Proofs.DeviceInv Proofs.DeviceRun Proofs.DeviceInvG
                       Proofs.DeviceRunG Proofs.DeviceHang Proofs.DeviceSlots Proofs.DaemonLedger Proofs.DaemonFrame Proofs.DaemonSlots Proofs.DaemonPending.
From PM Require Proofs.ClientReply Model.Telnet.
From PM Require Import Proofs.DeviceMask Proofs.DeviceSuccess.
Import ListNotations.
Local Open Scope Z_scope.

(* ------------------------------------------------------------------------------------------------ the ledger *)
Record lrec : Type := mkL { l_enq : Z; l_ok : Z; l_fail : Z }.
Definition ledger : Type := Z -> lrec.
Definition lzero : ledger := fun _ => mkL 0 0 0.
Definition lset (L : ledger) (id : Z) (r : lrec) : ledger := fun j => if Z.eqb j id then r else L j.
Definition bal (r : lrec) : Z := l_enq r - l_ok r - l_fail r.

(* a completion event of the device layer: one more success / one more failure for that id *)
Definition led_ev (L : ledger) (e : ev) : ledger :=
  match e with
  | EvComplete id err _ =>
      lset L id (if Z.eqb err ACT_ESUCCESS then mkL (l_enq (L id)) (l_ok (L id) + 1) (l_fail (L id))
                 else mkL (l_enq (L id)) (l_ok (L id)) (l_fail (L id) + 1))
  | _ => L
  end.
Definition led_evs (L : ledger) (evs : list ev) : ledger := fold_left led_ev evs L.
(* the same over the event list a pass returns *)
Definition led_sys1 (L : ledger) (s : sysev) : ledger := match s with SysDev _ e => led_ev L e | _ => L end.
Definition led_sys (L : ledger) (evs : list sysev) : ledger := fold_left led_sys1 evs L.
(* the enqueue list of a request line: a new command with that many actions *)
Definition led_enq (L : ledger) (id : Z) (q : list (text * list qact)) : ledger :=
  match q with [] => L | _ => lset L id (mkL (Z.of_nat (total q)) 0 0) end.

Lemma lset_eq L id r : lset L id r id = r.
Proof. unfold lset. now rewrite Z.eqb_refl. Qed.
Lemma lset_neq L id r j : j <> id -> lset L id r j = L j.
Proof. unfold lset. intros H. apply Z.eqb_neq in H. now rewrite H. Qed.
Lemma led_evs_app L a b : led_evs L (a ++ b) = led_evs (led_evs L a) b.
Proof. unfold led_evs. apply fold_left_app. Qed.
Lemma led_sys_app L a b : led_sys L (a ++ b) = led_sys (led_sys L a) b.
Proof. unfold led_sys. apply fold_left_app. Qed.
Lemma led_sys_map L i : forall evs, led_sys L (map (SysDev i) evs) = led_evs L evs.
Proof. intros evs. revert L. induction evs as [|e r IH]; intros L; [reflexivity|]. cbn. apply IH. Qed.
Lemma led_ev_other L e id : ev_for id e = false -> led_ev L e id = L id.
Proof.
  destruct e; try reflexivity. cbn [ev_for led_ev]. intros H. apply Z.eqb_neq in H. apply lset_neq. congruence.
Qed.

(* the cl_cmd-free part of a client record's well-formedness with the token list made explicit *)
Definition cli_okT (x : dcli) (toks : list tok) : Prop := cl_out (dc x) = render toks /\ (dc_bad x = false -> stream_ok x toks).

Lemma nth_of_nth_error {A} (l l' : list A) n d : nth_error l n = nth_error l' n -> nth n l d = nth n l' d.
Proof.
  intros H. destruct (nth_error l n) as [a|] eqn:E.
  - symmetry in H. rewrite (nth_error_nth _ _ d E), (nth_error_nth _ _ d H). reflexivity.
  - symmetry in H. apply nth_error_None in E, H. rewrite !nth_overflow by assumption. reflexivity.
Qed.

Section E.
  Variable expand_str : text -> option (list text).
  Variable ranged_sorted : list text -> text.
  Variable ranged_plain : list text -> text.
  Variable sorted : list text -> list text.
  Variable rmatch : text -> text -> option pmatch.
  Variable compress : list text -> text.
  Variable short_circuit : bool.

  Notation parse := (parse_input expand_str ranged_sorted ranged_plain sorted).
  Notation handle_input := (handle_input expand_str ranged_sorted ranged_plain sorted).
  Notation cli_one := (cli_one expand_str ranged_sorted ranged_plain sorted).
  Notation cli_loop := (cli_loop expand_str ranged_sorted ranged_plain sorted).
  Notation cli_post_poll := (cli_post_poll expand_str ranged_sorted ranged_plain sorted).
  Notation dev_loop := (dev_loop ranged_sorted rmatch compress short_circuit).
  Notation dstep := (dstep expand_str ranged_sorted ranged_plain sorted rmatch compress short_circuit).
  Notation drun := (drun expand_str ranged_sorted ranged_plain sorted rmatch compress short_circuit).
  Notation DPInv := (DPInv compress).

  (* ---------------------------------------------------------------- the ledger along the client half of a pass *)
  (* one request line of client number i: what _parse_input returns as the enqueue list *)
  Definition line_led (st : daemon) (i : nat) (L : ledger) : ledger :=
    match nth_error (dm_clients st) i with
    | None => L
    | Some x =>
      match take_line [] (dc_from x) with
      | None => L
      | Some (line, _) => let '(_, _, _, q) := parse (cconf_of st) (dm_store st) (dc x) line in led_enq L (cl_id (dc x)) q
      end
    end.
  (* _handle_input: line after line (the state after one line is what the model's handle_input returns with fuel 1) *)
  Fixpoint hi_led (fuel : nat) (st : daemon) (i : nat) (L : ledger) : ledger :=
    match fuel with
    | O => L
    | S f => match handle_input 1 st i [] with
             | Ok (st1, _) => hi_led f st1 i (line_led st i L)
             | _ => L
             end
    end.

  (* the read and the write of a visit (the first half of Daemon.cli_one, named) *)
  Definition cli_read (x : dcli) (ci : cin) : dcli :=
    if ci_in ci then
      match ci_read ci with
      | None | Some [] => set_eof (set_quit x)
      | Some b => mkDcli (dc x) (fst (cbuf_put (dc_from x) b)) (dc_to x) (dc_nl x + count_lf b) (dc_lines x)
                         (dc_eof x) (dc_bad x || dc_eof x) (dc_sent x)
      end
    else x.
  Definition cli_write (x1 : dcli) (ci : cin) : dcli * text :=
    if ci_out ci then
      match ci_wrote ci with
      | None => (let y := set_quit x1 in mkDcli (dc y) (dc_from y) [] (dc_nl y) (dc_lines y) (dc_eof y) true (dc_sent y), [])
      | Some n => (mkDcli (dc x1) (dc_from x1) (skipn n (dc_to x1)) (dc_nl x1) (dc_lines x1) (dc_eof x1) (dc_bad x1)
                          (dc_sent x1 ++ firstn n (dc_to x1)), firstn n (dc_to x1))
      end
    else (x1, []).
  Definition set_client (st : daemon) (i : nat) (y : dcli) : daemon :=
    mkDaemon (dm_nodes st) (dm_aliases st) (dm_specs st) (dm_pipe st) (dm_devs st)
             (upd_nth (dm_clients st) i (fun _ => y)) (dm_seq st) (dm_store st) (dm_version st) (dm_tel st).
  Definition drop_client (st : daemon) (i : nat) : daemon :=
    mkDaemon (dm_nodes st) (dm_aliases st) (dm_specs st) (dm_pipe st) (dm_devs st)
             (remove_nth (dm_clients st) i) (dm_seq st) (dm_store st) (dm_version st) (dm_tel st).

  Definition co_led (st : daemon) (i : nat) (ci : cin) (L : ledger) : ledger :=
    match nth_error (dm_clients st) i with
    | None => L
    | Some x =>
      if ci_bad ci then L
      else let x2 := fst (cli_write (cli_read x ci) ci) in hi_led (S (length (dc_from x2))) (set_client st i x2) i L
    end.
  Fixpoint cl_led (st : daemon) (i : nat) (cins : list cin) (L : ledger) : ledger :=
    match cins with
    | [] => L
    | ci :: r =>
      match cli_one st i ci with
      | Ok (st1, _, dead) => if dead then cl_led (drop_client st1 i) i r (co_led st i ci L) else cl_led st1 (S i) r (co_led st i ci L)
      | _ => L
      end
    end.
  Definition accept_state (st : daemon) (r : round) : daemon :=
    if r_accept r then
      let '(id, seq') := next_id (dm_seq st) in
      let c := new_client id (dm_version st) in
      mkDaemon (dm_nodes st) (dm_aliases st) (dm_specs st) (dm_pipe st) (dm_devs st)
               (dm_clients st ++ [mkDcli c [] (cl_out c) O O false false []]) seq' (dm_store st) (dm_version st) (dm_tel st)
    else st.
  Definition cpp_led (st : daemon) (r : round) (L : ledger) : ledger :=
    let st1 := accept_state st r in cl_led st1 O (pad_cins (length (dm_clients st1)) (r_cli r)) L.

  (* one pass: the client half reads the enqueue lists, the device half reads the event list the pass returns *)
  Definition dstep_led (st : daemon) (r : round) (L : ledger) : ledger :=
    match dstep st r with
    | Ok (_, o) => led_sys (cpp_led st r L) (do_evs o)
    | _ => L
    end.
  Fixpoint drun_led (st : daemon) (rs : list round) (L : ledger) : ledger :=
    match rs with
    | [] => L
    | r :: rest => match dstep st r with
                   | Ok (st1, _) => drun_led st1 rest (dstep_led st r L)
                   | _ => L
                   end
    end.

  (* ---------------------------------------------------------------- unfolding lemmas (the model's loops, one step at a time) *)
  Lemma handle_input_S f st i acc :
    handle_input (S f) st i acc =
    match handle_input 1 st i acc with
    | Ok (st1, a1) => handle_input f st1 i a1
    | Exit a b => Exit a b | Abort s => Abort s | MemErr s => MemErr s | Hang s => Hang s
    end.
  Proof.
    cbn [Daemon.handle_input].
    destruct (nth_error (dm_clients st) i) as [x|] eqn:En.
    2:{ destruct f; cbn [Daemon.handle_input]; [reflexivity|]. now rewrite En. }
    destruct (take_line [] (dc_from x)) as [[line rest]|] eqn:Et.
    2:{ destruct f; cbn [Daemon.handle_input]; [reflexivity|]. now rewrite En, Et. }
    destruct (parse (cconf_of st) (dm_store st) (dc x) line) as [[[cf' store'] c'] q].
    match goal with |- match ?e with _ => _ end = _ => destruct e as [devs'| | | |]; reflexivity end.
  Qed.

  Lemma cli_one_eq st i ci :
    cli_one st i ci =
    match nth_error (dm_clients st) i with
    | None => Ok (st, [], false)
    | Some x =>
      if ci_bad ci then Ok (st, [], true)
      else
        let x2w := cli_write (cli_read x ci) ci in
        match handle_input (S (length (dc_from (fst x2w)))) (set_client st i (fst x2w)) i
                           (match snd x2w with [] => [] | _ => [SysCliWrote (cl_id (dc x)) (snd x2w)] end) with
        | Ok (st2, evs) =>
          let dead := match nth_error (dm_clients st2) i with
                      | Some y => cl_quit (dc y) && (match cl_cmd (dc y) with None => true | Some _ => false end)
                                 && (match dc_to y with [] => true | _ => false end)
                      | None => false end in
          Ok (st2, evs, dead)
        | Exit c s => Exit c s | Abort s => Abort s | MemErr s => MemErr s | Hang s => Hang s
        end
    end.
  Proof.
    unfold Daemon.cli_one, cli_write, cli_read, set_client.
    destruct (nth_error (dm_clients st) i) as [x|]; [|reflexivity].
    destruct (ci_bad ci); [reflexivity|].
    destruct (ci_out ci); [destruct (ci_wrote ci)|]; reflexivity.
  Qed.

  Lemma cli_post_poll_eq st r :
    cli_post_poll st r =
    cli_loop (accept_state st r) O (pad_cins (length (dm_clients (accept_state st r))) (r_cli r))
             (if r_accept r then [SysAccept (fst (next_id (dm_seq st)))] else []).
  Proof. unfold Daemon.cli_post_poll, accept_state. destruct (r_accept r); [|reflexivity]. destruct (next_id (dm_seq st)); reflexivity. Qed.

  Lemma handle_input_acc_any fuel : forall st i acc st' evs acc2,
    handle_input fuel st i acc = Ok (st', evs) -> handle_input fuel st i acc2 = Ok (st', acc2).
  Proof.
    induction fuel as [|f IH]; intros st i acc st' evs acc2; cbn [Daemon.handle_input]; [intros H; now inversion H|].
    destruct (nth_error (dm_clients st) i) as [x|]; [|intros H; now inversion H].
    destruct (take_line [] (dc_from x)) as [[line rest]|]; [|intros H; now inversion H].
    destruct (parse (cconf_of st) (dm_store st) (dc x) line) as [[[cf' store'] c'] q].
    match goal with |- match ?e with _ => _ end = _ -> _ => destruct e as [devs'| | | |]; try discriminate end.
    apply IH.
  Qed.

  (* ---------------------------------------------------------------- the invariant that ties the ledger to the state *)
  (* P = completions the device being processed has emitted and that are not yet delivered (as in DaemonPending.CInv) *)
  Record LInv (P : list Z) (L : ledger) (st : daemon) : Prop := {
    (* conservation, for EVERY id (also of clients that are gone): what is still queued = enqueued - completed *)
    li_cnt : forall id, cnt id (P ++ qall (dm_devs st)) = bal (L id);
    li_pos : forall id, 0 <= l_ok (L id) /\ 0 <= l_fail (L id);
    (* the sticky error flag of a command = "some completion of this command carried an error" *)
    li_err : forall p x k, nth_error (dm_clients st) p = Some x -> cl_cmd (dc x) = Some k -> k_error k = (0 <? l_fail (L (cid x)));
    (* a result list in use by a command is referred to by that client's actions only *)
    li_own : forall c s p x, In (c, s) (aslots (dm_devs st)) -> nth_error (dm_clients st) p = Some x -> cmd_slot x = Some s -> cid x = c
  }.

  Lemma LInv_same P L st st' : dm_devs st' = dm_devs st -> dm_clients st' = dm_clients st -> LInv P L st -> LInv P L st'.
  Proof. intros Hd Hc [A B C D]. constructor; rewrite ?Hd, ?Hc; assumption. Qed.

  Lemma LInv_upd P L st st' i x y :
    dm_devs st' = dm_devs st -> dm_clients st' = upd_nth (dm_clients st) i (fun _ => y) ->
    nth_error (dm_clients st) i = Some x -> cid y = cid x -> cl_cmd (dc y) = cl_cmd (dc x) -> LInv P L st -> LInv P L st'.
  Proof.
    intros Hd Hc En Hid Hk [A B C D]. constructor; rewrite ?Hd, ?Hc.
    - exact A.
    - exact B.
    - intros p z k Hz Hzk. destruct (Nat.eq_dec i p) as [<-|Hne].
      + rewrite (nth_error_upd_nth_eq _ _ _ _ En) in Hz. inversion Hz; subst z. rewrite Hid. apply (C i x k En). congruence.
      + rewrite nth_error_upd_nth_ne in Hz by exact Hne. exact (C p z k Hz Hzk).
    - intros c s p z Hin Hz Hs. destruct (Nat.eq_dec i p) as [<-|Hne].
      + rewrite (nth_error_upd_nth_eq _ _ _ _ En) in Hz. inversion Hz; subst z. rewrite Hid. apply (D c s i x Hin En).
        unfold cmd_slot in *. now rewrite <- Hk.
      + rewrite nth_error_upd_nth_ne in Hz by exact Hne. exact (D c s p z Hin Hz Hs).
  Qed.

  Lemma LInv_drop P L st i : LInv P L st -> LInv P L (drop_client st i).
  Proof.
    intros [A B C D]. constructor; cbn [drop_client dm_devs dm_clients]; auto.
    - intros p z k Hz. destruct (Nat.lt_ge_cases p i) as [Hlt|Hge].
      + rewrite nth_error_remove_lt in Hz by exact Hlt. exact (C p z k Hz).
      + rewrite nth_error_remove_ge in Hz by exact Hge. exact (C (S p) z k Hz).
    - intros c s p z Hin Hz. destruct (Nat.lt_ge_cases p i) as [Hlt|Hge].
      + rewrite nth_error_remove_lt in Hz by exact Hlt. exact (D c s p z Hin Hz).
      + rewrite nth_error_remove_ge in Hz by exact Hge. exact (D c s (S p) z Hin Hz).
  Qed.

  Lemma nth_error_snoc {A} (l : list A) y p z : nth_error (l ++ [y]) p = Some z -> nth_error l p = Some z \/ (p = length l /\ z = y).
  Proof.
    intros H. destruct (Nat.lt_ge_cases p (length l)) as [Hlt|Hge].
    - rewrite nth_error_app1 in H by exact Hlt. now left.
    - rewrite nth_error_app2 in H by exact Hge. destruct (p - length l)%nat as [|k] eqn:Ek; cbn in H; [|destruct k; discriminate].
      inversion H; subst. right. split; [lia|reflexivity].
  Qed.

  (* a request line that is answered at once / refused while busy leaves no trace in the ledger; one that queues a
     command resets the entry of that id to (number of actions in the enqueue list, 0, 0) *)
  Local Ltac imm Hn :=
    let H := fresh "H" in
    intros H; inversion H; subst; clear H; intros Hk; exfalso; revert Hk;
    repeat match goal with |- context [if ?b then _ else _] => destruct b end;
    cbn; rewrite ?Hn; discriminate.
  Lemma parse_queued_err cf store c line cf' store' c' q k :
    cl_cmd c = None -> parse cf store c line = (cf', store', c', q) -> cl_cmd c' = Some k -> k_error k = false.
  Proof.
    intros Hn. unfold parse_input. cbn zeta.
    destruct (CP_LINEMAX <=? _); [imm Hn|].
    rewrite Hn.
    destruct (classify (strip (cstr line))) as [| | | | | |com a|a|] eqn:Ecl; try (imm Hn; fail).
    pose proof (create_command_shape expand_str ranged_plain cf (length store) com a) as S.
    destruct (create_command expand_str ranged_plain cf (length store) com a) as [t|k0 al q0].
    - imm Hn.
    - intros H; inversion H; subst. cbn. intros Hk. injection Hk as <-. tauto.
  Qed.

  Lemma line_e2e st i acc L : DPInv st -> LInv [] L st ->
    exists st1, handle_input 1 st i acc = Ok (st1, acc) /\ DPInv st1 /\ same_static st st1 /\ LInv [] (line_led st i L) st1.
  Proof.
    intros I Li.
    destruct (handle_input_inv expand_str ranged_sorted ranged_plain sorted rmatch compress 1 st i acc I) as (st1 & evs & E & I1 & S1).
    pose proof (handle_input_acc _ _ _ _ _ _ _ _ _ _ E) as ->.
    exists st1. split; [exact E|]. split; [exact I1|]. split; [exact S1|].
    revert E. unfold line_led. cbn [Daemon.handle_input].
    destruct (nth_error (dm_clients st) i) as [x|] eqn:En; [|intros E; inversion E; subst; exact Li].
    destruct (take_line [] (dc_from x)) as [[line rest]|] eqn:Et; [|intros E; inversion E; subst; exact Li].
    destruct (parse (cconf_of st) (dm_store st) (dc x) line) as [[[cf' store'] c'] q] eqn:Ep.
    assert (Hx : cli_ok x /\ pend (dc x) = cnt (cid x) (qall (dm_devs st))).
    { pose proof (dp_cinv _ _ I) as H. unfold CInv in H. rewrite Forall_forall in H. apply (H x). eapply nth_error_In; exact En. }
    destruct Hx as [Kx Px]. pose proof Kx as [Ix _].
    destruct (parse_input_toks expand_str ranged_sorted ranged_plain sorted _ _ _ _ _ _ _ _ Ep Ix) as (d & _ & _ & _ & I' & _).
    pose proof (parse_input_id expand_str ranged_sorted ranged_plain sorted _ _ _ _ _ _ _ _ Ep) as Hid.
    set (x' := set_dc c' (mkDcli (dc x) rest (dc_to x) (dc_nl x) (S (dc_lines x)) (dc_eof x) (dc_bad x) (dc_sent x))).
    assert (Hcid : cid x' = cid x) by (unfold x', cid; cbn; exact Hid).
    assert (Hdc : dc x' = c') by reflexivity.
    destruct (cl_cmd (dc x)) as [k|] eqn:Ek.
    - destruct (parse_busy_q _ _ _ _ _ _ _ _ _ _ _ _ k Ek Ep) as [-> Hk'].
      intros E. injection E as <-. cbn [led_enq].
      eapply (LInv_upd [] L st _ i x x'); try reflexivity; [exact En|exact Hcid| |exact Li]. rewrite Hdc, Hk', Ek. reflexivity.
    - destruct (parse_idle expand_str ranged_sorted ranged_plain sorted _ _ _ _ _ _ _ _ Ek Ep) as [(-> & Hn' & Hst' & _)|(k & al & Hk' & Hst' & Hpk & Htot & Hka & _ & _ & _ & Hq)].
      + intros E. injection E as <-. cbn [led_enq].
        eapply (LInv_upd [] L st _ i x x'); try reflexivity; [exact En|exact Hcid| |exact Li]. rewrite Hdc, Hn', Ek. reflexivity.
      + assert (Hval : In (k_com k) (power_coms ++ query_coms)).
        { apply valid_com_In. unfold cmd_inv in I'. rewrite Hk' in I'. tauto. }
        assert (Hq' : q = enqueue (map edev_of (dm_devs st)) (k_com k) (k_targets k)).
        { rewrite Hq. unfold cconf_of. cbn [cf_devs]. now rewrite zip_edevs. }
        destruct (enq_all_inv expand_str ranged_sorted ranged_plain sorted rmatch compress (cl_id (dc x)) (cl_tele (dc x)) (length (dm_store st)) (k_com k) (k_targets k) Hval (dm_devs st) (dp_devs _ _ I))
          as (devs' & Ee & Hd' & Nd' & Kc & Jc).
        rewrite <- Hq' in Ee, Kc.
        assert (Hqne : q <> []) by (intros ->; cbn in Htot; lia).
        destruct q as [|q0 qr]; [congruence|]. rewrite Ee.
        intros E. injection E as <-.
        destruct (enq_all_slots (cl_id (dc x)) (cl_tele (dc x)) (length (dm_store st)) _ _ _ Ee (si_cb _ (dp_slots _ _ I))) as [Ecb Einc].
        pose proof (parse_queued_err _ _ _ _ _ _ _ _ k Ek Ep Hk') as Herr.
        assert (Hbal : bal (L (cid x)) = 0).
        { rewrite <- (li_cnt _ _ _ Li (cid x)). cbn [app]. rewrite <- Px. unfold pend. now rewrite Ek. }
        pose proof (dp_nodup _ _ I) as Hnd. unfold ids in Hnd.
        assert (Hother : forall p z, p <> i -> nth_error (dm_clients st) p = Some z -> cid z <> cid x).
        { intros p z Hp Hz E0. apply Hp. apply (proj1 (NoDup_nth_error (map cid (dm_clients st))) Hnd).
          - rewrite map_length. apply nth_error_Some. congruence.
          - rewrite !nth_error_map, Hz, En. cbn. now rewrite E0. }
        set (n := Z.of_nat (total (q0 :: qr))) in *.
        unfold led_enq. fold n.
        constructor; cbn [dm_devs dm_clients app].
        * intros j. rewrite (Kc j). pose proof (li_cnt _ _ _ Li j) as Hj. cbn [app] in Hj. unfold cid in *.
          destruct (Z.eq_dec j (cl_id (dc x))) as [->|Hne]; [rewrite lset_eq; unfold bal in *; cbn [l_enq l_ok l_fail]; lia|rewrite lset_neq by exact Hne; lia].
        * intros j. unfold cid in *. destruct (Z.eq_dec j (cl_id (dc x))) as [->|Hne]; [rewrite lset_eq; cbn; lia|rewrite lset_neq by exact Hne; exact (li_pos _ _ _ Li j)].
        * intros p z k1 Hz Hzk. destruct (Nat.eq_dec i p) as [<-|Hne].
          -- rewrite (nth_error_upd_nth_eq _ _ _ _ En) in Hz. inversion Hz; subst z. rewrite Hcid. unfold cid. rewrite lset_eq. cbn [l_fail].
             rewrite Hdc, Hk' in Hzk. inversion Hzk; subst k1. exact Herr.
          -- rewrite nth_error_upd_nth_ne in Hz by exact Hne. unfold cid at 1. rewrite lset_neq; [exact (li_err _ _ _ Li p z k1 Hz Hzk)|].
             apply (Hother p z); [congruence|exact Hz].
        * intros c s p z Hin Hz Hs. apply Einc in Hin. destruct (Nat.eq_dec i p) as [<-|Hne].
          -- rewrite (nth_error_upd_nth_eq _ _ _ _ En) in Hz. inversion Hz; subst z. rewrite Hcid.
             unfold cmd_slot in Hs. rewrite Hdc, Hk', Hka in Hs. inversion Hs; subst s.
             destruct Hin as [Hin|Hin]; [inversion Hin; reflexivity|].
             destruct (si_act _ (dp_slots _ _ I) _ _ Hin) as [Hlt _]. lia.
          -- rewrite nth_error_upd_nth_ne in Hz by exact Hne. destruct Hin as [Hin|Hin].
             ++ inversion Hin; subst c s. pose proof (si_cmd _ (dp_slots _ _ I) z _ (nth_error_In _ _ Hz) Hs). lia.
             ++ exact (li_own _ _ _ Li c s p z Hin Hz Hs).
  Qed.

  Lemma hi_e2e fuel : forall st i acc L, DPInv st -> LInv [] L st ->
    exists st', handle_input fuel st i acc = Ok (st', acc) /\ DPInv st' /\ same_static st st' /\ LInv [] (hi_led fuel st i L) st'.
  Proof.
    induction fuel as [|f IH]; intros st i acc L I Li.
    - exists st. split; [reflexivity|]. split; [exact I|]. split; [repeat split|exact Li].
    - rewrite handle_input_S. cbn [hi_led].
      destruct (line_e2e st i acc L I Li) as (st1 & E1 & I1 & S1 & L1). rewrite E1.
      rewrite (handle_input_acc_any 1 st i acc st1 acc [] E1).
      destruct (IH st1 i acc _ I1 L1) as (st' & E' & I' & S' & L'). exists st'. split; [exact E'|]. split; [exact I'|]. split; [|exact L'].
      destruct S1 as (A1 & A2 & A3), S' as (B1 & B2 & B3). repeat split; congruence.
  Qed.

  (* the read / the write of a visit keep the record well formed (as in DaemonPending.cli_one_inv) *)
  Lemma cli_read_ok x ci : no_line x ->
    cid (cli_read x ci) = cid x /\ cl_cmd (dc (cli_read x ci)) = cl_cmd (dc x) /\ (cli_ok x -> cli_ok (cli_read x ci)).
  Proof.
    intros Hlx. unfold cli_read. destruct (ci_in ci); [destruct (ci_read ci) as [[|b r]|]|]; (split; [reflexivity|split; [reflexivity|]]); try (intros K; exact K).
    - apply cli_ok_same; try reflexivity. cbn [set_eof set_quit dc_bad dc dc_sent dc_to]. intros Hb. split; [exact Hb|]. split; [reflexivity|].
      intros q Hq. unfold rq_ok in *. cbn [set_eof set_quit dc dc_eof cl_quit]. split; [reflexivity|].
      unfold no_line. cbn [set_eof set_quit dc_from]. exact Hlx.
    - apply cli_ok_same; try reflexivity. cbn [dc_bad dc dc_sent dc_to]. intros Hb. apply orb_false_iff in Hb as [Hb He]. split; [exact Hb|]. split; [reflexivity|].
      intros q Hq. unfold rq_ok in *. cbn [dc dc_eof]. rewrite He in *. exact Hq.
    - apply cli_ok_same; try reflexivity. cbn [set_eof set_quit dc_bad dc dc_sent dc_to]. intros Hb. split; [exact Hb|]. split; [reflexivity|].
      intros q Hq. unfold rq_ok in *. cbn [set_eof set_quit dc dc_eof cl_quit]. split; [reflexivity|].
      unfold no_line. cbn [set_eof set_quit dc_from]. exact Hlx.
  Qed.
  Lemma cli_write_ok x1 ci :
    cid (fst (cli_write x1 ci)) = cid x1 /\ cl_cmd (dc (fst (cli_write x1 ci))) = cl_cmd (dc x1) /\ (cli_ok x1 -> cli_ok (fst (cli_write x1 ci))).
  Proof.
    unfold cli_write. destruct (ci_out ci); [destruct (ci_wrote ci) as [n|]|]; cbn [fst].
    - split; [reflexivity|]. split; [reflexivity|]. intros K. apply (cli_ok_same x1); try reflexivity; [|exact K].
      cbn [dc_bad dc dc_sent dc_to]. intros Hb. split; [exact Hb|]. split; [rewrite <- app_assoc, firstn_skipn; reflexivity|].
      intros q Hq. exact Hq.
    - split; [reflexivity|]. split; [reflexivity|]. intros K. apply (cli_ok_same x1); try reflexivity; [|exact K].
      cbn [dc_bad]. discriminate.
    - split; [reflexivity|]. split; [reflexivity|]. auto.
  Qed.

  Lemma co_e2e st i ci L : DPInv st -> NL st -> LInv [] L st ->
    exists st' evs dead, cli_one st i ci = Ok (st', evs, dead) /\ DPInv st' /\ same_static st st' /\ NL st' /\ LInv [] (co_led st i ci L) st'.
  Proof.
    intros I Hnl Li.
    assert (Hnl' : forall st' evs dead, cli_one st i ci = Ok (st', evs, dead) -> NL st')
      by (intros st' evs dead E; exact (cli_one_nl expand_str ranged_sorted ranged_plain sorted st i ci st' evs dead Hnl E)).
    revert Hnl'. rewrite cli_one_eq. unfold co_led.
    destruct (nth_error (dm_clients st) i) as [x|] eqn:En; [|intros _; exists st, [], false; split; [reflexivity|split; [exact I|split; [repeat split|split; [exact Hnl|exact Li]]]]].
    destruct (ci_bad ci); [intros _; exists st, [], true; split; [reflexivity|split; [exact I|split; [repeat split|split; [exact Hnl|exact Li]]]]|].
    assert (Hlx : no_line x) by (eapply Hnl; exact En).
    destruct (cli_read_ok x ci Hlx) as (B1 & B2 & B3).
    destruct (cli_write_ok (cli_read x ci) ci) as (A1 & A2 & A3).
    cbv zeta.
    set (x2 := fst (cli_write (cli_read x ci) ci)) in *.
    assert (I1 : DPInv (set_client st i x2)).
    { apply (DPInv_upd_client compress st i x x2 En); [congruence|congruence|auto|exact I]. }
    assert (L1 : LInv [] L (set_client st i x2)).
    { eapply (LInv_upd [] L st _ i x x2); try reflexivity; [exact En|congruence|congruence|exact Li]. }
    match goal with |- context [handle_input ?f ?s i ?a] => destruct (hi_e2e f s i a L I1 L1) as (st2 & E & I2 & S2 & L2) end.
    rewrite E. intros Hnl'. eexists _, _, _. split; [reflexivity|]. split; [exact I2|]. split; [exact S2|]. split; [|exact L2]. eapply Hnl'. reflexivity.
  Qed.

  Lemma cl_e2e : forall cins st i acc L, DPInv st -> NL st -> LInv [] L st ->
    exists st' evs, cli_loop st i cins acc = Ok (st', evs) /\ DPInv st' /\ same_static st st' /\ NL st' /\ LInv [] (cl_led st i cins L) st'.
  Proof.
    induction cins as [|ci r IH]; intros st i acc L I Hnl Li; cbn [Daemon.cli_loop cl_led].
    - exists st, acc. split; [reflexivity|]. split; [exact I|]. split; [repeat split|]. split; [exact Hnl|exact Li].
    - destruct (co_e2e st i ci L I Hnl Li) as (st1 & evs1 & dead & E1 & I1 & S1 & N1 & L1). rewrite E1.
      destruct dead.
      + match goal with |- context [cli_loop ?s i r ?a] =>
          destruct (IH s i a _ (DPInv_remove compress st1 i I1) (remove_nth_nl st1 i N1) (LInv_drop _ _ st1 i L1)) as (st' & evs & E & I' & S' & N' & L') end.
        exists st', evs. split; [exact E|]. split; [exact I'|]. split; [|split; [exact N'|exact L']].
        destruct S1 as (B1 & B2 & B3), S' as (C1 & C2 & C3). cbn [drop_client dm_pipe dm_seq dm_devs] in *. repeat split; congruence.
      + destruct (IH st1 (S i) (acc ++ evs1) _ I1 N1 L1) as (st' & evs & E & I' & S' & N' & L'). exists st', evs. split; [exact E|]. split; [exact I'|].
        split; [|split; [exact N'|exact L']]. destruct S1 as (B1 & B2 & B3), S' as (C1 & C2 & C3). repeat split; congruence.
  Qed.

  (* the client half of a pass *)
  Lemma cpp_e2e st r L : DPInv st -> NL st -> 1 <= dm_seq st < INT_MAX -> LInv [] L st ->
    exists sta e1, cli_post_poll st r = Ok (sta, e1) /\ DPInv sta /\ NL sta /\ LInv [] (cpp_led st r L) sta /\
                   length (dm_devs sta) = length (dm_devs st) /\ dm_seq st <= dm_seq sta <= dm_seq st + 1.
  Proof.
    intros I Hnl Hseq Li. rewrite cli_post_poll_eq. unfold cpp_led.
    assert (Ha : DPInv (accept_state st r) /\ NL (accept_state st r) /\ LInv [] L (accept_state st r) /\
                 length (dm_devs (accept_state st r)) = length (dm_devs st) /\ dm_seq st <= dm_seq (accept_state st r) <= dm_seq st + 1).
    { unfold accept_state. destruct (r_accept r); [|split; [exact I|split; [exact Hnl|split; [exact Li|split; [reflexivity|lia]]]]].
      unfold next_id. fold INT_MAX. destruct (dm_seq st <? INT_MAX) eqn:E; [|apply Z.ltb_ge in E; lia].
      pose proof (dp_qseq _ _ I) as Hq. rewrite Forall_forall in Hq.
      split; [|split; [|split; [|split; [reflexivity|cbn [dm_seq]; lia]]]].
      - constructor; cbn [dm_devs dm_clients dm_seq].
        + exact (dp_devs _ _ I).
        + unfold ids. cbn [dm_clients]. rewrite map_app. cbn [map]. apply NoDup_app_single_fresh; [exact (dp_nodup _ _ I)|].
          intros Hin. unfold cid in Hin. cbn in Hin. specialize (Hq (dm_seq st)). assert (1 <= dm_seq st < dm_seq st) by (apply Hq; apply in_or_app; now right). lia.
        + unfold CInv. apply Forall_app. split; [exact (dp_cinv _ _ I)|]. constructor; [|constructor]. split.
          * split; [exact Logic.I|]. exists [TLine 1 (dm_version st); TPrompt]. cbn [dc new_client cl_out dc_lines busy cl_cmd].
            split; [rewrite fmt_version; cbn [render flat_map render1]; now rewrite !app_nil_r|]. split; [reflexivity|].
            intros _. split; [|reflexivity]. exists (PReady false), false. split; [reflexivity|]. split; [split; [left; reflexivity|reflexivity]|reflexivity].
          * cbn [dc new_client pend cl_cmd app]. unfold cid. cbn [dc new_client cl_id]. symmetry. apply cnt_notin.
            intros Hin. assert (1 <= dm_seq st < dm_seq st) by (apply Hq; apply in_or_app; now left). lia.
        + rewrite Forall_forall. intros z Hz. unfold ids in Hz. cbn [dm_clients] in Hz. rewrite map_app in Hz. cbn [map] in Hz.
          rewrite app_assoc in Hz. apply in_app_or in Hz as [Hz|[<-|[]]].
          * specialize (Hq z Hz). lia.
          * unfold cid. cbn. lia.
        + apply SInv_accept; [exact (dp_slots _ _ I)|reflexivity|].
          intros Hin. unfold cid in Hin. cbn in Hin. assert (1 <= dm_seq st < dm_seq st) by (apply Hq; apply in_or_app; now left). lia.
      - intros p x. cbn [dm_clients]. intros Hx. apply nth_error_snoc in Hx as [Hx|[_ ->]]; [eapply Hnl; exact Hx|reflexivity].
      - destruct Li as [A B C D]. constructor; cbn [dm_devs dm_clients]; auto.
        + intros p x k Hx. apply nth_error_snoc in Hx as [Hx|[_ ->]]; [exact (C p x k Hx)|cbn; discriminate].
        + intros c s p x Hin Hx. apply nth_error_snoc in Hx as [Hx|[_ ->]]; [exact (D c s p x Hin Hx)|cbn; discriminate]. }
    destruct Ha as (Ia & Na & La & Da & Sa).
    match goal with |- context [cli_loop ?s 0 ?c ?a] => destruct (cl_e2e c s 0%nat a L Ia Na La) as (stb & e2 & El & Ib & Sb & Nb & Lb) end.
    exists stb, e2. split; [exact El|]. split; [exact Ib|]. split; [exact Nb|]. split; [exact Lb|].
    destruct Sb as (B1 & B2 & B3). split; lia.
  Qed.

  (* ---------------------------------------------------------------- the callback half: tokens of the final reply *)
  (* the final reply as a function of what it really depends on: the command word, the client's -x flag, the result list
     and the error flag *)
  Definition reply_text (com : Z) (exp : bool) (al : arglist) (err : bool) : outcome text :=
    final_reply ranged_sorted (mkClient 0 None false exp false []) (mkCommand com [] 0 err O) al.
  Lemma final_reply_text c k al : final_reply ranged_sorted c k al = reply_text (k_com k) (cl_exp c) al (k_error k).
  Proof. reflexivity. Qed.

  Definition is_query (com : Z) : bool := (Z.eqb com PM_STATUS_PLUGS || Z.eqb com PM_STATUS_BEACON || Z.eqb com PM_STATUS_TEMP)%bool.
  (* the code of the terminal line: 103 / 211 for the three queries, 102 / 210 for the power commands *)
  Definition term_code (com : Z) (err : bool) (al : arglist) : N :=
    if is_query com then (if err then 211 else 103)%N
    else if (err || existsb (fun a => Z.eqb (ar_result a) RT_UNKNOWN) (args_iter al))%bool then 210%N else 102%N.

  Lemma qry_tail (err : bool) (t1 : text) infos : t1 = render infos ->
    t1 ++ (if err then CP_ERR_QRY_COMPLETE else CP_RSP_QRY_COMPLETE) =
    render (infos ++ [TLine (if err then 211 else 103)%N (payload_of (if err then CP_ERR_QRY_COMPLETE else CP_RSP_QRY_COMPLETE))]).
  Proof. intros ->. rewrite render_app. f_equal. exact (proj1 (qry_term err)). Qed.

  Lemma reply_text_toks com exp al err : valid_com com = true ->
    exists infos_r p, reply_text com exp al err = Ok (render (infos_r ++ [TLine (term_code com err al) p])) /\
                      Forall info_tok infos_r /\ plain_term (term_code com err al) = true.
  Proof.
    intros V. unfold reply_text, final_reply, term_code, is_query. cbv zeta. cbn [k_com k_error].
    assert (Ht : plain_term (if err then 211 else 103)%N = true) by (destruct err; reflexivity).
    destruct (Z.eqb com PM_STATUS_PLUGS || Z.eqb com PM_STATUS_BEACON)%bool eqn:E1.
    { cbn [orb]. unfold reply_status. cbv zeta. cbn [cl_exp]. destruct exp.
      - eexists _, _. split; [apply f_equal; apply qry_tail; apply render_flat; intros a; apply fmt_xstatus|]. split; [|exact Ht].
        apply Forall_flat_map_intro. intros a _. constructor; [reflexivity|constructor].
      - eexists _, _. split; [apply f_equal; apply qry_tail; apply fmt_status|]. split; [|exact Ht].
        repeat (constructor; [reflexivity|]). constructor. }
    cbn [orb]. destruct (Z.eqb com PM_STATUS_TEMP) eqn:E2.
    { unfold reply_nointerp. cbv zeta.
      set (it := args_iter al).
      set (g1 := fun a : arg => match ar_val a with Some v => [TLine 303 (ar_node a ++ bslit ": " ++ cut_eol v)] | None => [] end).
      set (l := map ar_node (filter (fun a => match ar_val a with None => true | Some _ => false end) it)).
      set (g2 := match l with [] => [] | _ => [TLine 303 (ranged_sorted l ++ bslit ": " ++ bslit "unknown")] end).
      exists (flat_map g1 it ++ g2). eexists. split; [|split; [|exact Ht]].
      - apply f_equal. rewrite app_assoc. apply qry_tail. rewrite render_app. f_equal.
        + apply render_flat. intros a. unfold g1. destruct (ar_val a); [apply fmt_xstatus|reflexivity].
        + unfold g2. destruct l; [reflexivity|apply fmt_xstatus].
      - apply Forall_app. split.
        + apply Forall_flat_map_intro. intros a _. unfold g1. destruct (ar_val a); [constructor; [reflexivity|constructor]|constructor].
        + unfold g2. destruct l; constructor; [reflexivity|constructor]. }
    destruct (existsb (Z.eqb com) power_coms) eqn:E3.
    { unfold reply_power. exists []. cbn [app].
      destruct (err || existsb (fun a => Z.eqb (ar_result a) RT_UNKNOWN) (args_iter al))%bool.
      - eexists. split; [apply f_equal; exact (proj1 c_com_err)|]. split; [constructor|reflexivity].
      - eexists. split; [apply f_equal; exact (proj1 c_com_ok)|]. split; [constructor|reflexivity]. }
    exfalso. unfold valid_com in V. rewrite existsb_app, E3 in V. apply orb_false_iff in E1 as [A B].
    unfold query_coms in V. cbn [existsb orb] in V. rewrite A, E2, B in V. discriminate.
  Qed.

  (* _act_finish with the tokens it emits made explicit (a stronger form of ClientStreamQ.act_finish_toks_q) *)
  Lemma act_finish_e2e c store err msg k : cmd_inv c -> cl_cmd c = Some k ->
    let d0 := if Z.eqb err ACT_ESUCCESS then [] else [TLine 308 msg] in
    let err' := (k_error k || negb (Z.eqb err ACT_ESUCCESS))%bool in
    exists c', act_finish ranged_sorted c store err msg = Ok c' /\ cl_exp c' = cl_exp c /\ cl_quit c' = cl_quit c /\ cl_id c' = cl_id c /\
      Forall info_tok d0 /\
      ((k_pending k - 1 <> 0 /\ cl_cmd c' = Some (mkCommand (k_com k) (k_targets k) (k_pending k - 1) err' (k_args k)) /\
        cl_out c' = cl_out c ++ render d0 /\
        (forall q st, qcompat q c st -> exists st', run st d0 = Some st' /\ qcompat q c' st'))
       \/
       (k_pending k - 1 = 0 /\ cl_cmd c' = None /\
        exists infos_r p,
          reply_text (k_com k) (cl_exp c) (nth (k_args k) store []) err' =
            Ok (render (infos_r ++ [TLine (term_code (k_com k) err' (nth (k_args k) store [])) p])) /\
          Forall info_tok infos_r /\ plain_term (term_code (k_com k) err' (nth (k_args k) store [])) = true /\
          cl_out c' = cl_out c ++ render (d0 ++ (infos_r ++ [TLine (term_code (k_com k) err' (nth (k_args k) store [])) p]) ++ [TPrompt]) /\
          (forall q st, qcompat q c st ->
             exists st', run st (d0 ++ (infos_r ++ [TLine (term_code (k_com k) err' (nth (k_args k) store [])) p]) ++ [TPrompt]) = Some st' /\ qcompat q c' st'))).
  Proof.
    intros I Ek. cbv zeta. unfold cmd_inv in I. rewrite Ek in I. destruct I as [Hp Hv].
    unfold act_finish. rewrite Ek. cbv zeta. cbn [k_pending k_args].
    set (c1 := if Z.eqb err ACT_ESUCCESS then c else emit (cprintf CP_INFO_ACTERROR [msg]) c).
    set (d0 := if Z.eqb err ACT_ESUCCESS then [] else [TLine 308 msg]).
    set (err' := (k_error k || negb (Z.eqb err ACT_ESUCCESS))%bool).
    set (k1 := mkCommand (k_com k) (k_targets k) (k_pending k - 1) err' (k_args k)).
    assert (F1 : cl_out c1 = cl_out c ++ render d0) by (unfold c1, d0; destruct (Z.eqb err ACT_ESUCCESS); [cbn; rewrite app_nil_r; reflexivity|cbn [emit cl_out]; rewrite fmt_acterror; reflexivity]).
    assert (F2 : cl_quit c1 = cl_quit c /\ cl_exp c1 = cl_exp c /\ cl_id c1 = cl_id c) by (unfold c1; destruct (Z.eqb err ACT_ESUCCESS); repeat split).
    destruct F2 as (F2 & F2e & F2i).
    assert (F3 : Forall info_tok d0) by (unfold d0; destruct (Z.eqb err ACT_ESUCCESS); [constructor|constructor; [reflexivity|constructor]]).
    destruct (Z.eqb (k_pending k - 1) 0) eqn:E0.
    - apply Z.eqb_eq in E0. rewrite final_reply_text. cbn [k_com k_error k1]. rewrite F2e.
      destruct (reply_text_toks (k_com k) (cl_exp c) (nth (k_args k) store []) err' Hv) as (infos_r & p & Ef & Fi & Tc).
      rewrite Ef. eexists. split; [reflexivity|]. cbn [emit set_cmd cl_exp cl_quit cl_id cl_cmd cl_out].
      split; [exact F2e|]. split; [exact F2|]. split; [exact F2i|]. split; [exact F3|]. right.
      split; [exact E0|]. split; [reflexivity|]. exists infos_r, p. split; [reflexivity|]. split; [exact Fi|]. split; [exact Tc|]. split.
      + rewrite F1, !render_app, <- !app_assoc. cbn [render flat_map render1]. rewrite app_nil_r. reflexivity.
      + intros q st [O _]. destruct (run_infos q st d0 O F3) as [st1 [R1 [O1 _]]].
        destruct (run_infos q st1 infos_r O1 Fi) as [st2 [R2 [O2 _]]].
        exists (PReady q). rewrite run_app, R1, run_app, run_app, R2. cbn [run]. rewrite (step_term q st2 _ p O2 Tc).
        split; [destruct q; reflexivity|]. split; [left; reflexivity|reflexivity].
    - apply Z.eqb_neq in E0. eexists. split; [reflexivity|]. cbn [set_cmd cl_exp cl_quit cl_id cl_cmd cl_out].
      split; [exact F2e|]. split; [exact F2|]. split; [exact F2i|]. split; [exact F3|]. left.
      split; [exact E0|]. split; [reflexivity|]. split; [exact F1|].
      intros q st [O _]. destruct (run_infos q st d0 O F3) as [st1 [R1 [O1 _]]].
      exists st1. split; [exact R1|]. split; [exact O1|]. cbn [set_cmd busy cl_cmd]. discriminate.
  Qed.

  (* appending tokens to a record's output through set_dc, the token list explicit (cf. DaemonPending.cli_ok_set_dc) *)
  Lemma cli_okT_set_dc x c' toks d :
    cli_okT x toks -> cl_out c' = cl_out (dc x) ++ render d ->
    (forall q st, qcompat q (dc x) st -> exists st', run st d = Some st' /\ qcompat q c' st') -> cl_quit c' = cl_quit (dc x) ->
    cli_okT (set_dc c' x) (toks ++ d).
  Proof.
    intros [Ho Hs] Ho' Hr Hq. split; [cbn [set_dc dc]; rewrite Ho', Ho, render_app; reflexivity|].
    cbn [set_dc dc_bad]. intros Hb. apply orb_false_iff in Hb as [Hb Hov]. destruct (Hs Hb) as [(st & q & R & C & Q) Hsent]. destruct (Hr q st C) as (st' & R' & C'). split.
    - exists st', q. split; [rewrite run_app, R; exact R'|]. split; [exact C'|].
      unfold rq_ok in *. cbn [set_dc dc dc_eof]. destruct (dc_eof x); [|rewrite Hq; exact Q].
      destruct Q as [Q1 Q2]. split; [rewrite Hq; exact Q1|exact Q2].
    - cbn [set_dc dc dc_sent dc_to]. rewrite (cbuf_put_fits _ _ Hov). rewrite Ho', skipn_length_app, Hsent, <- app_assoc. reflexivity.
  Qed.

  (* ---------------------------------------------------------------- what the callback half of a pass does to one client *)
  (* x0 = the record when the device half of the pass began, x = the record now; L, devs, store = as they are now.
     A command finished in this pass (Done): the tokens gained are informational lines, the final reply and the prompt;
     the final reply is the text computed from the command word, the -x flag, the command's result list and "fail > 0";
     its terminal code is term_code of those; every action enqueued for the command has completed (ok + fail = enq, enq > 0);
     and no queued action refers to the result list any more. *)
  Definition Done (L : ledger) (devs : list device) (store : list arglist) (x0 : dcli) (k0 : command) (new : list tok) : Prop :=
    exists infos infos_r p,
      new = infos ++ (infos_r ++ [TLine (term_code (k_com k0) (0 <? l_fail (L (cid x0))) (nth (k_args k0) store [])) p]) ++ [TPrompt] /\
      Forall info_tok infos /\ Forall info_tok infos_r /\
      plain_term (term_code (k_com k0) (0 <? l_fail (L (cid x0))) (nth (k_args k0) store [])) = true /\
      reply_text (k_com k0) (cl_exp (dc x0)) (nth (k_args k0) store []) (0 <? l_fail (L (cid x0))) =
        Ok (render (infos_r ++ [TLine (term_code (k_com k0) (0 <? l_fail (L (cid x0))) (nth (k_args k0) store [])) p])) /\
      l_ok (L (cid x0)) + l_fail (L (cid x0)) = l_enq (L (cid x0)) /\ 0 < l_enq (L (cid x0)) /\
      0 <= l_ok (L (cid x0)) /\ 0 <= l_fail (L (cid x0)) /\
      (forall c, ~ In (c, k_args k0) (aslots devs)).

  Definition CRel (L : ledger) (devs : list device) (store : list arglist) (x0 x : dcli) : Prop :=
    match cl_cmd (dc x0) with
    | None => x = x0
    | Some k0 =>
      cl_exp (dc x) = cl_exp (dc x0) /\
      exists new, cl_out (dc x) = cl_out (dc x0) ++ render new /\ (forall toks0, cli_okT x0 toks0 -> cli_okT x (toks0 ++ new)) /\
        match cl_cmd (dc x) with
        | Some k => Forall info_tok new /\ k_com k = k_com k0 /\ k_args k = k_args k0
        | None => Done L devs store x0 k0 new
        end
    end.

  Definition DevRel (S0 : list dcli) (L : ledger) (st : daemon) : Prop :=
    forall p x0, nth_error S0 p = Some x0 ->
      exists x, nth_error (dm_clients st) p = Some x /\ cid x = cid x0 /\ CRel L (dm_devs st) (dm_store st) x0 x.

  Lemma CRel_refl L devs store x : CRel L devs store x x.
  Proof.
    unfold CRel. destruct (cl_cmd (dc x)) as [k|] eqn:Ek; [|reflexivity]. split; [reflexivity|].
    exists []. cbn [render flat_map]. rewrite app_nil_r. split; [reflexivity|]. split; [intros toks0 H; now rewrite app_nil_r|].
    split; [constructor|split; reflexivity].
  Qed.

  Lemma CRel_ledger L L' devs store x0 x : L' (cid x0) = L (cid x0) -> CRel L devs store x0 x -> CRel L' devs store x0 x.
  Proof. unfold CRel, Done. intros E. rewrite E. auto. Qed.

  Lemma CRel_dev_step L devs store x0 x i d d' store' :
    nth_error devs i = Some d -> SlotRel d store d' store' ->
    CRel L devs store x0 x -> CRel L (upd_nth devs i (fun _ => d')) store' x0 x.
  Proof.
    intros En R. unfold CRel. destruct (cl_cmd (dc x0)) as [k0|]; [|auto].
    intros (Hexp & new & Ho & Ht & Hm). split; [exact Hexp|]. exists new. split; [exact Ho|]. split; [exact Ht|].
    destruct (cl_cmd (dc x)) as [k|]; [exact Hm|].
    destruct Hm as (infos & infos_r & p & H1 & H2 & H3 & H4 & H5 & H6 & H7 & H8 & H9 & H10).
    assert (Hs : nth (k_args k0) store' [] = nth (k_args k0) store []).
    { apply nth_of_nth_error. apply (sr_store _ _ _ _ R). intros c Hin. apply (H10 c). apply in_aslots. exists d. split; [eapply nth_error_In; exact En|exact Hin]. }
    exists infos, infos_r, p. rewrite Hs. repeat (split; [assumption|]).
    intros c Hin. apply (H10 c). exact (aslots_upd _ _ _ _ En (sr_incl _ _ _ _ R) _ Hin).
  Qed.

  (* a telemetry / diagnostic line for a client with a command in progress *)
  Lemma CRel_info L devs store x0 x code m c' :
    c' = emit (render [TLine code m]) (dc x) -> info_code code = true -> busy (dc x) = true ->
    CRel L devs store x0 x -> CRel L devs store x0 (set_dc c' x).
  Proof.
    intros -> Hc Hb. unfold CRel. unfold busy in Hb. destruct (cl_cmd (dc x0)) as [k0|] eqn:E0.
    2:{ intros ->. rewrite E0 in Hb. discriminate. }
    intros (Hexp & new & Ho & Ht & Hm). cbn [set_dc dc emit cl_exp cl_cmd cl_out]. split; [exact Hexp|].
    exists (new ++ [TLine code m]). split; [rewrite Ho, render_app, <- app_assoc; reflexivity|]. split.
    - intros toks0 H0. rewrite app_assoc. apply cli_okT_set_dc; [exact (Ht toks0 H0)|reflexivity| |reflexivity].
      assert (Hb' : busy (dc x) = true) by (unfold busy; destruct (cl_cmd (dc x)); [reflexivity|discriminate]).
      exact (proj1 (callback_toks_q (dc x) code m Hc Hb')).
    - destruct (cl_cmd (dc x)) as [k|]; [|discriminate]. destruct Hm as (A & B & C). split; [|split; assumption].
      apply Forall_app. split; [exact A|]. constructor; [exact Hc|constructor].
  Qed.

  (* ---------------------------------------------------------------- one callback *)
  Lemma led_complete_id L id err msg :
    l_enq (led_ev L (EvComplete id err msg) id) = l_enq (L id) /\
    (if Z.eqb err ACT_ESUCCESS
     then l_ok (led_ev L (EvComplete id err msg) id) = l_ok (L id) + 1 /\ l_fail (led_ev L (EvComplete id err msg) id) = l_fail (L id)
     else l_ok (led_ev L (EvComplete id err msg) id) = l_ok (L id) /\ l_fail (led_ev L (EvComplete id err msg) id) = l_fail (L id) + 1).
  Proof. cbn [led_ev]. rewrite lset_eq. destruct (Z.eqb err ACT_ESUCCESS); cbn; auto. Qed.

  Lemma led_complete_other L id err msg j : j <> id -> led_ev L (EvComplete id err msg) j = L j.
  Proof. intros H. cbn [led_ev]. now apply lset_neq. Qed.

  Lemma LInv_complete_led P L st id err msg : LInv (id :: P) L st ->
    (forall j, cnt j (P ++ qall (dm_devs st)) = bal (led_ev L (EvComplete id err msg) j)) /\
    (forall j, 0 <= l_ok (led_ev L (EvComplete id err msg) j) /\ 0 <= l_fail (led_ev L (EvComplete id err msg) j)).
  Proof.
    intros Li. split; intros j.
    - pose proof (li_cnt _ _ _ Li j) as H. cbn [app] in H. destruct (Z.eq_dec j id) as [->|Hne].
      + rewrite cnt_cons_eq in H. destruct (led_complete_id L id err msg) as (A & B). unfold bal in *.
        destruct (Z.eqb err ACT_ESUCCESS); destruct B as [B1 B2]; lia.
      + rewrite cnt_cons_neq in H by congruence. now rewrite led_complete_other.
    - pose proof (li_pos _ _ _ Li j) as H. destruct (Z.eq_dec j id) as [->|Hne].
      + pose proof (li_pos _ _ _ Li id) as H0. destruct (led_complete_id L id err msg) as (A & B).
        destruct (Z.eqb err ACT_ESUCCESS); destruct B as [B1 B2]; lia.
      + now rewrite led_complete_other.
  Qed.

  Lemma err_flag_led L id err msg b : 0 <= l_fail (L id) -> b = (0 <? l_fail (L id)) ->
    (b || negb (Z.eqb err ACT_ESUCCESS))%bool = (0 <? l_fail (led_ev L (EvComplete id err msg) id)).
  Proof.
    intros Hp ->. destruct (led_complete_id L id err msg) as (_ & B).
    destruct (Z.eqb err ACT_ESUCCESS); destruct B as [_ B2]; rewrite B2; cbn [negb].
    - now rewrite orb_false_r.
    - rewrite orb_true_r. symmetry. apply Z.ltb_lt. lia.
  Qed.

  Lemma route_e2e S0 st e P L :
    NoDup (ids st) -> CInv (completions [e] ++ P) (dm_devs st) (dm_clients st) -> live [e] (P ++ qall (dm_devs st)) ->
    Forall ArgsCb (dm_devs st) -> LInv (completions [e] ++ P) L st -> DevRel S0 L st ->
    exists st', route ranged_sorted st e = Ok st' /\ CInv P (dm_devs st') (dm_clients st') /\ ids st' = ids st /\
                dm_devs st' = dm_devs st /\ dm_store st' = dm_store st /\
                LInv P (led_ev L e) st' /\ DevRel S0 (led_ev L e) st'.
  Proof.
    intros Hnd Hc Hlive Hcb Li Dr.
    destruct (route_all_CInv expand_str ranged_sorted ranged_plain sorted rmatch short_circuit [e] P st Hnd Hc Hlive) as (st' & E & C' & A1 & A2 & _ & A4 & _ & _).
    cbn [route_all] in E. destruct (route ranged_sorted st e) as [st1| | | |] eqn:Er; try discriminate. injection E as <-.
    exists st1. split; [reflexivity|]. split; [exact C'|]. split; [exact A1|]. split; [exact A2|]. split; [exact A4|]. clear C' A1 A2 A4.
    assert (Hcl : forall p x, nth_error (dm_clients st) p = Some x -> cli_ok x /\ pend (dc x) = cnt (cid x) ((completions [e] ++ P) ++ qall (dm_devs st))).
    { intros p x Hx. unfold CInv in Hc. rewrite Forall_forall in Hc. apply Hc. eapply nth_error_In; exact Hx. }
    assert (Hother : forall p q x y, p <> q -> nth_error (dm_clients st) p = Some x -> nth_error (dm_clients st) q = Some y -> cid x <> cid y).
    { intros p q x y Hpq Hx Hy E0. apply Hpq. unfold ids in Hnd. apply (proj1 (NoDup_nth_error (map cid (dm_clients st))) Hnd).
      - rewrite map_length. apply nth_error_Some. congruence.
      - rewrite !nth_error_map, Hx, Hy. cbn. now rewrite E0. }
    unfold route in Er. destruct e as [b|b|n|id msg|id msg|id err msg|n| |];
      try (injection Er as <-; cbn [completions flat_map app led_ev] in *; split; assumption).
    - (* telemetry *)
      cbn [completions flat_map app led_ev] in *.
      destruct (find_cli (dm_clients st) id 0) as [[i x]|] eqn:Ef; [|injection Er as <-; split; assumption].
      destruct (find_cli_spec _ _ _ _ _ Ef) as (j & -> & Hn & Hcx). cbn [Nat.add] in *. injection Er as <-.
      destruct (Hcl j x Hn) as [Kx Px].
      assert (Bx : busy (dc x) = true).
      { apply pend_pos_cmd; [exact (proj1 Kx)|]. rewrite Px, Hcx. apply cnt_in. exact (Hlive [] _ [] id eq_refl eq_refl). }
      split.
      + eapply (LInv_upd P L st _ j x _); try reflexivity; [exact Hn|exact Li].
      + intros p x0 Hp. destruct (Dr p x0 Hp) as (y & Hy & Hcy & Ry). cbn [dm_clients dm_devs dm_store].
        destruct (Nat.eq_dec j p) as [<-|Hne].
        * rewrite Hn in Hy. injection Hy as <-. rewrite (nth_error_upd_nth_eq _ _ _ _ Hn). eexists. split; [reflexivity|]. split; [exact Hcy|].
          apply (CRel_info L _ _ x0 x 305%N msg); [unfold telemetry; now rewrite fmt_telemetry|reflexivity|exact Bx|exact Ry].
        * rewrite nth_error_upd_nth_ne by exact Hne. exists y. auto.
    - (* diagnostics *)
      cbn [completions flat_map app led_ev] in *.
      destruct (find_cli (dm_clients st) id 0) as [[i x]|] eqn:Ef; [|injection Er as <-; split; assumption].
      destruct (find_cli_spec _ _ _ _ _ Ef) as (j & -> & Hn & Hcx). cbn [Nat.add] in *. injection Er as <-.
      destruct (Hcl j x Hn) as [Kx Px].
      assert (Bx : busy (dc x) = true).
      { apply pend_pos_cmd; [exact (proj1 Kx)|]. rewrite Px, Hcx. apply cnt_in. exact (Hlive [] _ [] id eq_refl eq_refl). }
      split.
      + eapply (LInv_upd P L st _ j x _); try reflexivity; [exact Hn|exact Li].
      + intros p x0 Hp. destruct (Dr p x0 Hp) as (y & Hy & Hcy & Ry). cbn [dm_clients dm_devs dm_store].
        destruct (Nat.eq_dec j p) as [<-|Hne].
        * rewrite Hn in Hy. injection Hy as <-. rewrite (nth_error_upd_nth_eq _ _ _ _ Hn). eexists. split; [reflexivity|]. split; [exact Hcy|].
          apply (CRel_info L _ _ x0 x 309%N msg); [unfold diag; now rewrite fmt_diag|reflexivity|exact Bx|exact Ry].
        * rewrite nth_error_upd_nth_ne by exact Hne. exists y. auto.
    - (* completion *)
      cbn [completions flat_map app] in *.
      destruct (LInv_complete_led P L st id err msg Li) as [Lcnt Lpos].
      destruct (find_cli (dm_clients st) id 0) as [[i x]|] eqn:Ef.
      + (* delivered to the client at position j *)
        destruct (find_cli_spec _ _ _ _ _ Ef) as (j & -> & Hn & Hcx). cbn [Nat.add] in *.
        destruct (Hcl j x Hn) as [Kx Px]. pose proof (proj1 Kx) as Ix. rewrite Hcx in Px. rewrite cnt_cons_eq in Px.
        assert (Bx : busy (dc x) = true) by (apply pend_pos_cmd; [exact Ix|pose proof (cnt_nonneg id (P ++ qall (dm_devs st))); lia]).
        destruct (cl_cmd (dc x)) as [k|] eqn:Ek; [|unfold busy in Bx; rewrite Ek in Bx; discriminate].
        destruct (act_finish_e2e (dc x) (dm_store st) err msg k Ix Ek) as (c' & Ea & Hexp' & Hquit' & Hid' & Fd0 & Hcase).
        rewrite Ea in Er. injection Er as <-.
        pose proof (li_err _ _ _ Li j x k Hn Ek) as Herr. rewrite Hcx in Herr.
        pose proof (err_flag_led L id err msg (k_error k) (proj2 (li_pos _ _ _ Li id)) Herr) as Herr'.
        unfold pend in Px. rewrite Ek in Px.
        split.
        * (* the ledger invariant *)
          constructor; cbn [dm_devs dm_clients].
          -- exact Lcnt.
          -- exact Lpos.
          -- intros p z k1 Hz Hzk. destruct (Nat.eq_dec j p) as [<-|Hne].
             ++ rewrite (nth_error_upd_nth_eq _ _ _ _ Hn) in Hz. injection Hz as <-. unfold cid. cbn [set_dc dc]. rewrite Hid'. fold (cid x). rewrite Hcx.
                cbn [set_dc dc] in Hzk. destruct Hcase as [(_ & Hcmd' & _)|(_ & Hcmd' & _)]; rewrite Hcmd' in Hzk; [|discriminate].
                injection Hzk as <-. cbn [k_error]. exact Herr'.
             ++ rewrite nth_error_upd_nth_ne in Hz by exact Hne. rewrite led_complete_other; [exact (li_err _ _ _ Li p z k1 Hz Hzk)|].
                rewrite <- Hcx. apply (Hother p j z x); [congruence|exact Hz|exact Hn].
          -- intros c s p z Hin Hz Hs. destruct (Nat.eq_dec j p) as [<-|Hne].
             ++ rewrite (nth_error_upd_nth_eq _ _ _ _ Hn) in Hz. injection Hz as <-. unfold cid. cbn [set_dc dc]. rewrite Hid'. fold (cid x).
                apply (li_own _ _ _ Li c s j x Hin Hn). unfold cmd_slot in *. cbn [set_dc dc] in Hs. rewrite Ek.
                destruct Hcase as [(_ & Hcmd' & _)|(_ & Hcmd' & _)]; rewrite Hcmd' in Hs; [exact Hs|discriminate].
             ++ rewrite nth_error_upd_nth_ne in Hz by exact Hne. exact (li_own _ _ _ Li c s p z Hin Hz Hs).
        * (* the clients relative to the beginning of the device half *)
          intros p x0 Hp. destruct (Dr p x0 Hp) as (y & Hy & Hcy & Ry). cbn [dm_clients dm_devs dm_store].
          destruct (Nat.eq_dec j p) as [<-|Hne].
          2:{ rewrite nth_error_upd_nth_ne by exact Hne. exists y. split; [exact Hy|]. split; [exact Hcy|].
              apply (CRel_ledger L); [|exact Ry]. apply led_complete_other. rewrite <- Hcy, <- Hcx. apply (Hother p j y x); [congruence|exact Hy|exact Hn]. }
          rewrite Hn in Hy. injection Hy as <-. rewrite (nth_error_upd_nth_eq _ _ _ _ Hn). eexists. split; [reflexivity|].
          split; [unfold cid; cbn [set_dc dc]; rewrite Hid'; exact Hcy|].
          assert (Hid0 : cid x0 = id) by congruence.
          unfold CRel in Ry |- *. destruct (cl_cmd (dc x0)) as [k0|] eqn:E0; [|subst x0; congruence].
          destruct Ry as (Hexp & new & Ho & Ht & Hm). rewrite Ek in Hm. destruct Hm as (Fn & Hcom & Hargs).
          cbn [set_dc dc]. split; [congruence|].
          destruct Hcase as [(Hnz & Hcmd' & Hout' & Hrun')|(Hz & Hcmd' & infos_r & pl & Hrt & Fi & Tc & Hout' & Hrun')].
          -- exists (new ++ (if Z.eqb err ACT_ESUCCESS then [] else [TLine 308 msg])).
             split; [rewrite Hout', Ho, (render_app new), <- app_assoc; reflexivity|]. split.
             ++ intros toks0 H0. rewrite app_assoc. apply cli_okT_set_dc; [exact (Ht toks0 H0)|exact Hout'|exact Hrun'|exact Hquit'].
             ++ rewrite Hcmd'. cbn [k_com k_args]. split; [apply Forall_app; split; assumption|split; assumption].
          -- rewrite Herr', Hcom, Hargs, Hexp in *.
             exists (new ++ (if Z.eqb err ACT_ESUCCESS then [] else [TLine 308 msg]) ++
                     (infos_r ++ [TLine (term_code (k_com k0) (0 <? l_fail (led_ev L (EvComplete id err msg) id)) (nth (k_args k0) (dm_store st) [])) pl]) ++ [TPrompt]).
             split; [rewrite Hout', Ho, (render_app new), <- app_assoc; reflexivity|]. split.
             ++ intros toks0 H0. rewrite app_assoc. apply cli_okT_set_dc; [exact (Ht toks0 H0)|exact Hout'|exact Hrun'|exact Hquit'].
             ++ rewrite Hcmd'. unfold Done. rewrite Hid0.
                exists (new ++ (if Z.eqb err ACT_ESUCCESS then [] else [TLine 308 msg])), infos_r, pl.
                split; [apply app_assoc|]. split; [apply Forall_app; split; assumption|]. split; [exact Fi|]. split; [exact Tc|]. split; [exact Hrt|].
                pose proof (Lcnt id) as Hb. pose proof (Lpos id) as Hps. pose proof (li_pos _ _ _ Li id) as Hps0.
                destruct (led_complete_id L id err msg) as (Q1 & Q2).
                assert (Hz0 : cnt id (P ++ qall (dm_devs st)) = 0) by lia.
                unfold bal in Hb. split; [lia|]. split; [destruct (Z.eqb err ACT_ESUCCESS); destruct Q2; lia|]. split; [lia|]. split; [lia|].
                intros c Hin.
                assert (Hc0 : cid x = c) by (apply (li_own _ _ _ Li c (k_args k0) j x Hin Hn); unfold cmd_slot; rewrite Ek, Hargs; reflexivity).
                pose proof (aslots_queued _ _ _ Hcb Hin) as Hq. rewrite <- Hc0, Hcx in Hq.
                pose proof (cnt_in id (qall (dm_devs st)) Hq). rewrite cnt_app in Hz0. pose proof (cnt_nonneg id P). lia.
      + (* the client is gone: the completion is dropped; no record carries this id *)
        injection Er as <-. pose proof (find_cli_none _ _ _ Ef) as Hno.
        assert (Hne : forall p z, nth_error (dm_clients st) p = Some z -> cid z <> id).
        { intros p z Hz E0. apply Hno. rewrite <- E0. apply (in_map cid). eapply nth_error_In; exact Hz. }
        split.
        * constructor.
          -- exact Lcnt.
          -- exact Lpos.
          -- intros p z k1 Hz Hzk. rewrite led_complete_other by exact (Hne p z Hz). exact (li_err _ _ _ Li p z k1 Hz Hzk).
          -- exact (li_own _ _ _ Li).
        * intros p x0 Hp. destruct (Dr p x0 Hp) as (y & Hy & Hcy & Ry). exists y. split; [exact Hy|]. split; [exact Hcy|].
          apply (CRel_ledger L); [|exact Ry]. apply led_complete_other. rewrite <- Hcy. exact (Hne p y Hy).
  Qed.

  (* the callbacks of one device, in order *)
  Lemma route_all_e2e S0 : forall evs P st L,
    NoDup (ids st) -> CInv (completions evs ++ P) (dm_devs st) (dm_clients st) -> live evs (P ++ qall (dm_devs st)) ->
    Forall ArgsCb (dm_devs st) -> LInv (completions evs ++ P) L st -> DevRel S0 L st ->
    exists st', route_all ranged_sorted st evs = Ok st' /\ CInv P (dm_devs st') (dm_clients st') /\ ids st' = ids st /\
                dm_devs st' = dm_devs st /\ dm_store st' = dm_store st /\
                LInv P (led_evs L evs) st' /\ DevRel S0 (led_evs L evs) st'.
  Proof.
    induction evs as [|e r IH]; intros P st L Hnd Hc Hlive Hcb Li Dr.
    - exists st. cbn [completions flat_map app led_evs fold_left route_all] in *.
      split; [reflexivity|]. split; [exact Hc|]. split; [reflexivity|]. split; [reflexivity|]. split; [reflexivity|]. split; [exact Li|exact Dr].
    - assert (Eapp : completions (e :: r) ++ P = completions [e] ++ (completions r ++ P)).
      { change (e :: r) with ([e] ++ r). now rewrite completions_app, <- app_assoc. }
      rewrite Eapp in Hc, Li.
      assert (Hl1 : live [e] ((completions r ++ P) ++ qall (dm_devs st))).
      { intros e1 e0 e2 c E Hcc. destruct e1 as [|a e1]; [|destruct e1; discriminate E]. cbn [app] in E. injection E as <- <-.
        cbn [completions flat_map app]. rewrite <- app_assoc. exact (Hlive [] e r c eq_refl Hcc). }
      destruct (route_e2e S0 st e (completions r ++ P) L Hnd Hc Hl1 Hcb Li Dr) as (st1 & E1 & C1 & A1 & A2 & A4 & L1 & D1).
      cbn [route_all]. rewrite E1.
      assert (Hnd1 : NoDup (ids st1)) by (rewrite A1; exact Hnd).
      assert (Hlive1 : live r (P ++ qall (dm_devs st1))) by (rewrite A2; exact (live_tail _ _ _ Hlive)).
      assert (Hcb1 : Forall ArgsCb (dm_devs st1)) by (rewrite A2; exact Hcb).
      destruct (IH P st1 (led_ev L e) Hnd1 C1 Hlive1 Hcb1 L1 D1) as (st' & E' & C' & B1 & B2 & B4 & L' & D').
      exists st'. split; [exact E'|]. split; [exact C'|]. split; [congruence|]. split; [congruence|]. split; [congruence|]. split; [exact L'|exact D'].
  Qed.

  (* ---------------------------------------------------------------- the device half of a pass *)
  Lemma dl_e2e S0 n : forall now st i pins tmo acc L, DPInv st -> tmo_pos tmo -> LInv [] L st -> DevRel S0 L st ->
    match dev_loop n now st i pins tmo acc with
    | Ok (st', tmo', evs) => exists new, evs = acc ++ new /\ DPInv st' /\ LInv [] (led_sys L new) st' /\ DevRel S0 (led_sys L new) st' /\
                                         length (dm_store st') = length (dm_store st)
    | _ => False
    end.
  Proof.
    induction n as [|n IH]; intros now st i pins tmo acc L I Hp Li Dr.
    - cbn [Daemon.dev_loop]. exists []. rewrite app_nil_r. split; [reflexivity|]. split; [exact I|]. split; [assumption|]. split; [assumption|reflexivity].
    - pose proof (dev_loop_inv expand_str ranged_sorted ranged_plain sorted rmatch compress short_circuit 1 now st i pins tmo acc I Hp) as H1.
      cbn [Daemon.dev_loop] in H1 |- *.
      destruct (nth_error (dm_devs st) i) as [d|] eqn:En;
        [|exists []; rewrite app_nil_r; split; [reflexivity|]; split; [exact I|]; split; [assumption|]; split; [assumption|reflexivity]].
      destruct (with_pre (nth i (dm_pipe st) true) (nth i (dm_tel st) Telnet.telnet_init) (hd passin0 pins)) as [pin t1].
      assert (HdH : DInvH compress d) by (pose proof (dp_devs _ _ I) as H; rewrite Forall_forall in H; apply H; eapply nth_error_In; exact En).
      pose proof (dh_inv _ _ HdH) as Hd. pose proof (dh_rc _ _ HdH) as Hrc.
      destruct (post_poll_one_invH rmatch compress short_circuit now d (dm_store st) tmo pin HdH Hp) as (d' & store' & tmo' & evs & EP & Hd' & SP & TK).
      assert (Hcbd : ArgsCb d) by (pose proof (si_cb _ (dp_slots _ _ I)) as H; rewrite Forall_forall in H; apply H; eapply nth_error_In; exact En).
      pose proof (post_poll_one_slots rmatch compress short_circuit now d (dm_store st) tmo pin Hd Hcbd Hp Hrc) as HS.
      rewrite EP in HS, H1 |- *.
      match goal with |- context [route_all ranged_sorted ?s evs] => set (st1 := s) in * end.
      assert (Hnd1 : NoDup (ids st1)) by exact (dp_nodup _ _ I).
      assert (Hc1 : CInv (completions evs ++ []) (dm_devs st1) (dm_clients st1)).
      { rewrite app_nil_r. unfold st1. cbn [dm_devs dm_clients]. eapply CInv_after_pass; [exact En|exact (tg_fifo _ _ _ _ _ _ _ _ _ SP)|exact (dp_cinv _ _ I)]. }
      assert (Hl1 : live evs ([] ++ qall (dm_devs st1))).
      { cbn [app]. unfold st1. cbn [dm_devs]. eapply live_mono; [eapply qall_upd_has; exact En|exact (tg_live _ _ _ _ _ _ _ _ _ SP)]. }
      assert (Hcb1 : Forall ArgsCb (dm_devs st1)).
      { unfold st1. cbn [dm_devs]. apply Forall_upd_nth; [exact (si_cb _ (dp_slots _ _ I))|exact (sr_cb _ _ _ _ HS)]. }
      assert (Li1 : LInv (completions evs ++ []) L st1).
      { rewrite app_nil_r. constructor; unfold st1; cbn [dm_devs dm_clients].
        - intros id. rewrite cnt_app. pose proof (qall_upd id (dm_devs st) i d d' En) as Hq.
          rewrite <- (tg_fifo _ _ _ _ _ _ _ _ _ SP), cnt_app in Hq. pose proof (li_cnt _ _ _ Li id) as Hb. cbn [app] in Hb. lia.
        - exact (li_pos _ _ _ Li).
        - exact (li_err _ _ _ Li).
        - intros c s p x Hin. apply (li_own _ _ _ Li c s p x). exact (aslots_upd _ _ _ _ En (sr_incl _ _ _ _ HS) _ Hin). }
      assert (Dr1 : DevRel S0 L st1).
      { intros p x0 Hx0. destruct (Dr p x0 Hx0) as (x & Hx & Hcx & Rx). exists x. split; [exact Hx|]. split; [exact Hcx|].
        unfold st1. cbn [dm_devs dm_store]. exact (CRel_dev_step L _ _ x0 x i d d' store' En HS Rx). }
      destruct (route_all_e2e S0 evs [] st1 L Hnd1 Hc1 Hl1 Hcb1 Li1 Dr1) as (st2 & E2 & _ & _ & _ & A4 & L2 & D2).
      rewrite E2 in H1 |- *. destruct H1 as (I2 & T2 & _).
      specialize (IH now st2 (S i) (tl pins) tmo' (acc ++ map (SysDev i) evs) (led_evs L evs) I2 T2 L2 D2).
      destruct (dev_loop n now st2 (S i) (tl pins) tmo' (acc ++ map (SysDev i) evs)) as [[[st3 tmo3] evs3]| | | |]; try contradiction.
      destruct IH as (new2 & -> & I3 & L3 & D3 & N3). exists (map (SysDev i) evs ++ new2). split; [now rewrite app_assoc|].
      rewrite led_sys_app, led_sys_map. split; [exact I3|]. split; [assumption|]. split; [assumption|].
      rewrite N3, A4. unfold st1. cbn [dm_store]. exact (sr_len _ _ _ _ HS).
  Qed.

  (* the client half emits no device event *)
  Lemma cli_loop_nodev : forall cins st i acc st' evs, cli_loop st i cins acc = Ok (st', evs) -> forall L, led_sys L evs = led_sys L acc.
  Proof.
    induction cins as [|ci r IH]; intros st i acc st' evs; cbn [Daemon.cli_loop]; [intros H; inversion H; reflexivity|].
    destruct (cli_one st i ci) as [[[st1 evs1] dead]| | | |] eqn:E1; try discriminate.
    assert (H1 : forall L, led_sys L evs1 = L).
    { intros L. destruct (nth_error (dm_clients st) i) as [x|] eqn:En.
      - destruct (cli_one_events _ _ _ _ _ _ _ _ _ _ x E1 En) as [->|(w & ->)]; reflexivity.
      - unfold Daemon.cli_one in E1. rewrite En in E1. inversion E1; reflexivity. }
    destruct dead; intros H L; rewrite (IH _ _ _ _ _ H L), !led_sys_app, H1; reflexivity.
  Qed.
  Lemma cli_post_poll_nodev st r st' evs : cli_post_poll st r = Ok (st', evs) -> forall L, led_sys L evs = L.
  Proof.
    rewrite cli_post_poll_eq. intros H L. rewrite (cli_loop_nodev _ _ _ _ _ _ H L). destruct (r_accept r); reflexivity.
  Qed.

  (* ---------------------------------------------------------------- one pass, and any run *)
  Definition EInv (L : ledger) (st : daemon) : Prop := DPInv st /\ NL st /\ LInv [] L st.

  Lemma DevRel_init L st : DevRel (dm_clients st) L st.
  Proof. intros p x0 Hp. exists x0. split; [exact Hp|]. split; [reflexivity|apply CRel_refl]. Qed.

  Theorem pass_e2e st r L : EInv L st -> 1 <= dm_seq st < INT_MAX ->
    exists sta e1 stb tmo e2,
      cli_post_poll st r = Ok (sta, e1) /\
      dev_loop (length (dm_devs sta)) (r_now r) sta O (r_dev r) None [] = Ok (stb, tmo, e2) /\
      dstep st r = Ok (stb, mkDout (e1 ++ e2) tmo) /\
      dstep_led st r L = led_sys (cpp_led st r L) e2 /\
      LInv [] (cpp_led st r L) sta /\ DPInv sta /\
      EInv (dstep_led st r L) stb /\
      dm_seq st <= dm_seq stb <= dm_seq st + 1 /\
      DevRel (dm_clients sta) (dstep_led st r L) stb /\ length (dm_store stb) = length (dm_store sta).
  Proof.
    intros (I & Hnl & Li) Hseq.
    destruct (cpp_e2e st r L I Hnl Hseq Li) as (sta & e1 & Ea & Ia & Na & La & Da & Sa).
    assert (Hn : tmo_pos None) by (intros x Hx; discriminate).
    pose proof (dl_e2e (dm_clients sta) (length (dm_devs sta)) (r_now r) sta 0%nat (r_dev r) None [] _ Ia Hn La (DevRel_init _ sta)) as Hd.
    pose proof (dev_loop_inv expand_str ranged_sorted ranged_plain sorted rmatch compress short_circuit (length (dm_devs sta)) (r_now r) sta 0%nat (r_dev r) None [] Ia Hn) as Hd0.
    destruct (dev_loop (length (dm_devs sta)) (r_now r) sta 0 (r_dev r) None []) as [[[stb tmo] e2]| | | |] eqn:Eb; try contradiction.
    destruct Hd as (new & En & Ib & Lb & Db & Nb). cbn [app] in En. subst new.
    destruct Hd0 as (_ & _ & _ & Sb & _).
    assert (Es : dstep st r = Ok (stb, mkDout (e1 ++ e2) tmo)) by (unfold Daemon.dstep; rewrite Ea, Eb; reflexivity).
    assert (El : dstep_led st r L = led_sys (cpp_led st r L) e2).
    { unfold dstep_led. rewrite Es. cbn [do_evs]. rewrite led_sys_app, (cli_post_poll_nodev _ _ _ _ Ea). reflexivity. }
    exists sta, e1, stb, tmo, e2. split; [exact Ea|]. split; [exact Eb|]. split; [exact Es|]. split; [exact El|]. split; [exact La|]. split; [exact Ia|].
    rewrite El. split; [|split; [lia|split; [exact Db|exact Nb]]].
    split; [exact Ib|]. split; [|exact Lb]. exact (dev_loop_nl ranged_sorted rmatch compress short_circuit _ _ _ _ _ _ _ _ _ _ Na Eb).
  Qed.

  Theorem drun_e2e : forall rs st L acc, EInv L st -> 1 <= dm_seq st -> dm_seq st + Z.of_nat (length rs) <= INT_MAX ->
    match drun st rs acc with
    | Ok (st', _) => EInv (drun_led st rs L) st' /\ dm_seq st <= dm_seq st' <= dm_seq st + Z.of_nat (length rs)
    | _ => False
    end.
  Proof.
    induction rs as [|r rs IH]; intros st L acc E H1 Hn; cbn [Daemon.drun drun_led].
    - split; [exact E|]. cbn [length]. lia.
    - cbn [length] in Hn.
      destruct (pass_e2e st r L E ltac:(lia)) as (sta & e1 & stb & tmo & e2 & _ & _ & Es & _ & _ & _ & Eb & Sb & _ & _).
      rewrite Es. specialize (IH stb (dstep_led st r L) (acc ++ [mkDout (e1 ++ e2) tmo]) Eb ltac:(lia) ltac:(lia)).
      destruct (drun stb rs (acc ++ [mkDout (e1 ++ e2) tmo])) as [[st' outs]| | | |]; try contradiction.
      destruct IH as (E' & S'). split; [exact E'|]. cbn [length]. lia.
  Qed.

  Lemma boot_e2e st now plans : boot compress st ->
    exists st1 o, dinit st now plans = Ok (st1, o) /\ EInv lzero st1 /\ dm_seq st1 = 1.
  Proof.
    intros Hb. destruct (dinit_inv compress st now plans Hb) as (st1 & o & E & I1 & S1 & _ & C1 & _).
    exists st1, o. split; [exact E|]. split; [|exact S1]. split; [exact I1|]. split.
    - intros p x Hx. rewrite C1 in Hx. destruct p; discriminate Hx.
    - constructor.
      + intros id. cbn [app lzero bal l_enq l_ok l_fail]. apply cnt_notin. intros Hin.
        pose proof (dp_qseq _ _ I1) as Hq. rewrite Forall_forall in Hq. specialize (Hq id (in_or_app _ _ _ (or_introl Hin))). lia.
      + intros id. cbn. lia.
      + intros p x k Hx. rewrite C1 in Hx. destruct p; discriminate Hx.
      + intros c s p x _ Hx. rewrite C1 in Hx. destruct p; discriminate Hx.
  Qed.

  (* ---------------------------------------------------------------- the write ledger of the result lists (C03) *)
  (* A second external ghost, indexed by the SLOT of a result list (slots are handed out once, in order, one per command):
     W s = the nodes whose Arg in list s was changed by the device half of some pass, computed ONLY from the stores a pass
     makes visible (the store the client half returns and the store the pass returns).  A list that does not exist yet
     has no entry, so W s only holds changes made after the command that owns s was created. *)
  Definition fresh_arg (a : arg) : Prop := ar_state a = ST_UNKNOWN /\ ar_result a = RT_NONE /\ ar_val a = None.
  Definition otext_eqb (a b : option text) : bool :=
    match a, b with Some x, Some y => text_eqb x y | None, None => true | _, _ => false end.
  Definition arg_eqb (a b : arg) : bool :=
    text_eqb (ar_node a) (ar_node b) && Z.eqb (ar_state a) (ar_state b) && Z.eqb (ar_result a) (ar_result b) && otext_eqb (ar_val a) (ar_val b).
  Definition oarg_eqb (a b : option arg) : bool :=
    match a, b with Some x, Some y => arg_eqb x y | None, None => true | _, _ => false end.
  Lemma oarg_eqb_eq a b : oarg_eqb a b = true -> a = b.
  Proof.
    destruct a as [[n1 s1 r1 v1]|], b as [[n2 s2 r2 v2]|]; cbn; try discriminate; [|reflexivity].
    unfold arg_eqb. cbn. intros H. apply andb_true_iff in H as [H Hv]. apply andb_true_iff in H as [H Hr]. apply andb_true_iff in H as [Hn Hs].
    apply text_eqb_eq in Hn. apply Z.eqb_eq in Hs, Hr. subst.
    destruct v1, v2; cbn in Hv; try discriminate; [apply text_eqb_eq in Hv; subst|]; reflexivity.
  Qed.
  (* the nodes of the new list whose Arg differs from the old list's *)
  Definition changed (al al' : arglist) : list text :=
    filter (fun n => negb (oarg_eqb (arg_find al n) (arg_find al' n))) (map ar_node al').
  Definition wledger : Type := nat -> list text.
  Definition wzero : wledger := fun _ => [].
  (* lists that exist when the run starts (none in the real daemon: the store is empty at start-up) are not tracked:
     all their nodes count as written *)
  Definition winit (store : list arglist) : wledger := fun s => map ar_node (nth s store []).
  Definition wr_step (W : wledger) (store store' : list arglist) : wledger :=
    fun s => W s ++ changed (nth s store []) (nth s store' []).
  Definition dstep_wr (st : daemon) (r : round) (W : wledger) : wledger :=
    match cli_post_poll st r with
    | Ok (sta, _) => match dstep st r with Ok (stb, _) => wr_step W (dm_store sta) (dm_store stb) | _ => W end
    | _ => W
    end.
  Fixpoint drun_wr (st : daemon) (rs : list round) (W : wledger) : wledger :=
    match rs with
    | [] => W
    | r :: rest => match dstep st r with Ok (st1, _) => drun_wr st1 rest (dstep_wr st r W) | _ => W end
    end.

  (* every Arg of every list is as arglist_create left it, or its node is in the write ledger of that list;
     lists that do not exist yet have an empty entry *)
  Definition WInv (W : wledger) (store : list arglist) : Prop :=
    (forall s n a, arg_find (nth s store []) n = Some a -> fresh_arg a \/ In n (W s)) /\
    (forall s, (length store <= s)%nat -> W s = []).

  Lemma WInv_init store : WInv (winit store) store.
  Proof.
    split.
    - intros s n a Ha. right. unfold winit. rewrite <- (ClientReply.arg_find_node _ _ _ Ha). apply in_map. exact (arg_find_In _ _ _ Ha).
    - intros s Hs. unfold winit. now rewrite (nth_overflow store [] Hs).
  Qed.

  Lemma WInv_step W store store' : (length store <= length store')%nat -> WInv W store -> WInv (wr_step W store store') store'.
  Proof.
    intros Hl [F Z0]. split.
    - intros s n a' Ha. unfold wr_step. destruct (oarg_eqb (arg_find (nth s store []) n) (arg_find (nth s store' []) n)) eqn:E.
      + apply oarg_eqb_eq in E. rewrite Ha in E. destruct (F s n a' E) as [Hf|Hw]; [now left|right; apply in_or_app; now left].
      + right. apply in_or_app. right. unfold changed. apply filter_In. split; [|now rewrite E].
        rewrite <- (ClientReply.arg_find_node _ _ _ Ha). apply in_map. exact (arg_find_In _ _ _ Ha).
    - intros s Hs. unfold wr_step. rewrite (Z0 s) by lia. rewrite (nth_overflow store' [] Hs). reflexivity.
  Qed.

  (* the client half only appends lists as arglist_create makes them *)
  Definition grows (store store' : list arglist) : Prop :=
    exists news, store' = store ++ news /\ Forall (fun al => exists tg, al = new_arglist tg) news.
  Lemma grows_refl store : grows store store.
  Proof. exists []. split; [now rewrite app_nil_r|constructor]. Qed.
  Lemma grows_trans a b c : grows a b -> grows b c -> grows a c.
  Proof. intros (n1 & -> & F1) (n2 & -> & F2). exists (n1 ++ n2). split; [now rewrite app_assoc|apply Forall_app; split; assumption]. Qed.

  Lemma WInv_grows W store store' : grows store store' -> WInv W store -> WInv W store'.
  Proof.
    intros (news & -> & Fn) [F Z0]. split.
    - intros s n a Ha. destruct (Nat.lt_ge_cases s (length store)) as [Hlt|Hge].
      + rewrite app_nth1 in Ha by exact Hlt. exact (F s n a Ha).
      + rewrite app_nth2 in Ha by exact Hge. left.
        destruct (nth_in_or_default (s - length store) news []) as [Hin|E]; [|rewrite E in Ha; discriminate Ha].
        rewrite Forall_forall in Fn. destruct (Fn _ Hin) as (tg & Etg). rewrite Etg in Ha.
        pose proof (new_arglist_fresh tg) as Hf. rewrite Forall_forall in Hf. exact (Hf a (arg_find_In _ _ _ Ha)).
    - intros s Hs. apply Z0. rewrite app_length in Hs. lia.
  Qed.

  Lemma handle_input_grows fuel : forall st i acc st' evs, handle_input fuel st i acc = Ok (st', evs) -> grows (dm_store st) (dm_store st').
  Proof.
    induction fuel as [|f IH]; intros st i acc st' evs; cbn [Daemon.handle_input]; [intros H; inversion H; apply grows_refl|].
    destruct (nth_error (dm_clients st) i) as [x|] eqn:En; [|intros H; inversion H; apply grows_refl].
    destruct (take_line [] (dc_from x)) as [[line rest]|]; [|intros H; inversion H; apply grows_refl].
    destruct (parse (cconf_of st) (dm_store st) (dc x) line) as [[[cf' store'] c'] q] eqn:Ep.
    assert (Hg : grows (dm_store st) store').
    { destruct (cl_cmd (dc x)) as [k|] eqn:Ek.
      - rewrite (parse_busy_store _ _ _ _ _ _ _ _ _ _ _ _ k Ek Ep). apply grows_refl.
      - destruct (parse_idle expand_str ranged_sorted ranged_plain sorted _ _ _ _ _ _ _ _ Ek Ep) as [(_ & _ & -> & _)|(k & al & _ & -> & _ & _ & _ & -> & _)]; [apply grows_refl|].
        exists [new_arglist (k_targets k)]. split; [reflexivity|]. constructor; [eexists; reflexivity|constructor]. }
    match goal with |- match ?e with _ => _ end = _ -> _ => destruct e as [devs'| | | |]; try discriminate end.
    intros H. apply IH in H. cbn [dm_store] in H. eapply grows_trans; eassumption.
  Qed.
  Lemma cli_one_grows st i ci st' evs dead : cli_one st i ci = Ok (st', evs, dead) -> grows (dm_store st) (dm_store st').
  Proof.
    rewrite cli_one_eq. destruct (nth_error (dm_clients st) i) as [x|]; [|intros H; inversion H; apply grows_refl].
    destruct (ci_bad ci); [intros H; inversion H; apply grows_refl|]. cbv zeta.
    match goal with |- match ?e with _ => _ end = _ -> _ => destruct e as [[st2 evs2]| | | |] eqn:Eh; try discriminate end.
    intros H; inversion H; subst. exact (handle_input_grows _ _ _ _ _ _ Eh).
  Qed.
  Lemma cli_loop_grows : forall cins st i acc st' evs, cli_loop st i cins acc = Ok (st', evs) -> grows (dm_store st) (dm_store st').
  Proof.
    induction cins as [|ci r IH]; intros st i acc st' evs; cbn [Daemon.cli_loop]; [intros H; inversion H; apply grows_refl|].
    destruct (cli_one st i ci) as [[[st1 evs1] dead]| | | |] eqn:E1; try discriminate.
    apply cli_one_grows in E1. destruct dead; intros H; apply IH in H; eapply grows_trans; eassumption.
  Qed.
  Lemma cli_post_poll_grows st r st' evs : cli_post_poll st r = Ok (st', evs) -> grows (dm_store st) (dm_store st').
  Proof.
    rewrite cli_post_poll_eq. intros H. apply cli_loop_grows in H. unfold accept_state in H.
    destruct (r_accept r); [destruct (next_id (dm_seq st))|]; exact H.
  Qed.

  Lemma pass_wr st r L W : EInv L st -> 1 <= dm_seq st < INT_MAX -> WInv W (dm_store st) ->
    match cli_post_poll st r with
    | Ok (sta, _) => WInv W (dm_store sta) /\
                     match dstep st r with Ok (stb, _) => WInv (dstep_wr st r W) (dm_store stb) | _ => False end
    | _ => False
    end.
  Proof.
    intros E Hseq Hw.
    destruct (pass_e2e st r L E Hseq) as (sta & e1 & stb & tmo & e2 & Ea & _ & Es & _ & _ & _ & _ & _ & _ & Nb).
    unfold dstep_wr. rewrite Ea, Es. pose proof (WInv_grows W _ _ (cli_post_poll_grows _ _ _ _ Ea) Hw) as Ha.
    split; [exact Ha|]. apply WInv_step; [lia|exact Ha].
  Qed.

  Lemma drun_wr_inv : forall rs st L W acc, EInv L st -> 1 <= dm_seq st -> dm_seq st + Z.of_nat (length rs) <= INT_MAX -> WInv W (dm_store st) ->
    match drun st rs acc with
    | Ok (st', _) => WInv (drun_wr st rs W) (dm_store st')
    | _ => False
    end.
  Proof.
    induction rs as [|r rs IH]; intros st L W acc E H1 Hn Hw; cbn [Daemon.drun drun_wr]; [exact Hw|].
    cbn [length] in Hn.
    pose proof (pass_wr st r L W E ltac:(lia) Hw) as Hp.
    destruct (pass_e2e st r L E ltac:(lia)) as (sta & e1 & stb & tmo & e2 & Ea & _ & Es & _ & _ & _ & Eb & Sb & _ & _).
    rewrite Ea, Es in Hp. rewrite Es. destruct Hp as [_ Hb].
    exact (IH stb (dstep_led st r L) (dstep_wr st r W) (acc ++ [mkDout (e1 ++ e2) tmo]) Eb ltac:(lia) ltac:(lia) Hb).
  Qed.

  (* ---------------------------------------------------------------- the closed statements (quoted by Properties/C02.v, C03.v) *)
  (* the ledger tied to the state: conservation for every id; for a client with a command the pending counter and the error
     flag; for an idle client everything that was enqueued for it has completed *)
  Definition ledger_tied (L : ledger) (st : daemon) : Prop :=
    (forall id, cnt id (qall (dm_devs st)) = l_enq (L id) - l_ok (L id) - l_fail (L id) /\ 0 <= l_ok (L id) /\ 0 <= l_fail (L id)) /\
    (forall x k, In x (dm_clients st) -> cl_cmd (dc x) = Some k ->
       k_pending k = l_enq (L (cid x)) - l_ok (L (cid x)) - l_fail (L (cid x)) /\
       k_error k = (0 <? l_fail (L (cid x))) /\
       l_ok (L (cid x)) + l_fail (L (cid x)) < l_enq (L (cid x))) /\
    (forall x, In x (dm_clients st) -> cl_cmd (dc x) = None -> l_ok (L (cid x)) + l_fail (L (cid x)) = l_enq (L (cid x))).

  Lemma EInv_tied L st : EInv L st -> ledger_tied L st.
  Proof.
    intros (I & _ & Li). split; [|split].
    - intros id. pose proof (li_cnt _ _ _ Li id) as H. cbn [app] in H. unfold bal in H. pose proof (li_pos _ _ _ Li id). tauto.
    - intros x k Hx Hk. pose proof (dp_cinv _ _ I) as Hc. unfold CInv in Hc. rewrite Forall_forall in Hc. destruct (Hc x Hx) as [Kx Px].
      cbn [app] in Px. pose proof (li_cnt _ _ _ Li (cid x)) as H. cbn [app] in H. unfold bal in H. unfold pend in Px. rewrite Hk in Px.
      apply In_nth_error in Hx as (p & Hp). split; [lia|]. split; [exact (li_err _ _ _ Li p x k Hp Hk)|].
      destruct Kx as [Ix _]. unfold cmd_inv in Ix. rewrite Hk in Ix. lia.
    - intros x Hx Hk. pose proof (dp_cinv _ _ I) as Hc. unfold CInv in Hc. rewrite Forall_forall in Hc. destruct (Hc x Hx) as [Kx Px].
      cbn [app] in Px. pose proof (li_cnt _ _ _ Li (cid x)) as H. cbn [app] in H. unfold bal in H. unfold pend in Px. rewrite Hk in Px. lia.
  Qed.

  Lemma existsb_forallb_neg {A} (f : A -> bool) l : existsb f l = negb (forallb (fun a => negb (f a)) l).
  Proof. induction l as [|a r IH]; cbn [existsb forallb]; [reflexivity|]. rewrite IH. destruct (f a); reflexivity. Qed.

  (* the terminal token of a POWER command, as the ledger and the command's result list decide it *)
  Definition power_done (r : lrec) (al : arglist) (new : list tok) : Prop :=
    exists infos c p, new = infos ++ [TLine c p; TPrompt] /\ Forall info_tok infos /\ (c = 102%N \/ c = 210%N) /\
      l_ok r + l_fail r = l_enq r /\ 0 < l_enq r /\ 0 <= l_ok r /\ 0 <= l_fail r /\
      (c = 102%N <-> l_fail r = 0 /\ l_ok r = l_enq r /\ ClientReply.no_unknown_result al = true) /\
      (c = 210%N <-> 0 < l_fail r \/ ClientReply.no_unknown_result al = false).

  (* the terminal token of a QUERY command, the text of the reply, and where the listed states / values come from *)
  Definition query_done (r : lrec) (wr : list text) (cx : client) (com : Z) (al : arglist) (new : list tok) : Prop :=
    exists infos infos_r c p, new = infos ++ (infos_r ++ [TLine c p]) ++ [TPrompt] /\ Forall info_tok infos /\ Forall info_tok infos_r /\
      (c = 103%N \/ c = 211%N) /\
      l_ok r + l_fail r = l_enq r /\ 0 < l_enq r /\ 0 <= l_ok r /\ 0 <= l_fail r /\
      (c = 103%N <-> l_fail r = 0 /\ l_ok r = l_enq r) /\ (c = 211%N <-> 0 < l_fail r) /\
      ((Z.eqb com PM_STATUS_PLUGS || Z.eqb com PM_STATUS_BEACON)%bool = true ->
         render (infos_r ++ [TLine c p]) = reply_status ranged_sorted cx al (0 <? l_fail r)) /\
      (com = PM_STATUS_TEMP -> render (infos_r ++ [TLine c p]) = reply_nointerp ranged_sorted cx al (0 <? l_fail r)) /\
      (* an Arg of the command's list that is not as arglist_create left it (state other than unknown, a value, a result)
         belongs to a node whose Arg in THIS list was changed by the device half of a pass after the list was created *)
      (forall n a, arg_find al n = Some a -> fresh_arg a \/ In n wr).

  Lemma Done_power L devs store x0 k0 new : existsb (Z.eqb (k_com k0)) power_coms = true ->
    Done L devs store x0 k0 new -> power_done (L (cid x0)) (nth (k_args k0) store []) new.
  Proof.
    intros Hp (infos & infos_r & p & H1 & H2 & H3 & H4 & H5 & H6 & H7 & H8 & H9 & _).
    destruct (ClientReply.power_not_query _ Hp) as (A & B & C).
    unfold term_code, is_query in *. rewrite A, B, C in *. cbn [orb] in *.
    unfold power_done, ClientReply.no_unknown_result. rewrite existsb_forallb_neg in H1. clear H4 H5.
    set (r := L (cid x0)) in *. set (nu := forallb (fun a => negb (Z.eqb (ar_result a) RT_UNKNOWN)) (args_iter (nth (k_args k0) store []))) in *.
    clearbody r nu.
    exists (infos ++ infos_r). eexists. exists p. split; [rewrite H1, <- !app_assoc; reflexivity|]. split; [apply Forall_app; split; assumption|].
    assert (Hf : (0 <? l_fail r) = true <-> 0 < l_fail r) by apply Z.ltb_lt.
    destruct (0 <? l_fail r) eqn:Ef; cbn [orb negb].
    - assert (0 < l_fail r) by (apply Hf; reflexivity).
      split; [now right|]. split; [exact H6|]. split; [exact H7|]. split; [exact H8|]. split; [exact H9|]. split.
      + split; [discriminate|intros (Z0 & _); lia].
      + split; [intros _; now left|reflexivity].
    - assert (l_fail r = 0) by (apply Z.ltb_ge in Ef; lia).
      destruct nu; cbn [negb].
      + split; [now left|]. split; [exact H6|]. split; [exact H7|]. split; [exact H8|]. split; [exact H9|]. split.
        * split; [intros _; repeat split; first [lia|reflexivity]|reflexivity].
        * split; [discriminate|intros [Z0|Z0]; [lia|discriminate]].
      + split; [now right|]. split; [exact H6|]. split; [exact H7|]. split; [exact H8|]. split; [exact H9|]. split.
        * split; [discriminate|intros (_ & _ & Z0); discriminate].
        * split; [intros _; now right|reflexivity].
  Qed.

  Lemma reply_status_exp c c' al e : cl_exp c = cl_exp c' -> reply_status ranged_sorted c al e = reply_status ranged_sorted c' al e.
  Proof. unfold reply_status. intros ->. reflexivity. Qed.

  Lemma Done_query L W devs store x0 k0 new : is_query (k_com k0) = true -> WInv W store ->
    Done L devs store x0 k0 new -> query_done (L (cid x0)) (W (k_args k0)) (dc x0) (k_com k0) (nth (k_args k0) store []) new.
  Proof.
    intros Hq [Hw _] (infos & infos_r & p & H1 & H2 & H3 & H4 & H5 & H6 & H7 & H8 & H9 & _).
    unfold term_code in *. rewrite Hq in *.
    pose proof (Hw (k_args k0)) as Hwr.
    set (r := L (cid x0)) in *. set (al := nth (k_args k0) store []) in *.
    clearbody r al.
    exists infos, infos_r. eexists. exists p. split; [exact H1|]. split; [exact H2|]. split; [exact H3|].
    assert (Hf : (0 <? l_fail r) = true <-> 0 < l_fail r) by apply Z.ltb_lt.
    assert (Hcode : ((if 0 <? l_fail r then 211%N else 103%N) = 103%N \/ (if 0 <? l_fail r then 211%N else 103%N) = 211%N) /\
                    ((if 0 <? l_fail r then 211%N else 103%N) = 103%N <-> l_fail r = 0 /\ l_ok r = l_enq r) /\
                    ((if 0 <? l_fail r then 211%N else 103%N) = 211%N <-> 0 < l_fail r)).
    { destruct (0 <? l_fail r) eqn:Ef.
      - assert (0 < l_fail r) by (apply Hf; reflexivity). split; [now right|]. split; [split; [discriminate|intros (Z0 & _); lia]|split; [intros _; assumption|reflexivity]].
      - assert (l_fail r = 0) by (apply Z.ltb_ge in Ef; lia). split; [now left|]. split; [split; [intros _; split; lia|reflexivity]|split; [discriminate|lia]]. }
    destruct Hcode as (C1 & C2 & C3).
    split; [exact C1|]. split; [exact H6|]. split; [exact H7|]. split; [exact H8|]. split; [exact H9|]. split; [exact C2|]. split; [exact C3|].
    unfold reply_text, final_reply in H5. cbv zeta in H5. cbn [k_com k_error] in H5. split; [|split; [|exact Hwr]].
    - intros Hs. rewrite Hs in H5. injection H5 as H5. rewrite <- H5. apply reply_status_exp. reflexivity.
    - intros Ht. rewrite Ht in H5. change (Z.eqb PM_STATUS_TEMP PM_STATUS_PLUGS || Z.eqb PM_STATUS_TEMP PM_STATUS_BEACON)%bool with false in H5.
      change (Z.eqb PM_STATUS_TEMP PM_STATUS_TEMP) with true in H5. injection H5 as H5. rewrite <- H5. reflexivity.
  Qed.

  (* what a pass does, stated for the clients that have a command in progress when the callback half begins *)
  Definition pass_clients (done : dcli -> command -> list tok -> Prop) (sel : command -> Prop) (sta stb : daemon) : Prop :=
    (* a client without a command is left exactly as it is by the callback half *)
    (forall p x0, nth_error (dm_clients sta) p = Some x0 -> cl_cmd (dc x0) = None -> nth_error (dm_clients stb) p = Some x0) /\
    forall p x0 k0, nth_error (dm_clients sta) p = Some x0 -> cl_cmd (dc x0) = Some k0 -> sel k0 ->
      exists x new, nth_error (dm_clients stb) p = Some x /\ cid x = cid x0 /\
        cl_out (dc x) = cl_out (dc x0) ++ render new /\
        (forall toks0, cli_okT x0 toks0 -> cli_okT x (toks0 ++ new)) /\
        match cl_cmd (dc x) with
        | Some k => Forall info_tok new /\ k_com k = k_com k0 /\ k_args k = k_args k0       (* informational lines only *)
        | None => done x0 k0 new                                                             (* the terminal token *)
        end.

  Definition run_pass (st0 : daemon) (now : Z) (plans : list (list cplan)) (rs : list round) (r : round)
                      (claim : daemon -> ledger -> wledger -> daemon -> daemon -> ledger -> wledger -> Prop) : Prop :=
    exists st1 o1, dinit st0 now plans = Ok (st1, o1) /\
      match drun st1 rs [] with
      | Ok (st, _) =>
        let L := drun_led st1 rs lzero in
        let W := drun_wr st1 rs (winit (dm_store st1)) in
        match cli_post_poll st r with
        | Ok (sta, e1) =>
          match dev_loop (length (dm_devs sta)) (r_now r) sta O (r_dev r) None [] with
          | Ok (stb, tmo, e2) => dstep st r = Ok (stb, mkDout (e1 ++ e2) tmo) /\ claim st L W sta stb (dstep_led st r L) (dstep_wr st r W)
          | _ => False
          end
        | _ => False
        end
      | _ => False
      end.

  Lemma run_pass_e2e st0 now plans rs r : boot compress st0 -> Z.of_nat (length rs) < INT_MAX - 1 ->
    run_pass st0 now plans rs r (fun st L W sta stb Lb Wb =>
      EInv L st /\ EInv Lb stb /\ LInv [] (cpp_led st r L) sta /\ DevRel (dm_clients sta) Lb stb /\
      WInv W (dm_store st) /\ WInv Wb (dm_store stb)).
  Proof.
    intros Hb Hn. destruct (boot_e2e st0 now plans Hb) as (st1 & o1 & E1 & I1 & S1). exists st1, o1. split; [exact E1|].
    pose proof (drun_e2e rs st1 lzero [] I1 ltac:(lia) ltac:(rewrite S1; unfold INT_MAX in *; lia)) as Hr.
    pose proof (drun_wr_inv rs st1 lzero (winit (dm_store st1)) [] I1 ltac:(lia) ltac:(rewrite S1; unfold INT_MAX in *; lia) (WInv_init _)) as Hw.
    destruct (drun st1 rs []) as [[st outs]| | | |]; try contradiction. destruct Hr as (E & Hs).
    cbv zeta.
    assert (Hseq : 1 <= dm_seq st < INT_MAX) by (unfold INT_MAX in *; lia).
    pose proof (pass_wr st r _ _ E Hseq Hw) as Hp.
    destruct (pass_e2e st r _ E Hseq) as (sta & e1 & stb & tmo & e2 & Ea & Eb & Es & _ & La & _ & Ib & _ & Db & _).
    rewrite Ea, Es in Hp. rewrite Ea, Eb. destruct Hp as [_ Hwb].
    split; [exact Es|]. split; [exact E|]. split; [exact Ib|]. split; [exact La|]. split; [exact Db|]. split; [exact Hw|exact Hwb].
  Qed.

  (* C02, end to end *)
  Theorem c02_end_to_end st0 now plans rs r : boot compress st0 -> Z.of_nat (length rs) < INT_MAX - 1 ->
    run_pass st0 now plans rs r (fun st L W sta stb Lb Wb =>
      ledger_tied L st /\ ledger_tied Lb stb /\
      pass_clients (fun x0 k0 new => power_done (Lb (cid x0)) (nth (k_args k0) (dm_store stb) []) new)
                   (fun k0 => existsb (Z.eqb (k_com k0)) power_coms = true) sta stb).
  Proof.
    intros Hb Hn. destruct (run_pass_e2e st0 now plans rs r Hb Hn) as (st1 & o1 & E1 & H). exists st1, o1. split; [exact E1|].
    destruct (drun st1 rs []) as [[st outs]| | | |]; try contradiction. cbv zeta in *.
    destruct (cli_post_poll st r) as [[sta e1]| | | |]; try contradiction.
    destruct (dev_loop (length (dm_devs sta)) (r_now r) sta 0 (r_dev r) None []) as [[[stb tmo] e2]| | | |]; try contradiction.
    destruct H as (Es & E & Eb & _ & Db & _). split; [exact Es|]. split; [exact (EInv_tied _ _ E)|]. split; [exact (EInv_tied _ _ Eb)|].
    split; [intros p x0 Hp Hk; destruct (Db p x0 Hp) as (x & Hx & _ & R); unfold CRel in R; rewrite Hk in R; now subst x|].
    intros p x0 k0 Hp Hk Hsel. destruct (Db p x0 Hp) as (x & Hx & Hc & R). unfold CRel in R. rewrite Hk in R.
    destruct R as (_ & new & Ho & Ht & Hm). exists x, new. split; [exact Hx|]. split; [exact Hc|]. split; [exact Ho|]. split; [exact Ht|].
    destruct (cl_cmd (dc x)); [exact Hm|]. exact (Done_power _ _ _ _ _ _ Hsel Hm).
  Qed.

  (* a node that the reply lists on or off has a state other than unknown in the list *)
  Lemma listed_was_written (al : arglist) (wr : list text) n :
    (forall m a, arg_find al m = Some a -> (ar_state a = ST_UNKNOWN /\ ar_result a = RT_NONE /\ ar_val a = None) \/ In m wr) ->
    In n (ClientReply.on_nodes (args_iter al)) \/ In n (ClientReply.off_nodes (args_iter al)) -> In n wr.
  Proof.
    intros H Hl. destruct (ClientReply.status_lists_sound al n) as (Hon & Hoff & _).
    destruct Hl as [Hl|Hl]; [apply Hon in Hl|apply Hoff in Hl]; destruct Hl as (a & Ha & _ & Hs);
      (destruct (H n a Ha) as [(Hu & _)|Hw]; [rewrite Hs in Hu; discriminate Hu|exact Hw]).
  Qed.

  (* a result list in use by a command is referred to by that client's queued actions only (so, with C11_result_list_writes,
     the device half changes it only while visiting a device whose queue holds an action of THIS command) *)
  Definition lists_owned (st : daemon) : Prop :=
    forall c s x, In (c, s) (aslots (dm_devs st)) -> In x (dm_clients st) -> cmd_slot x = Some s -> cid x = c.

  (* C03, end to end *)
  Theorem c03_end_to_end st0 now plans rs r : boot compress st0 -> Z.of_nat (length rs) < INT_MAX - 1 ->
    run_pass st0 now plans rs r (fun st L W sta stb Lb Wb =>
      ledger_tied L st /\ ledger_tied Lb stb /\ lists_owned st /\
      (forall s, (length (dm_store st) <= s)%nat -> W s = []) /\
      pass_clients (fun x0 k0 new => query_done (Lb (cid x0)) (Wb (k_args k0)) (dc x0) (k_com k0) (nth (k_args k0) (dm_store stb) []) new)
                   (fun k0 => is_query (k_com k0) = true) sta stb).
  Proof.
    intros Hb Hn. destruct (run_pass_e2e st0 now plans rs r Hb Hn) as (st1 & o1 & E1 & H). exists st1, o1. split; [exact E1|].
    destruct (drun st1 rs []) as [[st outs]| | | |]; try contradiction. cbv zeta in *.
    destruct (cli_post_poll st r) as [[sta e1]| | | |]; try contradiction.
    destruct (dev_loop (length (dm_devs sta)) (r_now r) sta 0 (r_dev r) None []) as [[[stb tmo] e2]| | | |]; try contradiction.
    destruct H as (Es & E & Eb & _ & Db & Hw & Hwb). split; [exact Es|]. split; [exact (EInv_tied _ _ E)|]. split; [exact (EInv_tied _ _ Eb)|].
    split; [intros c s x Hin Hx Hs; apply In_nth_error in Hx as (p & Hp); exact (li_own _ _ _ (proj2 (proj2 E)) c s p x Hin Hp Hs)|].
    split; [exact (proj2 Hw)|].
    split; [intros p x0 Hp Hk; destruct (Db p x0 Hp) as (x & Hx & _ & R); unfold CRel in R; rewrite Hk in R; now subst x|].
    intros p x0 k0 Hp Hk Hsel. destruct (Db p x0 Hp) as (x & Hx & Hc & R). unfold CRel in R. rewrite Hk in R.
    destruct R as (_ & new & Ho & Ht & Hm). exists x, new. split; [exact Hx|]. split; [exact Hc|]. split; [exact Ho|]. split; [exact Ht|].
    destruct (cl_cmd (dc x)); [exact Hm|]. exact (Done_query _ _ _ _ _ _ _ Hsel Hwb Hm).
  Qed.

  (* ---------------------------------------------------------------- the device layer's half of the chain (Proofs/DeviceSuccess.v) *)
  (* every completion event with ACT_ESUCCESS that a pass of any run produces is produced by an iteration of _process_action
     that finished the LAST statement of the head action's script (the `Completed` step of C08_refines) *)
  Definition finishing_iteration (now : Z) (e : ev) : Prop :=
    exists d store tmo plans r act0 rest,
      DInvG compress d /\ pa_step rmatch compress short_circuit now d store tmo plans = Ok r /\ In e (pa_events r) /\
      dv_acts d = act0 :: rest /\ a_hascb act0 = true /\ e = EvComplete (a_client act0) ACT_ESUCCESS [] /\
      finishing rmatch compress short_circuit now d store act0.

  Lemma no_completions_no_success evs : completions evs = [] -> forall e, In e evs -> is_success e = false.
  Proof.
    induction evs as [|a r IH]; intros H e Hin; [destruct Hin|destruct Hin as [<-|Hin]].
    - destruct a; try reflexivity. discriminate H.
    - apply IH; [|exact Hin]. destruct a; try exact H. discriminate H.
  Qed.

  Lemma process_action_success : forall fuel now d store tmo plans acc d' store' tmo' pl' evs,
    DInvG compress d -> tmo_pos tmo ->
    process_action rmatch compress short_circuit fuel now d store tmo plans acc = Ok (d', store', tmo', pl', evs) ->
    exists new, evs = acc ++ new /\ forall e, In e new -> is_success e = true -> finishing_iteration now e.
  Proof.
    induction fuel as [|f IH]; intros now d store tmo plans acc d' store' tmo' pl' evs I Hp; cbn [process_action]; [discriminate|].
    pose proof (pa_step_invG rmatch compress short_circuit now d store tmo plans I Hp) as H.
    destruct (pa_step rmatch compress short_circuit now d store tmo plans) as [[d1 st1 tmo1 pl1 e1|d1 st1 tmo1 e1]| | | |] eqn:Ep; try discriminate.
    - intros E. injection E as <- <- <- <- <-. exists e1. split; [reflexivity|]. intros e Hin Hs.
      destruct (pa_step_success rmatch compress short_circuit now d store tmo plans _ I Ep e Hin Hs) as (act0 & rest & A & B & C & F).
      exists d, store, tmo, plans, (PaDone d1 st1 tmo1 pl1 e1), act0, rest. repeat (split; [assumption|]). exact F.
    - intros E. destruct (IH now d1 st1 tmo1 plans (acc ++ e1) d' store' tmo' pl' evs (tg_inv _ _ _ _ _ _ _ _ _ H) (tg_pos _ _ _ _ _ _ _ _ _ H) E) as (new & -> & Hn).
      exists (e1 ++ new). split; [now rewrite app_assoc|]. intros e Hin Hs. apply in_app_or in Hin as [Hin|Hin]; [|exact (Hn e Hin Hs)].
      destruct (pa_step_success rmatch compress short_circuit now d store tmo plans _ I Ep e Hin Hs) as (act0 & rest & A & B & C & F).
      exists d, store, tmo, plans, (PaNext d1 st1 tmo1 e1), act0, rest. repeat (split; [assumption|]). exact F.
  Qed.

  Lemma pp_front_quiet now d t pin d3 t3 pl e12 : DInvG compress d -> tmo_pos t ->
    pp_front now d t pin = Ok (d3, t3, pl, e12) -> completions e12 = [].
  Proof.
    intros I Hp. unfold pp_front.
    assert (H0 : exists ioerr d1 e1, (if dv_has_fd d && any_flag pin then handle_ready d pin else Ok (false, d, [])) = Ok (ioerr, d1, e1) /\
                 DInvG compress d1 /\ completions e1 = []).
    { destruct (dv_has_fd d) eqn:Efd; cbn [andb]; [|exists false, d, []; split; [reflexivity|split; [exact I|reflexivity]]].
      destruct (any_flag pin); [|exists false, d, []; split; [reflexivity|split; [exact I|reflexivity]]].
      destruct (handle_ready_invG compress d pin I Efd) as (io & d1 & e1 & E & I1 & _ & _ & C1 & _).
      exists io, d1, e1. split; [exact E|]. split; [exact I1|exact C1]. }
    destruct H0 as (ioerr & d1 & e1 & -> & I1 & C1).
    assert (H2 : exists d2 e2 t2 pl2, (if ioerr || Z.eqb (dv_cstate d1) DEV_NOT_CONNECTED then reconnect now d1 t (pi_plans pin) else Ok (d1, [], t, pi_plans pin)) = Ok (d2, e2, t2, pl2) /\
                 completions e2 = []).
    { destruct (ioerr || Z.eqb (dv_cstate d1) DEV_NOT_CONNECTED).
      - destruct (reconnect_invG compress now d1 t (pi_plans pin) (DInvG_QInvG compress d1 I1) (fun _ => I1) Hp) as (d2 & e2 & t2 & pl2 & E & _ & _ & _ & C2 & _).
        exists d2, e2, t2, pl2. split; [exact E|exact C2].
      - exists d1, [], t, (pi_plans pin). split; reflexivity. }
    destruct H2 as (d2 & e2 & t2 & pl2 & -> & C2).
    destruct (if connected d2 then enqueue_ping now d2 t2 else (d2, t2)) as [d3' t3'].
    intros E. injection E as _ _ _ <-. now rewrite completions_app, C1, C2.
  Qed.

  Lemma post_poll_one_success now d store tmo pin d' store' tmo' evs : DInvH compress d -> tmo_pos tmo ->
    post_poll_one rmatch compress short_circuit now d store tmo pin = Ok (d', store', tmo', evs) ->
    forall e, In e evs -> is_success e = true -> finishing_iteration now e.
  Proof.
    intros HdH Hp. pose proof (dh_inv _ _ HdH) as I. pose proof (dh_rc _ _ HdH) as Hrc. rewrite pp_split.
    destruct (pp_front_inv compress now d tmo pin I Hp Hrc) as (d3 & t3 & pl & e12 & E & I3 & _ & P3 & _). rewrite E.
    pose proof (pp_front_quiet now d tmo pin d3 t3 pl e12 I Hp E) as Hq.
    destruct (process_action rmatch compress short_circuit (pa_fuel d3) now d3 store t3 pl e12) as [[[[[d4 st4] t4] pl4] evs4]| | | |] eqn:Epa; try discriminate.
    intros H. injection H as <- <- <- <-.
    destruct (process_action_success _ _ _ _ _ _ _ _ _ _ _ _ I3 P3 Epa) as (new & -> & Hn).
    intros e Hin Hs. apply in_app_or in Hin as [Hin|Hin]; [|exact (Hn e Hin Hs)].
    rewrite (no_completions_no_success e12 Hq e Hin) in Hs. discriminate.
  Qed.

  Lemma dl_scripts n : forall now st i pins tmo acc, DPInv st -> tmo_pos tmo ->
    match dev_loop n now st i pins tmo acc with
    | Ok (st', tmo', evs) => exists new, evs = acc ++ new /\ forall j e, In (SysDev j e) new -> is_success e = true -> finishing_iteration now e
    | _ => False
    end.
  Proof.
    induction n as [|n IH]; intros now st i pins tmo acc I Hp.
    - cbn [Daemon.dev_loop]. exists []. rewrite app_nil_r. split; [reflexivity|]. intros j e [].
    - pose proof (dev_loop_inv expand_str ranged_sorted ranged_plain sorted rmatch compress short_circuit 1 now st i pins tmo acc I Hp) as H1.
      cbn [Daemon.dev_loop] in H1 |- *.
      destruct (nth_error (dm_devs st) i) as [d|] eqn:En; [|exists []; rewrite app_nil_r; split; [reflexivity|intros j e []]].
      destruct (with_pre (nth i (dm_pipe st) true) (nth i (dm_tel st) Telnet.telnet_init) (hd passin0 pins)) as [pin t1].
      assert (HdH : DInvH compress d) by (pose proof (dp_devs _ _ I) as H; rewrite Forall_forall in H; apply H; eapply nth_error_In; exact En).
      destruct (post_poll_one_invH rmatch compress short_circuit now d (dm_store st) tmo pin HdH Hp) as (d' & store' & tmo' & evs & EP & _ & SP & _).
      pose proof (post_poll_one_success now d (dm_store st) tmo pin d' store' tmo' evs HdH Hp EP) as Hs.
      rewrite EP in H1 |- *.
      match goal with |- context [route_all ranged_sorted ?s evs] => set (st1 := s) in * end.
      destruct (route_all ranged_sorted st1 evs) as [st2| | | |] eqn:E2; try contradiction.
      destruct H1 as (I2 & T2 & _).
      specialize (IH now st2 (S i) (tl pins) tmo' (acc ++ map (SysDev i) evs) I2 T2).
      destruct (dev_loop n now st2 (S i) (tl pins) tmo' (acc ++ map (SysDev i) evs)) as [[[st3 tmo3] evs3]| | | |]; try contradiction.
      destruct IH as (new2 & -> & Hn). exists (map (SysDev i) evs ++ new2). split; [now rewrite app_assoc|].
      intros j e Hin Hsucc. apply in_app_or in Hin as [Hin|Hin]; [|exact (Hn j e Hin Hsucc)].
      apply in_map_iff in Hin as (e' & Ee & Hin). injection Ee as _ <-. exact (Hs e' Hin Hsucc).
  Qed.

  Lemma cli_loop_nodev_in : forall cins st i acc st' evs, cli_loop st i cins acc = Ok (st', evs) ->
    forall j e, In (SysDev j e) evs -> In (SysDev j e) acc.
  Proof.
    induction cins as [|ci r IH]; intros st i acc st' evs; cbn [Daemon.cli_loop]; [intros H; inversion H; auto|].
    destruct (cli_one st i ci) as [[[st1 evs1] dead]| | | |] eqn:E1; try discriminate.
    assert (H1 : forall j e, ~ In (SysDev j e) evs1).
    { intros j e. destruct (nth_error (dm_clients st) i) as [x|] eqn:En.
      - destruct (cli_one_events _ _ _ _ _ _ _ _ _ _ x E1 En) as [->|(w & ->)]; [intros []|intros [H|[]]; discriminate H].
      - unfold Daemon.cli_one in E1. rewrite En in E1. inversion E1. intros []. }
    destruct dead; intros H j e Hin; specialize (IH _ _ _ _ _ H j e Hin); apply in_app_or in IH as [IH|IH]; auto.
    - apply in_app_or in IH as [IH|[IH|[]]]; [exfalso; exact (H1 j e IH)|discriminate IH].
    - exfalso; exact (H1 j e IH).
  Qed.

  Theorem c02_end_to_end_scripts st0 now plans rs r : boot compress st0 -> Z.of_nat (length rs) < INT_MAX - 1 ->
    exists st1 o1, dinit st0 now plans = Ok (st1, o1) /\
      match drun st1 rs [] with
      | Ok (st, _) =>
        match dstep st r with
        | Ok (_, o) => forall j e, In (SysDev j e) (do_evs o) -> is_success e = true -> finishing_iteration (r_now r) e
        | _ => False
        end
      | _ => False
      end.
  Proof.
    intros Hb Hn. destruct (boot_e2e st0 now plans Hb) as (st1 & o1 & E1 & I1 & S1). exists st1, o1. split; [exact E1|].
    pose proof (drun_e2e rs st1 lzero [] I1 ltac:(lia) ltac:(rewrite S1; unfold INT_MAX in *; lia)) as Hr.
    destruct (drun st1 rs []) as [[st outs]| | | |]; try contradiction. destruct Hr as (E & Hs).
    destruct (pass_e2e st r _ E ltac:(unfold INT_MAX in *; lia)) as (sta & e1 & stb & tmo & e2 & Ea & Eb & Es & _ & _ & Ia & _).
    rewrite Es. cbn [do_evs]. intros j e Hin Hsucc.
    assert (Hnp : tmo_pos None) by (intros x Hx; discriminate).
    pose proof (dl_scripts (length (dm_devs sta)) (r_now r) sta 0%nat (r_dev r) None [] Ia Hnp) as Hd. rewrite Eb in Hd.
    destruct Hd as (new & En & Hd). cbn [app] in En. subst new.
    apply in_app_or in Hin as [Hin|Hin]; [|exact (Hd j e Hin Hsucc)].
    exfalso. rewrite cli_post_poll_eq in Ea. pose proof (cli_loop_nodev_in _ _ _ _ _ _ Ea j e Hin) as H0.
    destruct (r_accept r); [destruct H0 as [H0|[]]; discriminate H0|destruct H0].
  Qed.
End E.
