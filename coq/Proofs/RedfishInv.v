(* C19, several targets on one line: geometry of the plug table (ancestor lists as a function, depth), well-formed
   messages, and what process_waiters does to arbitrary wait / active lists. *)
From Coq Require Import List NArith ZArith Bool Lia Permutation.
From PM Require Import Base.Bytes Base.Outcome Gen.GenRfp Model.Redfish Spec.RedfishSpec Model.RedfishView
  Proofs.RedfishBase Proofs.RedfishSteps Proofs.RedfishMgmt Proofs.RedfishRules Proofs.RedfishPhased.
Import ListNotations.

(* ------------------------------------------------------------------ lists *)
Lemma chain_length tab x l : chain tab x l -> length l < length tab.
Proof.
  intros C.
  assert (ND : NoDup (x :: l)) by (constructor; [eapply chain_not_in; eassumption | eapply chain_nodup; eassumption]).
  assert (INC : incl (x :: l) (map p_name tab)).
  { intros a [<-|I].
    - destruct (chain_lookup _ _ _ C) as [pd L]. apply in_map_iff. exists pd. split; [eapply lookup_name | eapply lookup_in]; eassumption.
    - destruct (chain_in_chain _ _ _ _ C I) as (l1 & l2 & _ & _ & C2). destruct (chain_lookup _ _ _ C2) as [pd L].
      apply in_map_iff. exists pd. split; [eapply lookup_name | eapply lookup_in]; eassumption. }
  pose proof (NoDup_incl_length ND INC) as LE. rewrite map_length in LE. cbn [length] in LE. lia.
Qed.

Lemma last_snoc {A} (l : list A) a d : last (l ++ [a]) d = a.
Proof. apply last_last. Qed.

Lemma existsb_app_l {A} (f : A -> bool) l1 l2 : existsb f l1 = true -> existsb f (l1 ++ l2) = true.
Proof. intros H. rewrite existsb_app, H. reflexivity. Qed.

(* names of the targets answered so far *)
Definition tres (o : list (tag * text)) : list name :=
  flat_map (fun e => match fst e with TResult p => [p] | _ => [] end) o.
Lemma tres_app a b : tres (a ++ b) = tres a ++ tres b.
Proof. unfold tres. apply flat_map_app. Qed.
Definition tunk (o : list (tag * text)) : list name :=
  flat_map (fun e => match fst e with TUnknown p => [p] | _ => [] end) o.
Lemma tunk_app a b : tunk (a ++ b) = tunk a ++ tunk b.
Proof. unfold tunk. apply flat_map_app. Qed.

(* messages that still owe an answer *)
Definition pend (l : list pmsg) : list name := map m_plug (filter m_out l).
Lemma pend_app a b : pend (a ++ b) = pend a ++ pend b.
Proof. unfold pend. now rewrite filter_app, map_app. Qed.

Section Geometry.
Variable tab : list plug.

Definition anc (x : name) : list name := ancestors (forest_of tab) x.
Definition dp (x : name) : nat := length (anc x).

Definition okchain (x : name) : Prop := chain tab x (anc x).

Lemma okchain_of_chain x l : chain tab x l -> okchain x /\ anc x = l.
Proof.
  intros C. pose proof (chain_length _ _ _ C) as LT.
  assert (E : anc x = l) by (apply ancestors_chain; [assumption | lia]).
  split; [unfold okchain; now rewrite E | exact E].
Qed.

Lemma okchain_len x : okchain x -> dp x < length tab.
Proof. apply chain_length. Qed.

Lemma okchain_anc x a : okchain x -> In a (anc x) ->
  exists l1, anc x = l1 ++ a :: anc a /\ ~ In a l1 /\ okchain a.
Proof.
  intros C I. destruct (chain_in_chain _ _ _ _ C I) as (l1 & l2 & E & NI & C2).
  destruct (okchain_of_chain _ _ C2) as [OK E2]. exists l1. rewrite E2. auto.
Qed.

Lemma dp_anc x a : okchain x -> In a (anc x) -> dp a < dp x.
Proof.
  intros C I. destruct (okchain_anc _ _ C I) as (l1 & E & _). unfold dp. rewrite E, app_length. cbn [length]. lia.
Qed.

Lemma anc_trans x a a' : okchain x -> In a (anc x) -> In a' (anc a) -> In a' (anc x).
Proof.
  intros C I I'. destruct (okchain_anc _ _ C I) as (l1 & E & _). rewrite E. apply in_or_app. right. now right.
Qed.

Lemma is_desc_anc x a : okchain x -> is_desc tab x a = true <-> In a (anc x).
Proof. intros C. apply is_desc_chain; [exact C|]. pose proof (chain_length _ _ _ C). lia. Qed.

Lemma is_desc_anc_false x a : okchain x -> is_desc tab x a = false <-> ~ In a (anc x).
Proof.
  intros C. pose proof (is_desc_anc x a C) as H. destruct (is_desc tab x a); split; intros K; try discriminate; try reflexivity.
  - exfalso. apply K. now apply H.
  - intros I. apply H in I. discriminate.
Qed.

(* the parent is the head of the ancestor list *)
Lemma okchain_parent x pd : okchain x -> lookup tab x = Some pd ->
  match anc x with [] => p_parent pd = None | a :: _ => p_parent pd = Some a end.
Proof.
  intros C L. unfold okchain in C. inversion C as [x0 pd0 L0 P0 E0 | x0 pd0 par l0 L0 P0 C0 E0]; rewrite L in L0; inversion L0; subst pd0; assumption.
Qed.

(* plugs_child_of_ancestor: the plug just below a, and it is one level deeper than a *)
Lemma child_spec x a : okchain x -> In a (anc x) ->
  exists ch, child_of_ancestor tab x a = WFound ch /\ okchain ch /\ anc ch = a :: anc a /\
             ((ch = x /\ exists l, anc x = a :: l) \/ (In ch (anc x) /\ exists b l, anc x = b :: l /\ b <> a)).
Proof.
  intros C I. destruct (okchain_anc _ _ C I) as (l1 & E & NI & Ca).
  pose proof (chain_length _ _ _ C) as LT.
  assert (CO : child_of_ancestor tab x a = WFound (last l1 x)).
  { apply (child_of_ancestor_chain tab x l1 a (anc a)); [unfold okchain in C; now rewrite E in C | rewrite <- E; fold (dp x); unfold dp; lia]. }
  exists (last l1 x). split; [exact CO|].
  destruct l1 as [|b l1'] using rev_ind.
  - cbn [last app] in *. split; [exact C|]. split; [exact E|]. left. split; [reflexivity | eauto].
  - clear IHl1'. rewrite last_snoc. rewrite <- app_assoc in E. cbn [app] in E.
    assert (Ib : In b (anc x)) by (rewrite E; apply in_or_app; right; now left).
    destruct (okchain_anc _ _ C Ib) as (l1b & Eb & NIb & Cb).
    assert (EA : anc b = a :: anc a).
    { unfold okchain in C. rewrite E in C. pose proof (chain_suffix _ _ _ _ _ C) as Cb'.
      now destruct (okchain_of_chain _ _ Cb') as [_ ->]. }
    split; [exact Cb|]. split; [exact EA|]. right. split; [exact Ib|].
    destruct l1' as [|b0 l1'']; cbn [app] in E.
    + exists b, (a :: anc a). split; [exact E|]. intros ->. apply NI. apply in_or_app. right. now left.
    + exists b0, (l1'' ++ b :: a :: anc a). split; [exact E|]. intros ->. apply NI. now left.
Qed.

(* plugs_find_root_parent finds the last ancestor *)
Lemma root_spec x : okchain x -> find_root tab x = WFound (last (anc x) x) /\ (anc x <> [] -> In (last (anc x) x) (anc x)) /\
  anc (last (anc x) x) = [].
Proof.
  intros C. pose proof (chain_length _ _ _ C) as LT. split; [apply chain_find_root; [exact C | lia]|]. split.
  - intros NE. destruct (anc x) as [|a l] using rev_ind; [congruence|]. rewrite last_snoc. apply in_or_app. right. now left.
  - destruct (anc x) as [|a l] eqn:E using rev_ind.
    + cbn [last]. exact E.
    + clear IHl. rewrite last_snoc. unfold okchain in C. rewrite E in C.
      pose proof (chain_suffix _ _ _ _ _ C) as Ca. now destruct (okchain_of_chain _ _ Ca) as [_ ->].
Qed.

End Geometry.

(* ------------------------------------------------------------------ frames *)
(* what process_waiters leaves alone *)
Definition keeps (st st' : state) : Prop :=
  same_cfg st' st /\ s_tstat st' = s_tstat st /\ s_delayed st' = s_delayed st /\ s_log st' = s_log st /\ s_fault st' = s_fault st.
(* activecmds grows by [add] at the end, the targets [ans] are answered *)
Definition grows (st st' : state) (add : list pmsg) (ans : list name) : Prop :=
  keeps st st' /\ s_active st' = s_active st ++ add /\ tres (s_out st') = tres (s_out st) ++ ans /\ tunk (s_out st') = tunk (s_out st).

Lemma same_cfg_refl st : same_cfg st st.
Proof. repeat split. Qed.
Lemma same_cfg_trans a b c : same_cfg a b -> same_cfg b c -> same_cfg a c.
Proof. unfold same_cfg. intros (?&?&?&?&?&?&?&?) (?&?&?&?&?&?&?&?). repeat split; congruence. Qed.
Lemma keeps_refl st : keeps st st.
Proof. repeat split. Qed.
Lemma keeps_trans a b c : keeps a b -> keeps b c -> keeps a c.
Proof. unfold keeps. intros (S1&?&?&?&?) (S2&?&?&?&?). split; [eapply same_cfg_trans; eassumption|]. repeat split; congruence. Qed.
Lemma grows_refl st : grows st st [] [].
Proof. split; [apply keeps_refl|]. now rewrite !app_nil_r. Qed.
Lemma grows_trans a b c add1 ans1 add2 ans2 : grows a b add1 ans1 -> grows b c add2 ans2 -> grows a c (add1 ++ add2) (ans1 ++ ans2).
Proof.
  intros (K1&A1&R1&U1) (K2&A2&R2&U2). split; [eapply keeps_trans; eassumption|].
  rewrite A2, A1, R2, R1, U2, U1, !app_assoc. auto.
Qed.
Lemma grows_emit_diag st f a : grows st (emitf st TDiag f a) [] [].
Proof. split; [repeat split|]. cbn [emitf emit s_active set_out s_out]. repeat split; rewrite ?tres_app, ?tunk_app; cbn [tres tunk flat_map fst app]; now rewrite ?app_nil_r. Qed.
Lemma grows_emit_result st p f a : grows st (emitf st (TResult p) f a) [] [p].
Proof. split; [repeat split|]. cbn [emitf emit s_active set_out s_out]. repeat split; rewrite ?tres_app, ?tunk_app; cbn [tres tunk flat_map fst app]; now rewrite ?app_nil_r. Qed.
Lemma grows_add_active st m : grows st (add_active st m) [m] [].
Proof. split; [repeat split|]. cbn [add_active s_active set_active s_out]. now rewrite !app_nil_r. Qed.
Lemma grows_set_wait st st' k add ans : grows st st' add ans -> grows st (set_wait st' k) add ans.
Proof. intros ((S&?&?&?&?)&?&?&?). split; [|auto]. split; [exact S | auto]. Qed.

Lemma keeps_tab st st' : keeps st st' -> s_tab st' = s_tab st.
Proof. intros ((_&_&_&E&_)&_). exact E. Qed.
Lemma keeps_has_path st st' c p : keeps st st' -> has_path st' c p = has_path st c p.
Proof. intros ((_&_&_&E&_&E1&E2&E3)&_). unfold has_path, get_path. rewrite E, E1, E2, E3. reflexivity. Qed.

(* a silent ancestor query that can be created *)
Definition qmsg_of (pd : plug) : pmsg := mkMsg CStat (p_host pd) (p_name pd) (p_parent pd) false false.

Lemma scp_silent st a : has_path st CStat a = true ->
  exists pd st', lookup (s_tab st) a = Some pd /\ stat_cmd_plug st a false = (st', Some (qmsg_of pd)) /\ grows st st' [] [] /\ s_wait st' = s_wait st.
Proof.
  intros HP. destruct (has_path_get _ _ _ HP) as (pd & lp & L & GP). exists pd.
  unfold stat_cmd_plug. rewrite L, GP. unfold qmsg_of. rewrite (lookup_name _ _ _ L).
  destruct (s_verbose st); eexists; (split; [reflexivity|]); (split; [reflexivity|]).
  - split; [apply grows_emit_diag | reflexivity].
  - split; [apply grows_refl | reflexivity].
Qed.

(* ------------------------------------------------------------------ process_waiters, first pass *)
Section FirstPass.
Variables (tab : list plug) (A : name) (s : status).
Definition pw_mv (w : pmsg) : bool := is_desc tab (m_plug w) A && status_is_on s && parent_is w A.
Definition pw_an (w : pmsg) : bool := is_desc tab (m_plug w) A && negb (status_is_on s).
Definition pw_kp (w : pmsg) : bool := negb (is_desc tab (m_plug w) A) || (status_is_on s && negb (parent_is w A)).

Lemma pw_answer_grows st w pda : lookup (s_tab st) A = Some pda ->
  grows st (pw_answer st w A s) [] (if m_out w then [m_plug w] else []) /\ s_wait (pw_answer st w A s) = s_wait st.
Proof.
  intros L. unfold pw_answer. rewrite L. destruct (m_out w); [|split; [apply grows_refl | reflexivity]].
  destruct (cmd_is_stat _); [split; [apply grows_emit_result | reflexivity]|].
  destruct (_ && _); split; try apply grows_emit_result; reflexivity.
Qed.

Lemma pw_first_go_spec pda ws : forall st, s_tab st = tab -> lookup tab A = Some pda ->
  grows st (fst (pw_first_go st A s ws)) (filter pw_mv ws) (pend (filter pw_an ws)) /\
  s_wait (fst (pw_first_go st A s ws)) = s_wait st /\ snd (pw_first_go st A s ws) = filter pw_kp ws.
Proof.
  induction ws as [|w r IH]; intros st ET L; cbn [pw_first_go filter].
  - cbn [fst snd]. split; [apply grows_refl | auto].
  - rewrite ET. destruct (is_desc tab (m_plug w) A) eqn:D; [destruct (status_is_on s) eqn:S; [destruct (parent_is w A) eqn:P|]|].
    + assert (pw_mv w = true) as -> by (unfold pw_mv; now rewrite D, S, P).
      assert (pw_an w = false) as -> by (unfold pw_an; now rewrite D, S).
      assert (pw_kp w = false) as -> by (unfold pw_kp; now rewrite D, S, P).
      destruct (IH (add_active st w) ET L) as (G & W & K). split; [|split; [exact W | exact K]].
      change (w :: filter pw_mv r) with ([w] ++ filter pw_mv r). change (pend (filter pw_an r)) with ([] ++ pend (filter pw_an r)).
      eapply grows_trans; [apply grows_add_active | exact G].
    + assert (pw_mv w = false) as -> by (unfold pw_mv; now rewrite D, S, P).
      assert (pw_an w = false) as -> by (unfold pw_an; now rewrite D, S).
      assert (pw_kp w = true) as -> by (unfold pw_kp; now rewrite D, S, P).
      destruct (IH st ET L) as (G & W & K). destruct (pw_first_go st A s r) as [st' k]. cbn [fst snd] in *. split; [exact G|]. split; [exact W | now rewrite K].
    + assert (pw_mv w = false) as -> by (unfold pw_mv; now rewrite D, S).
      assert (pw_an w = true) as -> by (unfold pw_an; now rewrite D, S).
      assert (pw_kp w = false) as -> by (unfold pw_kp; now rewrite D, S).
      rewrite <- ET in L. destruct (pw_answer_grows st w pda L) as [G1 W1].
      assert (ET1 : s_tab (pw_answer st w A s) = tab) by (rewrite (keeps_tab _ _ (proj1 G1)); exact ET).
      rewrite ET in L. destruct (IH _ ET1 L) as (G & W & K). split; [|split; [congruence | exact K]].
      change (filter pw_mv r) with ([] ++ filter pw_mv r).
      replace (pend (w :: filter pw_an r)) with ((if m_out w then [m_plug w] else []) ++ pend (filter pw_an r)) by (unfold pend; cbn [filter]; destruct (m_out w); reflexivity).
      eapply grows_trans; eassumption.
    + assert (pw_mv w = false) as -> by (unfold pw_mv; now rewrite D).
      assert (pw_an w = false) as -> by (unfold pw_an; now rewrite D).
      assert (pw_kp w = true) as -> by (unfold pw_kp; now rewrite D).
      destruct (IH st ET L) as (G & W & K). destruct (pw_first_go st A s r) as [st' k]. cbn [fst snd] in *. split; [exact G|]. split; [exact W | now rewrite K].
Qed.

Lemma pw_first_spec pda st : s_tab st = tab -> lookup tab A = Some pda ->
  grows st (pw_first st A s) (filter pw_mv (s_wait st)) (pend (filter pw_an (s_wait st))) /\
  s_wait (pw_first st A s) = filter pw_kp (s_wait st).
Proof.
  intros ET L. destruct (pw_first_go_spec pda (s_wait st) st ET L) as (G & W & K). unfold pw_first.
  destruct (pw_first_go st A s (s_wait st)) as [st' k]. cbn [fst snd] in *. split; [now apply grows_set_wait | exact K].
Qed.
End FirstPass.

(* ------------------------------------------------------------------ process_waiters, second pass *)
Lemma skipn_nth {A} (l : list A) : forall k w, nth_error l k = Some w -> skipn k l = w :: skipn (S k) l.
Proof. induction l as [|x r IH]; intros [|k] w H; cbn [nth_error] in H; try discriminate; [now inversion H | cbn [skipn]; now apply IH]. Qed.
Lemma skipn_none {A} (l : list A) : forall k, nth_error l k = None -> skipn k l = [].
Proof. induction l as [|x r IH]; intros [|k] H; cbn [nth_error] in H; try discriminate; try reflexivity. cbn [skipn]. now apply IH. Qed.

Lemma plugname_active_app act add p c : plugname_active act p c = true -> plugname_active (act ++ add) p c = true.
Proof. apply existsb_app_l. Qed.
Lemma plugname_active_in act p c : plugname_active act p c = true -> exists m, In m act /\ m_plug m = p.
Proof. unfold plugname_active. intros H. apply existsb_exists in H as (m & I & H). apply andb_true_iff in H as [H _]. apply text_eqb_eq in H. eauto. Qed.
Lemma plugname_active_q act pd c : plugname_active (act ++ [qmsg_of pd]) (p_name pd) c = true.
Proof. unfold plugname_active. rewrite existsb_app. cbn [existsb qmsg_of m_plug m_cmd]. rewrite text_eqb_refl. change (cmd_is_stat CStat) with true. cbn. now rewrite orb_true_r. Qed.

Lemma pw_second_spec tab A : forall fuel st k, s_tab st = tab ->
  (forall w ch, In w (s_wait st) -> child_of_ancestor tab (m_plug w) A = WFound ch -> has_path st CStat ch = true) ->
  length (s_wait st) - k < fuel ->
  exists qs, grows st (pw_second fuel st A k) qs [] /\ s_wait (pw_second fuel st A k) = s_wait st /\
    (forall q, In q qs -> exists w pd, In w (s_wait st) /\ child_of_ancestor tab (m_plug w) A = WFound (p_name pd) /\
                                       lookup tab (p_name pd) = Some pd /\ q = qmsg_of pd) /\
    (forall w ch, In w (skipn k (s_wait st)) -> child_of_ancestor tab (m_plug w) A = WFound ch ->
                  plugname_active (s_active (pw_second fuel st A k)) ch (m_cmd w) = true).
Proof.
  induction fuel as [|f IH]; intros st k ET HP LT; [lia|]. rewrite pw_second_S.
  destruct (nth_error (s_wait st) k) as [w|] eqn:N.
  2:{ exists []. split; [apply grows_refl|]. split; [reflexivity|]. split; [intros q []|]. intros w ch I. rewrite (skipn_none _ _ N) in I. destruct I. }
  assert (KL : k < length (s_wait st)) by (apply nth_error_Some; congruence).
  assert (Iw : In w (s_wait st)) by (eapply nth_error_In; eassumption).
  rewrite (skipn_nth _ _ _ N). rewrite ET.
  destruct (child_of_ancestor tab (m_plug w) A) as [ch| |] eqn:CO.
  - destruct (plugname_active (s_active st) ch (m_cmd w)) eqn:PA.
    + destruct (IH st (S k) ET HP ltac:(lia)) as (qs & G & W & Q & P). exists qs. split; [exact G|]. split; [exact W|]. split; [exact Q|].
      intros w' ch' [<-|I] CO'; [|now apply P]. rewrite CO in CO'. inversion CO'; subst ch'.
      destruct G as (_ & -> & _). now apply plugname_active_app.
    + destruct (scp_silent st ch (HP w ch Iw CO)) as (pd & st1 & L & E & G1 & W1). rewrite E.
      pose proof (lookup_name _ _ _ L) as NM.
      assert (ET2 : s_tab (add_active st1 (qmsg_of pd)) = tab) by (cbn [add_active set_active s_tab]; rewrite (keeps_tab _ _ (proj1 G1)); exact ET).
      assert (W2 : s_wait (add_active st1 (qmsg_of pd)) = s_wait st) by exact W1.
      destruct (IH (add_active st1 (qmsg_of pd)) (S k) ET2) as (qs & G & W & Q & P).
      { rewrite W2. intros w' ch' I' C'. change (has_path (add_active st1 (qmsg_of pd)) CStat ch') with (has_path st1 CStat ch').
        rewrite (keeps_has_path _ _ _ _ (proj1 G1)). eapply HP; eassumption. }
      { rewrite W2. lia. }
      exists ([qmsg_of pd] ++ qs). split.
      { change ([qmsg_of pd] ++ qs) with (([] ++ [qmsg_of pd]) ++ qs). change (@nil name) with (([] ++ []) ++ @nil name).
        eapply grows_trans; [eapply grows_trans; [exact G1 | apply grows_add_active] | exact G]. }
      split; [congruence|]. split.
      * intros q [<-|I]; [|rewrite <- W2; now apply Q]. exists w, pd. rewrite NM. rewrite ET in L. auto.
      * rewrite W2 in P. intros w' ch' [<-|I] CO'; [|now apply P]. rewrite CO in CO'. inversion CO'; subst ch'.
        destruct G as (_ & -> & _). apply plugname_active_app. cbn [add_active set_active s_active].
        destruct G1 as (_ & -> & _). rewrite app_nil_r, <- NM. apply plugname_active_q.
  - destruct (IH st (S k) ET HP ltac:(lia)) as (qs & G & W & Q & P). exists qs. split; [exact G|]. split; [exact W|]. split; [exact Q|].
    intros w' ch' [<-|I] CO'; [congruence | now apply P].
  - destruct (IH st (S k) ET HP ltac:(lia)) as (qs & G & W & Q & P). exists qs. split; [exact G|]. split; [exact W|]. split; [exact Q|].
    intros w' ch' [<-|I] CO'; [congruence | now apply P].
Qed.

(* ------------------------------------------------------------------ process_waiters *)
Lemma pw_spec tab A s pda st : s_tab st = tab -> lookup tab A = Some pda ->
  (status_is_on s = true -> forall w ch, In w (s_wait st) -> child_of_ancestor tab (m_plug w) A = WFound ch -> has_path st CStat ch = true) ->
  exists qs, grows st (process_waiters st A s) (filter (pw_mv tab A s) (s_wait st) ++ qs) (pend (filter (pw_an tab A s) (s_wait st))) /\
    s_wait (process_waiters st A s) = filter (pw_kp tab A s) (s_wait st) /\
    (status_is_on s = false -> qs = []) /\
    (forall q, In q qs -> exists w pd, In w (filter (pw_kp tab A s) (s_wait st)) /\ child_of_ancestor tab (m_plug w) A = WFound (p_name pd) /\
                                       lookup tab (p_name pd) = Some pd /\ q = qmsg_of pd) /\
    (status_is_on s = true -> forall w ch, In w (filter (pw_kp tab A s) (s_wait st)) -> child_of_ancestor tab (m_plug w) A = WFound ch ->
                  plugname_active (s_active (process_waiters st A s)) ch (m_cmd w) = true).
Proof.
  intros ET L HP. destruct (pw_first_spec tab A s pda st ET L) as (G1 & W1). unfold process_waiters.
  destruct (status_is_on s) eqn:S.
  - set (st1 := pw_first st A s) in *.
    assert (ET1 : s_tab st1 = tab) by (rewrite (keeps_tab _ _ (proj1 G1)); exact ET).
    destruct (pw_second_spec tab A (scan_fuel st1) st1 0 ET1) as (qs & G & W & Q & P).
    { rewrite W1. intros w ch I CO. rewrite (keeps_has_path _ _ _ _ (proj1 G1)). apply (HP eq_refl w ch); [|exact CO].
      apply filter_In in I. tauto. }
    { unfold scan_fuel. lia. }
    exists qs. split.
    { rewrite <- (app_nil_r (pend _)). eapply grows_trans; eassumption. }
    split; [congruence|]. split; [discriminate|]. split; [now rewrite <- W1|]. intros _. rewrite <- W1. exact P.
  - exists []. rewrite app_nil_r. split; [exact G1|]. split; [exact W1|]. split; [reflexivity|]. split; [intros q []|discriminate].
Qed.

(* the three classes partition the wait list *)
Lemma pw_classes tab A s w :
  (pw_mv tab A s w = true /\ pw_an tab A s w = false /\ pw_kp tab A s w = false) \/
  (pw_mv tab A s w = false /\ pw_an tab A s w = true /\ pw_kp tab A s w = false) \/
  (pw_mv tab A s w = false /\ pw_an tab A s w = false /\ pw_kp tab A s w = true).
Proof. unfold pw_mv, pw_an, pw_kp. destruct (is_desc _ _ _), (status_is_on s), (parent_is w A); cbn; tauto. Qed.
