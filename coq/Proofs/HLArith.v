(* decimal printing, zero padding and _width_equiv: the arithmetic under C14 (DESIGN Appendix A.1, E) *)
From Coq Require Import List Arith NArith ZArith Lia Bool.
From PM Require Import Base.Bytes Model.HL.
From Coq Require Import ZifyBool ZifyNat ZifyN.
Import ListNotations.
Local Open Scope N_scope.
Ltac Zify.zify_post_hook ::= Z.div_mod_to_equations.

Fixpoint p10 (f : nat) : N := match f with O => 1 | S f' => 10 * p10 f' end.
Definition fits (n : N) : Prop := n < p10 FUEL.

Lemma p10_pos f : 0 < p10 f.
Proof. induction f; cbn [p10]; lia. Qed.

Lemma p10_mono a b : (a <= b)%nat -> p10 a <= p10 b.
Proof. induction 1; [lia|]. cbn [p10]. lia. Qed.

Lemma W64_fits n : n < W64 -> fits n.
Proof. unfold fits, W64. intros H. eapply N.lt_trans; [exact H|]. vm_compute. reflexivity. Qed.

Lemma ndig_fuel_mono f : forall n k, n <= k -> k < p10 f -> (ndig_fuel f n <= ndig_fuel f k)%nat.
Proof.
  induction f as [|f IH]; intros n k Hnk Hk; cbn [ndig_fuel]; [lia|].
  destruct (N.ltb_spec n 10) as [Hn10|Hn10]; destruct (N.ltb_spec k 10) as [Hk10|Hk10]; try lia.
  apply le_n_S. apply IH.
  - apply N.div_le_mono; lia.
  - cbn [p10] in Hk. apply N.div_lt_upper_bound; lia.
Qed.

Lemma ndigits_mono n k : n <= k -> fits k -> (ndigits n <= ndigits k)%nat.
Proof. intros; apply ndig_fuel_mono; assumption. Qed.

Lemma ndigits_pos n : (1 <= ndigits n)%nat.
Proof. unfold ndigits, FUEL. cbn [ndig_fuel]. destruct (n <? 10); lia. Qed.

Lemma zp_eq_small n w w' : zp n w = zp n w' -> w <> w' -> (w <= ndigits n /\ w' <= ndigits n)%nat.
Proof. unfold zp; lia. Qed.

Lemma zp_above n k w w' : n <= k -> fits k -> zp n w = zp n w' -> zp k w = zp k w'.
Proof.
  intros Hnk Hk H. destruct (Nat.eq_dec w w') as [->|Hne]; [reflexivity|].
  pose proof (zp_eq_small _ _ _ H Hne). pose proof (ndigits_mono _ _ Hnk Hk). unfold zp. lia.
Qed.

Lemma pad_zp w w' n : zp n w = zp n w' -> pad w n = pad w' n.
Proof. unfold pad. now intros ->. Qed.

Theorem width_equiv_sound_zp n wn m wm wn' wm' :
  width_equiv n wn m wm = Some (wn', wm') ->
  wn' = wm' /\ zp n wn' = zp n wn /\ zp m wm' = zp m wm
  /\ (forall k, n <= k -> fits k -> zp k wn' = zp k wn)
  /\ (forall k, m <= k -> fits k -> zp k wm' = zp k wm).
Proof.
  unfold width_equiv.
  destruct (Nat.eqb (zp n wn) (zp n wm)) eqn:E1;
  destruct (Nat.eqb (zp m wm) (zp m wn)) eqn:E2; cbn [negb andb]; intros H; inversion H; subst; clear H;
  try apply Nat.eqb_eq in E1; try apply Nat.eqb_eq in E2;
  repeat split; auto; intros; try (eapply zp_above; eauto; congruence); congruence.
Qed.

Theorem width_equiv_sound n wn m wm wn' wm' :
  width_equiv n wn m wm = Some (wn', wm') ->
  wn' = wm' /\ pad wn' n = pad wn n /\ pad wm' m = pad wm m
  /\ (forall k, n <= k -> k < W64 -> pad wn' k = pad wn k)
  /\ (forall k, m <= k -> k < W64 -> pad wm' k = pad wm k).
Proof.
  intros H. apply width_equiv_sound_zp in H as (H1 & H2 & H3 & H4 & H5).
  repeat split; auto using pad_zp.
  - intros k Hk Hf. apply pad_zp, H4; auto using W64_fits.
  - intros k Hk Hf. apply pad_zp, H5; auto using W64_fits.
Qed.

Lemma width_equiv_refl n m w : width_equiv n w m w = Some (w, w).
Proof. unfold width_equiv. rewrite !Nat.eqb_refl. reflexivity. Qed.

(* which width survives *)
Lemma width_equiv_cases n wn m wm a b :
  width_equiv n wn m wm = Some (a, b) -> (a = wn /\ b = wn /\ zp m wm = zp m wn) \/ (a = wm /\ b = wm /\ zp n wn = zp n wm).
Proof.
  unfold width_equiv.
  destruct (Nat.eqb (zp n wn) (zp n wm)) eqn:E1;
  destruct (Nat.eqb (zp m wm) (zp m wn)) eqn:E2; cbn [negb andb]; intros H; inversion H; subst; clear H;
  try apply Nat.eqb_eq in E1; try apply Nat.eqb_eq in E2; auto.
Qed.

(* ---------------------------------------------------------------- digits *)
Definition all_digit (ds : text) : Prop := Forall (fun d => is_digit d = true) ds.

Lemma is_digit_range d : is_digit d = true <-> 48 <= d <= 57.
Proof. unfold is_digit. rewrite andb_true_iff, !N.leb_le. tauto. Qed.

Lemma dec_fuel_len f : forall n, n < p10 (S f) -> length (dec_fuel f n) = ndig_fuel f n.
Proof.
  induction f as [|f IH]; intros n Hn; cbn [dec_fuel ndig_fuel]; [reflexivity|].
  destruct (N.ltb_spec n 10); [reflexivity|].
  rewrite app_length, IH; cbn [length]; [lia|]. cbn [p10] in *. apply N.div_lt_upper_bound; lia.
Qed.

Lemma dec_len n : fits n -> length (dec n) = ndigits n.
Proof. intros H. apply dec_fuel_len. unfold fits in H. cbn [p10] in *. lia. Qed.

Lemma pad_len w n : fits n -> length (pad w n) = Nat.max w (ndigits n).
Proof. intros H. unfold pad, zp. rewrite app_length, repeat_length, dec_len by assumption. lia. Qed.

Lemma digit_val_app a b : digit_val (a ++ b) = fold_left (fun x d => 10 * x + (d - 48)) b (digit_val a).
Proof. unfold digit_val; now rewrite fold_left_app. Qed.

Lemma digit_val_snoc a d : digit_val (a ++ [d]) = 10 * digit_val a + (d - 48).
Proof. rewrite digit_val_app. reflexivity. Qed.

Lemma digit_val_dec_fuel f : forall n, n < p10 (S f) -> digit_val (dec_fuel f n) = n.
Proof.
  induction f as [|f IH]; intros n Hn; cbn [dec_fuel].
  - cbn [p10] in Hn. unfold digit_val; cbn [fold_left]. rewrite N.mod_small; lia.
  - destruct (N.ltb_spec n 10); [unfold digit_val; cbn [fold_left]; lia|].
    rewrite digit_val_snoc, IH.
    + pose proof (N.div_mod n 10 ltac:(lia)). lia.
    + cbn [p10] in *. apply N.div_lt_upper_bound; lia.
Qed.

Lemma digit_val_dec n : fits n -> digit_val (dec n) = n.
Proof. intros H. apply digit_val_dec_fuel. unfold fits in H. cbn [p10] in *. lia. Qed.

Lemma all_digit_dec_fuel f : forall n, n < p10 (S f) -> all_digit (dec_fuel f n).
Proof.
  induction f as [|f IH]; intros n Hn; cbn [dec_fuel].
  - repeat constructor. apply is_digit_range. pose proof (N.mod_lt n 10 ltac:(lia)). lia.
  - destruct (N.ltb_spec n 10); [repeat constructor; apply is_digit_range; lia|].
    apply Forall_app; split; [apply IH; cbn [p10] in *; apply N.div_lt_upper_bound; lia|].
    repeat constructor. apply is_digit_range. pose proof (N.mod_lt n 10 ltac:(lia)). lia.
Qed.

Lemma all_digit_dec n : fits n -> all_digit (dec n).
Proof. intros H. apply all_digit_dec_fuel. unfold fits in H. cbn [p10] in *. lia. Qed.

Lemma all_digit_zeros k : all_digit (repeat 48 k).
Proof. apply Forall_forall. intros x Hx. apply repeat_spec in Hx. subst. reflexivity. Qed.

Lemma all_digit_pad w n : fits n -> all_digit (pad w n).
Proof. intros H. apply Forall_app. split; [apply all_digit_zeros | now apply all_digit_dec]. Qed.

Lemma digit_val_lt ds : all_digit ds -> digit_val ds < p10 (length ds).
Proof.
  induction ds as [|d ds IH] using rev_ind; intros H; [cbn; lia|].
  apply Forall_app in H as [H1 H2]. inversion H2 as [|? ? Hd _]; subst. apply is_digit_range in Hd.
  rewrite digit_val_snoc, app_length; cbn [length]. rewrite Nat.add_1_r; cbn [p10].
  specialize (IH H1). lia.
Qed.

Lemma ndig_fuel_le f : forall n k, n < p10 (S k) -> (ndig_fuel f n <= S k)%nat.
Proof.
  induction f as [|f IH]; intros n k Hn; cbn [ndig_fuel]; [lia|].
  destruct (N.ltb_spec n 10); [lia|].
  destruct k as [|k]; [cbn in Hn; lia|].
  apply le_n_S, IH. cbn [p10] in *. apply N.div_lt_upper_bound; lia.
Qed.

Lemma digit_val_zeros k x : digit_val (repeat 48 k ++ x) = digit_val x.
Proof. induction k as [|k IH]; [reflexivity|]. cbn [repeat app]. unfold digit_val in *. cbn [fold_left]. exact IH. Qed.

Lemma digit_val_inj : forall a b, all_digit a -> all_digit b -> length a = length b -> digit_val a = digit_val b -> a = b.
Proof.
  induction a as [|x a IH] using rev_ind; intros b Ha Hb Hl Hv.
  - destruct b; [reflexivity|discriminate].
  - destruct b as [|y b _] using rev_ind; [rewrite app_length in Hl; cbn in Hl; lia|].
    apply Forall_app in Ha as [Ha Hx]; apply Forall_app in Hb as [Hb Hy].
    inversion Hx as [|? ? Hx' _]; inversion Hy as [|? ? Hy' _]; subst.
    apply is_digit_range in Hx'. apply is_digit_range in Hy'.
    rewrite !digit_val_snoc in Hv. rewrite !app_length in Hl; cbn in Hl.
    assert (digit_val a = digit_val b /\ x = y) as [Hv' ->] by lia.
    f_equal. apply IH; auto; lia.
Qed.

(* printing a digit string's value at the string's own width gives the string back *)
Theorem digits_roundtrip ds : ds <> [] -> all_digit ds -> fits (digit_val ds) ->
  pad (length ds) (digit_val ds) = ds.
Proof.
  intros Hne Hd Hfit. pose proof (digit_val_lt ds Hd) as Hv.
  destruct ds as [|d0 ds0]; [congruence|]. set (ds := d0 :: ds0) in *.
  assert (Hnd : (ndigits (digit_val ds) <= length ds)%nat).
  { unfold ndigits. change (length ds) with (S (length ds0)). apply ndig_fuel_le. exact Hv. }
  apply digit_val_inj; auto.
  - now apply all_digit_pad.
  - rewrite pad_len by assumption. lia.
  - unfold pad. rewrite digit_val_zeros. now apply digit_val_dec.
Qed.

(* two paddings of numbers spell the same text only for the same number *)
Lemma pad_inj_num w n w' n' : fits n -> fits n' -> pad w n = pad w' n' -> n = n'.
Proof.
  intros Hn Hn' H. apply (f_equal digit_val) in H. unfold pad in H.
  rewrite !digit_val_zeros, !digit_val_dec in H; assumption.
Qed.

Lemma pad_nonempty w n : pad w n <> [].
Proof.
  unfold pad, dec, FUEL. cbn [dec_fuel]. destruct (n <? 10); intros H; apply app_eq_nil in H as [_ H];
    [discriminate | apply app_eq_nil in H as [_ H]; discriminate].
Qed.
