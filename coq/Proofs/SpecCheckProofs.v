(* Soundness of the C17 checker (Model/SpecCheck.v) with respect to the execution semantics of
   Spec/SpecCheckSpec.v: spec_ok implies every hsprintf / sub_strdup call of every execution is safe. *)
From Coq Require Import List NArith ZArith Bool Lia Arith.
From PM Require Import Base.Bytes Gen.GenConsts Model.ScriptAst Model.RegexSyn Model.Fmt Model.SpecCheck
  Spec.SpecCheckSpec.
Import ListNotations.

(* ------------------------------------------------------------------ unfolding the nested fixpoints *)
Lemma xout_blk_eq : forall l x,
  (fix blk (x : xstate) (l : list stmt) {struct l} : xstate :=
     match l with [] => x | s' :: r => blk (xout_stmt x s') r end) x l = xout_block x l.
Proof. induction l as [|s r IH]; intros x; cbn [xout_block]; [reflexivity | apply IH]. Qed.

Lemma xout_stmt_body x s b : loop_body s = Some b \/ if_body s = Some b ->
  xout_stmt x s = xjoin x (xout_block x b).
Proof.
  intros [H|H]; destruct s; cbn [loop_body if_body] in H; try discriminate; inversion H; subst;
    cbn [xout_stmt]; rewrite xout_blk_eq; reflexivity.
Qed.

Lemma check_blk_eq idx : forall l arg x path i,
  (fix blk (arg : bool) (x : xstate) (path : list nat) (i : nat) (l : list stmt) {struct l} : list failure :=
     match l with
     | [] => []
     | s' :: r => check_stmt idx arg x (path ++ [i]) s' ++ blk arg (xout_stmt x s') path (S i) r
     end) arg x path i l = check_block idx arg x path i l.
Proof. induction l as [|s r IH]; intros; cbn [check_block]; [reflexivity | rewrite IH; reflexivity]. Qed.

Lemma check_stmt_loop idx arg x path s b : loop_body s = Some b ->
  check_stmt idx arg x path s =
    fail_if idx (nonempty b) R_EMPTY path ++
    fail_if idx (foreach_allowed idx) R_FOREACH_SCOPE path ++
    fail_if idx (xle (xjoin x (xout_block x b)) (xout_block (xjoin x (xout_block x b)) b)) R_LOOP path ++
    check_block idx true (xjoin x (xout_block x b)) path 0 b.
Proof.
  intros H; destruct s; cbn [loop_body] in H; try discriminate; inversion H; subst;
    cbn [check_stmt]; rewrite check_blk_eq; reflexivity.
Qed.

Lemma check_stmt_if idx arg x path s b : if_body s = Some b ->
  check_stmt idx arg x path s =
    fail_if idx (nonempty b) R_EMPTY path ++ fail_if idx arg R_IF_SCOPE path ++ check_block idx arg x path 0 b.
Proof.
  intros H; destruct s; cbn [if_body] in H; try discriminate; inversion H; subst;
    cbn [check_stmt]; rewrite check_blk_eq; reflexivity.
Qed.

Lemma sends_blk_eq : forall l arg path i,
  (fix blk (arg : bool) (path : list nat) (i : nat) (l : list stmt) {struct l} : list (list nat * text * bool) :=
     match l with
     | [] => []
     | s' :: r => sends_stmt arg (path ++ [i]) s' ++ blk arg path (S i) r
     end) arg path i l = sends_block arg path i l.
Proof. induction l as [|s r IH]; intros; cbn [sends_block]; [reflexivity | rewrite IH; reflexivity]. Qed.

Lemma fail_if_nil idx ok r p : fail_if idx ok r p = [] -> ok = true.
Proof. unfold fail_if; destruct ok; [reflexivity | discriminate]. Qed.

Lemma nonempty_neq l : nonempty l = true -> l <> [].
Proof. destruct l; [discriminate | intros _ C; discriminate]. Qed.

(* ------------------------------------------------------------------ the order on xstate *)
Lemma xle_refl a : xle a a = true.
Proof. destruct a; cbn; [apply Nat.leb_refl | reflexivity]. Qed.

Lemma xle_trans a b c : xle a b = true -> xle b c = true -> xle a c = true.
Proof.
  destruct a, b, c; cbn; intros H1 H2; try reflexivity; try discriminate.
  apply Nat.leb_le in H1, H2. apply Nat.leb_le. lia.
Qed.

Lemma xle_join_l a b : xle (xjoin a b) a = true.
Proof. destruct a, b; cbn; try reflexivity. apply Nat.leb_le. lia. Qed.

Lemma xle_join_r a b : xle (xjoin a b) b = true.
Proof. destruct a, b; cbn; try reflexivity. apply Nat.leb_le. lia. Qed.

Lemma xjoin_absorb a b : xle a b = true -> xjoin a b = a.
Proof.
  destruct a, b; cbn; intros H; try reflexivity; try discriminate.
  apply Nat.leb_le in H. f_equal. lia.
Qed.

Lemma mp_ok_mono xa xc n : xle xa xc = true -> mp_ok xa n = true -> mp_ok xc n = true.
Proof.
  destruct xa as [ga|], xc as [gc|]; cbn; intros H1 H2; try discriminate.
  apply Nat.leb_le in H1. apply andb_true_iff in H2 as [H2 H3]. apply andb_true_iff in H2 as [H2 H4].
  rewrite H2, H3. cbn. rewrite andb_true_r. apply Z.leb_le in H4. apply Z.leb_le. lia.
Qed.

Lemma mp_opt_ok_mono xa xc n : xle xa xc = true -> mp_opt_ok xa n = true -> mp_opt_ok xc n = true.
Proof.
  intros H1 H2. destruct xa as [ga|] eqn:Ea; [|discriminate]. destruct xc as [gc|] eqn:Ec; [|discriminate].
  unfold mp_opt_ok in *. apply orb_true_iff in H2 as [H2|H2]; [rewrite H2; reflexivity|].
  rewrite (mp_ok_mono (Some ga) (Some gc) n H1 H2). apply orb_true_r.
Qed.

Lemma has_expect_mono xa xc : xle xa xc = true -> has_expect xa = true -> has_expect xc = true.
Proof. destruct xa, xc; cbn; congruence. Qed.

(* ------------------------------------------------------------------ boolean monitor of a trace *)
Fixpoint trace_okb (idx : Z) (x : xstate) (tr : list event) : bool :=
  match tr with
  | [] => true
  | EvSend f a :: r => send_ok a f && trace_okb idx x r
  | EvExpect re :: r => pat_ok re && trace_okb idx (Some (ng re)) r
  | EvSub n opt :: r => (if opt then mp_opt_ok x n else mp_ok x n) && trace_okb idx x r
  | EvDiag :: r => negb (no_diag idx) && trace_okb idx x r
  end.

Fixpoint xfinal (x : xstate) (tr : list event) : xstate :=
  match tr with
  | [] => x
  | EvExpect re :: r => xfinal (Some (ng re)) r
  | _ :: r => xfinal x r
  end.

Lemma trace_okb_app idx : forall t1 x t2,
  trace_okb idx x (t1 ++ t2) = trace_okb idx x t1 && trace_okb idx (xfinal x t1) t2.
Proof.
  induction t1 as [|e t1 IH]; intros x t2; [reflexivity|].
  destruct e; cbn [app trace_okb xfinal]; rewrite IH, andb_assoc; reflexivity.
Qed.

Lemma xfinal_app : forall t1 x t2, xfinal x (t1 ++ t2) = xfinal (xfinal x t1) t2.
Proof. induction t1 as [|e t1 IH]; intros x t2; [reflexivity|]. destruct e; cbn [app xfinal]; apply IH. Qed.

Ltac split_nil H :=
  repeat match type of H with
         | _ ++ _ = [] => let H1 := fresh "Hf" in let H2 := fresh "Hf" in
                          apply app_eq_nil in H as [H1 H2]; try split_nil H1; try split_nil H2
         end.

(* ------------------------------------------------------------------ main soundness lemma *)
Lemma run_safe idx : forall arg l tr, run arg l tr ->
  forall xa xc path i, check_block idx arg xa path i l = [] -> xle xa xc = true ->
  trace_okb idx xc tr = true /\ xle (xout_block xa l) (xfinal xc tr) = true.
Proof.
  induction 1; intros xa xc path i Hc Hle.
  - (* nil *) cbn. split; [reflexivity | exact Hle].
  - (* send *)
    cbn [check_block check_stmt] in Hc. apply app_eq_nil in Hc as [Q1 Q2]. apply fail_if_nil in Q1.
    cbn [xout_stmt] in Q2. destruct (IHrun _ _ _ _ Q2 Hle) as [T X].
    cbn [trace_okb xfinal xout_block xout_stmt]. rewrite Q1, T. split; [reflexivity | exact X].
  - (* expect *)
    cbn [check_block check_stmt] in Hc. apply app_eq_nil in Hc as [Q1 Q2]. apply fail_if_nil in Q1.
    cbn [xout_stmt] in Q2. destruct (IHrun _ (Some (ng re)) _ _ Q2 (xle_refl _)) as [T X].
    cbn [trace_okb xfinal xout_block xout_stmt]. rewrite Q1, T. split; [reflexivity | exact X].
  - (* setplugstate literal *)
    cbn [check_block check_stmt] in Hc. apply app_eq_nil in Hc as [Q1 Q2].
    apply app_eq_nil in Q1 as [Ha Q1]. apply app_eq_nil in Q1 as [_ Q1]. apply app_eq_nil in Q1 as [Hb _].
    apply fail_if_nil in Ha, Hb. rewrite Ha in Hb. cbn in Hb.
    cbn [xout_stmt] in Q2. destruct (IHrun _ _ _ _ Q2 Hle) as [T X].
    cbn [trace_okb xfinal xout_block xout_stmt]. rewrite (mp_ok_mono _ _ _ Hle Hb), T. split; [reflexivity | exact X].
  - (* setplugstate $p $q *)
    cbn [check_block check_stmt] in Hc. apply app_eq_nil in Hc as [Q1 Q2].
    apply app_eq_nil in Q1 as [Ha Q1]. apply app_eq_nil in Q1 as [Hp Q1]. apply app_eq_nil in Q1 as [Hb _].
    apply fail_if_nil in Ha, Hb, Hp. rewrite Ha in Hb, Hp. cbn in Hb, Hp.
    cbn [xout_stmt] in Q2. destruct (IHrun _ _ _ _ Q2 Hle) as [T X].
    cbn [trace_okb xfinal xout_block xout_stmt].
    rewrite (mp_ok_mono _ _ _ Hle Hb), (mp_opt_ok_mono _ _ _ Hle Hp), T. split; [reflexivity | exact X].
  - (* setresult *)
    cbn [check_block check_stmt] in Hc. apply app_eq_nil in Hc as [Q1 Q2].
    apply app_eq_nil in Q1 as [Hd Q1]. apply app_eq_nil in Q1 as [Ha Q1].
    apply app_eq_nil in Q1 as [Hp Q1]. apply app_eq_nil in Q1 as [Hb _].
    apply fail_if_nil in Ha, Hb, Hp, Hd. rewrite Ha in Hb, Hp. cbn in Hb, Hp.
    cbn [xout_stmt] in Q2. destruct (IHrun _ _ _ _ Q2 Hle) as [T X].
    cbn [trace_okb xfinal xout_block xout_stmt].
    rewrite (mp_ok_mono _ _ _ Hle Hb), (mp_ok_mono _ _ _ Hle Hp), Hd, T. split; [reflexivity | exact X].
  - (* delay *)
    cbn [check_block check_stmt] in Hc. cbn [xout_stmt app] in Hc.
    destruct (IHrun _ _ _ _ Hc Hle) as [T X]. cbn [xout_block xout_stmt]. split; assumption.
  - (* loop, no (more) iteration *)
    cbn [check_block] in Hc. apply app_eq_nil in Hc as [_ Q2].
    rewrite (xout_stmt_body xa s b (or_introl H)) in Q2.
    assert (Hle' : xle (xjoin xa (xout_block xa b)) xc = true) by (eapply xle_trans; [apply xle_join_l | exact Hle]).
    destruct (IHrun _ _ _ _ Q2 Hle') as [T X].
    cbn [xout_block]. rewrite (xout_stmt_body xa s b (or_introl H)). split; assumption.
  - (* loop, one iteration then the rest *)
    pose proof Hc as Hc0.
    cbn [check_block] in Hc. apply app_eq_nil in Hc as [Q1 Q2].
    rewrite (check_stmt_loop idx a xa (path ++ [i]) s b H) in Q1.
    apply app_eq_nil in Q1 as [Hne Q1].
    apply app_eq_nil in Q1 as [Hscope Q1]. apply app_eq_nil in Q1 as [Hloop Hbody].
    apply fail_if_nil in Hloop.
    rewrite (xout_stmt_body xa s b (or_introl H)) in Q2.
    set (e := xjoin xa (xout_block xa b)) in *.
    assert (Hle_e : xle e xc = true) by (eapply xle_trans; [apply xle_join_l | exact Hle]).
    destruct (IHrun1 _ _ _ _ Hbody Hle_e) as [T1 X1].
    assert (Habs : xjoin e (xout_block e b) = e) by (apply xjoin_absorb; exact Hloop).
    assert (Hc_e : check_block idx a e path i (s :: r) = []).
    { cbn [check_block]. rewrite (check_stmt_loop idx a e (path ++ [i]) s b H).
      rewrite (xout_stmt_body e s b (or_introl H)). rewrite Habs.
      rewrite Hne, Hscope, Hbody, Q2. unfold fail_if. rewrite Hloop. reflexivity. }
    assert (Hle2 : xle e (xfinal xc t1) = true) by (eapply xle_trans; [exact Hloop | exact X1]).
    destruct (IHrun2 _ _ _ _ Hc_e Hle2) as [T2 X2].
    rewrite trace_okb_app, T1, T2, xfinal_app. split; [reflexivity|].
    cbn [xout_block] in X2 |- *. rewrite (xout_stmt_body e s b (or_introl H)), Habs in X2.
    rewrite (xout_stmt_body xa s b (or_introl H)). exact X2.
  - (* if, skipped *)
    cbn [check_block] in Hc. apply app_eq_nil in Hc as [_ Q2].
    rewrite (xout_stmt_body xa s b (or_intror H)) in Q2.
    assert (Hle' : xle (xjoin xa (xout_block xa b)) xc = true) by (eapply xle_trans; [apply xle_join_l | exact Hle]).
    destruct (IHrun _ _ _ _ Q2 Hle') as [T X].
    cbn [xout_block]. rewrite (xout_stmt_body xa s b (or_intror H)). split; assumption.
  - (* if, taken *)
    cbn [check_block] in Hc. apply app_eq_nil in Hc as [Q1 Q2].
    rewrite (check_stmt_if idx true xa (path ++ [i]) s b H) in Q1.
    apply app_eq_nil in Q1 as [_ Q1]. apply app_eq_nil in Q1 as [_ Hbody].
    rewrite (xout_stmt_body xa s b (or_intror H)) in Q2.
    destruct (IHrun1 _ _ _ _ Hbody Hle) as [T1 X1].
    assert (Hle2 : xle (xjoin xa (xout_block xa b)) (xfinal xc t1) = true)
      by (eapply xle_trans; [apply xle_join_r | exact X1]).
    destruct (IHrun2 _ _ _ _ Q2 Hle2) as [T2 X2].
    rewrite trace_okb_app, T1, T2, xfinal_app. split; [reflexivity|].
    cbn [xout_block]. rewrite (xout_stmt_body xa s b (or_intror H)). exact X2.
Qed.

(* ------------------------------------------------------------------ from the monitor to the statements *)
Lemma conv_class_args c :
  match conv_class c with
  | CPercent => conv_args c = []
  | CString => conv_args c = [AStr]
  | COther => True
  end.
Proof.
  destruct c as [pos fl w p len cv]. unfold conv_class, conv_args. cbn [c_conv c_pos c_flags c_width c_prec c_len].
  destruct cv as [b|]; [|exact I].
  destruct (N.eqb b c_pct) eqn:E1.
  - destruct pos; [exact I|]. destruct fl; [|exact I]. destruct w; try exact I. destruct p; try exact I.
    destruct len; [|exact I]. unfold conv_char_args. rewrite E1. reflexivity.
  - destruct (N.eqb b 115) eqn:E2; [|exact I].
    destruct pos; [exact I|]. destruct len; [|exact I].
    destruct (no_star w && no_star p) eqn:E3; [|exact I].
    apply andb_true_iff in E3 as [Ew Ep].
    unfold conv_char_args. rewrite E1, E2.
    destruct w; try discriminate; destruct p; try discriminate; reflexivity.
Qed.

Lemma send_ok_args_aux arg : forall cs,
  forallb (conv_ok arg) cs = true ->
  (forall t, In t (flat_map conv_args cs) -> t = AStr) /\
  length (flat_map conv_args cs) = count_strings cs /\
  (flat_map conv_args cs <> [] -> arg = true).
Proof.
  induction cs as [|c cs IH]; intros H.
  - cbn. repeat split; [intros t [] | intros C; congruence].
  - cbn [forallb] in H. apply andb_true_iff in H as [Hc H]. destruct (IH H) as (A & B & C).
    unfold conv_ok in Hc. pose proof (conv_class_args c) as K.
    unfold count_strings in *. cbn [flat_map filter].
    destruct (conv_class c) eqn:E.
    + rewrite K. cbn [app]. repeat split; assumption.
    + rewrite K. cbn [app length In]. repeat split.
      * intros t [<-|Ht]; [reflexivity | apply A; exact Ht].
      * rewrite B. reflexivity.
      * intros _. exact Hc.
    + discriminate.
Qed.

Lemma send_ok_safe arg fmt : send_ok arg fmt = true -> fmt_safe arg fmt.
Proof.
  unfold send_ok, fmt_safe, fmt_args. intros H. apply andb_true_iff in H as [H1 H2].
  destruct (send_ok_args_aux arg _ H1) as (A & B & C). apply Nat.leb_le in H2.
  repeat split; [exact A | rewrite B; exact H2 | exact C].
Qed.

Lemma trace_okb_send idx : forall pre x f a post,
  trace_okb idx x (pre ++ EvSend f a :: post) = true -> send_ok a f = true.
Proof.
  induction pre as [|e pre IH]; intros x f a post H.
  - cbn in H. apply andb_true_iff in H as [H _]. exact H.
  - destruct e; cbn [app trace_okb] in H; apply andb_true_iff in H as [_ H]; eapply IH; exact H.
Qed.

Lemma trace_okb_diag idx : forall pre x post,
  trace_okb idx x (pre ++ EvDiag :: post) = true -> no_diag idx = false.
Proof.
  induction pre as [|e pre IH]; intros x post H.
  - cbn in H. apply andb_true_iff in H as [H _]. destruct (no_diag idx); [discriminate | reflexivity].
  - destruct e; cbn [app trace_okb] in H; apply andb_true_iff in H as [_ H]; eapply IH; exact H.
Qed.

Lemma trace_okb_sub idx : forall pre acc x n opt post,
  trace_okb idx x (pre ++ EvSub n opt :: post) = true ->
  (forall re, acc = Some re -> x = Some (ng re) /\ pat_ok re = true) ->
  (acc = None -> x = None) ->
  exists re, last_expect_from acc pre = Some re /\ pat_ok re = true /\
             (if opt then mp_opt_ok (Some (ng re)) n else mp_ok (Some (ng re)) n) = true.
Proof.
  induction pre as [|e pre IH]; intros acc x n opt post H Hs Hn.
  - cbn [app trace_okb last_expect_from] in *. apply andb_true_iff in H as [H _].
    destruct acc as [re|].
    + destruct (Hs re eq_refl) as [-> P]. exists re. repeat split; assumption.
    + rewrite (Hn eq_refl) in H. destruct opt; discriminate.
  - destruct e; cbn [app trace_okb last_expect_from] in *; apply andb_true_iff in H as [H0 H].
    + eapply IH; eassumption.
    + eapply IH; [exact H | |].
      * intros re' E. inversion E; subst. split; [reflexivity | exact H0].
      * discriminate.
    + eapply IH; eassumption.
    + eapply IH; eassumption.
Qed.

Lemma sub_safe_of_monitor idx pre n opt post :
  trace_okb idx None (pre ++ EvSub n opt :: post) = true -> sub_safe pre n opt.
Proof.
  intros H. destruct (trace_okb_sub idx pre None None n opt post H) as (re & L & P & M).
  - discriminate.
  - reflexivity.
  - unfold pat_ok in P. unfold ng in M. destruct (ngroups re) as [g|] eqn:G; [|discriminate].
    exists re, g. split; [exact L|]. split; [exact G|].
    assert (K : mp_ok (Some g) n = true -> (0 <= n <= Z.of_nat g /\ n <= MAX_MATCH_POS)%Z).
    { cbn. intros K. apply andb_true_iff in K as [K K3]. apply andb_true_iff in K as [K1 K2].
      apply Z.leb_le in K1, K2, K3. lia. }
    destruct opt.
    + unfold mp_opt_ok in M. apply orb_true_iff in M as [M|M].
      * left. split; [reflexivity | apply Z.eqb_eq; exact M].
      * right. apply K; exact M.
    + right. apply K; exact M.
Qed.

(* ------------------------------------------------------------------ spec level *)
Lemma flat_map_nil {A B} (f : A -> list B) : forall l, flat_map f l = [] -> forall x, In x l -> f x = [].
Proof.
  induction l as [|a l IH]; intros H x Hx; [destruct Hx|].
  cbn in H. apply app_eq_nil in H as [H1 H2]. destruct Hx as [<-|Hx]; [exact H1 | apply IH; assumption].
Qed.

Lemma spec_ok_failures s : spec_ok s = true -> spec_failures s = [].
Proof. unfold spec_ok. destruct (spec_failures s); [reflexivity | discriminate]. Qed.

Lemma spec_ok_script s idx body : spec_ok s = true -> In (idx, body) (sp_scripts s) ->
  check_block idx (top_arg (kind_of idx)) None [] 0 body = [] /\ (0 <= idx < NUM_SCRIPTS)%Z /\ body <> [].
Proof.
  intros H Hin. apply spec_ok_failures in H. unfold spec_failures in H.
  apply app_eq_nil in H as [_ H]. apply app_eq_nil in H as [_ H].
  pose proof (flat_map_nil _ _ H _ Hin) as K. cbn [check_script] in K.
  apply app_eq_nil in K as [K1 K2]. apply app_eq_nil in K2 as [Kn K2]. apply fail_if_nil in Kn.
  apply fail_if_nil in K1. apply andb_true_iff in K1 as [A B].
  apply Z.leb_le in A. apply Z.ltb_lt in B. split; [exact K2 | split; [lia | exact (nonempty_neq _ Kn)]].
Qed.

Lemma spec_ok_login_timeout s : spec_ok s = true ->
  (exists body, assoc_script PM_LOG_IN (sp_scripts s) = Some body) /\ (0 < sp_timeout s)%Z.
Proof.
  intros H. apply spec_ok_failures in H. unfold spec_failures in H.
  apply app_eq_nil in H as [H1 H]. apply app_eq_nil in H as [H2 _].
  apply fail_if_nil in H1, H2. unfold has_login in H1. apply Z.ltb_lt in H2. split; [|exact H2].
  destruct (assoc_script PM_LOG_IN (sp_scripts s)) as [b|]; [exists b; reflexivity | discriminate].
Qed.

Theorem spec_ok_trace s idx body tr : spec_ok s = true -> In (idx, body) (sp_scripts s) ->
  run (top_arg (kind_of idx)) body tr -> trace_okb idx None tr = true.
Proof.
  intros H Hin Hr. destruct (spec_ok_script s idx body H Hin) as (Hc & _ & _).
  exact (proj1 (run_safe idx _ _ _ Hr None None [] 0%nat Hc eq_refl)).
Qed.

Theorem meaning_send s idx body tr : spec_ok s = true -> In (idx, body) (sp_scripts s) ->
  run (top_arg (kind_of idx)) body tr ->
  forall pre fmt arg post, tr = pre ++ EvSend fmt arg :: post -> fmt_safe arg fmt.
Proof.
  intros H Hin Hr pre fmt arg post ->. apply send_ok_safe.
  eapply trace_okb_send. eapply spec_ok_trace; eassumption.
Qed.

Theorem meaning_groups s idx body tr : spec_ok s = true -> In (idx, body) (sp_scripts s) ->
  run (top_arg (kind_of idx)) body tr ->
  forall pre n opt post, tr = pre ++ EvSub n opt :: post -> sub_safe pre n opt.
Proof.
  intros H Hin Hr pre n opt post ->. eapply sub_safe_of_monitor. eapply spec_ok_trace; eassumption.
Qed.

Theorem meaning_diag s idx body tr : spec_ok s = true -> In (idx, body) (sp_scripts s) ->
  run (top_arg (kind_of idx)) body tr -> In EvDiag tr -> no_diag idx = false.
Proof.
  intros H Hin Hr Hd. apply in_split in Hd as (pre & post & ->).
  eapply trace_okb_diag. eapply spec_ok_trace; eassumption.
Qed.

Theorem meaning_setresult s idx body tr : spec_ok s = true -> In (idx, body) (sp_scripts s) ->
  run (top_arg (kind_of idx)) body tr -> In EvDiag tr ->
  idx <> PM_LOG_IN /\ idx <> PM_LOG_OUT /\ idx <> PM_PING.
Proof.
  intros H1 H2 H3 H4. pose proof (meaning_diag s idx body tr H1 H2 H3 H4) as K.
  unfold no_diag in K. apply orb_false_iff in K as [K K3]. apply orb_false_iff in K as [K1 K2].
  apply Z.eqb_neq in K1, K2, K3. auto.
Qed.

(* ------------------------------------------------------------------ scoping *)
Fixpoint block_size (l : list stmt) : nat :=
  match l with [] => 0 | s :: r => stmt_size s + block_size r end.

Lemma stmt_size_body s b : loop_body s = Some b \/ if_body s = Some b -> stmt_size s = S (block_size b).
Proof.
  assert (G : forall l, (fix go (l : list stmt) : nat := match l with [] => O | x :: r => stmt_size x + go r end) l
                        = block_size l).
  { induction l as [|x r IH]; [reflexivity|]. cbn [block_size]. rewrite <- IH. reflexivity. }
  intros [H|H]; destruct s; cbn [loop_body if_body] in H; try discriminate; inversion H; subst;
    cbn [stmt_size]; rewrite G; reflexivity.
Qed.

Lemma stmt_size_pos s : (1 <= stmt_size s)%nat.
Proof. destruct s; cbn [stmt_size]; lia. Qed.

Lemma scoped_of_check idx : forall n l, (block_size l <= n)%nat ->
  forall arg x path i, check_block idx arg x path i l = [] -> scoped_block idx arg l.
Proof.
  induction n as [|n IH]; intros l Hn arg x path i Hc.
  - destruct l as [|s r]; [constructor|]. cbn [block_size] in Hn. pose proof (stmt_size_pos s). lia.
  - destruct l as [|s r]; [constructor|].
    cbn [block_size] in Hn. cbn [check_block] in Hc. apply app_eq_nil in Hc as [H1 H2].
    pose proof (stmt_size_pos s) as Hp.
    assert (Hr : scoped_block idx arg r) by (eapply IH; [|exact H2]; lia).
    destruct (loop_body s) as [b|] eqn:EL.
    + rewrite (check_stmt_loop idx arg x (path ++ [i]) s b EL) in H1.
      apply app_eq_nil in H1 as [Hne H1]. apply fail_if_nil in Hne.
      apply app_eq_nil in H1 as [Hs H1]. apply app_eq_nil in H1 as [_ Hb]. apply fail_if_nil in Hs.
      pose proof (stmt_size_body s b (or_introl EL)) as Sz.
      eapply sb_loop; [exact EL | exact (nonempty_neq _ Hne) | exact Hs | eapply IH; [|exact Hb]; lia | exact Hr].
    + destruct (if_body s) as [b|] eqn:EI.
      * rewrite (check_stmt_if idx arg x (path ++ [i]) s b EI) in H1.
        apply app_eq_nil in H1 as [Hne H1]. apply fail_if_nil in Hne.
        apply app_eq_nil in H1 as [Ha Hb]. apply fail_if_nil in Ha. subst arg.
        pose proof (stmt_size_body s b (or_intror EI)) as Sz.
        eapply sb_if; [exact EI | exact (nonempty_neq _ Hne) | reflexivity | eapply IH; [|exact Hb]; lia | exact Hr].
      * eapply sb_other; [exact EL | exact EI | | exact Hr].
        intros p q il ->. cbn [check_stmt] in H1. apply app_eq_nil in H1 as [Hd _].
        apply fail_if_nil in Hd. destruct (no_diag idx); [discriminate | reflexivity].
Qed.

Theorem spec_ok_scoped s : spec_ok s = true -> Forall scoped_script (sp_scripts s).
Proof.
  intros H. apply Forall_forall. intros [idx body] Hin. unfold scoped_script. cbn [fst snd].
  destruct (spec_ok_script s idx body H Hin) as (Hc & _ & Hne).
  split; [exact Hne | eapply scoped_of_check; [apply Nat.le_refl | exact Hc]].
Qed.

(* ------------------------------------------------------------------ sends_block lists every send of every run *)
Lemma sends_stmt_body arg path s b :
  (loop_body s = Some b -> sends_stmt arg path s = sends_block true path 0 b) /\
  (if_body s = Some b -> sends_stmt arg path s = sends_block arg path 0 b).
Proof.
  split; intros H; destruct s; cbn [loop_body if_body] in H; try discriminate; inversion H; subst;
    cbn [sends_stmt]; rewrite sends_blk_eq; reflexivity.
Qed.

Lemma run_sends_listed : forall arg l tr, run arg l tr ->
  forall path i f a, In (EvSend f a) tr -> exists p, In (p, f, a) (sends_block arg path i l).
Proof.
  induction 1; intros path i f0 a0 Hin.
  - destruct Hin.
  - cbn [sends_block sends_stmt]. destruct Hin as [E|Hin].
    + inversion E; subst. exists (path ++ [i]). left. reflexivity.
    + destruct (IHrun path (S i) _ _ Hin) as [p Hp]. exists p. right. exact Hp.
  - destruct Hin as [E|Hin]; [discriminate|]. cbn [sends_block sends_stmt app]. eapply IHrun; exact Hin.
  - destruct Hin as [E|Hin]; [discriminate|]. cbn [sends_block sends_stmt app]. eapply IHrun; exact Hin.
  - destruct Hin as [E|[E|Hin]]; try discriminate. cbn [sends_block sends_stmt app]. eapply IHrun; exact Hin.
  - destruct Hin as [E|[E|[E|Hin]]]; try discriminate. cbn [sends_block sends_stmt app]. eapply IHrun; exact Hin.
  - cbn [sends_block sends_stmt app]. eapply IHrun; exact Hin.
  - cbn [sends_block]. destruct (IHrun path (S i) _ _ Hin) as [p Hp]. exists p. apply in_or_app. right. exact Hp.
  - apply in_app_or in Hin as [Hin|Hin].
    + destruct (IHrun1 (path ++ [i]) 0%nat _ _ Hin) as [p Hp]. exists p. cbn [sends_block]. apply in_or_app. left.
      rewrite (proj1 (sends_stmt_body a (path ++ [i]) s b) H). exact Hp.
    + eapply IHrun2; exact Hin.
  - cbn [sends_block]. destruct (IHrun path (S i) _ _ Hin) as [p Hp]. exists p. apply in_or_app. right. exact Hp.
  - apply in_app_or in Hin as [Hin|Hin].
    + destruct (IHrun1 (path ++ [i]) 0%nat _ _ Hin) as [p Hp]. exists p. cbn [sends_block]. apply in_or_app. left.
      rewrite (proj2 (sends_stmt_body true (path ++ [i]) s b) H). exact Hp.
    + cbn [sends_block]. destruct (IHrun2 path (S i) _ _ Hin) as [p Hp]. exists p. apply in_or_app. right. exact Hp.
Qed.
