(* C05, the two missing lemmas of the first pass:
   (1) TIME-OUT INDEPENDENCE.  The only thing one device's share of dev_post_poll does with the time-out accumulated by the
       devices before it is to lower it: post_poll_one now d store tmo pin = lift tmo (post_poll_one now d store None pin), where
       lift replaces the resulting time-out w (the device's own WISH, computed from its own state) by tmin tmo w.  So the new device
       state, the store, the events never depend on tmo, and the pass's time-out is the minimum of the wishes.
   (2) STORE LOCALITY.  A device's statements read and write only Args of nodes mapped to its own plugs (see Proofs/DeviceMask.v). *)
From Coq Require Import List NArith ZArith Bool Lia.
From PM Require Import Base.Bytes Base.Outcome Base.Dec Gen.GenConsts Gen.GenCbuf Model.ScriptAst Model.Enqueue Model.Script Model.Device.
Import ListNotations.
Local Open Scope Z_scope.

(* lowering a time-out by a wish (None = no wish) *)
Definition tmin (t w : option Z) : option Z := match w with None => t | Some v => upd_tmo t v end.

Lemma upd_tmo_min t v : upd_tmo t v = Some (match t with None => v | Some x => Z.min x v end).
Proof. unfold upd_tmo. destruct t as [x|]; [|reflexivity]. destruct (v <? x) eqn:E; f_equal; lia. Qed.
Lemma tmin_none_l w : tmin None w = w.
Proof. destruct w; reflexivity. Qed.
Lemma tmin_assoc t a b : tmin (tmin t a) b = tmin t (tmin a b).
Proof.
  destruct b as [y|]; [|reflexivity]. destruct a as [x|]; cbn [tmin]; [|reflexivity].
  rewrite !upd_tmo_min. destruct t as [z|]; cbn [tmin]; rewrite ?upd_tmo_min; f_equal; lia.
Qed.
Lemma upd_tmo_tmin t w v : upd_tmo (tmin t w) v = tmin t (upd_tmo w v).
Proof. change (upd_tmo (tmin t w) v) with (tmin (tmin t w) (Some v)). rewrite tmin_assoc. reflexivity. Qed.
(* the minimum of two wishes, as a plain minimum on "infinity = None" *)
Lemma tmin_spec t w : tmin t w = match t, w with None, x | x, None => x | Some a, Some b => Some (Z.min a b) end.
Proof. destruct t, w; cbn [tmin]; rewrite ?upd_tmo_min; reflexivity. Qed.

Definition lift4 (t : option Z) (r : outcome (device * list ev * option Z * list cplan)) :=
  match r with Ok (d, e, w, pl) => Ok (d, e, tmin t w, pl) | x => x end.
Definition lift_pa (t : option Z) (r : outcome (pa_res)) : outcome pa_res :=
  match r with
  | Ok (PaDone d st w pl ev) => Ok (PaDone d st (tmin t w) pl ev)
  | Ok (PaNext d st w ev) => Ok (PaNext d st (tmin t w) ev)
  | x => x
  end.
Definition lift5 (t : option Z) (r : outcome (device * list arglist * option Z * list cplan * list ev)) :=
  match r with Ok (d, st, w, pl, ev) => Ok (d, st, tmin t w, pl, ev) | x => x end.
Definition lift_pp (t : option Z) (r : outcome (device * list arglist * option Z * list ev)) :=
  match r with Ok (d, st, w, ev) => Ok (d, st, tmin t w, ev) | x => x end.

Section NI.
  Variable rmatch : text -> text -> option pmatch.
  Variable compress : list text -> text.
  Variable sc : bool.

  Lemma time_to_reconnect_lift now d t :
    time_to_reconnect now d t = (fst (time_to_reconnect now d None), tmin t (snd (time_to_reconnect now d None))).
  Proof.
    unfold time_to_reconnect. destruct (0 <? dv_retry_count d); [|reflexivity].
    destruct (_ <=? now); reflexivity.
  Qed.

  Lemma reconnect_lift now d t plans : reconnect now d t plans = lift4 t (reconnect now d None plans).
  Proof.
    unfold reconnect. destruct (if Z.eqb (dv_cstate d) DEV_NOT_CONNECTED then (d, []) else disconnect d) as [d1 e1].
    rewrite (time_to_reconnect_lift now d1 t). destruct (time_to_reconnect now d1 None) as [go w]. cbn [fst snd].
    destruct go; [|reflexivity].
    destruct (connect now d1 plans) as [[[d2 e2] pl]| | | |]; reflexivity.
  Qed.

  Lemma enqueue_ping_lift now d t :
    enqueue_ping now d t = (fst (enqueue_ping now d None), tmin t (snd (enqueue_ping now d None))).
  Proof.
    unfold enqueue_ping. destruct (assoc_script PM_PING (dv_scripts d)); [|reflexivity].
    destruct (Z.eqb (dv_ping_period d) 0); [reflexivity|]. destruct (_ <=? now); reflexivity.
  Qed.

  Lemma fail_and_reconnect_lift now d act rest store t plans pre :
    fail_and_reconnect now d act rest store t plans pre = lift_pa t (fail_and_reconnect now d act rest store None plans pre).
  Proof.
    unfold fail_and_reconnect. destruct (connected (set_acts [] d)); [|reflexivity].
    rewrite (reconnect_lift now _ t). destruct (reconnect now (set_acts [] d) None plans) as [[[[d2 e2] w] pl]| | | |]; reflexivity.
  Qed.

  Lemma pa_step_lift now d store t plans :
    pa_step rmatch compress sc now d store t plans = lift_pa t (pa_step rmatch compress sc now d store None plans).
  Proof.
    unfold pa_step. destruct (dv_acts d) as [|act0 rest]; [reflexivity|].
    destruct (a_exec act0); [reflexivity|].
    destruct (_ <=? now); [apply fail_and_reconnect_lift|].
    destruct (negb (connected d)); [reflexivity|].
    destruct (do_while _ _ _ _ _ _ _ _ _ _) as [[[[[[fin sd'] act'] store'] evs] dt]| | | |]; try reflexivity.
    assert (H1 : (match dt with Some v => upd_tmo t v | None => t end) = tmin t dt) by (destruct dt; reflexivity).
    assert (H2 : (match dt with Some v => upd_tmo None v | None => None end) = dt) by (destruct dt; reflexivity).
    rewrite H1, H2.
    destruct (negb fin); [cbn [lift_pa]; now rewrite upd_tmo_tmin|].
    destruct (Z.eqb (a_err act') ACT_ESUCCESS).
    - destruct (a_exec (advance act')); reflexivity.
    - rewrite (fail_and_reconnect_lift now _ _ _ _ (tmin t dt)), (fail_and_reconnect_lift now _ _ _ _ dt).
      destruct (fail_and_reconnect _ _ _ _ _ None _ _) as [[? ? w ? ?|? ? w ?]| | | |]; cbn [lift_pa]; try reflexivity; now rewrite tmin_assoc.
  Qed.

  Lemma process_action_lift : forall fuel now d store t plans acc,
    process_action rmatch compress sc fuel now d store t plans acc = lift5 t (process_action rmatch compress sc fuel now d store None plans acc).
  Proof.
    induction fuel as [|f IH]; intros now d store t plans acc; cbn [process_action]; [reflexivity|].
    rewrite (pa_step_lift now d store t plans).
    destruct (pa_step rmatch compress sc now d store None plans) as [[d1 st1 w1 pl1 e1|d1 st1 w1 e1]| | | |]; cbn [lift_pa lift5]; try reflexivity.
    rewrite (IH now d1 st1 (tmin t w1)), (IH now d1 st1 w1).
    destruct (process_action rmatch compress sc f now d1 st1 None plans (acc ++ e1)) as [[[[[d2 st2] w2] pl2] e2]| | | |]; cbn [lift5]; try reflexivity.
    now rewrite tmin_assoc.
  Qed.

  (* (1): the device result does not depend on the time-out handed in; the time-out handed on is the minimum of it and the device's wish *)
  Theorem post_poll_one_tmo_indep now d store t pin :
    post_poll_one rmatch compress sc now d store t pin = lift_pp t (post_poll_one rmatch compress sc now d store None pin).
  Proof.
    unfold post_poll_one.
    destruct (if dv_has_fd d && any_flag pin then handle_ready d pin else Ok (false, d, [])) as [[[ioerr d1] e1]| | | |]; try reflexivity.
    assert (H : (if ioerr || Z.eqb (dv_cstate d1) DEV_NOT_CONNECTED then reconnect now d1 t (pi_plans pin) else Ok (d1, [], t, pi_plans pin))
                = lift4 t (if ioerr || Z.eqb (dv_cstate d1) DEV_NOT_CONNECTED then reconnect now d1 None (pi_plans pin) else Ok (d1, [], None, pi_plans pin))).
    { destruct (_ || _); [apply reconnect_lift|reflexivity]. }
    rewrite H. destruct (if ioerr || Z.eqb (dv_cstate d1) DEV_NOT_CONNECTED then reconnect now d1 None (pi_plans pin) else _) as [[[[d2 e2] w2] pl]| | | |]; cbn [lift4]; try reflexivity.
    assert (H3 : (if connected d2 then enqueue_ping now d2 (tmin t w2) else (d2, tmin t w2))
                 = (fst (if connected d2 then enqueue_ping now d2 w2 else (d2, w2)), tmin t (snd (if connected d2 then enqueue_ping now d2 w2 else (d2, w2))))).
    { destruct (connected d2); [|reflexivity]. rewrite (enqueue_ping_lift now d2 (tmin t w2)), (enqueue_ping_lift now d2 w2). cbn [fst snd].
      now rewrite tmin_assoc. }
    rewrite H3. destruct (if connected d2 then enqueue_ping now d2 w2 else (d2, w2)) as [d3 w3]. cbn [fst snd].
    rewrite (process_action_lift _ now d3 store (tmin t w3)), (process_action_lift _ now d3 store w3).
    destruct (process_action rmatch compress sc _ now d3 store None pl (e1 ++ e2)) as [[[[[d4 st4] w4] pl4] e4]| | | |]; cbn [lift5 lift_pp]; try reflexivity.
    now rewrite tmin_assoc.
  Qed.
End NI.
