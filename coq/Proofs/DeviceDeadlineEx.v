(* Non-vacuity examples for Proofs/DeviceDeadline.v and the REFUTATION of the unconditional deadline bound.

   The device: C07.ex_dev's scripts and plug (login = send "login\n", expect "ok"; on = send "on %s\n", expect "done"),
   time-out T, no ping; regex oracle C07.ex_rmatch (never matches: the peer is silent), compress oracle C07.ex_compress.
   [start (mkd T)] = the device after a successful connect at 1 s, one pass (the login is stamped 1 s and stalls in its
   expect) and one client action (client 7, `on n1`) appended: queue [login(1 s); on(7, no stamp)].

   REFUTED (a finding about "bounded time", confirmed on the real device.c through the R-DEV harness):
     deadline_unsteady_refuted     without the hypothesis `steady_run` the conclusion of deadline_reached is false: a peer that
                                   accepts every connection, never answers the login and closes after 61 s (dev->timeout = 100 s)
                                   gets a FRESH login (deadline now + timeout) in the same pass that sees the hang-up, because the
                                   reconnect back-off (1,2,4,8,15,30,60,60.. s) never exceeds 60 s and retry_count is never an obstacle:
                                   after 50 rounds (3051 s = bound + 28 time-outs) the client's action is still queued, has never
                                   been stamped, and nothing has been reported to the client.
     deadline_flap_history         the same history as DevHarness operations (this is the case replayed on the C code)
     deadline_5s_refuted           with dev->timeout = 5 s the back-off ends the game (1,2,4 < 5 <= 8): three re-logins; at 16 s
                                   (= stamp of the head + 3 time-outs, the "natural" bound for a queue of two) the action is still
                                   queued; the C code reports it at the first pass after 25.6 s. *)
From Coq Require Import List NArith ZArith Bool Lia.
From PM Require Import Base.Bytes Base.Outcome Base.Dec Gen.GenConsts Gen.GenCbuf Model.ScriptAst Model.Enqueue Model.Script Model.Device Model.DevHarness
  Proofs.DeviceProofs Proofs.DeviceStmt Proofs.DeviceStmtG Proofs.DeviceInv Proofs.DeviceInvG Proofs.DeviceMask Proofs.DeviceRunG Proofs.DeviceDeadline.
From PM Require Properties.C07.
Import ListNotations.
Local Open Scope Z_scope.

Definition rm := C07.ex_rmatch.
Definition cp := C07.ex_compress.
Definition P1 : plug := mkPlug (bslit "p1") (Some (bslit "n1")).
Definition SCR : list (Z * list stmt) :=
  [(PM_LOG_IN, [Send (bslit "login\n"); Expect (bslit "ok")]); (PM_POWER_ON, [Send (bslit "on %s\n"); Expect (bslit "done")])].
Definition mkd (T : Z) : device := mk_device (bslit "d0") [P1] SCR T 0.
Lemma mkd_ex_dev : mkd 5000000 = C07.ex_dev.
Proof. reflexivity. Qed.
Lemma mkd_cfg T : cfg_ok cp (mkd T).
Proof. exact C07.C07_cfg_ok_example. Qed.

(* no descriptor event at all: the peer neither reads nor writes *)
Definition silent : passin := mkPassin false false false false false None None true [] None.
(* the peer has closed; the next connect() succeeds at once *)
Definition hup : passin := mkPassin true false false false true None (Some O) true [ConnNow] None.

Definition start (d0 : device) : outcome device :=
  match connect 1000000 d0 [ConnNow] with
  | Ok (d1, _, _) =>
    match post_poll_one rm cp false 1000000 d1 [] None silent with
    | Ok (d2, _, _, _) => append_client_action d2 (mkQact PM_POWER_ON (Some [P1])) 7 false 0
    | Exit c s => Exit c s | Abort s => Abort s | MemErr s => MemErr s | Hang s => Hang s
    end
  | Exit c s => Exit c s | Abort s => Abort s | MemErr s => MemErr s | Hang s => Hang s
  end.

Lemma tmo_pos_none : tmo_pos None.
Proof. intros x Hx. discriminate Hx. Qed.

Lemma start_inv T d : start (mkd T) = Ok d -> DInvG cp d /\ 0 <= dv_retry_count d.
Proof.
  destruct (mk_device_invG cp (bslit "d0") [P1] SCR T 0 (mkd_cfg T)) as [[I0 R0] C0]. fold (mkd T) in *.
  unfold start.
  destruct (connect_invG cp 1000000 (mkd T) [ConnNow] I0 C0) as (d1 & pl & E1 & _ & I1 & S1 & _ & _ & R1 & _). rewrite E1.
  pose proof (post_poll_one_inv_pre rm cp false 1000000 d1 [] None silent I1 tmo_pos_none ltac:(lia)) as H2.
  destruct (post_poll_one rm cp false 1000000 d1 [] None silent) as [[[[d2 st2] t2] e2]| | | |]; try discriminate.
  destruct H2 as [SP _]. intros E3.
  pose proof (tg_inv _ _ _ _ _ _ _ _ _ SP) as I2.
  pose proof (conn_rel_rc _ _ _ _ (tg_conn _ _ _ _ _ _ _ _ _ SP) ltac:(lia)) as R2.
  destruct (tg_cfg _ _ _ _ _ _ _ _ _ SP) as (Sc2 & _ & _ & Sp2 & _). destruct S1 as (Sc1 & _ & _ & Sp1 & _).
  assert (Hs : exists s, assoc_script (qa_com (mkQact PM_POWER_ON (Some [P1]))) (dv_scripts d2) = Some s).
  { rewrite Sc2, Sc1. eexists. reflexivity. }
  destruct (append_client_action_invG cp d2 (mkQact PM_POWER_ON (Some [P1])) 7 false 0 I2 Hs eq_refl) as (d3 & E3' & I3 & _ & _ & _ & R3 & _).
  - cbn [opt_incl qa_plugs]. rewrite Sp2, Sp1. intros x Hx. exact Hx.
  - intros _. discriminate.
  - rewrite E3 in E3'. injection E3' as <-. split; [exact I3|lia].
Qed.

(* ---------- the example state with dev->timeout = 5 s (C07.ex_dev) ---------- *)
Definition d5 : device := Eval vm_compute in match start (mkd 5000000) with Ok d => d | _ => mkd 0 end.
Lemma d5_start : start (mkd 5000000) = Ok d5.
Proof. vm_compute. reflexivity. Qed.
Lemma d5_inv : DInvG cp d5 /\ 0 <= dv_retry_count d5.
Proof. exact (start_inv _ _ d5_start). Qed.
Lemma d5_shape : map (fun a => (a_com a, a_hascb a, a_client a, a_stamp a)) (dv_acts d5) = [(PM_LOG_IN, false, 0, Some 1000000); (PM_POWER_ON, true, 7, None)] /\
  dv_cstate d5 = DEV_CONNECTED /\ dv_logged_in d5 = false /\ dv_timeout d5 = 5000000 /\ queued d5 = [7] /\ span (dv_acts d5) = 2%nat /\ bound 2000000 d5 = 11000000.
Proof. vm_compute. repeat split. Qed.
Lemma d5_stamps : stamps_le 1000000 (dv_acts d5).
Proof. repeat constructor; intros t Et; vm_compute in Et; try discriminate Et. injection Et as <-. lia. Qed.

(* a silent pass on a connected device without a ping script keeps the queue *)
Ltac steady_silent := eexists _, _, _, _, []; split; [vm_compute; reflexivity|split; [apply pings_nil|vm_compute; reflexivity]].

(* (D1) the hypotheses of deadline_pass / deadline_pass_steady hold for d5 at 6 s with a silent peer, and the conclusion is the flush *)
Example deadline_pass_example :
  DInvG cp d5 /\ tmo_pos None /\ 0 <= dv_retry_count d5 /\
  (exists act0 rest, dv_acts d5 = act0 :: rest /\ hstamp 6000000 act0 + dv_timeout d5 <= 6000000) /\
  steady 6000000 d5 None silent /\
  match post_poll_one rm cp false 6000000 d5 [] None silent with
  | Ok (d', _, _, evs) => completions evs = [7] /\ queued d' = [] /\ dv_acts d' = []
  | _ => False
  end.
Proof.
  split; [exact (proj1 d5_inv)|]. split; [exact tmo_pos_none|]. split; [exact (proj2 d5_inv)|].
  split; [eexists _, _; split; [vm_compute; reflexivity|vm_compute; discriminate]|].
  split; [steady_silent|]. vm_compute. repeat split.
Qed.

Fixpoint clocks_b (t : Z) (ps : list pass) : bool :=
  match ps with [] => true | p :: r => (t <=? p_now p) && clocks_b (p_now p) r end.
Lemma clocks_b_ok : forall ps t, clocks_b t ps = true -> clocks_from t ps.
Proof.
  induction ps as [|p r IH]; intros t H; cbn [clocks_b clocks_from] in *; [exact I|].
  apply andb_true_iff in H as [H1 H2]. apply Z.leb_le in H1. split; [exact H1|apply IH; exact H2].
Qed.
Lemma all_tmo_none ps : Forall (fun p => p_tmo p = None) ps -> Forall (fun p => tmo_pos (p_tmo p)) ps.
Proof. intros H. eapply Forall_impl; [|exact H]. intros p ->. exact tmo_pos_none. Qed.

(* (D2) a steady run: passes at 2 s, 6 s, 11 s with a silent peer.  All hypotheses of deadline_run / deadline_reached hold,
   the bound (taken at the first pass) is 1 s + 2 * 5 s = 11 s, and the theorem gives the conclusion. *)
Definition ps5 : list pass := [mkPass 2000000 [] None silent; mkPass 6000000 [] None silent; mkPass 11000000 [] None silent].
Lemma ps5_steady : steady_run rm cp false ps5 d5.
Proof.
  split; [steady_silent|]. intros d1 st1 t1 e1 E. vm_compute in E. injection E as <- <- <- <-.
  split; [steady_silent|]. intros d1 st1 t1 e1 E. vm_compute in E. injection E as <- <- <- <-.
  split; [steady_silent|]. intros d1 st1 t1 e1 E. exact I.
Qed.
Example deadline_reached_example :
  exists d' evs, passes rm cp false ps5 d5 = Ok (d', evs) /\ bound 2000000 d5 = 11000000 /\ last_clock 1000000 ps5 = 11000000 /\
                 completions evs = [7] /\ queued d' = [].
Proof.
  assert (E : exists d' evs, passes rm cp false ps5 d5 = Ok (d', evs)) by (eexists _, _; vm_compute; reflexivity).
  destruct E as (d' & evs & E). exists d', evs. split; [exact E|]. split; [vm_compute; reflexivity|]. split; [reflexivity|].
  destruct d5_inv as [I5 R5].
  (* the conclusion comes from the theorem, not from evaluating the run *)
  destruct (deadline_reached rm cp false (mkPass 2000000 [] None silent) (tl ps5) d5 1000000 d' evs I5 R5) as [C Q].
  - vm_compute. reflexivity.
  - exact d5_stamps.
  - apply clocks_b_ok. vm_compute. reflexivity.
  - apply all_tmo_none. repeat constructor.
  - exact ps5_steady.
  - exact E.
  - vm_compute. discriminate.
  - split; [rewrite C; vm_compute; reflexivity|exact Q].
Qed.

(* ... and the corollary applies (the conclusion comes from the theorem) *)
Example deadline_pass_steady_example : flushes rm cp false 6000000 d5 [] None silent.
Proof.
  destruct d5_inv as [I5 R5].
  assert (Ea : exists act0 rest, dv_acts d5 = act0 :: rest /\ hstamp 6000000 act0 + dv_timeout d5 <= 6000000)
    by (eexists _, _; split; [vm_compute; reflexivity|vm_compute; discriminate]).
  destruct Ea as (act0 & rest & Ea & Hl).
  apply (deadline_pass_steady rm cp false 6000000 d5 [] None silent act0 rest I5 tmo_pos_none R5 Ea Hl).
  apply (steady_quiet_io cp); [exact I5|exact tmo_pos_none|vm_compute; discriminate|vm_compute; reflexivity].
Qed.

(* ---------- REFUTATION 1: dev->timeout = 100 s, the peer accepts, stays silent and closes every 61 s ---------- *)
Definition d100 : device := Eval vm_compute in match start (mkd 100000000) with Ok d => d | _ => mkd 0 end.
Lemma d100_start : start (mkd 100000000) = Ok d100.
Proof. vm_compute. reflexivity. Qed.
Definition flap_passes (n : nat) : list pass := map (fun k => mkPass (1000000 + 61000000 * Z.of_nat k) [] None hup) (seq 1 n).

Theorem deadline_unsteady_refuted :
  exists d t0 p r d' evs,
    DInvG cp d /\ 0 <= dv_retry_count d /\ 0 < dv_timeout d /\ stamps_le t0 (dv_acts d) /\
    clocks_from t0 (p :: r) /\ Forall (fun p => tmo_pos (p_tmo p)) (p :: r) /\
    passes rm cp false (p :: r) d = Ok (d', evs) /\
    bound (p_now p) d + 28 * dv_timeout d <= last_clock t0 (p :: r) /\      (* 28 time-outs past the bound ... *)
    queued d = [7] /\ completions evs = [] /\ queued d' = [7] /\               (* ... and client 7 has not been answered *)
    map (fun a => (a_com a, a_client a, a_stamp a)) (dv_acts d') = [(PM_LOG_IN, 0, Some 3051000000); (PM_POWER_ON, 7, None)].
Proof.
  exists d100, 1000000, (mkPass 62000000 [] None hup), (tl (flap_passes 50)).
  assert (E : exists d' evs, passes rm cp false (flap_passes 50) d100 = Ok (d', evs) /\ completions evs = [] /\ queued d' = [7] /\
              map (fun a => (a_com a, a_client a, a_stamp a)) (dv_acts d') = [(PM_LOG_IN, 0, Some 3051000000); (PM_POWER_ON, 7, None)]).
  { eexists _, _. vm_compute. repeat split. }
  destruct E as (d' & evs & E & C & Q & A). exists d', evs.
  destruct (start_inv _ _ d100_start) as [I R].
  split; [exact I|]. split; [exact R|]. split; [vm_compute; reflexivity|].
  split; [repeat constructor; intros t Et; vm_compute in Et; try discriminate Et; injection Et as <-; lia|].
  split; [apply clocks_b_ok; vm_compute; reflexivity|].
  split; [apply all_tmo_none; change (mkPass 62000000 [] None hup :: tl (flap_passes 50)) with (flap_passes 50); unfold flap_passes; apply Forall_forall; intros p Hp; apply in_map_iff in Hp as (k & <- & _); reflexivity|].
  split; [exact E|]. split; [vm_compute; discriminate|]. split; [vm_compute; reflexivity|]. auto.
Qed.

(* the same history as operations of the device-layer harness (Model/DevHarness): this is the case replayed on device.c *)
Definition flap_ops (n : nat) : list hop :=
  [HNow 1000000; HPlan 0 (repeat ConnNow (S n)); HInit; HPass; HNewArgs [bslit "n1"]; HEnq PM_POWER_ON 7 false 0 [bslit "n1"]; HNow 1100000; HPass]
  ++ flat_map (fun k => [HNow (1000000 + 61000000 * Z.of_nat k); HPeerClose 0; HPass]) (seq 1 n).
Example deadline_flap_history :
  match run rm cp false (mkH 0 [(mkd 100000000, peer0)] []) (flap_ops 50) with
  | Ok (h, outs) =>
      h_now h = 3051000000 /\
      flat_map (fun o => completions (map snd (o_evs o))) outs = [] /\                 (* no completion callback in 3051 s *)
      length (flat_map (fun o => filter (fun e => is_conn (snd e)) (o_evs o)) outs) = 51%nat /\   (* 51 successful connects *)
      map (fun '(d, _) => (dv_cstate d, dv_retry_count d, map (fun a => (a_com a, a_client a, a_stamp a)) (dv_acts d))) (h_devs h)
        = [(DEV_CONNECTED, 51, [(PM_LOG_IN, 0, Some 3051000000); (PM_POWER_ON, 7, None)])]
  | _ => False
  end.
Proof. vm_compute. repeat split. Qed.

(* ---------- REFUTATION 2: dev->timeout = 5 s: three re-logins inside the back-off steps 1, 2, 4 s ---------- *)
Definition ps5_flap : list pass :=
  [mkPass 5900000 [] None hup; mkPass 10800000 [] None hup; mkPass 15700000 [] None hup; mkPass 16000000 [] None silent].
Theorem deadline_5s_refuted :
  exists d' evs, passes rm cp false ps5_flap d5 = Ok (d', evs) /\
    dv_timeout d5 = 5000000 /\ map a_stamp (dv_acts d5) = [Some 1000000; None] /\      (* head stamped 1 s, two actions queued *)
    bound 5900000 d5 = 11000000 /\ last_clock 1000000 ps5_flap = 16000000 /\         (* 16 s = 1 s + (2 + 1) * 5 s *)
    completions evs = [] /\ queued d' = [7] /\
    map (fun a => (a_com a, a_client a, a_stamp a)) (dv_acts d') = [(PM_LOG_IN, 0, Some 15700000); (PM_POWER_ON, 7, None)] /\
    dv_retry_count d' = 4 /\ backoff 4 = 8000000.                                   (* the next hang-up before 23.7 s finds the gate closed *)
Proof. eexists _, _. vm_compute. repeat split. Qed.

(* the sufficient conditions for `steady` apply: silent peer during the login; garbage from the peer; refused connection *)
Example steady_conditions_example :
  steady 6000000 d5 None silent /\
  steady 6000000 d5 None (mkPassin false false false false true (Some (bslit "garbage")) None true [] None) /\
  steady 6000000 (mkd 5000000) None (mkPassin false false false false false None None true [ConnFail] None).
Proof.
  destruct d5_inv as [I5 R5].
  split; [apply (steady_quiet_io cp); [exact I5|exact tmo_pos_none|vm_compute; discriminate|vm_compute; reflexivity]|].
  split; [apply (steady_quiet_io cp); [exact I5|exact tmo_pos_none|vm_compute; discriminate|vm_compute; reflexivity]|].
  destruct (mk_device_invG cp (bslit "d0") [P1] SCR 5000000 0 (mkd_cfg 5000000)) as [[I0 R0] C0].
  apply (steady_unconnected cp); [exact I0|exact tmo_pos_none|exact R0|exact C0|vm_compute; discriminate].
Qed.
