(* C03, device layer: WHOSE expect a setplugstate / setresult reads.

   A write event of Proofs/DeviceWrites.v is computed from the sub-matches `model_xm sd` the device holds when the statement runs:
   those of the LAST expect executed on the device.  Here: for scripts that pass the static check `own_ok` (every setplugstate /
   setresult is preceded, in its own script, on every path through ifon / ifoff / foreach blocks, by an expect), those
   sub-matches were produced by an expect statement executed EARLIER BY THE SAME ACTION, in the same run of its script (after
   its last restart: _rewind_action when a login is put in front of it).

   Form.  A ghost `option xprov` per device - "the sub-matches the device holds were set by this successful expect of the action
   now at the head of the queue, in its current run" - is threaded alongside the interpreter by functions that only CALL the
   model (xg_stmt / dw_x / pa_x / pas_x / pp_x mirror process_stmt / do_while / pa_step / process_action / post_poll_one, and
   return the write events of DeviceWrites.v, each paired with the ghost at the moment its statement ran).  The ghost is SET only
   by an `expect` statement of the head action that matched (to: that action's client id, result list and command, the pattern,
   the unread device bytes it was matched on, the match array), CLEARED by an expect that does not match (the model clears the
   sub-matches too), and CLEARED whenever the head action ends, fails, times out or is rewound (reconnect).  Proved:

     XI g d            invariant: the queued actions' context stacks pass the check from their current positions (stack_ok), the
                       actions behind the head are at the start of their scripts, a set ghost describes the head action and
                       equals the device's sub-matches, and - the device being connected - if the head's current position is
                       statically "after an expect" then the ghost is set or the device holds no sub-matches;
     XGood (w, og)     every write event w was computed from sub-matches `xp_xm pv` with og = Some pv, pv carrying w's client id
                       and result list: the event's statement read the sub-matches of an expect of the SAME action. *)
From Coq Require Import List NArith ZArith Bool Lia.
From PM Require Import Base.Bytes Base.Outcome Base.Dec Gen.GenConsts Gen.GenCbuf Model.ScriptAst Model.Enqueue Model.Script Model.Device
  Proofs.DeviceProofs Proofs.DeviceStmt Proofs.DeviceStmtG Proofs.DeviceInv Proofs.DeviceInvG Proofs.DeviceSlots Proofs.DeviceMask Proofs.DeviceWrites.
From PM Require Spec.ScriptSem Proofs.ScriptRefine.
Import ListNotations.
Local Open Scope Z_scope.

(* ------------------------------------------------------------------------------------------------ the static check *)
(* h = "an expect of this script has been passed on every path to this point" *)
Definition xo (h : bool) (s : stmt) : bool := match s with Expect _ => true | _ => h end.
Fixpoint xh (h : bool) (l : list stmt) : bool := match l with [] => h | s :: r => xh (xo h s) r end.
(* a block is entered with the state of the point in front of it; after it the state is that same state (the block may be skipped) *)
Fixpoint ck_stmt (h : bool) (s : stmt) {struct s} : bool :=
  let blk := fix blk (h : bool) (l : list stmt) {struct l} : bool :=
               match l with [] => true | s' :: r => ck_stmt h s' && blk (xo h s') r end in
  match s with
  | SetPlugState _ _ _ _ | SetResult _ _ _ => h
  | ForeachPlug b | ForeachNode b | IfOn b | IfOff b => blk h b
  | _ => true
  end.
Fixpoint ck_block (h : bool) (l : list stmt) : bool :=
  match l with [] => true | s :: r => ck_stmt h s && ck_block (xo h s) r end.
Definition own_ok (scripts : list (Z * list stmt)) : bool := forallb (fun p => ck_block false (snd p)) scripts.

Lemma ck_blk_eq : forall l h,
  (fix blk (h : bool) (l : list stmt) {struct l} : bool := match l with [] => true | s' :: r => ck_stmt h s' && blk (xo h s') r end) h l = ck_block h l.
Proof. induction l as [|s r IH]; intros h; [reflexivity|]. cbn [ck_block]. now rewrite IH. Qed.
Definition body_of (s : stmt) : option (list stmt) :=
  match s with ForeachPlug b | ForeachNode b | IfOn b | IfOff b => Some b | _ => None end.
Lemma ck_stmt_body h s b : body_of s = Some b -> ck_stmt h s = ck_block h b.
Proof. destruct s; cbn [body_of]; try discriminate; intros H; injection H as <-; cbn [ck_stmt]; apply ck_blk_eq. Qed.

Lemma xh_app h a b : xh h (a ++ b) = xh (xh h a) b.
Proof. revert h. induction a as [|s r IH]; intros h; [reflexivity|]. cbn [app xh]. apply IH. Qed.
Lemma xh_true l : xh true l = true.
Proof. induction l as [|s r IH]; [reflexivity|]. cbn [xh]. destruct s; exact IH. Qed.
Lemma xh_mono h l : h = true -> xh h l = true.
Proof. intros ->. apply xh_true. Qed.
Lemma ck_block_nth : forall l h n s, ck_block h l = true -> nth_error l n = Some s -> ck_stmt (xh h (firstn n l)) s = true.
Proof.
  induction l as [|x r IH]; intros h [|n] s H Hn; cbn [nth_error] in Hn; try discriminate.
  - injection Hn as <-. cbn [ck_block] in H. apply andb_true_iff in H as [H _]. exact H.
  - cbn [ck_block] in H. apply andb_true_iff in H as [_ H]. cbn [firstn xh]. exact (IH _ n s H Hn).
Qed.
Lemma firstn_S_nth {A} : forall (l : list A) n, firstn (S n) l = firstn n l ++ match nth_error l n with Some x => [x] | None => [] end.
Proof.
  induction l as [|x r IH]; intros n.
  - destruct n; reflexivity.
  - destruct n as [|n]; [reflexivity|]. change (firstn (S (S n)) (x :: r)) with (x :: firstn (S n) r).
    change (firstn (S n) (x :: r)) with (x :: firstn n r). change (nth_error (x :: r) (S n)) with (nth_error r n).
    rewrite (IH n). reflexivity.
Qed.

(* ------------------------------------------------------------------------------------------------ context stacks (outer context first) *)
Fixpoint sh (h : bool) (l : list ctx) : bool :=
  match l with [] => h | e :: r => sh (xh h (firstn (c_pos e) (c_block e))) r end.
Fixpoint stack_ok (h : bool) (l : list ctx) : bool :=
  match l with [] => true | e :: r => ck_block h (c_block e) && stack_ok (xh h (firstn (c_pos e) (c_block e))) r end.
(* of an action (a_exec is top first) *)
Definition SH (a : action) : bool := sh false (rev (a_exec a)).
Definition OK (a : action) : bool := stack_ok false (rev (a_exec a)).

Lemma sh_app h a b : sh h (a ++ b) = sh (sh h a) b.
Proof. revert h. induction a as [|e r IH]; intros h; [reflexivity|]. cbn [app sh]. apply IH. Qed.
Lemma stack_ok_app h a b : stack_ok h (a ++ b) = stack_ok h a && stack_ok (sh h a) b.
Proof. revert h. induction a as [|e r IH]; intros h; [reflexivity|]. cbn [app sh stack_ok]. rewrite IH. now rewrite andb_assoc. Qed.
Lemma sh_mono l : forall h, h = true -> sh h l = true.
Proof. induction l as [|e r IH]; intros h H; [exact H|]. cbn [sh]. apply IH. now apply xh_mono. Qed.

Lemma SH_cons a e rest : a_exec a = e :: rest -> SH a = xh (sh false (rev rest)) (firstn (c_pos e) (c_block e)).
Proof. intros E. unfold SH. rewrite E. cbn [rev]. now rewrite sh_app. Qed.
Lemma OK_cons a e rest : a_exec a = e :: rest -> OK a = stack_ok false (rev rest) && ck_block (sh false (rev rest)) (c_block e).
Proof. intros E. unfold OK. rewrite E. cbn [rev]. rewrite stack_ok_app. cbn [stack_ok]. now rewrite andb_true_r. Qed.

(* a freshly created / rewound action: one context at position 0 *)
Lemma SH_single a e : a_exec a = [e] -> c_pos e = O -> SH a = false.
Proof. intros E P. rewrite (SH_cons a e [] E), P. reflexivity. Qed.
Lemma OK_single a e : a_exec a = [e] -> OK a = ck_block false (c_block e).
Proof. intros E. rewrite (OK_cons a e [] E). reflexivity. Qed.

(* ------------------------------------------------------------------------------------------------ the ghost *)
(* a successful expect: whose action, which pattern, on which unread device bytes, with which match array *)
Record xprov : Type := mkXprov {
  xp_client : Z;          (* client id of the action that executed the expect *)
  xp_slot : option nat;   (* its result list (a_args) *)
  xp_com : Z;             (* its command *)
  xp_re : text;           (* the pattern of the expect statement *)
  xp_buf : text;          (* the unread device bytes (dev->from) the pattern was matched on *)
  xp_pm : pmatch          (* the match array *)
}.
(* the sub-matches that expect left on the device *)
Definition xp_xm (pv : xprov) : option (text * pmatch) := Some (nul_to_ff (xp_buf pv), xp_pm pv).
(* a write event together with the ghost at the moment its statement ran *)
Definition xrep : Type := (report * option xprov)%type.

Notation model_xm := ScriptRefine.model_xm.

Definition same_pc (e e' : ctx) : Prop := c_block e' = c_block e /\ c_pos e' = c_pos e.
Lemma same_pc_refl e : same_pc e e. Proof. split; reflexivity. Qed.

Section X.
  Variable rmatch : text -> text -> option pmatch.
  Variable compress : list text -> text.
  Variable sc : bool.

  Definition xp_wf (pv : xprov) : Prop := xp_buf pv <> [] /\ rmatch (xp_re pv) (nul_to_ff (xp_buf pv)) = Some (xp_pm pv).
  (* pv describes action a and the sub-matches device sd holds *)
  Definition PvOk (pv : xprov) (a : action) (sd : sdev) : Prop :=
    xp_client pv = a_client a /\ xp_slot pv = a_args a /\ xp_com pv = a_com a /\ model_xm sd = xp_xm pv /\ xp_wf pv.

  (* ---------------------------------------------------------------- one statement *)
  (* the ghost after the statement on top of the context stack of a: an expect that matches sets it, an expect that does not
     match clears it, every other statement leaves it *)
  Definition xg_stmt (now : Z) (sd : sdev) (a : action) (store : list arglist) (g : option xprov) : option xprov :=
    match a_exec a with
    | e :: _ =>
      match cur e with
      | Some (Expect re) =>
          match process_expect rmatch now sd a store re with
          | Ok (true, sd', _, _, _) =>
              match sd_xm sd' with
              | Some (_, pm) => Some (mkXprov (a_client a) (a_args a) (a_com a) re (sd_from sd) pm)
              | None => None
              end
          | _ => None
          end
      | _ => g
      end
    | [] => g
    end.
  Definition xstmt_report (sd : sdev) (a : action) (store : list arglist) (g : option xprov) : list xrep :=
    map (fun w => (w, g)) (stmt_report rmatch sd a store).

  (* what a statement does to the action and to the device's sub-matches *)
  Definition StepFacts (sd : sdev) (a : action) (s : stmt) (sd' : sdev) (a' : action) : Prop :=
    a_client a' = a_client a /\ a_args a' = a_args a /\ a_com a' = a_com a /\
    (exists e e' rest, a_exec a = e :: rest /\ same_pc e e' /\
       (a_exec a' = e' :: rest \/ exists c b, a_exec a' = c :: e' :: rest /\ c_pos c = O /\ c_block c = b /\ body_of s = Some b)) /\
    ((forall re, s <> Expect re) -> model_xm sd' = model_xm sd).

  Local Ltac crush :=
    repeat match goal with
           | |- context [match ?x with _ => _ end] =>
               match x with
               | context [match _ with _ => _ end] => fail 1
               | _ => destruct x eqn:?
               end
           end.

  Lemma send_facts now sd a store e rest fmt fin sd' a' store' evs : a_exec a = e :: rest ->
    process_send compress now sd a store e rest fmt = Ok (fin, sd', a', store', evs) -> StepFacts sd a (Send fmt) sd' a'.
  Proof.
    intros Ex. unfold process_send.
    assert (G : forall d1 ev1, model_xm d1 = model_xm sd ->
              match sd_to d1 with
              | [] => Ok (true, d1, put_top (set_processing false e) rest a, store, ev1)
              | _ :: _ => Ok (false, d1, put_top (set_processing true e) rest a, store, ev1)
              end = Ok (fin, sd', a', store', evs) -> StepFacts sd a (Send fmt) sd' a').
    { intros d1 ev1 Hx. destruct (sd_to d1); intros H; inversion H; subst; (repeat (split; [reflexivity|])); (split; [|intros _; exact Hx]);
        eexists e, _, rest; (split; [exact Ex|]); (split; [|left; reflexivity]); split; reflexivity. }
    destruct (c_processing e); [apply G; reflexivity|].
    destruct (hsprintf1 fmt (send_arg compress e)); [|discriminate].
    destruct (Nat.ltb _ _); [destruct SEND_OVERRUN_ASSERT; [discriminate|]|]; apply G; reflexivity.
  Qed.

  Lemma delay_facts now sd a store e rest us fin sd' a' store' evs t : a_exec a = e :: rest ->
    process_delay sc now sd a store e rest us = Ok ((fin, sd', a', store', evs), t) -> StepFacts sd a (Delay us) sd' a'.
  Proof.
    intros Ex. unfold process_delay. destruct (c_processing e); cbv beta iota zeta;
      match goal with |- (if ?b then _ else _) = _ -> _ => destruct b end; intros H; inversion H; subst;
      (repeat (split; [reflexivity|])); (split; [|intros _; reflexivity]);
      eexists e, _, rest; (split; [exact Ex|]); (split; [|left; reflexivity]); split; reflexivity.
  Qed.

  Lemma foreach_facts sd a store e rest on body fin sd' a' store' evs s : a_exec a = e :: rest -> body_of s = Some body ->
    process_foreach sd a store e rest on body = Ok (fin, sd', a', store', evs) -> StepFacts sd a s sd' a'.
  Proof.
    intros Ex Hb. unfold process_foreach.
    match goal with |- match ?i0 with _ => _ end = _ -> _ => assert (Hi : forall e0, i0 = Ok e0 -> same_pc e e0) end.
    { destruct (c_plugitr e); [intros e0 H; injection H as <-; split; reflexivity|].
      destruct (is_ranged_com (a_com a)); [|intros e0 H; injection H as <-; split; reflexivity].
      destruct (c_plugs e); [|discriminate]. destruct (c_pluglist e); intros e0 H; injection H as <-; split; reflexivity. }
    match goal with |- match ?i0 with _ => _ end = _ -> _ => destruct i0 as [e0| | | |]; try discriminate end.
    specialize (Hi e0 eq_refl). cbv zeta. destruct (next_plug on _ _) as [[p i']|]; intros H; inversion H; subst;
      (repeat (split; [reflexivity|])); (split; [|intros _; reflexivity]).
    - eexists e, _, rest. split; [exact Ex|]. split; [|right; eexists _, body; split; [reflexivity|split; [reflexivity|split; [reflexivity|exact Hb]]]].
      destruct Hi as [Hi1 Hi2]. split; [exact Hi1|exact Hi2].
    - eexists e, _, rest. split; [exact Ex|]. split; [|left; reflexivity]. destruct Hi as [Hi1 Hi2]. split; [exact Hi1|exact Hi2].
  Qed.

  Lemma ifonoff_facts sd a store e rest want body fin sd' a' store' evs s : a_exec a = e :: rest -> body_of s = Some body ->
    process_ifonoff sd a store e rest want body = Ok (fin, sd', a', store', evs) -> StepFacts sd a s sd' a'.
  Proof.
    intros Ex Hb. unfold process_ifonoff. destruct (c_processing e).
    { intros H; inversion H; subst. (repeat (split; [reflexivity|])). split; [|intros _; reflexivity].
      eexists e, _, rest. split; [exact Ex|]. split; [|left; reflexivity]. split; reflexivity. }
    match goal with |- match ?s0 with _ => _ end = _ -> _ => destruct s0 as [st| | | |]; try discriminate end.
    cbv zeta. destruct ((want && Z.eqb st ST_ON) || (negb want && Z.eqb st ST_OFF)); intros H; inversion H; subst.
    - split; [destruct (negb true && _); reflexivity|]. split; [destruct (negb true && _); reflexivity|]. split; [destruct (negb true && _); reflexivity|].
      split; [|intros _; reflexivity].
      eexists e, _, rest. split; [exact Ex|]. split; [|right; eexists _, body; split; [reflexivity|split; [reflexivity|split; [reflexivity|exact Hb]]]].
      split; reflexivity.
    - match goal with |- StepFacts _ _ _ _ (if ?b then _ else _) => destruct b end.
      + (repeat (split; [reflexivity|])). split; [|intros _; reflexivity].
        exists e, e, rest. split; [exact Ex|]. split; [apply same_pc_refl|left; exact Ex].
      + (repeat (split; [reflexivity|])). split; [|intros _; reflexivity].
        exists e, e, rest. split; [exact Ex|]. split; [apply same_pc_refl|left; exact Ex].
  Qed.

  Lemma same_facts sd a e rest s : a_exec a = e :: rest -> StepFacts sd a s sd a.
  Proof.
    intros Ex. (repeat (split; [reflexivity|])). split; [|intros _; reflexivity].
    exists e, e, rest. split; [exact Ex|]. split; [apply same_pc_refl|now left].
  Qed.

  Lemma setplugstate_facts sd a store e rest lit pmp smp ints fin sd' a' store' evs : a_exec a = e :: rest ->
    process_setplugstate rmatch sd a store e lit pmp smp ints = Ok (fin, sd', a', store', evs) -> StepFacts sd a (SetPlugState lit pmp smp ints) sd' a'.
  Proof. intros Ex. rewrite setplugstate_closed. intros H. injection H as _ <- <- _ _. exact (same_facts _ _ _ _ _ Ex). Qed.

  Lemma setresult_facts sd a store e rest pmp smp ints fin sd' a' store' evs : a_exec a = e :: rest ->
    process_setresult rmatch sd a store e pmp smp ints = Ok (fin, sd', a', store', evs) -> StepFacts sd a (SetResult pmp smp ints) sd' a'.
  Proof.
    intros Ex. unfold process_setresult.
    repeat (match goal with |- match ?x with _ => _ end = _ -> _ => destruct x | |- (if ?x then _ else _) = _ -> _ => destruct x end; try discriminate);
      intros H; inversion H; subst; exact (same_facts _ _ _ _ _ Ex).
  Qed.

  (* an expect: the action is left as it is; matched = the device holds exactly the sub-matches of this match, on the unread bytes *)
  Lemma expect_facts now sd a store re fin sd' a' store' evs :
    process_expect rmatch now sd a store re = Ok (fin, sd', a', store', evs) ->
    a' = a /\
    (fin = false -> model_xm sd' = None) /\
    (fin = true -> exists pm, sd_xm sd' = Some (nul_to_ff (sd_from sd), pm) /\ model_xm sd' = Some (nul_to_ff (sd_from sd), pm) /\
                              sd_from sd <> [] /\ rmatch re (nul_to_ff (sd_from sd)) = Some pm).
  Proof.
    unfold process_expect. cbn [sd_from set_xm].
    destruct (sd_from sd) as [|b0 br] eqn:Ef.
    { intros H; inversion H; subst. split; [reflexivity|]. split; [reflexivity|discriminate]. }
    destruct (rmatch re (nul_to_ff (b0 :: br))) as [pm|] eqn:Em.
    2:{ intros H; inversion H; subst. split; [reflexivity|]. split; [reflexivity|discriminate]. }
    destruct (nth_error pm 0) as [[[so eo]|]|].
    - intros H; inversion H; subst. split; [reflexivity|]. split; [discriminate|]. intros _. exists pm.
      split; [reflexivity|]. split; [reflexivity|]. split; [discriminate|first [exact Em|reflexivity]].
    - intros H; inversion H; subst. split; [reflexivity|]. split; [reflexivity|discriminate].
    - intros H; inversion H; subst. split; [reflexivity|]. split; [reflexivity|discriminate].
  Qed.

  (* ---------------------------------------------------------------- the invariant of a statement round *)
  Definition SI (g : option xprov) (sd : sdev) (a : action) : Prop :=
    OK a = true /\ (forall pv, g = Some pv -> PvOk pv a sd) /\ (SH a = true -> g <> None \/ model_xm sd = None).

  (* the event was computed from the sub-matches of a successful expect of the action that made it *)
  Definition XGood (x : xrep) : Prop :=
    exists pv, snd x = Some pv /\ xp_client pv = rp_client (fst x) /\ xp_slot pv = Some (rp_slot (fst x)) /\ xp_wf pv /\
      exists sdk ak storek, stmt_reports rmatch sdk ak storek (fst x) /\ model_xm sdk = xp_xm pv /\ a_com ak = xp_com pv.

  Lemma cur_same_pc e e' : same_pc e e' -> cur e' = cur e.
  Proof. intros [A B]. unfold cur. now rewrite A, B. Qed.

  Lemma facts_SH_OK sd a s sd' a' e0 rest0 : StepFacts sd a s sd' a' -> a_exec a = e0 :: rest0 -> cur e0 = Some s -> OK a = true ->
    SH a' = SH a /\ OK a' = true /\
    (Nat.ltb (length (a_exec a)) (length (a_exec a')) = false -> exists e' r', a_exec a' = e' :: r' /\ cur e' = Some s).
  Proof.
    intros (_ & _ & _ & (e & e' & rest & Ex & Hpc & Hsh) & _) Ex0 Hc Hok.
    rewrite Ex in Ex0. injection Ex0 as <- <-.
    rewrite (OK_cons a e rest Ex) in Hok. apply andb_true_iff in Hok as [Hok1 Hok2].
    rewrite (SH_cons a e rest Ex). destruct Hpc as [Hb Hp].
    destruct Hsh as [E'|(c & b & E' & Hc0 & Hcb & Hbody)].
    - rewrite (SH_cons a' e' rest E'), (OK_cons a' e' rest E'), Hb, Hp, Hok1, Hok2. split; [reflexivity|]. split; [reflexivity|].
      intros _. exists e', rest. split; [exact E'|]. rewrite (cur_same_pc e e'); [exact Hc|split; assumption].
    - rewrite (SH_cons a' c (e' :: rest) E'), (OK_cons a' c (e' :: rest) E'), Hc0. cbn [firstn xh rev].
      rewrite sh_app, stack_ok_app. cbn [sh stack_ok]. rewrite Hb, Hp, Hok1, Hok2, Hcb. cbn [andb]. split; [reflexivity|]. split.
      + unfold cur in Hc. pose proof (ck_block_nth _ _ _ _ Hok2 Hc) as Hs. now rewrite (ck_stmt_body _ _ _ Hbody) in Hs.
      + rewrite Ex, E'. cbn [length]. intros H. apply Nat.ltb_ge in H. lia.
  Qed.

  Lemma stmt_SI now sd a store g fin sd' a' store' evs t :
    SI g sd a -> process_stmt rmatch compress sc now sd a store = Ok ((fin, sd', a', store', evs), t) ->
    SI (xg_stmt now sd a store g) sd' a' /\
    Forall XGood (xstmt_report sd a store g) /\
    (Nat.ltb (length (a_exec a)) (length (a_exec a')) = false -> fin = true ->
       forall e r re, a_exec a' = e :: r -> cur e = Some (Expect re) -> xg_stmt now sd a store g <> None).
  Proof.
    intros (Hok & Hpv & Hsh) E.
    destruct (process_stmt_writes rmatch compress sc now sd a store fin sd' a' store' evs t E) as [_ Hrep].
    revert E. unfold process_stmt, xg_stmt, xstmt_report. destruct (a_exec a) as [|e rest] eqn:Ex; [discriminate|].
    destruct (cur e) as [s|] eqn:Ec; [|discriminate].
    (* every statement but expect *)
    assert (G : (forall re, s <> Expect re) -> StepFacts sd a s sd' a' ->
                SI g sd' a' /\ Forall XGood (map (fun w => (w, g)) (stmt_report rmatch sd a store)) /\
                (Nat.ltb (length (e :: rest)) (length (a_exec a')) = false -> fin = true ->
                   forall e1 r re, a_exec a' = e1 :: r -> cur e1 = Some (Expect re) -> g <> None)).
    { intros Hne F. destruct (facts_SH_OK sd a s sd' a' e rest F Ex Ec Hok) as (HS & HO & Htop).
      pose proof F as (I1 & I2 & I3 & _ & Hx). specialize (Hx Hne).
      split; [|split].
      - split; [exact HO|]. split.
        + intros pv Hg. destruct (Hpv pv Hg) as (P1 & P2 & P3 & P4 & P5). split; [congruence|]. split; [congruence|]. split; [congruence|]. split; [congruence|exact P5].
        + rewrite HS, Hx. exact Hsh.
      - apply Forall_forall. intros x Hx0. apply in_map_iff in Hx0 as (w & <- & Hw). rewrite Forall_forall in Hrep. pose proof (Hrep w Hw) as Hr.
        pose proof Hr as (e1 & rest1 & al & old & Ex1 & A1 & A2 & A3 & A4 & A5 & Heff).
        rewrite Ex in Ex1. injection Ex1 as <- <-.
        (* the statement is a setplugstate / setresult: its point is statically after an expect, and it read a sub-match *)
        assert (Hst : SH a = true /\ model_xm sd <> None).
        { rewrite (OK_cons a e rest Ex) in Hok. apply andb_true_iff in Hok as [_ Hok2]. unfold cur in Ec. pose proof (ck_block_nth _ _ _ _ Hok2 Ec) as Hs.
          rewrite (SH_cons a e rest Ex).
          destruct Heff as [(lit & pmp & smp & ints & Hc & _ & He)|(pmp & smp & ints & Hc & _ & He)]; unfold cur in Hc; rewrite Ec in Hc; injection Hc as ->; cbn [ck_stmt] in Hs.
          - split; [exact Hs|]. destruct (state_effect_spelled rmatch _ _ _ _ _ _ _ _ _ _ He) as (pn & p & _ & _ & _ & _ & Hcap & _).
            cbn [ScriptSem.ss_xm] in Hcap. intros Hn. rewrite Hn in Hcap. discriminate Hcap.
          - split; [exact Hs|]. destruct (result_effect_spelled rmatch _ _ _ _ _ _ _ _ He) as (pn & p & _ & _ & _ & _ & Hcap & _).
            cbn [ScriptSem.ss_xm] in Hcap. intros Hn. rewrite Hn in Hcap. discriminate Hcap. }
        destruct Hst as [Hs1 Hs2]. destruct (Hsh Hs1) as [Hg|Hn]; [|contradiction].
        destruct g as [pv|]; [|congruence]. destruct (Hpv pv eq_refl) as (P1 & P2 & P3 & P4 & P5).
        exists pv. cbn [fst snd]. split; [reflexivity|]. split; [congruence|]. split; [congruence|]. split; [exact P5|].
        exists sd, a, store. split; [exact Hr|]. split; [exact P4|now symmetry].
      - intros Hlt Hfin e1 r re E1 Hc1. rewrite <- Ex in Hlt. destruct (Htop Hlt) as (e2 & r2 & E2 & Hc2). rewrite E1 in E2. injection E2 as <- <-.
        rewrite Hc1 in Hc2. injection Hc2 as <-. exfalso. exact (Hne re eq_refl). }
    destruct s as [fmt|re|lit pmp smp ints|pmp smp ints|us|body|body|body|body].
    - intros H. apply omap_ok in H. apply G; [discriminate|]. eapply send_facts; eassumption.
    - (* expect *)
      intros H. apply omap_ok in H. rewrite H. destruct (expect_facts now sd a store re fin sd' a' store' evs H) as (-> & Hf & Ht).
      assert (Hrep0 : stmt_report rmatch sd a store = []) by (unfold stmt_report; rewrite Ex, Ec; reflexivity).
      rewrite Hrep0. cbn [map]. destruct fin.
      + destruct (Ht eq_refl) as (pm & Hxm & Hmx & Hne & Hm). rewrite Hxm. split; [|split; [constructor|intros _ _ e1 r re1 _ _; discriminate]].
        split; [exact Hok|]. split.
        * intros pv Hg. injection Hg as <-. split; [reflexivity|]. split; [reflexivity|]. split; [reflexivity|]. split; [exact Hmx|]. split; [exact Hne|exact Hm].
        * intros _. left. discriminate.
      + split; [|split; [constructor|intros _ Hd; discriminate Hd]].
        split; [exact Hok|]. split; [intros pv Hg; discriminate Hg|]. intros _. right. exact (Hf eq_refl).
    - intros H. apply omap_ok in H. apply G; [discriminate|]. eapply setplugstate_facts; eassumption.
    - intros H. apply omap_ok in H. apply G; [discriminate|]. eapply setresult_facts; eassumption.
    - intros H. apply G; [discriminate|]. eapply delay_facts; eassumption.
    - intros H. apply omap_ok in H. apply G; [discriminate|]. eapply (foreach_facts sd a store e rest false body); [exact Ex|reflexivity|exact H].
    - intros H. apply omap_ok in H. apply G; [discriminate|]. eapply (foreach_facts sd a store e rest true body); [exact Ex|reflexivity|exact H].
    - intros H. apply omap_ok in H. apply G; [discriminate|]. eapply (ifonoff_facts sd a store e rest true body); [exact Ex|reflexivity|exact H].
    - intros H. apply omap_ok in H. apply G; [discriminate|]. eapply (ifonoff_facts sd a store e rest false body); [exact Ex|reflexivity|exact H].
  Qed.

  (* ---------------------------------------------------------------- the do..while round *)
  Fixpoint dw_x (fuel : nat) (now : Z) (sd : sdev) (a : action) (store : list arglist) (g : option xprov) : list xrep * option xprov :=
    match fuel with
    | O => ([], g)
    | S f =>
      match process_stmt rmatch compress sc now sd a store with
      | Ok ((_, sd', a', store', _), _) =>
          let g1 := xg_stmt now sd a store g in
          if Nat.ltb (length (a_exec a)) (length (a_exec a'))
          then let '(xs, g2) := dw_x f now sd' a' store' g1 in (xstmt_report sd a store g ++ xs, g2)
          else (xstmt_report sd a store g, g1)
      | _ => ([], g)
      end
    end.

  Lemma map_fst_xstmt sd a store g : map fst (xstmt_report sd a store g) = stmt_report rmatch sd a store.
  Proof. unfold xstmt_report. rewrite map_map. cbn [fst]. apply map_id. Qed.

  Lemma dw_x_inv : forall fuel now sd a store acc tmo g fin sd' a' store' evs t,
    SI g sd a -> do_while rmatch compress sc fuel now sd a store acc tmo = Ok ((fin, sd', a', store', evs), t) ->
    SI (snd (dw_x fuel now sd a store g)) sd' a' /\ Forall XGood (fst (dw_x fuel now sd a store g)) /\
    map fst (fst (dw_x fuel now sd a store g)) = dw_reports rmatch compress sc fuel now sd a store /\
    (fin = true -> forall e r re, a_exec a' = e :: r -> cur e = Some (Expect re) -> snd (dw_x fuel now sd a store g) <> None).
  Proof.
    induction fuel as [|f IH]; intros now sd a store acc tmo g fin sd' a' store' evs t Hsi; cbn [do_while dw_x dw_reports]; [discriminate|].
    destruct (process_stmt rmatch compress sc now sd a store) as [[[[[[fin1 sd1] a1] st1] evs1] t1]| | | |] eqn:Ep; try discriminate.
    destruct (stmt_SI now sd a store g fin1 sd1 a1 st1 evs1 t1 Hsi Ep) as (S1 & G1 & T1).
    destruct (Nat.ltb (length (a_exec a)) (length (a_exec a1))) eqn:El.
    - intros H. destruct (IH _ _ _ _ _ _ _ _ _ _ _ _ _ S1 H) as (S2 & G2 & M2 & T2).
      destruct (dw_x f now sd1 a1 st1 (xg_stmt now sd a store g)) as [xs g2]. cbn [fst snd] in *.
      split; [exact S2|]. split; [apply Forall_app; split; assumption|]. split; [rewrite map_app; f_equal; [apply map_fst_xstmt|exact M2]|exact T2].
    - intros H. injection H as <- <- <- <- _ _. cbn [fst snd]. rewrite app_nil_r.
      split; [exact S1|]. split; [exact G1|]. split; [apply map_fst_xstmt|]. intros Hf. exact (T1 eq_refl Hf).
  Qed.

  (* a finished statement: e->cur = next, the context is popped when its block is exhausted *)
  Lemma advance_SI g sd a : SI g sd a -> (forall e r re, a_exec a = e :: r -> cur e = Some (Expect re) -> g <> None) ->
    a_exec (advance a) <> [] -> SI g sd (advance a).
  Proof.
    intros (Hok & Hpv & Hsh) Hexp. unfold advance. destruct (a_exec a) as [|e rest] eqn:Ex; [intros H; congruence|].
    rewrite (OK_cons a e rest Ex) in Hok. apply andb_true_iff in Hok as [Hok1 Hok2]. rewrite (SH_cons a e rest Ex) in Hsh.
    cbv zeta. destruct (cur (set_pos (S (c_pos e)) e)) eqn:Ec'; intros Hne.
    - set (a2 := set_exec (set_pos (S (c_pos e)) e :: rest) a).
      assert (E2 : a_exec a2 = set_pos (S (c_pos e)) e :: rest) by reflexivity.
      split; [rewrite (OK_cons a2 _ rest E2); cbn [set_pos c_block]; now rewrite Hok1, Hok2|]. split; [exact Hpv|].
      rewrite (SH_cons a2 _ rest E2). cbn [set_pos c_block c_pos]. rewrite firstn_S_nth, xh_app.
      destruct (nth_error (c_block e) (c_pos e)) as [x|] eqn:En; [|cbn [xh]; exact Hsh].
      cbn [xh]. destruct x; cbn [xo]; try exact Hsh. intros _. left. apply (Hexp e rest re eq_refl). exact En.
    - destruct rest as [|e2 rest2]; [cbn [set_exec a_exec] in Hne; congruence|].
      set (a2 := set_exec (e2 :: rest2) a).
      split; [exact Hok1|]. split; [exact Hpv|]. intros H2. apply Hsh. apply xh_mono. exact H2.
  Qed.

  (* ---------------------------------------------------------------- the device invariant *)
  Definition scripts_ok (d : device) : Prop := forall i s, assoc_script i (dv_scripts d) = Some s -> ck_block false s = true.
  (* the queue: every stack passes the check from where it stands; the actions behind the head stand at the start of their scripts *)
  Definition BIq (acts : list action) : Prop := Forall (fun a => OK a = true) acts /\ Forall (fun a => SH a = false) (tl acts).
  Definition BI (d : device) : Prop := scripts_ok d /\ BIq (dv_acts d).
  Definition head_fresh (d : device) : Prop := match dv_acts d with a0 :: _ => SH a0 = false | [] => True end.
  Definition Hd_ok (g : option xprov) (d : device) : Prop :=
    match dv_acts d with
    | [] => g = None
    | act0 :: _ => (forall pv, g = Some pv -> PvOk pv act0 (dv d)) /\
                   (connected d = true -> SH act0 = true -> g <> None \/ model_xm (dv d) = None)
    end.
  Definition XI (g : option xprov) (d : device) : Prop := BI d /\ Hd_ok g d.

  Lemma XI_none d : BI d -> (connected d = true -> head_fresh d) -> XI None d.
  Proof.
    intros B H. split; [exact B|]. unfold Hd_ok, head_fresh in *. destruct (dv_acts d) as [|a0 r]; [reflexivity|].
    split; [intros pv Hg; discriminate Hg|]. intros Hc Hs. rewrite (H Hc) in Hs. discriminate Hs.
  Qed.

  Lemma Forall_tl {A} (P : A -> Prop) l : Forall P l -> Forall P (tl l).
  Proof. destruct l; [auto|]. intros H; now inversion H. Qed.

  Lemma OK_create s com ps c cb te di args : ck_block false s = true -> OK (create_action s com ps c cb te di args) = true.
  Proof. intros H. rewrite (OK_single (create_action s com ps c cb te di args) (new_ctx s ps) eq_refl). exact H. Qed.
  Lemma SH_create s com ps c cb te di args : SH (create_action s com ps c cb te di args) = false.
  Proof. exact (SH_single (create_action s com ps c cb te di args) (new_ctx s ps) eq_refl eq_refl). Qed.

  Lemma rewind_ok h : OK h = true -> OK (rewind_action h) = true /\ SH (rewind_action h) = false.
  Proof.
    intros H. unfold rewind_action, OK, SH in *. destruct (rev (a_exec h)) as [|outer r] eqn:Er.
    - cbv iota. rewrite Er. split; [exact H|reflexivity].
    - cbn [stack_ok] in H. apply andb_true_iff in H as [H _]. cbn [set_exec a_exec rev app stack_ok sh set_processing set_plugitr set_pos c_block c_pos firstn xh].
      rewrite H. split; reflexivity.
  Qed.

  (* _enqueue_actions for PM_LOG_IN *)
  Lemma enqueue_login_X d d3 : BI d -> enqueue_login d = Ok d3 ->
    BI d3 /\ head_fresh d3 /\ dv_cstate d3 = dv_cstate d /\ dv d3 = dv d.
  Proof.
    intros (Hs & Ho & Ht). unfold enqueue_login. destruct (assoc_script PM_LOG_IN (dv_scripts d)) as [s|] eqn:Es; [|discriminate].
    intros H. injection H as <-. split; [|split; [exact (SH_create _ _ _ _ _ _ _ _)|split; reflexivity]].
    split; [exact Hs|]. cbn [set_acts dv_acts]. split.
    - constructor; [exact (OK_create _ _ _ _ _ _ _ _ (Hs _ _ Es))|]. destruct (dv_acts d) as [|h r]; [constructor|].
      inversion Ho as [|? ? Hh Hr]; subst. constructor; [exact (proj1 (rewind_ok h Hh))|exact Hr].
    - cbn [tl]. destruct (dv_acts d) as [|h r]; [constructor|]. inversion Ho as [|? ? Hh Hr]; subst. cbn [tl] in Ht.
      constructor; [exact (proj2 (rewind_ok h Hh))|exact Ht].
  Qed.

  Lemma disconnect_X d : BI d -> BI (fst (disconnect d)) /\ connected (fst (disconnect d)) = false /\ (head_fresh d -> head_fresh (fst (disconnect d))).
  Proof.
    intros (Hs & Ho & Ht).
    set (d2 := set_conn DEV_NOT_CONNECTED false false (upd_sdev (fun s => set_to [] (set_from [] s)) d)).
    assert (Hd3 : fst (disconnect d) = match dv_acts d with h :: r => if Z.eqb (a_com h) PM_LOG_IN then set_acts r d2 else d2 | [] => d2 end) by reflexivity.
    rewrite Hd3. clear Hd3.
    assert (B2 : BI d2) by (split; [exact Hs|split; [exact Ho|exact Ht]]).
    assert (C2 : connected d2 = false) by reflexivity.
    assert (F2 : head_fresh d -> head_fresh d2) by (intros H; exact H).
    destruct (dv_acts d) as [|h r] eqn:Ea; [auto|]. destruct (Z.eqb (a_com h) PM_LOG_IN); [|auto].
    split; [split; [exact Hs|]; cbn [set_acts dv_acts]; inversion Ho; subst; split; [assumption|now apply Forall_tl]|]. split; [reflexivity|].
    intros _. unfold head_fresh. cbn [set_acts dv_acts]. cbn [tl] in Ht. destruct r; [exact Logic.I|now inversion Ht].
  Qed.

  Lemma connect_X now d plans d2 e2 pl : BI d -> connect now d plans = Ok (d2, e2, pl) -> BI d2 /\ (connected d2 = true -> head_fresh d2).
  Proof.
    intros B. unfold connect. destruct (dv_has_fd d || negb (Z.eqb (dv_cstate d) DEV_NOT_CONNECTED)) eqn:Eg; [discriminate|].
    apply orb_false_iff in Eg as [_ Eg]. apply negb_false_iff, Z.eqb_eq in Eg.
    assert (Hn : forall dx, dv_cstate dx = dv_cstate d -> connected dx = true -> head_fresh dx).
    { intros dx Ex Hc. unfold connected in Hc. rewrite Ex, Eg in Hc. discriminate Hc. }
    destruct plans as [|[| |] r].
    - intros H; injection H as <- _ _. split; [exact B|]. apply Hn. reflexivity.
    - match goal with |- match enqueue_login ?dd with _ => _ end = _ -> _ => destruct (enqueue_login dd) as [d3| | | |] eqn:El; try discriminate;
        destruct (enqueue_login_X dd d3 B El) as (B3 & F3 & _) end.
      intros H; injection H as <- _ _. split; [exact B3|intros _; exact F3].
    - intros H; injection H as <- _ _. split; [exact B|]. intros Hc. discriminate Hc.
    - intros H; injection H as <- _ _. split; [exact B|]. apply Hn. reflexivity.
  Qed.

  Lemma reconnect_X now d tmo plans d2 e2 t2 pl : BI d -> reconnect now d tmo plans = Ok (d2, e2, t2, pl) ->
    BI d2 /\ (connected d2 = true -> head_fresh d2).
  Proof.
    intros B. unfold reconnect.
    assert (H1 : BI (fst (if Z.eqb (dv_cstate d) DEV_NOT_CONNECTED then (d, []) else disconnect d)) /\
                 connected (fst (if Z.eqb (dv_cstate d) DEV_NOT_CONNECTED then (d, []) else disconnect d)) = false).
    { destruct (Z.eqb (dv_cstate d) DEV_NOT_CONNECTED) eqn:E.
      - cbn [fst]. split; [exact B|]. apply Z.eqb_eq in E. unfold connected. rewrite E. reflexivity.
      - destruct (disconnect_X d B) as (A1 & A2 & _). split; assumption. }
    destruct (if Z.eqb (dv_cstate d) DEV_NOT_CONNECTED then (d, []) else disconnect d) as [d1 e1]. cbn [fst] in H1. destruct H1 as [B1 C1].
    destruct (time_to_reconnect now d1 tmo) as [go tmo1]. destruct go.
    - destruct (connect now d1 plans) as [[[d2' e2'] pl']| | | |] eqn:Ec; try discriminate.
      intros H; injection H as <- _ _ _. exact (connect_X now d1 plans d2' e2' pl' B1 Ec).
    - intros H; injection H as <- _ _ _. split; [exact B1|]. intros Hc. rewrite C1 in Hc. discriminate Hc.
  Qed.

  Lemma BIq_snoc acts p : BIq acts -> OK p = true -> SH p = false -> BIq (acts ++ [p]).
  Proof.
    intros [Ho Ht] Hp Hs. split; [apply Forall_app; split; [exact Ho|constructor; [exact Hp|constructor]]|].
    destruct acts as [|h r]; [constructor|]. cbn [app tl] in *. apply Forall_app. split; [exact Ht|constructor; [exact Hs|constructor]].
  Qed.

  Lemma enqueue_ping_X now d2 t2 d3 t3 : BI d2 -> enqueue_ping now d2 t2 = (d3, t3) ->
    BI d3 /\ dv d3 = dv d2 /\ dv_cstate d3 = dv_cstate d2 /\
    (dv_acts d3 = dv_acts d2 \/ exists p, dv_acts d3 = dv_acts d2 ++ [p] /\ SH p = false).
  Proof.
    intros (Hs & Hq). unfold enqueue_ping. destruct (assoc_script PM_PING (dv_scripts d2)) as [s|] eqn:Es.
    2:{ intros H; injection H as <- _. split; [split; assumption|]. split; [reflexivity|]. split; [reflexivity|now left]. }
    destruct (Z.eqb (dv_ping_period d2) 0); [intros H; injection H as <- _; split; [split; assumption|]; split; [reflexivity|]; split; [reflexivity|now left]|].
    destruct (dv_last_ping d2 + dv_ping_period d2 <=? now); intros H; injection H as <- _.
    - split; [split; [exact Hs|]; cbn [set_last_ping set_acts dv_acts]; apply BIq_snoc; [exact Hq|exact (OK_create _ _ _ _ _ _ _ _ (Hs _ _ Es))|exact (SH_create _ _ _ _ _ _ _ _)]|].
      split; [reflexivity|]. split; [reflexivity|]. right. eexists. split; [reflexivity|exact (SH_create _ _ _ _ _ _ _ _)].
    - split; [split; assumption|]. split; [reflexivity|]. split; [reflexivity|now left].
  Qed.

  (* _handle_ready_device: the queue and the sub-matches are left alone, unless a pending connect completes (then a fresh login is in front) *)
  Lemma handle_ready_X d pin io d1 e1 : BI d -> handle_ready d pin = Ok (io, d1, e1) ->
    BI d1 /\
    ((dv_acts d1 = dv_acts d /\ model_xm (dv d1) = model_xm (dv d) /\ (io = false -> dv_cstate d1 = dv_cstate d)) \/
     (connected d = false /\ head_fresh d1)).
  Proof.
    intros B. unfold handle_ready.
    destruct (Z.eqb (dv_cstate d) DEV_NOT_CONNECTED); [discriminate|].
    destruct (negb (dv_has_fd d)); [discriminate|].
    destruct (pi_hup pin || pi_err pin || pi_nval pin); [intros H; injection H as <- <- _; split; [exact B|left; repeat split; discriminate]|].
    assert (Rd : forall dx ex, BI dx -> dv_acts dx = dv_acts d -> model_xm (dv dx) = model_xm (dv d) -> dv_cstate dx = dv_cstate d ->
              (if pi_in pin then
                 let d1g := set_from_size (after_read_size dx) dx in
                 match pi_read pin with
                 | None | Some [] => Ok (true, d1g, ex)
                 | Some b =>
                     let d2 := upd_sdev (fun s => set_from (lastn (Z.to_nat MAX_DEV_BUF) (sd_from s ++ b)) s) d1g in
                     let d3 := match pi_pre pin with
                               | None => d2
                               | Some (kept, reply) =>
                                   upd_sdev (fun s => set_to (lastn (Z.to_nat MAX_DEV_BUF) (sd_to s ++ reply))
                                                        (set_from (firstn (length (sd_from s) - length b) (sd_from s) ++ kept) s)) d2
                               end in
                     Ok (false, d3, ex ++ [EvRead (length b)])
                 end
               else Ok (false, dx, ex)) = Ok (io, d1, e1) ->
              BI d1 /\ dv_acts d1 = dv_acts d /\ model_xm (dv d1) = model_xm (dv d) /\ dv_cstate d1 = dv_cstate d).
    { intros dx ex Bx Ex Mx Cx.
      assert (K : forall dy, dv_scripts dy = dv_scripts dx -> dv_acts dy = dv_acts dx -> model_xm (dv dy) = model_xm (dv dx) -> dv_cstate dy = dv_cstate dx ->
                    BI dy /\ dv_acts dy = dv_acts d /\ model_xm (dv dy) = model_xm (dv d) /\ dv_cstate dy = dv_cstate d).
      { intros dy Y1 Y2 Y3 Y4. split; [|split; [congruence|split; congruence]]. destruct Bx as [Bs Bq]. split; [unfold scripts_ok; rewrite Y1; exact Bs|now rewrite Y2]. }
      destruct (pi_in pin); [|intros H; injection H as _ <- _; apply K; reflexivity]. cbv zeta.
      destruct (pi_read pin) as [[|b0 br]|]; [intros H; injection H as _ <- _; apply K; reflexivity| |intros H; injection H as _ <- _; apply K; reflexivity].
      destruct (pi_pre pin) as [[kept reply]|]; intros H; injection H as _ <- _; apply K; reflexivity. }
    destruct (pi_out pin).
    - destruct (Z.eqb (dv_cstate d) DEV_CONNECTING) eqn:Ec.
      + apply Z.eqb_eq in Ec. destruct (pi_finish_ok pin).
        * match goal with |- match (match enqueue_login ?dd with _ => _ end) with _ => _ end = _ -> _ =>
            destruct (enqueue_login dd) as [d3| | | |] eqn:El; try discriminate; destruct (enqueue_login_X dd d3 B El) as (B3 & F3 & _) end.
          cbv beta iota. intros H; injection H as _ <- _. split; [exact B3|]. right. split; [unfold connected; rewrite Ec; reflexivity|exact F3].
        * cbv beta iota. intros H; injection H as <- <- _. split; [exact B|]. left. repeat split. discriminate.
      + destruct (pi_wrote pin) as [[|n]|]; cbv beta iota; try (intros H; injection H as <- <- _; split; [exact B|left; repeat split; discriminate]).
        intros H. destruct (Rd (upd_sdev (fun s => set_to (skipn (S n) (sd_to s)) s) d) _ B eq_refl eq_refl eq_refl H) as (A1 & A2 & A3 & A4). split; [exact A1|]. left. auto.
    - cbv beta iota. intros H. destruct (Rd d _ B eq_refl eq_refl eq_refl H) as (A1 & A2 & A3 & A4). split; [exact A1|]. left. auto.
  Qed.

  (* ---------------------------------------------------------------- one iteration of _process_action's loop *)
  Definition dev_of (r : pa_res) : device := match r with PaDone d' _ _ _ _ => d' | PaNext d' _ _ _ => d' end.

  (* the events of the iteration (DeviceWrites.pa_reports) with the ghost, and the ghost afterwards: cleared when the head action times
     out, fails or ends; what the statement round left otherwise *)
  Definition pa_x (now : Z) (d : device) (store : list arglist) (g : option xprov) : list xrep * option xprov :=
    match dv_acts d with
    | [] => ([], g)
    | act0 :: _ =>
      match a_exec act0 with
      | [] => ([], g)
      | _ =>
        let stamp := match a_stamp act0 with Some t => t | None => now end in
        let act := set_stamp (Some stamp) act0 in
        if stamp + dv_timeout d <=? now then ([], None)
        else if negb (connected d) then ([], g)
        else
          match do_while rmatch compress sc 8 now (dv d) act store [] None with
          | Ok ((fin, _, act', _, _), _) =>
              let xg := dw_x 8 now (dv d) act store g in
              (fst xg, if negb fin then snd xg
                       else if Z.eqb (a_err act') ACT_ESUCCESS then match a_exec (advance act') with [] => None | _ => snd xg end
                       else None)
          | _ => ([], g)
          end
      end
    end.

  Lemma far_X now d act rest store tmo plans pre r : scripts_ok d -> fail_and_reconnect now d act rest store tmo plans pre = Ok r -> XI None (dev_of r).
  Proof.
    intros Hs. unfold fail_and_reconnect. cbv zeta.
    assert (B1 : BI (set_acts [] d)) by (split; [exact Hs|split; constructor]).
    destruct (connected (set_acts [] d)).
    - destruct (reconnect now (set_acts [] d) tmo plans) as [[[[d2 e2] t2] pl]| | | |] eqn:Er; try discriminate.
      intros H; injection H as <-. cbn [dev_of]. destruct (reconnect_X _ _ _ _ _ _ _ _ B1 Er) as [B2 F2]. exact (XI_none d2 B2 F2).
    - intros H; injection H as <-. cbn [dev_of]. apply XI_none; [exact B1|]. intros _. exact Logic.I.
  Qed.

  Lemma PvOk_xm pv a sd sd' : model_xm sd' = model_xm sd -> PvOk pv a sd -> PvOk pv a sd'.
  Proof. intros E (P1 & P2 & P3 & P4 & P5). repeat (split; [assumption|]). split; [congruence|exact P5]. Qed.

  Lemma pa_x_inv now d store tmo plans g r : XI g d -> pa_step rmatch compress sc now d store tmo plans = Ok r ->
    XI (snd (pa_x now d store g)) (dev_of r) /\ Forall XGood (fst (pa_x now d store g)) /\
    map fst (fst (pa_x now d store g)) = pa_reports rmatch compress sc now d store.
  Proof.
    intros [[Hs [Ho Ht]] Hh]. unfold pa_step, pa_x, pa_reports, Hd_ok in *.
    destruct (dv_acts d) as [|act0 rest] eqn:Ea.
    { intros H; injection H as <-. cbn [dev_of fst snd map]. split; [|split; [constructor|reflexivity]].
      split; [split; [exact Hs|rewrite Ea; split; assumption]|]. unfold Hd_ok. rewrite Ea. exact Hh. }
    inversion Ho as [|? ? Ho0 Hor]; subst. cbn [tl] in Ht. destruct Hh as [Hpv Hsh].
    destruct (a_exec act0) as [|e0 er] eqn:Eex; [discriminate|].
    cbv zeta.
    set (stamp := match a_stamp act0 with Some t => t | None => now end).
    set (act := set_stamp (Some stamp) act0).
    assert (Hact : OK act = true /\ SH act = SH act0 /\ forall pv sd, PvOk pv act0 sd -> PvOk pv act sd) by (split; [exact Ho0|split; [reflexivity|intros pv sd H; exact H]]).
    destruct Hact as (Hoa & Hsa & Hpa).
    destruct (stamp + dv_timeout d <=? now).
    { intros H. cbn [fst snd map]. split; [exact (far_X _ _ _ _ _ _ _ _ _ Hs H)|split; [constructor|reflexivity]]. }
    destruct (negb (connected d)) eqn:Ec.
    { intros H; injection H as <-. cbn [dev_of fst snd map]. split; [|split; [constructor|reflexivity]].
      apply negb_true_iff in Ec.
      split; [split; [exact Hs|cbn [set_acts dv_acts]; split; [constructor; assumption|exact Ht]]|].
      unfold Hd_ok. cbn [set_acts dv_acts dv]. split; [intros pv Hg; exact (Hpa _ _ (Hpv pv Hg))|].
      intros Hc. change (connected (set_acts (act :: rest) d)) with (connected d) in Hc. rewrite Ec in Hc. discriminate Hc. }
    apply negb_false_iff in Ec.
    assert (Hsi : SI g (dv d) act).
    { split; [exact Hoa|]. split; [intros pv Hg; exact (Hpa _ _ (Hpv pv Hg))|]. rewrite Hsa. exact (Hsh Ec). }
    destruct (do_while rmatch compress sc 8 now (dv d) act store [] None) as [[[[[[fin sd'] act'] store'] evs] dt]| | | |] eqn:Edw; try discriminate.
    destruct (dw_x_inv _ _ _ _ _ _ _ _ _ _ _ _ _ _ Hsi Edw) as (S1 & G1 & M1 & T1).
    cbn [fst snd]. destruct S1 as (So & Sp & Ss).
    (* the device with the statement round's result in place *)
    assert (Hkeep : forall a2 g2, SI g2 sd' a2 -> XI g2 (set_acts (a2 :: rest) (upd_sdev (fun _ => sd') d))).
    { intros a2 g2 (Xo & Xp & Xs). split; [split; [exact Hs|cbn [set_acts dv_acts]; split; [constructor; assumption|exact Ht]]|].
      unfold Hd_ok. cbn [set_acts upd_sdev dv_acts dv]. split; [exact Xp|]. intros _. exact Xs. }
    destruct (negb fin) eqn:Ef.
    { intros H; injection H as <-. cbn [dev_of]. split; [apply Hkeep; exact (conj So (conj Sp Ss))|split; assumption]. }
    apply negb_false_iff in Ef.
    destruct (Z.eqb (a_err act') ACT_ESUCCESS).
    - destruct (a_exec (advance act')) as [|e2 r2] eqn:Eadv.
      + intros H; injection H as <-. cbn [dev_of]. split; [|split; assumption].
        destruct (Z.eqb (a_com (advance act')) PM_LOG_IN); (apply XI_none;
          [split; [exact Hs|cbn [set_stats set_conn set_acts dv_acts]; split; [exact Hor|now apply Forall_tl]]
          |intros _; unfold head_fresh; cbn [set_stats set_conn set_acts dv_acts]; destruct rest as [|a1 r1]; [exact Logic.I|now inversion Ht]]).
      + intros H; injection H as <-. cbn [dev_of]. split; [|split; assumption].
        apply Hkeep. apply advance_SI; [exact (conj So (conj Sp Ss))|exact (T1 Ef)|rewrite Eadv; discriminate].
    - intros H. split; [|split; assumption]. exact (far_X now (upd_sdev (fun _ => sd') d) _ _ _ _ _ _ _ Hs H).
  Qed.

  (* ---------------------------------------------------------------- _process_action *)
  Fixpoint pas_x (fuel : nat) (now : Z) (d : device) (store : list arglist) (tmo : option Z) (plans : list cplan) (g : option xprov)
    : list xrep * option xprov :=
    match fuel with
    | O => ([], g)
    | S f =>
      match pa_step rmatch compress sc now d store tmo plans with
      | Ok (PaDone _ _ _ _ _) => pa_x now d store g
      | Ok (PaNext d' store' tmo' _) =>
          let x1 := pa_x now d store g in let x2 := pas_x f now d' store' tmo' plans (snd x1) in (fst x1 ++ fst x2, snd x2)
      | _ => ([], g)
      end
    end.

  Lemma pas_x_inv : forall fuel now d store tmo plans acc g d' store' tmo' pl' evs, XI g d ->
    process_action rmatch compress sc fuel now d store tmo plans acc = Ok (d', store', tmo', pl', evs) ->
    XI (snd (pas_x fuel now d store tmo plans g)) d' /\ Forall XGood (fst (pas_x fuel now d store tmo plans g)) /\
    map fst (fst (pas_x fuel now d store tmo plans g)) = pas_reports rmatch compress sc fuel now d store tmo plans.
  Proof.
    induction fuel as [|f IH]; intros now d store tmo plans acc g d' store' tmo' pl' evs Hx; cbn [process_action pas_x pas_reports]; [discriminate|].
    destruct (pa_step rmatch compress sc now d store tmo plans) as [r| | | |] eqn:Es; try discriminate.
    destruct (pa_x_inv now d store tmo plans g r Hx Es) as (X1 & G1 & M1).
    destruct r as [d1 st1 tmo1 pl1 e1|d1 st1 tmo1 e1]; cbn [dev_of] in X1.
    - intros H. injection H as <- _ _ _ _. split; [exact X1|split; assumption].
    - intros H. destruct (IH _ _ _ _ _ _ _ _ _ _ _ _ X1 H) as (X2 & G2 & M2). cbn [fst snd].
      split; [exact X2|]. split; [apply Forall_app; split; assumption|]. rewrite map_app. f_equal; assumption.
  Qed.

  (* ---------------------------------------------------------------- the part of post_poll_one in front of _process_action *)
  (* the ghost survives it only if the device was connected and its descriptor gave no error: otherwise the connection is (being) re-made
     and the head action restarts behind a fresh login *)
  Definition xg_front (d : device) (pin : passin) (g : option xprov) : option xprov :=
    if connected d then
      match (if dv_has_fd d && any_flag pin then handle_ready d pin else Ok (false, d, [])) with
      | Ok (false, _, _) => g
      | _ => None
      end
    else None.

  Lemma head_fresh_snoc d2 d3 : head_fresh d2 -> (dv_acts d3 = dv_acts d2 \/ exists p, dv_acts d3 = dv_acts d2 ++ [p] /\ SH p = false) -> head_fresh d3.
  Proof.
    unfold head_fresh. intros H [E|(p & E & Hp)]; rewrite E; [exact H|]. destruct (dv_acts d2); [exact Hp|exact H].
  Qed.

  Lemma pp_front_X now d t pin d3 t3 pl e12 g : XI g d -> pp_front now d t pin = Ok (d3, t3, pl, e12) -> XI (xg_front d pin g) d3.
  Proof.
    intros [B Hh]. unfold pp_front, xg_front.
    set (r0 := if dv_has_fd d && any_flag pin then handle_ready d pin else Ok (false, d, [])).
    assert (H0 : forall io d1 e1, r0 = Ok (io, d1, e1) ->
              BI d1 /\ ((dv_acts d1 = dv_acts d /\ model_xm (dv d1) = model_xm (dv d) /\ (io = false -> dv_cstate d1 = dv_cstate d)) \/
                        (connected d = false /\ head_fresh d1))).
    { unfold r0. destruct (dv_has_fd d && any_flag pin); [intros io d1 e1; apply handle_ready_X; exact B|].
      intros io d1 e1 H; injection H as <- <- _. split; [exact B|left; auto]. }
    destruct r0 as [[[io d1] e1]| | | |] eqn:E0; try discriminate. destruct (H0 _ _ _ eq_refl) as (B1 & P1). clear H0.
    (* the ping stage, from any device d2 with BI *)
    assert (Hping : forall d2 t2, BI d2 -> forall d3' t3', (if connected d2 then enqueue_ping now d2 t2 else (d2, t2)) = (d3', t3') ->
              BI d3' /\ dv d3' = dv d2 /\ dv_cstate d3' = dv_cstate d2 /\
              (dv_acts d3' = dv_acts d2 \/ exists p, dv_acts d3' = dv_acts d2 ++ [p] /\ SH p = false)).
    { intros d2 t2 B2 d3' t3'. destruct (connected d2); [apply enqueue_ping_X; exact B2|].
      intros H; injection H as <- _. split; [exact B2|]. split; [reflexivity|]. split; [reflexivity|now left]. }
    destruct (io || Z.eqb (dv_cstate d1) DEV_NOT_CONNECTED) eqn:Er.
    - (* the connection is re-made *)
      destruct (reconnect now d1 t (pi_plans pin)) as [[[[d2 e2] t2] pl2]| | | |] eqn:Erc; try discriminate.
      destruct (reconnect_X _ _ _ _ _ _ _ _ B1 Erc) as [B2 F2].
      destruct (if connected d2 then enqueue_ping now d2 t2 else (d2, t2)) as [d3' t3'] eqn:Ep.
      destruct (Hping d2 t2 B2 d3' t3' Ep) as (B3 & D3 & C3 & A3).
      intros H; injection H as <- _ _ _.
      assert (Hnone : XI None d3').
      { apply XI_none; [exact B3|]. intros Hc. unfold connected in Hc. rewrite C3 in Hc. exact (head_fresh_snoc d2 d3' (F2 Hc) A3). }
      destruct (connected d) eqn:Ecd; [|exact Hnone]. destruct io; [exact Hnone|]. exfalso.
      cbn [orb] in Er. apply Z.eqb_eq in Er. destruct P1 as [(_ & _ & Hc)|(Hc & _)]; [|discriminate Hc].
      unfold connected in Ecd. rewrite <- (Hc eq_refl), Er in Ecd. discriminate Ecd.
    - apply orb_false_iff in Er as [-> Er].
      destruct (if connected d1 then enqueue_ping now d1 t else (d1, t)) as [d3' t3'] eqn:Ep.
      destruct (Hping d1 t B1 d3' t3' Ep) as (B3 & D3 & C3 & A3).
      intros H; injection H as <- _ _ _.
      destruct (connected d) eqn:Ecd.
      + (* connected, no error: the queue keeps its head, the sub-matches stay *)
        destruct P1 as [(Ea & Ex & Hc)|(Hc & _)]; [|discriminate Hc]. specialize (Hc eq_refl).
        split; [exact B3|]. unfold Hd_ok in *. rewrite Ea in A3.
        assert (Ecd3 : connected d3' = true) by (unfold connected in *; now rewrite C3, Hc).
        destruct (dv_acts d) as [|a0 ra].
        * subst g. cbn [app] in A3. destruct A3 as [->|(p & -> & Hp)]; [reflexivity|].
          split; [intros pv Hg; discriminate Hg|]. intros _ Hs. rewrite Hp in Hs. discriminate Hs.
        * destruct Hh as [Hpv Hsh]. assert (Ehd : exists r', dv_acts d3' = a0 :: r') by (destruct A3 as [E3|(p & E3 & _)]; rewrite E3; cbn [app]; eauto).
          destruct Ehd as (r' & ->). rewrite D3. split; [intros pv Hg; exact (PvOk_xm _ _ _ _ Ex (Hpv pv Hg))|].
          intros _ Hs. rewrite Ex. exact (Hsh Ecd Hs).
      + apply XI_none; [exact B3|]. intros Hc3. destruct P1 as [(_ & _ & Hc)|(_ & F1)].
        * exfalso. unfold connected in *. rewrite C3, (Hc eq_refl), Ecd in Hc3. discriminate Hc3.
        * exact (head_fresh_snoc d1 d3' F1 A3).
  Qed.

  (* ---------------------------------------------------------------- one device's share of dev_post_poll *)
  Definition pp_x (now : Z) (d : device) (store : list arglist) (tmo : option Z) (pin : passin) (g : option xprov) : list xrep * option xprov :=
    match pp_front now d tmo pin with
    | Ok (d3, t3, pl, _) => pas_x (pa_fuel d3) now d3 store t3 pl (xg_front d pin g)
    | _ => ([], g)
    end.

  Theorem pp_x_inv now d store tmo pin g d' store' tmo' evs : XI g d ->
    post_poll_one rmatch compress sc now d store tmo pin = Ok (d', store', tmo', evs) ->
    XI (snd (pp_x now d store tmo pin g)) d' /\ Forall XGood (fst (pp_x now d store tmo pin g)) /\
    map fst (fst (pp_x now d store tmo pin g)) = pp_reports rmatch compress sc now d store tmo pin.
  Proof.
    intros Hx. rewrite pp_split. unfold pp_x, pp_reports.
    destruct (pp_front now d tmo pin) as [[[[d3 t3] pl] e12]| | | |] eqn:Ef; try discriminate.
    pose proof (pp_front_X now d tmo pin d3 t3 pl e12 g Hx Ef) as X3.
    destruct (process_action rmatch compress sc (pa_fuel d3) now d3 store t3 pl e12) as [[[[[d4 st4] t4] pl4] evs4]| | | |] eqn:Epa; try discriminate.
    intros H. injection H as <- _ _ _. exact (pas_x_inv _ _ _ _ _ _ _ _ _ _ _ _ _ X3 Epa).
  Qed.

  (* ---------------------------------------------------------------- the other things that touch a device *)
  (* dev_enqueue_actions (client half): an action appended behind the queue *)
  Lemma append_X g d q client tele args d' : XI g d -> append_client_action d q client tele args = Ok d' -> XI g d'.
  Proof.
    intros [[Hs Hq] Hh]. unfold append_client_action. destruct (assoc_script (qa_com q) (dv_scripts d)) as [s|] eqn:Es; [|discriminate].
    intros H; injection H as <-. split.
    - split; [exact Hs|]. cbn [set_acts dv_acts]. apply BIq_snoc; [exact Hq|exact (OK_create _ _ _ _ _ _ _ _ (Hs _ _ Es))|exact (SH_create _ _ _ _ _ _ _ _)].
    - unfold Hd_ok in *. cbn [set_acts dv_acts dv]. destruct (dv_acts d) as [|a0 r]; cbn [app].
      + subst g. split; [intros pv Hg; discriminate Hg|]. intros _ Hsh. rewrite SH_create in Hsh. discriminate Hsh.
      + exact Hh.
  Qed.
  Lemma expedite_X g d : XI g d -> XI g (expedite d).
  Proof. unfold expedite. destruct (connected d) eqn:E; [auto|]. intros [[Hs Hq] Hh]. split; [split; assumption|]. exact Hh. Qed.
  (* dev_initial_connect *)
  Lemma connect_XI now d plans d2 e2 pl : BI d -> connect now d plans = Ok (d2, e2, pl) -> XI None d2.
  Proof. intros B E. destruct (connect_X now d plans d2 e2 pl B E) as [B2 F2]. exact (XI_none d2 B2 F2). Qed.
  (* a device as the configuration makes it: no action queued *)
  Lemma XI_boot d : own_ok (dv_scripts d) = true -> dv_acts d = [] -> BI d.
  Proof.
    intros Ho Ea. split; [|rewrite Ea; split; constructor].
    intros i s Hs. unfold own_ok in Ho. rewrite forallb_forall in Ho.
    assert (Hin : In (i, s) (dv_scripts d)).
    { clear Ho. induction (dv_scripts d) as [|[j c] r IH]; cbn in Hs; [discriminate|]. destruct (Z.eqb_spec i j) as [->|]; [injection Hs as ->; now left|right; auto]. }
    exact (Ho (i, s) Hin).
  Qed.
End X.
