(* C19, several targets on one line: the invariant of RedfishLive.v carried over whole passes, over the release of
   delayed polls under ANY schedule, and the termination measure of the shell loop:
     (table size - depth of the current level, while queries / first-stage operations are active)
     + sum of the weights of all queued messages (operation 2, poll 1, query 0).  *)
From Coq Require Import List NArith ZArith Bool Lia Permutation.
From PM Require Import Base.Bytes Base.Outcome Gen.GenRfp Model.Redfish Spec.RedfishSpec Model.RedfishView
  Proofs.RedfishBase Proofs.RedfishSteps Proofs.RedfishMgmt Proofs.RedfishRules Proofs.RedfishInv Proofs.RedfishLive.
Import ListNotations.

Definition npoll (l : list pmsg) : nat := length (filter m_poll l).
Definition nonpoll (m : pmsg) : bool := negb (m_poll m).

Lemma skipn_length_app {A} (a b : list A) : skipn (length a) (a ++ b) = b.
Proof. induction a as [|x r IH]; [reflexivity | exact IH]. Qed.

Lemma all_poll l : existsb nonpoll l = false -> forallb m_poll l = true /\ npoll l = length l.
Proof.
  unfold npoll. induction l as [|m r IH]; [auto|]. cbn [existsb forallb filter]. unfold nonpoll at 1. intros H. apply orb_false_iff in H as [H1 H2].
  destruct (m_poll m); [|discriminate]. destruct (IH H2) as [-> E]. cbn [andb length]. now rewrite E.
Qed.

Lemma existsb_nonpoll_app a b : (forall m, In m b -> m_poll m = true) -> existsb nonpoll (a ++ b) = existsb nonpoll a.
Proof.
  intros H. rewrite existsb_app. assert (existsb nonpoll b = false) as ->; [|apply orb_false_r].
  induction b as [|m r IH]; [reflexivity|]. cbn [existsb]. unfold nonpoll at 1. rewrite (H m (or_introl eq_refl)). cbn [negb orb]. apply IH. intros; apply H; now right.
Qed.

Lemma in_fs {A} r (l : list A) x : In x l <-> In x (firstn r l) \/ In x (skipn r l).
Proof. rewrite <- (firstn_skipn r l) at 1. apply in_app_iff. Qed.

Section Drain.
Variables (b : state) (c : cmd) (K U : list name).
Let tab := s_tab b.
Notation minv := (minv b c).

(* ------------------------------------------------------------------ the rest of the pass copy *)
Lemma fold_inv d : forall todo stale new st, minv d stale todo new st K U ->
  exists new', minv d (stale ++ todo) [] new' (fold_left process_msg todo st) K U /\
    wsum (new' ++ s_delayed (fold_left process_msg todo st) ++ s_wait (fold_left process_msg todo st)) + npoll todo
      <= wsum (todo ++ new ++ s_delayed st ++ s_wait st) /\
    (forallb m_poll todo = true -> new' = new).
Proof.
  induction todo as [|m r IH]; intros stale new st INV; cbn [fold_left].
  - exists new. rewrite app_nil_r. split; [exact INV|]. split; [cbn [app npoll filter length]; lia | reflexivity].
  - destruct (step_inv b c d stale m r new st K U INV) as (add & I1 & W1 & Z1).
    destruct (IH (stale ++ [m]) (new ++ add) (process_msg st m) I1) as (new' & I2 & W2 & Z2).
    exists new'. rewrite <- app_assoc in I2. split; [exact I2|]. split.
    + unfold npoll in *. cbn [filter forallb]. destruct (m_poll m); cbn [length] in *; lia.
    + cbn [forallb]. intros H. apply andb_true_iff in H as [H1 H2]. rewrite (Z2 H2), (Z1 H1). apply app_nil_r.
Qed.

(* ------------------------------------------------------------------ one test-mode pass *)
Lemma pass_inv d st : minv d [] (s_active st) [] st K U ->
  minv (S d) [] (s_active (pass st)) [] (pass st) K U /\
  wsum (s_active (pass st) ++ s_delayed (pass st) ++ s_wait (pass st)) + npoll (s_active st) <= wsum (s_active st ++ s_delayed st ++ s_wait st) /\
  (forallb m_poll (s_active st) = true -> s_active (pass st) = []).
Proof.
  intros INV. destruct (fold_inv d (s_active st) [] [] st INV) as (new' & I' & WS & Z).
  unfold pass. set (st' := fold_left process_msg (s_active st) st) in *.
  destruct I' as [CFG FL ACT COV OLD TODO NEW DL POLL WAIT ON ACCT UNK TSC LOG]. cbn [app] in *.
  assert (E : skipn (length (s_active st)) (s_active st') = new') by (rewrite ACT; apply skipn_length_app).
  rewrite E. cbn [set_active s_active s_delayed s_wait]. split; [|split; [exact WS | exact Z]].
  split; cbn [set_active s_active s_delayed s_wait s_tstat s_out s_fault app].
  - exact CFG.
  - exact FL.
  - now rewrite app_nil_r.
  - exact COV.
  - intros m I. destruct (NEW m I) as (W & _ & D). split; [exact W | lia].
  - intros m I _. now apply NEW.
  - intros m [].
  - intros m I. destruct (DL m I) as (W & P & D). split; [exact W|]. split; [exact P | lia].
  - intros m I P. apply in_app_or in I as [I|I]; [|now apply POLL]. destruct (NEW m I) as (_ & NP & _). congruence.
  - intros w I. destruct (WAIT w I) as (W & O & P & (h & Ih & IA)). split; [exact W|]. split; [exact O|]. split; [exact P|].
    exists h. split; [|exact IA]. clear - Ih. inapp.
  - intros EC m w Im OM Iw. apply (ON EC) with (m := m); [|exact OM | exact Iw]. clear - Im. inapp.
  - intros n. rewrite <- (ACCT n). reflexivity.
  - exact UNK.
  - exact TSC.
  - exact LOG.
Qed.

(* ------------------------------------------------------------------ delayed polls become due *)
Lemma release_inv d r st : minv d [] (s_active st) [] st K U ->
  minv d [] (s_active (release r st)) [] (release r st) K U /\
  wsum (s_active (release r st) ++ s_delayed (release r st) ++ s_wait (release r st)) = wsum (s_active st ++ s_delayed st ++ s_wait st) /\
  existsb nonpoll (s_active (release r st)) = existsb nonpoll (s_active st).
Proof.
  intros [CFG FL ACT COV OLD TODO NEW DL POLL WAIT ON ACCT UNK TSC LOG]. cbn [app] in *. rewrite app_nil_r in *.
  unfold release. cbn [set_active set_delayed s_active s_delayed s_wait].
  set (act := s_active st) in *. set (dl := s_delayed st) in *.
  assert (FS : forall x, In x (firstn r dl) -> In x dl) by (intros x I; apply (in_fs r); now left).
  assert (SS : forall x, In x (skipn r dl) -> In x dl) by (intros x I; apply (in_fs r); now right).
  split; [|split].
  - split; cbn [set_active set_delayed s_active s_delayed s_wait s_tstat s_out s_fault app].
    + exact CFG.
    + exact FL.
    + now rewrite app_nil_r.
    + exact COV.
    + intros m I. apply in_app_or in I as [I|I]; [now apply OLD|]. destruct (DL m (FS m I)) as (W & _ & D). auto.
    + intros m I NP. apply in_app_or in I as [I|I]; [now apply TODO|]. destruct (DL m (FS m I)) as (_ & P & _). congruence.
    + intros m [].
    + intros m I. apply DL. now apply SS.
    + intros m I P. apply POLL; [|exact P]. rewrite <- app_assoc in I. apply in_app_or in I as [I|I]; apply in_or_app; [now left | right].
      apply (in_fs r). apply in_app_or in I. exact I.
    + intros w I. destruct (WAIT w I) as (W & O & P & (h & Ih & IA)). split; [exact W|]. split; [exact O|]. split; [exact P|].
      exists h. split; [|exact IA]. apply in_app_or in Ih as [Ih|Ih]; [clear - Ih; inapp|]. apply (in_fs r) in Ih. clear - Ih. inapp.
    + intros EC m w Im OM Iw. apply (ON EC) with (m := m); [|exact OM | exact Iw].
      assert (H : In m act \/ (In m (firstn r dl) \/ In m (skipn r dl)) \/ In m (s_wait st)) by (clear - Im; inapp).
      rewrite <- (in_fs r) in H. clear - H. inapp.
    + intros n. rewrite <- (ACCT n). rewrite <- (firstn_skipn r dl) at 3. rewrite <- !app_assoc. reflexivity.
    + exact UNK.
    + exact TSC.
    + exact LOG.
  - rewrite <- (firstn_skipn r dl) at 3. rewrite <- !app_assoc. reflexivity.
  - apply existsb_nonpoll_app. intros m I. now destruct (DL m (FS m I)) as (_ & P & _).
Qed.

(* ------------------------------------------------------------------ the measure *)
Definition lvl (st : state) (d : nat) : nat := if existsb nonpoll (s_active st) then length tab - d else 0.
Definition mu (st : state) (d : nat) : nat := lvl st d + wsum (s_active st ++ s_delayed st ++ s_wait st).

Definition final (st : state) : Prop :=
  s_active st = [] /\ s_wait st = [] /\ s_delayed st = [] /\ s_fault st = None /\ same_cfg st b /\
  (forall n, name_valid tab n = true -> ts_lookup (s_tstat st) n <> None) /\
  (forall n, cnt n (tres (s_out st)) = cnt n K) /\ tunk (s_out st) = U /\
  (c = CStat -> s_tstat st = s_tstat b) /\ (forall c' p, In (EvOp c' p) (s_log st) -> c' = c /\ c <> CStat /\ In p K).

Lemma idle_lists st : idle st = true -> s_active st = [] /\ s_delayed st = [] /\ s_wait st = [].
Proof. unfold idle. destruct (s_active st), (s_delayed st), (s_wait st); try discriminate; auto. Qed.

Lemma minv_final d st : minv d [] (s_active st) [] st K U -> idle st = true -> final st.
Proof.
  intros [CFG FL ACT COV OLD TODO NEW DL POLL WAIT ON ACCT UNK TSC LOG] ID. destruct (idle_lists _ ID) as (EA & ED & EW).
  split; [exact EA|]. split; [exact EW|]. split; [exact ED|]. split; [exact FL|]. split; [exact CFG|]. split; [exact COV|].
  split; [intros n; rewrite <- (ACCT n), EA, ED, EW; reflexivity|]. split; [exact UNK|]. split; [exact TSC | exact LOG].
Qed.

Lemma wsum_zero_poll l : wsum l = 0 -> forall m, In m l -> m_poll m = false.
Proof.
  induction l as [|x r IH]; intros H m []; rewrite wsum_cons in H.
  - subst x. unfold wgt in H. destruct (m_poll m); [lia | reflexivity].
  - apply IH; [lia | assumption].
Qed.

Lemma nonpoll_level d st m : minv d [] (s_active st) [] st K U -> In m (s_active st) -> m_poll m = false -> d < length tab.
Proof.
  intros [CFG FL ACT COV OLD TODO NEW DL POLL WAIT ON ACCT UNK TSC LOG] I NP. cbn [app] in *.
  rewrite <- (TODO m I NP). destruct (OLD m I) as [W _]. apply okchain_len. apply (wf_plug _ _ _ W).
Qed.

Lemma mu_zero_idle d st : minv d [] (s_active st) [] st K U -> mu st d = 0 -> idle st = true.
Proof.
  intros INV MU. pose proof INV as [CFG FL ACT COV OLD TODO NEW DL POLL WAIT ON ACCT UNK TSC LOG]. cbn [app] in *.
  unfold mu in MU. assert (WZ : wsum (s_active st ++ s_delayed st ++ s_wait st) = 0) by lia. assert (LZ : lvl st d = 0) by lia.
  pose proof (wsum_zero_poll _ WZ) as NP.
  assert (EA : s_active st = []).
  { destruct (s_active st) as [|m r] eqn:E; [reflexivity|]. exfalso. rewrite <- E in *.
    assert (I : In m (s_active st)) by (rewrite E; now left).
    assert (P : m_poll m = false) by (apply NP; apply in_or_app; now left).
    pose proof (nonpoll_level d st m INV I P) as LT. unfold lvl in LZ.
    assert (X : existsb nonpoll (s_active st) = true) by (apply existsb_exists; exists m; split; [exact I | unfold nonpoll; now rewrite P]).
    rewrite X in LZ. lia. }
  assert (ED : s_delayed st = []).
  { destruct (s_delayed st) as [|m r] eqn:E; [reflexivity|]. exfalso. rewrite <- E in *.
    assert (I : In m (s_delayed st)) by (rewrite E; now left).
    destruct (DL m I) as (_ & P & _). rewrite NP in P; [discriminate|]. apply in_or_app. right. apply in_or_app. now left. }
  assert (EW : s_wait st = []).
  { destruct (s_wait st) as [|w r] eqn:E; [reflexivity|]. exfalso. rewrite <- E in *.
    destruct (WAIT w) as (_ & _ & _ & (h & Ih & _)); [rewrite E; now left|]. rewrite EA, ED in Ih. destruct Ih. }
  unfold idle. now rewrite EA, ED, EW.
Qed.

(* ------------------------------------------------------------------ the shell loop reaches the prompt *)
Lemma drain_final : forall fuel sched st d, minv d [] (s_active st) [] st K U -> mu st d <= fuel ->
  exists st', drain fuel sched st = Ok st' /\ final st'.
Proof.
  induction fuel as [|f IH]; intros sched st d INV MU.
  - assert (ID : idle st = true) by (eapply mu_zero_idle; [exact INV | lia]).
    exists st. split; [|eapply minv_final; eassumption]. cbn [drain]. rewrite (mi_fault _ _ _ _ _ _ _ _ _ INV), ID. reflexivity.
  - cbn [drain]. rewrite (mi_fault _ _ _ _ _ _ _ _ _ INV). destruct (idle st) eqn:ID.
    { exists st. split; [reflexivity | eapply minv_final; eassumption]. }
    set (r := match sched with r :: _ => r | [] => length (s_delayed st) end).
    set (r' := match s_active st with [] => Nat.max r 1 | _ => r end).
    assert (NE : s_active st <> [] \/ s_delayed st <> []).
    { destruct (s_active st) as [|m0 r0] eqn:EA; [|left; discriminate]. destruct (s_delayed st) as [|m1 r1] eqn:ED; [|right; discriminate]. exfalso.
      destruct (s_wait st) as [|w r2] eqn:EW; [unfold idle in ID; rewrite EA, ED, EW in ID; discriminate|].
      destruct (mi_wait _ _ _ _ _ _ _ _ _ INV w) as (_ & _ & _ & (h & Ih & _)); [rewrite ?EW; now left|]. rewrite ?EA, ?ED in Ih. destruct Ih. }
    assert (DR : match s_active st, s_delayed st with [], [] => Hang site_lost_waiter | _, _ => drain f (tl sched) (pass (release r' st)) end =
                 drain f (tl sched) (pass (release r' st))).
    { destruct (s_active st); [destruct (s_delayed st); [destruct NE; congruence | reflexivity] | reflexivity]. }
    fold r. fold r'. rewrite DR.
    destruct (release_inv d r' st INV) as (I1 & W1 & X1).
    destruct (pass_inv d (release r' st) I1) as (I2 & W2 & Z2).
    apply (IH (tl sched) _ (S d) I2).
    unfold mu in *. unfold lvl in *. rewrite <- X1 in MU.
    destruct (existsb nonpoll (s_active (release r' st))) eqn:X.
    + (* a level of queries / operations is processed *)
      apply existsb_exists in X as (m & Im & NP). unfold nonpoll in NP. apply negb_true_iff in NP.
      pose proof (nonpoll_level d _ m I1 Im NP) as LT.
      destruct (existsb nonpoll (s_active (pass (release r' st)))); lia.
    + (* only polls: at least one of them is answered *)
      destruct (all_poll _ X) as [AP NL]. rewrite (Z2 AP). cbn [existsb].
      assert (LP : 1 <= length (s_active (release r' st))).
      { unfold release. cbn [set_active set_delayed s_active]. rewrite app_length. subst r'.
        destruct (s_active st) as [|m0 r0]; [|cbn [length]; lia]. destruct NE as [NE|NE]; [congruence|].
        destruct (s_delayed st) as [|m1 r1]; [congruence|]. destruct (Nat.max r 1) eqn:M; [lia|]. cbn [firstn length]. lia. }
      rewrite (Z2 AP) in W2. lia.
Qed.

End Drain.
