(* The device-layer harness world (Model/DevHarness.v): the invariant is preserved by every operation, hence no
   operation sequence crashes the device layer; the per-device FIFO / conservation equation; what one pass
   guarantees per device (time-out covers the head deadline, at most one gated connect attempt). *)
From Coq Require Import List NArith ZArith Bool Lia.
From PM Require Import Base.Bytes Base.Outcome Base.Dec Gen.GenConsts Gen.GenCbuf Model.ScriptAst Model.Enqueue Model.Script Model.Device
  Model.DevHarness Proofs.DeviceProofs Proofs.DeviceStmt Proofs.DeviceInv Proofs.EnqueueProofs.
Import ListNotations.
Local Open Scope Z_scope.

Definition evs_of (k : nat) (evs : list (nat * ev)) : list ev := map snd (filter (fun ie => Nat.eqb (fst ie) k) evs).
Lemma evs_of_app k a b : evs_of k (a ++ b) = evs_of k a ++ evs_of k b.
Proof. unfold evs_of. now rewrite filter_app, map_app. Qed.
Lemma evs_of_map_same i e : evs_of i (map (fun x => (i, x)) e) = e.
Proof. unfold evs_of. induction e as [|x r IH]; [reflexivity|]. cbn. rewrite Nat.eqb_refl. cbn. now f_equal. Qed.
Lemma evs_of_map_other i j e : j <> i -> evs_of j (map (fun x => (i, x)) e) = [].
Proof. intros H. unfold evs_of. induction e as [|x r IH]; [reflexivity|]. cbn. apply Nat.eqb_neq in H. rewrite Nat.eqb_sym, H. exact IH. Qed.
Lemma evs_of_ge i evs : Forall (fun ie => (S i <= fst ie)%nat) evs -> evs_of i evs = [].
Proof.
  unfold evs_of. induction 1 as [|x r Hx Hr IH]; [reflexivity|]. cbn.
  destruct (Nat.eqb (fst x) i) eqn:E; [apply Nat.eqb_eq in E; lia|exact IH].
Qed.

(* what a client request adds to device [ed]'s queue *)
Definition enq_of (ed : edev) (op : hop) : list Z :=
  match op with HEnq com client _ _ tgts => repeat client (length (enqueue_dev ed com tgts)) | _ => [] end.

(* operations the daemon can perform on a running device layer: client commands are the nine targeted ones;
   dev_initial_connect (HInit) happens once, before the loop (see hinit_inv) *)
Definition valid_op (op : hop) : Prop :=
  match op with HEnq com _ _ _ _ => In com (power_coms ++ query_coms) | HInit => False | _ => True end.

Section Run.
  Variable rmatch : text -> text -> option pmatch.
  Variable compress : list text -> text.
  Variable sc : bool.

  Definition DInvR (d : device) : Prop := DInv compress d /\ 0 <= dv_retry_count d.
  Definition HInv (h : hstate) : Prop := Forall (fun dp => DInvR (fst dp)) (h_devs h).

  Lemma edev_of_same d d' : same_cfg d d' -> edev_of d' = edev_of d.
  Proof. intros (E1 & _ & _ & E4 & E5). unfold edev_of. now rewrite E1, E4, E5. Qed.

  Lemma timer_ok_le now d t t' : timer_ok now d t -> tmo_le t' t -> tmo_pos t' -> timer_ok now d t'.
  Proof.
    unfold timer_ok. destruct (dv_acts d) as [|h r]; [auto|].
    intros [(s & x & E1 & E2 & H)|H] Hle Hp; [|right; exact H].
    destruct (Hle x E2) as (y & Ey & Hy). left. exists s, y. split; [exact E1|]. split; [exact Ey|].
    specialize (Hp y Ey). lia.
  Qed.

  (* ---------- dev_enqueue_actions on one device ---------- *)
  Lemma has_assoc d com : has (edev_of d) com = true -> exists s, assoc_script com (dv_scripts d) = Some s.
  Proof.
    unfold has, edev_of. cbn [ed_scripts]. induction (dv_scripts d) as [|[j b] r IH]; cbn [map existsb assoc_script fst]; [discriminate|].
    destruct (Z.eqb com j); [eauto|]. cbn [orb]. exact IH.
  Qed.

  Lemma enqueue_dev_props d com tgts q : In q (enqueue_dev (edev_of d) com tgts) -> In com (power_coms ++ query_coms) ->
    (exists s, assoc_script (qa_com q) (dv_scripts d) = Some s) /\ Z.eqb (qa_com q) PM_LOG_IN = false /\
    opt_incl (qa_plugs q) (sd_plugs (dv d)) /\ (is_ranged_com (qa_com q) = true -> qa_plugs q <> None).
  Proof.
    unfold enqueue_dev. destruct (negb (implements (edev_of d) com)); [intros []|].
    destruct (negb (needs (edev_of d) tgts)); [intros []|]. intros Hin Hcom.
    destruct (enq_variant _ _ _ _ Hin) as (Hhas & Hvar).
    split; [now apply has_assoc|].
    destruct variants_not_login as [V1 V2]. rewrite forallb_forall in V1, V2.
    assert (Hnl : Z.eqb (qa_com q) PM_LOG_IN = false).
    { destruct Hvar as [->|[H|H]].
      - apply negb_true_iff. now apply V2.
      - apply lookup_in in H. apply negb_true_iff. apply (V1 (com, qa_com q)). apply in_or_app. now left.
      - apply lookup_in in H. apply negb_true_iff. apply (V1 (com, qa_com q)). apply in_or_app. now right. }
    split; [exact Hnl|].
    split.
    - destruct (qa_plugs q) as [ps|] eqn:Ep; [|exact Logic.I]. intros p Hp.
      destruct (enq_plugs_targeted _ _ _ _ _ Hin Ep p Hp) as [H _]. exact H.
    - intros Hr. destruct (enq_plug_arg _ _ _ _ Hin) as [(_ & p & -> & _)|[(Hl & _)|[(_ & -> & _)|(_ & ->)]]]; try discriminate.
      exfalso. apply lookup_in in Hl. pose proof all_variants_not_ranged as A. rewrite forallb_forall in A.
      specialize (A _ Hl). cbn [snd] in A. rewrite Hr in A. discriminate A.
  Qed.

  Lemma append_client_action_inv d q client tele args :
    DInv compress d -> (exists s, assoc_script (qa_com q) (dv_scripts d) = Some s) -> Z.eqb (qa_com q) PM_LOG_IN = false ->
    opt_incl (qa_plugs q) (sd_plugs (dv d)) -> (is_ranged_com (qa_com q) = true -> qa_plugs q <> None) ->
    exists d', append_client_action d q client tele args = Ok d' /\ DInv compress d' /\ same_cfg d d' /\
      queued d' = queued d ++ [client] /\ dv_cstate d' = dv_cstate d /\ dv_retry_count d' = dv_retry_count d /\ dv_last_retry d' = dv_last_retry d.
  Proof.
    intros I (s & Es) Hnl Hpl Hrg. unfold append_client_action. rewrite Es. eexists. split; [reflexivity|].
    set (a := create_action s (qa_com q) (qa_plugs q) client true tele true (Some args)).
    assert (Hwa : DeviceStmt.wf_action compress (sd_plugs (dv d)) a).
    { apply create_action_wf; auto. apply (proj2 (di_cfg _ d I) _ _ Es). }
    split; [|split; [repeat split|]; split; [|repeat split]].
    - constructor; cbn [dv dv_scripts dv_timeout dv_ping_period dv_cstate dv_logged_in dv_has_fd dv_acts set_acts].
      + exact (di_cfg _ d I). + exact (di_state _ d I). + exact (di_fd _ d I). + exact (di_li _ d I).
      + apply Forall_app. split; [exact (di_acts _ d I)|constructor; [exact Hwa|constructor]].
      + pose proof (di_tail _ d I) as Ht. destruct (dv_acts d) as [|h r]; cbn [app tl]; [constructor|].
        apply Forall_app. split; [exact Ht|constructor; [exact Hnl|constructor]].
      + rewrite <- (di_head _ d I). split; intros (l & r & El & Hl).
        * destruct (dv_acts d) as [|h r0]; cbn [app] in El.
          -- inversion El; subst. unfold is_login in Hl. cbn in Hl. congruence.
          -- inversion El; subst. eexists _, _. split; [reflexivity|exact Hl].
        * rewrite El. cbn [app]. eexists _, _. split; [reflexivity|exact Hl].
      + apply Forall_app. split; [exact (di_cb _ d I)|constructor; [intros _; exact Hnl|constructor]].
      + exact (di_to _ d I).
      + pose proof (di_to_head _ d I) as Hh. destruct (dv_acts d) as [|h r]; cbn [app]; [left; exact Hh|exact Hh].
    - unfold queued. cbn [dv_acts set_acts]. rewrite filter_app, map_app. reflexivity.
  Qed.

  Lemma fold_append_inv client tele args : forall (qs : list qact) d,
    DInv compress d ->
    (forall q, In q qs -> (exists s, assoc_script (qa_com q) (dv_scripts d) = Some s) /\ Z.eqb (qa_com q) PM_LOG_IN = false /\
                          opt_incl (qa_plugs q) (sd_plugs (dv d)) /\ (is_ranged_com (qa_com q) = true -> qa_plugs q <> None)) ->
    exists d', fold_left (fun od a => match od with Ok x => append_client_action x a client tele args | e => e end) qs (Ok d) = Ok d' /\
      DInv compress d' /\ same_cfg d d' /\ queued d' = queued d ++ repeat client (length qs) /\
      dv_cstate d' = dv_cstate d /\ dv_retry_count d' = dv_retry_count d /\ dv_last_retry d' = dv_last_retry d.
  Proof.
    induction qs as [|q r IH]; intros d I Hq; cbn [fold_left].
    - exists d. rewrite app_nil_r. split; [reflexivity|]. split; [exact I|]. split; [apply same_cfg_refl|]. repeat split.
    - destruct (Hq q (or_introl eq_refl)) as (H1 & H2 & H3 & H4).
      destruct (append_client_action_inv d q client tele args I H1 H2 H3 H4) as (d1 & E1 & I1 & S1 & Q1 & C1 & R1 & L1).
      rewrite E1. destruct (IH d1 I1) as (d2 & E2 & I2 & S2 & Q2 & C2 & R2 & L2).
      { intros q' Hin. destruct (Hq q' (or_intror Hin)) as (G1 & G2 & G3 & G4).
        destruct S1 as (Es & _ & _ & Ep & _). rewrite Es, Ep. auto. }
      exists d2. split; [exact E2|]. split; [exact I2|]. split; [eapply same_cfg_trans; eassumption|].
      split; [rewrite Q2, Q1, <- app_assoc; reflexivity|]. repeat split; congruence.
  Qed.

  Lemma expedite_inv d : DInvR d -> DInvR (expedite d) /\ same_cfg d (expedite d) /\ queued (expedite d) = queued d.
  Proof.
    intros [I Hrc]. unfold expedite. destruct (connected d); [split; [split; [exact I|exact Hrc]|split; [apply same_cfg_refl|reflexivity]]|].
    split; [|split; [repeat split|reflexivity]]. split; [|cbn; lia].
    destruct I. constructor; auto.
  Qed.

  (* per device, over one operation: the static configuration stays, and the queue is a FIFO *)
  Definition dev_rel (k : nat) (op : hop) (o : hout) (d d' : device) : Prop :=
    same_cfg d d' /\ completions (evs_of k (o_evs o)) ++ queued d' = queued d ++ enq_of (edev_of d) op.

  Lemma enq_devs_inv com client tele args tgts : In com (power_coms ++ query_coms) ->
    forall l, Forall (fun dp => DInvR (fst dp)) l ->
    exists l' n, enq_devs l com client tele args tgts = Ok (l', n) /\ Forall (fun dp => DInvR (fst dp)) l' /\
      forall k d p, nth_error l k = Some (d, p) ->
        exists d', nth_error l' k = Some (d', p) /\ same_cfg d d' /\
                   queued d' = queued d ++ repeat client (length (enqueue_dev (edev_of d) com tgts)).
  Proof.
    intros Hcom. induction l as [|[d p] r IH]; intros Hl; cbn [enq_devs].
    - exists [], 0. split; [reflexivity|]. split; [constructor|]. intros [|k]; discriminate.
    - inversion Hl as [|? ? Hd Hr]; subst. cbn [fst] in Hd. destruct Hd as [I Hrc].
      destruct (fold_append_inv client tele args (enqueue_dev (edev_of d) com tgts) d I) as (d1 & E1 & I1 & S1 & Q1 & C1 & R1 & L1).
      { intros q Hin. now apply (enqueue_dev_props d com tgts q). }
      rewrite E1. destruct (IH Hr) as (r' & n & E2 & H2 & K2). rewrite E2.
      set (d2 := match enqueue_dev (edev_of d) com tgts with [] => d1 | _ => expedite d1 end).
      assert (Hrc1 : 0 <= dv_retry_count d1) by (rewrite R1; exact Hrc).
      assert (H3 : DInvR d2 /\ same_cfg d d2 /\ queued d2 = queued d ++ repeat client (length (enqueue_dev (edev_of d) com tgts))).
      { unfold d2. destruct (enqueue_dev (edev_of d) com tgts) as [|q0 qs] eqn:Eq.
        - split; [split; [exact I1|exact Hrc1]|]. split; [exact S1|exact Q1].
        - destruct (expedite_inv d1 (conj I1 Hrc1)) as (X1 & X2 & X3).
          split; [exact X1|]. split; [eapply same_cfg_trans; eassumption|]. rewrite X3. exact Q1. }
      destruct H3 as (X1 & X2 & X3).
      eexists _, _. split; [reflexivity|]. split; [constructor; [exact X1|exact H2]|].
      intros [|k] d0 p0 Hn; cbn [nth_error] in *.
      + inversion Hn; subst. exists d2. auto.
      + exact (K2 k d0 p0 Hn).
  Qed.

  (* ---------- one pass over all devices ---------- *)
  Definition dev_pass_ok (now : Z) (d d' : device) (ek : list ev) (tmo' : option Z) : Prop :=
    DInvR d' /\ same_cfg d d' /\ completions ek ++ queued d' = queued d /\ conn_rel now d d' ek /\ timer_ok now d' tmo'.

  Lemma pass_devs_inv : forall l now i store tmo, Forall (fun dp => DInvR (fst dp)) l -> tmo_pos tmo ->
    match pass_devs rmatch compress sc now i l store tmo with
    | Ok (l', store', tmo', evs) =>
        tmo_pos tmo' /\ tmo_le tmo' tmo /\ length store' = length store /\ length l' = length l /\
        Forall (fun ie => (i <= fst ie)%nat) evs /\
        forall k d p, nth_error l k = Some (d, p) ->
          exists d', nth_error l' k = Some (d', apply_evs p (evs_of (i + k) evs)) /\ dev_pass_ok now d d' (evs_of (i + k) evs) tmo'
    | Hang _ => True
    | _ => False
    end.
  Proof.
    induction l as [|[d p] r IH]; intros now i store tmo Hl Hp; cbn [pass_devs].
    - split; [exact Hp|]. split; [apply tmo_le_refl|]. split; [reflexivity|]. split; [reflexivity|]. split; [constructor|]. intros [|k]; discriminate.
    - inversion Hl as [|? ? Hd Hr]; subst. cbn [fst] in Hd. destruct Hd as [I Hrc].
      pose proof (post_poll_one_inv rmatch compress sc now d store tmo (passin_of d p) I Hp Hrc eq_refl) as H1.
      destruct (post_poll_one rmatch compress sc now d store tmo (passin_of d p)) as [[[[d1 st1] tmo1] e1]| | | |]; try contradiction; [|exact Logic.I].
      destruct H1 as [SP TK].
      specialize (IH now (S i) st1 tmo1 Hr (st_pos _ _ _ _ _ _ _ _ _ SP)).
      destruct (pass_devs rmatch compress sc now (S i) r st1 tmo1) as [[[[r' st2] tmo2] e2]| | | |]; try contradiction; [|exact Logic.I].
      destruct IH as (P2 & L2 & S2 & N2 & T2 & K2).
      split; [exact P2|]. split; [eapply tmo_le_trans; [exact L2|exact (st_le _ _ _ _ _ _ _ _ _ SP)]|].
      split; [rewrite S2; exact (st_store _ _ _ _ _ _ _ _ _ SP)|]. split; [cbn [length]; now rewrite N2|].
      split.
      { apply Forall_app. split.
        - apply Forall_forall. intros x Hx. apply in_map_iff in Hx as (y & <- & _). cbn. lia.
        - eapply Forall_impl; [|exact T2]. cbn. intros; lia. }
      intros [|k] d0 p0 Hn; cbn [nth_error] in *.
      + inversion Hn; subst. rewrite Nat.add_0_r, evs_of_app, evs_of_map_same, (evs_of_ge i e2 T2), app_nil_r.
        exists d1. split; [reflexivity|].
        split; [split; [exact (st_inv _ _ _ _ _ _ _ _ _ SP)|exact (conn_rel_rc _ _ _ _ (st_conn _ _ _ _ _ _ _ _ _ SP) Hrc)]|].
        split; [exact (st_cfg _ _ _ _ _ _ _ _ _ SP)|]. split; [exact (st_fifo _ _ _ _ _ _ _ _ _ SP)|].
        split; [exact (st_conn _ _ _ _ _ _ _ _ _ SP)|]. eapply timer_ok_le; eassumption.
      + destruct (K2 k d0 p0 Hn) as (d' & E & OK). exists d'.
        rewrite evs_of_app, evs_of_map_other by lia. cbn [app]. replace (i + S k)%nat with (S i + k)%nat by lia. auto.
  Qed.

  (* ---------- dev_initial_connect ---------- *)
  Lemma init_devs_inv : forall l now i, Forall (fun dp => DInvR (fst dp) /\ dv_cstate (fst dp) = DEV_NOT_CONNECTED) l ->
    exists l' evs, init_devs now i l = Ok (l', evs) /\ Forall (fun dp => DInvR (fst dp)) l' /\
      Forall (fun ie => (i <= fst ie)%nat) evs /\
      forall k d p, nth_error l k = Some (d, p) ->
        exists d' p', nth_error l' k = Some (d', p') /\ same_cfg d d' /\ queued d' = queued d /\ completions (evs_of (i + k) evs) = [].
  Proof.
    induction l as [|[d p] r IH]; intros now i Hl; cbn [init_devs].
    - exists [], []. split; [reflexivity|]. split; [constructor|]. split; [constructor|]. intros [|k]; discriminate.
    - inversion Hl as [|? ? Hd Hr]; subst. cbn [fst] in Hd. destruct Hd as [[I Hrc] Hc].
      destruct (connect_inv compress now d (pe_plans p) I Hc) as (d1 & pl & E1 & _ & I1 & S1 & Q1 & _ & R1 & _).
      rewrite E1. destruct (IH now (S i) Hr) as (r' & e2 & E2 & H2 & T2 & K2). rewrite E2.
      eexists _, _. split; [reflexivity|]. split; [constructor; [split; [exact I1|cbn; lia]|exact H2]|].
      split.
      { apply Forall_app. split.
        - constructor; [cbn; lia|constructor].
        - eapply Forall_impl; [|exact T2]. cbn. intros; lia. }
      intros [|k] d0 p0 Hn; cbn [nth_error] in *.
      + inversion Hn; subst. eexists _, _. split; [reflexivity|]. split; [exact S1|]. split; [exact Q1|].
        rewrite Nat.add_0_r, evs_of_app, (evs_of_ge i e2 T2), app_nil_r. cbn. rewrite Nat.eqb_refl. reflexivity.
      + destruct (K2 k d0 p0 Hn) as (d' & p' & E & Sc & Q & C). exists d', p'. split; [exact E|]. split; [exact Sc|]. split; [exact Q|].
        rewrite evs_of_app, evs_of_map_other by lia. cbn [app]. replace (i + S k)%nat with (S i + k)%nat by lia. exact C.
  Qed.

  (* ---------- operations that only touch the far ends ---------- *)
  Lemma upd_nth_peer (f : device * peer -> device * peer) : (forall x, fst (f x) = fst x) ->
    forall l i, Forall (fun dp => DInvR (fst dp)) l ->
      Forall (fun dp => DInvR (fst dp)) (upd_nth l i f) /\
      forall k d p, nth_error l k = Some (d, p) -> exists p', nth_error (upd_nth l i f) k = Some (d, p').
  Proof.
    intros Hf. induction l as [|x r IH]; intros i Hl; cbn [upd_nth].
    - split; [constructor|]. intros [|k]; discriminate.
    - inversion Hl as [|? ? Hx Hr]; subst. destruct i as [|i].
      + split; [constructor; [rewrite Hf; exact Hx|exact Hr]|].
        intros [|k] d p Hn; cbn [nth_error] in *; [|eauto].
        inversion Hn; subst. specialize (Hf (d, p)). destruct (f (d, p)) as [d' p']. cbn in Hf. subst. eauto.
      + destruct (IH i Hr) as [H1 H2]. split; [constructor; assumption|].
        intros [|k] d p Hn; cbn [nth_error] in *; [eauto|]. exact (H2 k d p Hn).
  Qed.

  (* ---------- every operation preserves the invariant and never crashes ---------- *)
  Definition step_ok (h : hstate) (op : hop) (h' : hstate) (o : hout) : Prop :=
    HInv h' /\ forall k d p, nth_error (h_devs h) k = Some (d, p) ->
      exists d' p', nth_error (h_devs h') k = Some (d', p') /\ dev_rel k op o d d'.

  Lemma dev_rel_same k op o d : (forall ed, enq_of ed op = []) -> o_evs o = [] -> dev_rel k op o d d.
  Proof. intros H1 H2. split; [apply same_cfg_refl|]. rewrite H1, H2, app_nil_r. reflexivity. Qed.

  Lemma hstep_inv h op : HInv h -> valid_op op ->
    match hstep rmatch compress sc h op with
    | Ok (h', o) => step_ok h op h' o
    | Hang _ => True
    | _ => False
    end.
  Proof.
    intros Hh Hv. unfold HInv in Hh. destruct op as [t|i pl|i ok|i b|i| |nodes|com client tele args tgts|]; cbn [hstep].
    - split; [exact Hh|]. intros k d p Hn. exists d, p. split; [exact Hn|now apply dev_rel_same].
    - destruct (upd_nth_peer (fun '(d, p) => (d, mkPeer (pe_pending p) (pe_closed p) (pe_plans p ++ pl) (pe_finish_ok p) (pe_got p))) ltac:(intros [? ?]; reflexivity) (h_devs h) i Hh) as [H1 H2].
      split; [exact H1|]. intros k d p Hn. destruct (H2 k d p Hn) as (p' & E). exists d, p'. split; [exact E|now apply dev_rel_same].
    - destruct (upd_nth_peer (fun '(d, p) => (d, mkPeer (pe_pending p) (pe_closed p) (pe_plans p) ok (pe_got p))) ltac:(intros [? ?]; reflexivity) (h_devs h) i Hh) as [H1 H2].
      split; [exact H1|]. intros k d p Hn. destruct (H2 k d p Hn) as (p' & E). exists d, p'. split; [exact E|now apply dev_rel_same].
    - destruct (upd_nth_peer (fun '(d, p) => (d, if dv_has_fd d && negb (pe_closed p) then mkPeer (pe_pending p ++ b) (pe_closed p) (pe_plans p) (pe_finish_ok p) (pe_got p) else p)) ltac:(intros [? ?]; reflexivity) (h_devs h) i Hh) as [H1 H2].
      split; [exact H1|]. intros k d p Hn. destruct (H2 k d p Hn) as (p' & E). exists d, p'. split; [exact E|now apply dev_rel_same].
    - destruct (upd_nth_peer (fun '(d, p) => (d, if dv_has_fd d then mkPeer (pe_pending p) true (pe_plans p) (pe_finish_ok p) (pe_got p) else p)) ltac:(intros [? ?]; reflexivity) (h_devs h) i Hh) as [H1 H2].
      split; [exact H1|]. intros k d p Hn. destruct (H2 k d p Hn) as (p' & E). exists d, p'. split; [exact E|now apply dev_rel_same].
    - destruct Hv.
    - split; [exact Hh|]. intros k d p Hn. exists d, p. split; [exact Hn|now apply dev_rel_same].
    - destruct (enq_devs_inv com client tele args tgts Hv (h_devs h) Hh) as (l' & n & E & H1 & H2). rewrite E.
      split; [exact H1|]. intros k d p Hn. destruct (H2 k d p Hn) as (d' & E' & Sc & Q). exists d', p. split; [exact E'|].
      split; [exact Sc|]. cbn [o_evs enq_of]. unfold evs_of. cbn. exact Q.
    - pose proof (pass_devs_inv (h_devs h) (h_now h) O (h_store h) None Hh ltac:(intros x E; discriminate E)) as H1.
      destruct (pass_devs rmatch compress sc (h_now h) 0 (h_devs h) (h_store h) None) as [[[[l' st'] tmo'] evs]| | | |]; try contradiction; [|exact Logic.I].
      destruct H1 as (P & L & Sl & N & T & K).
      split.
      + unfold HInv. cbn [h_devs]. apply Forall_forall. intros [d' p'] Hin. apply In_nth_error in Hin as [k Hk].
        destruct (nth_error (h_devs h) k) as [[d p]|] eqn:En.
        * destruct (K k d p En) as (d'' & E & OK). cbn [plus] in E. rewrite E in Hk. inversion Hk; subst. exact (proj1 OK).
        * exfalso. apply nth_error_None in En.
          assert (k < length l')%nat by (apply nth_error_Some; congruence). lia.
      + intros k d p Hn. destruct (K k d p Hn) as (d' & E & (OK1 & OK2 & OK3 & _)). cbn [plus] in E.
        eexists _, _. split; [exact E|]. split; [exact OK2|]. cbn [o_evs enq_of]. rewrite app_nil_r. exact OK3.
  Qed.

  (* ---------- dev_initial_connect: once, while nothing is connected ---------- *)
  Definition Fresh (h : hstate) : Prop :=
    Forall (fun dp => DInvR (fst dp) /\ dv_cstate (fst dp) = DEV_NOT_CONNECTED) (h_devs h).

  Lemma hinit_inv h : Fresh h ->
    exists h' o, hstep rmatch compress sc h HInit = Ok (h', o) /\ step_ok h HInit h' o.
  Proof.
    intros Hf. cbn [hstep]. destruct (init_devs_inv (h_devs h) (h_now h) O Hf) as (l' & evs & E & H1 & _ & K). rewrite E.
    eexists _, _. split; [reflexivity|]. split; [exact H1|].
    intros k d p Hn. destruct (K k d p Hn) as (d' & p' & E' & Sc & Q & C). cbn [plus] in C. exists d', p'. split; [exact E'|].
    split; [exact Sc|]. cbn [o_evs enq_of]. rewrite C, Q, app_nil_r. reflexivity.
  Qed.

  (* ---------- whole histories ---------- *)
  Definition comps (k : nat) (outs : list hout) : list Z := flat_map (fun o => completions (evs_of k (o_evs o))) outs.
  Definition enqs (ed : edev) (ops : list hop) : list Z := flat_map (enq_of ed) ops.

  Definition run_ok (h : hstate) (ops : list hop) (h' : hstate) (outs : list hout) : Prop :=
    HInv h' /\ length outs = length ops /\
    forall k d p, nth_error (h_devs h) k = Some (d, p) ->
      exists d' p', nth_error (h_devs h') k = Some (d', p') /\ same_cfg d d' /\
        comps k outs ++ queued d' = queued d ++ enqs (edev_of d) ops.

  Lemma step_ok_run_ok h op h1 o ops h2 outs :
    step_ok h op h1 o -> run_ok h1 ops h2 outs -> run_ok h (op :: ops) h2 (o :: outs).
  Proof.
    intros [I1 K1] (I2 & L2 & K2). split; [exact I2|]. split; [cbn; now rewrite L2|].
    intros k d p Hn. destruct (K1 k d p Hn) as (d1 & p1 & E1 & (S1 & F1)).
    destruct (K2 k d1 p1 E1) as (d2 & p2 & E2 & S2 & F2). exists d2, p2. split; [exact E2|].
    split; [eapply same_cfg_trans; eassumption|].
    unfold comps, enqs in *. cbn [flat_map]. rewrite (edev_of_same _ _ S1) in F2.
    rewrite <- app_assoc, F2, app_assoc, F1, <- app_assoc. reflexivity.
  Qed.

  Lemma run_inv : forall ops h, HInv h -> Forall valid_op ops ->
    match run rmatch compress sc h ops with
    | Ok (h', outs) => run_ok h ops h' outs
    | Hang _ => True
    | _ => False
    end.
  Proof.
    induction ops as [|op r IH]; intros h Hh Hv; cbn [run].
    - split; [exact Hh|]. split; [reflexivity|]. intros k d p Hn. exists d, p. split; [exact Hn|]. split; [apply same_cfg_refl|].
      cbn. now rewrite app_nil_r.
    - inversion Hv as [|? ? Hv1 Hv2]; subst.
      pose proof (hstep_inv h op Hh Hv1) as H1.
      destruct (hstep rmatch compress sc h op) as [[h1 o]| | | |]; try contradiction; [|exact Logic.I].
      specialize (IH h1 (proj1 H1) Hv2).
      destruct (run rmatch compress sc h1 r) as [[h2 outs]| | | |]; try contradiction; [|exact Logic.I].
      eapply step_ok_run_ok; eassumption.
  Qed.

  (* the harness start-up: clock / plans / arg lists first, then dev_initial_connect, then anything *)
  Definition setup_op (op : hop) : Prop :=
    match op with HNow _ | HPlan _ _ | HFinish _ _ | HNewArgs _ => True | _ => False end.

  Lemma upd_nth_fst (f : device * peer -> device * peer) : (forall x, fst (f x) = fst x) ->
    forall l i, map fst (upd_nth l i f) = map fst l.
  Proof.
    intros Hf. induction l as [|x r IH]; intros i; cbn [upd_nth map]; [reflexivity|].
    destruct i; cbn [map]; [now rewrite Hf|now rewrite IH].
  Qed.

  Lemma Fresh_fst h h' : map fst (h_devs h') = map fst (h_devs h) -> Fresh h -> Fresh h'.
  Proof.
    unfold Fresh. intros E H.
    assert (G : forall (P : device -> Prop) l, Forall (fun dp : device * peer => P (fst dp)) l <-> Forall P (map fst l)).
    { intros P l. rewrite Forall_map. reflexivity. }
    apply (G (fun d => DInvR d /\ dv_cstate d = DEV_NOT_CONNECTED)). rewrite E. now apply G.
  Qed.
  Lemma Fresh_HInv h : Fresh h -> HInv h.
  Proof. unfold Fresh, HInv. intros H. eapply Forall_impl; [|exact H]. cbn. tauto. Qed.

  Lemma setup_step h op : setup_op op -> Fresh h ->
    exists h', hstep rmatch compress sc h op = Ok (h', out0) /\ Fresh h' /\ step_ok h op h' out0.
  Proof.
    intros Hs Hf.
    assert (Hv : valid_op op) by (destruct op; try contradiction; exact Logic.I).
    pose proof (hstep_inv h op (Fresh_HInv h Hf) Hv) as H.
    destruct op as [t|i pl|i ok| | | |nodes| |]; try contradiction; cbn [hstep] in *; eexists; (split; [reflexivity|]); (split; [|exact H]);
      (eapply Fresh_fst; [|exact Hf]); cbn [h_devs]; try reflexivity; apply upd_nth_fst; intros [? ?]; reflexivity.
  Qed.

  Lemma run_setup_init : forall pre h ops, Fresh h -> Forall setup_op pre -> Forall valid_op ops ->
    match run rmatch compress sc h (pre ++ HInit :: ops) with
    | Ok (h', outs) => run_ok h (pre ++ HInit :: ops) h' outs
    | Hang _ => True
    | _ => False
    end.
  Proof.
    induction pre as [|op r IH]; intros h ops Hf Hs Hv; cbn [app run].
    - destruct (hinit_inv h Hf) as (h1 & o & E & OK). rewrite E.
      pose proof (run_inv ops h1 (proj1 OK) Hv) as H2.
      destruct (run rmatch compress sc h1 ops) as [[h2 outs]| | | |]; try contradiction; [|exact Logic.I].
      eapply step_ok_run_ok; eassumption.
    - inversion Hs as [|? ? Hs1 Hs2]; subst.
      destruct (setup_step h op Hs1 Hf) as (h1 & E & F1 & OK). rewrite E.
      specialize (IH h1 ops F1 Hs2 Hv).
      destruct (run rmatch compress sc h1 (r ++ HInit :: ops)) as [[h2 outs]| | | |]; try contradiction; [|exact Logic.I].
      eapply step_ok_run_ok; eassumption.
  Qed.

  (* a configured, never connected device satisfies the invariant *)
  Lemma mk_device_inv name plugs scripts timeout ping :
    cfg_ok compress (mk_device name plugs scripts timeout ping) -> DInvR (mk_device name plugs scripts timeout ping) /\
    dv_cstate (mk_device name plugs scripts timeout ping) = DEV_NOT_CONNECTED.
  Proof.
    intros Hc. split; [|reflexivity]. split; [|cbn; lia].
    constructor; [exact Hc|left; reflexivity|split; reflexivity|discriminate|constructor|constructor| |constructor|reflexivity|reflexivity].
    split; [intros (l & r & E & _); discriminate E|intros [E _]; discriminate E].
  Qed.
End Run.
