(* C19: a stat/on/off line with ONE target, at any depth of an acyclic forest: run_line answers, returns to the prompt
   and the answer and the status table are the ones the documented rules (Spec/RedfishSpec.v) prescribe. *)
From Coq Require Import List NArith ZArith Bool Lia.
From PM Require Import Base.Bytes Base.Outcome Gen.GenRfp Model.Redfish Spec.RedfishSpec Model.RedfishView
  Proofs.RedfishBase Proofs.RedfishSteps Proofs.RedfishMgmt Proofs.RedfishSingle.
Import ListNotations.

(* every plug of the table has an entry in the test status table (init and setplugs see to that) *)
Definition ts_covers (st : state) : Prop := forall n, name_valid (s_tab st) n = true -> ts_lookup (s_tstat st) n <> None.

Lemma at_prompt_St st : at_prompt st -> set_log (set_out st []) [] = St st (s_tstat st) [] [] [] [] [].
Proof. destruct st. unfold at_prompt. cbn. intros (-> & -> & -> & ->). reflexivity. Qed.

Lemma last_default {A} (l : list A) d d' : l <> [] -> last l d = last l d'.
Proof. induction l as [|a [|b r] IH]; intros H; [congruence | reflexivity |]. rewrite !last_cons_cons. apply IH. discriminate. Qed.

Lemma has_path_get st c p : has_path st c p = true -> exists pd lp, lookup (s_tab st) p = Some pd /\ get_path st c pd = Some lp.
Proof. unfold has_path. destruct (lookup _ _) as [pd|]; [|discriminate]. destruct (get_path st c pd) as [lp|] eqn:G; [intros _; exists pd, lp; split; [reflexivity | exact G] | discriminate]. Qed.

Lemma target_msg b ts out c x pdx lp : lookup (s_tab b) x = Some pdx -> get_path b c pdx = Some lp ->
  exists out', (if cmd_is_stat c then stat_cmd_plug (St b ts [] [] [] out []) x true else power_cmd_plug (St b ts [] [] [] out []) x c) =
               (St b ts [] [] [] out' [], Some (mkMsg c (p_host pdx) x (p_parent pdx) true false)) /\ res out' = res out.
Proof.
  intros L GP. destruct c.
  - change (cmd_is_stat CStat) with true. cbv iota. unfold stat_cmd_plug. stw. rewrite L. stw. rewrite GP.
    destruct (s_verbose b); stw; eexists; (split; [reflexivity|]); [rewrite res_app; cbn; now rewrite app_nil_r | reflexivity].
  - change (cmd_is_stat COn) with false. cbv iota. unfold power_cmd_plug. stw. rewrite L. stw. rewrite GP.
    destruct (s_verbose b); stw; eexists; (split; [reflexivity|]); [rewrite res_app; cbn; now rewrite app_nil_r | reflexivity].
  - change (cmd_is_stat COff) with false. cbv iota. unfold power_cmd_plug. stw. rewrite L. stw. rewrite GP.
    destruct (s_verbose b); stw; eexists; (split; [reflexivity|]); [rewrite res_app; cbn; now rewrite app_nil_r | reflexivity].
Qed.

Lemma phased_single b ts w out log c : phased_power_on_check (St b ts [] [w] [] out log) c = St b ts [] [w] [] out log.
Proof. unfold phased_power_on_check. destruct (cmd_is_on c); [|reflexivity]. stw. reflexivity. Qed.

Section WithHostlist.
Variable hlc : text -> option (list text).

(* the model-level statement: Single.final_line / final_ts *)
Theorem single_target_model st line sched w a rest c x :
  at_prompt st -> ts_covers st -> argv line = w :: a :: rest -> cmd_of_word w = Some c -> hlc a = Some [x] ->
  name_valid (s_tab st) x = true -> in_domain st c [x] = true ->
  exists st' pdx l, lookup (s_tab st) x = Some pdx /\ chain (s_tab st) x l /\ length l <= length (s_tab st) /\
    run_line hlc st line sched = Ok (st', false) /\ at_prompt st' /\ same_cfg st' st /\
    results st' = [(TResult x, final_line st c x pdx (s_tstat st) (rev l))] /\
    s_tstat st' = final_ts st c x pdx (s_tstat st) (rev l).
Proof.
  intros AP CV AV CW HL NV DOM.
  unfold in_domain in DOM. apply andb_true_iff in DOM as [CY DOM]. apply negb_true_iff in CY.
  cbn [forallb] in DOM. rewrite NV in DOM. cbn [negb orb] in DOM. rewrite andb_true_r in DOM.
  unfold target_ok in DOM. apply andb_true_iff in DOM as [DOM ANC]. apply andb_true_iff in DOM as [DOM ROOT].
  apply andb_true_iff in DOM as [HPc HPs].
  destruct (find_root (s_tab st) x) as [root| |] eqn:FR; try discriminate.
  destruct (find_root_chain _ _ _ FR) as (pdx & l & Lx & Ch & Len & LAST).
  rewrite (ancestors_chain _ _ _ Ch Len) in ANC.
  assert (StatPaths : forall a0 pda, In a0 l -> lookup (s_tab st) a0 = Some pda -> exists lp, get_path st CStat pda = Some lp).
  { intros a0 pda I L0. rewrite forallb_forall in ANC. destruct (has_path_get _ _ _ (ANC a0 I)) as (pd' & lp & L1 & G). rewrite L0 in L1. inversion L1; subst. eauto. }
  destruct (has_path_get _ _ _ HPs) as (pd1 & lps & L1 & GPs). rewrite Lx in L1. inversion L1; subst pd1.
  destruct (has_path_get _ _ _ HPc) as (pd2 & lpc & L2 & GPc). rewrite Lx in L2. inversion L2; subst pd2.
  assert (StatX : exists lp, get_path st CStat pdx = Some lp) by eauto.
  assert (COV : cover x l (s_tstat st)).
  { intros n I. apply CV. apply name_valid_lookup. destruct I as [<-|I]; [eauto|].
    destruct (chain_in_chain _ _ _ _ Ch I) as (l1 & l2 & _ & _ & C2). exact (chain_lookup _ _ _ C2). }
  unfold run_line. rewrite AV, (process_cmd_power _ _ _ _ _ CW). cbn [first_arg]. unfold power_cmd. rewrite HL.
  rewrite (at_prompt_St _ AP). stw. rewrite CY. cbn [fold_left]. unfold target_one. stw. rewrite NV.
  destruct (target_msg st (s_tstat st) [] c x pdx lpc Lx GPc) as [out1 [TM R1]]. rewrite TM.
  unfold queue_target. cbn [m_parent].
  pose proof (parent_head st x pdx l Lx Ch Len StatPaths StatX) as PH.
  destruct l as [|a0 l'].
  - (* a root: active at once *)
    rewrite PH. stw. cbn [app].
    destruct (finish st c x pdx [] Lx Len StatX (s_tstat st) out1 [] (fuel_for (St st (s_tstat st) [tmsg c x pdx] [] [] out1 [])) sched) as (out' & log' & DR & RS).
    { unfold fuel_for. stw. cbn [length]. lia. }
    { exact COV. }
    unfold tmsg in DR. rewrite PH in DR. rewrite DR.
    eexists; exists pdx, []. repeat (split; [first [exact Lx | exact Ch | exact Len | reflexivity]|]).
    split; [repeat split|]. split; [apply same_cfg_St|]. split; [|reflexivity].
    unfold results. stw. rewrite RS, R1. reflexivity.
  - (* below a root: wait, query the root *)
    rewrite PH. stw. cbn [app].
    assert (E1 : (if cmd_is_stat c then St st (s_tstat st) [] [tmsg c x pdx] [] out1 []
                  else phased_power_on_check (St st (s_tstat st) [] [tmsg c x pdx] [] out1 []) c) = St st (s_tstat st) [] [tmsg c x pdx] [] out1 []).
    { destruct (cmd_is_stat c); [reflexivity | apply phased_single]. }
    unfold tmsg in E1. rewrite PH in E1. rewrite E1. clear E1.
    unfold send_initial_parent_queries, scan_fuel. stw. cbn [length Nat.mul Nat.add].
    rewrite sipq_S. stw. cbn [nth_error m_plug m_cmd]. rewrite FR.
    change (plugname_active [] root c) with false. cbv iota.
    assert (NE : a0 :: l' <> []) by discriminate.
    pose proof (app_removelast_last root NE) as EL.
    assert (LR : last (a0 :: l') root = root).
    { rewrite <- LAST at 2. apply last_default. exact NE. }
    rewrite LR in EL.
    assert (Iroot : In root (a0 :: l')) by (rewrite EL; apply in_or_app; right; now left).
    destruct (chain_in_chain _ _ _ _ Ch Iroot) as (l1' & l2' & _ & _ & Croot).
    destruct (chain_lookup _ _ _ Croot) as [pdr Lr].
    destruct (StatPaths root pdr Iroot Lr) as [lpr GPr].
    destruct (stat_cmd_plug_silent st (s_tstat st) [] [mkMsg c (p_host pdx) x (Some a0) true false] [] out1 [] root pdr lpr Lr GPr) as [out2 [SC R2]].
    rewrite SC. stw. cbn [app]. rewrite sipq_S. stw. cbn [nth_error].
    destruct (walk st c x pdx (a0 :: l') Lx Ch Len StatPaths StatX (removelast (a0 :: l')) root [] pdr (s_tstat st) out2 []
                (fuel_for (St st (s_tstat st) [mkMsg CStat (p_host pdr) root (p_parent pdr) false false] [mkMsg c (p_host pdx) x (Some a0) true false] [] out2 [])) sched EL Lr COV)
      as (out' & log' & DR & RS).
    { unfold fuel_for. stw. cbn [length].
      assert (length (removelast (a0 :: l')) <= length (a0 :: l')).
      { rewrite EL at 2. rewrite app_length. lia. }
      lia. }
    unfold qmsg, tmsg in DR. rewrite PH in DR. rewrite DR.
    assert (RV : root :: rev (removelast (a0 :: l')) = rev (a0 :: l')).
    { rewrite EL at 2. rewrite rev_unit. reflexivity. }
    rewrite RV in *.
    eexists; exists pdx, (a0 :: l'). repeat (split; [first [exact Lx | exact Ch | exact Len | reflexivity]|]).
    split; [repeat split|]. split; [apply same_cfg_St|]. split; [|reflexivity].
    unfold results. stw. rewrite RS, R2, R1. reflexivity.
Qed.

(* ------------------------------------------------------------------ the model's verdict is the documented one *)
Lemma qstat_qs b ts a pda : lookup (s_tab b) a = Some pda ->
  qstat (forest_of (s_tab b)) (s_fail b) (statmap_of ts) a = sstat_of (qs b ts a).
Proof.
  intros L. unfold qstat, qs, seen. rewrite (host_of_forest _ _ _ L), L. change (smem (p_host pda) (s_fail b)) with (mem (p_host pda) (s_fail b)).
  destruct (mem _ _); [reflexivity|]. rewrite st_get_statmap. destruct (ts_lookup ts a); reflexivity.
Qed.

Lemma find_ext_in {A} (f g : A -> bool) l : (forall a, In a l -> f a = g a) -> find f l = find g l.
Proof.
  induction l as [|a r IH]; intros H; [reflexivity|]. cbn [find]. rewrite (H a (or_introl eq_refl)).
  destruct (g a); [reflexivity|]. apply IH. intros a' I. apply H. now right.
Qed.

Lemma blocker_spec b ts x l : chain (s_tab b) x l -> length l <= length (s_tab b) ->
  blocker (forest_of (s_tab b)) (s_fail b) (statmap_of ts) x =
  match blocker_m b ts (rev l) with Some a => Some (a, sstat_of (qs b ts a)) | None => None end.
Proof.
  intros Ch Len. unfold blocker, blocker_m, RedfishSpec.chain. rewrite (ancestors_chain _ _ _ Ch Len).
  rewrite (find_ext_in _ (fun a => negb (status_is_on (qs b ts a)))).
  2:{ intros a I. apply in_rev in I. destruct (chain_in_chain _ _ _ _ Ch I) as (l1 & l2 & _ & _ & C2).
      destruct (chain_lookup _ _ _ C2) as [pda La]. rewrite (qstat_qs _ _ _ _ La). now rewrite status_is_on_spec. }
  unfold name in *. destruct (find _ (rev l)) as [a|] eqn:F; [|reflexivity].
  apply find_some in F as [I _]. apply in_rev in I. destruct (chain_in_chain _ _ _ _ Ch I) as (l1 & l2 & _ & _ & C2).
  destruct (chain_lookup _ _ _ C2) as [pda La]. now rewrite (qstat_qs _ _ _ _ La).
Qed.

Lemma blocked_line_spec b c x pdx a pda s : lookup (s_tab b) a = Some pda ->
  blocked_line (tmsg c x pdx) pda s =
  match scmd_of c, sstat_of s with
  | SpStat, s' => line x (word s')
  | SpOff, StOff => line x (bs "ok"%string)
  | c', s' => dependency_line (forest_of (s_tab b)) c' x a s'
  end.
Proof.
  intros L. unfold blocked_line, tmsg, dependency_line, line. cbn [m_cmd m_plug].
  rewrite (host_of_forest _ _ _ L), (lookup_name _ _ _ L).
  destruct c, s; cbn [scmd_of sstat_of]; try reflexivity;
    cbv [cmd_is_stat cmd_is_off status_is_off cmd_text status_text andb]; cbn [text_eqb N.eqb Pos.eqb andb CMD_STAT CMD_ON CMD_OFF STATUS_ON STATUS_OFF STATUS_ERROR];
    cbv [fmt f_pw_dependency N.eqb Pos.eqb orb]; cbn [app];
    repeat rewrite <- app_assoc; reflexivity.
Qed.

Lemma final_line_spec b c x pdx l ts : lookup (s_tab b) x = Some pdx -> chain (s_tab b) x l -> length l <= length (s_tab b) ->
  final_line b c x pdx ts (rev l) = fst (answer (forest_of (s_tab b)) (s_fail b) (scmd_of c) (statmap_of ts) x).
Proof.
  intros Lx Ch Len. unfold answer. rewrite (blocker_spec _ _ _ _ Ch Len). unfold final_line.
  destruct (blocker_m b ts (rev l)) as [a|] eqn:B.
  - unfold blocker_m in B. apply find_some in B as [I _]. apply in_rev in I.
    destruct (chain_in_chain _ _ _ _ Ch I) as (l1 & l2 & _ & _ & C2). destruct (chain_lookup _ _ _ C2) as [pda La].
    rewrite La, (blocked_line_spec _ _ _ _ _ _ _ La). destruct (scmd_of c), (sstat_of (qs b ts a)); reflexivity.
  - unfold own_line. rewrite (host_of_forest _ _ _ Lx). change (smem (p_host pdx) (s_fail b)) with (mem (p_host pdx) (s_fail b)).
    destruct (mem (p_host pdx) (s_fail b)) eqn:FH; [reflexivity|].
    destruct c; cbn [scmd_of fst]; try reflexivity.
    unfold qs, seen. rewrite Lx, FH, st_get_statmap. destruct (ts_lookup ts x) as [s|]; [destruct s|]; reflexivity.
Qed.

(* every plug's ancestors are defined plugs (no dangling parent anywhere in the table) *)
Definition closed_tab (tab : list plug) : bool :=
  forallb (fun p => match find_root tab (p_name p) with WFound _ => true | _ => false end) tab.

Lemma smem_in a l : smem a l = true <-> In a l.
Proof.
  unfold smem. rewrite existsb_exists. split.
  - intros [y [I E]]. apply text_eqb_eq in E. now subst.
  - intros I. exists a. split; [assumption | apply text_eqb_refl].
Qed.

Lemma desc_equiv tab n a : closed_tab tab = true -> descendant (forest_of tab) n a = is_desc tab n a.
Proof.
  intros CL. destruct (lookup tab n) as [pd|] eqn:L.
  - unfold closed_tab in CL. rewrite forallb_forall in CL. specialize (CL pd (lookup_in _ _ _ L)). rewrite (lookup_name _ _ _ L) in CL.
    destruct (find_root tab n) as [r| |] eqn:FR; try discriminate.
    destruct (find_root_chain _ _ _ FR) as (pd' & l & _ & Ch & Len & _).
    unfold descendant. rewrite (ancestors_chain _ _ _ Ch Len).
    destruct (is_desc tab n a) eqn:D.
    + apply smem_in. now apply (is_desc_chain _ _ _ _ Ch Len).
    + destruct (smem a l) eqn:S; [|reflexivity]. apply smem_in in S. apply (is_desc_chain _ _ _ _ Ch Len) in S. congruence.
  - unfold is_desc, child_of_ancestor. rewrite L. unfold descendant, ancestors.
    destruct (length (forest_of tab)); cbn [ancestors_go]; [reflexivity|]. rewrite node_of_forest, L. reflexivity.
Qed.

Lemma cascade_get f p : forall L m0 k,
  st_get (fold_left (fun m' n => if descendant f (n_name n) p then st_set m' (n_name n) StOff else m') L m0) k =
  if existsb (fun n => text_eqb (n_name n) k && descendant f (n_name n) p) L then StOff else st_get m0 k.
Proof.
  induction L as [|n r IH]; intros m0 k; cbn [fold_left existsb]; [reflexivity|]. rewrite IH.
  destruct (existsb _ r); [now rewrite orb_true_r|]. rewrite orb_false_r.
  destruct (descendant f (n_name n) p); [|now rewrite andb_false_r]. rewrite andb_true_r.
  destruct (text_eqb (n_name n) k) eqn:E.
  - apply text_eqb_eq in E. subst k. apply st_get_set_same.
  - apply st_get_set_other. apply text_eqb_neq in E. congruence.
Qed.

Lemma exists_desc f tab p k :
  existsb (fun n => text_eqb (n_name n) k && descendant f (n_name n) p) (forest_of tab) =
  name_valid tab k && descendant f k p.
Proof.
  unfold name_valid, forest_of.
  induction tab as [|q r IH]; [reflexivity|]. cbn [map existsb n_name]. rewrite IH.
  destruct (text_eqb (p_name q) k) eqn:E; cbn [andb orb]; [|reflexivity].
  apply text_eqb_eq in E. subst k. destruct (descendant f (p_name q) p); [reflexivity|]. cbn [orb].
  destruct (existsb _ r); reflexivity.
Qed.

Lemma desc_unknown tab k p : name_valid tab k = false -> descendant (forest_of tab) k p = false.
Proof.
  intros NV. apply name_valid_false_lookup in NV. unfold descendant, ancestors.
  destruct (length (forest_of tab)); cbn [ancestors_go]; [reflexivity|]. rewrite node_of_forest, NV. reflexivity.
Qed.

Lemma cascade_off_get tab m p k :
  st_get (cascade_off (forest_of tab) m p) k = if text_eqb k p || descendant (forest_of tab) k p then StOff else st_get m k.
Proof.
  unfold cascade_off. rewrite cascade_get, exists_desc.
  destruct (descendant (forest_of tab) k p) eqn:D.
  - rewrite orb_true_r. destruct (name_valid tab k) eqn:NV; [reflexivity|]. rewrite (desc_unknown _ _ _ NV) in D. discriminate.
  - rewrite andb_false_r, orb_false_r. destruct (text_eqb k p) eqn:E.
    + apply text_eqb_eq in E. subst k. apply st_get_set_same.
    + apply st_get_set_other. now apply text_eqb_neq.
Qed.

Lemma flip_ts_get b ts c x k :
  st_get (statmap_of (flip_ts b ts c x)) k =
  match c with
  | CStat => st_get (statmap_of ts) k
  | COn => if text_eqb k x then StOn else st_get (statmap_of ts) k
  | COff => if text_eqb k x || is_desc (s_tab b) k x then StOff else st_get (statmap_of ts) k
  end.
Proof.
  destruct c; cbn [flip_ts]; [reflexivity| |]; rewrite !st_get_statmap.
  - destruct (text_eqb k x) eqn:E.
    + apply text_eqb_eq in E. subst k. now rewrite ts_lookup_update_same.
    + apply text_eqb_neq in E. now rewrite ts_lookup_update_other.
  - rewrite (ts_lookup_map_off (fun n => is_desc (s_tab b) n x)).
    destruct (text_eqb k x) eqn:E.
    + apply text_eqb_eq in E. subst k. rewrite ts_lookup_update_same. cbn [orb]. destruct (is_desc _ _ _); reflexivity.
    + apply text_eqb_neq in E. rewrite ts_lookup_update_other by assumption. cbn [orb].
      destruct (ts_lookup ts k); destruct (is_desc (s_tab b) k x); reflexivity.
Qed.

Lemma final_ts_spec b c x pdx l ts k : lookup (s_tab b) x = Some pdx -> chain (s_tab b) x l -> length l <= length (s_tab b) ->
  (c = COff -> closed_tab (s_tab b) = true) ->
  st_get (statmap_of (final_ts b c x pdx ts (rev l))) k = st_get (snd (answer (forest_of (s_tab b)) (s_fail b) (scmd_of c) (statmap_of ts) x)) k.
Proof.
  intros Lx Ch Len CL. unfold answer. rewrite (blocker_spec _ _ _ _ Ch Len). unfold final_ts.
  destruct (blocker_m b ts (rev l)) as [a|] eqn:B.
  - destruct (scmd_of c), (sstat_of (qs b ts a)); reflexivity.
  - unfold own_ts. rewrite (host_of_forest _ _ _ Lx). change (smem (p_host pdx) (s_fail b)) with (mem (p_host pdx) (s_fail b)).
    destruct (mem (p_host pdx) (s_fail b)); [reflexivity|]. rewrite flip_ts_get.
    destruct c; cbn [scmd_of snd]; [reflexivity| |].
    + destruct (text_eqb k x) eqn:E.
      * apply text_eqb_eq in E. subst k. now rewrite st_get_set_same.
      * apply text_eqb_neq in E. now rewrite st_get_set_other.
    + rewrite cascade_off_get, (desc_equiv _ _ _ (CL eq_refl)). reflexivity.
Qed.

End WithHostlist.
