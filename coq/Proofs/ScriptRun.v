(* C08, whole run, part 3: the closed statements (no Section variables left except the regex / host-list oracles),
   consequences read off the trace semantics alone, and a concrete run. *)
From Coq Require Import List NArith ZArith Bool Lia.
From PM Require Import Base.Bytes Base.Outcome Base.Dec Gen.GenConsts Model.ScriptAst Model.Enqueue Model.Script
  Spec.ScriptSem Proofs.ScriptProofs Proofs.ScriptRefine Proofs.ScriptSim Proofs.ScriptRewind.
Import ListNotations.
Local Open Scope Z_scope.

Section Closed.
  Variable rmatch : text -> text -> option pmatch.
  Variable compress : list text -> text.
  Variable sc : bool.

  Lemma create_start_ok script com ps client hascb tele hasdiag args d0 :
    bwf script -> (block_levels script <= 8)%nat -> (is_ranged_com com = true -> ps <> None) ->
    (args <> None -> hasdiag = true) ->
    fresh_like script ps (create_action script com ps client hascb tele hasdiag args) /\
    start_ok (is_ranged_com com) (sd_plugs d0) script ps args hasdiag d0 (create_action script com ps client hascb tele hasdiag args).
  Proof.
    intros Hb Hlv Hr Hd. split.
    - exists (new_ctx script ps). repeat split; auto. intros l K. discriminate K.
    - repeat split; auto; apply Hb.
  Qed.

  (* C08_refines *)
  Theorem script_refines script ps com client hascb tele hasdiag args d0 store0 ins :
    bwf script -> (block_levels script <= 8)%nat -> (is_ranged_com com = true -> ps <> None) ->
    (args <> None -> hasdiag = true) ->
    let a0 := create_action script com ps client hascb tele hasdiag args in
    let s0 := mkSst (get_args store0 a0) (model_xm d0) in
    exists st d a store tr raw,
      run rmatch compress sc ins d0 a0 store0 [] [] = Ok (st, d, a, store, tr, raw) /\
      (exists s', exec_script rmatch compress sc (is_ranged_com com) (sd_plugs d0) script ps s0 tr s' (status_of st) /\
                  (st <> Failed -> ss_args s' = get_args store a)) /\
      sent_of tr = raw_sent raw.
  Proof.
    intros Hb Hlv Hr Hd a0 s0.
    destruct (create_start_ok script com ps client hascb tele hasdiag args d0 Hb Hlv Hr Hd) as (Hf & Hst).
    destruct (run_refines rmatch compress sc (is_ranged_com com) (sd_plugs d0) script ps args hasdiag d0 a0 store0 ins Hf Hst)
      as (st & d & a & store & tr & raw & E & H & Hby & _).
    exists st, d, a, store, tr, raw. split; [exact E|split; [exact H|exact Hby]].
  Qed.

  (* C08_fresh_start *)
  Theorem rewound_refines script ps com client hascb tele hasdiag args d0 store0 ins1 d a store tr raw :
    bwf script -> (block_levels script <= 8)%nat -> (is_ranged_com com = true -> ps <> None) ->
    (args <> None -> hasdiag = true) ->
    run rmatch compress sc ins1 d0 (create_action script com ps client hascb tele hasdiag args) store0 [] []
      = Ok (Running, d, a, store, tr, raw) ->
    (* the rewound action is a single context at the first statement with clean flags ... *)
    (exists e, a_exec (rewind_action a) = [e] /\ c_block e = script /\ c_plugs e = ps /\ c_pos e = O /\
               c_processing e = false /\ c_plugitr e = None) /\
    (* ... and whatever happens next is a trace of the whole script from its beginning *)
    forall d1 ins2, sd_plugs d1 = sd_plugs d0 ->
    exists st d' a' store' tr2 raw2,
      run rmatch compress sc ins2 d1 (rewind_action a) store [] [] = Ok (st, d', a', store', tr2, raw2) /\
      (exists s', exec_script rmatch compress sc (is_ranged_com com) (sd_plugs d0) script ps
                              (mkSst (get_args store a) (model_xm d1)) tr2 s' (status_of st) /\
                  (st <> Failed -> ss_args s' = get_args store' a')) /\
      sent_of tr2 = raw_sent raw2.
  Proof.
    intros Hb Hlv Hr Hd Erun.
    set (a0 := create_action script com ps client hascb tele hasdiag args) in *.
    destruct (create_start_ok script com ps client hascb tele hasdiag args d0 Hb Hlv Hr Hd) as (Hf & Hst).
    destruct (run_refines rmatch compress sc (is_ranged_com com) (sd_plugs d0) script ps args hasdiag d0 a0 store0 ins1 Hf Hst)
      as (st & d' & a' & store' & tr' & raw' & E & _ & _ & HI).
    rewrite Erun in E. injection E as <- <- <- <- <- <-. specialize (HI eq_refl).
    split.
    - destruct (rewind_fresh rmatch compress sc _ _ _ _ _ _ _ _ _ _ _ HI) as ((e & E1 & E2 & E3 & E4 & (E5 & E6) & _) & _).
      exists e. repeat split; assumption.
    - intros d1 ins2 Hp1.
      exact (rewind_refines rmatch compress sc _ _ _ _ _ _ _ _ _ _ _ d1 ins2 HI Hp1 Hb Hlv Hr).
  Qed.

  Lemma rewind_fields a : a_client (rewind_action a) = a_client a /\ a_hascb (rewind_action a) = a_hascb a /\ a_tele (rewind_action a) = a_tele a.
  Proof. unfold rewind_action. destruct (rev (a_exec a)); auto. Qed.

  (* C08_fresh_start, literally: on every schedule the rewound action behaves like the freshly created one - same
     status, same device, same argument store, same observations, same raw events *)
  Theorem rewound_same script ps com client hascb tele hasdiag args d0 store0 ins1 d a store tr raw :
    bwf script -> (block_levels script <= 8)%nat -> (is_ranged_com com = true -> ps <> None) ->
    (args <> None -> hasdiag = true) ->
    run rmatch compress sc ins1 d0 (create_action script com ps client hascb tele hasdiag args) store0 [] []
      = Ok (Running, d, a, store, tr, raw) ->
    forall d1 ins2 st d' a2 store' tr2 raw2, sd_plugs d1 = sd_plugs d0 ->
    run rmatch compress sc ins2 d1 (rewind_action a) store [] [] = Ok (st, d', a2, store', tr2, raw2) ->
    exists a2',
      run rmatch compress sc ins2 d1
          (create_action script (a_com a) ps (a_client a) (a_hascb a) (a_tele a) (a_hasdiag a) (a_args a)) store [] []
        = Ok (st, d', a2', store', tr2, raw2).
  Proof.
    intros Hb Hlv Hr Hd Erun d1 ins2 st d' a2 store' tr2 raw2 Hp1 Hrun.
    set (a0 := create_action script com ps client hascb tele hasdiag args) in *.
    destruct (create_start_ok script com ps client hascb tele hasdiag args d0 Hb Hlv Hr Hd) as (Hf0 & Hst0).
    destruct (run_refines rmatch compress sc (is_ranged_com com) (sd_plugs d0) script ps args hasdiag d0 a0 store0 ins1 Hf0 Hst0)
      as (st0 & d0' & a0' & store0' & tr0 & raw0 & E & _ & _ & HI).
    rewrite Erun in E. injection E as <- <- <- <- <- <-. specialize (HI eq_refl).
    destruct (rewind_fresh rmatch compress sc _ _ _ _ _ _ _ _ _ _ _ HI) as (Hf & Ec & Ee & Ea & Eh).
    pose proof HI as ((Hdg & _ & (Hrg & _ & Herr & _ & Ha & Hh) & _) & _).
    set (b := create_action script (a_com a) ps (a_client a) (a_hascb a) (a_tele a) (a_hasdiag a) (a_args a)).
    assert (Hst : start_ok (is_ranged_com com) (sd_plugs d0) script ps args hasdiag d1 (rewind_action a)).
    { split; [exact Hb|]. split; [exact Hlv|]. split; [exact Hr|]. split; [exact Hdg|]. split; [exact Hp1|].
      split; [rewrite Ec; exact Hrg|]. split; [rewrite Ee; exact Herr|]. split; [rewrite Ea; exact Ha|rewrite Eh; exact Hh]. }
    assert (Hstb : start_ok (is_ranged_com com) (sd_plugs d0) script ps args hasdiag d1 b).
    { split; [exact Hb|]. split; [exact Hlv|]. split; [exact Hr|]. split; [exact Hdg|]. split; [exact Hp1|].
      split; [exact Hrg|]. split; [reflexivity|]. split; [exact Ha|exact Hh]. }
    assert (Hfb : fresh_like script ps b).
    { exists (new_ctx script ps). repeat split; auto. intros l K. discriminate K. }
    pose proof (fresh_inv rmatch compress sc _ _ _ _ _ _ d1 (rewind_action a) store Hf Hst) as HIr.
    pose proof (fresh_inv rmatch compress sc _ _ _ _ _ _ d1 b store Hfb Hstb) as HIb.
    assert (Haeq : aeq (rewind_action a) b).
    { destruct Hf as (e & Ex & Eb & Ep & Epos & (Epr & Eit) & _).
      destruct (rewind_fields a) as (R1 & R2 & R3).
      split; [unfold afld; cbn [b create_action a_com a_client a_hascb a_tele a_hasdiag a_err a_args]; rewrite Ec, Ee, Ea, Eh, R1, R2, R3; repeat split; exact Herr|]. split.
      - rewrite Ex. cbn [a_exec b create_action]. constructor; [|constructor].
        unfold ceq, new_ctx. cbn [c_plugs c_block c_pos c_plugitr c_processing]. repeat split; assumption.
      - right. rewrite Ex. constructor; [left; exact Epr|constructor]. }
    destruct (run_rel rmatch compress sc _ _ _ _ _ _ _ _ ins2 d1 (rewind_action a) b store [] [] [] HIr HIb Haeq st d' a2 store' tr2 raw2 Hrun)
      as (a2' & o & -> & _ & Hrb).
    exists a2'. exact Hrb.
  Qed.
End Closed.

(* ---------- consequences of the semantics alone ---------- *)
Scheme xs_min := Minimality for exec_stmt Sort Prop
  with xb_min := Minimality for exec_block Sort Prop
  with xi_min := Minimality for exec_iter Sort Prop.
Combined Scheme exec_mutind from xs_min, xb_min, xi_min.

Section SemFacts.
  Variable rmatch : text -> text -> option pmatch.
  Variable compress : list text -> text.
  Variable sc : bool.
  Variable ranged : bool.
  Variable devplugs : list plug.

  (* every delay in every trace (complete, failed or cut) lasted at least its stated time *)
  Lemma sem_delays :
    (forall x ps s tr s' st, exec_stmt rmatch compress sc ranged devplugs x ps s tr s' st -> delays_ok sc tr) /\
    (forall b ps s tr s' st, exec_block rmatch compress sc ranged devplugs b ps s tr s' st -> delays_ok sc tr) /\
    (forall b l s tr s' st, exec_iter rmatch compress sc ranged devplugs b l s tr s' st -> delays_ok sc tr).
  Proof.
    unfold delays_ok.
    apply (exec_mutind rmatch compress sc ranged devplugs
             (fun _ _ _ tr _ _ => Forall (fun o => match o with ODelay us t0 t1 => sc = true \/ t0 + us <= t1 | _ => True end) tr)
             (fun _ _ _ tr _ _ => Forall (fun o => match o with ODelay us t0 t1 => sc = true \/ t0 + us <= t1 | _ => True end) tr)
             (fun _ _ _ tr _ _ => Forall (fun o => match o with ODelay us t0 t1 => sc = true \/ t0 + us <= t1 | _ => True end) tr));
      intros; try (constructor; [auto|constructor]); try assumption; try (apply Forall_app; split; assumption); try constructor.
  Qed.

  (* a block of plain statements that ran to the end was observed statement by statement, in program order,
     each exactly once *)
  Definition plain (x : stmt) : Prop :=
    match x with ForeachPlug _ | ForeachNode _ | IfOn _ | IfOff _ => False | _ => True end.
  Definition obs_of (ps : option (list plug)) (x : stmt) (o : obs) : Prop :=
    match x, o with
    | Send fmt, OSend b => b = subst fmt (sem_arg compress ps)
    | Expect re, OExpect re' _ => re' = re
    | Delay us, ODelay us' t0 t1 => us' = us /\ (sc = true \/ t0 + us <= t1)
    | SetPlugState _ _ _ _, OSetState _ => True
    | SetResult _ _ _, OSetResult _ => True
    | _, _ => False
    end.

  Lemma sem_plain_block : forall b ps s tr s',
    Forall plain b -> exec_block rmatch compress sc ranged devplugs b ps s tr s' Done -> Forall2 (obs_of ps) b tr.
  Proof.
    induction b as [|x r IH]; intros ps s tr s' Hp H; inversion H; subst.
    - constructor.
    - inversion Hp as [|? ? Hx Hr]; subst.
      match goal with Hs : exec_stmt _ _ _ _ _ x _ _ _ _ Done |- _ => inversion Hs; subst; cbn [plain] in Hx; try contradiction end;
        cbn [app]; (constructor; [cbn [obs_of]; auto|eapply IH; eassumption]).
    - congruence.
  Qed.
End SemFacts.
