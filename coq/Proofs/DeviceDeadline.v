(* C04 / C12, device layer: the DEADLINE BOUND ("... in bounded time").

   An action gets its time stamp when _process_action first finds it at the head of the queue; its deadline is
   stamp + dev->timeout and never moves (Proofs/DeviceTimer.v).  This file says WHEN the client actions queued on a
   device are completed, for every regex / compress oracle, every transport answer (passin) and every store:

     hstamp now a      the stamp _process_action uses for a when it is the head at clock `now`
     span l            number of actions in the queue up to and including the LAST one that carries a client
                       callback (logins and pings in front of it are counted, pings behind it are not)
     bound now d       hstamp now (head) + span (dv_acts d) * dv_timeout d : the latest completion time of everything
                       a client waits for on this device
     front_shape       what the part of dev_post_poll that runs BEFORE _process_action (descriptor, reconnect, ping:
                       DeviceMask.pp_front) does to the queue: keeps it (+ a ping at the end), drops the login in
                       progress (disconnect), or puts a FRESH login in front (connection established in this pass)
     steady            the queue is kept (first case)

   Results (all about the executable model, Model/Device.post_poll_one, for every oracle / transport answer / store):
     deadline_pass       (D1) head past its deadline at the start of the pass.  Exactly one of three things happens:
                           (a) `flushes`: the pass RETURNS (no Hang possible) and every queued client action is completed in it;
                           (b) the head was a login in progress, a disconnect dropped it and no connection came back: the action
                               behind it is now the head of a not-connected device, stamped, its own deadline ahead; nothing completed;
                           (c) a connection was established in this pass (pending connect completed / connect() succeeded at once):
                               a FRESH login, deadline now + timeout, is in front; only here can the loop fuel run out
     deadline_pass_steady  a steady pass with the head past its deadline is case (a)
     pass_bound          (D2, one pass) stamps stay in the past; whatever the pass did, afterwards nothing is queued for a client or
                         bound <= now + (span + 1) * timeout; over a steady pass the bound does not increase, and a steady pass
                         whose clock has reached the bound leaves nothing queued
     deadline_run        (D2, any number of passes [passes], non-decreasing clocks, no client action appended): over steady passes,
     deadline_reached    conservation (completions ++ queued = queued at the start), the bound never increases, and once a pass runs
                         with clock >= bound (taken at the first pass) every client action queued at the start has completed
     bound_after_any_pass  after ANY pass the bound of what is still queued is <= now + (span + 1) * timeout
     steady_or / steady_unconnected / steady_quiet_io   observable sufficient conditions for `steady`: not steady only if a login is
                         in progress (and the descriptor fails), a pending connect completes, or connect() succeeds at once
   The unconditional statement (without `steady`) is FALSE: Proofs/DeviceDeadlineEx.v (deadline_unsteady_refuted: flapping device).
   Hang (the model's loop fuel): excluded outright where the head is past its deadline (a), (b); elsewhere the statements are of
   the form  match .. with Ok .. => .. | Hang _ => True | _ => False end  or assume Ok, and DeviceFuel.post_poll_one_no_hang
   excludes Hang when blocks nest less than 8 deep (the loop fuel is the potential of the queue: Proofs/DeviceHang.v). *)
From Coq Require Import List NArith ZArith Bool Lia.
From PM Require Import Base.Bytes Base.Outcome Base.Dec Gen.GenConsts Gen.GenCbuf Model.ScriptAst Model.Enqueue Model.Script Model.Device
  Proofs.DeviceProofs Proofs.DeviceStmt Proofs.DeviceStmtG Proofs.DeviceInv Proofs.DeviceInvG Proofs.DeviceMask.
Import ListNotations.
Local Open Scope Z_scope.

(* ---------- stamps, span, bound ---------- *)
Definition hstamp (now : Z) (a : action) : Z := match a_stamp a with Some t => t | None => now end.
Definition stamps_le (now : Z) (l : list action) : Prop := Forall (fun a => forall t, a_stamp a = Some t -> t <= now) l.
Fixpoint span (l : list action) : nat :=
  match l with
  | [] => O
  | a :: r => match span r with O => if a_hascb a then 1%nat else O | S n => S (S n) end
  end.
Definition qbound (now T : Z) (l : list action) : Z :=
  match l with [] => now | h :: _ => hstamp now h + Z.of_nat (span l) * T end.
Definition bound (now : Z) (d : device) : Z := qbound now (dv_timeout d) (dv_acts d).
Definition lqueued (l : list action) : list Z := map a_client (filter a_hascb l).
Definition nocb (l : list action) : Prop := Forall (fun a => a_hascb a = false) l.

Lemma queued_lqueued d : queued d = lqueued (dv_acts d).
Proof. reflexivity. Qed.
Lemma lqueued_app a b : lqueued (a ++ b) = lqueued a ++ lqueued b.
Proof. unfold lqueued. now rewrite filter_app, map_app. Qed.
Lemma lqueued_nocb l : nocb l -> lqueued l = [].
Proof. induction 1 as [|a r Ha _ IH]; [reflexivity|]. unfold lqueued in *. cbn [filter]. rewrite Ha. exact IH. Qed.
Lemma span_zero l : span l = O <-> lqueued l = [].
Proof.
  induction l as [|a r IH]; [split; reflexivity|]. unfold lqueued in *. cbn [span filter].
  destruct (span r) as [|n].
  - destruct (a_hascb a); cbn [map]; split; intros H; try discriminate H; [apply IH; reflexivity|reflexivity].
  - split; [discriminate|]. intros H. exfalso. destruct (a_hascb a); cbn [map] in H; [discriminate H|].
    apply IH in H. discriminate H.
Qed.
Lemma span_cons_le a r : (span r <= span (a :: r) <= S (span r))%nat.
Proof. cbn [span]. destruct (span r); [destruct (a_hascb a)|]; lia. Qed.
Lemma span_cons_pos a r n : span r = S n -> span (a :: r) = S (S n).
Proof. intros H. cbn [span]. now rewrite H. Qed.
Lemma span_cons_flag a a' r : a_hascb a' = a_hascb a -> span (a' :: r) = span (a :: r).
Proof. intros H. cbn [span]. now rewrite H. Qed.
Lemma span_app_nocb l new : nocb new -> span (l ++ new) = span l.
Proof.
  intros Hn. induction l as [|a r IH]; cbn [app].
  - destruct (span new) eqn:E; [reflexivity|]. exfalso. assert (H : span new <> O) by lia. apply H. apply span_zero. now apply lqueued_nocb.
  - cbn [span]. now rewrite IH.
Qed.
Lemma stamps_le_mono now now' l : now <= now' -> stamps_le now l -> stamps_le now' l.
Proof. intros Hl H. eapply Forall_impl; [|exact H]. intros a Ha t Et. specialize (Ha t Et). lia. Qed.
Lemma hstamp_le now a r : stamps_le now (a :: r) -> hstamp now a <= now.
Proof. intros H. inversion H as [|? ? Ha _]; subst. unfold hstamp. destruct (a_stamp a) as [t|]; [now apply Ha|lia]. Qed.
Lemma hstamp_stamped now now' a s : a_stamp a = Some s -> hstamp now a = hstamp now' a.
Proof. unfold hstamp. now intros ->. Qed.
Lemma qbound_le now T l : 0 <= T -> stamps_le now l -> qbound now T l <= now + Z.of_nat (span l) * T.
Proof. intros HT H. destruct l as [|a r]; cbn [qbound]; [nia|]. pose proof (hstamp_le now a r H). lia. Qed.

(* the queue after a rewind of its head / without a login at its head *)
Definition rw (l : list action) : list action := match l with [] => [] | h :: r => rewind_action h :: r end.
Definition nolog (l : list action) : list action := match l with h :: r => if is_login h then r else h :: r | [] => [] end.
Lemma rewind_flags a : a_hascb (rewind_action a) = a_hascb a /\ a_client (rewind_action a) = a_client a /\ a_stamp (rewind_action a) = a_stamp a.
Proof. unfold rewind_action. destruct (rev (a_exec a)); repeat split. Qed.
Lemma span_rw l : span (rw l) = span l.
Proof. destruct l as [|h r]; [reflexivity|]. apply span_cons_flag. apply rewind_flags. Qed.
Lemma lqueued_rw l : lqueued (rw l) = lqueued l.
Proof.
  destruct l as [|h r]; [reflexivity|]. unfold lqueued. cbn [rw filter]. destruct (rewind_flags h) as (E1 & E2 & _). rewrite E1.
  destruct (a_hascb h); cbn [map]; now rewrite ?E2.
Qed.
Lemma stamps_le_rw now l : stamps_le now l -> stamps_le now (rw l).
Proof.
  destruct l as [|h r]; [auto|]. intros H. inversion H; subst. constructor; [|assumption].
  destruct (rewind_flags h) as (_ & _ & E). now rewrite E.
Qed.
Lemma span_nolog l : (span (nolog l) <= span l)%nat.
Proof. destruct l as [|h r]; [cbn; lia|]. cbn [nolog]. destruct (is_login h); [apply span_cons_le|lia]. Qed.
Lemma stamps_le_nolog now l : stamps_le now l -> stamps_le now (nolog l).
Proof. destruct l as [|h r]; [auto|]. cbn [nolog]. destruct (is_login h); [intros H; inversion H; assumption|auto]. Qed.

Definition fresh_login (a : action) : Prop := exists s, a = create_action s PM_LOG_IN None 0 false false false None.
Definition flushed_q (l : list action) : Prop := l = [] \/ exists a, l = [a] /\ fresh_login a.
Lemma fresh_login_props a : fresh_login a -> a_stamp a = None /\ a_hascb a = false /\ is_login a = true.
Proof. intros (s & ->). repeat split. Qed.
(* pings appended by _enqueue_ping *)
Definition pings (new : list action) : Prop :=
  Forall (fun a => a_hascb a = false /\ a_com a = PM_PING /\ a_stamp a = None) new /\ (length new <= 1)%nat.
Lemma pings_nil : pings [].
Proof. split; [constructor|cbn; lia]. Qed.
Lemma pings_nocb new : pings new -> nocb new.
Proof. intros [H _]. eapply Forall_impl; [|exact H]. intros a (E & _). exact E. Qed.
Lemma pings_stamps now new : pings new -> stamps_le now new.
Proof. intros [H _]. eapply Forall_impl; [|exact H]. intros a (_ & _ & E) t Et. congruence. Qed.

Ltac dsimpl := cbn [dv dv_scripts dv_timeout dv_ping_period dv_cstate dv_logged_in dv_has_fd dv_acts dv_last_retry dv_retry_count
                    dv_last_ping dv_succ_conn dv_succ_acts dv_from_size upd_sdev set_conn set_acts set_retry set_last_ping set_stats
                    set_from_size sd_name sd_plugs sd_from sd_to sd_xm sd_xm_used set_from set_to set_xm tl] in *.

Section Deadline.
  Variable rmatch : text -> text -> option pmatch.
  Variable compress : list text -> text.
  Variable sc : bool.

  Notation DInvG := (DInvG compress).
  Notation wf_action := (wf_action compress).

  (* ---------- one iteration of _process_action's loop: what it does to the queue ---------- *)
  (* the head is still the head (same action: stamp now fixed, same client and callback), the rest untouched *)
  Definition kept (now : Z) (act0 : action) (rest l' : list action) : Prop :=
    exists a', l' = a' :: rest /\ a_stamp a' = Some (hstamp now act0) /\ a_hascb a' = a_hascb act0 /\ a_client a' = a_client act0.

  Lemma pa_step_shape now d store tmo plans act0 rest : DInvG d -> tmo_pos tmo -> dv_acts d = act0 :: rest ->
    match pa_step rmatch compress sc now d store tmo plans with
    | Ok (PaDone d' _ _ _ evs) =>
        (now < hstamp now act0 + dv_timeout d /\ kept now act0 rest (dv_acts d') /\ dv_cstate d' = dv_cstate d)   (* stalled *)
        \/ (queued d' = [] /\ flushed_q (dv_acts d'))                                                            (* failed: queue completed *)
    | Ok (PaNext d' _ _ evs) =>
        now < hstamp now act0 + dv_timeout d /\ (kept now act0 rest (dv_acts d') \/ dv_acts d' = rest)
    | Hang _ => True
    | _ => False
    end.
  Proof.
    intros I Hp Ea. unfold pa_step. rewrite Ea.
    pose proof (dg_acts _ d I) as Hw. rewrite Ea in Hw. inversion Hw as [|? ? Hw0 Hwr]; subst.
    destruct (a_exec act0) as [|e0 er] eqn:Eex; [destruct Hw0 as (H & _); congruence|].
    change (match a_stamp act0 with Some t => t | None => now end) with (hstamp now act0).
    set (stamp := hstamp now act0).
    set (act := set_stamp (Some stamp) act0).
    assert (Hwa : wf_action (sd_plugs (dv d)) act) by exact Hw0.
    pose proof (DInvG_QInvG _ d I) as Q.
    assert (Fl : forall d2, (dv_acts d2 = [] \/ exists s, dv_acts d2 = [create_action s PM_LOG_IN None 0 false false false None] /\ dv_cstate d2 = DEV_CONNECTED) ->
                 flushed_q (dv_acts d2)).
    { intros d2 [->|(s & -> & _)]; [left; reflexivity|right]. eexists. split; [reflexivity|]. exists s. reflexivity. }
    destruct (stamp + dv_timeout d <=? now) eqn:El.
    - (* timed out *)
      assert (Hcbt : Forall (cb_of act0) (timeout_tele d act)).
      { unfold timeout_tele. destruct (a_tele act) eqn:Et; constructor; [split; [reflexivity|exact Et]|constructor]. }
      destruct (fail_and_reconnect_invG compress now d act0 (set_err (timeout_err d) act) rest store tmo plans (timeout_tele d act) Q (fun _ => I) (dg_state _ d I) Ea)
        as (d2 & tmo2 & pl & evs & E & I2 & S2 & P2 & L2 & C2 & Q2 & LP2 & CR2 & A2 & _ & LV2); auto.
      + unfold timeout_tele. destruct (a_tele act); reflexivity.
      + unfold timeout_tele. destruct (a_tele act); reflexivity.
      + rewrite E. right. split; [exact Q2|apply Fl; exact A2].
    - apply Z.leb_gt in El.
      destruct (connected d) eqn:Ec; cbn [negb].
      2:{ left. split; [lia|]. split; [|reflexivity]. exists act. repeat split. }
      pose proof (do_while_propsG rmatch compress sc 8 now (dv d) act store [] None Hwa) as Hdw.
      destruct (do_while rmatch compress sc 8 now (dv d) act store [] None) as [[[[[[fin sd'] act'] store'] evs] dt]| | | |]; try contradiction; [|exact Logic.I].
      destruct Hdw as (evs1 & t1 & Eevs & Edt & SP). cbn [app] in Eevs. subst evs1. cbn [min_tmo] in Edt. subst t1.
      destruct SP as [w1 p1 n1 i1 v1 m1 [l1 q1] cb1].
      destruct i1 as (J1 & J2 & J3 & J4 & J5 & J6 & J7).
      set (d1 := upd_sdev (fun _ => sd') d).
      set (tmo1 := match dt with Some v => upd_tmo tmo v | None => tmo end).
      assert (Ht1 : tmo_pos tmo1).
      { unfold tmo1. destruct dt as [v|]; [|exact Hp]. destruct (upd_tmo_props tmo v (m1 v eq_refl) Hp) as (U1 & _). exact U1. }
      assert (Hcs : dv_cstate d = DEV_CONNECTED) by (apply connected_iff; exact Ec).
      assert (Hce : completions evs = []) by (apply completions_script; exact v1).
      assert (Hne : nconn evs = O) by (apply nconn_script; exact v1).
      destruct fin; cbn [negb].
      2:{ left. split; [lia|]. split; [|reflexivity]. exists act'. split; [reflexivity|]. rewrite J6, J3, J2. repeat split. }
      destruct (Z.eqb (a_err act') ACT_ESUCCESS) eqn:Eerr.
      + destruct (advance_props compress _ act' w1) as (A1 & A2 & A3).
        destruct A1 as (K1 & K2 & K3 & K4 & K5 & K6 & K7).
        destruct (a_exec (advance act')) as [|e2 r2] eqn:Eadv.
        * split; [lia|]. right. destruct (Z.eqb (a_com (advance act')) PM_LOG_IN); reflexivity.
        * split; [lia|]. left. exists (advance act'). split; [reflexivity|]. rewrite K6, K3, K2, J6, J3, J2. repeat split.
      + apply Z.eqb_neq in Eerr.
        pose proof (dg_flags _ d I) as Hfl. unfold Flags in Hfl. rewrite Ea in Hfl. inversion Hfl as [|? ? Hfl0 Hflr]; subst.
        assert (Hcfg1 : same_cfg d d1) by (unfold d1; repeat split; dsimpl; auto).
        assert (Q1 : QInvG compress (set_acts (act0 :: rest) d1)).
        { split; [|unfold Flags, d1; cbn [dv_acts set_acts upd_sdev]; constructor; assumption].
          split; [apply (cfg_ok_same compress d d1); [exact Hcfg1|exact (dg_cfg _ d I)]|]. unfold d1. cbn [dv_acts set_acts upd_sdev dv sd_plugs]. rewrite p1.
          split; [constructor; assumption|]. pose proof (dg_tail _ d I) as Ht. pose proof (dg_cb _ d I) as Hcb. rewrite Ea in Ht, Hcb. auto. }
        assert (Ed1 : set_acts (act0 :: rest) d1 = d1) by (unfold d1; destruct d; cbn in Ea |- *; subst; reflexivity).
        rewrite Ed1 in Q1.
        assert (F1 : dv_cstate d1 <> DEV_CONNECTED -> DInvG d1) by (intros Hc; exfalso; apply Hc; exact Hcs).
        assert (F2 : dv_cstate d1 = DEV_NOT_CONNECTED \/ dv_cstate d1 = DEV_CONNECTING \/ dv_cstate d1 = DEV_CONNECTED) by (exact (dg_state _ d I)).
        assert (F3 : dv_acts d1 = act0 :: rest) by (exact Ea).
        assert (F4 : a_hascb act' = a_hascb act0) by (rewrite J3; reflexivity).
        assert (F5 : a_client act' = a_client act0) by (rewrite J2; reflexivity).
        assert (cb1' : Forall (cb_of act0) evs) by (eapply cb_of_stamp; exact cb1).
        destruct (fail_and_reconnect_invG compress now d1 act0 act' rest store' tmo1 plans evs Q1 F1 F2 F3 F4 F5 Hce Hne Ht1 cb1')
          as (d2 & tmo2 & pl & evs2 & E & I2 & S2 & P2 & L2 & C2 & Q2 & LP2 & CR2 & A2 & _ & LV2).
        rewrite E. right. split; [exact Q2|apply Fl; exact A2].
  Qed.

  (* ---------- _process_action's loop ---------- *)
  (* the head carries a stamp and its deadline is still ahead *)
  Definition head_live (now : Z) (d : device) : Prop :=
    exists h r s, dv_acts d = h :: r /\ a_stamp h = Some s /\ now < s + dv_timeout d.

  Lemma process_action_bound : forall fuel now d store tmo plans acc, DInvG d -> tmo_pos tmo -> 0 <= dv_retry_count d -> 0 < dv_timeout d ->
    stamps_le now (dv_acts d) ->
    match process_action rmatch compress sc fuel now d store tmo plans acc with
    | Ok (d', _, _, _, _) =>
        stamps_le now (dv_acts d') /\ (queued d' = [] \/ (head_live now d' /\ bound now d' <= bound now d))
    | Hang _ => True
    | _ => False
    end.
  Proof.
    induction fuel as [|f IH]; intros now d store tmo plans acc I Hp Hrc HT Hs; cbn [process_action]; [exact Logic.I|].
    pose proof (pa_step_invG rmatch compress sc now d store tmo plans I Hp) as HI.
    destruct (dv_acts d) as [|act0 rest] eqn:Ea.
    { unfold pa_step in *. rewrite Ea in *. split; [rewrite Ea; constructor|left; unfold queued; now rewrite Ea]. }
    pose proof (pa_step_shape now d store tmo plans act0 rest I Hp Ea) as HS.
    destruct (pa_step rmatch compress sc now d store tmo plans) as [[d1 st1 tmo1 pl1 e1|d1 st1 tmo1 e1]| | | |]; try contradiction; [| |exact Logic.I].
    - destruct HI as [SP _]. destruct (tg_cfg _ _ _ _ _ _ _ _ _ SP) as (_ & ET & _).
      destruct HS as [(Hlt & (a' & Ea' & Es & Eh & Ec) & _)|(Q & F)].
      + split.
        * rewrite Ea'. inversion Hs; subst. constructor; [|assumption].
          intros t Et. rewrite Es in Et. injection Et as <-. eapply hstamp_le. exact Hs.
        * right. split.
          -- exists a', rest, (hstamp now act0). rewrite ET. auto.
          -- unfold bound. rewrite Ea', Ea, ET. cbn [qbound]. rewrite (span_cons_flag act0 a' rest Eh). unfold hstamp at 1. rewrite Es. lia.
      + split; [|left; exact Q].
        destruct F as [->|(a & -> & Hf)]; constructor; [|constructor]. intros t Et. destruct (fresh_login_props a Hf) as (E & _). congruence.
    - destruct HS as (Hlt & HK).
      pose proof (tg_inv _ _ _ _ _ _ _ _ _ HI) as I1. pose proof (tg_pos _ _ _ _ _ _ _ _ _ HI) as P1.
      pose proof (conn_rel_rc _ _ _ _ (tg_conn _ _ _ _ _ _ _ _ _ HI) Hrc) as Hrc1.
      destruct (tg_cfg _ _ _ _ _ _ _ _ _ HI) as (_ & ET & _).
      assert (Hs1 : stamps_le now (dv_acts d1)).
      { inversion Hs; subst. destruct HK as [(a' & Ea' & Es & _)| ->]; [|assumption]. rewrite Ea'. constructor; [|assumption].
        intros t Et. rewrite Es in Et. injection Et as <-. eapply hstamp_le. exact Hs. }
      specialize (IH now d1 st1 tmo1 plans (acc ++ e1) I1 P1 Hrc1 ltac:(lia) Hs1).
      pose proof (process_action_invG rmatch compress sc f now d1 st1 tmo1 plans (acc ++ e1) I1 P1 Hrc1) as HG.
      destruct (process_action rmatch compress sc f now d1 st1 tmo1 plans (acc ++ e1)) as [[[[[d2 st2] tmo2] pl2] e2]| | | |]; try contradiction; [|exact Logic.I].
      destruct IH as (S2 & HB). split; [exact S2|]. destruct HB as [Q2|(HL & B2)]; [left; exact Q2|].
      destruct HG as (e3 & _ & SP & _). pose proof (tg_fifo _ _ _ _ _ _ _ _ _ SP) as FF.
      destruct HK as [(a' & Ea' & Es & Eh & Ec)|Er].
      + right. split; [exact HL|]. eapply Z.le_trans; [exact B2|].
        unfold bound. rewrite Ea', Ea, ET. cbn [qbound]. rewrite (span_cons_flag act0 a' rest Eh). unfold hstamp at 1. rewrite Es. lia.
      + destruct (span rest) as [|n] eqn:Esp.
        * left. apply span_zero in Esp. rewrite (queued_lqueued d1), Er, Esp in FF. apply app_eq_nil in FF. apply FF.
        * right. split; [exact HL|]. eapply Z.le_trans; [exact B2|].
          unfold bound. rewrite Er, Ea, ET. destruct rest as [|h2 r2]; [discriminate Esp|]. cbn [qbound].
          rewrite (span_cons_pos act0 (h2 :: r2) n Esp), Esp.
          inversion Hs as [|? ? _ Hs']; subst. pose proof (hstamp_le now h2 r2 Hs').
          rewrite (Nat2Z.inj_succ (S n)). lia.
  Qed.

  (* the head is past its deadline when the loop starts: the first iteration completes the whole queue and leaves the loop *)
  Lemma process_action_expired f now d store tmo plans acc act0 rest : DInvG d -> tmo_pos tmo -> dv_acts d = act0 :: rest ->
    hstamp now act0 + dv_timeout d <= now ->
    match process_action rmatch compress sc (S f) now d store tmo plans acc with
    | Ok (d', _, _, _, _) => queued d' = [] /\ flushed_q (dv_acts d')
    | Hang _ => True
    | _ => False
    end.
  Proof.
    intros I Hp Ea Hl. cbn [process_action].
    pose proof (pa_step_shape now d store tmo plans act0 rest I Hp Ea) as HS.
    destruct (pa_step rmatch compress sc now d store tmo plans) as [[d1 st1 tmo1 pl1 e1|d1 st1 tmo1 e1]| | | |]; try contradiction; [| |exact Logic.I].
    - destruct HS as [(Hlt & _)|H]; [lia|exact H].
    - destruct HS as (Hlt & _). lia.
  Qed.

  (* a device that is not connected: the head is stamped, nothing else happens *)
  Lemma process_action_unconnected f now d store tmo plans acc act0 rest : DInvG d -> dv_acts d = act0 :: rest -> connected d = false ->
    now < hstamp now act0 + dv_timeout d ->
    process_action rmatch compress sc (S f) now d store tmo plans acc =
      Ok (set_acts (set_stamp (Some (hstamp now act0)) act0 :: rest) d, store, upd_tmo tmo (hstamp now act0 + dv_timeout d - now), plans, acc ++ []).
  Proof.
    intros I Ea Hc Hl. cbn [process_action]. unfold pa_step. rewrite Ea.
    pose proof (dg_acts _ d I) as Hw. rewrite Ea in Hw. inversion Hw as [|? ? Hw0 Hwr]; subst.
    destruct (a_exec act0) as [|e0 er] eqn:Eex; [destruct Hw0 as (H & _); congruence|].
    change (match a_stamp act0 with Some t => t | None => now end) with (hstamp now act0).
    destruct (hstamp now act0 + dv_timeout d <=? now) eqn:El; [apply Z.leb_le in El; lia|].
    rewrite Hc. reflexivity.
  Qed.

  (* ---------- the part of the pass that runs before _process_action ---------- *)
  Lemma handle_ready_shape d pin io d1 e1 : handle_ready d pin = Ok (io, d1, e1) ->
    dv_acts d1 = dv_acts d \/
    (io = false /\ dv_cstate d = DEV_CONNECTING /\ dv_cstate d1 = DEV_CONNECTED /\ exists Lf, fresh_login Lf /\ dv_acts d1 = Lf :: rw (dv_acts d)).
  Proof.
    unfold handle_ready.
    destruct (Z.eqb (dv_cstate d) DEV_NOT_CONNECTED); [discriminate|].
    destruct (negb (dv_has_fd d)); [discriminate|].
    destruct (pi_hup pin || pi_err pin || pi_nval pin); [intros H; inversion H; subst; left; reflexivity|].
    assert (Rd : forall dx ex, dv_acts dx = dv_acts d ->
              (if pi_in pin then
                 let d1g := set_from_size (after_read_size dx) dx in
                 match pi_read pin with
                 | None | Some [] => Ok (true, d1g, ex)
                 | Some b =>
                     let d2 := upd_sdev (fun s => set_from (lastn (Z.to_nat MAX_DEV_BUF) (sd_from s ++ b)) s) d1g in
                     let d3 := match pi_pre pin with
                               | None => d2
                               | Some (kept, reply) =>
                                   upd_sdev (fun s => set_to (lastn (Z.to_nat MAX_DEV_BUF) (sd_to s ++ reply))
                                                        (set_from (firstn (length (sd_from s) - length b) (sd_from s) ++ kept) s)) d2
                               end in
                     Ok (false, d3, ex ++ [EvRead (length b)])
                 end
               else Ok (false, dx, ex)) = Ok (io, d1, e1) -> dv_acts d1 = dv_acts d).
    { intros dx ex Ex. destruct (pi_in pin); [|intros H; inversion H; subst; exact Ex]. cbv zeta.
      destruct (pi_read pin) as [[|b0 br]|]; [| |]; try (intros H; inversion H; subst; exact Ex).
      destruct (pi_pre pin) as [[kept reply]|]; intros H; inversion H; subst; exact Ex. }
    destruct (pi_out pin).
    - destruct (Z.eqb (dv_cstate d) DEV_CONNECTING) eqn:Ec.
      + apply Z.eqb_eq in Ec. destruct (pi_finish_ok pin).
        * unfold enqueue_login. dsimpl. destruct (assoc_script PM_LOG_IN (dv_scripts d)) as [s|]; [|discriminate].
          cbv beta iota. intros H; inversion H; subst. right. split; [reflexivity|]. split; [exact Ec|]. split; [reflexivity|].
          eexists. split; [exists s; reflexivity|]. reflexivity.
        * cbv beta iota. intros H; inversion H; subst. left; reflexivity.
      + destruct (pi_wrote pin) as [[|n]|]; cbv beta iota; try (intros H; inversion H; subst; left; reflexivity).
        intros H. left. eapply Rd; [|exact H]. reflexivity.
    - cbv beta iota. intros H. left. eapply Rd; [|exact H]. reflexivity.
  Qed.

  Lemma after_disc_nolog d : DInvG d -> after_disc d = nolog (dv_acts d).
  Proof.
    intros I. unfold after_disc, nolog. destruct (Z.eqb (dv_cstate d) DEV_NOT_CONNECTED) eqn:E; [|reflexivity].
    apply Z.eqb_eq in E.
    assert (Hn : Forall (fun a => is_login a = false) (dv_acts d)).
    { apply (no_login_when_unconnectedG compress); [exact I|rewrite E; discriminate]. }
    destruct (dv_acts d) as [|h r]; [reflexivity|]. inversion Hn as [|? ? Hh _]; subst. now rewrite Hh.
  Qed.
  Lemma nolog_unconnected d : DInvG d -> dv_cstate d <> DEV_CONNECTED -> nolog (dv_acts d) = dv_acts d.
  Proof.
    intros I Hc. pose proof (no_login_when_unconnectedG compress d I Hc) as Hn. unfold nolog.
    destruct (dv_acts d) as [|h r]; [reflexivity|]. inversion Hn as [|? ? Hh _]; subst. now rewrite Hh.
  Qed.

  Lemma ping_stage now d2 t2 d3 t3 : DInvG d2 -> tmo_pos t2 -> (if connected d2 then enqueue_ping now d2 t2 else (d2, t2)) = (d3, t3) ->
    exists new, pings new /\ dv_acts d3 = dv_acts d2 ++ new /\ dv_cstate d3 = dv_cstate d2.
  Proof.
    intros I Hp. destruct (connected d2).
    - intros E. destruct (enqueue_ping_invG compress now d2 t2 d3 t3 I Hp E) as (_ & _ & _ & _ & _ & C3 & _ & _ & (new & En & Hn & Hl)).
      exists new. split; [split; assumption|]. auto.
    - intros E; inversion E; subst. exists []. split; [apply pings_nil|]. now rewrite app_nil_r.
  Qed.

  (* what the front part does to the queue *)
  Inductive front_shape (d d3 : device) : Prop :=
  | FKeep new : pings new -> dv_acts d3 = dv_acts d ++ new -> front_shape d d3
  | FDrop L r : dv_acts d = L :: r -> is_login L = true -> dv_acts d3 = r -> dv_cstate d3 <> DEV_CONNECTED -> front_shape d d3
  | FNew Lf new : fresh_login Lf -> pings new -> dv_acts d3 = Lf :: rw (nolog (dv_acts d)) ++ new -> dv_cstate d3 = DEV_CONNECTED -> front_shape d d3.

  Lemma pp_front_shape now d t pin d3 t3 pl e12 : DInvG d -> tmo_pos t ->
    pp_front now d t pin = Ok (d3, t3, pl, e12) -> front_shape d d3.
  Proof.
    intros I Hp. unfold pp_front.
    assert (H0 : exists io d1 e1, (if dv_has_fd d && any_flag pin then handle_ready d pin else Ok (false, d, [])) = Ok (io, d1, e1) /\ DInvG d1 /\
                 (dv_acts d1 = dv_acts d \/
                  (io = false /\ dv_cstate d = DEV_CONNECTING /\ dv_cstate d1 = DEV_CONNECTED /\ exists Lf, fresh_login Lf /\ dv_acts d1 = Lf :: rw (dv_acts d)))).
    { destruct (dv_has_fd d) eqn:Efd; cbn [andb]; [|exists false, d, []; auto].
      destruct (any_flag pin); [|exists false, d, []; auto].
      destruct (handle_ready_invG compress d pin I Efd) as (io & d1 & e1 & E & I1 & _).
      exists io, d1, e1. split; [exact E|]. split; [exact I1|]. eapply handle_ready_shape. exact E. }
    destruct H0 as (io & d1 & e1 & -> & I1 & HS).
    destruct (io || Z.eqb (dv_cstate d1) DEV_NOT_CONNECTED) eqn:Er.
    - assert (Ea1 : dv_acts d1 = dv_acts d).
      { destruct HS as [HS|(-> & _ & Hc & _)]; [exact HS|]. rewrite Hc in Er. discriminate Er. }
      destruct (reconnect_invG compress now d1 t (pi_plans pin) (DInvG_QInvG compress d1 I1) (fun _ => I1) Hp)
        as (d2 & e2 & t2 & pl' & E & I2 & S2 & Q2 & C2 & P2 & L2 & LP2 & A2 & A2' & NC2).
      rewrite E. rewrite (after_disc_nolog d1 I1), Ea1 in A2, A2'.
      destruct (if connected d2 then enqueue_ping now d2 t2 else (d2, t2)) as [d3' t3'] eqn:Epg.
      destruct (ping_stage now d2 t2 d3' t3' I2 P2 Epg) as (new & Hn & En & Ec).
      intros H; inversion H; subst.
      destruct (Z.eq_dec (dv_cstate d2) DEV_CONNECTED) as [Hc|Hc].
      + destruct (A2' Hc) as (s & _ & Ea2). apply (FNew d d3 (create_action s PM_LOG_IN None 0 false false false None) new); [exists s; reflexivity|exact Hn| |congruence].
        rewrite En, Ea2. reflexivity.
      + assert (new = []).
        { apply connected_false_iff in Hc. rewrite Hc in Epg. inversion Epg; subst. rewrite <- (app_nil_r (dv_acts d3)) in En at 1.
          apply app_inv_head in En. auto. }
        subst new. rewrite app_nil_r in En. rewrite (A2 Hc) in En.
        destruct (dv_acts d) as [|h r] eqn:Ea; cbn [nolog] in En.
        * apply (FKeep d d3 []); [apply pings_nil|]. rewrite Ea, En. reflexivity.
        * destruct (is_login h) eqn:Eh.
          -- apply (FDrop d d3 h r); auto. congruence.
          -- apply (FKeep d d3 []); [apply pings_nil|]. rewrite Ea, En, app_nil_r. reflexivity.
    - destruct (if connected d1 then enqueue_ping now d1 t else (d1, t)) as [d3' t3'] eqn:Epg.
      destruct (ping_stage now d1 t d3' t3' I1 Hp Epg) as (new & Hn & En & Ec).
      intros H; inversion H; subst.
      destruct HS as [HS|(_ & Hc & Hc1 & Lf & HLf & Ea1)].
      + apply (FKeep d d3 new); [exact Hn|]. rewrite En, HS. reflexivity.
      + apply (FNew d d3 Lf new); [exact HLf|exact Hn| |congruence].
        rewrite (nolog_unconnected d I) by (rewrite Hc; discriminate). rewrite En, Ea1. reflexivity.
  Qed.

  Lemma fuel_S d : pa_fuel d = S (S (psi d)).
  Proof. reflexivity. Qed.

  Lemma process_action_empty f now d store tmo plans acc : dv_acts d = [] ->
    process_action rmatch compress sc (S f) now d store tmo plans acc = Ok (d, store, tmo, plans, acc ++ []).
  Proof. intros Ea. cbn [process_action]. unfold pa_step. rewrite Ea. reflexivity. Qed.

  Lemma scale_le (a b : nat) T : (a <= b)%nat -> 0 <= T -> Z.of_nat a * T <= Z.of_nat b * T.
  Proof. intros H HT. apply Z.mul_le_mono_nonneg_r; lia. Qed.

  (* the queue handed to _process_action: stamps still in the past, and its bound is at most now + (span + 1) * timeout *)
  Lemma front_bound now d d3 : front_shape d d3 -> dv_timeout d3 = dv_timeout d -> 0 < dv_timeout d -> stamps_le now (dv_acts d) ->
    stamps_le now (dv_acts d3) /\ bound now d3 <= now + (Z.of_nat (span (dv_acts d)) + 1) * dv_timeout d.
  Proof.
    intros FS ET HT Hs. unfold bound. rewrite ET. set (T := dv_timeout d) in *.
    assert (G : forall l, stamps_le now l -> (span l <= S (span (dv_acts d)))%nat -> qbound now T l <= now + (Z.of_nat (span (dv_acts d)) + 1) * T).
    { intros l Hl Hsp. eapply Z.le_trans; [apply qbound_le; [lia|exact Hl]|].
      pose proof (scale_le _ _ T Hsp ltac:(lia)) as H. rewrite Nat2Z.inj_succ in H. lia. }
    destruct FS as [new Hn Ea3|L r Ea El Ea3 Hc|Lf new HLf Hn Ea3 Hc].
    - assert (S3 : stamps_le now (dv_acts d3)) by (rewrite Ea3; apply Forall_app; split; [exact Hs|now apply pings_stamps]).
      split; [exact S3|]. apply G; [exact S3|]. rewrite Ea3, (span_app_nocb _ _ (pings_nocb _ Hn)). lia.
    - assert (S3 : stamps_le now (dv_acts d3)) by (rewrite Ea3; rewrite Ea in Hs; inversion Hs; assumption).
      split; [exact S3|]. apply G; [exact S3|]. rewrite Ea3, Ea. pose proof (span_cons_le L r). lia.
    - assert (S3 : stamps_le now (dv_acts d3)).
      { rewrite Ea3. constructor; [intros t Et; destruct (fresh_login_props Lf HLf) as (E & _); congruence|].
        apply Forall_app. split; [apply stamps_le_rw, stamps_le_nolog; exact Hs|now apply pings_stamps]. }
      split; [exact S3|]. apply G; [exact S3|]. rewrite Ea3.
      pose proof (span_cons_le Lf (rw (nolog (dv_acts d)) ++ new)) as H1.
      rewrite (span_app_nocb _ _ (pings_nocb _ Hn)), span_rw in H1. pose proof (span_nolog (dv_acts d)). lia.
  Qed.

  (* the front part kept the queue: no disconnect dropped a login, no connection was established *)
  Definition steady (now : Z) (d : device) (t : option Z) (pin : passin) : Prop :=
    exists d3 t3 pl e12 new, pp_front now d t pin = Ok (d3, t3, pl, e12) /\ pings new /\ dv_acts d3 = dv_acts d ++ new.

  (* ---------- (D2) one pass: the bound ---------- *)
  Theorem pass_bound now d store tmo pin : DInvG d -> tmo_pos tmo -> 0 <= dv_retry_count d -> 0 < dv_timeout d ->
    stamps_le now (dv_acts d) ->
    match post_poll_one rmatch compress sc now d store tmo pin with
    | Ok (d', _, _, evs) =>
        stamps_le now (dv_acts d') /\
        completions evs ++ queued d' = queued d /\
        (queued d' = [] \/
         (head_live now d' /\
          bound now d' <= now + (Z.of_nat (span (dv_acts d)) + 1) * dv_timeout d /\
          (steady now d tmo pin -> bound now d' <= bound now d /\ now < bound now d)))
    | Hang _ => True
    | _ => False
    end.
  Proof.
    intros I Hp Hrc HT Hs.
    pose proof (post_poll_one_inv_pre rmatch compress sc now d store tmo pin I Hp Hrc) as HG.
    rewrite pp_split in *.
    destruct (pp_front_inv compress now d tmo pin I Hp Hrc) as (d3 & t3 & pl & e12 & E & I3 & S3 & P3 & R3).
    rewrite E in *. pose proof (pp_front_shape now d tmo pin d3 t3 pl e12 I Hp E) as FS.
    destruct S3 as (_ & ET & _).
    destruct (front_bound now d d3 FS ET HT Hs) as (Hs3 & B3).
    pose proof (process_action_bound (pa_fuel d3) now d3 store t3 pl e12 I3 P3 R3 ltac:(lia) Hs3) as HB.
    assert (HX : forall act0 rest, dv_acts d3 = act0 :: rest -> hstamp now act0 + dv_timeout d3 <= now ->
                 match process_action rmatch compress sc (pa_fuel d3) now d3 store t3 pl e12 with
                 | Ok (d', _, _, _, _) => queued d' = [] /\ flushed_q (dv_acts d') | Hang _ => True | _ => False end).
    { intros act0 rest Ea Hl. rewrite fuel_S. eapply process_action_expired; eauto. }
    destruct (process_action rmatch compress sc (pa_fuel d3) now d3 store t3 pl e12) as [[[[[d4 st4] t4] pl4] e4]| | | |]; try contradiction; [|exact Logic.I].
    destruct HG as [SP _]. destruct HB as (S4 & HB). split; [exact S4|].
    pose proof (tg_fifo _ _ _ _ _ _ _ _ _ SP) as FF. split; [exact FF|].
    destruct (queued d4) as [|c0 cs] eqn:Q4; [left; reflexivity|right].
    destruct HB as [Q|(HL & B4)]; [discriminate Q|]. split; [exact HL|]. split; [lia|].
    intros (d3' & t3' & pl' & e12' & new & E' & Hn & Ea3). rewrite E in E'. injection E' as <- <- <- <-.
    destruct (dv_acts d) as [|act0 rest] eqn:Ea.
    { exfalso. rewrite (queued_lqueued d), Ea in FF. cbn [lqueued filter map] in FF. apply app_eq_nil in FF. destruct FF as [_ FF]. discriminate FF. }
    assert (Eb : bound now d3 = bound now d).
    { unfold bound. rewrite ET, Ea3, Ea. cbn [app qbound]. change (act0 :: rest ++ new) with ((act0 :: rest) ++ new).
      rewrite (span_app_nocb _ _ (pings_nocb _ Hn)). reflexivity. }
    split; [lia|].
    assert (Hlive : now < hstamp now act0 + dv_timeout d).
    { destruct (Z_lt_le_dec now (hstamp now act0 + dv_timeout d)) as [H|H]; [exact H|exfalso].
      rewrite Ea3 in HX. cbn [app] in HX. rewrite ET in HX. destruct (HX act0 (rest ++ new) eq_refl H) as [Q _]. discriminate Q. }
    unfold bound. rewrite Ea. cbn [qbound].
    destruct (span (act0 :: rest)) as [|n] eqn:Esp.
    { exfalso. apply span_zero in Esp. rewrite (queued_lqueued d), Ea, Esp in FF. apply app_eq_nil in FF. destruct FF as [_ FF]. discriminate FF. }
    rewrite Nat2Z.inj_succ. pose proof (Zle_0_nat n). nia.
  Qed.

  Lemma handle_ready_shape2 d pin io d1 e1 : handle_ready d pin = Ok (io, d1, e1) ->
    (dv_acts d1 = dv_acts d /\ (dv_cstate d1 = DEV_CONNECTED -> dv_cstate d = DEV_CONNECTED)) \/
    (io = false /\ dv_cstate d = DEV_CONNECTING /\ pi_finish_ok pin = true /\ pi_out pin = true).
  Proof.
    unfold handle_ready.
    destruct (Z.eqb (dv_cstate d) DEV_NOT_CONNECTED); [discriminate|].
    destruct (negb (dv_has_fd d)); [discriminate|].
    destruct (pi_hup pin || pi_err pin || pi_nval pin); [intros H; inversion H; subst; left; auto|].
    assert (Rd : forall dx ex, dv_acts dx = dv_acts d -> dv_cstate dx = dv_cstate d ->
              (if pi_in pin then
                 let d1g := set_from_size (after_read_size dx) dx in
                 match pi_read pin with
                 | None | Some [] => Ok (true, d1g, ex)
                 | Some b =>
                     let d2 := upd_sdev (fun s => set_from (lastn (Z.to_nat MAX_DEV_BUF) (sd_from s ++ b)) s) d1g in
                     let d3 := match pi_pre pin with
                               | None => d2
                               | Some (kept, reply) =>
                                   upd_sdev (fun s => set_to (lastn (Z.to_nat MAX_DEV_BUF) (sd_to s ++ reply))
                                                        (set_from (firstn (length (sd_from s) - length b) (sd_from s) ++ kept) s)) d2
                               end in
                     Ok (false, d3, ex ++ [EvRead (length b)])
                 end
               else Ok (false, dx, ex)) = Ok (io, d1, e1) -> dv_acts d1 = dv_acts d /\ dv_cstate d1 = dv_cstate d).
    { intros dx ex Ex Ec. destruct (pi_in pin); [|intros H; inversion H; subst; auto]. cbv zeta.
      destruct (pi_read pin) as [[|b0 br]|]; [| |]; try solve [intros H; inversion H; subst; auto].
      destruct (pi_pre pin) as [[kept reply]|]; intros H; inversion H; subst; auto. }
    destruct (pi_out pin).
    - destruct (Z.eqb (dv_cstate d) DEV_CONNECTING) eqn:Ec.
      + apply Z.eqb_eq in Ec. destruct (pi_finish_ok pin).
        * unfold enqueue_login. dsimpl. destruct (assoc_script PM_LOG_IN (dv_scripts d)) as [s|]; [|discriminate].
          cbv beta iota. intros H; inversion H; subst. right. auto.
        * cbv beta iota. intros H; inversion H; subst. left. split; [reflexivity|]. dsimpl. discriminate.
      + destruct (pi_wrote pin) as [[|n]|]; cbv beta iota; try solve [intros H; inversion H; subst; left; auto].
        intros H. left. apply Rd in H; [|reflexivity|reflexivity]. destruct H as [A B]. split; [exact A|]. rewrite B. auto.
    - cbv beta iota. intros H. left. apply Rd in H; [|reflexivity|reflexivity]. destruct H as [A B]. split; [exact A|]. rewrite B. auto.
  Qed.

  (* the front part ends with the device connected: it kept the queue, or a connection completed in this pass *)
  Lemma pp_front_connected now d t pin d3 t3 pl e12 : DInvG d -> tmo_pos t ->
    pp_front now d t pin = Ok (d3, t3, pl, e12) -> dv_cstate d3 = DEV_CONNECTED ->
    (exists new, pings new /\ dv_acts d3 = dv_acts d ++ new) \/
    (dv_cstate d = DEV_CONNECTING /\ pi_finish_ok pin = true /\ pi_out pin = true) \/
    hd ConnFail (pi_plans pin) = ConnNow.
  Proof.
    intros I Hp. unfold pp_front.
    assert (H0 : exists io d1 e1, (if dv_has_fd d && any_flag pin then handle_ready d pin else Ok (false, d, [])) = Ok (io, d1, e1) /\ DInvG d1 /\
                 ((dv_acts d1 = dv_acts d /\ (dv_cstate d1 = DEV_CONNECTED -> dv_cstate d = DEV_CONNECTED)) \/
                  (io = false /\ dv_cstate d = DEV_CONNECTING /\ pi_finish_ok pin = true /\ pi_out pin = true))).
    { destruct (dv_has_fd d) eqn:Efd; cbn [andb]; [|exists false, d, []; auto].
      destruct (any_flag pin); [|exists false, d, []; auto].
      destruct (handle_ready_invG compress d pin I Efd) as (io & d1 & e1 & E & I1 & _).
      exists io, d1, e1. split; [exact E|]. split; [exact I1|]. eapply handle_ready_shape2. exact E. }
    destruct H0 as (io & d1 & e1 & -> & I1 & HS).
    destruct (io || Z.eqb (dv_cstate d1) DEV_NOT_CONNECTED) eqn:Er.
    - (* reconnect: connected afterwards only if connect() answered at once *)
      destruct (reconnect_invG compress now d1 t (pi_plans pin) (DInvG_QInvG compress d1 I1) (fun _ => I1) Hp)
        as (d2 & e2 & t2 & pl' & E & I2 & S2 & Q2 & C2 & P2 & _).
      rewrite E.
      destruct (if connected d2 then enqueue_ping now d2 t2 else (d2, t2)) as [d3' t3'] eqn:Epg.
      destruct (ping_stage now d2 t2 d3' t3' I2 P2 Epg) as (new & Hn & En & Ec).
      intros H; inversion H; subst. intros Hc3. right. right. rewrite Ec in Hc3.
      unfold reconnect in E.
      destruct (if Z.eqb (dv_cstate d1) DEV_NOT_CONNECTED then (d1, []) else disconnect d1) as [dd ed] eqn:Ed.
      assert (Hdd : DInvG dd /\ dv_cstate dd = DEV_NOT_CONNECTED).
      { destruct (Z.eqb (dv_cstate d1) DEV_NOT_CONNECTED) eqn:E0.
        - inversion Ed; subst. split; [exact I1|apply Z.eqb_eq; exact E0].
        - destruct (disconnect_invG compress d1 dd ed (DInvG_QInvG compress d1 I1) Ed) as (A1 & _ & A3 & _). auto. }
      destruct Hdd as [Idd Cdd].
      destruct (time_to_reconnect now dd t) as [go tm]. destruct go.
      + destruct (connect_invG compress now dd (pi_plans pin) Idd Cdd) as (d2' & pl2 & Ecn & _ & _ & _ & _ & _ & _ & _ & Hiff & _).
        rewrite Ecn in E. injection E as <- _ _ _. apply Hiff. exact Hc3.
      + injection E as <- _ _ _. rewrite Cdd in Hc3. discriminate Hc3.
    - destruct (if connected d1 then enqueue_ping now d1 t else (d1, t)) as [d3' t3'] eqn:Epg.
      destruct (ping_stage now d1 t d3' t3' I1 Hp Epg) as (new & Hn & En & Ec).
      intros H; inversion H; subst. intros Hc3.
      destruct HS as [[HS _]|(_ & HS)]; [left|right; left; exact HS].
      exists new. split; [exact Hn|]. rewrite En, HS. reflexivity.
  Qed.


  (* ---------- (D1) one pass that starts with the head past its deadline ---------- *)
  (* the iteration of _process_action's loop that finds the head past its deadline cannot hang: it completes the whole queue *)
  Lemma pa_step_expired now d store tmo plans act0 rest : DInvG d -> tmo_pos tmo -> dv_acts d = act0 :: rest ->
    hstamp now act0 + dv_timeout d <= now ->
    exists d2 tmo2 pl evs, pa_step rmatch compress sc now d store tmo plans = Ok (PaDone d2 store tmo2 pl evs) /\
      completions evs = queued d /\ queued d2 = [] /\ flushed_q (dv_acts d2).
  Proof.
    intros I Hp Ea Hl. unfold pa_step. rewrite Ea.
    pose proof (dg_acts _ d I) as Hw. rewrite Ea in Hw. inversion Hw as [|? ? Hw0 Hwr]; subst.
    destruct (a_exec act0) as [|e0 er] eqn:Eex; [destruct Hw0 as (H & _); congruence|].
    change (match a_stamp act0 with Some t => t | None => now end) with (hstamp now act0).
    destruct (hstamp now act0 + dv_timeout d <=? now) eqn:El; [|apply Z.leb_gt in El; lia].
    set (act := set_stamp (Some (hstamp now act0)) act0).
    assert (Hcbt : Forall (cb_of act0) (timeout_tele d act)).
    { unfold timeout_tele. destruct (a_tele act) eqn:Et; constructor; [split; [reflexivity|exact Et]|constructor]. }
    destruct (fail_and_reconnect_invG compress now d act0 (set_err (timeout_err d) act) rest store tmo plans (timeout_tele d act)
                (DInvG_QInvG _ d I) (fun _ => I) (dg_state _ d I) Ea)
      as (d2 & tmo2 & pl & evs & E & I2 & S2 & P2 & L2 & C2 & Q2 & LP2 & CR2 & A2 & _ & LV2); auto.
    - unfold timeout_tele. destruct (a_tele act); reflexivity.
    - unfold timeout_tele. destruct (a_tele act); reflexivity.
    - exists d2, tmo2, pl, evs. split; [exact E|]. split; [exact C2|]. split; [exact Q2|].
      destruct A2 as [->|(s & -> & _)]; [left; reflexivity|right]. eexists. split; [reflexivity|]. exists s. reflexivity.
  Qed.
  Lemma process_action_expired_ok f now d store tmo plans acc act0 rest : DInvG d -> tmo_pos tmo -> dv_acts d = act0 :: rest ->
    hstamp now act0 + dv_timeout d <= now ->
    exists d2 tmo2 pl evs, process_action rmatch compress sc (S f) now d store tmo plans acc = Ok (d2, store, tmo2, pl, acc ++ evs) /\
      completions evs = queued d /\ queued d2 = [] /\ flushed_q (dv_acts d2).
  Proof.
    intros I Hp Ea Hl. cbn [process_action].
    destruct (pa_step_expired now d store tmo plans act0 rest I Hp Ea Hl) as (d2 & tmo2 & pl & evs & E & H). rewrite E. eauto 8.
  Qed.

  (* what "completed in this pass" means *)
  Definition flushes (now : Z) (d : device) (store : list arglist) (tmo : option Z) (pin : passin) : Prop :=
    exists d' st' tmo' evs, post_poll_one rmatch compress sc now d store tmo pin = Ok (d', st', tmo', evs) /\
      completions evs = queued d /\ queued d' = [] /\ flushed_q (dv_acts d').

  Lemma flush_front now d store tmo pin d3 t3 pl e12 a r : DInvG d -> tmo_pos tmo -> 0 <= dv_retry_count d ->
    pp_front now d tmo pin = Ok (d3, t3, pl, e12) -> dv_acts d3 = a :: r -> hstamp now a + dv_timeout d <= now ->
    flushes now d store tmo pin.
  Proof.
    intros I Hp Hrc E Ea3 Hl.
    pose proof (post_poll_one_inv_pre rmatch compress sc now d store tmo pin I Hp Hrc) as HG.
    destruct (pp_front_inv compress now d tmo pin I Hp Hrc) as (d3' & t3' & pl' & e12' & E' & I3 & S3 & P3 & R3).
    rewrite E in E'. injection E' as <- <- <- <-. destruct S3 as (_ & ET & _).
    destruct (process_action_expired_ok (S (psi d3)) now d3 store t3 pl e12 a r I3 P3 Ea3 ltac:(rewrite ET; exact Hl)) as (d4 & t4 & pl4 & e4 & EPA & _ & Q & F).
    rewrite <- fuel_S in EPA. unfold flushes. rewrite pp_split in *. rewrite E, EPA in *.
    destruct HG as [SP _]. pose proof (tg_fifo _ _ _ _ _ _ _ _ _ SP) as FF. rewrite Q, app_nil_r in FF.
    eexists _, _, _, _. split; [reflexivity|]. auto.
  Qed.

  Theorem deadline_pass now d store tmo pin act0 rest : DInvG d -> tmo_pos tmo -> 0 <= dv_retry_count d ->
    dv_acts d = act0 :: rest -> hstamp now act0 + dv_timeout d <= now ->
    (* the pass returns, every client action queued on the device is completed in it, in queue order, and the queue is empty
       (or holds only the login of a connection that came back after the failure) *)
    flushes now d store tmo pin
    \/
    (* the pass returns; the head was a login in progress and a disconnect dropped it, no connection came back in this pass: the
       action behind it is now the head of a device that is not connected, stamped, its own deadline still ahead; nothing completed *)
    (exists d' st' tmo' evs, post_poll_one rmatch compress sc now d store tmo pin = Ok (d', st', tmo', evs) /\
       is_login act0 = true /\ dv_cstate d' <> DEV_CONNECTED /\ completions evs = [] /\ queued d' = queued d /\
       exists a1 r1, rest = a1 :: r1 /\ now < hstamp now a1 + dv_timeout d /\ kept now a1 r1 (dv_acts d'))
    \/
    (* a connection was established in this pass before _process_action ran (a pending connect completed, or connect()
       succeeded at once): a FRESH login (no stamp: its deadline is now + timeout) is in front of what was queued; this is the
       only case in which the pass may run out of loop fuel *)
    (exists d3 t3 pl e12 Lf new, pp_front now d tmo pin = Ok (d3, t3, pl, e12) /\ dv_cstate d3 = DEV_CONNECTED /\
       fresh_login Lf /\ pings new /\ dv_acts d3 = Lf :: rw (nolog (act0 :: rest)) ++ new /\
       ((dv_cstate d = DEV_CONNECTING /\ pi_finish_ok pin = true /\ pi_out pin = true) \/ hd ConnFail (pi_plans pin) = ConnNow) /\
       match post_poll_one rmatch compress sc now d store tmo pin with
       | Ok (d', _, _, evs) => completions evs ++ queued d' = queued d
       | Hang _ => True
       | _ => False
       end).
  Proof.
    intros I Hp Hrc Ea Hl.
    pose proof (post_poll_one_inv_pre rmatch compress sc now d store tmo pin I Hp Hrc) as HG.
    destruct (pp_front_inv compress now d tmo pin I Hp Hrc) as (d3 & t3 & pl & e12 & E & I3 & S3 & P3 & R3).
    pose proof (pp_front_shape now d tmo pin d3 t3 pl e12 I Hp E) as FS.
    destruct S3 as (_ & ET & _).
    destruct FS as [new Hn Ea3|L r EaL El Ea3 Hc|Lf new HLf Hn Ea3 Hc].
    - left. rewrite Ea in Ea3. cbn [app] in Ea3. eapply flush_front; eassumption.
    - rewrite Ea in EaL. injection EaL as <- <-.
      destruct rest as [|a1 r1].
      + left. rewrite pp_split in *. rewrite E in *. rewrite fuel_S, (process_action_empty _ _ _ _ _ _ _ Ea3) in *.
        destruct HG as [SP _]. pose proof (tg_fifo _ _ _ _ _ _ _ _ _ SP) as FF.
        assert (Q : queued d3 = []) by (unfold queued; now rewrite Ea3). rewrite Q, app_nil_r in FF.
        unfold flushes. rewrite pp_split, E, fuel_S, (process_action_empty _ _ _ _ _ _ _ Ea3).
        eexists _, _, _, _. split; [reflexivity|]. split; [exact FF|]. split; [exact Q|left; exact Ea3].
      + destruct (Z_lt_le_dec now (hstamp now a1 + dv_timeout d)) as [H|H]; [|left; eapply flush_front; eassumption].
        right. left.
        assert (Hcf : connected d3 = false) by (apply connected_false_iff; exact Hc).
        rewrite pp_split in *. rewrite E in *.
        rewrite fuel_S, (process_action_unconnected _ _ _ _ _ _ _ _ _ I3 Ea3 Hcf ltac:(rewrite ET; exact H)) in *.
        destruct HG as [SP _]. pose proof (tg_fifo _ _ _ _ _ _ _ _ _ SP) as FF.
        assert (Hcb : a_hascb act0 = false).
        { pose proof (dg_cb _ d I) as Hcb. rewrite Ea in Hcb. inversion Hcb as [|? ? Hh _]; subst.
          destruct (a_hascb act0); [|reflexivity]. rewrite (Hh eq_refl) in El. discriminate El. }
        assert (Hq : queued (set_acts (set_stamp (Some (hstamp now a1)) a1 :: r1) d3) = queued d).
        { unfold queued. dsimpl. rewrite Ea. cbn [filter]. rewrite Hcb. cbn [a_hascb set_stamp]. destruct (a_hascb a1); reflexivity. }
        eexists _, _, _, _. split; [reflexivity|].
        split; [exact El|]. split; [exact Hc|]. split.
        * rewrite Hq in FF. rewrite <- (app_nil_l (queued d)) in FF at 2. apply app_inv_tail in FF. exact FF.
        * split; [exact Hq|]. exists a1, r1. split; [reflexivity|]. split; [exact H|].
          exists (set_stamp (Some (hstamp now a1)) a1). repeat split.
    - destruct (pp_front_connected now d tmo pin d3 t3 pl e12 I Hp E Hc) as [(new' & Hn' & Ea')|Hcause].
      + left. rewrite Ea in Ea'. cbn [app] in Ea'. eapply flush_front; eassumption.
      + right. right. exists d3, t3, pl, e12, Lf, new. rewrite <- Ea. split; [exact E|]. split; [exact Hc|]. split; [exact HLf|]. split; [exact Hn|].
        split; [exact Ea3|]. split; [exact Hcause|].
        destruct (post_poll_one rmatch compress sc now d store tmo pin) as [[[[d4 st4] t4] e4]| | | |]; try contradiction; [|exact Logic.I].
        destruct HG as [SP _]. exact (tg_fifo _ _ _ _ _ _ _ _ _ SP).
  Qed.

  (* a steady pass that starts with the head past its deadline returns (it cannot run out of fuel) and completes everything *)
  Corollary deadline_pass_steady now d store tmo pin act0 rest : DInvG d -> tmo_pos tmo -> 0 <= dv_retry_count d ->
    dv_acts d = act0 :: rest -> hstamp now act0 + dv_timeout d <= now -> steady now d tmo pin ->
    flushes now d store tmo pin.
  Proof.
    intros I Hp Hrc Ea Hl (d3 & t3 & pl & e12 & new & E & Hn & Ea3).
    rewrite Ea in Ea3. cbn [app] in Ea3. eapply flush_front; eassumption.
  Qed.

  (* ---------- (D2) any number of passes ----------
     post_poll_one iterated on ONE device.  Each pass has its own clock, transport answers, incoming time-out and store
     (the store is shared with the other devices and the clients, which may change it between two passes of this device:
     it is an arbitrary input of every pass).  Nothing is appended to the queue between the passes. *)
  Record pass : Type := mkPass { p_now : Z; p_store : list arglist; p_tmo : option Z; p_pin : passin }.
  Fixpoint passes (ps : list pass) (d : device) : outcome (device * list ev) :=
    match ps with
    | [] => Ok (d, [])
    | p :: r =>
      match post_poll_one rmatch compress sc (p_now p) d (p_store p) (p_tmo p) (p_pin p) with
      | Ok (d1, _, _, e1) =>
        match passes r d1 with
        | Ok (d2, e2) => Ok (d2, e1 ++ e2)
        | Exit c s => Exit c s | Abort s => Abort s | MemErr s => MemErr s | Hang s => Hang s
        end
      | Exit c s => Exit c s | Abort s => Abort s | MemErr s => MemErr s | Hang s => Hang s
      end
    end.
  (* clocks never go back (t = the clock before the first pass) *)
  Fixpoint clocks_from (t : Z) (ps : list pass) : Prop :=
    match ps with [] => True | p :: r => t <= p_now p /\ clocks_from (p_now p) r end.
  Fixpoint last_clock (t : Z) (ps : list pass) : Z := match ps with [] => t | p :: r => last_clock (p_now p) r end.
  (* every pass of the run keeps the queue in its front part *)
  Fixpoint steady_run (ps : list pass) (d : device) : Prop :=
    match ps with
    | [] => True
    | p :: r => steady (p_now p) d (p_tmo p) (p_pin p) /\
                forall d1 st1 t1 e1, post_poll_one rmatch compress sc (p_now p) d (p_store p) (p_tmo p) (p_pin p) = Ok (d1, st1, t1, e1) -> steady_run r d1
    end.

  Lemma bound_stamped now now' d : head_live now d -> bound now' d = bound now d.
  Proof. intros (h & r & s & Ea & Es & _). unfold bound. rewrite Ea. cbn [qbound]. now rewrite (hstamp_stamped now' now h s Es). Qed.
  Lemma head_live_later now now' d : head_live now' d -> now <= now' -> head_live now d.
  Proof. intros (h & r & s & Ea & Es & Hl) H. exists h, r, s. repeat split; auto. lia. Qed.

  Theorem deadline_run : forall ps d t0 d' evs,
    DInvG d -> 0 <= dv_retry_count d -> 0 < dv_timeout d -> stamps_le t0 (dv_acts d) ->
    clocks_from t0 ps -> Forall (fun p => tmo_pos (p_tmo p)) ps -> steady_run ps d ->
    passes ps d = Ok (d', evs) ->
    DInvG d' /\ 0 <= dv_retry_count d' /\ dv_timeout d' = dv_timeout d /\ stamps_le (last_clock t0 ps) (dv_acts d') /\
    completions evs ++ queued d' = queued d /\
    match ps with
    | [] => True
    | p :: _ => queued d' = [] \/
                (head_live (last_clock t0 ps) d' /\ bound (last_clock t0 ps) d' <= bound (p_now p) d /\ last_clock t0 ps < bound (p_now p) d)
    end.
  Proof.
    induction ps as [|p r IH]; intros d t0 d' evs I Hrc HT Hs Hc Hp Hst; cbn [passes].
    - intros H; inversion H; subst. cbn [last_clock]. split; [exact I|]. split; [exact Hrc|]. split; [reflexivity|]. split; [exact Hs|]. split; [reflexivity|exact Logic.I].
    - destruct Hc as [Hc0 Hc]. inversion Hp as [|? ? Hp0 Hpr]; subst. destruct Hst as [Hst0 Hst].
      pose proof (stamps_le_mono t0 (p_now p) _ Hc0 Hs) as Hs0.
      pose proof (pass_bound (p_now p) d (p_store p) (p_tmo p) (p_pin p) I Hp0 Hrc HT Hs0) as HB.
      pose proof (post_poll_one_inv_pre rmatch compress sc (p_now p) d (p_store p) (p_tmo p) (p_pin p) I Hp0 Hrc) as HG.
      destruct (post_poll_one rmatch compress sc (p_now p) d (p_store p) (p_tmo p) (p_pin p)) as [[[[d1 st1] t1] e1]| | | |] eqn:E1; try discriminate.
      destruct HG as [SP _]. pose proof (tg_inv _ _ _ _ _ _ _ _ _ SP) as I1.
      pose proof (conn_rel_rc _ _ _ _ (tg_conn _ _ _ _ _ _ _ _ _ SP) Hrc) as Hrc1.
      destruct (tg_cfg _ _ _ _ _ _ _ _ _ SP) as (_ & ET & _).
      destruct HB as (Hs1 & FF1 & HB).
      specialize (Hst d1 st1 t1 e1 eq_refl).
      specialize (IH d1 (p_now p)).
      destruct (passes r d1) as [[d2 e2]| | | |] eqn:E2; try discriminate.
      intros H; inversion H; subst d2 evs.
      destruct (IH d' e2 I1 Hrc1 ltac:(lia) Hs1 Hc Hpr Hst eq_refl) as (I2 & Hrc2 & ET2 & Hs2 & FF2 & HB2).
      cbn [last_clock]. split; [exact I2|]. split; [exact Hrc2|]. split; [congruence|]. split; [exact Hs2|].
      split; [rewrite completions_app, <- app_assoc, FF2; exact FF1|].
      destruct r as [|p2 r'].
      + cbn [passes] in E2. inversion E2; subst. cbn [last_clock].
        destruct HB as [Q|(HL & _ & HS)]; [left; exact Q|right]. destruct (HS Hst0) as [B1 B2]. auto.
      + destruct HB2 as [Q|(HL2 & B2 & L2)]; [left; exact Q|].
        destruct HB as [Q|(HL & _ & HS)].
        * left. rewrite Q in FF2. apply app_eq_nil in FF2. apply FF2.
        * right. destruct (HS Hst0) as [B1 L1]. rewrite (bound_stamped (p_now p) (p_now p2) d1 HL) in B2, L2.
          split; [exact HL2|]. split; lia.
  Qed.

  (* the bound is met: a steady run whose last clock has reached the bound (taken at the first pass) has completed
     every client action that was queued at the start, in queue order, and nothing else *)
  Corollary deadline_reached p r d t0 d' evs :
    DInvG d -> 0 <= dv_retry_count d -> 0 < dv_timeout d -> stamps_le t0 (dv_acts d) ->
    clocks_from t0 (p :: r) -> Forall (fun p => tmo_pos (p_tmo p)) (p :: r) -> steady_run (p :: r) d ->
    passes (p :: r) d = Ok (d', evs) ->
    bound (p_now p) d <= last_clock t0 (p :: r) ->
    completions evs = queued d /\ queued d' = [].
  Proof.
    intros I Hrc HT Hs Hc Hp Hst E Hb.
    destruct (deadline_run (p :: r) d t0 d' evs I Hrc HT Hs Hc Hp Hst E) as (_ & _ & _ & _ & FF & [Q|(_ & _ & L)]); [|lia].
    rewrite Q, app_nil_r in FF. auto.
  Qed.

  (* ... and whatever the passes before did (connections lost, established, refused): after ANY pass at clock `now` the bound
     of what is still queued is at most now + (span + 1) * timeout; so a steady run that follows completes everything by then *)
  Corollary bound_after_any_pass now d store tmo pin d' st' tmo' evs : DInvG d -> tmo_pos tmo -> 0 <= dv_retry_count d -> 0 < dv_timeout d ->
    stamps_le now (dv_acts d) ->
    post_poll_one rmatch compress sc now d store tmo pin = Ok (d', st', tmo', evs) ->
    DInvG d' /\ 0 <= dv_retry_count d' /\ dv_timeout d' = dv_timeout d /\ stamps_le now (dv_acts d') /\
    (queued d' = [] \/ forall now', bound now' d' <= now + (Z.of_nat (span (dv_acts d)) + 1) * dv_timeout d).
  Proof.
    intros I Hp Hrc HT Hs E.
    pose proof (pass_bound now d store tmo pin I Hp Hrc HT Hs) as HB.
    pose proof (post_poll_one_inv_pre rmatch compress sc now d store tmo pin I Hp Hrc) as HG.
    rewrite E in *. destruct HG as [SP _]. destruct HB as (Hs1 & _ & HB).
    split; [exact (tg_inv _ _ _ _ _ _ _ _ _ SP)|]. split; [exact (conn_rel_rc _ _ _ _ (tg_conn _ _ _ _ _ _ _ _ _ SP) Hrc)|].
    split; [exact (proj1 (proj2 (tg_cfg _ _ _ _ _ _ _ _ _ SP)))|]. split; [exact Hs1|].
    destruct HB as [Q|(HL & B & _)]; [left; exact Q|right]. intros now'. rewrite (bound_stamped now now' d' HL). exact B.
  Qed.
End Deadline.

(* ---------- when is a pass steady?  Sufficient conditions on what the descriptor and the transport report ---------- *)
(* no descriptor event, or a connected device whose descriptor reports no error: whatever is written is accepted (at least
   one byte), whatever is read is data (at least one byte: garbage, half a line, anything) *)
Definition quiet_io (d : device) (pin : passin) : bool :=
  negb (dv_has_fd d && any_flag pin) ||
  (connected d && negb (pi_hup pin || pi_err pin || pi_nval pin)
   && (negb (pi_out pin) || match pi_wrote pin with Some (S _) => true | _ => false end)
   && (negb (pi_in pin) || match pi_read pin with Some (_ :: _) => true | _ => false end)).

Section Steady.
  Variable compress : list text -> text.
  Notation DInvG := (DInvG compress).

  (* a pass is steady unless a login is in progress (a disconnect would drop it), a pending connect completes, or connect()
     succeeds at once.  In particular: a device that is NOT connected and whose connect() is refused or still pending, and a
     logged-in device whose connection is lost while connect() does not succeed at once, are steady *)
  Theorem steady_or now d t pin : DInvG d -> tmo_pos t -> 0 <= dv_retry_count d ->
    steady now d t pin \/
    (exists L r, dv_acts d = L :: r /\ is_login L = true) \/
    (dv_cstate d = DEV_CONNECTING /\ pi_finish_ok pin = true /\ pi_out pin = true) \/
    hd ConnFail (pi_plans pin) = ConnNow.
  Proof.
    intros I Hp Hrc.
    destruct (pp_front_inv compress now d t pin I Hp Hrc) as (d3 & t3 & pl & e12 & E & _).
    destruct (pp_front_shape compress now d t pin d3 t3 pl e12 I Hp E) as [new Hn Ea3|L r Ea El Ea3 Hc|Lf new HLf Hn Ea3 Hc].
    - left. exists d3, t3, pl, e12, new. auto.
    - right. left. exists L, r. auto.
    - destruct (pp_front_connected compress now d t pin d3 t3 pl e12 I Hp E Hc) as [(new' & Hn' & Ea')|[H|H]]; [left|right; right; left; exact H|right; right; right; exact H].
      exists d3, t3, pl, e12, new'. auto.
  Qed.

  Corollary steady_unconnected now d t pin : DInvG d -> tmo_pos t -> 0 <= dv_retry_count d ->
    dv_cstate d = DEV_NOT_CONNECTED -> hd ConnFail (pi_plans pin) <> ConnNow -> steady now d t pin.
  Proof.
    intros I Hp Hrc Hc Hpl. destruct (steady_or now d t pin I Hp Hrc) as [H|[(L & r & Ea & El)|[(H & _)|H]]]; [exact H| | |contradiction].
    - exfalso. assert (Hx : dv_cstate d = DEV_CONNECTED /\ dv_logged_in d = false) by (apply (dg_head _ d I); exists L, r; auto).
      destruct Hx as [Hx _]. rewrite Hc in Hx. discriminate Hx.
    - rewrite Hc in H. discriminate H.
  Qed.

  (* the descriptor reports nothing, or only successful I/O on a connected device (silent peer, peer that stalls in the middle
     of a line, peer that sends garbage): steady - also while a login is in progress *)
  Theorem steady_quiet_io now d t pin : DInvG d -> tmo_pos t -> dv_cstate d <> DEV_NOT_CONNECTED -> quiet_io d pin = true ->
    steady now d t pin.
  Proof.
    intros I Hp Hnc Hq. unfold steady, pp_front.
    assert (H0 : exists d1 e1, (if dv_has_fd d && any_flag pin then handle_ready d pin else Ok (false, d, [])) = Ok (false, d1, e1) /\ DInvG d1 /\
                 dv_acts d1 = dv_acts d /\ dv_cstate d1 = dv_cstate d).
    { unfold quiet_io in Hq. destruct (dv_has_fd d && any_flag pin) eqn:E0; [|exists d, []; auto].
      cbn [negb orb] in Hq. apply andb_true_iff in Hq as [Hq Hrd]. apply andb_true_iff in Hq as [Hq Hwr]. apply andb_true_iff in Hq as [Hcn Herr].
      apply andb_true_iff in E0 as [Efd _].
      destruct (handle_ready_invG compress d pin I Efd) as (io & d1 & e1 & E & I1 & _).
      assert (X : io = false /\ dv_acts d1 = dv_acts d /\ dv_cstate d1 = dv_cstate d).
      { revert E. unfold handle_ready.
        destruct (Z.eqb (dv_cstate d) DEV_NOT_CONNECTED); [discriminate|]. rewrite Efd. cbn [negb].
        apply negb_true_iff in Herr. rewrite Herr.
        assert (Hcg : Z.eqb (dv_cstate d) DEV_CONNECTING = false).
        { apply connected_iff in Hcn. rewrite Hcn. reflexivity. }
        rewrite Hcg.
        assert (Rd : forall dx ex, dv_acts dx = dv_acts d -> dv_cstate dx = dv_cstate d ->
                  (if pi_in pin then
                     let d1g := set_from_size (after_read_size dx) dx in
                     match pi_read pin with
                     | None | Some [] => Ok (true, d1g, ex)
                     | Some b =>
                         let d2 := upd_sdev (fun s => set_from (lastn (Z.to_nat MAX_DEV_BUF) (sd_from s ++ b)) s) d1g in
                         let d3 := match pi_pre pin with
                                   | None => d2
                                   | Some (kept, reply) =>
                                       upd_sdev (fun s => set_to (lastn (Z.to_nat MAX_DEV_BUF) (sd_to s ++ reply))
                                                            (set_from (firstn (length (sd_from s) - length b) (sd_from s) ++ kept) s)) d2
                                   end in
                         Ok (false, d3, ex ++ [EvRead (length b)])
                     end
                   else Ok (false, dx, ex)) = Ok (io, d1, e1) -> io = false /\ dv_acts d1 = dv_acts d /\ dv_cstate d1 = dv_cstate d).
        { intros dx ex Ex Ec. destruct (pi_in pin); [|intros H; inversion H; subst; auto]. cbn [negb orb] in Hrd. cbv zeta.
          destruct (pi_read pin) as [[|b0 br]|]; try discriminate Hrd.
          destruct (pi_pre pin) as [[kept reply]|]; intros H; inversion H; subst; auto. }
        destruct (pi_out pin).
        - cbn [negb orb] in Hwr. destruct (pi_wrote pin) as [[|n]|]; try discriminate Hwr. cbv beta iota. apply Rd; reflexivity.
        - cbv beta iota. apply Rd; reflexivity. }
      destruct X as (-> & X1 & X2). exists d1, e1. auto. }
    destruct H0 as (d1 & e1 & -> & I1 & Ea1 & Ec1).
    assert (Er : false || Z.eqb (dv_cstate d1) DEV_NOT_CONNECTED = false).
    { cbn [orb]. apply Z.eqb_neq. rewrite Ec1. exact Hnc. }
    rewrite Er.
    destruct (if connected d1 then enqueue_ping now d1 t else (d1, t)) as [d3' t3'] eqn:Epg.
    destruct (ping_stage compress now d1 t d3' t3' I1 Hp Epg) as (new & Hn & En & _).
    exists d3', t3', (pi_plans pin), (e1 ++ []), new. split; [reflexivity|]. split; [exact Hn|]. rewrite En, Ea1. reflexivity.
  Qed.
End Steady.

