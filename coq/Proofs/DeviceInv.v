(* The invariant of the per-device state machine (Model/Device.v) and its preservation by every primitive:
   disconnect, connect, reconnect, enqueue_login, enqueue_ping, append_client_action, expedite, handle_ready,
   pa_step / process_action, post_poll_one.  Crash-freedom (no Abort / MemErr / Exit) comes with it. *)
From Coq Require Import List NArith ZArith Bool Lia.
From PM Require Import Base.Bytes Base.Outcome Base.Dec Gen.GenConsts Gen.GenCbuf Model.ScriptAst Model.Enqueue Model.Script Model.Device
  Proofs.DeviceProofs Proofs.DeviceStmt.
Import ListNotations.
Local Open Scope Z_scope.

Definition is_login (a : action) : bool := Z.eqb (a_com a) PM_LOG_IN.

(* client ids of the queued client actions, in queue order; client ids of the completion callbacks, in order *)
Definition queued (d : device) : list Z := map a_client (filter a_hascb (dv_acts d)).
Definition completions (evs : list ev) : list Z :=
  flat_map (fun e => match e with EvComplete c _ _ => [c] | _ => [] end) evs.
Lemma completions_app a b : completions (a ++ b) = completions a ++ completions b.
Proof. unfold completions. apply flat_map_app. Qed.
Lemma completions_script evs : forallb ev_script evs = true -> completions evs = [].
Proof.
  induction evs as [|e r IH]; [reflexivity|]. cbn [forallb]. intros H. apply andb_true_iff in H as [H1 H2].
  unfold completions in *. cbn [flat_map]. rewrite IH by exact H2. destruct e; try discriminate; reflexivity.
Qed.

Definition is_conn (e : ev) : bool := match e with EvConnect => true | _ => false end.
Definition nconn (evs : list ev) : nat := length (filter is_conn evs).
Lemma nconn_app a b : nconn (a ++ b) = (nconn a + nconn b)%nat.
Proof. unfold nconn. now rewrite filter_app, app_length. Qed.
Lemma nconn_script evs : forallb ev_script evs = true -> nconn evs = O.
Proof.
  induction evs as [|e r IH]; [reflexivity|]. cbn [forallb]. intros H. apply andb_true_iff in H as [H1 H2].
  unfold nconn in *. cbn [filter]. destruct e; try discriminate; cbn [is_conn]; now apply IH.
Qed.

Lemma connected_iff d : connected d = true <-> dv_cstate d = DEV_CONNECTED.
Proof. unfold connected. apply Z.eqb_eq. Qed.
Lemma connected_false_iff d : connected d = false <-> dv_cstate d <> DEV_CONNECTED.
Proof. unfold connected. apply Z.eqb_neq. Qed.

(* facts about the regenerated variant tables *)
Lemma login_ping_not_ranged : is_ranged_com PM_LOG_IN = false /\ is_ranged_com PM_PING = false.
Proof. vm_compute. split; reflexivity. Qed.
Lemma all_variants_not_ranged : forallb (fun cn => negb (is_ranged_com (snd cn))) all_table = true.
Proof. vm_compute. reflexivity. Qed.
Lemma variants_not_login :
  forallb (fun cn => negb (Z.eqb (snd cn) PM_LOG_IN)) (all_table ++ ranged_table) = true
  /\ forallb (fun c => negb (Z.eqb c PM_LOG_IN)) (power_coms ++ query_coms) = true.
Proof. vm_compute. split; reflexivity. Qed.
Lemma lookup_in t i n : lookup t i = Some n -> In (i, n) t.
Proof.
  induction t as [|[a b] r IH]; cbn [lookup]; [discriminate|].
  destruct (Z.eqb a i) eqn:E; intros H.
  - apply Z.eqb_eq in E. inversion H; subst. left. reflexivity.
  - right. now apply IH.
Qed.

Section Inv.
  Variable rmatch : text -> text -> option pmatch.
  Variable compress : list text -> text.
  Variable sc : bool.

  Notation wf_action := (wf_action compress).
  Notation wf_block := (wf_block compress).
  Notation wf_ctx := (wf_ctx compress).

  (* what the parser guarantees about a device (F14: a login script exists; blocks are non-empty; formats are
     %s/%%-only; C17 for the shipped files) plus the one size condition on the configuration (fmt_ok) *)
  Definition cfg_ok (d : device) : Prop :=
    (exists s, assoc_script PM_LOG_IN (dv_scripts d) = Some s) /\
    (forall i s, assoc_script i (dv_scripts d) = Some s -> wf_block (sd_plugs (dv d)) s).

  Definition same_cfg (d d' : device) : Prop :=
    dv_scripts d' = dv_scripts d /\ dv_timeout d' = dv_timeout d /\ dv_ping_period d' = dv_ping_period d /\
    sd_plugs (dv d') = sd_plugs (dv d) /\ sd_name (dv d') = sd_name (dv d).
  Lemma same_cfg_refl d : same_cfg d d.
  Proof. repeat split. Qed.
  Lemma same_cfg_trans a b c : same_cfg a b -> same_cfg b c -> same_cfg a c.
  Proof. unfold same_cfg. intuition congruence. Qed.
  Lemma cfg_ok_same d d' : same_cfg d d' -> cfg_ok d -> cfg_ok d'.
  Proof. intros (E1 & _ & _ & E4 & _) [H1 H2]. unfold cfg_ok. rewrite E1, E4. auto. Qed.

  Record DInv (d : device) : Prop := {
    di_cfg : cfg_ok d;
    di_state : dv_cstate d = DEV_NOT_CONNECTED \/ dv_cstate d = DEV_CONNECTING \/ dv_cstate d = DEV_CONNECTED;
    di_fd : dv_has_fd d = false <-> dv_cstate d = DEV_NOT_CONNECTED;                    (* C07_fd_state *)
    di_li : dv_logged_in d = true -> dv_cstate d = DEV_CONNECTED;
    di_acts : Forall (wf_action (sd_plugs (dv d))) (dv_acts d);
    di_tail : Forall (fun a => is_login a = false) (tl (dv_acts d));                     (* a login is only ever the head *)
    di_head : (exists l r, dv_acts d = l :: r /\ is_login l = true) <-> (dv_cstate d = DEV_CONNECTED /\ dv_logged_in d = false);
    di_cb : Forall (fun a => a_hascb a = true -> is_login a = false) (dv_acts d);        (* a login never carries a client callback *)
    di_to : dv_cstate d <> DEV_CONNECTED -> sd_to (dv d) = [];
    di_to_head : match dv_acts d with h :: _ => inv_to (dv d) h | [] => sd_to (dv d) = [] end
  }.

  Lemma no_login_when_unconnected d : DInv d -> dv_cstate d <> DEV_CONNECTED -> Forall (fun a => is_login a = false) (dv_acts d).
  Proof.
    intros I Hc. destruct (dv_acts d) as [|h r] eqn:Ea; [constructor|].
    constructor.
    - destruct (is_login h) eqn:El; [|reflexivity]. exfalso. apply Hc.
      apply (proj1 (di_head d I)). exists h, r. rewrite Ea. auto.
    - pose proof (di_tail d I) as Ht. rewrite Ea in Ht. exact Ht.
  Qed.

  (* ---------- actions created by the device layer are well formed ---------- *)
  Lemma create_action_wf d s com plugs client hascb tele hasdiag args :
    wf_block (sd_plugs (dv d)) s -> opt_incl plugs (sd_plugs (dv d)) ->
    (is_ranged_com com = true -> plugs <> None) -> (args <> None -> hasdiag = true) ->
    wf_action (sd_plugs (dv d)) (create_action s com plugs client hascb tele hasdiag args).
  Proof.
    intros Hb Hp Hr Hd. unfold create_action, DeviceStmt.wf_action. cbn.
    split; [discriminate|]. split; [|exact Hd]. constructor; [|constructor].
    unfold DeviceStmt.wf_ctx, new_ctx, cur. cbn. destruct Hb as [Hne Hf].
    repeat split; auto. destruct s as [|x r]; [congruence|]. exists x. reflexivity.
  Qed.

  Lemma rewind_action_wf plugs a : wf_action plugs a -> wf_action plugs (rewind_action a) /\ same_id a (rewind_action a)
      /\ a_err (rewind_action a) = a_err a.
  Proof.
    intros (Hne & Hc & Hd). unfold rewind_action.
    destruct (rev (a_exec a)) as [|outer l] eqn:Er.
    - repeat split; auto.
    - assert (Hin : In outer (a_exec a)) by (apply in_rev; rewrite Er; left; reflexivity).
      rewrite Forall_forall in Hc. specialize (Hc _ Hin). destruct Hc as ((s & Hs) & (Hb1 & Hb2) & Hp & Hpl & Hr).
      split; [|repeat split].
      unfold DeviceStmt.wf_action. cbn. split; [discriminate|]. split; [|exact Hd]. constructor; [|constructor].
      unfold DeviceStmt.wf_ctx, cur. cbn. repeat split; auto.
      destruct (c_block outer) as [|x r]; [congruence|]. exists x. reflexivity.
  Qed.

  (* ---------- _enqueue_actions(PM_LOG_IN) on a freshly connected device ---------- *)
  Lemma enqueue_login_inv d :
    cfg_ok d -> Forall (wf_action (sd_plugs (dv d))) (dv_acts d) -> Forall (fun a => is_login a = false) (dv_acts d) ->
    sd_to (dv d) = [] ->
    exists s d', enqueue_login d = Ok d' /\ assoc_script PM_LOG_IN (dv_scripts d) = Some s /\
      d' = set_acts (create_action s PM_LOG_IN None 0 false false false None
                       :: (match dv_acts d with [] => [] | h :: r => rewind_action h :: r end)) d /\
      Forall (wf_action (sd_plugs (dv d))) (dv_acts d') /\ Forall (fun a => is_login a = false) (tl (dv_acts d')).
  Proof.
    intros [[s Hs] Hall] Hw Hn Hto. unfold enqueue_login. rewrite Hs. exists s. eexists. split; [reflexivity|]. split; [reflexivity|].
    split; [reflexivity|]. cbn [dv_acts set_acts tl]. split.
    - constructor.
      + apply create_action_wf; [now apply (Hall PM_LOG_IN)|exact I| |congruence].
        intros H. rewrite (proj1 login_ping_not_ranged) in H. discriminate.
      + destruct (dv_acts d) as [|h r]; [constructor|]. inversion Hw; subst. constructor; [|assumption].
        now apply rewind_action_wf.
    - destruct (dv_acts d) as [|h r]; [constructor|]. inversion Hn; subst. constructor; [|assumption].
      unfold is_login in *. destruct (rewind_action_wf _ h ltac:(inversion Hw; eassumption)) as (_ & (Ec & _) & _). now rewrite Ec.
  Qed.

  (* the part of the invariant that only concerns the queue (all _disconnect needs) *)
  Definition QInv (d : device) : Prop :=
    cfg_ok d /\ Forall (wf_action (sd_plugs (dv d))) (dv_acts d) /\ Forall (fun a => is_login a = false) (tl (dv_acts d)) /\
    Forall (fun a => a_hascb a = true -> is_login a = false) (dv_acts d).
  Lemma DInv_QInv d : DInv d -> QInv d.
  Proof. intros I. split; [apply (di_cfg d I)|]. split; [apply (di_acts d I)|]. split; [apply (di_tail d I)|apply (di_cb d I)]. Qed.

  (* ---------- _disconnect ---------- *)
  Lemma disconnect_inv d d' evs : QInv d -> disconnect d = (d', evs) ->
    DInv d' /\ same_cfg d d' /\ dv_cstate d' = DEV_NOT_CONNECTED /\ evs = [EvDisconnect] /\ queued d' = queued d /\
    dv_acts d' = (match dv_acts d with h :: r => if is_login h then r else h :: r | [] => [] end) /\
    dv_retry_count d' = dv_retry_count d /\ dv_last_retry d' = dv_last_retry d /\ dv_last_ping d' = dv_last_ping d.
  Proof.
    intros (Qc & Qa & Qt & Qb) H. pose proof (disconnect_spec d d' evs H) as (Hc & Hl & Hf & Hfrom & Hto & He & Ha & Hr1 & Hr2).
    assert (Hcfg : same_cfg d d').
    { unfold disconnect in H. inversion H; subst; clear H. destruct (dv_acts d) as [|h r]; cbn; [repeat split|].
      destruct (Z.eqb (a_com h) PM_LOG_IN); repeat split. }
    assert (Hlp : dv_last_ping d' = dv_last_ping d).
    { unfold disconnect in H. inversion H; subst; clear H. destruct (dv_acts d) as [|h r]; cbn; [reflexivity|].
      destruct (Z.eqb (a_com h) PM_LOG_IN); reflexivity. }
    assert (Hacts : dv_acts d' = match dv_acts d with h :: r => if is_login h then r else h :: r | [] => [] end) by exact Ha.
    assert (Hq : queued d' = queued d).
    { unfold queued. rewrite Hacts. destruct (dv_acts d) as [|h r] eqn:Ea; [reflexivity|].
      destruct (is_login h) eqn:El; [|reflexivity].
      (* a login action never has a completion callback: it was created by enqueue_login *)
      cbn [filter]. destruct (a_hascb h) eqn:Eh; [|reflexivity]. exfalso.
      pose proof Qb as Hcb. try rewrite Ea in Hcb. inversion Hcb as [|? ? Hh Hr0]; subst. rewrite Hh in El by exact Eh. discriminate. }
    split; [|split; [exact Hcfg|repeat split; auto]].
    destruct Hcfg as (S1 & S2 & S3 & S4 & S5).
    constructor.
    - apply (cfg_ok_same d d'); [repeat split; auto|apply Qc].
    - left; exact Hc.
    - split; auto.
    - rewrite Hl. discriminate.
    - rewrite S4, Hacts. pose proof Qa as Hw. destruct (dv_acts d) as [|h r]; [constructor|].
      destruct (is_login h); [inversion Hw; assumption|exact Hw].
    - rewrite Hacts. pose proof Qt as Ht. destruct (dv_acts d) as [|h r]; [constructor|]. cbn [tl] in Ht.
      destruct (is_login h); [|exact Ht]. destruct r; [constructor|]. inversion Ht; assumption.
    - rewrite Hc. split; [|intros [E _]; discriminate E].
      intros (l & r & El & Hlog). exfalso. rewrite Hacts in El. pose proof Qt as Ht.
      destruct (dv_acts d) as [|h r0]; [discriminate|]. cbn [tl] in Ht.
      destruct (is_login h) eqn:Eh.
      + rewrite El in Ht. inversion Ht as [|? ? Hl0 _]. congruence.
      + injection El as E1 E2. subst l. congruence.
    - rewrite Hacts. pose proof Qb as Hcb. destruct (dv_acts d) as [|h r]; [constructor|].
      destruct (is_login h); [inversion Hcb; assumption|exact Hcb].
    - intros _. exact Hto.
    - destruct (dv_acts d'); [exact Hto|left; exact Hto].
  Qed.

  Ltac conj_split := repeat match goal with |- _ /\ _ => split end.
  Ltac dsimplg := cbn [dv dv_scripts dv_timeout dv_ping_period dv_cstate dv_logged_in dv_has_fd dv_acts dv_last_retry dv_retry_count
                      dv_last_ping dv_succ_conn dv_succ_acts dv_from_size upd_sdev set_conn set_acts set_retry set_last_ping set_stats
                      set_from_size sd_name sd_plugs sd_from sd_to sd_xm sd_xm_used set_from set_to set_xm tl].
  Ltac dsimpl := cbn [dv dv_scripts dv_timeout dv_ping_period dv_cstate dv_logged_in dv_has_fd dv_acts dv_last_retry dv_retry_count
                      dv_last_ping dv_succ_conn dv_succ_acts dv_from_size upd_sdev set_conn set_acts set_retry set_last_ping set_stats
                      set_from_size sd_name sd_plugs sd_from sd_to sd_xm sd_xm_used set_from set_to set_xm tl] in *.

  Lemma queued_cons_rewind plugs h (r : list action) : wf_action plugs h ->
    map a_client (filter a_hascb (rewind_action h :: r)) = map a_client (filter a_hascb (h :: r)).
  Proof.
    intros Hw. destruct (rewind_action_wf plugs h Hw) as (_ & (_ & Ec & Eh & _) & _).
    cbn [filter]. rewrite Eh. destruct (a_hascb h); cbn [map]; rewrite ?Ec; reflexivity.
  Qed.

  (* ---------- _connect on a device that is not connected ---------- *)
  Lemma connect_inv now d plans : DInv d -> dv_cstate d = DEV_NOT_CONNECTED ->
    exists d' pl', connect now d plans = Ok (d', [EvConnect], pl') /\ pl' = tl plans /\
      DInv d' /\ same_cfg d d' /\ queued d' = queued d /\
      dv_last_retry d' = now /\ dv_retry_count d' = dv_retry_count d + 1 /\ dv_last_ping d' = dv_last_ping d /\
      (dv_cstate d' = DEV_CONNECTED <-> hd ConnFail plans = ConnNow) /\
      (dv_cstate d' = DEV_CONNECTED ->
         exists s, assoc_script PM_LOG_IN (dv_scripts d) = Some s /\
      dv_acts d' = create_action s PM_LOG_IN None 0 false false false None
                          :: (match dv_acts d with [] => [] | h :: r => rewind_action h :: r end)) /\
      (dv_cstate d' <> DEV_CONNECTED -> dv_acts d' = dv_acts d).
  Proof.
    intros I Hc. unfold connect.
    assert (Hfd : dv_has_fd d = false) by (apply (di_fd d I); exact Hc).
    assert (Hli : dv_logged_in d = false).
    { destruct (dv_logged_in d) eqn:E; [|reflexivity]. pose proof (di_li d I E) as H. rewrite Hc in H. discriminate H. }
    rewrite Hfd, Hc. cbn [orb negb Z.eqb DEV_NOT_CONNECTED].
    assert (Hd1 : set_retry now (dv_retry_count d + 1) d = set_conn DEV_NOT_CONNECTED false false (set_retry now (dv_retry_count d + 1) d)).
    { destruct d. cbn in Hc, Hfd, Hli. subst. reflexivity. }
    assert (Hnl : Forall (fun a => is_login a = false) (dv_acts d)).
    { apply no_login_when_unconnected; [exact I|rewrite Hc; discriminate]. }
    assert (Hto : sd_to (dv d) = []) by (apply (di_to d I); rewrite Hc; discriminate).
    (* the cases that leave the device unconnected or connecting *)
    assert (G : forall cs fd, (cs = DEV_NOT_CONNECTED /\ fd = false) \/ (cs = DEV_CONNECTING /\ fd = true) ->
              let d' := set_conn cs false fd (set_retry now (dv_retry_count d + 1) d) in
              DInv d' /\ same_cfg d d' /\ queued d' = queued d /\ dv_last_retry d' = now /\
      dv_retry_count d' = dv_retry_count d + 1 /\ dv_last_ping d' = dv_last_ping d /\ dv_cstate d' <> DEV_CONNECTED /\ dv_acts d' = dv_acts d).
    { intros cs fd Hcs d'. unfold d'. split; [|conj_split; dsimpl; auto; try (repeat split; fail); destruct Hcs as [[-> _]|[-> _]]; discriminate].
      constructor; dsimpl.
      - exact (di_cfg d I).
      - destruct Hcs as [[-> _]|[-> _]]; auto.
      - destruct Hcs as [[-> ->]|[-> ->]]; split; auto; discriminate.
      - discriminate.
      - exact (di_acts d I).
      - exact (di_tail d I).
      - split.
        + intros (l & r & El & Hl). exfalso. rewrite El in Hnl. inversion Hnl; subst. congruence.
        + intros [E _]. destruct Hcs as [[-> _]|[-> _]]; discriminate E.
      - exact (di_cb d I).
      - intros _. exact Hto.
      - exact (di_to_head d I). }
    destruct plans as [|[| |] r].
    - destruct (G DEV_NOT_CONNECTED false (or_introl (conj eq_refl eq_refl))) as (G1 & G2 & G3 & G4 & G5 & G6 & G7 & G8).
      eexists _, _. split; [reflexivity|]. split; [reflexivity|].
      rewrite Hd1.
      conj_split; auto; try (split; intros E; try contradiction; discriminate E); try (intros E; contradiction); try discriminate.
    - (* connected at once *)
      set (d2 := set_stats _ _ (set_conn DEV_CONNECTED false true (set_retry now (dv_retry_count d + 1) d))).
      assert (P1 : cfg_ok d2) by (exact (di_cfg d I)).
      assert (P2 : Forall (wf_action (sd_plugs (dv d2))) (dv_acts d2)) by (exact (di_acts d I)).
      assert (P3 : Forall (fun a => is_login a = false) (dv_acts d2)) by (exact Hnl).
      assert (P4 : sd_to (dv d2) = []) by (exact Hto).
      destruct (enqueue_login_inv d2 P1 P2 P3 P4) as (s & d3 & E3 & Es & Ed3 & Hw3 & Ht3).
      + rewrite E3.
        eexists _, _. split; [reflexivity|]. split; [reflexivity|].
        assert (Hq : queued d3 = queued d).
        { unfold queued. rewrite Ed3. unfold d2. dsimpl. cbn [filter create_action a_hascb].
          pose proof (di_acts d I) as Hw. destruct (dv_acts d) as [|h r0]; [reflexivity|].
          inversion Hw; subst. eapply queued_cons_rewind; eassumption. }
        split; [|conj_split; try exact Hq; rewrite Ed3; unfold d2; dsimpl; auto; try (repeat split; fail); try discriminate].
        * rewrite Ed3 in *. unfold d2 in *. constructor; dsimpl.
          -- exact (di_cfg d I).
          -- auto.
          -- split; discriminate.
          -- discriminate.
          -- exact Hw3.
          -- exact Ht3.
          -- split; [auto|]. intros _. eexists _, _. split; [reflexivity|]. reflexivity.
          -- constructor; [discriminate|]. pose proof (di_cb d I) as Hcb. pose proof (di_acts d I) as Hw.
             destruct (dv_acts d) as [|h r0]; [constructor|]. inversion Hcb; subst. inversion Hw; subst. constructor; [|assumption].
             destruct (rewind_action_wf _ h ltac:(eassumption)) as (_ & (Ec & _ & Eh & _) & _). unfold is_login in *. rewrite Ec, Eh. assumption.
          -- intros E. exfalso. now apply E.
          -- left. exact Hto.
        * intros _. exists s. split; [exact Es|reflexivity].
        * intros E. exfalso. now apply E.
    - destruct (G DEV_CONNECTING true (or_intror (conj eq_refl eq_refl))) as (G1 & G2 & G3 & G4 & G5 & G6 & G7 & G8).
      eexists _, _. split; [reflexivity|]. split; [reflexivity|].
      conj_split; auto; try (split; intros E; try contradiction; discriminate E); try (intros E; contradiction); try discriminate.
    - destruct (G DEV_NOT_CONNECTED false (or_introl (conj eq_refl eq_refl))) as (G1 & G2 & G3 & G4 & G5 & G6 & G7 & G8).
      eexists _, _. split; [reflexivity|]. split; [reflexivity|].
      rewrite Hd1.
      conj_split; auto; try (split; intros E; try contradiction; discriminate E); try (intros E; contradiction); try discriminate.
  Qed.

  (* ---------- requested time-outs: only ever strictly positive values, only ever made earlier ---------- *)
  Definition tmo_pos (t : option Z) : Prop := forall x, t = Some x -> 0 < x.
  Definition tmo_le (t' t : option Z) : Prop := forall x, t = Some x -> exists y, t' = Some y /\ y <= x.
  Lemma tmo_le_refl t : tmo_le t t.
  Proof. intros x E. exists x. split; [exact E|lia]. Qed.
  Lemma tmo_le_trans a b c : tmo_le a b -> tmo_le b c -> tmo_le a c.
  Proof. intros H1 H2 x E. destruct (H2 x E) as (y & Ey & Hy). destruct (H1 y Ey) as (z & Ez & Hz). exists z. split; [exact Ez|lia]. Qed.
  Lemma upd_tmo_props t v : 0 < v -> tmo_pos t ->
    tmo_pos (upd_tmo t v) /\ tmo_le (upd_tmo t v) t /\ exists y, upd_tmo t v = Some y /\ 0 < y <= v.
  Proof.
    intros Hv Hp. unfold upd_tmo. destruct t as [x|].
    - specialize (Hp x eq_refl). destruct (v <? x) eqn:E.
      + apply Z.ltb_lt in E. split; [intros y Ey; inversion Ey; subst; exact Hv|]. split.
        * intros y Ey. inversion Ey; subst. exists v. split; [reflexivity|lia].
        * exists v. split; [reflexivity|lia].
      + apply Z.ltb_ge in E. split; [intros y Ey; inversion Ey; subst; exact Hp|]. split.
        * apply tmo_le_refl.
        * exists x. split; [reflexivity|lia].
    - split; [intros y Ey; inversion Ey; subst; exact Hv|]. split; [intros x E; discriminate E|].
      exists v. split; [reflexivity|lia].
  Qed.

  (* ---------- _reconnect ---------- *)
  Definition after_disc (d : device) : list action :=
    if Z.eqb (dv_cstate d) DEV_NOT_CONNECTED then dv_acts d
    else match dv_acts d with h :: r => if is_login h then r else h :: r | [] => [] end.
  Lemma reconnect_inv now d tmo plans : QInv d -> (dv_cstate d = DEV_NOT_CONNECTED -> DInv d) -> tmo_pos tmo ->
    exists d' evs tmo' pl', reconnect now d tmo plans = Ok (d', evs, tmo', pl') /\
      DInv d' /\ same_cfg d d' /\ queued d' = queued d /\ completions evs = [] /\ tmo_pos tmo' /\ tmo_le tmo' tmo /\
      dv_last_ping d' = dv_last_ping d /\
      (* what is left of the queue: a head login is dropped; on a successful connect the head is rewound and a
         fresh login put in front *)
      (dv_cstate d' <> DEV_CONNECTED -> dv_acts d' = after_disc d) /\
      (dv_cstate d' = DEV_CONNECTED -> exists s, assoc_script PM_LOG_IN (dv_scripts d) = Some s /\
          dv_acts d' = create_action s PM_LOG_IN None 0 false false false None
                         :: (match after_disc d with [] => [] | h :: r => rewind_action h :: r end)).
  Proof.
    intros Q I Hp. unfold reconnect.
    set (d1e := if Z.eqb (dv_cstate d) DEV_NOT_CONNECTED then (d, []) else disconnect d).
    assert (H1 : exists d1 e1, d1e = (d1, e1) /\ DInv d1 /\ same_cfg d d1 /\ dv_cstate d1 = DEV_NOT_CONNECTED /\ queued d1 = queued d /\
               completions e1 = [] /\ dv_last_ping d1 = dv_last_ping d /\
               dv_acts d1 = after_disc d).
    { unfold d1e, after_disc. destruct (Z.eqb (dv_cstate d) DEV_NOT_CONNECTED) eqn:E.
      - apply Z.eqb_eq in E. exists d, []. conj_split; auto. apply same_cfg_refl.
      - destruct (disconnect d) as [d1 e1] eqn:Ed. destruct (disconnect_inv d d1 e1 Q Ed) as (A1 & A2 & A3 & A4 & A5 & A6 & A7 & A8 & A9).
        exists d1, e1. subst e1. conj_split; auto. }
    destruct H1 as (d1 & e1 & -> & I1 & S1 & C1 & Q1 & CE1 & LP1 & A1).
    destruct (time_to_reconnect now d1 tmo) as [go tmo1] eqn:Et.
    assert (Ht : tmo_pos tmo1 /\ tmo_le tmo1 tmo).
    { unfold time_to_reconnect in Et. destruct (0 <? dv_retry_count d1).
      - destruct (_ <=? now) eqn:El; inversion Et; subst; [split; [exact Hp|apply tmo_le_refl]|].
        apply Z.leb_gt in El. destruct (upd_tmo_props tmo (dv_last_retry d1 + backoff (dv_retry_count d1) - now) ltac:(lia) Hp) as (U1 & U2 & _). auto.
      - inversion Et; subst. split; [exact Hp|apply tmo_le_refl]. }
    destruct Ht as [Ht1 Ht2].
    destruct go.
    - destruct (connect_inv now d1 plans I1 C1) as (d2 & pl' & E2 & _ & I2 & S2 & Q2 & _ & _ & LP2 & _ & Hacts & Hacts').
      rewrite E2. exists d2, (e1 ++ [EvConnect]), tmo1, pl'. conj_split; auto.
      + eapply same_cfg_trans; eassumption.
      + congruence.
      + rewrite completions_app, CE1. reflexivity.
      + congruence.
      + rewrite <- A1. exact Hacts'.
      + intros Hc. rewrite <- A1. destruct (Hacts Hc) as (s & Es & Ea). exists s. split; [|exact Ea].
        destruct S1 as (E & _). rewrite <- E. exact Es.
    - exists d1, e1, tmo1, plans. conj_split; auto.
      intros Hc. rewrite C1 in Hc. discriminate Hc.
  Qed.

  (* ---------- _enqueue_ping on a connected device ---------- *)
  Lemma enqueue_ping_inv now d tmo d' tmo' : DInv d -> tmo_pos tmo -> enqueue_ping now d tmo = (d', tmo') ->
    DInv d' /\ same_cfg d d' /\ queued d' = queued d /\ tmo_pos tmo' /\ tmo_le tmo' tmo /\
    dv_cstate d' = dv_cstate d /\ dv_retry_count d' = dv_retry_count d /\ dv_last_retry d' = dv_last_retry d /\
    (exists new, dv_acts d' = dv_acts d ++ new /\ Forall (fun a => a_hascb a = false /\ a_com a = PM_PING /\ a_stamp a = None) new /\ (length new <= 1)%nat).
  Proof.
    intros I Hp. unfold enqueue_ping.
    assert (Same : DInv d /\ same_cfg d d /\ queued d = queued d /\ tmo_pos tmo /\ tmo_le tmo tmo /\
                   dv_cstate d = dv_cstate d /\ dv_retry_count d = dv_retry_count d /\ dv_last_retry d = dv_last_retry d /\
                   (exists new, dv_acts d = dv_acts d ++ new /\ Forall (fun a => a_hascb a = false /\ a_com a = PM_PING /\ a_stamp a = None) new /\ (length new <= 1)%nat)).
    { conj_split; auto; try apply same_cfg_refl; try apply tmo_le_refl. exists []. rewrite app_nil_r. repeat split; auto. }
    destruct (assoc_script PM_PING (dv_scripts d)) as [s|] eqn:Es; [|intros H; inversion H; subst; exact Same].
    destruct (Z.eqb (dv_ping_period d) 0); [intros H; inversion H; subst; exact Same|].
    destruct (_ <=? now) eqn:El; intros H; inversion H; subst; clear H.
    - set (p := create_action s PM_PING None 0 false false false None).
      assert (Hwp : wf_action (sd_plugs (dv d)) p).
      { apply create_action_wf; [apply (proj2 (di_cfg d I) PM_PING s Es)|exact Logic.I| |congruence].
        intros Hr. rewrite (proj2 login_ping_not_ranged) in Hr. discriminate Hr. }
      split; [|conj_split; dsimpl; auto; try apply same_cfg_refl; try apply tmo_le_refl].
      + constructor; dsimpl.
        * exact (di_cfg d I).
        * exact (di_state d I).
        * exact (di_fd d I).
        * exact (di_li d I).
        * apply Forall_app. split; [exact (di_acts d I)|constructor; [exact Hwp|constructor]].
        * pose proof (di_tail d I) as Ht. destruct (dv_acts d) as [|h r]; cbn [app tl]; [constructor|].
          apply Forall_app. split; [exact Ht|constructor; [reflexivity|constructor]].
        * rewrite <- (di_head d I). split; intros (l & r & El' & Hl).
          -- destruct (dv_acts d) as [|h r0]; cbn [app] in El'.
             ++ inversion El'; subst. discriminate Hl.
             ++ inversion El'; subst. eexists _, _. split; [reflexivity|exact Hl].
          -- rewrite El'. cbn [app]. eexists _, _. split; [reflexivity|exact Hl].
        * apply Forall_app. split; [exact (di_cb d I)|constructor; [discriminate|constructor]].
        * exact (di_to d I).
        * pose proof (di_to_head d I) as Hh. destruct (dv_acts d) as [|h r]; cbn [app]; [left; exact Hh|exact Hh].
      + repeat split.
      + unfold queued. dsimpl. rewrite filter_app, map_app. cbn. now rewrite app_nil_r.
      + exists [p]. split; [reflexivity|]. split; [constructor; [repeat split|constructor]|cbn; lia].
    - apply Z.leb_gt in El. destruct (upd_tmo_props tmo (dv_last_ping d' + dv_ping_period d' - now) ltac:(lia) Hp) as (U1 & U2 & _).
      destruct Same as (S1 & S2 & S3 & _ & _ & S6 & S7 & S8 & S9). split; [exact S1|]. split; [exact S2|]. split; [exact S3|].
      split; [exact U1|]. split; [exact U2|]. split; [exact S6|]. split; [exact S7|]. split; [exact S8|exact S9].
  Qed.

  (* ---------- _handle_ready_device: whatever the descriptor reports ---------- *)
  Lemma handle_ready_inv d pin : DInv d -> dv_has_fd d = true -> pi_pre pin = None ->
    exists ioerr d' evs, handle_ready d pin = Ok (ioerr, d', evs) /\
      DInv d' /\ same_cfg d d' /\ queued d' = queued d /\ completions evs = [] /\ nconn evs = O /\
      dv_retry_count d' = dv_retry_count d /\ dv_last_retry d' = dv_last_retry d /\ dv_last_ping d' = dv_last_ping d /\
      (dv_acts d' = dv_acts d \/
       (dv_cstate d = DEV_CONNECTING /\ dv_cstate d' = DEV_CONNECTED /\ exists s, assoc_script PM_LOG_IN (dv_scripts d) = Some s /\
          dv_acts d' = create_action s PM_LOG_IN None 0 false false false None
                         :: (match dv_acts d with [] => [] | h :: r => rewind_action h :: r end))).
  Proof.
    intros I Hfd Hpre. unfold handle_ready. rewrite Hpre.
    assert (Hnc : dv_cstate d <> DEV_NOT_CONNECTED).
    { intros E. apply (di_fd d I) in E. congruence. }
    destruct (Z.eqb (dv_cstate d) DEV_NOT_CONNECTED) eqn:E0; [apply Z.eqb_eq in E0; contradiction|]. clear E0.
    rewrite Hfd. cbn [negb].
    assert (Same : forall b evs, completions evs = [] -> nconn evs = O ->
      exists ioerr d' evs', @Ok (bool * device * list ev) (b, d, evs) = Ok (ioerr, d', evs') /\
      DInv d' /\ same_cfg d d' /\ queued d' = queued d /\ completions evs' = [] /\ nconn evs' = O /\
      dv_retry_count d' = dv_retry_count d /\ dv_last_retry d' = dv_last_retry d /\ dv_last_ping d' = dv_last_ping d /\
      (dv_acts d' = dv_acts d \/
       (dv_cstate d = DEV_CONNECTING /\ dv_cstate d' = DEV_CONNECTED /\ exists s, assoc_script PM_LOG_IN (dv_scripts d) = Some s /\
          dv_acts d' = create_action s PM_LOG_IN None 0 false false false None
                         :: (match dv_acts d with [] => [] | h :: r => rewind_action h :: r end)))).
    { intros b evs He Hn. exists b, d, evs. conj_split; auto. apply same_cfg_refl. }
    (* a device that differs from d only in its buffers / buffer size, with dev->to shortened *)
    assert (Buf : forall b evs d', completions evs = [] -> nconn evs = O ->
      dv_scripts d' = dv_scripts d -> dv_timeout d' = dv_timeout d -> dv_ping_period d' = dv_ping_period d ->
      dv_cstate d' = dv_cstate d -> dv_logged_in d' = dv_logged_in d -> dv_has_fd d' = dv_has_fd d -> dv_acts d' = dv_acts d ->
      dv_last_retry d' = dv_last_retry d -> dv_retry_count d' = dv_retry_count d -> dv_last_ping d' = dv_last_ping d ->
      sd_plugs (dv d') = sd_plugs (dv d) -> sd_name (dv d') = sd_name (dv d) ->
      (sd_to (dv d') = sd_to (dv d) \/ sd_to (dv d) = [] /\ sd_to (dv d') = [] \/ exists n, sd_to (dv d') = skipn n (sd_to (dv d))) ->
      exists ioerr d'' evs', @Ok (bool * device * list ev) (b, d', evs) = Ok (ioerr, d'', evs') /\
      DInv d'' /\ same_cfg d d'' /\ queued d'' = queued d /\ completions evs' = [] /\ nconn evs' = O /\
      dv_retry_count d'' = dv_retry_count d /\ dv_last_retry d'' = dv_last_retry d /\ dv_last_ping d'' = dv_last_ping d /\
      (dv_acts d'' = dv_acts d \/
       (dv_cstate d = DEV_CONNECTING /\ dv_cstate d'' = DEV_CONNECTED /\ exists s, assoc_script PM_LOG_IN (dv_scripts d) = Some s /\
          dv_acts d'' = create_action s PM_LOG_IN None 0 false false false None
                         :: (match dv_acts d with [] => [] | h :: r => rewind_action h :: r end)))).
    { intros b evs d' He Hn E1 E2 E3 E4 E5 E6 E7 E8 E9 E10 E11 E12 Hto.
      assert (Hto' : sd_to (dv d) = [] -> sd_to (dv d') = []).
      { intros Z0. destruct Hto as [H|[[_ H]|[n H]]]; [congruence|exact H|]. rewrite H, Z0. now destruct n. }
      exists b, d', evs. split; [reflexivity|]. split; [|conj_split; auto; [repeat split; auto|unfold queued; now rewrite E7]].
      constructor.
      - apply (cfg_ok_same d d'); [repeat split; auto|exact (di_cfg d I)].
      - rewrite E4. exact (di_state d I).
      - rewrite E4, E6. exact (di_fd d I).
      - rewrite E4, E5. exact (di_li d I).
      - rewrite E7, E11. exact (di_acts d I).
      - rewrite E7. exact (di_tail d I).
      - rewrite E7, E4, E5. exact (di_head d I).
      - rewrite E7. exact (di_cb d I).
      - rewrite E4. intros Hc. apply Hto'. now apply (di_to d I).
      - rewrite E7. pose proof (di_to_head d I) as Hh. destruct (dv_acts d) as [|h r]; [now apply Hto'|].
        destruct Hh as [Hh|Hh]; [left; now apply Hto'|right; exact Hh]. }
    destruct (pi_hup pin || pi_err pin || pi_nval pin); [apply Same; reflexivity|].
    destruct (pi_out pin).
    - destruct (Z.eqb (dv_cstate d) DEV_CONNECTING) eqn:Ec.
      + apply Z.eqb_eq in Ec.
        assert (Hnl : Forall (fun a => is_login a = false) (dv_acts d)).
        { apply no_login_when_unconnected; [exact I|rewrite Ec; discriminate]. }
        assert (Hto : sd_to (dv d) = []) by (apply (di_to d I); rewrite Ec; discriminate).
        destruct (pi_finish_ok pin).
        * set (d1 := set_stats _ _ (set_conn DEV_CONNECTED false true d)).
          assert (P1 : cfg_ok d1) by (exact (di_cfg d I)).
          assert (P2 : Forall (wf_action (sd_plugs (dv d1))) (dv_acts d1)) by (exact (di_acts d I)).
          assert (P3 : Forall (fun a => is_login a = false) (dv_acts d1)) by (exact Hnl).
          assert (P4 : sd_to (dv d1) = []) by (exact Hto).
          destruct (enqueue_login_inv d1 P1 P2 P3 P4) as (s & d3 & E3 & Es & Ed3 & Hw3 & Ht3).
          rewrite E3. exists false, d3, []. split; [reflexivity|].
          assert (Hq : queued d3 = queued d).
          { unfold queued. rewrite Ed3. unfold d1. dsimpl. cbn [filter create_action a_hascb].
            pose proof (di_acts d I) as Hw. destruct (dv_acts d) as [|h r0]; [reflexivity|].
            inversion Hw; subst. eapply queued_cons_rewind; eassumption. }
          split; [|conj_split; try exact Hq; subst d3; unfold d1; dsimpl; auto; try (repeat split; fail)].
          -- subst d3. unfold d1 in *. constructor; dsimpl.
             ++ exact (di_cfg d I).
             ++ auto.
             ++ split; discriminate.
             ++ discriminate.
             ++ exact Hw3.
             ++ exact Ht3.
             ++ split; [auto|]. intros _. eexists _, _. split; [reflexivity|]. reflexivity.
             ++ constructor; [discriminate|]. pose proof (di_cb d I) as Hcb. pose proof (di_acts d I) as Hw.
                destruct (dv_acts d) as [|h r0]; [constructor|]. inversion Hcb; subst. inversion Hw; subst. constructor; [|assumption].
                destruct (rewind_action_wf _ h ltac:(eassumption)) as (_ & (Ec' & _ & Eh & _) & _). unfold is_login in *. rewrite Ec', Eh. assumption.
             ++ intros E. exfalso. now apply E.
             ++ left. exact Hto.
          -- right. split; [exact Ec|]. split; [reflexivity|]. exists s. split; [exact Es|reflexivity].
        * (* finish_connect failed: the transport closed the descriptor *)
          exists true, (set_conn DEV_NOT_CONNECTED false false d), []. split; [reflexivity|].
          split; [|conj_split; dsimpl; auto; repeat split].
          constructor; dsimpl.
          -- exact (di_cfg d I).
          -- auto.
          -- split; auto.
          -- discriminate.
          -- exact (di_acts d I).
          -- exact (di_tail d I).
          -- split; [|intros [E _]; discriminate E]. intros (l & r & El & Hl). exfalso. rewrite El in Hnl. inversion Hnl; subst. congruence.
          -- exact (di_cb d I).
          -- intros _. exact Hto.
          -- exact (di_to_head d I).
      + destruct (pi_wrote pin) as [[|n]|]; try (apply Same; reflexivity).
        set (d1 := upd_sdev (fun s => set_to (skipn (S n) (sd_to s)) s) d).
        assert (B1 : forall b evs, completions evs = [] -> nconn evs = O -> _) by (intros b evs He Hn; exact (Buf b evs d1 He Hn eq_refl eq_refl eq_refl eq_refl eq_refl eq_refl eq_refl eq_refl eq_refl eq_refl eq_refl eq_refl
                       (or_intror (or_intror (ex_intro _ (S n) eq_refl))))).
        destruct (pi_in pin); [|apply B1; reflexivity].
        destruct (pi_read pin) as [[|b0 br]|].
        * apply (Buf true _ (set_from_size (after_read_size d1) d1)); auto; right; right; exists (S n); reflexivity.
        * apply (Buf false _ (upd_sdev (fun s => set_from (lastn (Z.to_nat MAX_DEV_BUF) (sd_from s ++ b0 :: br)) s) (set_from_size (after_read_size d1) d1)));
            auto; try (rewrite completions_app; reflexivity); try (rewrite nconn_app; reflexivity); right; right; exists (S n); reflexivity.
        * apply (Buf true _ (set_from_size (after_read_size d1) d1)); auto; right; right; exists (S n); reflexivity.
    - destruct (pi_in pin); [|apply Same; reflexivity].
      destruct (pi_read pin) as [[|b0 br]|].
      * apply (Buf true _ (set_from_size (after_read_size d) d)); auto.
      * apply (Buf false _ (upd_sdev (fun s => set_from (lastn (Z.to_nat MAX_DEV_BUF) (sd_from s ++ b0 :: br)) s) (set_from_size (after_read_size d) d))); auto.
      * apply (Buf true _ (set_from_size (after_read_size d) d)); auto.
  Qed.

  (* ---------- connect attempts and the back-off gate ---------- *)
  (* over a stretch of execution at time `now`: either no attempt was made and the retry bookkeeping is unchanged, or
     exactly one was made, it was allowed by the gate, and it stamped the time and counted itself *)
  Definition conn_rel (now : Z) (d d' : device) (evs : list ev) : Prop :=
    (nconn evs = O /\ dv_last_retry d' = dv_last_retry d /\ dv_retry_count d' = dv_retry_count d) \/
    (nconn evs = 1%nat /\ (dv_retry_count d <= 0 \/ dv_last_retry d + backoff (dv_retry_count d) <= now) /\
     dv_last_retry d' = now /\ dv_retry_count d' = dv_retry_count d + 1).
  Lemma conn_rel_none now d d' evs : nconn evs = O -> dv_last_retry d' = dv_last_retry d -> dv_retry_count d' = dv_retry_count d -> conn_rel now d d' evs.
  Proof. intros. left. auto. Qed.
  Lemma conn_rel_trans now a b c e1 e2 : 0 <= dv_retry_count a ->
    conn_rel now a b e1 -> conn_rel now b c e2 -> conn_rel now a c (e1 ++ e2).
  Proof.
    intros Hrc [(N1 & L1 & R1)|(N1 & G1 & L1 & R1)] [(N2 & L2 & R2)|(N2 & G2 & L2 & R2)]; unfold conn_rel; rewrite nconn_app, N1, N2.
    - left. repeat split; congruence.
    - right. rewrite <- L1, <- R1. repeat split; auto; congruence.
    - right. repeat split; auto; congruence.
    - exfalso. rewrite R1, L1 in G2. pose proof (backoff_ge_1s (dv_retry_count a + 1)). lia.
  Qed.
  Lemma conn_rel_rc now d d' evs : conn_rel now d d' evs -> 0 <= dv_retry_count d -> 0 <= dv_retry_count d'.
  Proof. intros [(_ & _ & R)|(_ & _ & _ & R)] H; lia. Qed.

  Lemma connect_evs now d plans d' evs pl : connect now d plans = Ok (d', evs, pl) -> evs = [EvConnect].
  Proof.
    unfold connect. destruct (_ || _); [discriminate|]. destruct plans as [|[| |] r]; try (intros H; inversion H; reflexivity).
    destruct (enqueue_login _); try discriminate. intros H; inversion H; reflexivity.
  Qed.

  Lemma reconnect_conn now d tmo plans d' evs tmo' pl :
    reconnect now d tmo plans = Ok (d', evs, tmo', pl) -> conn_rel now d d' evs.
  Proof.
    unfold reconnect.
    destruct (if Z.eqb (dv_cstate d) DEV_NOT_CONNECTED then (d, []) else disconnect d) as [d1 e1] eqn:E1.
    assert (H1 : nconn e1 = O /\ dv_last_retry d1 = dv_last_retry d /\ dv_retry_count d1 = dv_retry_count d).
    { destruct (Z.eqb (dv_cstate d) DEV_NOT_CONNECTED).
      - inversion E1; subst. auto.
      - destruct (disconnect_spec d d1 e1 E1) as (_ & _ & _ & _ & _ & -> & _ & R1 & R2). auto. }
    destruct H1 as (N1 & L1 & R1).
    destruct (time_to_reconnect now d1 tmo) as [go tmo1] eqn:Et. destruct go.
    - destruct (connect now d1 plans) as [[[d2 e2] pl2]| | | |] eqn:Ec; try discriminate.
      intros H; inversion H; subst. pose proof (connect_evs _ _ _ _ _ _ Ec) as ->.
      destruct (connect_spec now d1 plans d' [EvConnect] pl Ec) as (L2 & R2 & _).
      right. rewrite nconn_app, N1. split; [reflexivity|]. split; [|split; congruence].
      rewrite <- L1, <- R1. unfold time_to_reconnect in Et. destruct (0 <? dv_retry_count d1) eqn:E0.
      + destruct (_ <=? now) eqn:El; [|discriminate]. apply Z.leb_le in El. right. exact El.
      + apply Z.ltb_ge in E0. left. exact E0.
    - intros H; inversion H; subst. left. auto.
  Qed.

  (* ---------- what one step of the device state machine guarantees ---------- *)
  Definition all_fail (evs : list ev) : Prop :=
    Forall (fun e => match e with EvComplete _ err _ => err <> ACT_ESUCCESS | _ => True end) evs.

  Record step_post (now : Z) (d : device) (store : list arglist) (tmo : option Z)
                   (d' : device) (store' : list arglist) (tmo' : option Z) (evs : list ev) : Prop := {
    st_inv : DInv d';
    st_cfg : same_cfg d d';
    st_pos : tmo_pos tmo';
    st_le : tmo_le tmo' tmo;
    st_fifo : completions evs ++ queued d' = queued d;       (* FIFO + conservation: completions come off the front *)
    st_store : length store' = length store;
    st_ping : dv_last_ping d' = dv_last_ping d \/ dv_last_ping d' = now;
    st_conn : conn_rel now d d' evs
  }.

  Lemma queued_cons a r d : dv_acts d = a :: r -> queued d = (if a_hascb a then [a_client a] else []) ++ map a_client (filter a_hascb r).
  Proof. intros E. unfold queued. rewrite E. cbn [filter]. destruct (a_hascb a); reflexivity. Qed.

  Lemma complete_completions d a : completions (complete d a) = if a_hascb a then [a_client a] else [].
  Proof. unfold complete. destruct (a_hascb a); reflexivity. Qed.
  Lemma complete_nconn d a : nconn (complete d a) = O.
  Proof. unfold complete. destruct (a_hascb a); reflexivity. Qed.

  Lemma fail_queue_completions d h rest :
    completions (fail_queue d h rest) = (if a_hascb h then [a_client h] else []) ++ map a_client (filter a_hascb rest).
  Proof.
    unfold fail_queue. rewrite completions_app, complete_completions. f_equal.
    induction rest as [|a r IH]; [reflexivity|]. cbn [flat_map filter]. rewrite completions_app, complete_completions. cbn [a_hascb set_err a_client].
    destruct (a_hascb a); cbn [map app]; now rewrite IH.
  Qed.
  Lemma fail_queue_nconn d h rest : nconn (fail_queue d h rest) = O.
  Proof.
    unfold fail_queue. rewrite nconn_app, complete_nconn. cbn [Nat.add].
    induction rest as [|a r IH]; [reflexivity|]. cbn [flat_map]. rewrite nconn_app, complete_nconn. exact IH.
  Qed.
  Lemma fail_queue_all_fail d h rest : a_err h <> ACT_ESUCCESS -> all_fail (fail_queue d h rest).
  Proof.
    intros Hh. unfold all_fail, fail_queue. apply Forall_app. split.
    - unfold complete. destruct (a_hascb h); constructor; [exact Hh|constructor].
    - set (e := if Z.eqb (a_err h) ACT_EEXPFAIL then ACT_EABORT else a_err h).
      assert (He : e <> ACT_ESUCCESS). { unfold e. destruct (Z.eqb _ _); [discriminate|exact Hh]. }
      induction rest as [|a r IH]; [constructor|]. cbn [flat_map]. apply Forall_app. split; [|exact IH].
      unfold complete. cbn [a_hascb set_err a_err]. destruct (a_hascb a); constructor; [exact He|constructor].
  Qed.

  (* the error branch of _process_action: every queued action is completed (in order), the queue is empty
     afterwards except for the login of a connection that came back at once *)
  Lemma fail_and_reconnect_inv now d act0 act rest store tmo plans pre :
    QInv d -> (dv_cstate d <> DEV_CONNECTED -> DInv d) -> dv_cstate d = DEV_NOT_CONNECTED \/ dv_cstate d = DEV_CONNECTING \/ dv_cstate d = DEV_CONNECTED ->
    dv_acts d = act0 :: rest -> a_hascb act = a_hascb act0 -> a_client act = a_client act0 ->
    completions pre = [] -> nconn pre = O -> tmo_pos tmo ->
    exists d2 tmo2 pl evs, fail_and_reconnect now d act rest store tmo plans pre = Ok (PaDone d2 store tmo2 pl evs) /\
      DInv d2 /\ same_cfg d d2 /\ tmo_pos tmo2 /\ tmo_le tmo2 tmo /\ completions evs = queued d /\ queued d2 = [] /\
      dv_last_ping d2 = dv_last_ping d /\ conn_rel now d d2 evs /\
      (dv_acts d2 = [] \/ exists s, dv_acts d2 = [create_action s PM_LOG_IN None 0 false false false None] /\ dv_cstate d2 = DEV_CONNECTED) /\
      exists e2, evs = pre ++ fail_queue d act rest ++ e2 /\ completions e2 = [].
  Proof.
    intros (Qc & Qa & Qt & Qb) I Hst Ea Hcb Hcl Hpre Npre Hp. unfold fail_and_reconnect.
    assert (Hcomp : completions (pre ++ fail_queue d act rest) = queued d).
    { rewrite completions_app, Hpre, fail_queue_completions, Hcb, Hcl, (queued_cons _ _ _ Ea). reflexivity. }
    assert (Q0 : QInv (set_acts [] d)).
    { split; [exact Qc|]. dsimpl. repeat split; constructor. }
    destruct (connected (set_acts [] d)) eqn:Ec.
    - assert (Hc : dv_cstate d = DEV_CONNECTED) by (apply connected_iff; exact Ec).
      destruct (reconnect_inv now (set_acts [] d) tmo plans Q0) as (d2 & e2 & tmo2 & pl & E2 & I2 & S2 & Q2 & C2 & P2 & L2 & LP2 & A2 & A2'); [dsimpl; rewrite Hc; discriminate|exact Hp|].
      rewrite E2. exists d2, tmo2, pl, ((pre ++ fail_queue d act rest) ++ e2).
      pose proof (reconnect_conn _ _ _ _ _ _ _ _ E2) as CR.
      split; [reflexivity|]. conj_split; auto.
      + rewrite completions_app, Hcomp, C2, app_nil_r. reflexivity.
      + destruct CR as [(N & L & R)|(N & G & L & R)]; [left|right]; rewrite nconn_app, nconn_app, Npre, fail_queue_nconn, N; dsimpl; auto.
      + unfold after_disc in A2, A2'. dsimpl. rewrite Hc in A2, A2'. cbn [Z.eqb DEV_CONNECTED DEV_NOT_CONNECTED] in A2, A2'.
        destruct (Z.eq_dec (dv_cstate d2) DEV_CONNECTED) as [E|E]; [right|left; auto].
        destruct (A2' E) as (s & _ & Es). exists s. auto.
      + exists e2. rewrite <- app_assoc. auto.
    - assert (Hc : dv_cstate d <> DEV_CONNECTED) by (apply connected_false_iff; exact Ec).
      specialize (I Hc).
      exists (set_acts [] d), tmo, plans, (pre ++ fail_queue d act rest). split; [reflexivity|]. conj_split; auto.
      + constructor; dsimpl.
        * exact (di_cfg d I). * exact (di_state d I). * exact (di_fd d I). * exact (di_li d I).
        * constructor. * constructor.
        * split; [intros (l & r & El & _); discriminate El|]. intros [E _]. contradiction.
        * constructor.
        * exact (di_to d I).
        * apply (di_to d I). exact Hc.
      + repeat split.
      + apply tmo_le_refl.
      + left. rewrite nconn_app, Npre, fail_queue_nconn. dsimpl. auto.
      + exists []. rewrite app_nil_r. auto.
  Qed.

  Lemma advance_props plugs a : wf_action plugs a ->
    same_id a (advance a) /\ a_err (advance a) = a_err a /\ (a_exec (advance a) = [] \/ wf_action plugs (advance a)).
  Proof.
    intros (Hne & Hc & Hd). unfold advance. destruct (a_exec a) as [|e rest] eqn:Ex; [congruence|].
    inversion Hc as [|? ? He Hr]; subst.
    destruct (cur (set_pos (S (c_pos e)) e)) as [s|] eqn:Ec.
    - split; [repeat split|]. split; [reflexivity|]. right. unfold DeviceStmt.wf_action. cbn.
      split; [discriminate|]. split; [|exact Hd]. constructor; [|exact Hr].
      destruct He as (_ & Hb & Hp & Hpl & Hrg). unfold DeviceStmt.wf_ctx. cbn. repeat split; eauto; apply Hb.
    - split; [repeat split|]. split; [reflexivity|]. cbn. destruct rest as [|e2 r2]; [left; reflexivity|right].
      unfold DeviceStmt.wf_action. cbn. split; [discriminate|]. split; [exact Hr|exact Hd].
  Qed.

  (* the requested time-out covers the head action's deadline, unless nothing a client waits for is queued *)
  Definition timer_ok (now : Z) (d : device) (tmo : option Z) : Prop :=
    match dv_acts d with
    | [] => True
    | h :: _ => (exists s t, a_stamp h = Some s /\ tmo = Some t /\ 0 < t <= s + dv_timeout d - now)
                \/ (a_stamp h = None /\ queued d = [])
    end.

  Lemma pa_step_inv now d store tmo plans : DInv d -> tmo_pos tmo ->
    match pa_step rmatch compress sc now d store tmo plans with
    | Ok (PaDone d' store' tmo' pl' evs) => step_post now d store tmo d' store' tmo' evs /\ timer_ok now d' tmo'
    | Ok (PaNext d' store' tmo' evs) => step_post now d store tmo d' store' tmo' evs
    | Hang _ => True
    | _ => False
    end.
  Proof.
    intros I Hp. unfold pa_step.
    destruct (dv_acts d) as [|act0 rest] eqn:Ea.
    { split; [|unfold timer_ok; now rewrite Ea].
      constructor; auto; try apply same_cfg_refl; try apply tmo_le_refl. left. auto. }
    pose proof (di_acts d I) as Hw. rewrite Ea in Hw. inversion Hw as [|? ? Hw0 Hwr]; subst.
    destruct (a_exec act0) as [|e0 er] eqn:Eex; [destruct Hw0 as (H & _); congruence|].
    set (stamp := match a_stamp act0 with Some t => t | None => now end).
    set (act := set_stamp (Some stamp) act0).
    assert (Hwa : wf_action (sd_plugs (dv d)) act) by exact Hw0.
    assert (Hida : a_com act = a_com act0 /\ a_hascb act = a_hascb act0 /\ a_client act = a_client act0 /\ a_exec act = a_exec act0) by (repeat split).
    destruct Hida as (Ida1 & Ida2 & Ida3 & Ida4).
    assert (Htoh : inv_to (dv d) act).
    { pose proof (di_to_head d I) as H. rewrite Ea in H. exact H. }
    pose proof (DInv_QInv d I) as Q.
    destruct (stamp + dv_timeout d <=? now) eqn:El.
    - (* timed out *)
      destruct (fail_and_reconnect_inv now d act0 (set_err (timeout_err d) act) rest store tmo plans (timeout_tele d act) Q (fun _ => I) (di_state d I) Ea)
        as (d2 & tmo2 & pl & evs & E & I2 & S2 & P2 & L2 & C2 & Q2 & LP2 & CR2 & A2 & _); auto.
      + unfold timeout_tele. destruct (a_tele act); reflexivity.
      + unfold timeout_tele. destruct (a_tele act); reflexivity.
      + rewrite E. split.
        * constructor; auto. rewrite C2, Q2, app_nil_r. reflexivity.
        * unfold timer_ok. destruct A2 as [->|(s & -> & _)]; [exact Logic.I|]. right. split; [reflexivity|exact Q2].
    - apply Z.leb_gt in El.
      destruct (connected d) eqn:Ec; cbn [negb].
      2:{ (* stalled: not connected *)
        destruct (upd_tmo_props tmo (stamp + dv_timeout d - now) ltac:(lia) Hp) as (U1 & U2 & (y & U3 & U4)).
        split.
        - constructor; dsimpl; auto; try (repeat split; fail).
          + constructor; dsimpl.
            * exact (di_cfg d I). * exact (di_state d I). * exact (di_fd d I). * exact (di_li d I).
            * constructor; assumption.
            * pose proof (di_tail d I) as Ht. rewrite Ea in Ht. exact Ht.
            * rewrite <- (di_head d I), Ea. split; intros (l & r & E & Hl); inversion E; subst; eexists _, _; (split; [reflexivity|exact Hl]).
            * pose proof (di_cb d I) as Hcb. rewrite Ea in Hcb. inversion Hcb; subst. constructor; assumption.
            * exact (di_to d I).
            * exact Htoh.
          + unfold queued. dsimpl. rewrite Ea. unfold act. cbn. destruct (a_hascb act0); reflexivity.
          + left. auto.
        - unfold timer_ok. dsimpl. left. exists stamp, y. repeat split; auto; lia. }
      (* connected: run statements *)
      pose proof (do_while_props rmatch compress sc 8 now (dv d) act store [] None Hwa Htoh) as Hdw.
      destruct (do_while rmatch compress sc 8 now (dv d) act store [] None) as [[[[[[fin sd'] act'] store'] evs] dt]| | | |]; try contradiction; [|exact Logic.I].
      destruct Hdw as (evs1 & t1 & Eevs & Edt & SP). cbn [app] in Eevs. subst evs1. cbn [min_tmo] in Edt. subst t1.
      destruct SP as [w1 p1 n1 fi1 stl1 i1 v1 m1 s1 [l1 q1]].
      destruct i1 as (J1 & J2 & J3 & J4 & J5 & J6 & J7).
      set (d1 := upd_sdev (fun _ => sd') d).
      set (tmo1 := match dt with Some v => upd_tmo tmo v | None => tmo end).
      assert (Ht1 : tmo_pos tmo1 /\ tmo_le tmo1 tmo).
      { unfold tmo1. destruct dt as [v|]; [|split; [exact Hp|apply tmo_le_refl]].
        destruct (upd_tmo_props tmo v (m1 v eq_refl) Hp) as (U1 & U2 & _). auto. }
      destruct Ht1 as [Ht1 Ht1'].
      assert (Hcs : dv_cstate d = DEV_CONNECTED) by (apply connected_iff; exact Ec).
      assert (Hcfg1 : same_cfg d d1) by (unfold d1; repeat split; dsimpl; auto).
      assert (Hce : completions evs = []) by (apply completions_script; exact v1).
      assert (Hne : nconn evs = O) by (apply nconn_script; exact v1).
      (* a device whose head is a (changed) version of the same action *)
      assert (Keep : forall a2 tmo2, wf_action (sd_plugs (dv d)) a2 -> same_id act a2 -> inv_to sd' a2 -> tmo_pos tmo2 -> tmo_le tmo2 tmo ->
                step_post now d store tmo (set_acts (a2 :: rest) d1) store' tmo2 evs).
      { intros a2 tmo2 Hw2 (K1 & K2 & K3 & K4 & K5 & K6 & K7) Hto2 Hp2 Hl2.
        constructor; auto; unfold d1; dsimpl; auto.
        - constructor; dsimpl.
          + apply (cfg_ok_same d d1); [exact Hcfg1|exact (di_cfg d I)].
          + exact (di_state d I). + exact (di_fd d I). + exact (di_li d I).
          + rewrite p1. constructor; assumption.
          + pose proof (di_tail d I) as Ht. rewrite Ea in Ht. exact Ht.
          + rewrite <- (di_head d I), Ea. unfold is_login.
            split; intros (l & r & E & Hl); inversion E; subst; eexists _, _; (split; [reflexivity|]); unfold is_login in *; [rewrite <- Ida1, <- K1|rewrite K1, Ida1]; exact Hl.
          + pose proof (di_cb d I) as Hcb. rewrite Ea in Hcb. inversion Hcb as [|? ? Hh Hr]; subst. constructor; [|assumption].
            unfold is_login. rewrite K1, K3, Ida1, Ida2. exact Hh.
          + intros Hc. contradiction.
          + exact Hto2.
        - rewrite Hce. unfold queued. dsimpl. rewrite Ea. cbn [filter app]. rewrite K3, Ida2. destruct (a_hascb act0); cbn [map]; [rewrite K2, Ida3|]; reflexivity.
        - left. auto. }
      destruct fin; cbn [negb].
      2:{ (* stalled inside a statement *)
        destruct (upd_tmo_props tmo1 (stamp + dv_timeout d - now) ltac:(lia) Ht1) as (U1 & U2 & (y & U3 & U4)).
        split.
        - apply Keep; auto; [repeat split; auto|eapply tmo_le_trans; eassumption].
        - unfold timer_ok, d1. dsimpl. left. exists stamp, y. rewrite J6. split; [reflexivity|]. split; [exact U3|exact U4]. }
      specialize (fi1 eq_refl).
      destruct (Z.eqb (a_err act') ACT_ESUCCESS) eqn:Eerr.
      + destruct (advance_props _ act' w1) as (A1 & A2 & A3).
        destruct (a_exec (advance act')) as [|e2 r2] eqn:Eadv.
        * (* the action completed *)
          remember (if Z.eqb (a_com (advance act')) PM_LOG_IN then set_conn (dv_cstate d1) true (dv_has_fd d1) d1 else d1) as d2 eqn:Ed2.
          assert (Hcom : a_com (advance act') = a_com act0) by (destruct A1 as (K1 & _); rewrite K1, J1; exact Ida1).
          assert (Hli2 : dv_logged_in d2 = true).
          { rewrite Ed2, Hcom. destruct (Z.eqb (a_com act0) PM_LOG_IN) eqn:El0; [reflexivity|].
            unfold d1. dsimplg. destruct (dv_logged_in d) eqn:Eli; [reflexivity|]. exfalso.
            destruct (proj2 (di_head d I) (conj Hcs Eli)) as (l & r & E & Hl). rewrite Ea in E. inversion E; subst. unfold is_login in Hl. congruence. }
          assert (Hsame2 : dv d2 = sd' /\ dv_scripts d2 = dv_scripts d /\ dv_timeout d2 = dv_timeout d /\ dv_ping_period d2 = dv_ping_period d /\
                           dv_cstate d2 = dv_cstate d /\ dv_has_fd d2 = dv_has_fd d /\ dv_last_retry d2 = dv_last_retry d /\
                           dv_retry_count d2 = dv_retry_count d /\ dv_last_ping d2 = dv_last_ping d).
          { rewrite Ed2. unfold d1. destruct (Z.eqb _ PM_LOG_IN); cbn; repeat split. }
          destruct Hsame2 as (B1 & B2 & B3 & B4 & B5 & B6 & B7 & B8 & B9).
          constructor; dsimplg; auto; try congruence.
          -- constructor; dsimplg; rewrite ?B1, ?B2, ?B3, ?B4, ?B5, ?B6.
             ++ destruct (di_cfg d I) as [C1 C2]. split; dsimplg; rewrite ?B1, ?B2, ?p1; auto.
             ++ exact (di_state d I). ++ exact (di_fd d I). ++ intros _. exact Hcs.
             ++ rewrite p1. exact Hwr.
             ++ pose proof (di_tail d I) as Ht. rewrite Ea in Ht. cbn [tl] in Ht. destruct rest; [constructor|]. inversion Ht; assumption.
             ++ rewrite Hli2. split; [|intros [_ E]; discriminate E].
                intros (l & r & E & Hl). exfalso. pose proof (di_tail d I) as Ht. rewrite Ea in Ht. cbn [tl] in Ht. rewrite E in Ht. inversion Ht as [|? ? Hl0 Hl1]. congruence.
             ++ pose proof (di_cb d I) as Hcb. rewrite Ea in Hcb. inversion Hcb; assumption.
             ++ intros Hc. contradiction.
             ++ destruct rest; [exact fi1|left; exact fi1].
          -- repeat split; dsimplg; rewrite ?B1, ?B2, ?B3, ?B4; auto.
          -- rewrite completions_app, Hce, complete_completions. cbn [app]. unfold queued. dsimplg. rewrite Ea. cbn [filter].
             destruct A1 as (K1 & K2 & K3 & _). rewrite K3, K2, J3, J2, Ida2, Ida3. destruct (a_hascb act0); reflexivity.
          -- left. rewrite nconn_app, Hne, complete_nconn. dsimplg. rewrite B7, B8. auto.
        * (* next statement of the same action *)
          destruct A3 as [A3|A3]; [try rewrite Eadv in A3; discriminate A3|].
          apply Keep; auto.
          -- eapply same_id_trans; [|exact A1]. repeat split; auto.
          -- left. exact fi1.
      + (* the statement failed the action *)
        apply Z.eqb_neq in Eerr.
        assert (Q1 : QInv (set_acts (act0 :: rest) d1)).
        { split; [apply (cfg_ok_same d d1); [exact Hcfg1|exact (di_cfg d I)]|]. unfold d1. dsimpl. rewrite p1.
          split; [constructor; assumption|]. pose proof (di_tail d I) as Ht. pose proof (di_cb d I) as Hcb. rewrite Ea in Ht, Hcb. auto. }
        assert (Ed1 : set_acts (act0 :: rest) d1 = d1) by (unfold d1; destruct d; dsimpl; cbn in Ea; subst; reflexivity).
        rewrite Ed1 in Q1.
        assert (F1 : dv_cstate d1 <> DEV_CONNECTED -> DInv d1) by (intros Hc; contradiction).
        assert (F2 : dv_cstate d1 = DEV_NOT_CONNECTED \/ dv_cstate d1 = DEV_CONNECTING \/ dv_cstate d1 = DEV_CONNECTED) by (exact (di_state d I)).
        assert (F3 : dv_acts d1 = act0 :: rest) by (exact Ea).
        assert (F4 : a_hascb act' = a_hascb act0) by (rewrite J3; exact Ida2).
        assert (F5 : a_client act' = a_client act0) by (rewrite J2; exact Ida3).
        destruct (fail_and_reconnect_inv now d1 act0 act' rest store' tmo1 plans evs Q1 F1 F2 F3 F4 F5 Hce Hne Ht1)
          as (d2 & tmo2 & pl & evs2 & E & I2 & S2 & P2 & L2 & C2 & Q2 & LP2 & CR2 & A2 & _).
        rewrite E. split.
        * constructor; auto.
          -- eapply same_cfg_trans; eassumption.
          -- eapply tmo_le_trans; eassumption.
          -- rewrite C2, Q2, app_nil_r. unfold queued, d1. reflexivity.
        * unfold timer_ok. destruct A2 as [->|(s & -> & _)]; [exact Logic.I|]. right. split; [reflexivity|exact Q2].
  Qed.

  Lemma step_post_refl now d store tmo : DInv d -> tmo_pos tmo -> step_post now d store tmo d store tmo [].
  Proof. intros I Hp. constructor; auto; try apply same_cfg_refl; try apply tmo_le_refl. left. auto. Qed.

  Lemma step_post_trans now d st tmo d1 st1 tmo1 e1 d2 st2 tmo2 e2 : 0 <= dv_retry_count d ->
    step_post now d st tmo d1 st1 tmo1 e1 -> step_post now d1 st1 tmo1 d2 st2 tmo2 e2 ->
    step_post now d st tmo d2 st2 tmo2 (e1 ++ e2).
  Proof.
    intros Hrc [i1 c1 p1 l1 f1 s1 g1 r1] [i2 c2 p2 l2 f2 s2 g2 r2]. constructor; auto.
    - eapply same_cfg_trans; eassumption.
    - eapply tmo_le_trans; eassumption.
    - rewrite completions_app, <- app_assoc, f2. exact f1.
    - congruence.
    - destruct g2 as [g2|g2]; [|right; exact g2]. rewrite g2. exact g1.
    - eapply conn_rel_trans; eassumption.
  Qed.

  Lemma process_action_inv : forall fuel now d store tmo plans acc, DInv d -> tmo_pos tmo -> 0 <= dv_retry_count d ->
    match process_action rmatch compress sc fuel now d store tmo plans acc with
    | Ok (d', store', tmo', pl', evs) => exists evs1, evs = acc ++ evs1 /\ step_post now d store tmo d' store' tmo' evs1 /\ timer_ok now d' tmo'
    | Hang _ => True
    | _ => False
    end.
  Proof.
    induction fuel as [|f IH]; intros now d store tmo plans acc I Hp Hrc; cbn [process_action]; [exact Logic.I|].
    pose proof (pa_step_inv now d store tmo plans I Hp) as H.
    destruct (pa_step rmatch compress sc now d store tmo plans) as [[d1 st1 tmo1 pl1 e1|d1 st1 tmo1 e1]| | | |]; try contradiction; [| |exact Logic.I].
    - destruct H as [H1 H2]. exists e1. auto.
    - pose proof (conn_rel_rc _ _ _ _ (st_conn _ _ _ _ _ _ _ _ H) Hrc) as Hrc1.
      specialize (IH now d1 st1 tmo1 plans (acc ++ e1) (st_inv _ _ _ _ _ _ _ _ H) (st_pos _ _ _ _ _ _ _ _ H) Hrc1).
      destruct (process_action rmatch compress sc f now d1 st1 tmo1 plans (acc ++ e1)) as [[[[[d2 st2] tmo2] pl2] e2]| | | |]; try contradiction; [|exact Logic.I].
      destruct IH as (e3 & -> & SP & TK). exists (e1 ++ e3). split; [now rewrite app_assoc|]. split; [|exact TK].
      eapply step_post_trans; eassumption.
  Qed.

  (* ---------- one device's share of dev_post_poll ---------- *)
  Lemma post_poll_one_inv now d store tmo pin : DInv d -> tmo_pos tmo -> 0 <= dv_retry_count d -> pi_pre pin = None ->
    match post_poll_one rmatch compress sc now d store tmo pin with
    | Ok (d', store', tmo', evs) => step_post now d store tmo d' store' tmo' evs /\ timer_ok now d' tmo'
    | Hang _ => True
    | _ => False
    end.
  Proof.
    intros I Hp Hrc Hpre. unfold post_poll_one.
    (* 1. the descriptor *)
    assert (H0 : exists ioerr d1 e1, (if dv_has_fd d && any_flag pin then handle_ready d pin else Ok (false, d, [])) = Ok (ioerr, d1, e1) /\
                 step_post now d store tmo d1 store tmo e1).
    { destruct (dv_has_fd d) eqn:Efd; cbn [andb]; [|exists false, d, []; split; [reflexivity|now apply step_post_refl]].
      destruct (any_flag pin); [|exists false, d, []; split; [reflexivity|now apply step_post_refl]].
      destruct (handle_ready_inv d pin I Efd Hpre) as (io & d1 & e1 & E & I1 & S1 & Q1 & C1 & N1 & R1 & L1 & LP1 & _).
      exists io, d1, e1. split; [exact E|]. constructor; auto; try apply tmo_le_refl.
      - rewrite C1, Q1. reflexivity.
      - left. auto. }
    destruct H0 as (ioerr & d1 & e1 & -> & SP1).
    pose proof (st_inv _ _ _ _ _ _ _ _ SP1) as I1.
    pose proof (conn_rel_rc _ _ _ _ (st_conn _ _ _ _ _ _ _ _ SP1) Hrc) as Hrc1.
    (* 2. reconnect *)
    assert (H2 : exists d2 e2 tmo2 pl, (if ioerr || Z.eqb (dv_cstate d1) DEV_NOT_CONNECTED then reconnect now d1 tmo (pi_plans pin) else Ok (d1, [], tmo, pi_plans pin)) = Ok (d2, e2, tmo2, pl) /\
                 step_post now d1 store tmo d2 store tmo2 e2).
    { destruct (ioerr || Z.eqb (dv_cstate d1) DEV_NOT_CONNECTED).
      - destruct (reconnect_inv now d1 tmo (pi_plans pin) (DInv_QInv d1 I1) (fun _ => I1) Hp) as (d2 & e2 & tmo2 & pl & E & I2 & S2 & Q2 & C2 & P2 & L2 & LP2 & _).
        exists d2, e2, tmo2, pl. split; [exact E|]. constructor; auto.
        + rewrite C2, Q2. reflexivity.
        + eapply reconnect_conn. exact E.
      - exists d1, [], tmo, (pi_plans pin). split; [reflexivity|now apply step_post_refl]. }
    destruct H2 as (d2 & e2 & tmo2 & pl & -> & SP2).
    pose proof (st_inv _ _ _ _ _ _ _ _ SP2) as I2.
    pose proof (conn_rel_rc _ _ _ _ (st_conn _ _ _ _ _ _ _ _ SP2) Hrc1) as Hrc2.
    (* 3. ping *)
    assert (H3 : exists d3 tmo3, (if connected d2 then enqueue_ping now d2 tmo2 else (d2, tmo2)) = (d3, tmo3) /\ step_post now d2 store tmo2 d3 store tmo3 []).
    { destruct (connected d2); [|exists d2, tmo2; split; [reflexivity|apply step_post_refl; [exact I2|exact (st_pos _ _ _ _ _ _ _ _ SP2)]]].
      destruct (enqueue_ping now d2 tmo2) as [d3 tmo3] eqn:E.
      destruct (enqueue_ping_inv now d2 tmo2 d3 tmo3 I2 (st_pos _ _ _ _ _ _ _ _ SP2) E) as (I3 & S3 & Q3 & P3 & L3 & C3 & R3 & LR3 & _).
      exists d3, tmo3. split; [reflexivity|]. constructor; auto.
      - unfold enqueue_ping in E. destruct (assoc_script PM_PING (dv_scripts d2)); [|inversion E; subst; auto].
        destruct (Z.eqb (dv_ping_period d2) 0); [inversion E; subst; auto|].
        destruct (_ <=? now); inversion E; subst; auto.
      - left. auto. }
    destruct H3 as (d3 & tmo3 & -> & SP3).
    pose proof (st_inv _ _ _ _ _ _ _ _ SP3) as I3.
    pose proof (conn_rel_rc _ _ _ _ (st_conn _ _ _ _ _ _ _ _ SP3) Hrc2) as Hrc3.
    (* 4. the queue *)
    pose proof (process_action_inv (pa_fuel d3) now d3 store tmo3 pl (e1 ++ e2) I3 (st_pos _ _ _ _ _ _ _ _ SP3) Hrc3) as H4.
    destruct (process_action rmatch compress sc (pa_fuel d3) now d3 store tmo3 pl (e1 ++ e2)) as [[[[[d4 st4] tmo4] pl4] e4]| | | |]; try contradiction; [|exact Logic.I].
    destruct H4 as (e5 & -> & SP4 & TK). split; [|exact TK].
    pose proof (step_post_trans _ _ _ _ _ _ _ _ _ _ _ _ Hrc SP1 SP2) as SP12.
    pose proof (step_post_trans _ _ _ _ _ _ _ _ _ _ _ _ Hrc SP12 SP3) as SP123. rewrite app_nil_r in SP123.
    exact (step_post_trans _ _ _ _ _ _ _ _ _ _ _ _ Hrc SP123 SP4).
  Qed.
End Inv.
