From Coq Require Import List ZArith Bool Lia.
From PM Require Import Gen.GenConsts Model.Xpoll.
Import ListNotations.
Local Open Scope Z_scope.
Ltac Zify.zify_post_hook ::= Z.div_mod_to_equations.

Lemma ms_of_nonneg t : 0 <= t -> 0 <= ms_of t.
Proof. intros H. unfold ms_of. lia. Qed.
Lemma ms_of_le t : 0 <= t -> ms_of t * 1000 <= t.
Proof. intros H. unfold ms_of. lia. Qed.
Lemma ms_of_close t : 0 <= t -> t - 1000 < ms_of t * 1000.
Proof. intros H. unfold ms_of. lia. Qed.
Lemma ms_of_mono a b : 0 <= a <= b -> ms_of a <= ms_of b.
Proof. intros H. unfold ms_of. lia. Qed.

Lemma clamps : XPOLL_CLAMPS_REMAINDER = true. Proof. reflexivity. Qed.      (* source fact (F39) *)

(* every time-out xpoll hands to poll is a real time-out: never negative, i.e. never "forever" when the caller asked for a
   finite wait; and waking up after it does not overshoot the caller's deadline *)
Theorem xpoll_never_infinite tv start intr : 0 <= tv -> Forall (fun e => start <= e) intr ->
  Forall (fun ms => 0 <= ms) (xpoll_timeouts (Some tv) start intr).
Proof.
  intros Ht Hi. unfold xpoll_timeouts. constructor; [now apply ms_of_nonneg|].
  rewrite Forall_map. eapply Forall_impl; [|exact Hi]. cbn beta. intros e He.
  unfold remaining. rewrite clamps. destruct ((tv - (e - start)) / 1000000 <? 0) eqn:E; [cbn; lia|].
  apply Z.ltb_ge in E. apply ms_of_nonneg. lia.
Qed.

Theorem xpoll_within_deadline tv start e : 0 <= tv -> start <= e ->
  let ms := ms_of (remaining tv start e) in
  (e - start) + ms * 1000 <= Z.max tv (e - start) /\ (e - start < tv -> tv - 1000 < (e - start) + ms * 1000).
Proof.
  intros Ht He. cbv zeta. unfold remaining. rewrite clamps.
  destruct ((tv - (e - start)) / 1000000 <? 0) eqn:E.
  - apply Z.ltb_lt in E. split; [cbn; lia|intros H; exfalso; lia].
  - apply Z.ltb_ge in E. assert (H0 : 0 <= tv - (e - start)) by lia.
    pose proof (ms_of_le _ H0). pose proof (ms_of_close _ H0). split; lia.
Qed.

(* without the clamp (the code before the repair): a clock reading 100 us past a 2 s deadline gives poll(-1) *)
Theorem xpoll_unrepaired_refuted : ms_of (2000000 - (1002000100 - 1000000000)) = -1.
Proof. reflexivity. Qed.
