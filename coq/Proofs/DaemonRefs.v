(* No stale reference to a result list (C20 "no leaks / no use after free", arglist.c): over one pass of the select loop -
   hence over any history - the set of result lists that something refers to (a command in progress, or an action queued
   on a device) only changes by (a) new lists, handed out in order at the end of the store, and (b) lists dropping out;
   a list that nothing refers to any more is never referred to again.  Together with C11_result_lists (a list is
   referred to by its command and by that command's queued actions only) this is the reference-counting discipline of
   arglist.c seen from the model: the last reference disappears exactly when the command has completed and its last
   action has left the queues, and nothing can touch the list afterwards. *)
From Coq Require Import List NArith ZArith Bool Lia.
From PM Require Import Base.Bytes Base.Outcome Gen.GenConsts Model.ScriptAst Model.Enqueue Model.Script Model.Device Model.Client Model.CliWorld Model.Daemon
                       Proofs.ClientProofs Proofs.DeviceProofs Proofs.DeviceStmt Proofs.DeviceInv Proofs.DeviceInvG Proofs.DeviceRunG Proofs.DeviceHang Proofs.DeviceSlots
                       Proofs.DaemonLedger Proofs.DaemonFrame Proofs.DaemonSlots Proofs.DaemonPending Proofs.DaemonDeadline.
From PM Require Model.Telnet.
Import ListNotations.
Local Open Scope Z_scope.

Section R.
  Variable expand_str : text -> option (list text).
  Variable ranged_sorted : list text -> text.
  Variable ranged_plain : list text -> text.
  Variable sorted : list text -> list text.
  Variable rmatch : text -> text -> option pmatch.
  Variable compress : list text -> text.
  Variable short_circuit : bool.

  Notation handle_input := (handle_input expand_str ranged_sorted ranged_plain sorted).
  Notation cli_one := (cli_one expand_str ranged_sorted ranged_plain sorted).
  Notation cli_loop := (cli_loop expand_str ranged_sorted ranged_plain sorted).
  Notation cli_post_poll := (cli_post_poll expand_str ranged_sorted ranged_plain sorted).
  Notation dev_loop := (dev_loop ranged_sorted rmatch compress short_circuit).
  Notation dstep := (dstep expand_str ranged_sorted ranged_plain sorted rmatch compress short_circuit).

  Lemma fold_append_incl client tele args : forall (qs : list qact) d d',
    fold_left (fun od a => match od with Ok x => append_client_action x a client tele args | e => e end) qs (Ok d) = Ok d' ->
    incl (dslots d') ((client, args) :: dslots d).
  Proof.
    induction qs as [|q r IH]; intros d d' H; cbn [fold_left] in H.
    - inversion H; subst. apply incl_tl, incl_refl.
    - unfold append_client_action at 2 in H. destruct (assoc_script (qa_com q) (dv_scripts d)) as [s|].
      + apply IH in H. intros p Hp. apply H in Hp. destruct Hp as [<-|Hp]; [now left|].
        unfold dslots in Hp. cbn [dv_acts set_acts] in Hp. rewrite slots_app in Hp. apply in_app_or in Hp as [Hp|Hp]; [now right|].
        cbn in Hp. destruct Hp as [<-|[]]. now left.
      + exfalso. clear -H. induction r as [|q' r IHr]; cbn in H; [discriminate|auto].
  Qed.

  Lemma enq_all_incl client tele args : forall devs q devs',
    enq_all devs q client tele args = Ok devs' -> incl (aslots devs') ((client, args) :: aslots devs).
  Proof.
    induction devs as [|d r IH]; intros q devs' H; cbn [enq_all] in H.
    - inversion H; subst. intros p [].
    - destruct q as [|[nm acts] qr]; [inversion H; subst; apply incl_tl, incl_refl|].
      match type of H with match ?e with _ => _ end = _ => destruct e as [d1| | | |] eqn:E1; try discriminate end.
      destruct (enq_all r qr client tele args) as [r'| | | |] eqn:E2; try discriminate.
      inversion H; subst. pose proof (fold_append_incl client tele args acts d d1 E1) as B. pose proof (IH qr r' E2) as D.
      assert (A2 : dslots (match acts with [] => d1 | _ => expedite d1 end) = dslots d1).
      { destruct acts; [reflexivity|]. unfold expedite. destruct (connected d1); reflexivity. }
      unfold aslots in *. cbn [flat_map]. rewrite A2. intros p Hp. apply in_app_or in Hp as [Hp|Hp].
      + apply B in Hp. destruct Hp as [<-|Hp]; [now left|right; apply in_or_app; now left].
      + apply D in Hp. destruct Hp as [<-|Hp]; [now left|right; apply in_or_app; now right].
  Qed.

  Lemma handle_input_ref fuel : forall st i acc st' evs, handle_input fuel st i acc = Ok (st', evs) -> Ref_mono st st'.
  Proof.
    induction fuel as [|f IH]; intros st i acc st' evs; cbn [Daemon.handle_input]; [intros H; inversion H; subst; apply Ref_mono_refl|].
    destruct (nth_error (dm_clients st) i) as [x|] eqn:En; [|intros H; inversion H; subst; apply Ref_mono_refl].
    destruct (take_line [] (dc_from x)) as [[line rest]|]; [|intros H; inversion H; subst; apply Ref_mono_refl].
    destruct (parse_input expand_str ranged_sorted ranged_plain sorted (cconf_of st) (dm_store st) (dc x) line) as [[[cf' store'] c'] q] eqn:Ep.
    set (x' := set_dc c' (mkDcli (dc x) rest (dc_to x) (dc_nl x) (S (dc_lines x)) (dc_eof x) (dc_bad x) (dc_sent x))).
    assert (Hdc : dc x' = c') by reflexivity.
    destruct (cl_cmd (dc x)) as [k|] eqn:Ek.
    - destruct (parse_busy_q expand_str ranged_sorted ranged_plain sorted _ _ _ _ _ _ _ _ k Ek Ep) as [-> Hk'].
      rewrite (parse_busy_store expand_str ranged_sorted ranged_plain sorted _ _ _ _ _ _ _ _ k Ek Ep).
      intros H. apply IH in H. eapply Ref_mono_trans; [|exact H].
      refine (Ref_mono_eq _ _ _ _ _ _ (Ref_mono_upd_client st i x x' En _)); try reflexivity.
      unfold cmd_slot. rewrite Hdc, Hk', Ek. reflexivity.
    - destruct (parse_idle expand_str ranged_sorted ranged_plain sorted _ _ _ _ _ _ _ _ Ek Ep) as [(-> & Hn' & Hst' & _)|(k & al & Hk' & Hst' & _ & Htot & Hka & _ & _ & Hid & _)].
      + rewrite Hst'. intros H. apply IH in H. eapply Ref_mono_trans; [|exact H].
        refine (Ref_mono_eq _ _ _ _ _ _ (Ref_mono_upd_client st i x x' En _)); try reflexivity.
        unfold cmd_slot. rewrite Hdc, Hn', Ek. reflexivity.
      + destruct q as [|q0 qr]; [cbn in Htot; lia|].
        match goal with |- match ?e with _ => _ end = _ -> _ => destruct e as [devs'| | | |] eqn:Ee; try discriminate end.
        intros H. apply IH in H. eapply Ref_mono_trans; [|exact H]. rewrite Hst'.
        apply (Ref_mono_enqueue st i x x' devs' al); [exact En|unfold cmd_slot; rewrite Hdc, Hk', Hka; reflexivity|].
        exact (enq_all_incl _ _ _ _ _ _ Ee).
  Qed.

  Lemma cli_one_ref st i ci st' evs dead : cli_one st i ci = Ok (st', evs, dead) -> Ref_mono st st'.
  Proof.
    unfold Daemon.cli_one. destruct (nth_error (dm_clients st) i) as [x|] eqn:En; [|intros H; inversion H; subst; apply Ref_mono_refl].
    destruct (ci_bad ci); [intros H; inversion H; subst; apply Ref_mono_refl|].
    match goal with |- context [if ci_in ci then ?a else x] => set (x1 := if ci_in ci then a else x) end.
    assert (H1 : cmd_slot x1 = cmd_slot x) by (unfold x1; destruct (ci_in ci); [destruct (ci_read ci) as [[|b r]|]|]; reflexivity).
    clearbody x1.
    match goal with |- context [let '(x2, w) := ?e in _] => destruct e as [x2 w] eqn:E2 end.
    assert (H2 : cmd_slot x2 = cmd_slot x) by (destruct (ci_out ci); [destruct (ci_wrote ci)|]; inversion E2; subst; exact H1).
    match goal with |- match ?e with _ => _ end = _ -> _ => destruct e as [[st2 evs2]| | | |] eqn:Eh; try discriminate end.
    intros H; inversion H; subst. apply handle_input_ref in Eh. eapply Ref_mono_trans; [|exact Eh].
    exact (Ref_mono_upd_client st i x x2 En H2).
  Qed.

  Lemma cli_loop_ref : forall cins st i acc st' evs, cli_loop st i cins acc = Ok (st', evs) -> Ref_mono st st'.
  Proof.
    induction cins as [|ci r IH]; intros st i acc st' evs; cbn [Daemon.cli_loop]; [intros H; inversion H; subst; apply Ref_mono_refl|].
    destruct (cli_one st i ci) as [[[st1 evs1] dead]| | | |] eqn:E1; try discriminate.
    apply cli_one_ref in E1. destruct dead; intros H; apply IH in H.
    - eapply Ref_mono_trans; [exact E1|]. eapply Ref_mono_trans; [apply (Ref_mono_remove st1 i)|exact H].
    - eapply Ref_mono_trans; eauto.
  Qed.

  Lemma cli_post_poll_ref st r st' evs : cli_post_poll st r = Ok (st', evs) -> Ref_mono st st'.
  Proof.
    unfold Daemon.cli_post_poll. destruct (r_accept r); [|apply cli_loop_ref].
    destruct (next_id (dm_seq st)) as [id seq']. intros H. apply cli_loop_ref in H.
    eapply Ref_mono_trans; [|exact H]. apply Ref_mono_accept. reflexivity.
  Qed.

  (* the devices from index i on satisfy the device invariant and carry callbacks with their lists *)
  Definition devs_from (i : nat) (st : daemon) : Prop :=
    forall j d, (i <= j)%nat -> nth_error (dm_devs st) j = Some d -> DInvRG compress d /\ ArgsCb d.

  Lemma dev_loop_ref n : forall now st i pins tmo acc st' tmo' evs,
    devs_from i st -> tmo_pos tmo -> dev_loop n now st i pins tmo acc = Ok (st', tmo', evs) -> Ref_mono st st'.
  Proof.
    induction n as [|n IH]; intros now st i pins tmo acc st' tmo' evs Hd Hp; cbn [Daemon.dev_loop]; [intros H; inversion H; subst; apply Ref_mono_refl|].
    destruct (nth_error (dm_devs st) i) as [d|] eqn:En; [|intros H; inversion H; subst; apply Ref_mono_refl].
    destruct (with_pre (nth i (dm_pipe st) true) (nth i (dm_tel st) Telnet.telnet_init) (hd passin0 pins)) as [pin t1].
    destruct (Hd i d (le_n i) En) as [[I Hrc] Hcb].
    pose proof (post_poll_one_inv_pre rmatch compress short_circuit now d (dm_store st) tmo pin I Hp Hrc) as H1.
    pose proof (post_poll_one_slots rmatch compress short_circuit now d (dm_store st) tmo pin I Hcb Hp Hrc) as HS.
    destruct (post_poll_one rmatch compress short_circuit now d (dm_store st) tmo pin) as [[[[d' store'] tmo1] evs1]| | | |]; try discriminate.
    destruct H1 as [SP _].
    match goal with |- context [route_all ranged_sorted ?s evs1] => set (st1 := s) end.
    destruct (route_all ranged_sorted st1 evs1) as [st2| | | |] eqn:Er; try discriminate.
    destruct (route_all_ids ranged_sorted evs1 st1 st2 Er) as (A1 & A2 & A3 & A4).
    intros H. apply IH in H.
    - eapply Ref_mono_trans; [|exact H].
      apply (Ref_mono_dev_step st st2 i d d' En); [rewrite A4; exact HS|rewrite A2; reflexivity| |].
      + pose proof (f_equal (@length Z) A1) as Hl. unfold ids in Hl. rewrite !map_length in Hl. exact Hl.
      + intros p x Hx. exact (route_all_cmd ranged_sorted evs1 st1 st2 Er p x Hx).
    - (* the devices behind i are untouched *)
      intros j dj Hj Hn. rewrite A2 in Hn. unfold st1 in Hn. cbn [dm_devs] in Hn. rewrite nth_error_upd_nth_ne in Hn by lia. apply (Hd j dj); [lia|exact Hn].
    - exact (tg_pos _ _ _ _ _ _ _ _ _ SP).
  Qed.

  Theorem dstep_ref st r st' o : DPInv compress st -> NL st -> 1 <= dm_seq st < INT_MAX -> dstep st r = Ok (st', o) -> Ref_mono st st'.
  Proof.
    intros I Hnl Hseq. unfold Daemon.dstep.
    destruct (cli_post_poll st r) as [[st1 e1]| | | |] eqn:E1; try discriminate.
    destruct (dev_loop (length (dm_devs st1)) (r_now r) st1 0 (r_dev r) None []) as [[[st2 tmo] e2]| | | |] eqn:E2; try discriminate.
    intros H; inversion H; subst.
    (* the invariant of the state the client pass leaves: from the step theorem applied to a round without device work *)
    assert (I1 : DPInv compress st1).
    { destruct (cli_post_poll_inv expand_str ranged_sorted ranged_plain sorted rmatch compress st r I Hnl Hseq) as (sx & ex & Ex & Ix & _).
      rewrite E1 in Ex. inversion Ex; subst. exact Ix. }
    eapply Ref_mono_trans; [exact (cli_post_poll_ref _ _ _ _ E1)|].
    assert (Hdv : devs_from 0 st1).
    { intros j d _ Hn. pose proof (dp_devs _ _ I1) as Hd. pose proof (si_cb _ (dp_slots _ _ I1)) as Hc. rewrite Forall_forall in Hd, Hc.
      split; [apply DInvH_RG, Hd|apply Hc]; eapply nth_error_In; exact Hn. }
    assert (Htp : tmo_pos None) by (intros x Hx; discriminate Hx).
    exact (dev_loop_ref _ _ _ _ _ _ _ _ _ _ Hdv Htp E2).
  Qed.

  Theorem drun_ref : forall rs st acc st' outs, DPInv compress st -> NL st -> 1 <= dm_seq st -> dm_seq st + Z.of_nat (length rs) <= INT_MAX ->
    drun expand_str ranged_sorted ranged_plain sorted rmatch compress short_circuit st rs acc = Ok (st', outs) -> Ref_mono st st'.
  Proof.
    induction rs as [|r rs IH]; intros st acc st' outs I Hnl H1 Hn; cbn [drun]; [intros H; inversion H; subst; apply Ref_mono_refl|].
    cbn [length] in Hn.
    pose proof (dstep_inv expand_str ranged_sorted ranged_plain sorted rmatch compress short_circuit st r I Hnl ltac:(lia)) as Hs.
    destruct (dstep st r) as [[st1 o]| | | |] eqn:E1; try discriminate.
    destruct Hs as (I1 & N1 & _ & _ & S1). intros H.
    eapply Ref_mono_trans; [exact (dstep_ref st r st1 o I Hnl ltac:(lia) E1)|].
    exact (IH st1 (acc ++ [o]) st' outs I1 N1 ltac:(lia) ltac:(lia) H).
  Qed.
End R.
