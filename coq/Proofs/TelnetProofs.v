(* The telnet filter (Model/Telnet.v, following the code with the F13 fix) against the whole-stream decoder
   Spec/TelnetSpec.v: one step, one read, and any sequence of reads interleaved with consumption. *)
From Coq Require Import List ZArith NArith Bool Lia.
From PM Require Import Base.Bytes Gen.GenConsts Gen.GenCbuf Model.Cbuf Model.Telnet Spec.Fifo Spec.TelnetSpec
  Proofs.CbufList.
Import ListNotations.
Local Open Scope Z_scope.

(* facts about the generated telnet bytes the proofs rely on *)
Lemma iac_is_255 : T_IAC = 255%N.
Proof. reflexivity. Qed.
Lemma optcmd_not_iac c : is_optcmd c = true -> N.eqb c T_IAC = false.
Proof.
  unfold is_optcmd. rewrite !orb_true_iff, !N.eqb_eq. intros [[[->| ->]| ->]| ->]; reflexivity.
Qed.

(* ---- model state vs decoder state ---- *)
Definition rel (t : tcp) (st : dstate) : Prop :=
  match t_state t, st with
  | TELNET_NONE, DNone => True
  | TELNET_CMD, DCmd => True
  | TELNET_OPT, DOpt c => t_cmd t = c
  | _, _ => False
  end.

Lemma rel_init : rel telnet_init DNone.
Proof. exact I. Qed.

Lemma answer_recvopt c o :
  answer c o = match recvopt c o with Some r => sendopt_bytes r | None => [] end.
Proof.
  unfold answer, recvopt, will_opts, wont_opts, mem. cbn [existsb]. rewrite !orb_false_r.
  destruct (N.eqb c T_DO); [|reflexivity].
  destruct (N.eqb o TELOPT_SGA || N.eqb o TELOPT_TM); [reflexivity|].
  rewrite <- !orb_assoc.
  destruct (N.eqb o TELOPT_TTYPE || (N.eqb o TELOPT_NAWS || (N.eqb o TELOPT_NEW_ENVIRON || (N.eqb o TELOPT_XDISPLOC
            || (N.eqb o TELOPT_TSPEED || (N.eqb o TELOPT_ECHO || (N.eqb o TELOPT_LFLOW || N.eqb o TELOPT_BINARY))))))); reflexivity.
Qed.

Lemma step_dstep t st b t' d o : rel t st -> step t b = (t', d, o) ->
  exists st', dstep st b = (st', d, flat_map sendopt_bytes o) /\ rel t' st'.
Proof.
  unfold rel, step. destruct t as [ts tc]. cbn [t_state t_cmd].
  destruct ts, st; try contradiction; intros R.
  - cbn [dstep]. destruct (N.eqb b T_IAC); intros E; inversion E; subst; clear E.
    + exists DCmd. split; [reflexivity|exact I].
    + exists DNone. split; [reflexivity|exact I].
  - cbn [dstep]. destruct (N.eqb b T_IAC) eqn:Eb.
    + intros E; inversion E; subst; clear E. apply N.eqb_eq in Eb. subst b. exists DNone.
      split; [rewrite iac_is_255; reflexivity|exact I].
    + unfold is_optcmd.
      replace (N.eqb b T_DO || N.eqb b T_DONT || N.eqb b T_WILL || N.eqb b T_WONT)
        with (N.eqb b T_DONT || N.eqb b T_DO || N.eqb b T_WILL || N.eqb b T_WONT)
        by (destruct (N.eqb b T_DO), (N.eqb b T_DONT); reflexivity).
      destruct (N.eqb b T_DONT || N.eqb b T_DO || N.eqb b T_WILL || N.eqb b T_WONT);
        intros E; inversion E; subst; clear E.
      * exists (DOpt b). split; [reflexivity|]. cbn. reflexivity.
      * exists DNone. split; [reflexivity|exact I].
  - cbn [dstep]. intros E; inversion E; subst; clear E. exists DNone. split; [|exact I].
    rewrite answer_recvopt. destruct (recvopt cmd b); cbn [flat_map app]; rewrite ?app_nil_r; reflexivity.
Qed.

Lemma filter_decode s : forall t st t' d o, rel t st -> filter t s = (t', d, o) ->
  exists st', decode st s = (st', d, flat_map sendopt_bytes o) /\ rel t' st'.
Proof.
  induction s as [|b r IH]; intros t st t' d o R; cbn [filter decode].
  - intros E; inversion E; subst. exists st. split; [reflexivity|assumption].
  - destruct (step t b) as [[t1 d1] o1] eqn:Es.
    destruct (filter t1 r) as [[t2 d2] o2] eqn:Ef.
    intros E; inversion E; subst; clear E.
    destruct (step_dstep _ _ _ _ _ _ R Es) as (st1 & D1 & R1).
    destruct (IH _ _ _ _ _ R1 Ef) as (st2 & D2 & R2).
    exists st2. rewrite D1, D2. rewrite flat_map_app. split; [reflexivity|assumption].
Qed.

(* ---- compositionality of the decoder ---- *)
Lemma decode_app a : forall st b,
  decode st (a ++ b) =
  match decode st a with
  | (st1, d1, a1) => match decode st1 b with (st2, d2, a2) => (st2, d1 ++ d2, a1 ++ a2) end
  end.
Proof.
  induction a as [|x a IH]; intros st b; cbn [app decode].
  - destruct (decode st b) as [[st2 d2] a2]. reflexivity.
  - destruct (dstep st x) as [[st1 d1] a1]. rewrite IH.
    destruct (decode st1 a) as [[st2 d2] a2]. destruct (decode st2 b) as [[st3 d3] a3].
    rewrite !app_assoc. reflexivity.
Qed.

(* ---- the stateful decoder is the whole-stream parser ---- *)
Definition wf (st : dstate) : Prop := match st with DOpt c => is_optcmd c = true | _ => True end.
Definition pending (st : dstate) (s : list byte) : list byte :=
  match st with DNone => s | DCmd => T_IAC :: s | DOpt c => T_IAC :: c :: s end.

Lemma decode_parse s : forall st, wf st ->
  match decode st s with (_, d, a) => parse (pending st s) = (d, a) end.
Proof.
  induction s as [|b r IH]; intros st W.
  - cbn [decode]. destruct st as [| |c]; cbn [pending parse]; rewrite ?N.eqb_refl; try reflexivity.
    cbn [wf] in W. rewrite (optcmd_not_iac _ W), W. reflexivity.
  - cbn [decode]. destruct st as [| |c]; cbn [pending dstep].
    + (* DNone *)
      cbn [parse]. destruct (N.eqb b T_IAC) eqn:Eb.
      * apply N.eqb_eq in Eb. subst b. specialize (IH DCmd I). cbn [pending] in IH.
        destruct (decode DCmd r) as [[st2 d2] a2]. cbn [app]. exact IH.
      * specialize (IH DNone I). cbn [pending] in IH.
        destruct (decode DNone r) as [[st2 d2] a2]. rewrite IH. reflexivity.
    + (* DCmd *)
      cbn [parse]. rewrite N.eqb_refl.
      destruct (N.eqb b T_IAC) eqn:Eb.
      * specialize (IH DNone I). cbn [pending] in IH.
        destruct (decode DNone r) as [[st2 d2] a2]. rewrite IH. reflexivity.
      * destruct (is_optcmd b) eqn:Eo.
        -- specialize (IH (DOpt b) Eo). cbn [pending parse] in IH. rewrite N.eqb_refl, Eb, Eo in IH.
           destruct (decode (DOpt b) r) as [[st2 d2] a2]. cbn [app]. exact IH.
        -- specialize (IH DNone I). cbn [pending] in IH.
           destruct (decode DNone r) as [[st2 d2] a2]. cbn [app]. exact IH.
    + (* DOpt c *)
      cbn [wf] in W. cbn [parse]. rewrite N.eqb_refl, (optcmd_not_iac _ W), W.
      specialize (IH DNone I). cbn [pending] in IH.
      destruct (decode DNone r) as [[st2 d2] a2]. rewrite IH. reflexivity.
Qed.

Lemma decode_none_parse s st d a : decode DNone s = (st, d, a) -> data s = d /\ replies s = a.
Proof.
  intros E. pose proof (decode_parse s DNone I) as P. rewrite E in P. cbn [pending] in P.
  unfold data, replies. rewrite P. split; reflexivity.
Qed.

(* the decoder only ever enters DOpt with an option command *)
Lemma dstep_wf st b : wf st -> wf (fst (fst (dstep st b))).
Proof.
  destruct st; cbn [dstep wf]; intros W.
  - destruct (N.eqb b T_IAC); exact I.
  - destruct (N.eqb b T_IAC); [exact I|]. destruct (is_optcmd b) eqn:E; [exact E|exact I].
  - exact I.
Qed.

(* ---- the filter only removes bytes ---- *)
Lemma filter_subseq s : forall t t' d o, filter t s = (t', d, o) ->
  zlen d <= zlen s /\ (zlen d = zlen s -> d = s).
Proof.
  induction s as [|b r IH]; intros t t' d o; cbn [filter].
  - intros E; inversion E; subst. split; [lia|reflexivity].
  - destruct (step t b) as [[t1 d1] o1] eqn:Es. destruct (filter t1 r) as [[t2 d2] o2] eqn:Ef.
    intros E; inversion E; subst; clear E. destruct (IH _ _ _ _ Ef) as (L & Q).
    rewrite zlen_app, zlen_cons.
    assert (D : d1 = [] \/ d1 = [b]).
    { unfold step in Es. destruct (t_state t).
      - destruct (N.eqb b T_IAC); inversion Es; auto.
      - destruct (N.eqb b T_IAC); [inversion Es; auto|].
        destruct (N.eqb b T_DONT || N.eqb b T_DO || N.eqb b T_WILL || N.eqb b T_WONT); inversion Es; auto.
      - inversion Es; auto. }
    destruct D as [-> | ->].
    + change (zlen (@nil byte)) with 0. split; [lia|]. intros; lia.
    + rewrite zlen_cons. change (zlen (@nil byte)) with 0. split; [lia|].
      intros E. cbn [app]. f_equal. apply Q. lia.
Qed.

(* ---- one read at the level of buffer contents ---- *)
Lemma preprocess_read t content chunk t' d o : filter t chunk = (t', d, o) ->
  preprocess t (content ++ chunk) (zlen chunk) = (t', content ++ d, flat_map sendopt_bytes o).
Proof.
  intros E. unfold preprocess. rewrite zlen_app.
  replace (zlen content + zlen chunk - zlen chunk) with (zlen content) by lia.
  rewrite ztake_app_exact, zdrop_app_exact, E. reflexivity.
Qed.

(* ---- any sequence of reads and consumptions ---- *)
Inductive event := Read (chunk : list byte) | Consume (n : Z).

Record lstate := mkL { l_tcp : tcp; l_content : list byte; l_consumed : list byte; l_replies : list byte }.

Definition lstep (s : lstate) (e : event) : lstate :=
  match e with
  | Read chunk =>
      match preprocess (l_tcp s) (l_content s ++ chunk) (zlen chunk) with
      | (t', c', r) => mkL t' c' (l_consumed s) (l_replies s ++ r)
      end
  | Consume n => mkL (l_tcp s) (zdrop n (l_content s)) (l_consumed s ++ ztake n (l_content s)) (l_replies s)
  end.

Definition linit : lstate := mkL telnet_init [] [] [].
Definition stream_of (evs : list event) : list byte :=
  flat_map (fun e => match e with Read c => c | Consume _ => [] end) evs.

Definition linv (s : lstate) (stream : list byte) : Prop :=
  exists st, decode DNone stream = (st, l_consumed s ++ l_content s, l_replies s) /\ rel (l_tcp s) st.

Lemma lstep_inv s stream e : linv s stream ->
  linv (lstep s e) (stream ++ match e with Read c => c | Consume _ => [] end).
Proof.
  intros (st & D & R). destruct e as [chunk|n]; cbn [lstep].
  - destruct (filter (l_tcp s) chunk) as [[t' d] o] eqn:Ef.
    rewrite (preprocess_read _ _ _ _ _ _ Ef).
    destruct (filter_decode _ _ _ _ _ _ R Ef) as (st' & D' & R').
    exists st'. cbn [l_tcp l_content l_consumed l_replies].
    rewrite decode_app, D, D'. rewrite app_assoc. split; [reflexivity|assumption].
  - rewrite app_nil_r. exists st. cbn [l_tcp l_content l_consumed l_replies].
    rewrite <- app_assoc, ztake_zdrop. split; assumption.
Qed.

Lemma lrun_inv evs : forall s stream, linv s stream -> linv (fold_left lstep evs s) (stream ++ stream_of evs).
Proof.
  induction evs as [|e evs IH]; intros s stream Hs; cbn [fold_left stream_of flat_map].
  - rewrite app_nil_r. assumption.
  - rewrite app_assoc. apply IH. apply lstep_inv. assumption.
Qed.

Lemma linit_inv : linv linit [].
Proof. exists DNone. split; [reflexivity|exact I]. Qed.

(* for every way of cutting the stream into reads and every interleaved consumption, what was consumed
   followed by what is still unread is the decoding of the whole stream, and the replies are its replies *)
Theorem telnet_all_chunkings evs :
  let s := fold_left lstep evs linit in
  l_consumed s ++ l_content s = data (stream_of evs) /\ l_replies s = replies (stream_of evs).
Proof.
  cbv zeta. destruct (lrun_inv evs linit [] linit_inv) as (st & D & _). cbn [app] in D.
  apply decode_none_parse in D. destruct D as (-> & ->). split; reflexivity.
Qed.
